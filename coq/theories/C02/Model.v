(* C02 — a proxy call behaves like a direct call: what the transport layer may touch.
   Transcribes the address handling of
     qmi/core/messaging.py  _PeerTcpConnection.send_message (destination alias -> real peer name),
                            _PeerTcpConnection._process_message (destination / source checks, source
                            name -> local alias)
     qmi/core/context.py    QMI_Context.make_unique_address (counter under a lock)
   The payload of a message (method name, args, kwargs, lock token, result state, result,
   request id) is an abstract value: the transport never looks at it.  Pickling is a pair of
   Section variables with the round-trip law as hypothesis (trusted; exercised by the harness). *)
From Coq Require Export List Arith Bool Lia.
Export ListNotations.

Record addr := mkAddr { actx : nat; aobj : nat }.     (* context name, object (handler) name *)

Section Msg.
  Variable P : Type.                                   (* payload *)
  Record msg := mkMsg { src : addr; dst : addr; pay : P }.

  (* send_message: the destination context must be the alias under which we know the peer; it is
     replaced by the peer's real name *)
  Definition send_rewrite (alias peer : nat) (m : msg) : option msg :=
    if Nat.eqb (actx (dst m)) alias then Some (mkMsg (src m) (mkAddr peer (aobj (dst m))) (pay m)) else None.

  (* _process_message: destination must be us, source must be the peer's real name; the source is
     rewritten to our alias for the peer *)
  Definition recv_rewrite (me peer alias : nat) (m : msg) : option msg :=
    if Nat.eqb (actx (dst m)) me then
      if Nat.eqb (actx (src m)) peer then Some (mkMsg (mkAddr alias (aobj (src m))) (dst m) (pay m)) else None
    else None.

  Variable bytes : Type.
  Variable ser : msg -> option bytes.                  (* pickle.dumps, may fail *)
  Variable deser : bytes -> option msg.                (* pickle.loads *)

  (* one hop: sender (real name sname, knows the receiver as alias_r) -> receiver (real name rname,
     knows the sender as alias_s) *)
  Definition hop (sname rname alias_r alias_s : nat) (m : msg) : option msg :=
    match send_rewrite alias_r rname m with
    | Some m1 => match ser m1 with
                 | Some b => match deser b with
                             | Some m2 => recv_rewrite rname sname alias_s m2
                             | None => None
                             end
                 | None => None
                 end
    | None => None
    end.
End Msg.

(* make_unique_address: prefix + counter, the counter incremented under a lock *)
Fixpoint issue_addresses (ctr : nat) (n : nat) : list nat :=
  match n with 0 => [] | S k => S ctr :: issue_addresses (S ctr) k end.
