(* C09 — proofs about the blocking, multi-reader transition system (Blocking.v): every run refines a
   history of the sequential model, so the theorems of Proofs.v carry over to ALL interleavings of any
   number of reader threads and arrivals. *)
Require Import QV.C09.Model QV.C09.Proofs QV.C09.Blocking.
From Coq Require Import Sorted.

Lemma run_snoc ops : forall s o,
  run s (ops ++ [o]) =
  (fst (step (fst (run s ops)) o), snd (run s ops) ++ [snd (step (fst (run s ops)) o)]).
Proof.
  induction ops as [|a ops IH]; intros s o.
  - cbn [app run fst snd]. destruct (step s o) as [s1 x]. reflexivity.
  - cbn [app]. cbn [run]. destruct (step s a) as [s1 x] eqn:Ea.
    rewrite IH. destruct (run s1 ops) as [s2 xs]. cbn [fst snd app]. reflexivity.
Qed.

Lemma returned_app a : forall b, returned (a ++ b) = returned a ++ returned b.
Proof. induction a as [|x a IH]; intros b; [reflexivity|]. destruct x; cbn; rewrite ?IH; reflexivity. Qed.

Lemma arrivals_app a : forall b, arrivals (a ++ b) = arrivals a ++ arrivals b.
Proof. induction a as [|x a IH]; intros b; [reflexivity|]. destruct x; cbn; rewrite ?IH; reflexivity. Qed.

(* the refinement relation: the receiver state is what the sequential model reaches on the ghost
   history, the deliveries are exactly what its Gets returned, the arrivals are the same *)
Definition Refines (c : nat) (p : policy) (ls : list blabel) (s : bst) : Prop :=
  base s = fst (run (init c p) (sops s)) /\
  map snd (dlv s) = returned (snd (run (init c p) (sops s))) /\
  arrivals (sops s) = barrivals ls.

Lemma barrivals_app a : forall b, barrivals (a ++ b) = barrivals a ++ barrivals b.
Proof. induction a as [|x a IH]; intros b; [reflexivity|]. destruct x; cbn; rewrite ?IH; reflexivity. Qed.

Lemma take_refines c p ls s r w g l :
  barrivals [l] = [] ->
  Refines c p ls s -> Refines c p (ls ++ [l]) (take s r w g).
Proof.
  intros Hl (Hb & Hd & Ha). unfold take, Refines.
  rewrite barrivals_app, Hl, app_nil_r.
  destruct (q (base s)) as [|[pp n] rest] eqn:Eq.
  - destruct g; cbn [base dlv sops].
    + rewrite run_snoc, arrivals_app, app_nil_r. cbn [fst snd]. rewrite <- Hb.
      unfold step. rewrite Eq. cbn [fst snd]. rewrite returned_app. cbn [returned]. rewrite app_nil_r.
      auto.
    + auto.
  - cbn [base dlv sops]. rewrite run_snoc, arrivals_app, app_nil_r. cbn [fst snd]. rewrite <- Hb.
    rewrite map_app, returned_app, Hd. unfold step. rewrite Eq. cbn. auto.
Qed.

Lemma bstep_refines c p ls s l s' :
  Refines c p ls s -> bstep s l = Some s' -> Refines c p (ls ++ [l]) s'.
Proof.
  intros HR Hs. destruct l as [x|r|r|r|r|]; cbn [bstep] in Hs.
  - inversion Hs; subst; clear Hs. destruct HR as (Hb & Hd & Ha). unfold Refines. cbn [base dlv sops].
    rewrite run_snoc, arrivals_app, barrivals_app. cbn [fst snd]. rewrite <- Hb, Ha.
    rewrite returned_app.
    assert (Ho : snd (step (base s) (Arrive x)) = ONone).
    { unfold step. destruct (Nat.eqb _ _); [destruct (pol (base s))|]; reflexivity. }
    rewrite Ho. cbn [returned arrivals barrivals]. rewrite app_nil_r. auto.
  - destruct (rd s r); try discriminate. inversion Hs; subst. apply take_refines; auto.
  - destruct (rd s r); try discriminate. inversion Hs; subst. apply take_refines; auto.
  - destruct (rd s r); try discriminate. inversion Hs; subst. apply take_refines; auto.
  - destruct HR as (Hb & Hd & Ha).
    destruct (rd s r); try discriminate; inversion Hs; subst; unfold Refines; cbn [base dlv sops];
      rewrite barrivals_app; cbn [barrivals]; rewrite app_nil_r; auto.
  - inversion Hs; subst; clear Hs. destruct HR as (Hb & Hd & Ha). unfold Refines. cbn [base dlv sops].
    rewrite run_snoc, arrivals_app, barrivals_app. cbn [fst snd]. rewrite <- Hb, Ha.
    rewrite returned_app. cbn [step snd returned arrivals barrivals]. rewrite !app_nil_r. auto.
Qed.

Lemma brun_refines_gen c p ls2 : forall ls1 s s',
  Refines c p ls1 s -> brun s ls2 = Some s' -> Refines c p (ls1 ++ ls2) s'.
Proof.
  induction ls2 as [|l ls2 IH]; intros ls1 s s' HR Hrun; cbn [brun] in Hrun.
  - inversion Hrun; subst. rewrite app_nil_r. exact HR.
  - destruct (bstep s l) as [s1|] eqn:E; [|discriminate].
    replace (ls1 ++ l :: ls2) with ((ls1 ++ [l]) ++ ls2) by (rewrite <- app_assoc; reflexivity).
    eapply IH; [|exact Hrun]. eapply bstep_refines; eauto.
Qed.

Theorem brun_refines c p ls s' :
  brun (binit c p) ls = Some s' -> Refines c p ls s'.
Proof.
  intros H. apply (brun_refines_gen c p ls [] (binit c p) s'); [|exact H].
  unfold Refines, binit. cbn. auto.
Qed.

(* --- corollaries: the sequential theorems, for every interleaving of readers and arrivals --- *)

Theorem blocking_bounded c p ls s' :
  0 < c -> brun (binit c p) ls = Some s' -> length (q (base s')) <= c.
Proof. intros Hc H. destruct (brun_refines _ _ _ _ H) as (Hb & _). rewrite Hb. apply bounded; exact Hc. Qed.

(* the numbers handed out, over ALL readers in the order the hand-overs happened, strictly increase:
   no signal goes to two readers, and an older signal is never handed out after a newer one *)
Theorem blocking_deliveries_increase c p ls s' :
  0 < c -> brun (binit c p) ls = Some s' -> StronglySorted N.lt (seqs (map snd (dlv s'))).
Proof.
  intros Hc H. destruct (brun_refines _ _ _ _ H) as (_ & Hd & _). rewrite Hd. apply seq_increasing; exact Hc.
Qed.

Theorem blocking_payload c p ls s' :
  0 < c -> brun (binit c p) ls = Some s' ->
  Forall (fun e => nth_error (barrivals ls) (N.to_nat (snd e)) = Some (fst e)) (map snd (dlv s')).
Proof.
  intros Hc H. destruct (brun_refines _ _ _ _ H) as (_ & Hd & Ha). rewrite Hd, <- Ha.
  apply returned_payload; exact Hc.
Qed.

Theorem blocking_counts c p ls s' :
  0 < c -> brun (binit c p) ls = Some s' -> next (base s') = N.of_nat (length (barrivals ls)).
Proof.
  intros Hc H. destruct (brun_refines _ _ _ _ H) as (Hb & _ & Ha). rewrite Hb, <- Ha.
  apply next_counts_arrivals; exact Hc.
Qed.

(* one-step facts about a reader's call *)

(* a reader is never turned away while a signal is queued: the timeout outcome needs an empty queue *)
Theorem expire_timeout_only_if_empty s r s' :
  bstep s (BExpire r) = Some s' -> rd s' r = RTimedOut -> q (base s) = [].
Proof.
  cbn [bstep]. destruct (rd s r); try discriminate. intros H; inversion H; subst; clear H.
  unfold take. destruct (q (base s)) as [|[pp n] rest]; [reflexivity|].
  cbn [rd]. unfold upd. rewrite Nat.eqb_refl. discriminate.
Qed.

(* whenever a signal is queued, each of entering / waking / expiring hands the reader the OLDEST one
   and removes exactly that one *)
Theorem reader_takes_head s r l s' pp n rest :
  (l = BEnter r \/ l = BWake r \/ l = BExpire r) ->
  q (base s) = (pp, n) :: rest -> bstep s l = Some s' ->
  rd s' r = RGot pp n /\ q (base s') = rest /\ dlv s' = dlv s ++ [(r, (pp, n))] /\
  (forall r', r' <> r -> rd s' r' = rd s r').
Proof.
  intros Hl Hq Hs.
  assert (Ht : exists w g, s' = take s r w g).
  { destruct Hl as [->|[->| ->]]; cbn [bstep] in Hs; destruct (rd s r); try discriminate;
      inversion Hs; eauto. }
  destruct Ht as (w & g & ->). unfold take. rewrite Hq. cbn [rd base dlv].
  unfold step. rewrite Hq. cbn [fst q]. unfold upd. rewrite Nat.eqb_refl.
  repeat split; auto. intros r' Hr'. destruct (Nat.eqb r' r) eqn:E; [apply Nat.eqb_eq in E; contradiction|reflexivity].
Qed.

(* with nothing queued a reader only starts or keeps waiting (or times out at its deadline); the
   receiver is untouched *)
Theorem reader_waits_on_empty s r l s' :
  (l = BEnter r \/ l = BWake r \/ l = BExpire r) ->
  q (base s) = [] -> bstep s l = Some s' ->
  base s' = base s /\ dlv s' = dlv s /\ rd s' r = match l with BExpire _ => RTimedOut | _ => RWaiting end.
Proof.
  intros Hl Hq Hs.
  destruct Hl as [->|[->| ->]]; cbn [bstep] in Hs; destruct (rd s r); try discriminate;
    inversion Hs; subst; unfold take; rewrite Hq; cbn [base dlv rd]; unfold upd; rewrite Nat.eqb_refl; auto.
Qed.

(* progress: a waiting reader can always be woken, and if a signal is queued the wake-up delivers *)
Theorem waiting_reader_can_take s r pp n rest :
  rd s r = RWaiting -> q (base s) = (pp, n) :: rest ->
  exists s', bstep s (BWake r) = Some s' /\ rd s' r = RGot pp n.
Proof.
  intros Hw Hq. cbn [bstep]. rewrite Hw. eexists; split; [reflexivity|].
  unfold take. rewrite Hq. cbn [rd]. unfold upd. rewrite Nat.eqb_refl. reflexivity.
Qed.
