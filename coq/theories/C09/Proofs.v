(* C09 — lemmas. *)
Require Import QV.C09.Model.
From Coq Require Import Sorted.

Definition seqs (l : list (Z * N)) : list N := map snd l.

(* Invariant relative to the arrival history [h] seen so far. *)
Record Inv (s : st) (h : list Z) : Prop := {
  inv_len  : length (q s) <= cap s;
  inv_next : next s = N.of_nat (length h);
  inv_sort : StronglySorted N.lt (seqs (q s));
  inv_lt   : Forall (fun n => (n < next s)%N) (seqs (q s));
  inv_pay  : Forall (fun e => nth_error h (N.to_nat (snd e)) = Some (fst e)) (q s)
}.

Lemma init_inv c p : Inv (init c p) [].
Proof. constructor; simpl; try constructor; lia. Qed.

Lemma length_tl {A} (l : list A) : length (tl l) = length l - 1.
Proof. destruct l; simpl; lia. Qed.

Lemma sorted_app_last (l : list N) (x : N) :
  StronglySorted N.lt l -> Forall (fun n => (n < x)%N) l -> StronglySorted N.lt (l ++ [x]).
Proof.
  induction l as [|a l IH]; simpl; intros Hs Hf.
  - constructor; constructor.
  - inversion Hs as [|? ? Hs' Ha]; subst. inversion Hf as [|? ? Hax Hf']; subst.
    constructor; [apply IH; assumption|].
    apply Forall_app; split; [assumption | constructor; [assumption | constructor]].
Qed.

Lemma sorted_tl (l : list N) : StronglySorted N.lt l -> StronglySorted N.lt (tl l).
Proof. destruct l; simpl; intro H; [assumption | inversion H; assumption]. Qed.

Lemma Forall_tl {A} (P : A -> Prop) (l : list A) : Forall P l -> Forall P (tl l).
Proof. destruct l; simpl; intro H; [assumption | inversion H; assumption]. Qed.

Lemma seqs_tl l : seqs (tl l) = tl (seqs l).
Proof. destruct l; reflexivity. Qed.

Lemma seqs_app a b : seqs (a ++ b) = seqs a ++ seqs b.
Proof. apply map_app. Qed.

Lemma nth_error_app_l {A} (h : list A) x n v : nth_error h n = Some v -> nth_error (h ++ [x]) n = Some v.
Proof. intro H. rewrite nth_error_app1; [assumption | apply nth_error_Some; congruence]. Qed.

Lemma nth_error_last {A} (h : list A) x : nth_error (h ++ [x]) (length h) = Some x.
Proof. rewrite nth_error_app2 by lia. rewrite Nat.sub_diag. reflexivity. Qed.

Definition hist_after (h : list Z) (o : op) : list Z :=
  match o with Arrive p => h ++ [p] | _ => h end.

Lemma step_inv s h o : 0 < cap s -> Inv s h -> Inv (fst (step s o)) (hist_after h o).
Proof.
  intros Hc [Hl Hn Hs Hlt Hp]. destruct o as [p| | | |]; simpl.
  - (* Arrive *)
    assert (Hlt' : Forall (fun n => (n < N.succ (next s))%N) (seqs (q s))).
    { eapply Forall_impl; [|exact Hlt]. simpl; intros; lia. }
    assert (Hp' : Forall (fun e => nth_error (h ++ [p]) (N.to_nat (snd e)) = Some (fst e)) (q s)).
    { eapply Forall_impl; [|exact Hp]. intros e He. apply nth_error_app_l; assumption. }
    assert (Hnew : nth_error (h ++ [p]) (N.to_nat (next s)) = Some p).
    { rewrite Hn, Nnat.Nat2N.id. apply nth_error_last. }
    assert (Hn' : N.succ (next s) = N.of_nat (length (h ++ [p]))).
    { rewrite app_length; simpl. lia. }
    destruct (Nat.eqb_spec (length (q s)) (cap s)) as [E|E].
    + destruct (pol s); simpl.
      * constructor; simpl; try assumption.
        -- rewrite app_length, length_tl; cbn [length]; lia.
        -- rewrite seqs_app, seqs_tl; simpl. apply sorted_app_last.
           ++ apply sorted_tl; assumption.
           ++ apply Forall_tl; assumption.
        -- rewrite seqs_app, seqs_tl. apply Forall_app; split.
           ++ apply Forall_tl; assumption.
           ++ constructor; [simpl; lia | constructor].
        -- apply Forall_app; split; [apply Forall_tl; assumption|].
           constructor; [exact Hnew | constructor].
      * constructor; simpl; assumption.
    + constructor; simpl; try assumption.
      * rewrite app_length; simpl; lia.
      * rewrite seqs_app; simpl. apply sorted_app_last; assumption.
      * rewrite seqs_app. apply Forall_app; split; [assumption|].
        constructor; [simpl; lia | constructor].
      * apply Forall_app; split; [assumption|]. constructor; [exact Hnew | constructor].
  - (* Get *)
    destruct (q s) as [|[p n] r] eqn:Eq; simpl.
    + constructor; rewrite ?Eq; simpl; try assumption; try constructor; lia.
    + simpl in *. constructor; simpl.
      * lia.
      * assumption.
      * inversion Hs; assumption.
      * inversion Hlt; assumption.
      * inversion Hp; assumption.
  - constructor; simpl; try assumption; try constructor; lia.
  - constructor; assumption.
  - constructor; assumption.
Qed.

Lemma step_cap s o : cap (fst (step s o)) = cap s.
Proof.
  destruct o; simpl; try reflexivity.
  - destruct (Nat.eqb _ _); [destruct (pol s)|]; reflexivity.
  - destruct (q s) as [|[? ?] ?]; reflexivity.
Qed.

Lemma step_pol s o : pol (fst (step s o)) = pol s.
Proof.
  destruct o; simpl; try reflexivity.
  - destruct (Nat.eqb _ _); [destruct (pol s)|]; reflexivity.
  - destruct (q s) as [|[? ?] ?]; reflexivity.
Qed.

Fixpoint hist_run (h : list Z) (ops : list op) : list Z :=
  match ops with [] => h | o :: r => hist_run (hist_after h o) r end.

Lemma hist_run_arrivals h ops : hist_run h ops = h ++ arrivals ops.
Proof.
  revert h; induction ops as [|o r IH]; intro h; simpl.
  - rewrite app_nil_r; reflexivity.
  - rewrite IH. destruct o; simpl; try reflexivity. rewrite <- app_assoc; reflexivity.
Qed.

Lemma run_unfold s o r :
  run s (o :: r) = (fst (run (fst (step s o)) r), snd (step s o) :: snd (run (fst (step s o)) r)).
Proof.
  simpl. destruct (step s o) as [s1 x]. simpl. destruct (run s1 r) as [s2 xs]. reflexivity.
Qed.

Lemma run_inv ops : forall s h, 0 < cap s -> Inv s h -> Inv (fst (run s ops)) (hist_run h ops).
Proof.
  induction ops as [|o r IH]; intros s h Hc Hi; [exact Hi|].
  rewrite run_unfold; simpl. apply IH.
  - rewrite step_cap; assumption.
  - apply step_inv; assumption.
Qed.

Lemma run_cap ops : forall s, cap (fst (run s ops)) = cap s.
Proof.
  induction ops as [|o r IH]; intro s; [reflexivity|].
  rewrite run_unfold; simpl. rewrite IH, step_cap; reflexivity.
Qed.

(* ---- every reachable state ---------------------------------------------------------- *)

Theorem bounded c p ops : 0 < c -> length (q (fst (run (init c p) ops))) <= c.
Proof.
  intro Hc. pose proof (run_inv ops (init c p) [] Hc (init_inv c p)) as [Hl _ _ _ _].
  rewrite run_cap in Hl. exact Hl.
Qed.

Theorem next_counts_arrivals c p ops :
  0 < c -> next (fst (run (init c p) ops)) = N.of_nat (length (arrivals ops)).
Proof.
  intro Hc. pose proof (run_inv ops (init c p) [] Hc (init_inv c p)) as [_ Hn _ _ _].
  rewrite hist_run_arrivals in Hn. exact Hn.
Qed.

(* ---- what Get hands out -------------------------------------------------------------- *)

(* Generalised: with lower bound lb on everything queued or still to be numbered. *)
Lemma returned_sorted ops : forall s h lb,
  0 < cap s -> Inv s h ->
  Forall (fun n => (lb <= n)%N) (seqs (q s)) -> (lb <= next s)%N ->
  StronglySorted N.lt (seqs (returned (snd (run s ops)))) /\
  Forall (fun n => (lb <= n)%N) (seqs (returned (snd (run s ops)))) /\
  Forall (fun e => nth_error (hist_run h ops) (N.to_nat (snd e)) = Some (fst e))
         (returned (snd (run s ops))).
Proof.
  induction ops as [|o r IH]; intros s h lb Hc Hi Hlb Hnx.
  - simpl. repeat split; constructor.
  - rewrite run_unfold. cbn [snd hist_run].
    pose proof (step_inv s h o Hc Hi) as Hi'.
    assert (Hc' : 0 < cap (fst (step s o))) by (rewrite step_cap; assumption).
    destruct o as [p| | | |].
    + (* Arrive *)
      assert (R : returned (snd (step s (Arrive p)) :: snd (run (fst (step s (Arrive p))) r))
                  = returned (snd (run (fst (step s (Arrive p))) r))).
      { simpl. destruct (Nat.eqb _ _); [destruct (pol s)|]; reflexivity. }
      rewrite R. apply IH; try assumption.
      * simpl. destruct (Nat.eqb _ _); [destruct (pol s)|]; simpl.
        -- rewrite seqs_app, seqs_tl. apply Forall_app; split; [apply Forall_tl; assumption|].
           constructor; [assumption|constructor].
        -- assumption.
        -- rewrite seqs_app. apply Forall_app; split; [assumption|].
           constructor; [assumption|constructor].
      * simpl. destruct (Nat.eqb _ _); [destruct (pol s)|]; simpl; lia.
    + (* Get *)
      destruct Hi as [Hl Hn Hs Hlt Hp].
      simpl in *. destruct (q s) as [|[p n] rest] eqn:Eq.
      * simpl. apply IH; try assumption. rewrite Eq; constructor.
      * simpl in *.
        inversion Hs as [|? ? Hs' Hall]; subst.
        inversion Hlt as [|? ? Hnlt Hlt']; subst.
        inversion Hlb as [|? ? Hlbn Hlb']; subst.
        inversion Hp as [|? ? Hpn Hp']; subst.
        assert (Hi2 : Inv (mk (cap s) (pol s) rest (next s)) h).
        { constructor; simpl; try assumption. lia. }
        assert (Hlb2 : Forall (fun m => (N.succ n <= m)%N) (seqs rest)).
        { eapply Forall_impl; [|exact Hall]. simpl; intros; lia. }
        assert (Hnx2 : (N.succ n <= next s)%N) by lia.
        destruct (IH (mk (cap s) (pol s) rest (next s)) h (N.succ n) Hc Hi2 Hlb2 Hnx2)
          as (S1 & S2 & S3).
        -- repeat split.
           ++ constructor; [assumption|]. eapply Forall_impl; [|exact S2]. simpl; intros; lia.
           ++ constructor; [assumption|]. eapply Forall_impl; [|exact S2]. simpl; intros; lia.
           ++ constructor; [|assumption]. simpl.
              rewrite hist_run_arrivals. simpl in Hpn.
              rewrite nth_error_app1; [assumption | apply nth_error_Some; congruence].
    + simpl. apply IH; try assumption; simpl; try constructor; try assumption.
    + simpl. apply IH; assumption.
    + simpl. apply IH; assumption.
Qed.

Theorem seq_increasing c p ops :
  0 < c -> StronglySorted N.lt (seqs (returned (snd (run (init c p) ops)))).
Proof.
  intro Hc. apply (returned_sorted ops (init c p) [] 0%N Hc (init_inv c p)); simpl;
    [constructor | lia].
Qed.

Theorem returned_payload c p ops :
  0 < c ->
  Forall (fun e => nth_error (arrivals ops) (N.to_nat (snd e)) = Some (fst e))
         (returned (snd (run (init c p) ops))).
Proof.
  intro Hc.
  pose proof (returned_sorted ops (init c p) [] 0%N Hc (init_inv c p)) as H.
  simpl in H. destruct H as (_ & _ & H); [constructor | lia |].
  rewrite hist_run_arrivals in H. exact H.
Qed.

(* Gap: between two successive returned numbers a < b nothing in (a, b) is ever returned. *)
Lemma sorted_gap (l1 l2 : list N) (a b x : N) :
  StronglySorted N.lt (l1 ++ a :: b :: l2) -> (a < x < b)%N -> ~ In x (l1 ++ a :: b :: l2).
Proof.
  induction l1 as [|y l1 IH]; simpl; intros Hs Hx Hin.
  - inversion Hs as [|? ? Hs1 Ha]; subst. inversion Hs1 as [|? ? Hs2 Hb]; subst.
    destruct Hin as [E|[E|Hin]]; try lia.
    rewrite Forall_forall in Hb. specialize (Hb x Hin). lia.
  - inversion Hs as [|? ? Hs1 Hy]; subst. destruct Hin as [E|Hin].
    + subst. rewrite Forall_forall in Hy.
      assert (Ha : In a (l1 ++ a :: b :: l2)) by (apply in_or_app; right; left; reflexivity).
      specialize (Hy a Ha). lia.
    + apply (IH Hs1 Hx Hin).
Qed.

Theorem gap c p ops l1 l2 a b x :
  0 < c ->
  seqs (returned (snd (run (init c p) ops))) = l1 ++ a :: b :: l2 ->
  (a < x < b)%N ->
  (a < b)%N /\ (b < N.of_nat (length (arrivals ops)))%N /\
  ~ In x (seqs (returned (snd (run (init c p) ops)))).
Proof.
  intros Hc E Hx. pose proof (seq_increasing c p ops Hc) as Hs.
  pose proof (returned_payload c p ops Hc) as Hp.
  rewrite E in Hs. split; [lia|]. split.
  - (* b is a valid arrival index *)
    assert (Hb : In b (seqs (returned (snd (run (init c p) ops))))).
    { rewrite E. apply in_or_app; right; right; left; reflexivity. }
    unfold seqs in Hb. apply in_map_iff in Hb as [[pb nb] [Eb Hin]]. simpl in Eb; subst nb.
    rewrite Forall_forall in Hp. specialize (Hp _ Hin). simpl in Hp.
    assert (N.to_nat b < length (arrivals ops)) by (apply nth_error_Some; congruence). lia.
  - rewrite E. apply sorted_gap; assumption.
Qed.

(* ---- single-step facts (Get iff non-empty, Len/Ready, policy) -------------------------- *)

Theorem get_iff s :
  (q s = [] -> step s Get = (s, OTimeout)) /\
  (forall p n r, q s = (p, n) :: r ->
     step s Get = (mk (cap s) (pol s) r (next s), OSig p n)).
Proof. split; [intros E | intros p n r E]; simpl; rewrite E; reflexivity. Qed.

Theorem get_oldest s p n :
  StronglySorted N.lt (seqs (q s)) -> snd (step s Get) = OSig p n ->
  In (p, n) (q s) /\ Forall (fun m => (n <= m)%N) (seqs (q s)).
Proof.
  simpl. destruct (q s) as [|[p0 n0] r]; simpl; intros Hs E; [discriminate|].
  inversion E; subst. split; [left; reflexivity|].
  inversion Hs as [|? ? _ Hall]; subst. constructor; [lia|].
  eapply Forall_impl; [|exact Hall]. simpl; intros; lia.
Qed.

Theorem len_ready s :
  step s Len = (s, OLen (length (q s))) /\
  step s Ready = (s, OReady (match q s with [] => false | _ => true end)).
Proof. split; [reflexivity|]. simpl. destruct (q s); reflexivity. Qed.

Theorem full_policy s p :
  length (q s) = cap s ->
  q (fst (step s (Arrive p))) =
    match pol s with DiscardNew => q s | DiscardOld => tl (q s) ++ [(p, next s)] end.
Proof.
  intro E. simpl. rewrite (proj2 (Nat.eqb_eq _ _) E). destruct (pol s); reflexivity.
Qed.

Theorem notfull_append s p :
  length (q s) <> cap s -> q (fst (step s (Arrive p))) = q s ++ [(p, next s)].
Proof.
  intro E. simpl. rewrite (proj2 (Nat.eqb_neq _ _) E). reflexivity.
Qed.

Theorem discard_all_empties s : q (fst (step s DiscardAll)) = [] /\ next (fst (step s DiscardAll)) = next s.
Proof. split; reflexivity. Qed.
