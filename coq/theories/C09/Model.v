(* C09 — QMI_SignalReceiver queue (qmi/core/pubsub.py): executable model, no proofs here.
   Transcribes __init__, discard_all, has_signal_ready, get_queue_length,
   get_next_signal(timeout=0) and _receive_signal.  A queued signal is (payload, seqnr). *)
From Coq Require Export List Arith ZArith NArith Bool Lia.
Export ListNotations.

Inductive policy := DiscardOld | DiscardNew.

Record st := mk { cap : nat; pol : policy; q : list (Z * N); next : N }.

Inductive op := Arrive (p : Z) | Get | DiscardAll | Len | Ready.

Inductive out :=
| ONone                      (* _receive_signal / discard_all return nothing *)
| OSig (p : Z) (seq : N)     (* get_next_signal returned this signal *)
| OTimeout                   (* get_next_signal raised QMI_TimeoutException *)
| OLen (n : nat)
| OReady (b : bool).

Definition init (c : nat) (p : policy) : st := mk c p [] 0%N.

Definition step (s : st) (o : op) : st * out :=
  match o with
  | Arrive p =>
      let sig := (p, next s) in
      let nx := N.succ (next s) in
      if Nat.eqb (length (q s)) (cap s) then
        match pol s with
        | DiscardNew => (mk (cap s) (pol s) (q s) nx, ONone)
        | DiscardOld => (mk (cap s) (pol s) (tl (q s) ++ [sig]) nx, ONone)  (* deque(maxlen) *)
        end
      else (mk (cap s) (pol s) (q s ++ [sig]) nx, ONone)
  | Get =>
      match q s with
      | [] => (s, OTimeout)
      | (p, n) :: r => (mk (cap s) (pol s) r (next s), OSig p n)
      end
  | DiscardAll => (mk (cap s) (pol s) [] (next s), ONone)
  | Len => (s, OLen (length (q s)))
  | Ready => (s, OReady (negb (Nat.eqb (length (q s)) 0)))
  end.

(* run a history, collecting the outputs *)
Fixpoint run (s : st) (ops : list op) : st * list out :=
  match ops with
  | [] => (s, [])
  | o :: r => let '(s1, x) := step s o in let '(s2, xs) := run s1 r in (s2, x :: xs)
  end.

(* ghost: payloads of all arrivals in a history, in order *)
Fixpoint arrivals (ops : list op) : list Z :=
  match ops with
  | [] => []
  | Arrive p :: r => p :: arrivals r
  | _ :: r => arrivals r
  end.

(* the signals handed out by Get, in order *)
Fixpoint returned (outs : list out) : list (Z * N) :=
  match outs with
  | [] => []
  | OSig p n :: r => (p, n) :: returned r
  | _ :: r => returned r
  end.
