(* C09 correspondence: compare the model's outputs with those observed on the real class. *)
Require Export QV.Lib.Corr QV.C09.Model QV.C09.Blocking.

Definition out_eqb (a b : out) : bool :=
  match a, b with
  | ONone, ONone => true
  | OSig p n, OSig p' n' => Z.eqb p p' && N.eqb n n'
  | OTimeout, OTimeout => true
  | OLen n, OLen m => Nat.eqb n m
  | OReady x, OReady y => Bool.eqb x y
  | _, _ => false
  end.

(* a case: capacity, policy, history, outputs observed on the implementation *)
Definition case := (nat * policy * list op * list out)%type.

Definition model_out (c : case) : list out :=
  let '(cp, pl, ops, _) := c in snd (run (init cp pl) ops).

Definition check_case (c : case) : bool :=
  let '(_, _, _, obs) := c in list_eqb out_eqb (model_out c) obs.

(* ---- trace acceptance for the blocking multi-reader scenarios: the labels recorded from the real
   class (every len / append / popleft of the receiver's deque, which all happen under its condition
   variable) must be a run of Blocking.bstep, and every reader must end with what the model gives it ---- *)
Definition rstat_eqb (a b : rstat) : bool :=
  match a, b with
  | RIdle, RIdle | RWaiting, RWaiting | RTimedOut, RTimedOut => true
  | RGot p n, RGot p' n' => Z.eqb p p' && N.eqb n n'
  | _, _ => false
  end.

(* capacity, policy, labels, (reader, final status) observed *)
Definition tcase := (nat * policy * list blabel * list (nat * rstat))%type.

Definition check_trace (c : tcase) : bool :=
  let '(cp, pl, ls, fin) := c in
  match brun (binit cp pl) ls with
  | None => false
  | Some s => forallb (fun e => rstat_eqb (rd s (fst e)) (snd e)) fin
  end.

(* diagnosis: index of the first label the model does not accept *)
Fixpoint first_refused (s : bst) (ls : list blabel) (i : nat) : option nat :=
  match ls with
  | [] => None
  | l :: r => match bstep s l with Some s1 => first_refused s1 r (S i) | None => Some i end
  end.
Definition trace_diag (c : tcase) : option nat :=
  let '(cp, pl, ls, _) := c in first_refused (binit cp pl) ls 0.
