(* C09 correspondence: compare the model's outputs with those observed on the real class. *)
Require Export QV.Lib.Corr QV.C09.Model.

Definition out_eqb (a b : out) : bool :=
  match a, b with
  | ONone, ONone => true
  | OSig p n, OSig p' n' => Z.eqb p p' && N.eqb n n'
  | OTimeout, OTimeout => true
  | OLen n, OLen m => Nat.eqb n m
  | OReady x, OReady y => Bool.eqb x y
  | _, _ => false
  end.

(* a case: capacity, policy, history, outputs observed on the implementation *)
Definition case := (nat * policy * list op * list out)%type.

Definition model_out (c : case) : list out :=
  let '(cp, pl, ops, _) := c in snd (run (init cp pl) ops).

Definition check_case (c : case) : bool :=
  let '(_, _, _, obs) := c in list_eqb out_eqb (model_out c) obs.
