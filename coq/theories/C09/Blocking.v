(* C09 — the BLOCKING form of QMI_SignalReceiver.get_next_signal with any number of reader threads
   (qmi/core/pubsub.py): executable transition system, no proofs here.

   get_next_signal(timeout) runs under the receiver's condition variable:
       with cond:  if len(queue) == 0:  if not wait_for(predicate, timeout): raise Timeout
                   return queue.popleft()
   The atomic regions (everything between two releases of the condition's lock) are the labels:
     BArrive p  _receive_signal (the sequential model's Arrive)
     BEnter r   reader r enters: takes the head if a signal is queued, otherwise starts waiting
     BWake r    a waiting reader re-acquires the lock (notified, or spuriously) and re-tests the
                predicate: takes the head if one is queued, otherwise keeps waiting
     BExpire r  the deadline of a waiting reader passes; wait_for tests the predicate once more:
                takes the head if one is queued, otherwise the call ends with the timeout error
     BReset r   the reader's call has returned; the thread may call again
   [bstep] is partial: None = the label is not enabled in that state (trace acceptance fails).
   Ghost components: [dlv] the deliveries (reader, payload, number) in the order they happened,
   [sops] the history of the SEQUENTIAL model (Model.v) that this run refines. *)
Require Export QV.C09.Model.

Inductive rstat := RIdle | RWaiting | RGot (p : Z) (n : N) | RTimedOut.

Inductive blabel := BArrive (p : Z) | BEnter (r : nat) | BWake (r : nat) | BExpire (r : nat) | BReset (r : nat)
                  | BDiscard.   (* discard_all by any thread, under the same condition variable *)

Record bst := bmk { base : st; rd : nat -> rstat; dlv : list (nat * (Z * N)); sops : list op }.

Definition binit (c : nat) (p : policy) : bst := bmk (init c p) (fun _ => RIdle) [] [].

Definition upd (f : nat -> rstat) (r : nat) (v : rstat) : nat -> rstat :=
  fun x => if Nat.eqb x r then v else f x.

(* take the head for reader r if there is one *)
Definition take (s : bst) (r : nat) (otherwise : rstat) (ghost_get : bool) : bst :=
  match q (base s) with
  | [] => bmk (base s) (upd (rd s) r otherwise) (dlv s) (if ghost_get then sops s ++ [Get] else sops s)
  | (p, n) :: _ => bmk (fst (step (base s) Get)) (upd (rd s) r (RGot p n)) (dlv s ++ [(r, (p, n))]) (sops s ++ [Get])
  end.

Definition bstep (s : bst) (l : blabel) : option bst :=
  match l with
  | BArrive p => Some (bmk (fst (step (base s) (Arrive p))) (rd s) (dlv s) (sops s ++ [Arrive p]))
  | BEnter r => match rd s r with RIdle => Some (take s r RWaiting false) | _ => None end
  | BWake r => match rd s r with RWaiting => Some (take s r RWaiting false) | _ => None end
  | BExpire r => match rd s r with RWaiting => Some (take s r RTimedOut true) | _ => None end
  | BDiscard => Some (bmk (fst (step (base s) DiscardAll)) (rd s) (dlv s) (sops s ++ [DiscardAll]))
  | BReset r => match rd s r with
                | RGot _ _ | RTimedOut => Some (bmk (base s) (upd (rd s) r RIdle) (dlv s) (sops s))
                | _ => None end
  end.

Fixpoint brun (s : bst) (ls : list blabel) : option bst :=
  match ls with
  | [] => Some s
  | l :: r => match bstep s l with Some s1 => brun s1 r | None => None end
  end.

Fixpoint barrivals (ls : list blabel) : list Z :=
  match ls with
  | [] => []
  | BArrive p :: r => p :: barrivals r
  | _ :: r => barrivals r
  end.
