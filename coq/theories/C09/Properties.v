(* C09 — property theorems only.  Each is closed by [exact] of a lemma of Proofs.v and is
   followed by Print Assumptions.  Statements are about [run (init c p) ops] for EVERY
   capacity c > 0, policy p and history ops (unbounded), i.e. about the very functions the
   correspondence check evaluates against qmi.core.pubsub.QMI_SignalReceiver. *)
Require Import QV.C09.Model QV.C09.Proofs QV.C09.Blocking QV.C09.ProofsBlocking.
From Coq Require Import Sorted.

(* never more than the configured maximum *)
Theorem C09_bounded : forall c p ops, 0 < c -> length (q (fst (run (init c p) ops))) <= c.
Proof. exact bounded. Qed.
Print Assumptions C09_bounded.

(* every arrival, dropped or not, consumes one sequence number *)
Theorem C09_next_counts_arrivals : forall c p ops,
  0 < c -> next (fst (run (init c p) ops)) = N.of_nat (length (arrivals ops)).
Proof. exact next_counts_arrivals. Qed.
Print Assumptions C09_next_counts_arrivals.

(* the numbers a reader sees are strictly increasing *)
Theorem C09_seq_increasing : forall c p ops,
  0 < c -> StronglySorted N.lt (seqs (returned (snd (run (init c p) ops)))).
Proof. exact seq_increasing. Qed.
Print Assumptions C09_seq_increasing.

(* a returned signal numbered n carries the payload of the n-th arrival (nothing invented,
   nothing swapped) *)
Theorem C09_returned_payload : forall c p ops,
  0 < c ->
  Forall (fun e => nth_error (arrivals ops) (N.to_nat (snd e)) = Some (fst e))
         (returned (snd (run (init c p) ops))).
Proof. exact returned_payload. Qed.
Print Assumptions C09_returned_payload.

(* each gap equals the number of signals lost: if a and b are successive numbers seen by the
   reader then every arrival numbered strictly in between (there are b-a-1 of them, all valid
   arrival numbers since b < #arrivals) is never returned by any Get of the history *)
Theorem C09_gap : forall c p ops l1 l2 a b x,
  0 < c ->
  seqs (returned (snd (run (init c p) ops))) = l1 ++ a :: b :: l2 ->
  (a < x < b)%N ->
  (a < b)%N /\ (b < N.of_nat (length (arrivals ops)))%N /\
  ~ In x (seqs (returned (snd (run (init c p) ops)))).
Proof. exact gap. Qed.
Print Assumptions C09_gap.

(* Get returns a signal iff one is queued, otherwise the timeout error; state untouched *)
Theorem C09_get_iff : forall s,
  (q s = [] -> step s Get = (s, OTimeout)) /\
  (forall p n r, q s = (p, n) :: r -> step s Get = (mk (cap s) (pol s) r (next s), OSig p n)).
Proof. exact get_iff. Qed.
Print Assumptions C09_get_iff.

(* oldest first: what Get returns is queued and has the least number in the queue *)
Theorem C09_get_oldest : forall s p n,
  StronglySorted N.lt (seqs (q s)) -> snd (step s Get) = OSig p n ->
  In (p, n) (q s) /\ Forall (fun m => (n <= m)%N) (seqs (q s)).
Proof. exact get_oldest. Qed.
Print Assumptions C09_get_oldest.

(* ... and the sortedness premise holds in every reachable state *)
Theorem C09_reachable_inv : forall c p ops,
  0 < c -> Inv (fst (run (init c p) ops)) (arrivals ops).
Proof.
  intros c p ops Hc. pose proof (run_inv ops (init c p) [] Hc (init_inv c p)) as H.
  rewrite hist_run_arrivals in H. exact H.
Qed.
Print Assumptions C09_reachable_inv.

Theorem C09_len_ready : forall s,
  step s Len = (s, OLen (length (q s))) /\
  step s Ready = (s, OReady (match q s with [] => false | _ => true end)).
Proof. exact len_ready. Qed.
Print Assumptions C09_len_ready.

(* full queue: drop per policy — the newly arrived one, or the oldest queued one *)
Theorem C09_full_policy : forall s p,
  length (q s) = cap s ->
  q (fst (step s (Arrive p))) =
    match pol s with DiscardNew => q s | DiscardOld => tl (q s) ++ [(p, next s)] end.
Proof. exact full_policy. Qed.
Print Assumptions C09_full_policy.

Theorem C09_notfull_append : forall s p,
  length (q s) <> cap s -> q (fst (step s (Arrive p))) = q s ++ [(p, next s)].
Proof. exact notfull_append. Qed.
Print Assumptions C09_notfull_append.

(* Non-vacuity: a concrete history that fills the queue, drops, and reads with a gap. *)
Example C09_example :
  snd (run (init 2 DiscardOld) [Arrive 10; Arrive 11; Arrive 12; Get; Arrive 13; Arrive 14; Get; Len])
  = [ONone; ONone; ONone; OSig 11 1; ONone; ONone; OSig 13 3; OLen 1].
Proof. vm_compute. reflexivity. Qed.
Example C09_example_gap :
  seqs (returned (snd (run (init 2 DiscardOld)
     [Arrive 10; Arrive 11; Arrive 12; Get; Arrive 13; Arrive 14; Get; Len]))) = [] ++ 1%N :: 3%N :: [].
Proof. vm_compute. reflexivity. Qed.

(* ---- the blocking form get_next_signal(timeout) with ANY number of reader threads (Blocking.v):
   statements about every run [brun (binit c p) ls] of the transition system whose labels are the
   atomic regions under the receiver's condition variable; the real multi-reader schedules recorded
   under the deterministic scheduler must be such runs (Corr.check_trace). ---- *)

(* every interleaving refines a history of the sequential model *)
Theorem C09_blocking_refines : forall c p ls s',
  brun (binit c p) ls = Some s' -> Refines c p ls s'.
Proof. exact brun_refines. Qed.
Print Assumptions C09_blocking_refines.

(* over all readers, in the order of the hand-overs, the numbers strictly increase: no signal is
   given to two readers and an older one never after a newer one *)
Theorem C09_blocking_deliveries_increase : forall c p ls s',
  0 < c -> brun (binit c p) ls = Some s' -> StronglySorted N.lt (seqs (map snd (dlv s'))).
Proof. exact blocking_deliveries_increase. Qed.
Print Assumptions C09_blocking_deliveries_increase.

Theorem C09_blocking_payload : forall c p ls s',
  0 < c -> brun (binit c p) ls = Some s' ->
  Forall (fun e => nth_error (barrivals ls) (N.to_nat (snd e)) = Some (fst e)) (map snd (dlv s')).
Proof. exact blocking_payload. Qed.
Print Assumptions C09_blocking_payload.

Theorem C09_blocking_bounded_counts : forall c p ls s',
  0 < c -> brun (binit c p) ls = Some s' ->
  length (q (base s')) <= c /\ next (base s') = N.of_nat (length (barrivals ls)).
Proof. intros c p ls s' Hc H. split; [eapply blocking_bounded|eapply blocking_counts]; eauto. Qed.
Print Assumptions C09_blocking_bounded_counts.

(* the timeout error is only possible with an empty queue *)
Theorem C09_blocking_no_false_timeout : forall s r s',
  bstep s (BExpire r) = Some s' -> rd s' r = RTimedOut -> q (base s) = [].
Proof. exact expire_timeout_only_if_empty. Qed.
Print Assumptions C09_blocking_no_false_timeout.

(* with a signal queued, entering / waking / expiring gives the reader the oldest one, removes exactly
   that one and leaves every other reader alone *)
Theorem C09_blocking_takes_head : forall s r l s' pp n rest,
  (l = BEnter r \/ l = BWake r \/ l = BExpire r) ->
  q (base s) = (pp, n) :: rest -> bstep s l = Some s' ->
  rd s' r = RGot pp n /\ q (base s') = rest /\ dlv s' = dlv s ++ [(r, (pp, n))] /\
  (forall r', r' <> r -> rd s' r' = rd s r').
Proof. exact reader_takes_head. Qed.
Print Assumptions C09_blocking_takes_head.

Theorem C09_blocking_waits_on_empty : forall s r l s',
  (l = BEnter r \/ l = BWake r \/ l = BExpire r) ->
  q (base s) = [] -> bstep s l = Some s' ->
  base s' = base s /\ dlv s' = dlv s /\ rd s' r = match l with BExpire _ => RTimedOut | _ => RWaiting end.
Proof. exact reader_waits_on_empty. Qed.
Print Assumptions C09_blocking_waits_on_empty.

(* a waiting reader can always be woken and, with a signal queued, the wake-up delivers (that the
   wake-up HAPPENS after notify_all is C11's subject) *)
Theorem C09_blocking_waiter_can_take : forall s r pp n rest,
  rd s r = RWaiting -> q (base s) = (pp, n) :: rest ->
  exists s', bstep s (BWake r) = Some s' /\ rd s' r = RGot pp n.
Proof. exact waiting_reader_can_take. Qed.
Print Assumptions C09_blocking_waiter_can_take.

(* Non-vacuity: three readers, two wait, arrivals wake them in either order, the third times out. *)
Example C09_blocking_example :
  option_map (fun s => (dlv s, length (q (base s))))
    (brun (binit 8 DiscardOld)
       [BEnter 0; BEnter 1; BArrive 10; BArrive 11; BEnter 2; BWake 1; BWake 0; BArrive 12; BWake 0; BEnter 3; BExpire 3])
  = Some ([(2, (10%Z, 0%N)); (1, (11%Z, 1%N)); (0, (12%Z, 2%N))], 0).
Proof. vm_compute. reflexivity. Qed.
