(* C09 — property theorems only.  Each is closed by [exact] of a lemma of Proofs.v and is
   followed by Print Assumptions.  Statements are about [run (init c p) ops] for EVERY
   capacity c > 0, policy p and history ops (unbounded), i.e. about the very functions the
   correspondence check evaluates against qmi.core.pubsub.QMI_SignalReceiver. *)
Require Import QV.C09.Model QV.C09.Proofs.
From Coq Require Import Sorted.

(* never more than the configured maximum *)
Theorem C09_bounded : forall c p ops, 0 < c -> length (q (fst (run (init c p) ops))) <= c.
Proof. exact bounded. Qed.
Print Assumptions C09_bounded.

(* every arrival, dropped or not, consumes one sequence number *)
Theorem C09_next_counts_arrivals : forall c p ops,
  0 < c -> next (fst (run (init c p) ops)) = N.of_nat (length (arrivals ops)).
Proof. exact next_counts_arrivals. Qed.
Print Assumptions C09_next_counts_arrivals.

(* the numbers a reader sees are strictly increasing *)
Theorem C09_seq_increasing : forall c p ops,
  0 < c -> StronglySorted N.lt (seqs (returned (snd (run (init c p) ops)))).
Proof. exact seq_increasing. Qed.
Print Assumptions C09_seq_increasing.

(* a returned signal numbered n carries the payload of the n-th arrival (nothing invented,
   nothing swapped) *)
Theorem C09_returned_payload : forall c p ops,
  0 < c ->
  Forall (fun e => nth_error (arrivals ops) (N.to_nat (snd e)) = Some (fst e))
         (returned (snd (run (init c p) ops))).
Proof. exact returned_payload. Qed.
Print Assumptions C09_returned_payload.

(* each gap equals the number of signals lost: if a and b are successive numbers seen by the
   reader then every arrival numbered strictly in between (there are b-a-1 of them, all valid
   arrival numbers since b < #arrivals) is never returned by any Get of the history *)
Theorem C09_gap : forall c p ops l1 l2 a b x,
  0 < c ->
  seqs (returned (snd (run (init c p) ops))) = l1 ++ a :: b :: l2 ->
  (a < x < b)%N ->
  (a < b)%N /\ (b < N.of_nat (length (arrivals ops)))%N /\
  ~ In x (seqs (returned (snd (run (init c p) ops)))).
Proof. exact gap. Qed.
Print Assumptions C09_gap.

(* Get returns a signal iff one is queued, otherwise the timeout error; state untouched *)
Theorem C09_get_iff : forall s,
  (q s = [] -> step s Get = (s, OTimeout)) /\
  (forall p n r, q s = (p, n) :: r -> step s Get = (mk (cap s) (pol s) r (next s), OSig p n)).
Proof. exact get_iff. Qed.
Print Assumptions C09_get_iff.

(* oldest first: what Get returns is queued and has the least number in the queue *)
Theorem C09_get_oldest : forall s p n,
  StronglySorted N.lt (seqs (q s)) -> snd (step s Get) = OSig p n ->
  In (p, n) (q s) /\ Forall (fun m => (n <= m)%N) (seqs (q s)).
Proof. exact get_oldest. Qed.
Print Assumptions C09_get_oldest.

(* ... and the sortedness premise holds in every reachable state *)
Theorem C09_reachable_inv : forall c p ops,
  0 < c -> Inv (fst (run (init c p) ops)) (arrivals ops).
Proof.
  intros c p ops Hc. pose proof (run_inv ops (init c p) [] Hc (init_inv c p)) as H.
  rewrite hist_run_arrivals in H. exact H.
Qed.
Print Assumptions C09_reachable_inv.

Theorem C09_len_ready : forall s,
  step s Len = (s, OLen (length (q s))) /\
  step s Ready = (s, OReady (match q s with [] => false | _ => true end)).
Proof. exact len_ready. Qed.
Print Assumptions C09_len_ready.

(* full queue: drop per policy — the newly arrived one, or the oldest queued one *)
Theorem C09_full_policy : forall s p,
  length (q s) = cap s ->
  q (fst (step s (Arrive p))) =
    match pol s with DiscardNew => q s | DiscardOld => tl (q s) ++ [(p, next s)] end.
Proof. exact full_policy. Qed.
Print Assumptions C09_full_policy.

Theorem C09_notfull_append : forall s p,
  length (q s) <> cap s -> q (fst (step s (Arrive p))) = q s ++ [(p, next s)].
Proof. exact notfull_append. Qed.
Print Assumptions C09_notfull_append.

(* Non-vacuity: a concrete history that fills the queue, drops, and reads with a gap. *)
Example C09_example :
  snd (run (init 2 DiscardOld) [Arrive 10; Arrive 11; Arrive 12; Get; Arrive 13; Arrive 14; Get; Len])
  = [ONone; ONone; ONone; OSig 11 1; ONone; ONone; OSig 13 3; OLen 1].
Proof. vm_compute. reflexivity. Qed.
Example C09_example_gap :
  seqs (returned (snd (run (init 2 DiscardOld)
     [Arrive 10; Arrive 11; Arrive 12; Get; Arrive 13; Arrive 14; Get; Len]))) = [] ++ 1%N :: 3%N :: [].
Proof. vm_compute. reflexivity. Qed.
