(* C17 correspondence: the model's results against what the harness observed on the real
   qmi.data.dataset / datastore / hdf5recorder code. *)
Require Export QV.Lib.Corr QV.C17.Model.

(* ---- (a) attribute codec ---------------------------------------------------------------------- *)
(* floats are carried as the text of their repr (F := str) *)
Inductive cres := RStr (s : str) | RInt (z : Z) | RBool (b : bool) | RFloat | RErr.

Definition cres_eqb (p : pres str) (r : cres) : bool :=
  match p, r with
  | PStr a, RStr b => str_eqb a b
  | PInt a, RInt b => Z.eqb a b
  | PBool a, RBool b => Bool.eqb a b
  | PFloat _, RFloat => true
  | PErr, RErr => true
  | _, _ => false
  end.

Definition fparse (fok : bool) (s : str) : option str := if fok then Some s else None.
Definition ptable (tbl : list N) (c : N) : bool := memN c tbl.

Definition attr_res (a : attr str) : cres :=
  match a with AStr s => RStr s | AInt z => RInt z | AFloat _ => RFloat end.

Definition opt_line_eqb (a b : option (str * str)) : bool :=
  option_eqb (pair_eqb str_eqb str_eqb) a b.

Definition nat_list_eqb (a b : list nat) : bool := list_eqb Nat.eqb a b.
Definition kind_eqb (a b : kind) : bool :=
  match a, b with KDir, KDir => true | KFile x, KFile y => N.eqb x y | _, _ => false end.

(* ---- (c) store histories ----------------------------------------------------------------------- *)
Inductive cop :=
| XMkdir (p : path)                         (* something else creates a directory / a file *)
| XTouch (p : path) (content : N)
| XMakeFolder (label date time : str)
| XWrite (folder : path) (name : str) (f : fmt) (overwrite : bool) (content : N)
| XMakeH5 (folder : path) (name : str) (content : N)
| XLatest (label : str) (date : option str)
| XList (label : option str).

Inductive cobs :=
| BUnit                                     (* returned normally, nothing to report *)
| BErr (e : err)
| BPath (p : path)                          (* make_folder: the folder created *)
| BFolder (f : option (str * str * str))    (* find_latest_folder: (date, time, folder name) *)
| BFolders (l : list (str * str * str)).

Definition err_eqb (a b : err) : bool :=
  match a, b with
  | EValue, EValue | EExists, EExists | ENotFound, ENotFound | ENotDir, ENotDir | EIsDir, EIsDir
  | EUsage, EUsage => true
  | _, _ => false
  end.
Definition triple_eqb (a b : str * str * str) : bool :=
  let '(a1, a2, a3) := a in let '(b1, b2, b3) := b in str_eqb a1 b1 && str_eqb a2 b2 && str_eqb a3 b3.
Definition cobs_eqb (a b : cobs) : bool :=
  match a, b with
  | BUnit, BUnit => true
  | BErr x, BErr y => err_eqb x y
  | BPath p, BPath q => path_eqb p q
  | BFolder x, BFolder y => option_eqb triple_eqb x y
  | BFolders x, BFolders y => list_eqb triple_eqb x y
  | _, _ => false
  end.

Definition of_unit (r : res unit) : cobs := match r with Ok _ => BUnit | Err e => BErr e end.

Definition cstep (fs : fsys) (o : cop) : fsys * cobs :=
  match o with
  | XMkdir p => let '(fs', r) := mkdir fs p in (fs', of_unit r)
  | XTouch p c => let '(fs', r) := create_file fs p true c in (fs', of_unit r)
  | XMakeFolder l d t =>
      let '(fs', r) := make_folder fs l d t in (fs', match r with Ok p => BPath p | Err e => BErr e end)
  | XWrite fo n f ow c => let '(fs', r) := write_dataset fs fo n f ow c in (fs', of_unit r)
  | XMakeH5 fo n c => let '(fs', r) := make_hdf5file fs fo n c in (fs', of_unit r)
  | XLatest l d => (fs, match find_latest_folder fs l d with Ok x => BFolder x | Err e => BErr e end)
  | XList l => (fs, match list_folders fs l with Ok x => BFolders x | Err e => BErr e end)
  end.

Fixpoint crun (fs : fsys) (ops : list cop) : fsys * list cobs :=
  match ops with
  | [] => (fs, [])
  | o :: r => let '(fs1, x) := cstep fs o in let '(fs2, xs) := crun fs1 r in (fs2, x :: xs)
  end.

Definition fs_matches (fs : fsys) (final : list (path * kind)) : bool :=
  Nat.eqb (length fs) (length final)
  && forallb (fun e => match lookup fs (fst e) with Some k => kind_eqb k (snd e) | None => false end) final.

(* ---- (d) recorder ------------------------------------------------------------------------------ *)
Definition amap_matches (m : amap) (anames : list N) (obs : list (N * Z)) : bool :=
  forallb (fun a => option_eqb Z.eqb (aget m a) (aget obs a)) anames.

Definition rec_matches (s : rstate) (dnames anames : list N) (files : list (N * list Z))
           (attrs : list (N * list (N * Z))) : bool :=
  forallb (fun d =>
    let fobs := match find (fun e => N.eqb (fst e) d) files with Some e => snd e | None => [] end in
    let aobs := match find (fun e => N.eqb (fst e) d) attrs with Some e => snd e | None => [] end in
    list_eqb Z.eqb (file s d) fobs
    && match fobs with [] => true | _ => amap_matches (fattrs s d) anames aobs end) dnames.

(* ---- numbered names ----------------------------------------------------------------------------- *)
(* what the harness observes of the reader on a special column: verified as the index column of axis
   n, taken as the scale of axis n, ignored, or an exception *)
Inductive sobs := OIndex (n : nat) | OScale (n : nat) | OIgnored | OError.
Definition sobs_eqb (a b : sobs) : bool :=
  match a, b with
  | OIndex n, OIndex m | OScale n, OScale m => Nat.eqb n m
  | OIgnored, OIgnored | OError, OError => true
  | _, _ => false
  end.
Definition special_eqb (a b : special) : bool :=
  match a, b with
  | SIndex x, SIndex y | SScale x, SScale y => Z.eqb x y
  | SOther, SOther | SBadInt, SBadInt | SUnmodelled, SUnmodelled => true
  | _, _ => false
  end.
(* the observation the model predicts; None = outside the model (negative number, unmodelled int()) *)
Definition special_obs (nax : nat) (s : special) : option sobs :=
  let inr (z : Z) (o : nat -> sobs) :=
      if Z.ltb z 0 then None else if Z.ltb z (Z.of_nat nax) then Some (o (Z.to_nat z)) else Some OError in
  match s with
  | SIndex z => inr z OIndex
  | SScale z => inr z OScale
  | SOther => Some OIgnored
  | SBadInt => Some OError
  | SUnmodelled => None
  end.

(* the label is exactly what the writer renders for an axis of this file *)
Definition canonical_special (nax : nat) (l : str) : bool :=
  match parse_special l with
  | SIndex z => Z.leb 0 z && Z.ltb z (Z.of_nat nax) && str_eqb l (scheme_name NIndex (Z.to_nat z))
  | SScale z => Z.leb 0 z && Z.ltb z (Z.of_nat nax) && str_eqb l (scheme_name NScale (Z.to_nat z))
  | _ => false
  end.

(* ---- cases -------------------------------------------------------------------------------------- *)
Inductive case :=
(* a header attribute: printable table, name, Python-level value, the line the real writer
   produced (without newline), what the real reader returned for it *)
| CAttr (tbl : list N) (name : str) (value : attr str) (line : str) (parsed : cres)
(* _parse_attribute_value on an arbitrary text; fok = whether float(text) succeeds *)
| CParse (fok : bool) (text : str) (parsed : cres)
(* outer shape, the index columns read from the text file, the multi-index tag of every row,
   and (axis, scale, scale column) for every axis scale *)
| CLayout (sh : list nat) (idxcols : list (list nat)) (rows : list (list nat))
          (scales : list (nat * list Z * list Z))
| CStore (ops : list cop) (obs : list cobs) (final : list (path * kind))
| CRec (trace : list rlabel) (dnames anames : list N) (files : list (N * list Z))
       (attrs : list (N * list (N * Z)))
(* a numbered name the real writer produced for axis / column number n *)
| CName (k : nscheme) (n : nat) (name : str)
(* the real reader's treatment of a special column labelled [label] in a file with nax axes *)
| CSpecial (nax : nat) (label : str) (obs : sobs).

(* accU = true: what the property demands (every repr is read back); accU = false: the reader as
   it is in the tree (the harness uses it to classify a disagreement as the known \U finding) *)
Definition check_with (accU : bool) (c : case) : bool :=
  match c with
  | CAttr tbl name value line parsed =>
      let text := py_repr str (ptable tbl) (fun t => t) value in
      str_eqb (header_line name text) line
      && opt_line_eqb (parse_line line) (Some (name, text))
      && cres_eqb (parse_attr str (fparse true) accU text) parsed
      && (negb accU || cres_eqb (parse_attr str (fparse true) accU text) (attr_res value))
      && match value with AFloat t => float_text_ok t | _ => true end
  | CParse fok text parsed => cres_eqb (parse_attr str (fparse fok) accU text) parsed
  | CLayout sh idxcols rows scales =>
      list_eqb nat_list_eqb (map (index_column sh) (seq 0 (length sh))) idxcols
      && list_eqb nat_list_eqb (all_idx sh) rows
      && forallb (fun e => let '(ax, sc, col) := e in
                           list_eqb Z.eqb (scale_column sh ax sc) col
                           && list_eqb Z.eqb (extract_scale sh ax col) sc) scales
  | CStore ops obs final =>
      let '(fs, outs) := crun [] ops in list_eqb cobs_eqb outs obs && fs_matches fs final
  | CRec trace dnames anames files attrs =>
      match rrun rinit trace with
      | Some s => done s && rec_matches s dnames anames files attrs
      | None => false
      end
  | CName k n name =>
      str_eqb (scheme_name k n) name
      && match k with
         | NIndex => special_eqb (parse_special name) (SIndex (Z.of_nat n))
         | NScale => special_eqb (parse_special name) (SScale (Z.of_nat n))
         | _ => true
         end
  | CSpecial nax label obs =>
      match special_obs nax (parse_special label) with
      | Some o =>
          if canonical_special nax label then sobs_eqb o obs
          else (* a label the writer never emits: the pinned reader's treatment is predicted, but a reader
                  that ignores or refuses it is not a disagreement — only taking it for ANOTHER axis or kind is *)
               sobs_eqb o obs || sobs_eqb OIgnored obs || sobs_eqb OError obs
      | None => true
      end
  end.

Definition check_case (c : case) : bool := check_with true c.
Definition check_case_current (c : case) : bool := check_with false c.

(* for replays / diagnostics *)
Definition model_out (c : case) : bool * bool := (check_with true c, check_with false c).
