(* C17 — stored measurement data reads back equal and is never silently overwritten.
   Executable model, no proofs here.  Four parts, each transcribing the logic of the named
   functions of /repo/qmi/data; h5py, numpy (savetxt/loadtxt/reshape) and the OS are NOT modelled
   (the claim is partial, see Properties.v).

   (a) dataset.py: the text-header attribute codec.  [py_repr] is CPython's repr() on str / int /
       float (the writer's format  # {}: {!r}  per line), [parse_attr] transcribes _parse_attribute_value,
       [header_line]/[parse_line] the header writer and the reader's line splitting,
       [scheme_name]/[parse_special] the numbered attribute / special-column names and the reader's
       recogniser of axisN_index / axisN_scale.
   (b) dataset.py: the special index / scale columns of write_dataset_to_text and the checks of
       read_dataset_from_text (np.tile(np.repeat(np.arange(n), inner), outer), row-major reshape).
   (c) datastore.py: DataStore.make_folder, list_folders, find_latest_folder,
       DataFolder.write_dataset / make_hdf5file over a file system given as a finite map from
       relative paths to kinds.
   (d) hdf5recorder.py: _HDF5RecorderThread.record / set_attribute / run (swap under the
       condition lock, write outside it) / shutdown. *)
From Coq Require Export List ZArith NArith Bool Arith.
Export ListNotations.

Definition str := list N.          (* a Python str: list of code points *)

Fixpoint str_eqb (a b : str) : bool :=
  match a, b with
  | [], [] => true
  | x :: a', y :: b' => N.eqb x y && str_eqb a' b'
  | _, _ => false
  end.

Definition memN (c : N) (l : list N) : bool := existsb (N.eqb c) l.

(* ============================================================================================ *)
(** * (a) attribute codec                                                                        *)
(* ============================================================================================ *)

Local Open Scope N_scope.

Definition cBS : N := 92.  (* backslash *)
Definition cSQ : N := 39.  (* ' *)
Definition cDQ : N := 34.  (* double quote *)

(* lower-case hex digit of d < 16 *)
Definition hexdigit (d : N) : N := if N.ltb d 10 then 48 + d else 87 + d.
Definition hex2 (c : N) : str := [hexdigit ((c / 16) mod 16); hexdigit (c mod 16)].
Definition hex4 (c : N) : str :=
  [hexdigit ((c / 4096) mod 16); hexdigit ((c / 256) mod 16); hexdigit ((c / 16) mod 16); hexdigit (c mod 16)].
Definition hex8 (c : N) : str := hex4 ((c / 65536) mod 65536) ++ hex4 (c mod 65536).

(* unicode_repr's quote choice: double quotes iff the string has a single and no double quote *)
Definition choose_quote (s : str) : N :=
  if memN cSQ s && negb (memN cDQ s) then cDQ else cSQ.

Section Repr.
  (* Py_UNICODE_ISPRINTABLE, consulted only for code points >= 0x7f; supplied per case by the
     harness (the table of the printable code points occurring in the case) *)
  Variable printable : N -> bool.

  Definition repr_char (q c : N) : str :=
    if N.eqb c q || N.eqb c cBS then [cBS; c]
    else if N.eqb c 9 then [cBS; 116]
    else if N.eqb c 10 then [cBS; 110]
    else if N.eqb c 13 then [cBS; 114]
    else if N.ltb c 32 || N.eqb c 127 then cBS :: 120 :: hex2 c
    else if N.ltb c 127 then [c]
    else if printable c then [c]
    else if N.leb c 255 then cBS :: 120 :: hex2 c
    else if N.leb c 65535 then cBS :: 117 :: hex4 c
    else cBS :: 85 :: hex8 c.

  Definition repr_str (s : str) : str :=
    let q := choose_quote s in q :: flat_map (repr_char q) s ++ [q].
End Repr.

(* decimal digits of a natural number, most significant first (fuel = number of binary digits) *)
Fixpoint dec_fuel (fuel : nat) (n : N) : str :=
  match fuel with
  | O => [48 + n mod 10]
  | S f => if N.ltb n 10 then [48 + n] else dec_fuel f (n / 10) ++ [48 + n mod 10]
  end%N.
Definition dec (n : N) : str := dec_fuel (N.size_nat n) n.

Definition repr_int (z : Z) : str :=
  (if Z.ltb z 0 then [45%N] else []) ++ dec (Z.abs_N z).

(* --- the reader: _parse_attribute_value -------------------------------------------------------- *)

Definition isdigit (c : N) : bool := N.leb 48 c && N.leb c 57.
Definition isoct (c : N) : bool := N.leb 48 c && N.leb c 55.
Definition ishex (c : N) : bool :=
  isdigit c || (N.leb 65 c && N.leb c 70) || (N.leb 97 c && N.leb c 102).
Definition hexval (c : N) : N :=
  if isdigit c then c - 48 else if N.leb 97 c then c - 87 else c - 55.

(* re.sub(r/\\./, empty, s): remove backslash + any character except newline, left to right *)
Fixpoint strip_pairs (s : str) : str :=
  match s with
  | [] => []
  | c :: r =>
      if N.eqb c cBS then
        match r with
        | d :: r' => if N.eqb d 10 then c :: strip_pairs r else strip_pairs r'
        | [] => [c]
        end
      else c :: strip_pairs r
  end.

(* the single-character escapes of replace_esc's table *)
Definition simple_esc (d : N) : option N :=
  if N.eqb d cSQ then Some cSQ else if N.eqb d cDQ then Some cDQ
  else if N.eqb d cBS then Some cBS
  else if N.eqb d 97 then Some 7 else if N.eqb d 98 then Some 8 else if N.eqb d 102 then Some 12
  else if N.eqb d 110 then Some 10 else if N.eqb d 114 then Some 13 else if N.eqb d 116 then Some 9
  else if N.eqb d 118 then Some 11 else None.

Definition hv4 (a b c d : N) : N := ((hexval a * 16 + hexval b) * 16 + hexval c) * 16 + hexval d.

(* re.sub of  backslash ( [' dq a b f n r t v] | backslash | [0-7]{1,3} | x[0-9a-fA-F]{2} | u[0-9a-fA-F]{4} )  by replace_esc.
   [esc_step accU r]: r is the text after a backslash; Some (character, number of characters of r
   consumed) if an alternative matches there, None otherwise.  [accU] adds the alternative
   U[0-9a-fA-F]{8} (the repair proposed in fixes/; false = the code as it is). *)
Definition oct (d : N) : N := d - 48.
Definition esc_step (accU : bool) (r : str) : option (N * nat) :=
  match r with
  | [] => None
  | d :: r1 =>
    match simple_esc d with
    | Some x => Some (x, 1%nat)
    | None =>
      if isoct d then
        match r1 with
        | d2 :: r2 =>
            if isoct d2 then
              match r2 with
              | d3 :: _ => if isoct d3 then Some ((oct d * 8 + oct d2) * 8 + oct d3, 3%nat)
                           else Some (oct d * 8 + oct d2, 2%nat)
              | [] => Some (oct d * 8 + oct d2, 2%nat)
              end
            else Some (oct d, 1%nat)
        | [] => Some (oct d, 1%nat)
        end
      else if N.eqb d 120 then
        match r1 with
        | h1 :: h2 :: _ => if ishex h1 && ishex h2 then Some (hexval h1 * 16 + hexval h2, 3%nat) else None
        | _ => None
        end
      else if N.eqb d 117 then
        match r1 with
        | h1 :: h2 :: h3 :: h4 :: _ =>
            if ishex h1 && ishex h2 && ishex h3 && ishex h4 then Some (hv4 h1 h2 h3 h4, 5%nat) else None
        | _ => None
        end
      else if accU && N.eqb d 85 then
        match r1 with
        | h1 :: h2 :: h3 :: h4 :: h5 :: h6 :: h7 :: h8 :: _ =>
            if ishex h1 && ishex h2 && ishex h3 && ishex h4 && ishex h5 && ishex h6 && ishex h7 && ishex h8
            then Some (hv4 h1 h2 h3 h4 * 65536 + hv4 h5 h6 h7 h8, 9%nat) else None
        | _ => None
        end
      else None
    end
  end.

(* the substitution scans left to right; a backslash at which no alternative matches is copied and
   scanning resumes after it.  Fuel = length of the text (never exhausted). *)
Fixpoint expand_f (fuel : nat) (accU : bool) (s : str) : str :=
  match fuel with
  | O => []
  | S f =>
    match s with
    | [] => []
    | c :: r =>
        if N.eqb c cBS then
          match esc_step accU r with
          | Some (x, k) => x :: expand_f f accU (skipn k r)
          | None => c :: expand_f f accU r
          end
        else c :: expand_f f accU r
    end
  end.
Definition expand (accU : bool) (s : str) : str := expand_f (length s) accU s.

(* re.match(r/^[+-]?[0-9]*$/, s): optional sign, digits, and (Python's dollar) an optional final
   newline *)
Fixpoint all_digits_nl (s : str) : bool :=
  match s with
  | [] => true
  | [c] => isdigit c || N.eqb c 10
  | c :: r => isdigit c && all_digits_nl r
  end.
Definition int_shape (s : str) : bool :=
  match s with
  | c :: r => if N.eqb c 43 || N.eqb c 45 then all_digits_nl r else all_digits_nl s
  | [] => true
  end.

Definition digits_val (s : str) : N := fold_left (fun a c => a * 10 + (c - 48))%N s 0%N.

(* int(s) on a string of the shape above: the digits must be non-empty *)
Definition drop_nl (s : str) : str :=
  match rev s with c :: r => if N.eqb c 10 then rev r else s | [] => s end.
Definition parse_int (s : str) : option Z :=
  let s := drop_nl s in
  match s with
  | c :: r =>
      if N.eqb c 45 then match r with [] => None | _ => Some (- Z.of_N (digits_val r))%Z end
      else if N.eqb c 43 then match r with [] => None | _ => Some (Z.of_N (digits_val r)) end
      else Some (Z.of_N (digits_val s))
  | [] => None
  end.

Definition sTrue : str := [84; 114; 117; 101]%N.
Definition sFalse : str := [70; 97; 108; 115; 101]%N.

Inductive attr (F : Type) := AStr (s : str) | AInt (z : Z) | AFloat (f : F).
Inductive pres (F : Type) := PStr (s : str) | PInt (z : Z) | PBool (b : bool) | PFloat (f : F) | PErr.
Arguments AStr {F}. Arguments AInt {F}. Arguments AFloat {F}.
Arguments PStr {F}. Arguments PInt {F}. Arguments PBool {F}. Arguments PFloat {F}. Arguments PErr {F}.

Definition to_pres {F} (a : attr F) : pres F :=
  match a with AStr s => PStr s | AInt z => PInt z | AFloat f => PFloat f end.

Definition last_is (l : str) (q : N) : bool :=
  match l with [] => false | _ => N.eqb (last l 0%N) q end.

Section Parse.
  Variable F : Type.
  Variable float_parse : str -> option F.    (* Python float(): a library function, not modelled *)
  Variable accU : bool.

  Definition parse_attr (s : str) : pres F :=
    if memN cSQ s || memN cDQ s then
      match s with
      | q :: r =>
          if negb (N.eqb q cSQ || N.eqb q cDQ) then PErr
          else if negb (last_is r q) then PErr
          else let body := removelast r in
               if memN q (strip_pairs body) then PErr
               else let r := expand accU body in
                    (* chr() of an escape beyond U+10FFFF raises ValueError (possible only with accU) *)
                    if existsb (N.leb 1114112) r then PErr else PStr r
      | [] => PErr
      end
    else if int_shape s then
      match parse_int s with Some z => PInt z | None => PErr end
    else if str_eqb s sTrue then PBool true
    else if str_eqb s sFalse then PBool false
    else match float_parse s with Some f => PFloat f | None => PErr end.

  (* what a float's repr must look like for the reader to reach float(): checked on every float
     text the real writer produces *)
  Definition float_text_ok (t : str) : bool :=
    negb (memN cSQ t || memN cDQ t) && negb (int_shape t) && negb (str_eqb t sTrue) && negb (str_eqb t sFalse).
End Parse.

Section ReprAttr.
  Variable F : Type.
  Variable printable : N -> bool.
  Variable float_repr : F -> str.            (* Python repr(float): library, not modelled *)
  Definition py_repr (a : attr F) : str :=
    match a with
    | AStr s => repr_str printable s
    | AInt z => repr_int z
    | AFloat f => float_repr f
    end.
End ReprAttr.

(* --- header lines  # {}: {!r}  and the reader's splitting ---------------------------------- *)

(* str.isspace() *)
Definition is_space (c : N) : bool :=
  (N.leb 9 c && N.leb c 13) || (N.leb 28 c && N.leb c 32) || N.eqb c 133 || N.eqb c 160 || N.eqb c 5760
  || (N.leb 8192 c && N.leb c 8202) || N.eqb c 8232 || N.eqb c 8233 || N.eqb c 8239 || N.eqb c 8287
  || N.eqb c 12288.
Fixpoint lstrip (s : str) : str :=
  match s with c :: r => if is_space c then lstrip r else s | [] => [] end.
Definition strip (s : str) : str := rev (lstrip (rev (lstrip s))).

Definition header_line (name value : str) : str := [35; 32]%N ++ name ++ [58; 32]%N ++ value.

Fixpoint split_colon (s : str) : option (str * str) :=
  match s with
  | [] => None
  | c :: r => if N.eqb c 58 then Some ([], r)
              else match split_colon r with Some (a, b) => Some (c :: a, b) | None => None end
  end.

(* one attribute line of read_dataset_from_text (line = what readline() returned): None = the
   expecting-attribute ValueError; otherwise (name, value text handed to the value parser) *)
Definition parse_line (line : str) : option (str * str) :=
  let l := strip line in
  match split_colon l with
  | None => None
  | Some (pre, post) =>
      match pre with
      | 35%N :: 32%N :: name => match name with [] => None | _ => Some (name, strip post) end
      | _ => None
      end
  end.

(* --- numbered names: the writer renders an axis / column number into attribute names and into
   the labels of the special columns with str.format (decimal); the reader finds attributes by
   rendering the same name again and recognises a special column by
   label.startswith(axis) and label.endswith(_index | _scale), axis = int(label[4:-6]) ---------- *)

Definition dec_nat (n : nat) : str := dec (N.of_nat n).
Definition numbered (pre : str) (n : nat) (suf : str) : str := pre ++ dec_nat n ++ suf.

Definition sAxis : str := [97; 120; 105; 115].                       (* axis *)
Definition sIndexSuf : str := [95; 105; 110; 100; 101; 120].       (* _index *)
Definition sScaleSuf : str := [95; 115; 99; 97; 108; 101].        (* _scale *)
Definition pAxisAttr : str := [81; 77; 73; 95; 68; 97; 116; 97; 83; 101; 116; 95; 97; 120; 105; 115].   (* QMI_DataSet_axis *)
Definition pColAttr : str := [81; 77; 73; 95; 68; 97; 116; 97; 83; 101; 116; 95; 99; 111; 108; 117; 109; 110].   (* QMI_DataSet_column *)
Definition sSize : str := [95; 115; 105; 122; 101].    (* _size *)
Definition sLabel : str := [95; 108; 97; 98; 101; 108].   (* _label *)
Definition sUnit : str := [95; 117; 110; 105; 116].    (* _unit *)

Inductive nscheme := NAxisSize | NAxisLabel | NAxisUnit | NColLabel | NColUnit | NIndex | NScale.
Definition scheme_name (k : nscheme) (n : nat) : str :=
  match k with
  | NAxisSize => numbered pAxisAttr n sSize
  | NAxisLabel => numbered pAxisAttr n sLabel
  | NAxisUnit => numbered pAxisAttr n sUnit
  | NColLabel => numbered pColAttr n sLabel
  | NColUnit => numbered pColAttr n sUnit
  | NIndex => numbered sAxis n sIndexSuf
  | NScale => numbered sAxis n sScaleSuf
  end.

Fixpoint starts_with (p s : str) : bool :=
  match p, s with
  | [], _ => true
  | x :: p', y :: s' => N.eqb x y && starts_with p' s'
  | _ :: _, [] => false
  end.
Definition ends_with (suf s : str) : bool := starts_with (rev suf) (rev s).
Definition middle (s : str) : str := firstn (length s - 10) (skipn 4 s).      (* label[4:-6] *)

(* Python int() on the middle part.  Modelled: optional sign and ASCII digits (value), and plain
   ASCII junk (ValueError).  Not modelled (IntUnmodelled): the other spellings int() accepts —
   surrounding white space, underscores between digits, non-ASCII decimal digits. *)
Inductive intres := IntOk (z : Z) | IntErr | IntUnmodelled.
Definition py_int (s : str) : intres :=
  if existsb (fun c => is_space c || N.eqb c 95 || N.leb 128 c) s then IntUnmodelled
  else if int_shape s then match parse_int s with Some z => IntOk z | None => IntErr end
  else IntErr.

Inductive special := SIndex (z : Z) | SScale (z : Z) | SOther | SBadInt | SUnmodelled.
Definition parse_special (l : str) : special :=
  if starts_with sAxis l && ends_with sIndexSuf l then
    match py_int (middle l) with IntOk z => SIndex z | IntErr => SBadInt | IntUnmodelled => SUnmodelled end
  else if starts_with sAxis l && ends_with sScaleSuf l then
    match py_int (middle l) with IntOk z => SScale z | IntErr => SBadInt | IntUnmodelled => SUnmodelled end
  else SOther.

(* ============================================================================================ *)
Local Close Scope N_scope.
(** * (b) special columns and row-major layout                                                   *)
(* ============================================================================================ *)

Definition prod (l : list nat) : nat := fold_right Nat.mul 1 l.

Fixpoint repeat_each {A} (k : nat) (l : list A) : list A :=      (* np.repeat(l, k) *)
  match l with [] => [] | x :: r => repeat x k ++ repeat_each k r end.
Fixpoint tile {A} (k : nat) (l : list A) : list A :=             (* np.tile(l, k) *)
  match k with O => [] | S k' => l ++ tile k' l end.

(* [sh] = the shape without the column axis (dataset.data.shape[:-1]) *)
Definition expand_column {A} (sh : list nat) (axis : nat) (vals : list A) : list A :=
  tile (prod (firstn axis sh)) (repeat_each (prod (skipn (S axis) sh)) vals).
Definition index_column (sh : list nat) (axis : nat) : list nat :=
  expand_column sh axis (seq 0 (nth axis sh 0)).
Definition scale_column {A} (sh : list nat) (axis : nat) (scale : list A) : list A :=
  expand_column sh axis scale.

(* the reader's scale = rawdata[0 : n*inner : inner, col] *)
Fixpoint take_stride {A} (n inner : nat) (l : list A) : list A :=
  match n with
  | O => []
  | S n' => match l with [] => [] | x :: _ => x :: take_stride n' inner (skipn inner l) end
  end.
Definition extract_scale {A} (sh : list nat) (axis : nat) (col : list A) : list A :=
  take_stride (nth axis sh 0) (prod (skipn (S axis) sh)) col.

(* all multi-indices of the outer axes in row-major (C) order: the order of the rows of
   data.reshape((nrow, ncol)) *)
Fixpoint all_idx (sh : list nat) : list (list nat) :=
  match sh with
  | [] => [[]]
  | n :: r => flat_map (fun i => map (cons i) (all_idx r)) (seq 0 n)
  end.
Fixpoint ravel (sh ix : list nat) : nat :=
  match sh, ix with
  | n :: r, i :: ir => i * prod r + ravel r ir
  | _, _ => 0
  end.
Fixpoint in_bounds (sh ix : list nat) : bool :=
  match sh, ix with
  | [], [] => true
  | n :: r, i :: ir => Nat.ltb i n && in_bounds r ir
  | _, _ => false
  end.

(* an array with outer shape sh = a function from multi-indices to rows (of ncol values) *)
Definition flatten {R} (a : list nat -> R) (sh : list nat) : list R := map a (all_idx sh).
Definition unflatten {R} (dflt : R) (rows : list R) (sh : list nat) (ix : list nat) : R :=
  nth (ravel sh ix) rows dflt.

(* ============================================================================================ *)
(** * (c) the data store over a file system                                                      *)
(* ============================================================================================ *)

Inductive kind := KDir | KFile (content : N).
Definition path := list str.
Definition fsys := list (path * kind).        (* finite map; the base directory is [] *)

Fixpoint path_eqb (a b : path) : bool :=
  match a, b with
  | [], [] => true
  | x :: a', y :: b' => str_eqb x y && path_eqb a' b'
  | _, _ => false
  end.

Fixpoint lookup (fs : fsys) (p : path) : option kind :=
  match fs with
  | [] => None
  | (q, k) :: r => if path_eqb q p then Some k else lookup r p
  end.
Definition kind_of (fs : fsys) (p : path) : option kind :=
  match p with [] => Some KDir | _ => lookup fs p end.
Definition isdir (fs : fsys) (p : path) : bool :=
  match kind_of fs p with Some KDir => true | _ => false end.
Definition pexists (fs : fsys) (p : path) : bool :=
  match kind_of fs p with Some _ => true | None => false end.
Fixpoint fs_remove (fs : fsys) (p : path) : fsys :=
  match fs with
  | [] => []
  | (q, k) :: r => if path_eqb q p then fs_remove r p else (q, k) :: fs_remove r p
  end.
Definition fs_set (fs : fsys) (p : path) (k : kind) : fsys := (p, k) :: fs_remove fs p.

Definition split_last (p : path) : option (path * str) :=
  match rev p with [] => None | n :: r => Some (rev r, n) end.
Definition listdir (fs : fsys) (p : path) : list str :=
  flat_map (fun e => match split_last (fst e) with
                     | Some (par, n) => if path_eqb par p then [n] else []
                     | None => [] end) fs.

Inductive err := EValue | EExists | ENotFound | ENotDir | EIsDir | EUsage.
Inductive res (A : Type) := Ok (a : A) | Err (e : err).
Arguments Ok {A}. Arguments Err {A}.

(* path resolution: None if every component of pre ++ rest below pre is a directory, else the
   OSError the kernel reports (ENOENT at the first missing component, ENOTDIR at a file) *)
Fixpoint resolve (fs : fsys) (pre rest : path) : option err :=
  match rest with
  | [] => None
  | x :: r => match kind_of fs (pre ++ [x]) with
              | None => Some ENotFound
              | Some (KFile _) => Some ENotDir
              | Some KDir => resolve fs (pre ++ [x]) r
              end
  end.
Definition dir_status (fs : fsys) (p : path) : option err := resolve fs [] p.

(* os.mkdir *)
Definition mkdir (fs : fsys) (p : path) : fsys * res unit :=
  if pexists fs p then (fs, Err EExists)
  else match split_last p with
       | None => (fs, Err EExists)
       | Some (par, _) =>
           match dir_status fs par with
           | Some e => (fs, Err e)
           | None => (fs_set fs p KDir, Ok tt)
           end
       end.

(* os.listdir *)
Definition oslistdir (fs : fsys) (p : path) : res (list str) :=
  match dir_status fs p with
  | Some e => Err e
  | None => Ok (listdir fs p)
  end.

(* re.match(r/^C+$/, s) for a character class C: one or more class characters and (Python's
   dollar) an optional final newline *)
Fixpoint all_in (cls : N -> bool) (s : str) : bool :=
  match s with [] => true | c :: r => cls c && all_in cls r end.
Definition match_plus (cls : N -> bool) (s : str) : bool :=
  let b := drop_nl s in
  match b with [] => false | _ => all_in cls b end.
(* re.match(r/^[0-9]{k}$/, s) *)
Definition match_digits (k : nat) (s : str) : bool :=
  let b := drop_nl s in Nat.eqb (length b) k && all_in isdigit b.

Definition isalnum (c : N) : bool :=
  isdigit c || (N.leb 65 c && N.leb c 90) || (N.leb 97 c && N.leb c 122).
(* [-_a-zA-Z0-9(),]  and  [-_a-zA-Z0-9().,] *)
Definition name_char (c : N) : bool :=
  isalnum c || N.eqb c 45 || N.eqb c 95 || N.eqb c 40 || N.eqb c 41 || N.eqb c 44.
Definition label_char (c : N) : bool := name_char c || N.eqb c 46.

Definition folder_name (time label : str) : str := time ++ [95%N] ++ label.

(* DataStore.make_folder(label, date_str=, time_str=) *)
Definition make_folder (fs : fsys) (label date time : str) : fsys * res path :=
  if negb (match_digits 8 date) then (fs, Err EValue)
  else if negb (match_digits 6 time) then (fs, Err EValue)
  else if match label with [] => true | _ => false end then (fs, Err EValue)
  else if negb (match_plus label_char label) then (fs, Err EValue)
  else
    let fs1 := if isdir fs [date] then fs
               else fst (mkdir fs [date]) (* FileExistsError is swallowed; nothing else can fail *) in
    let full := [date; folder_name time label] in
    if pexists fs1 full then (fs1, Err EExists)
    else match mkdir fs1 full with
         | (fs2, Ok _) => (fs2, Ok full)
         | (fs2, Err e) => (fs2, Err e)
         end.

Inductive fmt := FHdf5 | FText | FOther.
Definition ext (f : fmt) : str := match f with FHdf5 => [46; 104; 53]%N | _ => [46; 100; 97; 116]%N end.

(* open(path, x or w mode) and h5py.File(path, x or w mode) *)
Definition create_file (fs : fsys) (p : path) (overwrite : bool) (content : N) : fsys * res unit :=
  match split_last p with
  | None => (fs, Err EIsDir)
  | Some (par, _) =>
      match dir_status fs par with
      | Some e => (fs, Err e)
      | None =>
          match lookup fs p with
          | Some KDir => (fs, Err (if overwrite then EIsDir else EExists))
          | Some (KFile _) => if overwrite then (fs_set fs p (KFile content), Ok tt) else (fs, Err EExists)
          | None => (fs_set fs p (KFile content), Ok tt)
          end
      end
  end.

(* DataFolder.write_dataset(ds, file_format, overwrite); [content] identifies the dataset written *)
Definition write_dataset (fs : fsys) (folder : path) (name : str) (f : fmt) (overwrite : bool)
           (content : N) : fsys * res unit :=
  if negb (match_plus name_char name) then (fs, Err EValue)
  else match f with
       | FOther => (fs, Err EUsage)
       | _ => create_file fs (folder ++ [name ++ ext f]) overwrite content
       end.

(* DataFolder.make_hdf5file(name): always exclusive *)
Definition make_hdf5file (fs : fsys) (folder : path) (name : str) (content : N) : fsys * res unit :=
  if negb (match_plus name_char name) then (fs, Err EValue)
  else create_file fs (folder ++ [name ++ ext FHdf5]) false content.

(* --- listings ---------------------------------------------------------------------------------- *)

Fixpoint str_leb (a b : str) : bool :=        (* Python's str order: by code point *)
  match a, b with
  | [], _ => true
  | _ :: _, [] => false
  | x :: a', y :: b' => if N.ltb x y then true else if N.ltb y x then false else str_leb a' b'
  end.
Fixpoint insert_desc (x : str) (l : list str) : list str :=
  match l with
  | [] => [x]
  | y :: r => if str_leb y x then x :: l else y :: insert_desc x r
  end.
Definition sort_desc (l : list str) : list str := fold_right insert_desc [] l.
Definition sort_asc (l : list str) : list str := rev (sort_desc l).

(* re.match(r/^([0-9]{6})_(.+)$/, ff): (time, label) *)
Definition split_folder (ff : str) : option (str * str) :=
  let t := firstn 6 ff in
  match skipn 6 ff with
  | c :: rest =>
      let lab := drop_nl rest in
      if N.eqb c 95 && Nat.eqb (length t) 6 && all_in isdigit t
         && negb (match lab with [] => true | _ => false end) && negb (memN 10 lab)
      then Some (t, lab) else None
  | [] => None
  end.

Definition folder_matches (fs : fsys) (dd : str) (label : option str) (ff : str) : option str :=
  match split_folder ff with
  | Some (t, lab) =>
      if (match label with None => true | Some l => str_eqb l lab end) && isdir fs [dd; ff]
      then Some t else None
  | None => None
  end.

(* inner loop of find_latest_folder: first matching folder in the (descending) listing *)
Fixpoint first_match (fs : fsys) (dd : str) (label : str) (ffs : list str) : option (str * str * str) :=
  match ffs with
  | [] => None
  | ff :: r => match folder_matches fs dd (Some label) ff with
               | Some t => Some (dd, t, ff)
               | None => first_match fs dd label r
               end
  end.

Fixpoint latest_in (fs : fsys) (label : str) (dds : list str) : res (option (str * str * str)) :=
  match dds with
  | [] => Ok None
  | dd :: r =>
      if match_digits 8 dd then
        match oslistdir fs [dd] with
        | Err e => Err e
        | Ok ffs => match first_match fs dd label (sort_desc ffs) with
                    | Some x => Ok (Some x)
                    | None => latest_in fs label r
                    end
        end
      else latest_in fs label r
  end.

(* DataStore.find_latest_folder(label, date_str): Some (date, time, folder name) *)
Definition find_latest_folder (fs : fsys) (label : str) (date : option str)
  : res (option (str * str * str)) :=
  latest_in fs label (match date with None => sort_desc (listdir fs []) | Some d => [d] end).

Fixpoint list_in (fs : fsys) (label : option str) (dds : list str) : res (list (str * str * str)) :=
  match dds with
  | [] => Ok []
  | dd :: r =>
      if match_digits 8 dd then
        match oslistdir fs [dd] with
        | Err e => Err e
        | Ok ffs =>
            let here := flat_map (fun ff => match folder_matches fs dd label ff with
                                            | Some t => [(dd, t, ff)] | None => [] end) (sort_asc ffs) in
            match list_in fs label r with Ok l => Ok (here ++ l) | Err e => Err e end
        end
      else list_in fs label r
  end.
(* DataStore.list_folders(label) *)
Definition list_folders (fs : fsys) (label : option str) : res (list (str * str * str)) :=
  list_in fs label (sort_asc (listdir fs [])).

(* histories of store operations *)
Inductive sop :=
| OMakeFolder (label date time : str)
| OWrite (folder : path) (name : str) (f : fmt) (overwrite : bool) (content : N)
| OMakeH5 (folder : path) (name : str) (content : N).

Definition sstep (fs : fsys) (o : sop) : fsys :=
  match o with
  | OMakeFolder l d t => fst (make_folder fs l d t)
  | OWrite fo n f ow c => fst (write_dataset fs fo n f ow c)
  | OMakeH5 fo n c => fst (make_hdf5file fs fo n c)
  end.
Definition srun (fs : fsys) (ops : list sop) : fsys := fold_left sstep ops fs.

(* the only operation allowed to replace an existing file: a write with overwrite=True, and only
   that file *)
Definition may_replace (o : sop) (p : path) : bool :=
  match o with
  | OWrite fo n f true _ => path_eqb (fo ++ [n ++ ext f]) p
  | _ => false
  end.

(* ============================================================================================ *)
(** * (d) the HDF5 recorder                                                                       *)
(* ============================================================================================ *)

(* A block is a VALUE: the contents of what record() was given at the time of the call (the real
   code takes a copy; the harness lets the callers overwrite their arrays afterwards and compares the
   file with the at-call-time contents). *)
Definition block := list Z.
Definition amap := list (N * Z).             (* attribute name -> value; first binding wins *)
Fixpoint aget (m : amap) (a : N) : option Z :=
  match m with [] => None | (k, v) :: r => if N.eqb k a then Some v else aget r a end.
Definition aupdate (old new : amap) : amap := new ++ old.     (* dict.update: new overrides *)
Definition anonempty (m : amap) : bool := match m with [] => false | _ => true end.

Definition upd {A} (f : N -> A) (d : N) (v : A) : N -> A := fun x => if N.eqb x d then v else f x.

(* All tables are total functions of the dataset name; a name is IN a dictionary iff its entry
   is non-empty (record() ignores empty blocks and set_attribute always adds a binding, so the
   real dictionaries never hold an empty entry). *)
Record rstate := mkR {
  queue : N -> list block;     (* self._recordings *)
  qattrs : N -> amap;          (* self._attributes *)
  taken : N -> list block;     (* run()'s local [recordings] *)
  tattrs : N -> amap;          (* run()'s local [new_attributes] *)
  pending : N -> amap;         (* run()'s [pending_attributes] *)
  file : N -> list Z;          (* HDF5 file: dataset -> elements; the dataset exists iff non-empty *)
  fattrs : N -> amap;          (* HDF5 attributes of the dataset *)
  midflush : bool;             (* between the swap and the end of the write phase *)
  shutdown : bool;             (* _shutdown_requested *)
  quit : bool;                 (* quitflag read at the last swap *)
  done : bool;                 (* run() has returned *)
  qnames : list N              (* names with a non-empty queue entry (for the wait-loop test) *)
}.

Definition rinit : rstate :=
  mkR (fun _ => []) (fun _ => []) (fun _ => []) (fun _ => []) (fun _ => []) (fun _ => []) (fun _ => [])
      false false false false [].

Inductive rlabel :=
| LRecord (d : N) (b : block)            (* record(d, b) takes effect (inside the lock) *)
| LSetAttr (d a : N) (v : Z)             (* set_attribute *)
| LSwap                                   (* recorder thread leaves the wait loop and swaps *)
| LWrite                                  (* recorder thread finishes its write phase *)
| LShutdown.                              (* shutdown(): flag set *)

(* the write phase, per dataset name d (the loop bodies of run() touch only d's entries) *)
Definition write_file (s : rstate) (d : N) : list Z := file s d ++ concat (taken s d).
Definition write_fattrs (s : rstate) (d : N) : amap :=
  match taken s d with
  | _ :: _ => aupdate (aupdate (fattrs s d) (pending s d)) (tattrs s d)
  | [] => if anonempty (tattrs s d) && negb (anonempty (pending s d))
             && match file s d with [] => false | _ => true end
          then aupdate (fattrs s d) (tattrs s d) else fattrs s d
  end.
Definition write_pending (s : rstate) (d : N) : amap :=
  match taken s d with
  | _ :: _ => []
  | [] => if anonempty (tattrs s d) then
            if anonempty (pending s d) then aupdate (pending s d) (tattrs s d)
            else match file s d with [] => tattrs s d | _ => pending s d end
          else pending s d
  end.

Definition rstep (s : rstate) (l : rlabel) : option rstate :=
  match l with
  | LRecord d b =>
      match b with
      | [] => Some s
      | _ => Some (mkR (upd (queue s) d (queue s d ++ [b])) (qattrs s) (taken s) (tattrs s) (pending s)
                       (file s) (fattrs s) (midflush s) (shutdown s) (quit s) (done s) (d :: qnames s))
      end
  | LSetAttr d a v =>
      Some (mkR (queue s) (upd (qattrs s) d ((a, v) :: qattrs s d)) (taken s) (tattrs s) (pending s)
                (file s) (fattrs s) (midflush s) (shutdown s) (quit s) (done s) (qnames s))
  | LSwap =>
      if negb (midflush s) && negb (done s)
         && (shutdown s || match qnames s with [] => false | _ => true end)
      then Some (mkR (taken s) (tattrs s) (queue s) (qattrs s) (pending s)
                     (file s) (fattrs s) true (shutdown s) (shutdown s) (done s) [])
      else None
  | LWrite =>
      if midflush s
      then Some (mkR (queue s) (qattrs s) (fun _ => []) (fun _ => []) (write_pending s)
                     (write_file s) (write_fattrs s) false (shutdown s) (quit s) (quit s) (qnames s))
      else None
  | LShutdown =>
      Some (mkR (queue s) (qattrs s) (taken s) (tattrs s) (pending s)
                (file s) (fattrs s) (midflush s) true (quit s) (done s) (qnames s))
  end.

Fixpoint rrun (s : rstate) (ls : list rlabel) : option rstate :=
  match ls with
  | [] => Some s
  | l :: r => match rstep s l with Some s' => rrun s' r | None => None end
  end.

(* what the recorder thread still does once shutdown is requested and nobody records any more *)
Definition finish_labels (s : rstate) : list rlabel :=
  if done s then []
  else if midflush s then (if quit s then [LWrite] else [LWrite; LSwap; LWrite])
  else [LSwap; LWrite].

(* ghost: blocks recorded to d, attribute settings of (d, a), in history order *)
Fixpoint recorded (ls : list rlabel) (d : N) : list block :=
  match ls with
  | [] => []
  | LRecord d' b :: r => if N.eqb d' d then b :: recorded r d else recorded r d
  | _ :: r => recorded r d
  end.
Fixpoint last_attr (ls : list rlabel) (d a : N) (acc : option Z) : option Z :=
  match ls with
  | [] => acc
  | LSetAttr d' a' v :: r => last_attr r d a (if N.eqb d' d && N.eqb a' a then Some v else acc)
  | _ :: r => last_attr r d a acc
  end.
Fixpoint no_client_ops (ls : list rlabel) : bool :=
  match ls with
  | [] => true
  | (LRecord _ _ | LSetAttr _ _ _ | LShutdown) :: _ => false
  | _ :: r => no_client_ops r
  end.
Fixpoint no_shutdown (ls : list rlabel) : bool :=
  match ls with [] => true | LShutdown :: _ => false | _ :: r => no_shutdown r end.
