(* C17 — property theorems only.  PARTIAL claim: the theorems are about the executable model of
   the logic in qmi/data/{dataset,datastore,hdf5recorder}.py (Model.v); the fidelity of h5py,
   numpy.savetxt/loadtxt/reshape, float()/repr(float) and the operating system's exclusive-create is
   NOT modelled — it is exercised only by the correspondence runs of harness/c17.py. *)
Require Import QV.C17.Model QV.C17.Proofs.
From Coq Require Import Sorted.

(* ---- (a) text-header attribute codec ---------------------------------------------------------- *)

(* repr() then _parse_attribute_value gives the value back: every int, every float (under the
   assumed laws of float()/repr(float), stated as hypotheses and checked on every float text the real
   writer produces), every string of code points (below U+110000) whose characters at or above U+10000 are all printable.  The reader
   is the code as it is (accU = false). *)
Theorem C17_attr_roundtrip :
  forall (F : Type) (float_parse : str -> option F) (float_repr : F -> str) (printable : N -> bool) (a : attr F),
    (forall f, float_text_ok (float_repr f) = true /\ float_parse (float_repr f) = Some f) ->
    match a with
    | AStr s => Forall (fun c => (c < 1114112)%N /\ ((65536 <= c)%N -> printable c = true)) s
    | _ => True
    end ->
    parse_attr F float_parse false (py_repr F printable float_repr a) = to_pres a.
Proof. exact full_attr_roundtrip. Qed.
Print Assumptions C17_attr_roundtrip.

(* ... and it fails for the rest: a non-printable character beyond the BMP (U+E0001) is written as
   \U000e0001 and read back as those ten characters.  Known finding C17 text-attr U-escape. *)
Theorem C17_attr_roundtrip_refuted :
  forall (F : Type) (float_parse : str -> option F) (printable : N -> bool),
    printable 917505%N = false ->
    exists s, parse_attr F float_parse false (repr_str printable s) <> PStr s
              /\ parse_attr F float_parse false (repr_str printable s)
                 = PStr [92; 85; 48; 48; 48; 101; 48; 48; 48; 49]%N.
Proof. exact full_attr_roundtrip_refuted. Qed.
Print Assumptions C17_attr_roundtrip_refuted.

(* with the proposed repair (the reader also accepts \UXXXXXXXX; fixes/C17_text_attr_U_escape.diff)
   the round trip holds for every string of code points *)
Theorem C17_attr_roundtrip_repaired :
  forall (F : Type) (float_parse : str -> option F) (printable : N -> bool) (s : str),
    Forall (fun c => (c < 1114112)%N) s ->
    parse_attr F float_parse true (repr_str printable s) = PStr s.
Proof. exact full_attr_roundtrip_repaired. Qed.
Print Assumptions C17_attr_roundtrip_repaired.

(* the header line  # name: repr  is split back into the name and the repr text, for every non-empty
   name without a colon and every str / int value (and every float text that starts and ends with a
   non-space character) *)
Theorem C17_header_line_roundtrip :
  forall (printable : N -> bool) (name : str),
    name <> [] -> memN 58 name = false ->
    (forall s, parse_line (header_line name (repr_str printable s)) = Some (name, repr_str printable s))
    /\ (forall z, parse_line (header_line name (repr_int z)) = Some (name, repr_int z))
    /\ (forall t, tight t -> parse_line (header_line name t) = Some (name, t)).
Proof. exact full_header_line_roundtrip. Qed.
Print Assumptions C17_header_line_roundtrip.

(* Numbered names.  The writer renders the axis / column number in decimal into attribute names
   (QMI_DataSet_axisN_size/_label/_unit, QMI_DataSet_columnN_label/_unit) and into the labels of the
   special columns (axisN_index, axisN_scale).  For EVERY N: the reader's recogniser of special
   columns (startswith axis, endswith _index / _scale, int() of the middle) gives back the kind and N ... *)
Theorem C17_special_label_roundtrip :
  forall n : nat,
    parse_special (scheme_name NIndex n) = SIndex (Z.of_nat n)
    /\ parse_special (scheme_name NScale n) = SScale (Z.of_nat n).
Proof. exact special_roundtrip. Qed.
Print Assumptions C17_special_label_roundtrip.

(* ... and a name of the scheme determines its kind and its number, so the reader's look-ups by
   rendered name can never hit the entry of another axis or column (10 vs 1, 100 vs 10, ...) *)
Theorem C17_numbered_names_injective :
  forall k n k' n', scheme_name k n = scheme_name k' n' -> k = k' /\ n = n'.
Proof. exact scheme_name_inj. Qed.
Print Assumptions C17_numbered_names_injective.

(* ---- (b) layout of the text format ------------------------------------------------------------- *)

(* For every outer shape sh (any number of axes): the k-th index column written is the k-th
   coordinate of the rows in row-major order — which is what the reader verifies —, the rows are
   prod sh many, and placing row number (ravel sh ix) at multi-index ix recovers the array. *)
Theorem C17_layout :
  forall (R : Type) (a : list nat -> R) (dflt : R) (sh : list nat),
    (forall k, k < length sh -> index_column sh k = map (fun ix => nth k ix 0) (all_idx sh))
    /\ length (flatten a sh) = prod sh
    /\ (forall ix, in_bounds sh ix = true -> nth_error (all_idx sh) (ravel sh ix) = Some ix)
    /\ (forall ix, in_bounds sh ix = true -> unflatten dflt (flatten a sh) sh ix = a ix).
Proof. exact full_layout. Qed.
Print Assumptions C17_layout.

(* the reader's strided slice of a scale column gives the axis scale back *)
Theorem C17_scale_column :
  forall (A : Type) (sh : list nat) (k : nat) (scale : list A),
    length scale = nth k sh 0 -> 0 < prod (firstn k sh) -> 0 < prod (skipn (S k) sh) ->
    extract_scale sh k (scale_column sh k scale) = scale.
Proof. exact @extract_scale_column. Qed.
Print Assumptions C17_scale_column.

(* ---- (c) data store ----------------------------------------------------------------------------- *)

(* make_folder never hands out an existing folder, and leaves every existing entry as it was *)
Theorem C17_make_folder_fresh :
  forall fs label date time fs' p,
    make_folder fs label date time = (fs', Ok p) ->
    p = [date; folder_name time label] /\ lookup fs p = None /\ lookup fs' p = Some KDir
    /\ (forall q k, lookup fs q = Some k -> lookup fs' q = Some k).
Proof. exact make_folder_fresh. Qed.
Print Assumptions C17_make_folder_fresh.

(* write_dataset without overwrite (and make_hdf5file) never changes an existing path; over whole
   histories: an entry can only ever be replaced by a write with overwrite=True of exactly that path *)
Theorem C17_no_overwrite :
  (forall fs folder name f content q k,
     lookup fs q = Some k -> lookup (fst (write_dataset fs folder name f false content)) q = Some k)
  /\ (forall fs folder name content q k,
     lookup fs q = Some k -> lookup (fst (make_hdf5file fs folder name content)) q = Some k)
  /\ (forall ops fs p k,
     Forall (fun o => may_replace o p = false) ops -> lookup fs p = Some k -> lookup (srun fs ops) p = Some k).
Proof. exact full_no_overwrite. Qed.
Print Assumptions C17_no_overwrite.

(* order on fixed-width decimal strings = numeric order *)
Theorem C17_fixed_width_order :
  forall a b, length a = length b -> all_in isdigit a = true -> all_in isdigit b = true ->
    (str_leb a b = true <-> (digits_val a <= digits_val b)%N).
Proof. exact fixed_width_order. Qed.
Print Assumptions C17_fixed_width_order.

(* find_latest_folder(label): the folder returned is a folder with that label, and every folder
   with that label has a date string not above it and, on the same date, a folder name not above it;
   None only if there is no such folder *)
Theorem C17_latest :
  forall fs label,
    match find_latest_folder fs label None with
    | Ok (Some (dd, t, ff)) =>
        store_folder fs label dd t ff /\
        forall dd' t' ff', store_folder fs label dd' t' ff' ->
          str_leb dd' dd = true /\ (dd' = dd -> str_leb ff' ff = true)
    | Ok None => forall dd' t' ff', ~ store_folder fs label dd' t' ff'
    | Err _ => True   (* a date entry that is not a directory: OSError, no folder returned *)
    end.
Proof. exact latest_spec. Qed.
Print Assumptions C17_latest.

(* hence, among 8-character date directories, the greatest (date, time) as numbers *)
Theorem C17_latest_numeric :
  forall fs label dd t ff,
    find_latest_folder fs label None = Ok (Some (dd, t, ff)) ->
    store_folder fs label dd t ff /\
    forall dd' t' ff', store_folder fs label dd' t' ff' ->
      length dd = 8 -> length dd' = 8 ->
      (digits_val dd' <= digits_val dd)%N /\ (dd' = dd -> (digits_val t' <= digits_val t)%N).
Proof. exact latest_numeric. Qed.
Print Assumptions C17_latest_numeric.

(* ---- (d) recorder --------------------------------------------------------------------------------- *)

(* at every moment of every interleaving: file ++ being written ++ queued = everything recorded, in
   recording order, per dataset (nothing lost, duplicated or reordered) *)
Theorem C17_recorder_conservation :
  forall ls s d, rrun rinit ls = Some s ->
    file s d ++ concat (taken s d) ++ concat (queue s d) = concat (recorded ls d).
Proof. exact conservation. Qed.
Print Assumptions C17_recorder_conservation.

(* for EVERY interleaving [pre] of record / set_attribute calls with swap and write steps of the
   recorder thread, then shutdown(), then any steps of the recorder thread up to its end: the file
   holds per dataset exactly the recorded blocks, once each, in recording order, and every dataset
   that exists carries the last value set for each of its attributes *)
Theorem C17_recorder :
  forall pre post s,
    no_shutdown pre = true -> no_client_ops post = true ->
    rrun rinit (pre ++ LShutdown :: post) = Some s -> done s = true ->
    forall d, file s d = concat (recorded pre d)
              /\ (file s d <> [] -> forall a, aget (fattrs s d) a = last_attr pre d a None).
Proof. exact recorder_complete. Qed.
Print Assumptions C17_recorder.

(* ... and after shutdown() the recorder thread always reaches its end within three steps *)
Theorem C17_recorder_terminates :
  forall s, shutdown s = true ->
    no_client_ops (finish_labels s) = true /\
    exists s', rrun s (finish_labels s) = Some s' /\ done s' = true.
Proof. exact recorder_terminates. Qed.
Print Assumptions C17_recorder_terminates.

(* ---- non-vacuity ----------------------------------------------------------------------------------- *)
Definition ex_pr (c : N) : bool := negb (N.eqb c 917505 || N.eqb c 173).
Example C17_example_attr :
  parse_attr str (fun t => Some t) false
    (py_repr str ex_pr (fun t => t) (AStr [105; 116; 39; 115; 32; 34; 113; 34; 10; 173; 233; 128512]%N))
  = PStr [105; 116; 39; 115; 32; 34; 113; 34; 10; 173; 233; 128512]%N
  /\ py_repr str ex_pr (fun t => t) (AInt (-120)) = [45; 49; 50; 48]%N.
Proof. vm_compute. split; reflexivity. Qed.

(* names cross the one-digit / two-digit / three-digit boundaries; the recogniser of the pinned
   code also accepts non-canonical spellings of a number (axis007_index), which the writer never emits *)
Example C17_example_names :
  scheme_name NColLabel 100
  = [81; 77; 73; 95; 68; 97; 116; 97; 83; 101; 116; 95; 99; 111; 108; 117; 109; 110; 49; 48; 48; 95; 108; 97; 98; 101; 108]%N
  /\ parse_special (scheme_name NScale 10) = SScale 10
  /\ parse_special [97; 120; 105; 115; 48; 48; 55; 95; 105; 110; 100; 101; 120]%N = SIndex 7
  /\ parse_special [97; 120; 105; 115; 120; 95; 105; 110; 100; 101; 120]%N = SBadInt
  /\ parse_special [97; 120; 105; 115; 49; 48; 95; 115; 99; 97; 108; 101; 115]%N = SOther.
Proof. vm_compute. repeat split. Qed.

Example C17_example_layout :
  index_column [2; 3] 1 = [0; 1; 2; 0; 1; 2] /\ all_idx [2; 2] = [[0; 0]; [0; 1]; [1; 0]; [1; 1]]
  /\ in_bounds [2; 3] [1; 2] = true /\ ravel [2; 3] [1; 2] = 5.
Proof. vm_compute. repeat split. Qed.

Definition ex_d1 : str := [50; 48; 50; 48; 48; 49; 48; 49]%N.
Definition ex_d2 : str := [50; 48; 50; 48; 48; 49; 48; 50]%N.
Definition ex_t : str := [49; 50; 48; 48; 48; 48]%N.
Definition ex_l : str := [108; 97; 98]%N.
Definition ex_fs : fsys :=
  fst (make_folder (fst (make_folder (fst (make_folder [] ex_l ex_d2 ex_t)) ex_l ex_d1 ex_t)) [120%N] ex_d2 ex_t).
Example C17_example_store :
  find_latest_folder ex_fs ex_l None = Ok (Some (ex_d2, ex_t, folder_name ex_t ex_l))
  /\ snd (make_folder ex_fs ex_l ex_d1 ex_t) = Err EExists
  /\ snd (write_dataset (fst (write_dataset ex_fs [ex_d1; folder_name ex_t ex_l] [100%N] FText false 1))
                        [ex_d1; folder_name ex_t ex_l] [100%N] FText false 2) = Err EExists.
Proof. vm_compute. repeat split. Qed.

Example C17_example_recorder :
  match rrun rinit ([LRecord 1 [10; 11]%Z; LSetAttr 1 7 5%Z; LSwap; LRecord 1 [12]%Z; LRecord 2 [20]%Z; LWrite;
                     LSetAttr 1 7 6%Z] ++ LShutdown :: [LSwap; LWrite]) with
  | Some s => done s = true /\ file s 1%N = [10; 11; 12]%Z /\ file s 2%N = [20]%Z /\ aget (fattrs s 1%N) 7%N = Some 6%Z
  | None => False
  end.
Proof. vm_compute. repeat split. Qed.
