(* C17 (c): the data store over a file system map. *)
From Coq Require Import List ZArith NArith Bool Lia ZifyBool ZifyNat ZifyN Sorted.
Require Import QV.C17.Model.

Lemma str_eqb_spec a : forall b, str_eqb a b = true <-> a = b.
Proof.
  induction a as [| x a IH]; intros [| y b]; cbn [str_eqb]; split; intro H; try reflexivity; try discriminate.
  - apply andb_true_iff in H as [H1 H2]. apply N.eqb_eq in H1. apply IH in H2. congruence.
  - inversion H; subst. rewrite N.eqb_refl. cbn [andb]. apply IH. reflexivity.
Qed.

Lemma path_eqb_spec a : forall b, path_eqb a b = true <-> a = b.
Proof.
  induction a as [| x a IH]; intros [| y b]; cbn [path_eqb]; split; intro H; try reflexivity; try discriminate.
  - apply andb_true_iff in H as [H1 H2]. apply str_eqb_spec in H1. apply IH in H2. congruence.
  - inversion H; subst. apply andb_true_iff. split; [apply str_eqb_spec | apply IH]; reflexivity.
Qed.

Lemma path_eqb_refl a : path_eqb a a = true.
Proof. apply path_eqb_spec. reflexivity. Qed.

Lemma path_eqb_false a b : a <> b -> path_eqb a b = false.
Proof. intros H. destruct (path_eqb a b) eqn:E; [apply path_eqb_spec in E; contradiction | reflexivity]. Qed.

Lemma lookup_remove_same fs p : lookup (fs_remove fs p) p = None.
Proof.
  induction fs as [| [q k] r IH]; [reflexivity |]. cbn [fs_remove].
  destruct (path_eqb q p) eqn:E; [exact IH |]. cbn [lookup]. rewrite E. exact IH.
Qed.

Lemma lookup_remove_other fs p q : p <> q -> lookup (fs_remove fs p) q = lookup fs q.
Proof.
  intros H. induction fs as [| [x k] r IH]; [reflexivity |]. cbn [fs_remove lookup].
  destruct (path_eqb x p) eqn:E.
  - apply path_eqb_spec in E. subst x. rewrite (path_eqb_false p q H). exact IH.
  - cbn [lookup]. destruct (path_eqb x q); [reflexivity | exact IH].
Qed.

Lemma lookup_set fs p k q : lookup (fs_set fs p k) q = if path_eqb p q then Some k else lookup fs q.
Proof.
  unfold fs_set. cbn [lookup]. destruct (path_eqb p q) eqn:E; [reflexivity |].
  apply lookup_remove_other. intro. subst. rewrite path_eqb_refl in E. discriminate.
Qed.

(* [fs'] keeps every existing entry of [fs] *)
Definition preserves (fs fs' : fsys) : Prop := forall q k, lookup fs q = Some k -> lookup fs' q = Some k.

Lemma preserves_refl fs : preserves fs fs.
Proof. intros q k H. exact H. Qed.
Lemma preserves_trans a b c : preserves a b -> preserves b c -> preserves a c.
Proof. intros H1 H2 q k H. apply H2, H1, H. Qed.

Lemma preserves_set_fresh fs p k : lookup fs p = None -> preserves fs (fs_set fs p k).
Proof.
  intros Hn q k' H. rewrite lookup_set. destruct (path_eqb p q) eqn:E; [| exact H].
  apply path_eqb_spec in E. subst q. congruence.
Qed.

Lemma pexists_false_lookup fs p : pexists fs p = false -> lookup fs p = None.
Proof.
  unfold pexists, kind_of. destruct p as [| x p]; [discriminate |]. destruct (lookup fs (x :: p)); [discriminate | reflexivity].
Qed.

Lemma mkdir_preserves fs p : preserves fs (fst (mkdir fs p)).
Proof.
  unfold mkdir. destruct (pexists fs p) eqn:E; [apply preserves_refl |].
  destruct (split_last p) as [[par n] |]; [| apply preserves_refl].
  destruct (dir_status fs par) as [e |]; cbn [fst]; try apply preserves_refl.
  apply preserves_set_fresh. apply pexists_false_lookup. exact E.
Qed.

Lemma mkdir_ok fs p fs' : mkdir fs p = (fs', Ok tt) -> lookup fs p = None /\ lookup fs' p = Some KDir.
Proof.
  unfold mkdir. destruct (pexists fs p) eqn:E; [discriminate |].
  destruct (split_last p) as [[par n] |]; [| discriminate].
  destruct (dir_status fs par) as [e |]; try discriminate.
  intros H. inversion H; subst. split; [apply pexists_false_lookup; exact E |].
  rewrite lookup_set, path_eqb_refl. reflexivity.
Qed.

Lemma make_folder_preserves fs l d t : preserves fs (fst (make_folder fs l d t)).
Proof.
  unfold make_folder.
  destruct (negb (match_digits 8 d)); [apply preserves_refl |].
  destruct (negb (match_digits 6 t)); [apply preserves_refl |].
  destruct (match l with [] => true | _ => false end); [apply preserves_refl |].
  destruct (negb (match_plus label_char l)); [apply preserves_refl |].
  set (fs1 := if isdir fs [d] then fs else fst (mkdir fs [d])).
  assert (P1 : preserves fs fs1) by (unfold fs1; destruct (isdir fs [d]); [apply preserves_refl | apply mkdir_preserves]).
  destruct (pexists fs1 [d; folder_name t l]); [exact P1 |].
  pose proof (mkdir_preserves fs1 [d; folder_name t l]) as P2.
  destruct (mkdir fs1 [d; folder_name t l]) as [fs2 [u | e]]; cbn [fst] in *; eapply preserves_trans; eassumption.
Qed.

Lemma make_folder_fresh fs l d t fs' p :
  make_folder fs l d t = (fs', Ok p) ->
  p = [d; folder_name t l] /\ lookup fs p = None /\ lookup fs' p = Some KDir /\ preserves fs fs'.
Proof.
  intros H. pose proof (make_folder_preserves fs l d t) as P. rewrite H in P. cbn [fst] in P.
  unfold make_folder in H.
  destruct (negb (match_digits 8 d)); [discriminate |].
  destruct (negb (match_digits 6 t)); [discriminate |].
  destruct (match l with [] => true | _ => false end); [discriminate |].
  destruct (negb (match_plus label_char l)); [discriminate |].
  set (fs1 := if isdir fs [d] then fs else fst (mkdir fs [d])) in *.
  assert (P1 : preserves fs fs1) by (unfold fs1; destruct (isdir fs [d]); [apply preserves_refl | apply mkdir_preserves]).
  destruct (pexists fs1 [d; folder_name t l]) eqn:E; [discriminate |].
  destruct (mkdir fs1 [d; folder_name t l]) as [fs2 [[] | e]] eqn:M; [| discriminate].
  inversion H; subst. apply mkdir_ok in M as [M1 M2].
  repeat split; try assumption.
  destruct (lookup fs [d; folder_name t l]) eqn:L; [| reflexivity].
  apply P1 in L. congruence.
Qed.

Lemma create_file_excl_preserves fs p c : preserves fs (fst (create_file fs p false c)).
Proof.
  unfold create_file. destruct (split_last p) as [[par n] |]; [| apply preserves_refl].
  destruct (dir_status fs par) as [e |]; try apply preserves_refl.
  destruct (lookup fs p) as [[| c'] |] eqn:L; cbn [fst]; try apply preserves_refl.
  apply preserves_set_fresh. exact L.
Qed.

Lemma create_file_other fs p ow c q : p <> q -> lookup (fst (create_file fs p ow c)) q = lookup fs q.
Proof.
  intros H. unfold create_file. destruct (split_last p) as [[par n] |]; [| reflexivity].
  destruct (dir_status fs par) as [e |]; try reflexivity.
  destruct (lookup fs p) as [[| c'] |]; try destruct ow; cbn [fst]; try reflexivity;
    rewrite lookup_set, (path_eqb_false p q H); reflexivity.
Qed.

Lemma write_no_overwrite fs fo n f c : preserves fs (fst (write_dataset fs fo n f false c)).
Proof.
  unfold write_dataset. destruct (negb (match_plus name_char n)); [apply preserves_refl |].
  destruct f; try apply preserves_refl; apply create_file_excl_preserves.
Qed.

Lemma make_h5_no_overwrite fs fo n c : preserves fs (fst (make_hdf5file fs fo n c)).
Proof.
  unfold make_hdf5file. destruct (negb (match_plus name_char n)); [apply preserves_refl |].
  apply create_file_excl_preserves.
Qed.

(* a step leaves path p alone unless it is an overwrite=True write of exactly p *)
Lemma sstep_keeps fs o p k : may_replace o p = false -> lookup fs p = Some k -> lookup (sstep fs o) p = Some k.
Proof.
  intros Hm Hl. destruct o as [l d t | fo n f ow c | fo n c]; cbn [sstep].
  - apply make_folder_preserves. exact Hl.
  - destruct ow.
    + cbn [may_replace] in Hm. unfold write_dataset.
      destruct (negb (match_plus name_char n)); [exact Hl |].
      destruct f; try exact Hl; rewrite create_file_other; try exact Hl;
        intro E; rewrite E, path_eqb_refl in Hm; discriminate.
    + apply write_no_overwrite. exact Hl.
  - apply make_h5_no_overwrite. exact Hl.
Qed.

Lemma srun_keeps ops : forall fs p k,
  Forall (fun o => may_replace o p = false) ops -> lookup fs p = Some k -> lookup (srun fs ops) p = Some k.
Proof.
  induction ops as [| o ops IH]; intros fs p k H Hl; [exact Hl |].
  inversion H; subst. unfold srun in *. cbn [fold_left]. apply IH; [assumption |].
  apply sstep_keeps; assumption.
Qed.

(* ---- string order ---------------------------------------------------------------------------- *)

Lemma str_leb_refl a : str_leb a a = true.
Proof. induction a as [| x a IH]; [reflexivity |]. cbn [str_leb]. rewrite N.ltb_irrefl. exact IH. Qed.

Lemma str_leb_total a : forall b, str_leb a b = true \/ str_leb b a = true.
Proof.
  induction a as [| x a IH]; intros [| y b]; cbn [str_leb]; auto.
  destruct (N.ltb_spec x y), (N.ltb_spec y x); auto; lia.
Qed.

Lemma str_leb_trans a : forall b c, str_leb a b = true -> str_leb b c = true -> str_leb a c = true.
Proof.
  induction a as [| x a IH]; intros [| y b] [| z c]; cbn [str_leb]; intros H1 H2; try reflexivity; try discriminate.
  destruct (N.ltb_spec x y), (N.ltb_spec y x), (N.ltb_spec y z), (N.ltb_spec z y), (N.ltb_spec x z), (N.ltb_spec z x);
    try reflexivity; try discriminate; try lia.
  eapply IH; eassumption.
Qed.

Lemma str_leb_antisym a : forall b, str_leb a b = true -> str_leb b a = true -> a = b.
Proof.
  induction a as [| x a IH]; intros [| y b]; cbn [str_leb]; intros H1 H2; try reflexivity; try discriminate.
  destruct (N.ltb_spec x y), (N.ltb_spec y x); try discriminate; try lia.
  assert (x = y) by lia. subst. f_equal. apply IH; assumption.
Qed.

Definition desc : str -> str -> Prop := fun a b => str_leb b a = true.

Lemma insert_desc_in x l y : In y (insert_desc x l) <-> y = x \/ In y l.
Proof.
  induction l as [| z l IH]; cbn [insert_desc In]; [intuition |].
  destruct (str_leb z x); cbn [In]; [intuition | rewrite IH; intuition].
Qed.

Lemma insert_desc_sorted x l : StronglySorted desc l -> StronglySorted desc (insert_desc x l).
Proof.
  induction 1 as [| z l Hs IH Hz]; cbn [insert_desc]; [repeat constructor |].
  destruct (str_leb z x) eqn:E.
  - constructor; [constructor; assumption |]. constructor; [exact E |].
    rewrite Forall_forall in *. intros w Hw. unfold desc in *. eapply str_leb_trans; [apply Hz, Hw | exact E].
  - constructor; [exact IH |]. rewrite Forall_forall in *. intros w Hw. apply insert_desc_in in Hw as [-> | Hw].
    + unfold desc. destruct (str_leb_total x z) as [T | T]; [exact T | congruence].
    + apply Hz, Hw.
Qed.

Lemma sort_desc_in l y : In y (sort_desc l) <-> In y l.
Proof.
  induction l as [| x l IH]; cbn [sort_desc fold_right In]; [tauto |].
  fold (sort_desc l). rewrite insert_desc_in, IH. intuition.
Qed.

Lemma sort_desc_sorted l : StronglySorted desc (sort_desc l).
Proof.
  induction l as [| x l IH]; cbn [sort_desc fold_right]; [constructor |]. apply insert_desc_sorted. exact IH.
Qed.

(* ---- find_latest_folder ----------------------------------------------------------------------- *)

Lemma first_match_spec fs dd label l : StronglySorted desc l ->
  match first_match fs dd label l with
  | Some (d, t, ff) => d = dd /\ In ff l /\ folder_matches fs dd (Some label) ff = Some t /\
                       forall ff', In ff' l -> folder_matches fs dd (Some label) ff' <> None -> str_leb ff' ff = true
  | None => forall ff', In ff' l -> folder_matches fs dd (Some label) ff' = None
  end.
Proof.
  induction 1 as [| x l Hs IH Hx]; cbn [first_match]; [intros ff' [] |].
  destruct (folder_matches fs dd (Some label) x) as [t |] eqn:E.
  - repeat split; [left; reflexivity | exact E |].
    intros ff' [<- | Hin] _; [apply str_leb_refl |]. rewrite Forall_forall in Hx. apply Hx, Hin.
  - destruct (first_match fs dd label l) as [[[d t] ff] |].
    + destruct IH as (A & B & C & D). repeat split; [exact A | right; exact B | exact C |].
      intros ff' [<- | Hin] Hm; [congruence | apply D; assumption].
    + intros ff' [<- | Hin]; [exact E | apply IH, Hin].
Qed.

(* (dd, ff) names a folder with this label: a directory date/ff whose name has the form
   6 digits, underscore, label, under a date directory of 8 digits *)
Definition is_folder (fs : fsys) (label : str) (dds : list str) (dd t ff : str) : Prop :=
  In dd dds /\ match_digits 8 dd = true /\ In ff (listdir fs [dd]) /\
  folder_matches fs dd (Some label) ff = Some t.

Lemma latest_in_spec fs label dds : StronglySorted desc dds ->
  match latest_in fs label dds with
  | Ok (Some (dd, t, ff)) =>
      is_folder fs label dds dd t ff /\
      forall dd' t' ff', is_folder fs label dds dd' t' ff' ->
        str_leb dd' dd = true /\ (dd' = dd -> str_leb ff' ff = true)
  | Ok None => forall dd' t' ff', ~ is_folder fs label dds dd' t' ff'
  | Err _ => True
  end.
Proof.
  induction 1 as [| x dds Hs IH Hx]; cbn [latest_in].
  - intros dd' t' ff' (H & _). destruct H.
  - destruct (match_digits 8 x) eqn:Em.
    + unfold oslistdir. destruct (dir_status fs [x]) as [e |] eqn:Ek; try exact I.
      pose proof (first_match_spec fs x label (sort_desc (listdir fs [x])) (sort_desc_sorted _)) as FM.
      destruct (first_match fs x label (sort_desc (listdir fs [x]))) as [[[d t] ff] |].
      * destruct FM as (-> & B & C & D). split.
        { repeat split; [left; reflexivity | exact Em | apply sort_desc_in; exact B | exact C]. }
        intros dd' t' ff' ([<- | Hin] & M1 & M2 & M3).
        -- split; [apply str_leb_refl |]. intros _. apply D; [apply sort_desc_in; exact M2 | congruence].
        -- rewrite Forall_forall in Hx. specialize (Hx dd' Hin). unfold desc in Hx. split; [exact Hx |].
           intros ->. apply D; [apply sort_desc_in; exact M2 | congruence].
      * destruct (latest_in fs label dds) as [[[[dd t] ff] |] | e]; try exact I.
        -- destruct IH as ((I1 & I2 & I3 & I4) & IB). split; [repeat split; [right; exact I1 | exact I2 | exact I3 | exact I4] |].
           intros dd' t' ff' ([<- | Hin] & M1 & M2 & M3).
           ++ exfalso. rewrite (FM ff') in M3; [discriminate | apply sort_desc_in; exact M2].
           ++ apply (IB dd' t' ff'). repeat split; assumption.
        -- intros dd' t' ff' ([<- | Hin] & M1 & M2 & M3).
           ++ rewrite (FM ff') in M3; [discriminate | apply sort_desc_in; exact M2].
           ++ apply (IH dd' t' ff'). repeat split; assumption.
    + destruct (latest_in fs label dds) as [[[[dd t] ff] |] | e]; try exact I.
      * destruct IH as ((I1 & I2 & I3 & I4) & IB). split; [repeat split; [right; exact I1 | exact I2 | exact I3 | exact I4] |].
        intros dd' t' ff' ([<- | Hin] & M1 & M2 & M3); [congruence |].
        apply (IB dd' t' ff'). repeat split; assumption.
      * intros dd' t' ff' ([<- | Hin] & M1 & M2 & M3); [congruence |].
        apply (IH dd' t' ff'). repeat split; assumption.
Qed.

Definition store_folder (fs : fsys) (label dd t ff : str) : Prop :=
  is_folder fs label (listdir fs []) dd t ff.

Lemma latest_spec fs label :
  match find_latest_folder fs label None with
  | Ok (Some (dd, t, ff)) =>
      store_folder fs label dd t ff /\
      forall dd' t' ff', store_folder fs label dd' t' ff' ->
        str_leb dd' dd = true /\ (dd' = dd -> str_leb ff' ff = true)
  | Ok None => forall dd' t' ff', ~ store_folder fs label dd' t' ff'
  | Err _ => True
  end.
Proof.
  unfold find_latest_folder, store_folder.
  pose proof (latest_in_spec fs label (sort_desc (listdir fs [])) (sort_desc_sorted _)) as H.
  assert (EQ : forall dd t ff, is_folder fs label (sort_desc (listdir fs [])) dd t ff <-> is_folder fs label (listdir fs []) dd t ff).
  { intros. unfold is_folder. rewrite sort_desc_in. tauto. }
  destruct (latest_in fs label (sort_desc (listdir fs []))) as [[[[dd t] ff] |] | e]; [| | exact I].
  - destruct H as (A & B). split; [apply EQ, A |]. intros dd' t' ff' Hf. apply (B dd' t' ff'), EQ, Hf.
  - intros dd' t' ff' Hf. apply (H dd' t' ff'), EQ, Hf.
Qed.

(* ---- fixed-width decimal strings: string order = numeric order ------------------------------- *)
Local Open Scope N_scope.
Ltac Zify.zify_post_hook ::= Z.to_euclidean_division_equations.

Lemma fold_digits r : forall a,
  fold_left (fun a c => a * 10 + (c - 48)) r a = a * 10 ^ N.of_nat (length r) + digits_val r.
Proof.
  unfold digits_val. induction r as [| c r IH]; intros a.
  - cbn [fold_left length]. change (10 ^ N.of_nat 0) with 1. lia.
  - cbn [fold_left length]. rewrite IH, (IH (0 * 10 + (c - 48))). rewrite Nat2N.inj_succ, N.pow_succ_r'. lia.
Qed.

Lemma digits_val_cons c r : digits_val (c :: r) = (c - 48) * 10 ^ N.of_nat (length r) + digits_val r.
Proof. unfold digits_val at 1. cbn [fold_left]. rewrite fold_digits. lia. Qed.

Lemma digits_val_bound r : all_in isdigit r = true -> digits_val r < 10 ^ N.of_nat (length r).
Proof.
  induction r as [| c r IH]; intros H.
  - vm_compute. reflexivity.
  - cbn [all_in] in H. apply andb_true_iff in H as [Hc Hr]. specialize (IH Hr).
    rewrite digits_val_cons. cbn [length]. rewrite Nat2N.inj_succ, N.pow_succ_r'.
    unfold isdigit in Hc. assert (c - 48 <= 9) by lia.
    assert ((c - 48) * 10 ^ N.of_nat (length r) <= 9 * 10 ^ N.of_nat (length r)) by (apply N.mul_le_mono_r; assumption).
    lia.
Qed.

Lemma fixed_width_order a : forall b, length a = length b ->
  all_in isdigit a = true -> all_in isdigit b = true ->
  (str_leb a b = true <-> digits_val a <= digits_val b).
Proof.
  induction a as [| x a IH]; intros [| y b] Hl Ha Hb; try discriminate.
  - cbn. split; [intros _; apply N.le_refl | reflexivity].
  - cbn [length] in Hl. injection Hl as Hl. cbn [all_in] in Ha, Hb.
    apply andb_true_iff in Ha as [Hx Ha]. apply andb_true_iff in Hb as [Hy Hb].
    specialize (IH b Hl Ha Hb). rewrite !digits_val_cons. rewrite <- Hl.
    pose proof (digits_val_bound a Ha) as Ba. pose proof (digits_val_bound b Hb) as Bb. rewrite <- Hl in Bb.
    set (P := 10 ^ N.of_nat (length a)) in *. unfold isdigit in Hx, Hy.
    cbn [str_leb]. destruct (N.ltb_spec x y) as [L | G].
    + split; [intros _ | reflexivity].
      assert ((x - 48 + 1) * P <= (y - 48) * P) by (apply N.mul_le_mono_r; lia). lia.
    + destruct (N.ltb_spec y x) as [L' | G'].
      * split; [discriminate |]. intros H.
        assert ((y - 48 + 1) * P <= (x - 48) * P) by (apply N.mul_le_mono_r; lia). lia.
      * assert (x = y) by lia. subst y. rewrite IH. lia.
Qed.

Lemma str_leb_prefix a : forall b x y, length a = length b -> str_leb (a ++ x) (b ++ y) = true -> str_leb a b = true.
Proof.
  induction a as [| c a IH]; intros [| d b] x y Hl H; try discriminate; [reflexivity |].
  cbn [app str_leb] in *. destruct (N.ltb c d); [reflexivity |]. destruct (N.ltb d c); [discriminate |].
  injection Hl as Hl. eapply IH; eassumption.
Qed.

Lemma drop_nl_cases s : drop_nl s = s \/ s = drop_nl s ++ [10].
Proof.
  unfold drop_nl. destruct (rev s) as [| c r] eqn:E; [left; reflexivity |].
  destruct (N.eqb_spec c 10) as [-> | _]; [right | left; reflexivity].
  apply (f_equal (@rev N)) in E. rewrite rev_involutive in E. exact E.
Qed.

Lemma match_digits_exact k s : match_digits k s = true -> length s = k -> all_in isdigit s = true.
Proof.
  unfold match_digits. intros H Hl. apply andb_true_iff in H as [H1 H2]. apply Nat.eqb_eq in H1.
  destruct (drop_nl_cases s) as [E | E]; [rewrite E in H2; exact H2 |].
  rewrite E, app_length in Hl. cbn [length] in Hl. lia.
Qed.

Lemma split_folder_shape ff t lab : split_folder ff = Some (t, lab) ->
  length t = 6%nat /\ all_in isdigit t = true /\ exists rest, ff = t ++ rest.
Proof.
  unfold split_folder. intros H. pose proof (firstn_skipn 6 ff) as FS.
  remember (firstn 6 ff) as t0 eqn:Et. remember (skipn 6 ff) as sk eqn:Es.
  destruct sk as [| c rest]; [discriminate |].
  destruct (N.eqb c 95); [| discriminate]. cbn [andb] in H.
  destruct (Nat.eqb_spec (length t0) 6); [| discriminate]. cbn [andb] in H.
  destruct (all_in isdigit t0) eqn:A; [| discriminate]. cbn [andb] in H.
  destruct (_ && _); [| discriminate]. injection H as <- <-.
  repeat split; try assumption. exists (c :: rest). symmetry. exact FS.
Qed.

Lemma folder_matches_split fs dd lab ff t : folder_matches fs dd lab ff = Some t ->
  exists l, split_folder ff = Some (t, l).
Proof.
  unfold folder_matches. destruct (split_folder ff) as [[t0 l] |]; [| discriminate].
  destruct (_ && _); [| discriminate]. intros H. inversion H; subst. exists l. reflexivity.
Qed.

Lemma latest_numeric fs label dd t ff :
  find_latest_folder fs label None = Ok (Some (dd, t, ff)) ->
  store_folder fs label dd t ff /\
  forall dd' t' ff', store_folder fs label dd' t' ff' ->
    length dd = 8%nat -> length dd' = 8%nat ->
    digits_val dd' <= digits_val dd /\ (dd' = dd -> digits_val t' <= digits_val t).
Proof.
  intros H. pose proof (latest_spec fs label) as S. rewrite H in S. destruct S as (A & B).
  split; [exact A |]. intros dd' t' ff' Hf L L'. destruct (B dd' t' ff' Hf) as (B1 & B2).
  destruct A as (_ & A2 & _ & A4). destruct Hf as (_ & F2 & _ & F4).
  pose proof (match_digits_exact _ _ A2 L) as D. pose proof (match_digits_exact _ _ F2 L') as D'.
  split.
  - apply fixed_width_order; [congruence | assumption | assumption | exact B1].
  - intros E. specialize (B2 E).
    apply folder_matches_split in A4 as (l & A4). apply folder_matches_split in F4 as (l' & F4).
    apply split_folder_shape in A4 as (T1 & T2 & r & ->). apply split_folder_shape in F4 as (T1' & T2' & r' & ->).
    apply fixed_width_order; [congruence | assumption | assumption |].
    eapply str_leb_prefix; [| exact B2]. congruence.
Qed.

(* ---- statements of Properties.v -------------------------------------------------------------- *)

Lemma full_no_overwrite :
  (forall fs folder name f content q k,
     lookup fs q = Some k -> lookup (fst (write_dataset fs folder name f false content)) q = Some k)
  /\ (forall fs folder name content q k,
     lookup fs q = Some k -> lookup (fst (make_hdf5file fs folder name content)) q = Some k)
  /\ (forall ops fs p k,
     Forall (fun o => may_replace o p = false) ops -> lookup fs p = Some k -> lookup (srun fs ops) p = Some k).
Proof.
  repeat split.
  - intros fs fo n f c q k H. apply write_no_overwrite. exact H.
  - intros fs fo n c q k H. apply make_h5_no_overwrite. exact H.
  - intros ops fs p k. apply srun_keeps.
Qed.
