(* C17 (b): special index / scale columns and the row-major layout of the text format. *)
From Coq Require Import List Arith Bool Lia.
Require Import QV.C17.Model.

Lemma repeat_each_length {A} k (l : list A) : length (repeat_each k l) = length l * k.
Proof. induction l as [| x l IH]; [reflexivity |]. cbn [repeat_each length]. rewrite app_length, repeat_length, IH. lia. Qed.

Lemma tile_length {A} k (l : list A) : length (tile k l) = k * length l.
Proof. induction k as [| k IH]; [reflexivity |]. cbn [tile]. rewrite app_length, IH. lia. Qed.

Lemma tile_add {A} a b (l : list A) : tile (a + b) l = tile a l ++ tile b l.
Proof. induction a as [| a IH]; [reflexivity |]. cbn [Nat.add tile]. rewrite IH, app_assoc. reflexivity. Qed.

Lemma tile_mul {A} n m (l : list A) : tile (n * m) l = tile n (tile m l).
Proof.
  induction n as [| n IH]; [reflexivity |]. cbn [tile Nat.mul]. rewrite tile_add, IH. reflexivity.
Qed.

Lemma flat_map_const {A B} (l : list B) a n : flat_map (fun _ : A => l) (repeat a n) = tile n l.
Proof. induction n as [| n IH]; [reflexivity |]. cbn [repeat flat_map tile]. rewrite IH. reflexivity. Qed.

Lemma flat_map_const_seq {B} (l : list B) a n : flat_map (fun _ : nat => l) (seq a n) = tile n l.
Proof. revert a. induction n as [| n IH]; intros a; [reflexivity |]. cbn [seq flat_map tile]. rewrite IH. reflexivity. Qed.

Lemma map_flat_map {A B C} (f : B -> C) (g : A -> list B) l : map f (flat_map g l) = flat_map (fun x => map f (g x)) l.
Proof. induction l as [| x l IH]; [reflexivity |]. cbn [flat_map]. rewrite map_app, IH. reflexivity. Qed.

Lemma flat_map_ext' {A B} (f g : A -> list B) l : (forall x, f x = g x) -> flat_map f l = flat_map g l.
Proof. intros H. induction l as [| x l IH]; [reflexivity |]. cbn [flat_map]. rewrite H, IH. reflexivity. Qed.

Lemma all_idx_length sh : length (all_idx sh) = prod sh.
Proof.
  induction sh as [| n r IH]; [reflexivity |]. cbn [all_idx prod fold_right]. fold (prod r).
  generalize 0 as a. induction n as [| n IHn]; intros a; [reflexivity |].
  cbn [seq flat_map]. rewrite app_length, map_length, IH, IHn. reflexivity.
Qed.

Lemma repeat_each_flat {A} k (l : list A) : repeat_each k l = flat_map (fun x => repeat x k) l.
Proof. induction l as [| x l IH]; [reflexivity |]. cbn [repeat_each flat_map]. rewrite IH. reflexivity. Qed.

Lemma map_const_repeat {A B} (l : list A) (b : B) : map (fun _ => b) l = repeat b (length l).
Proof. induction l as [| x l IH]; [reflexivity |]. cbn [map length repeat]. rewrite IH. reflexivity. Qed.

Lemma tile_1 {A} (l : list A) : tile 1 l = l.
Proof. cbn [tile]. apply app_nil_r. Qed.

(* the index columns written (and verified by the reader) are the coordinates of the rows *)
Lemma index_column_spec sh : forall k, k < length sh ->
  index_column sh k = map (fun ix => nth k ix 0) (all_idx sh).
Proof.
  unfold index_column, expand_column.
  induction sh as [| n r IH]; intros k Hk; [cbn in Hk; lia |].
  destruct k as [| k].
  - cbn [firstn prod fold_right skipn nth all_idx]. fold (prod r). rewrite tile_1.
    rewrite map_flat_map, repeat_each_flat. apply flat_map_ext'. intros i.
    rewrite map_map. cbn [nth]. rewrite map_const_repeat, all_idx_length. reflexivity.
  - cbn [length] in Hk. cbn [firstn prod fold_right skipn nth all_idx]. fold (prod (firstn k r)).
    rewrite tile_mul. change (skipn (S k) r) with (skipn (S k) r). rewrite IH by lia.
    rewrite map_flat_map. rewrite <- (flat_map_const_seq _ 0 n). apply flat_map_ext'. intros i.
    rewrite map_map. cbn [nth]. reflexivity.
Qed.

Lemma ravel_lt sh : forall ix, in_bounds sh ix = true -> ravel sh ix < prod sh.
Proof.
  induction sh as [| n r IH]; intros [| i ir] H; try discriminate; [cbn; lia |].
  cbn [in_bounds] in H. apply andb_true_iff in H as [H1 H2]. apply Nat.ltb_lt in H1. specialize (IH ir H2).
  cbn [ravel prod fold_right]. fold (prod r). nia.
Qed.

Lemma nth_error_flat_uniform {A} (g : nat -> list A) m : forall n a i j,
  (forall x, length (g x) = m) -> i < n -> j < m ->
  nth_error (flat_map g (seq a n)) (i * m + j) = nth_error (g (a + i)) j.
Proof.
  induction n as [| n IH]; intros a i j Hg Hi Hj; [lia |].
  cbn [seq flat_map]. destruct i as [| i].
  - cbn [Nat.mul Nat.add]. rewrite nth_error_app1 by (rewrite Hg; exact Hj). rewrite Nat.add_0_r. reflexivity.
  - rewrite nth_error_app2 by (rewrite Hg; lia). rewrite Hg.
    replace (S i * m + j - m) with (i * m + j) by lia. rewrite IH by (try assumption; lia).
    f_equal. f_equal. lia.
Qed.

Lemma all_idx_ravel sh : forall ix, in_bounds sh ix = true -> nth_error (all_idx sh) (ravel sh ix) = Some ix.
Proof.
  induction sh as [| n r IH]; intros [| i ir] H; try discriminate; [reflexivity |].
  cbn [in_bounds] in H. apply andb_true_iff in H as [H1 H2]. apply Nat.ltb_lt in H1.
  cbn [all_idx ravel].
  rewrite (nth_error_flat_uniform (fun i => map (cons i) (all_idx r)) (prod r));
    [| intros x; rewrite map_length; apply all_idx_length | exact H1 | apply ravel_lt; exact H2].
  cbn [Nat.add]. apply map_nth_error. apply IH. exact H2.
Qed.

(* reading the rows back into an array of the same shape gives the original array *)
Lemma unflatten_flatten {R} (a : list nat -> R) dflt sh ix : in_bounds sh ix = true ->
  unflatten dflt (flatten a sh) sh ix = a ix.
Proof.
  intros H. unfold unflatten, flatten. apply nth_error_nth.
  apply map_nth_error. apply all_idx_ravel. exact H.
Qed.

Lemma flatten_length {R} (a : list nat -> R) sh : length (flatten a sh) = prod sh.
Proof. unfold flatten. rewrite map_length. apply all_idx_length. Qed.

(* the scale column: the reader's strided slice recovers the scale *)
Lemma skipn_repeat_app {A} (x : A) k rest : skipn k (repeat x k ++ rest) = rest.
Proof. induction k as [| k IH]; [reflexivity |]. cbn [repeat app skipn]. exact IH. Qed.

Lemma take_stride_repeat_each {A} inner (scale : list A) rest : 0 < inner ->
  take_stride (length scale) inner (repeat_each inner scale ++ rest) = scale.
Proof.
  intros Hi. induction scale as [| x scale IH]; [reflexivity |].
  cbn [length take_stride repeat_each]. destruct inner as [| i]; [lia |].
  rewrite <- app_assoc. cbn [repeat app]. f_equal.
  change (x :: repeat x i ++ repeat_each (S i) scale ++ rest) with (repeat x (S i) ++ repeat_each (S i) scale ++ rest).
  rewrite skipn_repeat_app. exact IH.
Qed.

Lemma extract_scale_column {A} sh k (scale : list A) :
  length scale = nth k sh 0 -> 0 < prod (firstn k sh) -> 0 < prod (skipn (S k) sh) ->
  extract_scale sh k (scale_column sh k scale) = scale.
Proof.
  intros Hl Ho Hi. unfold extract_scale, scale_column, expand_column. rewrite <- Hl.
  destruct (prod (firstn k sh)) as [| o]; [lia |]. cbn [tile].
  apply take_stride_repeat_each. exact Hi.
Qed.

Lemma index_column_length sh k : k < length sh -> length (index_column sh k) = prod sh.
Proof. intros H. rewrite index_column_spec by exact H. rewrite map_length. apply all_idx_length. Qed.

(* ---- statements of Properties.v -------------------------------------------------------------- *)

Lemma full_layout :
  forall (R : Type) (a : list nat -> R) (dflt : R) (sh : list nat),
    (forall k, k < length sh -> index_column sh k = map (fun ix => nth k ix 0) (all_idx sh))
    /\ length (flatten a sh) = prod sh
    /\ (forall ix, in_bounds sh ix = true -> nth_error (all_idx sh) (ravel sh ix) = Some ix)
    /\ (forall ix, in_bounds sh ix = true -> unflatten dflt (flatten a sh) sh ix = a ix).
Proof.
  intros R a dflt sh. repeat split.
  - apply index_column_spec.
  - apply flatten_length.
  - apply all_idx_ravel.
  - intros ix H. apply unflatten_flatten. exact H.
Qed.
