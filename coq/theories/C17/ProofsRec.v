(* C17 (d): the HDF5 recorder — nothing recorded is lost, duplicated or reordered, for every
   interleaving of record()/set_attribute() with the recorder thread's swap and write phases. *)
From Coq Require Import List ZArith NArith Bool Lia.
Require Import QV.C17.Model.

Lemma recorded_app a b d : recorded (a ++ b) d = recorded a d ++ recorded b d.
Proof.
  induction a as [| l a IH]; [reflexivity |]. cbn [app recorded].
  destruct l; try exact IH. destruct (N.eqb d0 d); [cbn [app]; f_equal |]; exact IH.
Qed.

Lemma last_attr_app l1 l2 d a acc : last_attr (l1 ++ l2) d a acc = last_attr l2 d a (last_attr l1 d a acc).
Proof.
  revert acc. induction l1 as [| l l1 IH]; intros acc; [reflexivity |]. cbn [app last_attr].
  destruct l; apply IH.
Qed.

Lemma aget_app m1 m2 a : aget (m1 ++ m2) a = match aget m1 a with Some v => Some v | None => aget m2 a end.
Proof.
  induction m1 as [| [k v] m1 IH]; [reflexivity |]. cbn [app aget]. destruct (N.eqb k a); [reflexivity | exact IH].
Qed.

Lemma rrun_app s a : forall b, rrun s (a ++ b) = match rrun s a with Some s' => rrun s' b | None => None end.
Proof.
  revert s. induction a as [| l a IH]; intros s b; [reflexivity |]. cbn [app rrun].
  destruct (rstep s l); [apply IH | reflexivity].
Qed.

Definition first2 (x y : option Z) : option Z := match x with Some v => Some v | None => y end.

(* the attribute value of (d, a) as the recorder as a whole knows it: newest table first *)
Definition eff (s : rstate) (d a : N) : option Z :=
  first2 (aget (qattrs s d) a) (first2 (aget (tattrs s d) a) (first2 (aget (pending s d) a) (aget (fattrs s d) a))).

Lemma anonempty_false (m : amap) : anonempty m = false -> m = [].
Proof. destruct m; [reflexivity | discriminate]. Qed.

Lemma write_attr_view s d a : (file s d <> [] -> pending s d = []) ->
  first2 (aget (write_pending s d) a) (aget (write_fattrs s d) a)
  = first2 (aget (tattrs s d) a) (first2 (aget (pending s d) a) (aget (fattrs s d) a)).
Proof.
  intros Hp. unfold write_pending, write_fattrs, aupdate.
  destruct (taken s d) as [| b bs] eqn:T.
  - destruct (anonempty (tattrs s d)) eqn:TA; cbn [andb].
    + destruct (anonempty (pending s d)) eqn:PA; cbn [andb negb].
      * rewrite aget_app. unfold first2. destruct (aget (tattrs s d) a); reflexivity.
      * apply anonempty_false in PA. rewrite PA. cbn [aget first2].
        destruct (file s d) eqn:FI.
        -- reflexivity.
        -- cbn [aget first2]. rewrite aget_app. reflexivity.
    + apply anonempty_false in TA. rewrite TA. cbn [aget first2]. reflexivity.
  - cbn [aget first2]. rewrite !aget_app. unfold first2.
    destruct (aget (tattrs s d) a); [reflexivity |]. destruct (aget (pending s d) a); reflexivity.
Qed.

Record Inv (s : rstate) (h : list rlabel) : Prop := mkInv {
  inv_data : forall d, file s d ++ concat (taken s d) ++ concat (queue s d) = concat (recorded h d);
  inv_idle : midflush s = false -> forall d, taken s d = [] /\ tattrs s d = [];
  inv_pend : forall d, file s d <> [] -> pending s d = [];
  inv_attr : forall d a, eff s d a = last_attr h d a None;
  inv_flag : shutdown s = false -> quit s = false /\ done s = false
}.

Lemma inv_init : Inv rinit [].
Proof. constructor; intros; try reflexivity; try (split; reflexivity). Qed.

Lemma app_nonnil {A} (l : list A) x : l ++ [x] <> [].
Proof. destruct l; discriminate. Qed.

Lemma inv_step s h l s' : Inv s h -> rstep s l = Some s' -> Inv s' (h ++ [l]).
Proof.
  intros [Hd Hi Hp Ha Hf] H. destruct l as [d b | d a v | | |]; cbn [rstep] in H.
  - (* record *)
    destruct b as [| z b].
    + inversion H; subst s'. constructor; try assumption.
      * intros d'. rewrite recorded_app. cbn [recorded]. destruct (N.eqb d d');
          rewrite ?concat_app; cbn [concat app]; rewrite ?app_nil_r; apply Hd.
      * intros d' a'. rewrite last_attr_app. cbn [last_attr]. apply Ha.
    + inversion H; subst s'; clear H. constructor; cbn [queue qattrs taken tattrs pending file fattrs midflush shutdown quit done].
      * intros d'. rewrite recorded_app. cbn [recorded]. unfold upd.
        destruct (N.eqb_spec d' d) as [-> | NE].
        -- rewrite N.eqb_refl. rewrite !concat_app. rewrite <- Hd. rewrite !app_assoc. reflexivity.
        -- destruct (N.eqb_spec d d'); [congruence |]. rewrite app_nil_r. apply Hd.
      * exact Hi.
      * exact Hp.
      * intros d' a'. rewrite last_attr_app. cbn [last_attr]. apply Ha.
      * exact Hf.
  - (* set_attribute *)
    inversion H; subst s'; clear H. constructor; cbn [queue qattrs taken tattrs pending file fattrs midflush shutdown quit done].
    + intros d'. rewrite recorded_app. cbn [recorded]. rewrite app_nil_r. apply Hd.
    + exact Hi.
    + exact Hp.
    + intros d' a'. rewrite last_attr_app. cbn [last_attr]. rewrite <- Ha. unfold eff, upd.
      cbn [queue qattrs taken tattrs pending file fattrs].
      destruct (N.eqb_spec d' d) as [-> | NE].
      * rewrite N.eqb_refl. cbn [aget andb]. destruct (N.eqb a a'); reflexivity.
      * destruct (N.eqb_spec d d'); [congruence |]. reflexivity.
    + exact Hf.
  - (* swap *)
    destruct (negb (midflush s) && negb (done s) && _) eqn:G; [| discriminate].
    apply andb_true_iff in G as [G _]. apply andb_true_iff in G as [G1 G2].
    apply negb_true_iff in G1. specialize (Hi G1).
    inversion H; subst s'; clear H. constructor; cbn [queue qattrs taken tattrs pending file fattrs midflush shutdown quit done].
    + intros d. rewrite recorded_app. cbn [recorded]. rewrite app_nil_r. rewrite <- Hd.
      destruct (Hi d) as [-> _]. cbn [concat app]. rewrite app_nil_r. reflexivity.
    + discriminate.
    + exact Hp.
    + intros d a. rewrite last_attr_app. cbn [last_attr]. rewrite <- Ha. unfold eff.
      cbn [queue qattrs taken tattrs pending file fattrs]. destruct (Hi d) as [_ ->]. cbn [aget first2].
      destruct (aget (qattrs s d) a); reflexivity.
    + intros E. split; [exact E | apply Hf, E].
  - (* write *)
    destruct (midflush s) eqn:G; [| discriminate].
    inversion H; subst s'; clear H. constructor; cbn [queue qattrs taken tattrs pending file fattrs midflush shutdown quit done].
    + intros d. rewrite recorded_app. cbn [recorded]. rewrite app_nil_r. rewrite <- Hd. unfold write_file.
      cbn [concat app]. rewrite <- app_assoc. reflexivity.
    + intros _ d. split; reflexivity.
    + intros d. unfold write_file, write_pending. destruct (taken s d) as [| b bs] eqn:T; [| reflexivity].
      cbn [concat]. rewrite app_nil_r. intros NE. specialize (Hp d NE). rewrite Hp. cbn [anonempty].
      destruct (anonempty (tattrs s d)); [| reflexivity]. destruct (file s d); [contradiction | reflexivity].
    + intros d a. rewrite last_attr_app. cbn [last_attr]. rewrite <- Ha. unfold eff.
      cbn [queue qattrs taken tattrs pending file fattrs]. f_equal. cbn [aget first2].
      apply write_attr_view. apply Hp.
    + intros E. destruct (Hf E) as [Q D]. split; assumption.
  - (* shutdown *)
    inversion H; subst s'; clear H. constructor; cbn [queue qattrs taken tattrs pending file fattrs midflush shutdown quit done]; try assumption.
    + intros d. rewrite recorded_app. cbn [recorded]. rewrite app_nil_r. apply Hd.
    + intros d a. rewrite last_attr_app. cbn [last_attr]. apply Ha.
    + discriminate.
Qed.

Lemma inv_run ls : forall s h s', Inv s h -> rrun s ls = Some s' -> Inv s' (h ++ ls).
Proof.
  induction ls as [| l ls IH]; intros s h s' HI H.
  - inversion H; subst. rewrite app_nil_r. exact HI.
  - cbn [rrun] in H. destruct (rstep s l) as [s1 |] eqn:E; [| discriminate].
    replace (h ++ l :: ls) with ((h ++ [l]) ++ ls) by (rewrite <- app_assoc; reflexivity).
    eapply IH; [eapply inv_step; eassumption | exact H].
Qed.

(* conservation at every moment of every interleaving *)
Lemma conservation ls s d : rrun rinit ls = Some s ->
  file s d ++ concat (taken s d) ++ concat (queue s d) = concat (recorded ls d).
Proof. intros H. apply (inv_run ls rinit [] s inv_init H). Qed.

(* ---- after shutdown(), with no further client calls --------------------------------------------- *)

Record Closing (s : rstate) : Prop := mkClosing {
  cl_shut : shutdown s = true;
  cl_quit : quit s = true -> forall d, queue s d = [] /\ qattrs s d = [];
  cl_done : done s = true -> quit s = true /\ midflush s = false
}.

Lemma closing_step s h l s' : no_client_ops [l] = true -> Inv s h -> Closing s -> rstep s l = Some s' -> Closing s'.
Proof.
  intros Hn HI [C1 C2 C3] H. destruct l; try discriminate; cbn [rstep] in H.
  - destruct (negb (midflush s) && negb (done s) && _) eqn:G; [| discriminate].
    apply andb_true_iff in G as [G _]. apply andb_true_iff in G as [G1 G2].
    apply negb_true_iff in G1. apply negb_true_iff in G2.
    inversion H; subst s'; clear H. constructor; cbn [queue qattrs taken tattrs pending file fattrs midflush shutdown quit done].
    + exact C1.
    + intros _ d. apply (inv_idle s h HI G1).
    + rewrite G2. discriminate.
  - destruct (midflush s) eqn:G; [| discriminate].
    inversion H; subst s'; clear H. constructor; cbn [queue qattrs taken tattrs pending file fattrs midflush shutdown quit done].
    + exact C1.
    + exact C2.
    + intros Q. split; [exact Q | reflexivity].
Qed.

Lemma closing_run post : forall s h s', no_client_ops post = true -> Inv s h -> Closing s ->
  rrun s post = Some s' -> Closing s' /\ Inv s' (h ++ post).
Proof.
  induction post as [| l post IH]; intros s h s' Hn HI HC H.
  - inversion H; subst. rewrite app_nil_r. split; assumption.
  - cbn [rrun] in H. destruct (rstep s l) as [s1 |] eqn:E; [| discriminate].
    assert (N1 : no_client_ops [l] = true) by (destruct l; try discriminate; reflexivity).
    assert (N2 : no_client_ops post = true) by (destruct l; try discriminate; exact Hn).
    replace (h ++ l :: post) with ((h ++ [l]) ++ post) by (rewrite <- app_assoc; reflexivity).
    eapply IH; [exact N2 | eapply inv_step; eassumption | eapply closing_step; eassumption | exact H].
Qed.

Lemma recorded_quiet post d : no_client_ops post = true -> recorded post d = [].
Proof. induction post as [| l post IH]; [reflexivity |]. destruct l; try discriminate; exact IH. Qed.

Lemma last_attr_quiet post d a acc : no_client_ops post = true -> last_attr post d a acc = acc.
Proof. revert acc. induction post as [| l post IH]; [reflexivity |]. intros acc. destruct l; try discriminate; apply IH. Qed.

Lemma no_shutdown_flag ls : forall s s', no_shutdown ls = true -> shutdown s = false -> rrun s ls = Some s' -> shutdown s' = false.
Proof.
  induction ls as [| l ls IH]; intros s s' Hn Hs H; [inversion H; subst; exact Hs |].
  cbn [rrun] in H. destruct (rstep s l) as [s1 |] eqn:E; [| discriminate].
  destruct l; try discriminate; cbn [no_shutdown] in Hn; eapply IH; try exact H; try exact Hn; cbn [rstep] in E.
  - destruct b; inversion E; subst; exact Hs.
  - inversion E; subst; exact Hs.
  - destruct (_ && _); inversion E; subst; exact Hs.
  - destruct (midflush s); inversion E; subst; exact Hs.
Qed.

(* every complete run: all client calls, then shutdown(), then the recorder thread runs to its end *)
Lemma recorder_complete pre post s :
  no_shutdown pre = true -> no_client_ops post = true ->
  rrun rinit (pre ++ LShutdown :: post) = Some s -> done s = true ->
  forall d, file s d = concat (recorded pre d)
            /\ (file s d <> [] -> forall a, aget (fattrs s d) a = last_attr pre d a None).
Proof.
  intros Hpre Hpost H Hdone d.
  rewrite rrun_app in H. destruct (rrun rinit pre) as [s1 |] eqn:E1; [| discriminate].
  cbn [rrun rstep] in H.
  pose proof (inv_run pre rinit [] s1 inv_init E1) as I1. cbn [app] in I1.
  pose proof (no_shutdown_flag pre rinit s1 Hpre eq_refl E1) as F1.
  set (s2 := mkR (queue s1) (qattrs s1) (taken s1) (tattrs s1) (pending s1) (file s1) (fattrs s1)
                 (midflush s1) true (quit s1) (done s1) (qnames s1)) in *.
  assert (I2 : Inv s2 (pre ++ [LShutdown])) by (eapply inv_step; [exact I1 | reflexivity]).
  assert (C2 : Closing s2).
  { destruct (inv_flag s1 pre I1 F1) as [Q D]. subst s2. constructor; cbn [shutdown quit done midflush queue qattrs]; [reflexivity | intros X; rewrite Q in X; discriminate | intros X; rewrite D in X; discriminate]. }
  destruct (closing_run post s2 _ s Hpost I2 C2 H) as [[C1 CQ CD] IS].
  destruct (CD Hdone) as [Q M]. destruct (inv_idle s _ IS M d) as [T TA]. destruct (CQ Q d) as [QE QA].
  split.
  - pose proof (inv_data s _ IS d) as D. rewrite T, QE in D. cbn [concat app] in D. rewrite app_nil_r in D.
    rewrite D. rewrite <- app_assoc. rewrite recorded_app. cbn [app recorded].
    rewrite (recorded_quiet post d Hpost). rewrite !app_nil_r. reflexivity.
  - intros NE a. pose proof (inv_attr s _ IS d a) as A. unfold eff in A.
    rewrite QA, TA, (inv_pend s _ IS d NE) in A. cbn [aget first2] in A. rewrite A.
    rewrite <- app_assoc. rewrite last_attr_app. cbn [app last_attr]. apply last_attr_quiet. exact Hpost.
Qed.

(* ... and the recorder thread does run to its end *)
Lemma recorder_terminates s : shutdown s = true ->
  no_client_ops (finish_labels s) = true /\ exists s', rrun s (finish_labels s) = Some s' /\ done s' = true.
Proof.
  intros Hs. unfold finish_labels. destruct (done s) eqn:D; [split; [reflexivity | exists s; split; [reflexivity | exact D]] |].
  destruct (midflush s) eqn:M.
  - destruct (quit s) eqn:Q.
    + split; [reflexivity |]. cbn [rrun rstep]. rewrite M. eexists. split; [reflexivity |]. exact Q.
    + split; [reflexivity |]. cbn [rrun rstep]. rewrite M. cbn [midflush done shutdown negb andb qnames]. rewrite Q, Hs.
      cbn [negb andb orb midflush]. eexists. split; reflexivity.
  - split; [reflexivity |]. cbn [rrun rstep]. rewrite M, D, Hs. cbn [negb andb orb midflush]. eexists. split; reflexivity.
Qed.
