(* C17 (a): the text-header attribute codec — repr() then _parse_attribute_value. *)
From Coq Require Import List ZArith NArith Bool Lia ZifyBool ZifyNat ZifyN.
Require Import QV.C17.Model.
Ltac Zify.zify_post_hook ::= Z.to_euclidean_division_equations.
Local Open Scope N_scope.

Arguments ishex : simpl never.
Arguments hexval : simpl never.
Arguments hv4 : simpl never.
Arguments isoct : simpl never.

Lemma hexdigit_ok d : d < 16 ->
  ishex (hexdigit d) = true /\ hexval (hexdigit d) = d /\ hexdigit d <> 92 /\ hexdigit d <> 39
  /\ hexdigit d <> 34 /\ hexdigit d <> 10.
Proof.
  intros H.
  assert (E : d = 0 \/ d = 1 \/ d = 2 \/ d = 3 \/ d = 4 \/ d = 5 \/ d = 6 \/ d = 7 \/ d = 8 \/ d = 9
              \/ d = 10 \/ d = 11 \/ d = 12 \/ d = 13 \/ d = 14 \/ d = 15) by lia.
  repeat (destruct E as [E | E]; [subst d; vm_compute; repeat split; discriminate |]).
  subst d; vm_compute; repeat split; discriminate.
Qed.

Lemma expand_f_S f u c r : expand_f (S f) u (c :: r) =
  if N.eqb c cBS then
    match esc_step u r with
    | Some (x, k) => x :: expand_f f u (skipn k r)
    | None => c :: expand_f f u r
    end
  else c :: expand_f f u r.
Proof. reflexivity. Qed.

Lemma expand_f_fuel u : forall f f' s, (length s <= f)%nat -> (length s <= f')%nat -> expand_f f u s = expand_f f' u s.
Proof.
  induction f as [| f IH]; intros f' s H H'.
  - destruct s; [| cbn [length] in H; lia]. destruct f'; reflexivity.
  - destruct s as [| c r]; [destruct f'; reflexivity |].
    destruct f' as [| f']; [cbn [length] in H'; lia |]. cbn [length] in H, H'.
    rewrite !expand_f_S. destruct (N.eqb c cBS).
    + destruct (esc_step u r) as [[x k] |].
      * f_equal. apply IH; rewrite skipn_length; lia.
      * f_equal. apply IH; lia.
    + f_equal. apply IH; lia.
Qed.

Lemma expand_raw u c r : c <> 92 -> expand u (c :: r) = c :: expand u r.
Proof.
  intros H. unfold expand. cbn [length]. rewrite expand_f_S. unfold cBS.
  destruct (N.eqb_spec c 92); [contradiction | reflexivity].
Qed.

Lemma expand_esc u r x k : esc_step u r = Some (x, k) -> expand u (92 :: r) = x :: expand u (skipn k r).
Proof.
  intros H. unfold expand. cbn [length]. rewrite expand_f_S. change (92 =? cBS) with true. cbv iota.
  rewrite H. f_equal. apply expand_f_fuel; rewrite ?skipn_length; lia.
Qed.

Lemma expand_simple u d x r : simple_esc d = Some x -> expand u (92 :: d :: r) = x :: expand u r.
Proof. intros H. rewrite (expand_esc u (d :: r) x 1); [reflexivity |]. unfold esc_step. rewrite H. reflexivity. Qed.

Lemma expand_x u h1 h2 r : ishex h1 = true -> ishex h2 = true ->
  expand u (92 :: 120 :: h1 :: h2 :: r) = (hexval h1 * 16 + hexval h2) :: expand u r.
Proof.
  intros H1 H2. rewrite (expand_esc u _ (hexval h1 * 16 + hexval h2) 3); [reflexivity |].
  unfold esc_step. change (simple_esc 120) with (@None N). cbv iota. change (isoct 120) with false. cbv iota.
  change (120 =? 120) with true. cbv iota. rewrite H1, H2. reflexivity.
Qed.

Lemma expand_u u h1 h2 h3 h4 r : ishex h1 = true -> ishex h2 = true -> ishex h3 = true -> ishex h4 = true ->
  expand u (92 :: 117 :: h1 :: h2 :: h3 :: h4 :: r) = hv4 h1 h2 h3 h4 :: expand u r.
Proof.
  intros H1 H2 H3 H4. rewrite (expand_esc u _ (hv4 h1 h2 h3 h4) 5); [reflexivity |].
  unfold esc_step. change (simple_esc 117) with (@None N). cbv iota. change (isoct 117) with false. cbv iota.
  change (117 =? 120) with false. cbv iota. change (117 =? 117) with true. cbv iota.
  rewrite H1, H2, H3, H4. reflexivity.
Qed.

Lemma expand_U h1 h2 h3 h4 h5 h6 h7 h8 r :
  ishex h1 = true -> ishex h2 = true -> ishex h3 = true -> ishex h4 = true ->
  ishex h5 = true -> ishex h6 = true -> ishex h7 = true -> ishex h8 = true ->
  expand true (92 :: 85 :: h1 :: h2 :: h3 :: h4 :: h5 :: h6 :: h7 :: h8 :: r)
  = (hv4 h1 h2 h3 h4 * 65536 + hv4 h5 h6 h7 h8) :: expand true r.
Proof.
  intros H1 H2 H3 H4 H5 H6 H7 H8.
  rewrite (expand_esc true _ (hv4 h1 h2 h3 h4 * 65536 + hv4 h5 h6 h7 h8) 9); [reflexivity |].
  unfold esc_step. change (simple_esc 85) with (@None N). cbv iota. change (isoct 85) with false. cbv iota.
  change (85 =? 120) with false. cbv iota. change (85 =? 117) with false. cbv iota.
  change (true && (85 =? 85)) with true. cbv iota.
  rewrite H1, H2, H3, H4, H5, H6, H7, H8. reflexivity.
Qed.

Lemma hv4_hex4 c : c < 65536 ->
  hv4 (hexdigit ((c / 4096) mod 16)) (hexdigit ((c / 256) mod 16)) (hexdigit ((c / 16) mod 16))
      (hexdigit (c mod 16)) = c.
Proof.
  intros H. unfold hv4.
  destruct (hexdigit_ok ((c / 4096) mod 16)) as (_ & -> & _); [apply N.mod_lt; discriminate|].
  destruct (hexdigit_ok ((c / 256) mod 16)) as (_ & -> & _); [apply N.mod_lt; discriminate|].
  destruct (hexdigit_ok ((c / 16) mod 16)) as (_ & -> & _); [apply N.mod_lt; discriminate|].
  destruct (hexdigit_ok (c mod 16)) as (_ & -> & _); [apply N.mod_lt; discriminate|].
  lia.
Qed.

Lemma ishex_hd x : ishex (hexdigit (x mod 16)) = true.
Proof. apply hexdigit_ok. apply N.mod_lt. discriminate. Qed.

Lemma expand_hex2 u c r : c < 256 -> expand u (92 :: 120 :: hex2 c ++ r) = c :: expand u r.
Proof.
  intros H. unfold hex2. cbn [app]. rewrite expand_x by apply ishex_hd.
  f_equal.
  destruct (hexdigit_ok ((c / 16) mod 16)) as (_ & -> & _); [apply N.mod_lt; discriminate|].
  destruct (hexdigit_ok (c mod 16)) as (_ & -> & _); [apply N.mod_lt; discriminate|].
  lia.
Qed.

Lemma expand_hex4 u c r : c < 65536 -> expand u (92 :: 117 :: hex4 c ++ r) = c :: expand u r.
Proof.
  intros H. unfold hex4. cbn [app]. rewrite expand_u by apply ishex_hd.
  rewrite hv4_hex4 by assumption. reflexivity.
Qed.

Lemma expand_hex8 c r : c < 4294967296 -> expand true (92 :: 85 :: hex8 c ++ r) = c :: expand true r.
Proof.
  intros H. unfold hex8, hex4. cbn [app]. rewrite expand_U by apply ishex_hd.
  rewrite !hv4_hex4 by (apply N.mod_lt; discriminate). f_equal. lia.
Qed.

(* ---- repr_char followed by expand ------------------------------------------------------------ *)

Definition okc (pr : N -> bool) (u : bool) (c : N) : Prop :=
  65536 <= c -> pr c = true \/ (u = true /\ c < 4294967296).

Lemma expand_repr_char pr u q c r : (q = 39 \/ q = 34) -> okc pr u c ->
  expand u (repr_char pr q c ++ r) = c :: expand u r.
Proof.
  intros Hq Hok. unfold repr_char, cBS.
  destruct (N.eqb_spec c q) as [Ecq | Ncq]; cbn [orb].
  { cbn [app]. apply expand_simple. subst c. destruct Hq; subst q; reflexivity. }
  destruct (N.eqb_spec c 92) as [E | N92].
  { subst c. cbn [app]. apply expand_simple. reflexivity. }
  destruct (N.eqb_spec c 9) as [E | N9]. { subst c. apply expand_simple. reflexivity. }
  destruct (N.eqb_spec c 10) as [E | N10]. { subst c. apply expand_simple. reflexivity. }
  destruct (N.eqb_spec c 13) as [E | N13]. { subst c. apply expand_simple. reflexivity. }
  destruct (N.ltb_spec c 32) as [L32 | G32]; cbn [orb].
  { cbn [app]. apply expand_hex2. lia. }
  destruct (N.eqb_spec c 127) as [E | N127]. { cbn [app]. apply expand_hex2. lia. }
  destruct (N.ltb_spec c 127) as [L127 | G127]. { cbn [app]. apply expand_raw. assumption. }
  destruct (pr c) eqn:Epr. { cbn [app]. apply expand_raw. assumption. }
  destruct (N.leb_spec c 255). { cbn [app]. apply expand_hex2. lia. }
  destruct (N.leb_spec c 65535). { cbn [app]. apply expand_hex4. lia. }
  destruct Hok as [Hp | [Hu Hc]]; [lia | congruence |].
  subst u. cbn [app]. apply expand_hex8. assumption.
Qed.

Lemma expand_repr_body pr u q s : (q = 39 \/ q = 34) -> Forall (okc pr u) s ->
  expand u (flat_map (repr_char pr q) s) = s.
Proof.
  intros Hq H. induction H as [| c s Hc Hs IH]; [reflexivity |].
  cbn [flat_map]. rewrite expand_repr_char by assumption. rewrite IH. reflexivity.
Qed.

(* ---- the unescaped-quote test ---------------------------------------------------------------- *)

Lemma strip_pairs_pair d r : d <> 10 -> strip_pairs (92 :: d :: r) = strip_pairs r.
Proof. intros H. cbn [strip_pairs]. change (92 =? cBS) with true. cbv iota.
  destruct (N.eqb_spec d 10); [contradiction | reflexivity]. Qed.

Lemma strip_pairs_raw l r : Forall (fun x => x <> 92) l -> strip_pairs (l ++ r) = l ++ strip_pairs r.
Proof.
  induction 1 as [| x l Hx Hl IH]; [reflexivity |].
  cbn [app strip_pairs]. unfold cBS. destruct (N.eqb_spec x 92); [contradiction |]. rewrite IH. reflexivity.
Qed.

Definition clean (q : N) (l : str) : Prop := Forall (fun x => x <> 92 /\ x <> q) l.

Lemma clean_hd q x : (q = 39 \/ q = 34) -> hexdigit (x mod 16) <> 92 /\ hexdigit (x mod 16) <> q.
Proof.
  intros Hq. destruct (hexdigit_ok (x mod 16)) as (_ & _ & A & B & C & _); [apply N.mod_lt; discriminate|].
  split; [assumption |]. destruct Hq; subst q; assumption.
Qed.

Lemma clean_hex2 q c : (q = 39 \/ q = 34) -> clean q (hex2 c).
Proof. intros. unfold hex2. repeat (constructor; [apply clean_hd; assumption |]). constructor. Qed.
Lemma clean_hex4 q c : (q = 39 \/ q = 34) -> clean q (hex4 c).
Proof. intros. unfold hex4. repeat (constructor; [apply clean_hd; assumption |]). constructor. Qed.
Lemma clean_hex8 q c : (q = 39 \/ q = 34) -> clean q (hex8 c).
Proof. intros. unfold hex8. apply Forall_app. split; apply clean_hex4; assumption. Qed.

Lemma clean_raw q l r : clean q l -> strip_pairs (l ++ r) = l ++ strip_pairs r.
Proof. intros H. apply strip_pairs_raw. eapply Forall_impl; [| exact H]. cbv beta. tauto. Qed.

Lemma strip_repr_char pr q c r : (q = 39 \/ q = 34) ->
  exists pre, clean q pre /\ strip_pairs (repr_char pr q c ++ r) = pre ++ strip_pairs r.
Proof.
  intros Hq. unfold repr_char, cBS.
  assert (ESC : forall d, d <> 10 -> exists pre, clean q pre /\ strip_pairs ([92; d] ++ r) = pre ++ strip_pairs r).
  { intros d Hd. exists []. split; [constructor |]. cbn [app]. apply strip_pairs_pair. assumption. }
  assert (HEX : forall d l, d <> 10 -> clean q l ->
                exists pre, clean q pre /\ strip_pairs ((92 :: d :: l) ++ r) = pre ++ strip_pairs r).
  { intros d l Hd Hl. exists l. split; [assumption |]. cbn [app]. rewrite strip_pairs_pair by assumption.
    apply (clean_raw q). assumption. }
  assert (RAW : c <> 92 -> c <> q -> exists pre, clean q pre /\ strip_pairs ([c] ++ r) = pre ++ strip_pairs r).
  { intros A B. exists [c]. split; [constructor; [split; assumption | constructor] |]. apply (clean_raw q). constructor; [split; assumption | constructor]. }
  destruct (N.eqb_spec c q) as [Ecq | Ncq]; cbn [orb].
  { apply ESC. destruct Hq; subst; discriminate. }
  destruct (N.eqb_spec c 92) as [E | N92]. { apply ESC. subst; discriminate. }
  destruct (N.eqb_spec c 9). { apply ESC. discriminate. }
  destruct (N.eqb_spec c 10). { apply ESC. discriminate. }
  destruct (N.eqb_spec c 13). { apply ESC. discriminate. }
  destruct (N.ltb_spec c 32); cbn [orb]. { apply HEX; [discriminate | apply clean_hex2; assumption]. }
  destruct (N.eqb_spec c 127). { apply HEX; [discriminate | apply clean_hex2; assumption]. }
  destruct (N.ltb_spec c 127). { apply RAW; assumption. }
  destruct (pr c). { apply RAW; assumption. }
  destruct (N.leb_spec c 255). { apply HEX; [discriminate | apply clean_hex2; assumption]. }
  destruct (N.leb_spec c 65535). { apply HEX; [discriminate | apply clean_hex4; assumption]. }
  apply HEX; [discriminate | apply clean_hex8; assumption].
Qed.

Lemma memN_app c a b : memN c (a ++ b) = memN c a || memN c b.
Proof. unfold memN. apply existsb_app. Qed.

Lemma memN_clean q l : clean q l -> memN q l = false.
Proof.
  induction 1 as [| x l [_ Hx] Hl IH]; [reflexivity |].
  unfold memN in *. cbn [existsb]. rewrite IH. destruct (N.eqb_spec q x); [congruence | reflexivity].
Qed.

Lemma no_quote_body pr q s : (q = 39 \/ q = 34) ->
  memN q (strip_pairs (flat_map (repr_char pr q) s)) = false.
Proof.
  intros Hq. induction s as [| c s IH]; [reflexivity |].
  cbn [flat_map]. destruct (strip_repr_char pr q c (flat_map (repr_char pr q) s) Hq) as (pre & Hc & ->).
  rewrite memN_app, IH, memN_clean by assumption. reflexivity.
Qed.

Lemma choose_quote_cases s : choose_quote s = 39 \/ choose_quote s = 34.
Proof. unfold choose_quote. destruct (_ && _); [right | left]; reflexivity. Qed.

Lemma last_is_snoc l q : last_is (l ++ [q]) q = true.
Proof.
  unfold last_is. rewrite last_last. rewrite N.eqb_refl. destruct l; reflexivity.
Qed.

Section Str.
  Variable F : Type.
  Variable fp : str -> option F.
  Variable pr : N -> bool.

  Lemma in_range s : Forall (fun c => c < 1114112) s -> existsb (N.leb 1114112) s = false.
  Proof.
    induction 1 as [| c s Hc Hs IH]; [reflexivity |]. cbn [existsb]. rewrite IH.
    destruct (N.leb_spec 1114112 c); [lia | reflexivity].
  Qed.

  Lemma roundtrip_str_gen u s : Forall (fun c => c < 1114112) s -> Forall (okc pr u) s ->
    parse_attr F fp u (repr_str pr s) = PStr s.
  Proof.
    intros HR H. unfold parse_attr, repr_str.
    pose proof (choose_quote_cases s) as Hq. set (q := choose_quote s) in *.
    assert (Hm : memN cSQ (q :: flat_map (repr_char pr q) s ++ [q])
                 || memN cDQ (q :: flat_map (repr_char pr q) s ++ [q]) = true).
    { unfold memN, cSQ, cDQ. cbn [existsb]. destruct Hq as [-> | ->]; [reflexivity | apply orb_true_iff; right; reflexivity]. }
    rewrite Hm.
    assert (Hqq : negb ((q =? cSQ) || (q =? cDQ)) = false) by (destruct Hq as [-> | ->]; reflexivity).
    rewrite Hqq. rewrite last_is_snoc. cbn [negb]. rewrite removelast_last.
    rewrite no_quote_body by assumption. rewrite expand_repr_body by assumption.
    cbv zeta. rewrite in_range by assumption. reflexivity.
  Qed.
End Str.

(* ---- integers -------------------------------------------------------------------------------- *)

Lemma digits_val_snoc l c : digits_val (l ++ [c]) = digits_val l * 10 + (c - 48).
Proof. unfold digits_val. rewrite fold_left_app. reflexivity. Qed.

Lemma isdigit_add d : d < 10 -> isdigit (48 + d) = true.
Proof. unfold isdigit. lia. Qed.

Lemma dec_fuel_ok f : forall n, n < 2 ^ N.of_nat f ->
  digits_val (dec_fuel f n) = n /\ Forall (fun c => isdigit c = true) (dec_fuel f n) /\ dec_fuel f n <> [].
Proof.
  induction f as [| f IH]; intros n H.
  - change (2 ^ N.of_nat 0) with 1 in H. assert (n = 0) by lia. subst n. vm_compute.
    repeat split; [repeat constructor | discriminate].
  - cbn [dec_fuel]. destruct (N.ltb_spec n 10) as [L | G].
    + repeat split; [unfold digits_val; cbn [fold_left]; lia | repeat constructor; apply isdigit_add; assumption | discriminate].
    + rewrite Nat2N.inj_succ, N.pow_succ_r' in H.
      destruct (IH (n / 10)) as (A & B & C); [lia |].
      repeat split.
      * rewrite digits_val_snoc, A. lia.
      * apply Forall_app. split; [assumption | repeat constructor; apply isdigit_add; lia].
      * destruct (dec_fuel f (n / 10)); discriminate.
Qed.

Lemma pos_lt_pow2 p : N.pos p < 2 ^ N.of_nat (Pos.size_nat p).
Proof.
  induction p as [p IH | p IH |]; cbn [Pos.size_nat]; try rewrite Nat2N.inj_succ, N.pow_succ_r'; try lia.
Qed.

Lemma dec_ok n : digits_val (dec n) = n /\ Forall (fun c => isdigit c = true) (dec n) /\ dec n <> [].
Proof.
  unfold dec. apply dec_fuel_ok. destruct n as [| p]; [reflexivity | apply pos_lt_pow2].
Qed.

Lemma all_digits_nl_digits l : Forall (fun c => isdigit c = true) l -> all_digits_nl l = true.
Proof.
  induction 1 as [| c l Hc Hl IH]; [reflexivity |].
  cbn [all_digits_nl]. destruct l as [| c' l']; [rewrite Hc; reflexivity | rewrite Hc, IH; reflexivity].
Qed.

Definition numch (c : N) : Prop := c = 45 \/ isdigit c = true.

Lemma memN_numch q l : (q = 39 \/ q = 34) -> Forall numch l -> memN q l = false.
Proof.
  intros Hq. induction 1 as [| c l Hc Hl IH]; [reflexivity |].
  unfold memN in *. cbn [existsb]. rewrite IH.
  destruct (N.eqb_spec q c) as [E | NE]; [| reflexivity].
  exfalso. subst c. destruct Hc as [Hc | Hc]; destruct Hq; subst q; try discriminate.
Qed.

Lemma drop_nl_id l : Forall numch l -> drop_nl l = l.
Proof.
  intros H. unfold drop_nl. destruct (rev l) as [| c r] eqn:E; [reflexivity |].
  assert (Hin : In c l) by (apply in_rev; rewrite E; left; reflexivity).
  rewrite Forall_forall in H. specialize (H c Hin).
  destruct (N.eqb_spec c 10) as [E10 | _]; [| reflexivity].
  subst c. destruct H as [H | H]; discriminate.
Qed.

Lemma repr_int_numch z : Forall numch (repr_int z).
Proof.
  unfold repr_int. apply Forall_app. split.
  - destruct (Z.ltb z 0); repeat constructor.
  - destruct (dec_ok (Z.abs_N z)) as (_ & B & _). eapply Forall_impl; [| exact B]. intros c Hc. right. exact Hc.
Qed.

Section IntFloat.
  Variable F : Type.
  Variable fp : str -> option F.
  Variable u : bool.

  Lemma roundtrip_int z : parse_attr F fp u (repr_int z) = PInt z.
  Proof.
    pose proof (repr_int_numch z) as Hn.
    unfold parse_attr.
    rewrite (memN_numch 39), (memN_numch 34) by (auto using repr_int_numch).
    cbn [orb]. destruct (dec_ok (Z.abs_N z)) as (A & B & C).
    assert (HS : int_shape (repr_int z) = true /\ parse_int (repr_int z) = Some z).
    { unfold parse_int. rewrite drop_nl_id by assumption. unfold repr_int in *.
      destruct (Z.ltb_spec z 0) as [L | G]; cbn [app].
      - split.
        + cbn [int_shape]. change ((45 =? 43) || (45 =? 45)) with true. cbv iota.
          apply all_digits_nl_digits. assumption.
        + change (45 =? 45) with true. cbv iota.
          destruct (dec (Z.abs_N z)) eqn:E; [congruence |]. rewrite A. f_equal. lia.
      - destruct (dec (Z.abs_N z)) as [| c r] eqn:E; [congruence |].
        assert (Hc : isdigit c = true) by (inversion B; assumption).
        assert (N1 : (c =? 43) = false) by (unfold isdigit in Hc; lia).
        assert (N2 : (c =? 45) = false) by (unfold isdigit in Hc; lia).
        split.
        + cbn [int_shape]. rewrite N1, N2. cbn [orb]. apply all_digits_nl_digits. assumption.
        + rewrite N1, N2. rewrite A. f_equal. lia. }
    destruct HS as [-> ->]. reflexivity.
  Qed.

  Lemma roundtrip_float (float_repr : F -> str) f :
    float_text_ok (float_repr f) = true -> fp (float_repr f) = Some f ->
    parse_attr F fp u (float_repr f) = PFloat f.
  Proof.
    intros Hok Hp. unfold float_text_ok in Hok. unfold parse_attr.
    destruct (memN cSQ (float_repr f) || memN cDQ (float_repr f)); [discriminate |].
    destruct (int_shape (float_repr f)); [discriminate |].
    destruct (str_eqb (float_repr f) sTrue); [discriminate |].
    destruct (str_eqb (float_repr f) sFalse); [discriminate |].
    rewrite Hp. reflexivity.
  Qed.
End IntFloat.

(* the code as it is (accU = false) does not undo the \U escape *)
Lemma roundtrip_refuted (F : Type) (fp : str -> option F) (pr : N -> bool) :
  pr 917505 = false ->
  parse_attr F fp false (repr_str pr [917505]) = PStr [92; 85; 48; 48; 48; 101; 48; 48; 48; 49]
  /\ parse_attr F fp false (repr_str pr [917505]) <> PStr [917505].
Proof.
  intros H.
  assert (E : repr_str pr [917505] = [39; 92; 85; 48; 48; 48; 101; 48; 48; 48; 49; 39]).
  { unfold repr_str, choose_quote. change (memN cSQ [917505] && negb (memN cDQ [917505])) with false.
    cbv iota. cbn [flat_map app]. unfold repr_char. rewrite H. vm_compute. reflexivity. }
  rewrite E. split; [vm_compute; reflexivity | vm_compute; discriminate].
Qed.

(* ---- header lines ---------------------------------------------------------------------------- *)

Lemma lstrip_id c r : is_space c = false -> lstrip (c :: r) = c :: r.
Proof. intros H. cbn [lstrip]. rewrite H. reflexivity. Qed.

Lemma strip_id c m e : is_space c = false -> is_space e = false -> strip ((c :: m) ++ [e]) = (c :: m) ++ [e].
Proof.
  intros Hc He. unfold strip. cbn [app]. rewrite lstrip_id by assumption.
  change (c :: m ++ [e]) with ((c :: m) ++ [e]). rewrite rev_app_distr. cbn [rev app].
  rewrite lstrip_id by assumption.
  change (e :: rev m ++ [c]) with ([e] ++ rev (c :: m)). rewrite rev_app_distr, rev_involutive. reflexivity.
Qed.

Lemma strip_id1 c : is_space c = false -> strip [c] = [c].
Proof. intros H. unfold strip. cbn [lstrip rev app]. rewrite H. cbn [rev app lstrip]. rewrite H. reflexivity. Qed.

(* a text that starts and ends with a non-space character *)
Definition tight (v : str) : Prop :=
  exists c m, is_space c = false /\ ((v = [c]) \/ exists e, is_space e = false /\ v = (c :: m) ++ [e]).

Lemma strip_tight v : tight v -> strip v = v.
Proof.
  intros (c & m & Hc & [-> | (e & He & ->)]); [apply strip_id1 | apply strip_id]; assumption.
Qed.

Lemma strip_sp_tight v : tight v -> strip (32 :: v) = v.
Proof.
  intros H. pose proof (strip_tight v H) as E. unfold strip in *. cbn [lstrip]. change (is_space 32) with true.
  cbv iota. exact E.
Qed.

Lemma split_colon_app name r : memN 58 name = false ->
  split_colon (name ++ 58 :: r) = Some (name, r).
Proof.
  induction name as [| c name IH]; intros H.
  - reflexivity.
  - unfold memN in H. cbn [existsb] in H. apply orb_false_iff in H as [H1 H2].
    cbn [app split_colon]. rewrite N.eqb_sym, H1. rewrite IH by exact H2. reflexivity.
Qed.

Lemma tight_snoc v e : tight v -> is_space e = false -> tight (v ++ [e]).
Proof.
  intros (c & m & Hc & [-> | (e' & He' & ->)]) He.
  - exists c, []. split; [assumption |]. right. exists e. split; [assumption | reflexivity].
  - exists c, (m ++ [e']). split; [assumption |]. right. exists e. split; [assumption |].
    cbn [app]. rewrite <- app_assoc. reflexivity.
Qed.

Lemma header_roundtrip name v :
  name <> [] -> memN 58 name = false -> tight v ->
  parse_line (header_line name v) = Some (name, v).
Proof.
  intros Hn Hc Hv. unfold parse_line, header_line.
  assert (T : tight ([35; 32] ++ name ++ [58; 32] ++ v)).
  { destruct Hv as (c & m & Hcs & [-> | (e & He & ->)]).
    - exists 35, (32 :: name ++ [58; 32]). split; [reflexivity |]. right. exists c. split; [assumption |].
      cbn [app]. rewrite <- app_assoc. reflexivity.
    - exists 35, (32 :: name ++ [58; 32] ++ c :: m). split; [reflexivity |]. right. exists e. split; [assumption |].
      cbn [app]. f_equal. f_equal. rewrite <- !app_assoc. reflexivity. }
  rewrite strip_tight by exact T.
  change ([35; 32] ++ name ++ [58; 32] ++ v) with (35 :: 32 :: (name ++ 58 :: 32 :: v)).
  cbn [split_colon]. change (35 =? 58) with false. change (32 =? 58) with false. cbv iota.
  rewrite split_colon_app by assumption.
  destruct name as [| n0 name']; [contradiction |].
  rewrite strip_sp_tight by assumption. reflexivity.
Qed.

Lemma tight_repr_str pr s : tight (repr_str pr s).
Proof.
  unfold repr_str. destruct (choose_quote_cases s) as [-> | ->].
  - exists 39, (flat_map (repr_char pr 39) s). split; [reflexivity |]. right. exists 39. split; reflexivity.
  - exists 34, (flat_map (repr_char pr 34) s). split; [reflexivity |]. right. exists 34. split; reflexivity.
Qed.

Lemma numch_nospace c : numch c -> is_space c = false.
Proof. intros [-> | H]; [reflexivity |]. unfold isdigit in H. unfold is_space. lia. Qed.

Lemma tight_numch l : l <> [] -> Forall numch l -> tight l.
Proof.
  intros Hne H. destruct l as [| c m]; [contradiction |].
  assert (Hc : is_space c = false) by (apply numch_nospace; inversion H; assumption).
  exists c. destruct (rev m) as [| e r] eqn:E.
  - exists []. split; [assumption |]. left. apply (f_equal (@rev N)) in E. rewrite rev_involutive in E. subst m. reflexivity.
  - exists (rev r). split; [assumption |]. right. exists e. split.
    + apply numch_nospace. rewrite Forall_forall in H. apply H. right. apply in_rev. rewrite E. left. reflexivity.
    + apply (f_equal (@rev N)) in E. rewrite rev_involutive in E. subst m. reflexivity.
Qed.

Lemma tight_repr_int z : tight (repr_int z).
Proof.
  apply tight_numch; [| apply repr_int_numch].
  unfold repr_int. destruct (dec_ok (Z.abs_N z)) as (_ & _ & C).
  destruct (Z.ltb z 0); [discriminate | assumption].
Qed.

(* ---- statements of Properties.v -------------------------------------------------------------- *)

Lemma full_attr_roundtrip :
  forall (F : Type) (float_parse : str -> option F) (float_repr : F -> str) (printable : N -> bool) (a : attr F),
    (forall f, float_text_ok (float_repr f) = true /\ float_parse (float_repr f) = Some f) ->
    match a with
    | AStr s => Forall (fun c => (c < 1114112)%N /\ ((65536 <= c)%N -> printable c = true)) s
    | _ => True
    end ->
    parse_attr F float_parse false (py_repr F printable float_repr a) = to_pres a.
Proof.
  intros F fp fr pr [s | z | f] HF HS; cbn [py_repr to_pres].
  - apply roundtrip_str_gen; (eapply Forall_impl; [| exact HS]); cbv beta.
    + intros c [H _]. exact H.
    + intros c [_ H] H'. left. exact (H H').
  - apply roundtrip_int.
  - apply roundtrip_float; apply HF.
Qed.

Lemma full_attr_roundtrip_refuted :
  forall (F : Type) (float_parse : str -> option F) (printable : N -> bool),
    printable 917505%N = false ->
    exists s, parse_attr F float_parse false (repr_str printable s) <> PStr s
              /\ parse_attr F float_parse false (repr_str printable s)
                 = PStr [92; 85; 48; 48; 48; 101; 48; 48; 48; 49]%N.
Proof.
  intros F fp pr H. exists [917505%N]. destruct (roundtrip_refuted F fp pr H) as [A B]. split; assumption.
Qed.

Lemma full_attr_roundtrip_repaired :
  forall (F : Type) (float_parse : str -> option F) (printable : N -> bool) (s : str),
    Forall (fun c => (c < 1114112)%N) s ->
    parse_attr F float_parse true (repr_str printable s) = PStr s.
Proof.
  intros F fp pr s H. apply roundtrip_str_gen; [exact H |]. eapply Forall_impl; [| exact H].
  intros c Hc _. right. split; [reflexivity |]. apply N.lt_trans with (1 := Hc). reflexivity.
Qed.

Lemma full_header_line_roundtrip :
  forall (printable : N -> bool) (name : str),
    name <> [] -> memN 58 name = false ->
    (forall s, parse_line (header_line name (repr_str printable s)) = Some (name, repr_str printable s))
    /\ (forall z, parse_line (header_line name (repr_int z)) = Some (name, repr_int z))
    /\ (forall t, tight t -> parse_line (header_line name t) = Some (name, t)).
Proof.
  intros pr name Hn Hc. repeat split; intros; apply header_roundtrip; auto using tight_repr_str, tight_repr_int.
Qed.
