(* C17 (a): the text-header attribute codec — repr() then _parse_attribute_value. *)
From Coq Require Import List ZArith NArith Bool Lia ZifyBool ZifyNat ZifyN.
Require Import QV.C17.Model.
Ltac Zify.zify_post_hook ::= Z.to_euclidean_division_equations.
Local Open Scope N_scope.

Arguments ishex : simpl never.
Arguments hexval : simpl never.
Arguments hv4 : simpl never.
Arguments isoct : simpl never.

Lemma hexdigit_ok d : d < 16 ->
  ishex (hexdigit d) = true /\ hexval (hexdigit d) = d /\ hexdigit d <> 92 /\ hexdigit d <> 39
  /\ hexdigit d <> 34 /\ hexdigit d <> 10.
Proof.
  intros H.
  assert (E : d = 0 \/ d = 1 \/ d = 2 \/ d = 3 \/ d = 4 \/ d = 5 \/ d = 6 \/ d = 7 \/ d = 8 \/ d = 9
              \/ d = 10 \/ d = 11 \/ d = 12 \/ d = 13 \/ d = 14 \/ d = 15) by lia.
  repeat (destruct E as [E | E]; [subst d; vm_compute; repeat split; discriminate |]).
  subst d; vm_compute; repeat split; discriminate.
Qed.

Lemma expand_raw u c r : c <> 92 -> expand u (c :: r) = c :: expand u r.
Proof. intros H. cbn [expand]. unfold cBS. destruct (N.eqb_spec c 92); [contradiction | reflexivity]. Qed.

Lemma expand_simple u d x r : simple_esc d = Some x -> expand u (92 :: d :: r) = x :: expand u r.
Proof. intros H. cbn [expand]. change (negb (92 =? cBS)) with false. cbv iota. rewrite H. reflexivity. Qed.

Lemma simple_hex_none : simple_esc 120 = None /\ simple_esc 117 = None /\ simple_esc 85 = None.
Proof. vm_compute. auto. Qed.

Lemma expand_x u h1 h2 r : ishex h1 = true -> ishex h2 = true ->
  expand u (92 :: 120 :: h1 :: h2 :: r) = (hexval h1 * 16 + hexval h2) :: expand u r.
Proof.
  intros H1 H2. cbn [expand]. change (negb (92 =? cBS)) with false. cbv iota.
  change (simple_esc 120) with (@None N). cbv iota. change (isoct 120) with false. cbv iota.
  change (120 =? 120) with true. cbv iota. rewrite H1, H2. reflexivity.
Qed.

Lemma expand_u u h1 h2 h3 h4 r : ishex h1 = true -> ishex h2 = true -> ishex h3 = true -> ishex h4 = true ->
  expand u (92 :: 117 :: h1 :: h2 :: h3 :: h4 :: r) = hv4 h1 h2 h3 h4 :: expand u r.
Proof.
  intros H1 H2 H3 H4. cbn [expand]. change (negb (92 =? cBS)) with false. cbv iota.
  change (simple_esc 117) with (@None N). cbv iota. change (isoct 117) with false. cbv iota.
  change (117 =? 120) with false. cbv iota. change (117 =? 117) with true. cbv iota.
  rewrite H1, H2, H3, H4. reflexivity.
Qed.

Lemma expand_U h1 h2 h3 h4 h5 h6 h7 h8 r :
  ishex h1 = true -> ishex h2 = true -> ishex h3 = true -> ishex h4 = true ->
  ishex h5 = true -> ishex h6 = true -> ishex h7 = true -> ishex h8 = true ->
  expand true (92 :: 85 :: h1 :: h2 :: h3 :: h4 :: h5 :: h6 :: h7 :: h8 :: r)
  = (hv4 h1 h2 h3 h4 * 65536 + hv4 h5 h6 h7 h8) :: expand true r.
Proof.
  intros H1 H2 H3 H4 H5 H6 H7 H8. cbn [expand]. change (negb (92 =? cBS)) with false. cbv iota.
  change (simple_esc 85) with (@None N). cbv iota. change (isoct 85) with false. cbv iota.
  change (85 =? 120) with false. cbv iota. change (85 =? 117) with false. cbv iota.
  change (true && (85 =? 85)) with true. cbv iota.
  rewrite H1, H2, H3, H4, H5, H6, H7, H8. reflexivity.
Qed.

Lemma hv4_hex4 c : c < 65536 ->
  hv4 (hexdigit ((c / 4096) mod 16)) (hexdigit ((c / 256) mod 16)) (hexdigit ((c / 16) mod 16))
      (hexdigit (c mod 16)) = c.
Proof.
  intros H. unfold hv4.
  destruct (hexdigit_ok ((c / 4096) mod 16)) as (_ & -> & _); [apply N.mod_lt; discriminate|].
  destruct (hexdigit_ok ((c / 256) mod 16)) as (_ & -> & _); [apply N.mod_lt; discriminate|].
  destruct (hexdigit_ok ((c / 16) mod 16)) as (_ & -> & _); [apply N.mod_lt; discriminate|].
  destruct (hexdigit_ok (c mod 16)) as (_ & -> & _); [apply N.mod_lt; discriminate|].
  lia.
Qed.

Lemma ishex_hd x : ishex (hexdigit (x mod 16)) = true.
Proof. apply hexdigit_ok. apply N.mod_lt. discriminate. Qed.

Lemma expand_hex2 u c r : c < 256 -> expand u (92 :: 120 :: hex2 c ++ r) = c :: expand u r.
Proof.
  intros H. unfold hex2. cbn [app]. rewrite expand_x by apply ishex_hd.
  f_equal.
  destruct (hexdigit_ok ((c / 16) mod 16)) as (_ & -> & _); [apply N.mod_lt; discriminate|].
  destruct (hexdigit_ok (c mod 16)) as (_ & -> & _); [apply N.mod_lt; discriminate|].
  lia.
Qed.

Lemma expand_hex4 u c r : c < 65536 -> expand u (92 :: 117 :: hex4 c ++ r) = c :: expand u r.
Proof.
  intros H. unfold hex4. cbn [app]. rewrite expand_u by apply ishex_hd.
  rewrite hv4_hex4 by assumption. reflexivity.
Qed.

Lemma expand_hex8 c r : c < 4294967296 -> expand true (92 :: 85 :: hex8 c ++ r) = c :: expand true r.
Proof.
  intros H. unfold hex8, hex4. cbn [app]. rewrite expand_U by apply ishex_hd.
  rewrite !hv4_hex4 by (apply N.mod_lt; discriminate). f_equal. lia.
Qed.
