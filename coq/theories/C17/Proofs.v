(* C17 — lemmas, split by model part. *)
Require Export QV.C17.ProofsAttr QV.C17.ProofsNames QV.C17.ProofsLayout QV.C17.ProofsStore QV.C17.ProofsRec.
