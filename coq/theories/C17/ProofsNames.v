(* C17 (a, continued): numbered attribute / special-column names — decimal rendering of the axis or
   column number is undone by the reader's recogniser, and rendered names never collide. *)
From Coq Require Import List ZArith NArith Bool Lia ZifyBool ZifyNat ZifyN.
Require Import QV.C17.Model QV.C17.ProofsAttr.
Local Open Scope N_scope.

Lemma starts_with_app p r : starts_with p (p ++ r) = true.
Proof. induction p as [| x p IH]; [destruct r; reflexivity |]. cbn [app starts_with]. rewrite N.eqb_refl. exact IH. Qed.

Lemma ends_with_app a suf : ends_with suf (a ++ suf) = true.
Proof. unfold ends_with. rewrite rev_app_distr. apply starts_with_app. Qed.

Lemma repr_int_parse z : int_shape (repr_int z) = true /\ parse_int (repr_int z) = Some z.
Proof.
  pose proof (roundtrip_int unit (fun _ => None) false z) as H. unfold parse_attr in H.
  rewrite (memN_numch 39), (memN_numch 34) in H by (auto using repr_int_numch). cbn [orb] in H.
  destruct (int_shape (repr_int z)).
  - destruct (parse_int (repr_int z)); [inversion H; auto | discriminate].
  - destruct (str_eqb (repr_int z) sTrue); [discriminate |].
    destruct (str_eqb (repr_int z) sFalse); discriminate.
Qed.

Lemma repr_int_nat n : repr_int (Z.of_nat n) = dec_nat n.
Proof.
  unfold repr_int, dec_nat. destruct (Z.ltb_spec (Z.of_nat n) 0); [lia |]. cbn [app]. f_equal. lia.
Qed.

Lemma dec_nat_digits n : Forall (fun c => isdigit c = true) (dec_nat n).
Proof. apply dec_ok. Qed.

Lemma py_int_dec n : py_int (dec_nat n) = IntOk (Z.of_nat n).
Proof.
  unfold py_int.
  assert (E : existsb (fun c => is_space c || (c =? 95) || (128 <=? c)) (dec_nat n) = false).
  { pose proof (dec_nat_digits n) as H. induction H as [| c l Hc Hl IH]; [reflexivity |].
    cbn [existsb]. rewrite IH. unfold isdigit in Hc. unfold is_space. lia. }
  rewrite E. rewrite <- repr_int_nat. destruct (repr_int_parse (Z.of_nat n)) as [-> ->]. reflexivity.
Qed.

Lemma middle_numbered d suf : length suf = 6%nat -> middle (sAxis ++ d ++ suf) = d.
Proof.
  intros H. unfold middle. rewrite !app_length, H. change (length sAxis) with 4%nat.
  replace (4 + (length d + 6) - 10)%nat with (length d) by lia.
  change (skipn 4 (sAxis ++ d ++ suf)) with (d ++ suf).
  rewrite firstn_app, Nat.sub_diag, firstn_all. cbn [firstn]. apply app_nil_r.
Qed.

Lemma ends_with_numbered pre d suf : ends_with suf (pre ++ d ++ suf) = true.
Proof. rewrite app_assoc. apply ends_with_app. Qed.

(* the reader's recogniser inverts the writer's rendering, for EVERY axis number *)
Lemma special_roundtrip n :
  parse_special (scheme_name NIndex n) = SIndex (Z.of_nat n)
  /\ parse_special (scheme_name NScale n) = SScale (Z.of_nat n).
Proof.
  unfold parse_special, scheme_name, numbered. split.
  - rewrite starts_with_app, ends_with_numbered. cbn [andb].
    rewrite middle_numbered by reflexivity. rewrite py_int_dec. reflexivity.
  - rewrite starts_with_app. cbn [andb].
    assert (E : ends_with sIndexSuf (sAxis ++ dec_nat n ++ sScaleSuf) = false).
    { unfold ends_with. rewrite !rev_app_distr. reflexivity. }
    rewrite E, ends_with_numbered. rewrite middle_numbered by reflexivity. rewrite py_int_dec. reflexivity.
Qed.

(* ---- rendered names never collide -------------------------------------------------------------- *)

Lemma dec_nat_inj n m : dec_nat n = dec_nat m -> n = m.
Proof.
  intros H. unfold dec_nat in H.
  destruct (dec_ok (N.of_nat n)) as (A & _). destruct (dec_ok (N.of_nat m)) as (B & _).
  rewrite H in A. lia.
Qed.

(* a text that does not continue a number: empty or starting with a non-digit *)
Definition nondigit_head (s : str) : Prop := match s with [] => True | c :: _ => isdigit c = false end.

Lemma digits_split_unique a : forall b s t,
  Forall (fun c => isdigit c = true) a -> Forall (fun c => isdigit c = true) b ->
  nondigit_head s -> nondigit_head t -> a ++ s = b ++ t -> a = b /\ s = t.
Proof.
  induction a as [| x a IH]; intros b s t Ha Hb Hs Ht E.
  - destruct b as [| y b]; [split; [reflexivity | exact E] |].
    cbn [app] in E. subst s. inversion Hb; subst. cbn in Hs. congruence.
  - destruct b as [| y b].
    + cbn [app] in E. subst t. inversion Ha; subst. cbn in Ht. congruence.
    + cbn [app] in E. injection E as -> E. inversion Ha; inversion Hb; subst.
      destruct (IH b s t) as [-> ->]; auto.
Qed.

Lemma numbered_unambiguous pre n m s t :
  nondigit_head s -> nondigit_head t -> numbered pre n s = numbered pre m t -> n = m /\ s = t.
Proof.
  intros Hs Ht E. unfold numbered in E. apply app_inv_head in E.
  destruct (digits_split_unique _ _ _ _ (dec_nat_digits n) (dec_nat_digits m) Hs Ht E) as [A B].
  split; [apply dec_nat_inj; exact A | exact B].
Qed.

Definition scheme_prefix (k : nscheme) : str :=
  match k with NAxisSize | NAxisLabel | NAxisUnit => pAxisAttr | NColLabel | NColUnit => pColAttr | NIndex | NScale => sAxis end.
Definition scheme_suffix (k : nscheme) : str :=
  match k with NAxisSize => sSize | NAxisLabel | NColLabel => sLabel | NAxisUnit | NColUnit => sUnit
             | NIndex => sIndexSuf | NScale => sScaleSuf end.

Lemma scheme_name_form k n : scheme_name k n = numbered (scheme_prefix k) n (scheme_suffix k).
Proof. destruct k; reflexivity. Qed.

Lemma prefix_neq_app (p q a b : str) : length p = length q -> p <> q -> p ++ a <> q ++ b.
Proof.
  revert q. induction p as [| x p IH]; intros [| y q] Hl Hn E; try discriminate; [congruence |].
  cbn [app] in E. injection E as -> E. apply (IH q); [cbn in Hl; lia | congruence | exact E].
Qed.

(* every name of the scheme determines its kind and its number *)
Lemma scheme_name_inj k n k' n' : scheme_name k n = scheme_name k' n' -> k = k' /\ n = n'.
Proof.
  rewrite !scheme_name_form. intros E.
  assert (P : scheme_prefix k = scheme_prefix k').
  { destruct k, k'; try reflexivity; exfalso; unfold numbered in E; cbn [scheme_prefix] in E;
      first [ revert E; apply prefix_neq_app; [reflexivity | discriminate]
            | (* prefixes of different length: axis vs QMI_DataSet_...: first character differs *)
              unfold sAxis, pAxisAttr, pColAttr in E; cbn [app] in E; discriminate ]. }
  rewrite P in E.
  assert (H1 : nondigit_head (scheme_suffix k)) by (destruct k; reflexivity).
  assert (H2 : nondigit_head (scheme_suffix k')) by (destruct k'; reflexivity).
  destruct (numbered_unambiguous _ n n' _ _ H1 H2 E) as [N S]. subst n'.
  split; [| reflexivity].
  destruct k, k'; try reflexivity; try discriminate.
Qed.
