(* C01 — accounting invariant and progress: no issued call waits forever (repaired tree).
   Proves the statements of ProofsProgress_SPEC.txt against Model.v:
     reachable_acc       every reachable state satisfies AccInv (= FlagInv + the accounting fields)
     no_stuck            fx = true: a reachable state with an issued call without outcome enables a
                         label of progress_labels
     progress_decreases  every enabled label of progress_labels strictly decreases [measure]
   Adjustments with respect to the SPEC (meaning unchanged):
   - the flag relations are a sub-record FlagInv (field a_flags); "list <> [] -> flag" is stated as
     "forall r, In r list -> flag"; a_swept is split into f_swept (flag part) and a_swept;
     a_srvside2 / a_pendonly are stated as disjunctions (premise "remote = true" became the disjunct
     "remote = false"; "~ In r stages -> P" became "has_out \/ In r stages \/ P");
     f_cur_rep (cur = Some _ -> replying = None) is new: LExec overwrites [replying].
   - a_pendonly: the server side has dropped the peer OR the server's router is off.  The second
     disjunct is needed: with the SPEC's progress_labels no_stuck is FALSE, counter-example (fx = true,
     info r = mkInfo true 0 true true (OValue r)):
       [LIssue 0 true; LHandoff 0 true; LSockSend 0 true; LNetC2S 0 true; LPop; LExec;
        LSrvRouterOff; LReply false]
     reaches a state with pend = [0], no outcome for 0, every stage empty, srv_router = false and
     srv_peer = srv_open = cli_peer = cli_open = true: the reply was dropped because the router is
     inactive, and none of the SPEC's labels is enabled.  The server's stop sequence does continue
     (MessageRouter.stop closes the peer connections after switching the router off), so
     LSrvPeerGone is added to progress_labels in the states with srv_router = false, and only there.
     No other label had to be added (LCliLoopStop, LSrvLoopStop, LWorkerExit are not needed). *)
Require Import QV.C01.Model QV.C01.ProofsBasic.

Definition stages (s : state) : list nat :=
  handoff s ++ sockq s ++ lost s ++ c2s s ++ fifo s ++ opt_list (cur s)
  ++ map fst (opt_list (replying s)) ++ map fst (srvq s) ++ map fst (s2c s).

(* ---- helper lemmas ----------------------------------------------------------------------------- *)
Lemma has_out_iff s r : has_out s r = true <-> In r (keys (out s)).
Proof. apply existsb_key. Qed.

Lemma keys_set_out o r x r' : In r' (keys (set_out o r x)) <-> In r' (keys o) \/ r' = r.
Proof.
  unfold set_out. destruct (existsb _ o) eqn:E.
  - split; [auto|]. intros [H|H]; [exact H|]. subst. apply existsb_key. exact E.
  - unfold keys. rewrite map_app, in_app_iff. simpl. intuition.
Qed.

Lemma keys_set_out_all rs : forall o x r', In r' (keys (set_out_all o rs x)) <-> In r' (keys o) \/ In r' rs.
Proof.
  induction rs as [|a rs IH]; simpl; intros o x r'.
  - intuition.
  - rewrite IH, keys_set_out. intuition.
Qed.

Lemma in_remove_nat r x l : In r (remove_nat x l) -> In r l.
Proof.
  induction l as [|a l IH]; simpl; [auto|].
  destruct (Nat.eqb a x); simpl; intuition.
Qed.

Lemma in_remove_nat_neq r x l : In r l -> r <> x -> In r (remove_nat x l).
Proof.
  induction l as [|a l IH]; simpl; [auto|]. intros [E|Hin] Hne.
  - subst a. destruct (Nat.eqb_spec r x) as [E|E]; [contradiction|]. left; reflexivity.
  - destruct (Nat.eqb a x); [exact Hin|]. right. apply IH; assumption.
Qed.

Lemma in_remove_nat_cases r x l : In r l -> r = x \/ In r (remove_nat x l).
Proof.
  intro Hin. destruct (Nat.eq_dec r x) as [E|E]; [left; exact E|]. right. apply in_remove_nat_neq; assumption.
Qed.

Lemma mem_nat_In r l : mem_nat r l = true -> In r l.
Proof.
  unfold mem_nat. intro H. apply existsb_exists in H as [x [Hx E]]. apply Nat.eqb_eq in E. subst. exact Hx.
Qed.

Lemma In_mem_nat r l : In r l -> mem_nat r l = true.
Proof.
  unfold mem_nat. intro H. apply existsb_exists. exists r. split; [exact H|]. apply Nat.eqb_refl.
Qed.

Lemma length_remove_nat r l : In r l -> S (length (remove_nat r l)) = length l.
Proof.
  induction l as [|a l IH]; simpl; [intros []|]. intro Hin.
  destruct (Nat.eqb_spec a r) as [E|E]; [reflexivity|].
  destruct Hin as [Hin|Hin]; [contradiction|]. simpl. rewrite IH; [reflexivity|exact Hin].
Qed.

(* ---- tactics ---------------------------------------------------------------------------------- *)
Ltac unf := cbn [nxt out handoff sockq lost c2s pend fifo cur replying srvq s2c log
     registered running shutdown phase srv_router srv_peer srv_open srv_loop cli_router cli_peer cli_open cli_loop swept
     with_out with_handoff with_sockq with_lost with_c2s with_pend with_fifo with_cur with_replying with_srvq
     with_s2c with_log with_nxt with_obj with_srv with_cli fail] in *.

Ltac norm_b :=
  unfold srv_can_send in *;
  repeat match goal with
         | E : (_ && _) = true |- _ => apply andb_true_iff in E; destruct E
         | E : (_ && _) = false |- _ => apply andb_false_iff in E
         | E : (_ || _) = false |- _ => apply orb_false_iff in E; destruct E
         | E : negb _ = true |- _ => apply negb_true_iff in E
         | E : negb _ = false |- _ => apply negb_false_iff in E
         | E : Bool.eqb _ _ = true |- _ => apply eqb_prop in E
         | E : mem_nat _ _ = true |- _ => apply mem_nat_In in E
         end;
  repeat match goal with
         | E : Nat.eqb _ _ = true |- _ => apply Nat.eqb_eq in E; subst
         end.

(* use the equations produced by case analysis (list = head :: tail, option = Some/None) in the
   hypotheses that talk about the old state *)
Ltac rw_in_hyps :=
  repeat match goal with
         | p : (nat * outcome)%type |- _ => subst p
         end;
  repeat match goal with
         | E : ?x = _ :: _, K : context [?x] |- _ => lazymatch K with E => fail | _ => rewrite E in K end
         | E : ?x = [], K : context [?x] |- _ => lazymatch K with E => fail | _ => rewrite E in K end
         | E : ?x = Some _, K : context [?x] |- _ => lazymatch K with E => fail | _ => rewrite E in K end
         | E : ?x = None, K : context [?x] |- _ => lazymatch K with E => fail | _ => rewrite E in K end
         | E : ?x = [] |- context [?x] => rewrite E
         | E : ?x = None |- context [?x] => rewrite E
         | E : ?x = Some _ |- context [?x] => rewrite E
         end.

Section Progress.
  Variable fx : bool.
  Variable info : nat -> rinfo.

  (* flag relations: all flags only ever go from true to false; a non-empty channel needs its
     carrier alive *)
  Record FlagInv (s : state) : Prop := {
    f_pend_open : forall r, In r (pend s) -> cli_open s = true;
    f_s2c_open : forall r, In r (map fst (s2c s)) -> cli_open s = true;
    f_c2s_open : forall r, In r (c2s s) -> srv_open s = true;
    f_srvq_loop : forall r, In r (map fst (srvq s)) -> srv_loop s = true;
    f_sockq_loop : forall r, In r (sockq s) -> cli_loop s = true;
    f_gone : phase s = Gone -> fifo s = [] /\ cur s = None /\ replying s = None /\ running s = false;
    f_shutdown : shutdown s = true -> running s = false;
    f_cli_peer : cli_peer s = true -> cli_open s = true;
    f_srv_peer : srv_peer s = true -> srv_open s = true;
    f_cli_loop : cli_loop s = false -> cli_open s = false /\ cli_router s = false;
    f_srv_loop : srv_loop s = false -> srv_open s = false /\ srv_router s = false;
    f_lost : forall r, In r (lost s) -> fx = true -> cli_loop s = false;
    f_swept : swept s = true -> cli_loop s = false;
    f_cur_rep : forall n, cur s = Some n -> replying s = None
  }.

  Lemma init_flag : FlagInv init.
  Proof. constructor; simpl; intros; try contradiction; try discriminate; auto. Qed.

  Lemma step_flag s l s' : step fx info s l = Some s' -> FlagInv s -> FlagInv s'.
  Proof.
    intros H I. destruct I as [P1 P2 P3 P4 P5 I1 I2 I3 I4 I5 I6 P6 I7 I8].
    destruct l; cbn [step] in H; unfold send_reply in H; break_step H; unf; norm_b; rw_in_hyps.
    all: constructor; unf.
    all: try (intros r' Hin; specialize (P1 r'); specialize (P2 r'); specialize (P3 r'); specialize (P4 r');
              specialize (P5 r'); specialize (P6 r'); specialize (I8 r');
              try apply in_remove_nat in Hin;
              repeat match goal with
                     | E : ?x = [] |- _ => rewrite E in Hin
                     end;
              rewrite ?map_app, ?in_app_iff in Hin).
    all: cbn [map fst In] in *.
    all: try solve [intros; auto; congruence].
    all: solve [intuition (subst; try congruence; auto)].
  Qed.

  Record AccInv (s : state) : Prop := {
    a_flags : FlagInv s;
    (* every issued call is accounted for: it has an outcome, or sits in a stage, or is in the pending table *)
    a_acc : forall r, r < nxt s -> has_out s r = true \/ In r (stages s) \/ In r (pend s);
    a_bound : forall r, In r (stages s) \/ In r (pend s) \/ has_out s r = true -> r < nxt s;
    (* remote requests on the server side are covered by the client's pending table (or already failed) *)
    a_srvside : forall r, In r (c2s s ++ map fst (srvq s) ++ map fst (s2c s)) -> In r (pend s) \/ has_out s r = true;
    a_srvside2 : forall r, In r (fifo s ++ opt_list (cur s) ++ map fst (opt_list (replying s))) ->
                 remote (info r) = false \/ In r (pend s) \/ has_out s r = true;
    (* after the client's final sweep nothing on the client side is without an outcome *)
    a_swept : forall r, In r (lost s ++ handoff s) -> swept s = true -> has_out s r = true;
    (* a pending request that is in no stage any more can only be resolved by the connection closing:
       then the server side has dropped the peer, or the server's router is already stopped (and the
       peer removal follows) *)
    a_pendonly : forall r, In r (pend s) -> fx = true ->
                 has_out s r = true \/ In r (stages s) \/ srv_peer s = false \/ srv_router s = false
  }.

  Lemma stages_iff s r :
    In r (stages s) <->
    In r (handoff s) \/ In r (sockq s) \/ In r (lost s) \/ In r (c2s s) \/ In r (fifo s) \/ In r (opt_list (cur s))
    \/ In r (map fst (opt_list (replying s))) \/ In r (map fst (srvq s)) \/ In r (map fst (s2c s)).
  Proof. unfold stages. rewrite !in_app_iff. reflexivity. Qed.

  Ltac acc_prep l H :=
    destruct l; cbn [step] in H; unfold send_reply in H; break_step H; unf; norm_b; rw_in_hyps.

  Ltac inorm_goal :=
    unf; rewrite ?keys_set_out_all, ?keys_set_out;
    cbn [opt_list map fst snd]; rewrite ?map_app, ?in_app_iff; cbn [In map fst snd].
  Ltac inorm_hyp K := cbn [In opt_list map fst snd] in K.

  Ltac rem_facts r :=
    repeat match goal with
           | K : In _ (remove_nat _ _) |- _ => apply in_remove_nat in K
           end;
    try match goal with
        | |- context [In r (remove_nat ?x ?l)] => pose proof (in_remove_nat_cases r x l)
        end.

  Ltac split_hyps :=
    repeat match goal with
           | K : _ \/ _ |- _ => destruct K as [K|K]
           | K : _ /\ _ |- _ => destruct K
           | K : False |- _ => contradiction
           | K : In _ (remove_nat ?x ?l) |- _ =>
               lazymatch goal with
               | |- context [remove_nat x l] => fail
               | _ => apply in_remove_nat in K
               end
           | K : (_ && _) = false |- _ => apply andb_false_iff in K
           | K : (_ || _) = false |- _ => apply orb_false_iff in K
           end.
  Ltac atom := first [assumption | reflexivity].
  Ltac disj :=
    lazymatch goal with
    | |- _ \/ _ => first [left; disj | right; disj]
    | |- False => fail
    | |- _ => atom
    end.
  Ltac close := first [disj | congruence | lia].
  Ltac fin_n n :=
    split_hyps; subst;
    first [ close
          | lazymatch n with
            | S ?m => match goal with
                      | K : ?P -> _ |- _ =>
                          let X := fresh in assert (X : P) by disj; specialize (K X); clear X; fin_n m
                      end
            end ].
  Ltac fin := fin_n 3.

  Lemma step_a_acc s l s' : step fx info s l = Some s' -> AccInv s ->
    forall r, r < nxt s' -> has_out s' r = true \/ In r (stages s') \/ In r (pend s').
  Proof.
    intros H I r Hr.
    pose proof (a_acc _ I r) as A. pose proof (a_srvside _ I r) as B. pose proof (a_srvside2 _ I r) as C.
    rewrite has_out_iff, stages_iff. rewrite ?has_out_iff, ?stages_iff in A.
    rewrite ?has_out_iff, ?in_app_iff in B. rewrite ?has_out_iff, ?in_app_iff in C.
    acc_prep l H.
    all: try match goal with E : cur _ = Some ?n |- _ => rewrite (f_cur_rep _ (a_flags _ I) n E) in * end.
    all: try match type of Hr with _ < S _ => assert (Hr' : r < nxt s \/ r = nxt s) by lia; clear Hr;
               destruct Hr' as [Hr|Hr]; [|clear A] end.
    all: try specialize (A Hr).
    all: inorm_goal; rem_facts r; try inorm_hyp A; inorm_hyp B; inorm_hyp C.
    all: solve [fin].
  Qed.

  Lemma step_a_bound s l s' : step fx info s l = Some s' -> AccInv s ->
    forall r, In r (stages s') \/ In r (pend s') \/ has_out s' r = true -> r < nxt s'.
  Proof.
    intros H I r Hr.
    pose proof (a_bound _ I r) as A.
    clear I. rewrite has_out_iff, stages_iff in Hr. rewrite ?has_out_iff, ?stages_iff in A.
    acc_prep l H.
    all: unf; rewrite ?keys_set_out_all, ?keys_set_out in Hr;
         cbn [opt_list map fst snd] in Hr; rewrite ?map_app, ?in_app_iff in Hr; cbn [In map fst snd] in Hr.
    all: rem_facts r; inorm_hyp A.
    all: solve [fin].
  Qed.

  Lemma step_a_srvside s l s' : step fx info s l = Some s' -> AccInv s ->
    forall r, In r (c2s s' ++ map fst (srvq s') ++ map fst (s2c s')) -> In r (pend s') \/ has_out s' r = true.
  Proof.
    intros H I r Hr.
    pose proof (a_srvside _ I r) as B. pose proof (a_srvside2 _ I r) as C.
    rewrite has_out_iff. rewrite ?in_app_iff in Hr.
    rewrite ?has_out_iff, ?in_app_iff in B. rewrite ?has_out_iff, ?in_app_iff in C.
    acc_prep l H.
    all: unf; cbn [opt_list map fst snd] in Hr; rewrite ?map_app, ?in_app_iff in Hr; cbn [In map fst snd] in Hr.
    all: inorm_goal; rem_facts r; inorm_hyp B; inorm_hyp C.
    all: solve [fin].
  Qed.

  Lemma step_a_srvside2 s l s' : step fx info s l = Some s' -> AccInv s ->
    forall r, In r (fifo s' ++ opt_list (cur s') ++ map fst (opt_list (replying s'))) ->
              remote (info r) = false \/ In r (pend s') \/ has_out s' r = true.
  Proof.
    intros H I r Hr.
    pose proof (a_srvside _ I r) as B. pose proof (a_srvside2 _ I r) as C.
    rewrite has_out_iff. rewrite ?in_app_iff in Hr.
    rewrite ?has_out_iff, ?in_app_iff in B. rewrite ?has_out_iff, ?in_app_iff in C.
    acc_prep l H.
    all: unf; cbn [opt_list map fst snd] in Hr; rewrite ?map_app, ?in_app_iff in Hr; cbn [In map fst snd] in Hr.
    all: inorm_goal; rem_facts r; inorm_hyp B; inorm_hyp C.
    all: solve [fin].
  Qed.

  Lemma step_a_swept s l s' : step fx info s l = Some s' -> AccInv s ->
    forall r, In r (lost s' ++ handoff s') -> swept s' = true -> has_out s' r = true.
  Proof.
    intros H I r Hr Hs.
    pose proof (a_swept _ I r) as B.
    pose proof (f_swept _ (a_flags _ I)) as F1. pose proof (f_cli_loop _ (a_flags _ I)) as F2.
    rewrite has_out_iff. rewrite ?in_app_iff in Hr.
    rewrite ?has_out_iff, ?in_app_iff in B.
    acc_prep l H.
    all: unf; cbn [opt_list map fst snd] in Hr; rewrite ?map_app, ?in_app_iff in Hr; cbn [In map fst snd] in Hr.
    all: inorm_goal; rem_facts r; inorm_hyp B.
    all: solve [fin].
  Qed.

  Lemma step_a_pendonly s l s' : step fx info s l = Some s' -> AccInv s ->
    forall r, In r (pend s') -> fx = true ->
              has_out s' r = true \/ In r (stages s') \/ srv_peer s' = false \/ srv_router s' = false.
  Proof.
    intros H I r Hr Hfx.
    pose proof (fun h => a_pendonly _ I r h Hfx) as P.
    pose proof (f_srv_loop _ (a_flags _ I)) as F1. pose proof (f_pend_open _ (a_flags _ I) r) as F2.
    rewrite has_out_iff, stages_iff. rewrite ?has_out_iff, ?stages_iff in P.
    rewrite Hfx in H.
    acc_prep l H.
    all: try match goal with E : cur _ = Some ?n |- _ => rewrite (f_cur_rep _ (a_flags _ I) n E) in * end.
    all: unf; cbn [opt_list map fst snd] in Hr; rewrite ?map_app, ?in_app_iff in Hr; cbn [In map fst snd] in Hr.
    all: inorm_goal; rem_facts r; inorm_hyp P.
    all: solve [fin].
  Qed.

  Lemma init_acc : AccInv init.
  Proof.
    constructor; [apply init_flag | ..]; cbn; intros; try contradiction; try lia; try discriminate.
    all: intuition discriminate.
  Qed.

  Lemma step_acc s l s' : step fx info s l = Some s' -> AccInv s -> AccInv s'.
  Proof.
    intros H I. constructor.
    - eapply step_flag; [exact H | apply a_flags; exact I].
    - eapply step_a_acc; eassumption.
    - eapply step_a_bound; eassumption.
    - eapply step_a_srvside; eassumption.
    - eapply step_a_srvside2; eassumption.
    - eapply step_a_swept; eassumption.
    - eapply step_a_pendonly; eassumption.
  Qed.

  Lemma run_acc ls : forall s s', run fx info s ls = Some s' -> AccInv s -> AccInv s'.
  Proof.
    induction ls as [|l ls IH]; simpl; intros s s' H I.
    - inversion H; subst; exact I.
    - destruct (step fx info s l) as [s1|] eqn:E; [|discriminate].
      eapply IH; [exact H|]. eapply step_acc; eassumption.
  Qed.

  Theorem reachable_acc ls s : run fx info init ls = Some s -> AccInv s.
  Proof. intro H. eapply run_acc; [exact H | apply init_acc]. Qed.


  (* ---- progress --------------------------------------------------------------------------------- *)
  (* labels that continue work already begun (not a new call, not the start of a fault), with every
     possible observed outcome.  LSrvClose / LCliClose continue a removal of the peer already begun
     (guards: peer gone); LSrvPeerGone is a progress label only once the server's router has been
     switched off: MessageRouter.stop then goes on to close every peer connection. *)
  Definition both (f : bool -> label) : list label := [f true; f false].
  Definition progress_labels (s : state) : list label :=
    flat_map (fun r => both (LHandoff r)) (handoff s)
    ++ flat_map (fun r => both (LSockSend r)) (firstn 1 (sockq s))
    ++ flat_map (fun r => both (LNetC2S r)) (firstn 1 (c2s s))
    ++ [LPop; LExec] ++ both LReply ++ both LReject
    ++ flat_map (fun r => [LSrvSend r Sent; LSrvSend r SentError; LSrvSend r Dropped]) (map fst (firstn 1 (srvq s)))
    ++ map LNetS2C (map fst (firstn 1 (s2c s)))
    ++ [LSrvClose; LCliClose; LCliEof; LSrvEof; LCliSweep]
    ++ (if srv_router s then [] else [LSrvPeerGone]).

  Ltac in_pl :=
    unfold progress_labels, both;
    repeat match goal with
           | E : ?x = _ :: _ |- context [?x] => rewrite E
           | E : ?x = false |- context [if ?x then _ else _] => rewrite E
           end;
    rewrite ?in_app_iff; cbn [firstn flat_map map fst app In]; rewrite ?in_app_iff; cbn [In]; disj.

  Lemma ns_stage s r : AccInv s -> fx = true -> In r (stages s) -> has_out s r = false ->
    exists l, In l (progress_labels s) /\ step fx info s l <> None.
  Proof.
    intros I Hfx A Hno. pose proof (a_flags _ I) as F.
    apply stages_iff in A. destruct A as [A|[A|[A|[A|[A|[A|[A|[A|A]]]]]]]].
    - (* handoff *)
      exists (LHandoff r (cli_loop s)). split.
      + unfold progress_labels. apply in_or_app. left. apply in_flat_map. exists r. split; [exact A|].
        destruct (cli_loop s); simpl; auto.
      + cbn [step]. rewrite (In_mem_nat _ _ A). rewrite Bool.eqb_reflx. cbn. destruct (cli_loop s); discriminate.
    - (* sockq *)
      destruct (sockq s) as [|x rest] eqn:E; [contradiction|].
      assert (Hl : cli_loop s = true) by (apply (f_sockq_loop _ F x); rewrite E; left; reflexivity).
      destruct (cli_peer s && ser_req (info x) && srv_open s) eqn:C.
      + exists (LSockSend x true). split; [in_pl|].
        cbn [step]. rewrite E, Nat.eqb_refl, Hl. cbn [andb]. unf. rewrite C. discriminate.
      + exists (LSockSend x false). split; [in_pl|].
        cbn [step]. rewrite E, Nat.eqb_refl, Hl. cbn [andb]. unf. rewrite C, Hfx. cbn. discriminate.
    - (* lost *)
      assert (Hl : cli_loop s = false) by (apply (f_lost _ F r A Hfx)).
      destruct (swept s) eqn:Sw.
      + rewrite (a_swept _ I r) in Hno; [discriminate| |exact Sw]. apply in_or_app. left. exact A.
      + exists LCliSweep. split; [in_pl|]. cbn [step]. rewrite Hfx, Hl, Sw. discriminate.
    - (* c2s *)
      destruct (c2s s) as [|x rest] eqn:E; [contradiction|].
      assert (Ho : srv_open s = true) by (apply (f_c2s_open _ F x); rewrite E; left; reflexivity).
      exists (LNetC2S x (running s)). split.
      + destruct (running s); in_pl.
      + cbn [step]. rewrite E, Nat.eqb_refl, Ho. cbn [andb]. unf.
        destruct (running s); [discriminate|]. rewrite Bool.andb_false_r. destruct (cli_open s); discriminate.
    - (* fifo *)
      destruct (fifo s) as [|x rest] eqn:E; [contradiction|].
      destruct (phase s) eqn:Ph; [|apply (f_gone _ F) in Ph; destruct Ph as [Ph _]; congruence].
      destruct (cur s) as [c|] eqn:Ec.
      { exists LExec. split; [in_pl|]. cbn [step]. rewrite Ec. discriminate. }
      destruct (replying s) as [[r0 o]|] eqn:Er.
      { exists (LReply (srv_can_send s)). split; [destruct (srv_can_send s); in_pl|].
        cbn [step]. rewrite Er. unfold send_reply, srv_can_send. unf.
        destruct (remote (info r0)); [|discriminate].
        destruct (srv_router s && srv_peer s && srv_loop s); discriminate. }
      destruct (shutdown s) eqn:Sh.
      + exists (LReject (srv_can_send s)). split; [destruct (srv_can_send s); in_pl|].
        cbn [step]. rewrite Ph, Ec, Er, E, Sh. unfold send_reply, srv_can_send. unf.
        destruct (remote (info x)); [|discriminate].
        destruct (srv_router s && srv_peer s && srv_loop s); discriminate.
      + exists LPop. split; [in_pl|]. cbn [step]. rewrite Ph, Ec, Er, E, Sh. discriminate.
    - (* cur *)
      destruct (cur s) as [c|] eqn:Ec; [|contradiction].
      exists LExec. split; [in_pl|]. cbn [step]. rewrite Ec. discriminate.
    - (* replying *)
      destruct (replying s) as [[r0 o]|] eqn:Er; [|contradiction].
      exists (LReply (srv_can_send s)). split; [destruct (srv_can_send s); in_pl|].
      cbn [step]. rewrite Er. unfold send_reply, srv_can_send. unf.
      destruct (remote (info r0)); [|discriminate].
      destruct (srv_router s && srv_peer s && srv_loop s); discriminate.
    - (* srvq *)
      destruct (srvq s) as [|[x o] rest] eqn:E; [contradiction|].
      assert (Hl : srv_loop s = true) by (apply (f_srvq_loop _ F x); rewrite E; left; reflexivity).
      destruct (srv_peer s && cli_open s) eqn:L; [destruct (picklable info x o) eqn:Pk|].
      + exists (LSrvSend x Sent). split; [in_pl|].
        cbn [step]. rewrite E, Nat.eqb_refl, Hl. cbn [andb]. unf. rewrite L, Pk. discriminate.
      + exists (LSrvSend x SentError). split; [in_pl|].
        cbn [step]. rewrite E, Nat.eqb_refl, Hl. cbn [andb]. unf. rewrite L, Pk, Hfx. discriminate.
      + exists (LSrvSend x Dropped). split; [in_pl|].
        cbn [step]. rewrite E, Nat.eqb_refl, Hl. cbn [andb]. unf. rewrite L. discriminate.
    - (* s2c *)
      destruct (s2c s) as [|[x o] rest] eqn:E; [contradiction|].
      assert (Ho : cli_open s = true) by (apply (f_s2c_open _ F x); rewrite E; left; reflexivity).
      exists (LNetS2C x). split; [in_pl|].
      cbn [step]. rewrite E, Nat.eqb_refl, Ho. discriminate.
  Qed.

  (* NO CALL WAITS FOREVER (repaired tree, fx = true): in every reachable state in which some issued
     call has no outcome yet, a progress step is enabled. *)
  Theorem no_stuck ls s r :
    fx = true -> run fx info init ls = Some s -> r < nxt s -> has_out s r = false ->
    exists l, In l (progress_labels s) /\ step fx info s l <> None.
  Proof.
    intros Hfx Hrun Hr Hno. pose proof (reachable_acc _ _ Hrun) as I. pose proof (a_flags _ I) as F.
    destruct (a_acc _ I r Hr) as [A|[A|A]]; [congruence | eapply ns_stage; eassumption |].
    destruct (a_pendonly _ I r A Hfx) as [P|[P|P]]; [congruence | eapply ns_stage; eassumption |].
    assert (Ho : cli_open s = true) by (apply (f_pend_open _ F r A)).
    destruct (srv_peer s) eqn:Sp.
    - (* the server's router is off, its peer not yet removed: the stop sequence removes it *)
      destruct P as [P|P]; [discriminate|].
      exists LSrvPeerGone. split; [in_pl|]. cbn [step]. rewrite Sp. discriminate.
    - destruct (srv_open s) eqn:So.
      + exists LSrvClose. split; [in_pl|]. cbn [step]. rewrite So, Sp. discriminate.
      + destruct (s2c s) as [|[x o] rest] eqn:E.
        * exists LCliEof. split; [in_pl|]. cbn [step]. rewrite E, Ho, So. discriminate.
        * exists (LNetS2C x). split; [in_pl|]. cbn [step]. rewrite E, Nat.eqb_refl, Ho. discriminate.
  Qed.

  (* ... and progress steps terminate: a measure that every progress step strictly decreases *)
  Definition is_progress (l : label) : bool :=
    match l with
    | LIssue _ _ | LUnregister | LStopFlag | LShutdown | LWorkerExit | LCliPeerGone
    | LSrvRouterOff | LSrvLoopStop | LCliRouterOff | LCliLoopStop => false
    | _ => true
    end.

  Lemma progress_labels_kind s l : In l (progress_labels s) -> is_progress l = true.
  Proof.
    unfold progress_labels, both. rewrite !in_app_iff, !in_flat_map, !in_map_iff. intro H.
    destruct (srv_router s);
    repeat match goal with
           | K : _ \/ _ |- _ => destruct K as [K|K]
           | K : exists _, _ |- _ => destruct K as [? K]
           | K : _ /\ _ |- _ => destruct K
           | K : False |- _ => contradiction
           | K : In _ (_ :: _) |- _ => cbn [In] in K
           | K : In _ [] |- _ => contradiction
           end; subst; reflexivity.
  Qed.

  Definition b2n (b : bool) : nat := if b then 1 else 0.
  Definition measure (s : state) : nat :=
    9 * length (handoff s) + 8 * length (sockq s) + length (lost s) + 7 * length (c2s s) + 6 * length (fifo s)
    + 5 * length (opt_list (cur s)) + 4 * length (opt_list (replying s)) + 3 * length (srvq s)
    + 2 * length (s2c s)
    + b2n (srv_open s) + b2n (cli_open s) + b2n (srv_peer s) + b2n (cli_peer s) + b2n (negb (swept s)).

  Theorem progress_decreases s l s' :
    In l (progress_labels s) -> step fx info s l = Some s' -> measure s' < measure s.
  Proof.
    intros Hin H. apply progress_labels_kind in Hin.
    destruct l; try discriminate Hin; clear Hin; cbn [step] in H; unfold send_reply in H; break_step H;
      unfold measure; unf; norm_b.
    all: repeat match goal with
                | E : ?x = _ |- context [?x] => rewrite E
                end.
    all: try match goal with
             | K : In ?r ?l |- context [remove_nat ?r ?l] => pose proof (length_remove_nat r l K)
             end.
    all: rewrite ?app_length; cbn [length opt_list b2n negb].
    all: lia.
  Qed.
End Progress.
