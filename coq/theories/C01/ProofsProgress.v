(* C01 — accounting invariant and progress: no issued call waits forever (repaired tree). *)
Require Import QV.C01.Model QV.C01.ProofsBasic.

Definition stages (s : state) : list nat :=
  handoff s ++ sockq s ++ lost s ++ c2s s ++ fifo s ++ opt_list (cur s)
  ++ map fst (opt_list (replying s)) ++ map fst (srvq s) ++ map fst (s2c s).

(* ---- helper lemmas ----------------------------------------------------------------------------- *)
Lemma has_out_iff s r : has_out s r = true <-> In r (keys (out s)).
Proof. apply existsb_key. Qed.

Lemma keys_set_out o r x r' : In r' (keys (set_out o r x)) <-> In r' (keys o) \/ r' = r.
Proof.
  unfold set_out. destruct (existsb _ o) eqn:E.
  - split; [auto|]. intros [H|H]; [exact H|]. subst. apply existsb_key. exact E.
  - unfold keys. rewrite map_app, in_app_iff. simpl. intuition.
Qed.

Lemma keys_set_out_all rs : forall o x r', In r' (keys (set_out_all o rs x)) <-> In r' (keys o) \/ In r' rs.
Proof.
  induction rs as [|a rs IH]; simpl; intros o x r'.
  - intuition.
  - rewrite IH, keys_set_out. intuition.
Qed.

Lemma in_remove_nat r x l : In r (remove_nat x l) -> In r l.
Proof.
  induction l as [|a l IH]; simpl; [auto|].
  destruct (Nat.eqb a x); simpl; intuition.
Qed.

Lemma in_remove_nat_neq r x l : In r l -> r <> x -> In r (remove_nat x l).
Proof.
  induction l as [|a l IH]; simpl; [auto|]. intros [E|Hin] Hne.
  - subst a. destruct (Nat.eqb_spec r x) as [E|E]; [contradiction|]. left; reflexivity.
  - destruct (Nat.eqb a x); [exact Hin|]. right. apply IH; assumption.
Qed.

Lemma in_remove_nat_cases r x l : In r l -> r = x \/ In r (remove_nat x l).
Proof.
  intro Hin. destruct (Nat.eq_dec r x) as [E|E]; [left; exact E|]. right. apply in_remove_nat_neq; assumption.
Qed.

Lemma mem_nat_In r l : mem_nat r l = true -> In r l.
Proof.
  unfold mem_nat. intro H. apply existsb_exists in H as [x [Hx E]]. apply Nat.eqb_eq in E. subst. exact Hx.
Qed.

Lemma In_mem_nat r l : In r l -> mem_nat r l = true.
Proof.
  unfold mem_nat. intro H. apply existsb_exists. exists r. split; [exact H|]. apply Nat.eqb_refl.
Qed.

Lemma length_remove_nat r l : In r l -> S (length (remove_nat r l)) = length l.
Proof.
  induction l as [|a l IH]; simpl; [intros []|]. intro Hin.
  destruct (Nat.eqb_spec a r) as [E|E]; [reflexivity|].
  destruct Hin as [Hin|Hin]; [contradiction|]. simpl. rewrite IH; [reflexivity|exact Hin].
Qed.

(* ---- tactics ---------------------------------------------------------------------------------- *)
Ltac unf := cbn [nxt out handoff sockq lost c2s pend fifo cur replying srvq s2c log
     registered running shutdown phase srv_router srv_peer srv_open srv_loop cli_router cli_peer cli_open cli_loop swept
     with_out with_handoff with_sockq with_lost with_c2s with_pend with_fifo with_cur with_replying with_srvq
     with_s2c with_log with_nxt with_obj with_srv with_cli fail] in *.

Ltac norm_b :=
  unfold srv_can_send in *;
  repeat match goal with
         | E : (_ && _) = true |- _ => apply andb_true_iff in E; destruct E
         | E : (_ && _) = false |- _ => apply andb_false_iff in E
         | E : (_ || _) = false |- _ => apply orb_false_iff in E; destruct E
         | E : negb _ = true |- _ => apply negb_true_iff in E
         | E : negb _ = false |- _ => apply negb_false_iff in E
         | E : Bool.eqb _ _ = true |- _ => apply eqb_prop in E
         | E : mem_nat _ _ = true |- _ => apply mem_nat_In in E
         end;
  repeat match goal with
         | E : Nat.eqb _ _ = true |- _ => apply Nat.eqb_eq in E; subst
         end.

(* use the equations produced by case analysis (list = head :: tail, option = Some/None) in the
   hypotheses that talk about the old state *)
Ltac rw_in_hyps :=
  repeat match goal with
         | p : (nat * outcome)%type |- _ => subst p
         end;
  repeat match goal with
         | E : ?x = _ :: _, K : context [?x] |- _ => lazymatch K with E => fail | _ => rewrite E in K end
         | E : ?x = [], K : context [?x] |- _ => lazymatch K with E => fail | _ => rewrite E in K end
         | E : ?x = Some _, K : context [?x] |- _ => lazymatch K with E => fail | _ => rewrite E in K end
         | E : ?x = None, K : context [?x] |- _ => lazymatch K with E => fail | _ => rewrite E in K end
         | E : ?x = [] |- context [?x] => rewrite E
         | E : ?x = None |- context [?x] => rewrite E
         | E : ?x = Some _ |- context [?x] => rewrite E
         end.

Ltac in_norm :=
  unfold stages in *; unf;
  rewrite ?has_out_iff in *; unf;
  rewrite ?keys_set_out_all, ?keys_set_out in *;
  cbn [opt_list map fst snd] in *;
  rewrite ?in_app_iff in *;
  cbn [In] in *.

Section Progress.
  Variable fx : bool.
  Variable info : nat -> rinfo.

  (* flag relations: all flags only ever go from true to false; a non-empty channel needs its
     carrier alive *)
  Record FlagInv (s : state) : Prop := {
    f_pend_open : forall r, In r (pend s) -> cli_open s = true;
    f_s2c_open : forall r, In r (map fst (s2c s)) -> cli_open s = true;
    f_c2s_open : forall r, In r (c2s s) -> srv_open s = true;
    f_srvq_loop : forall r, In r (map fst (srvq s)) -> srv_loop s = true;
    f_sockq_loop : forall r, In r (sockq s) -> cli_loop s = true;
    f_gone : phase s = Gone -> fifo s = [] /\ cur s = None /\ replying s = None /\ running s = false;
    f_shutdown : shutdown s = true -> running s = false;
    f_cli_peer : cli_peer s = true -> cli_open s = true;
    f_srv_peer : srv_peer s = true -> srv_open s = true;
    f_cli_loop : cli_loop s = false -> cli_open s = false /\ cli_router s = false;
    f_srv_loop : srv_loop s = false -> srv_open s = false /\ srv_router s = false;
    f_lost : forall r, In r (lost s) -> fx = true -> cli_loop s = false;
    f_swept : swept s = true -> cli_loop s = false
  }.

  Lemma init_flag : FlagInv init.
  Proof. constructor; simpl; intros; try contradiction; try discriminate; auto. Qed.

  Lemma step_flag s l s' : step fx info s l = Some s' -> FlagInv s -> FlagInv s'.
  Proof.
    intros H I. destruct I as [P1 P2 P3 P4 P5 I1 I2 I3 I4 I5 I6 P6 I7].
    destruct l; cbn [step] in H; unfold send_reply in H; break_step H; unf; norm_b; rw_in_hyps.
    all: constructor; unf.
    all: try (intros r' Hin; specialize (P1 r'); specialize (P2 r'); specialize (P3 r'); specialize (P4 r');
              specialize (P5 r'); specialize (P6 r');
              try apply in_remove_nat in Hin;
              repeat match goal with
                     | E : ?x = [] |- _ => rewrite E in Hin
                     end;
              rewrite ?map_app, ?in_app_iff in Hin).
    all: cbn [map fst In] in *.
    all: try solve [intros; auto; congruence].
    all: solve [intuition (subst; try congruence; auto)].
  Qed.

End Progress.
