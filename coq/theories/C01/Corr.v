(* C01/C02/C03 correspondence: the event trace of a real execution under the deterministic
   scheduler (labels with the observed outcomes) must be a run of the model, and the outcome each
   real call ended with must be the one the model's future holds. *)
Require Export QV.Lib.Corr QV.C01.Model.

Inductive oclass := CValue | CExc | CLocked | CDelivery | CNone | CTimeout.
(* CTimeout (observed only): the caller gave up after its own rpc_timeout and abandoned the future; whatever
   the pipeline later does with that call is not observable, so its outcome is not compared *)

Definition class_of (o : option outcome) : oclass :=
  match o with
  | Some (OValue _) => CValue | Some (OExc _) => CExc | Some OLocked => CLocked
  | Some ODeliveryError => CDelivery | None => CNone
  end.

Definition oclass_eqb (a b : oclass) : bool :=
  match a, b with
  | CValue, CValue | CExc, CExc | CLocked, CLocked | CDelivery, CDelivery | CNone, CNone => true
  | _, CTimeout => true
  | _, _ => false
  end.

Fixpoint lookup_out (o : list (nat * outcome)) (r : nat) : option outcome :=
  match o with [] => None | (k, v) :: t => if Nat.eqb k r then Some v else lookup_out t r end.

Definition dflt : rinfo := mkInfo false 0 true true (OValue 0).

(* fx, request table (indexed by rid), trace, observed outcome class per rid, observed execution log *)
Definition case := (bool * list rinfo * list label * list oclass * list nat)%type.

Definition info_of (tbl : list rinfo) (r : nat) : rinfo := nth r tbl dflt.

Definition model_final (c : case) : option state :=
  let '(fx, tbl, tr, _, _) := c in run fx (info_of tbl) init tr.

(* index of the first label the model cannot take (for diagnostics) *)
Fixpoint first_reject (fx : bool) (info : nat -> rinfo) (s : state) (ls : list label) (i : nat) : option nat :=
  match ls with
  | [] => None
  | l :: r => match step fx info s l with Some s' => first_reject fx info s' r (S i) | None => Some i end
  end.

Definition model_out (c : case) : option nat * list oclass * list nat :=
  let '(fx, tbl, tr, obs, _) := c in
  match run fx (info_of tbl) init tr with
  | Some s => (None, map (fun r => class_of (lookup_out (out s) r)) (seq 0 (length obs)), log s)
  | None => (first_reject fx (info_of tbl) init tr 0, [], [])
  end.

Definition check_case (c : case) : bool :=
  let '(_, _, _, obs, xlog) := c in
  match model_final c with
  | Some s =>
      list_eqb oclass_eqb (map (fun r => class_of (lookup_out (out s) r)) (seq 0 (length obs))) obs
      && list_eqb Nat.eqb (log s) xlog
      && Nat.eqb (nxt s) (length obs)
  | None => false
  end.
