(* C01 — every RPC call completes exactly once.
   Statements are about every state reachable by [run fx info init ls] of the RPC pipeline model
   (Model.v): any number of caller threads (local and remote), any number of calls, every
   interleaving of the labels, every placement of object removal / context stop / connection loss,
   every request table [info] (which arguments/results can be pickled, what each body yields).
   fx = true is the repaired tree (what /repo contains now); fx = false the pinned tree. *)
Require Import QV.C01.Model QV.C01.ProofsBasic QV.C01.ProofsProgress.

(* a call never completes twice: a future never holds two outcomes *)
Theorem C01_at_most_once : forall fx info ls s,
  run fx info init ls = Some s -> NoDup (map fst (out s)).
Proof. exact at_most_once. Qed.
Print Assumptions C01_at_most_once.

(* ... and the outcome it holds is final: after any continuation it is still that outcome *)
Theorem C01_outcome_final : forall fx info ls1 ls2 s1 s2 r o,
  run fx info init ls1 = Some s1 -> run fx info s1 ls2 = Some s2 ->
  In (r, o) (out s1) -> In (r, o) (out s2) /\ forall o', In (r, o') (out s2) -> o' = o.
Proof. exact outcome_final. Qed.
Print Assumptions C01_outcome_final.

(* a call never receives another call's outcome: what it gets is what ITS request yields
   (value, exception or "locked"), or a delivery error *)
Theorem C01_own_outcome : forall fx info ls s r o,
  run fx info init ls = Some s -> In (r, o) (out s) -> o = body (info r) \/ o = ODeliveryError.
Proof. exact own_outcome. Qed.
Print Assumptions C01_own_outcome.


(* ---- no call waits forever (repaired tree) -------------------------------------------------------- *)

(* every issued call is accounted for: it holds an outcome, or its request / reply sits in one of the
   pipeline stages, or it is in the client connection's pending table (which the closing of the
   connection turns into a delivery error); plus the relations between the lifecycle flags *)
Theorem C01_accounted : forall fx info ls s, run fx info init ls = Some s -> AccInv fx info s.
Proof. exact reachable_acc. Qed.
Print Assumptions C01_accounted.

(* in every reachable state in which some issued call has no outcome yet, a step that continues
   work already begun is enabled ([progress_labels]: the pipeline steps with every possible observed
   outcome, the closing of a connection whose peer entry is gone, end-of-stream, the sweep at the end
   of the client's stop(), and — once the server's router has been switched off — the removal of
   its peer entries, i.e. the continuation of MessageRouter.stop).  No new call and no new fault is
   needed for progress. *)
Theorem C01_no_stuck : forall fx info ls s r,
  fx = true -> run fx info init ls = Some s -> r < nxt s -> has_out s r = false ->
  exists l, In l (progress_labels s) /\ step fx info s l <> None.
Proof. exact no_stuck. Qed.
Print Assumptions C01_no_stuck.

(* ... and such continuation steps cannot go on forever: each strictly decreases [measure].  Together:
   from any reachable state, after at most [measure s] continuation steps every call issued so far
   holds its outcome — no call waits forever. *)
Theorem C01_progress_terminates : forall fx info s l s',
  In l (progress_labels s) -> step fx info s l = Some s' -> measure s' < measure s.
Proof. exact progress_decreases. Qed.
Print Assumptions C01_progress_terminates.

(* The pinned tree (fx = false) loses calls: a remote call whose argument cannot be pickled ends up
   nowhere — no outcome, not in any queue, not in the pending table — so its caller waits forever.
   (Reproduced on the real code; repaired by a fix: commit.) *)
Theorem C01_no_call_lost_refuted :
  exists info ls s,
    run false info init ls = Some s /\ has_out s 0 = false /\
    handoff s = [] /\ sockq s = [] /\ c2s s = [] /\ pend s = [] /\ fifo s = [] /\ cur s = None /\
    replying s = None /\ srvq s = [] /\ s2c s = [].
Proof.
  exists (fun _ => mkInfo true 0 false true (OValue 0)).
  exists [LIssue 0 true; LHandoff 0 true; LSockSend 0 false].
  eexists. split; [vm_compute; reflexivity|]. vm_compute. repeat split.
Qed.
Print Assumptions C01_no_call_lost_refuted.

(* same input on the repaired tree: the call fails at once with a delivery error *)
Example C01_unpicklable_argument_fixed :
  option_map out (run true (fun _ => mkInfo true 0 false true (OValue 0)) init
                      [LIssue 0 true; LHandoff 0 true; LSockSend 0 false]) = Some [(0, ODeliveryError)].
Proof. vm_compute. reflexivity. Qed.

(* Non-vacuity: a remote call racing with removal of the object is answered by the error reply
   of the worker's reject loop, delivered over the wire. *)
Example C01_example_reject :
  option_map out (run true (fun _ => mkInfo true 0 true true (OValue 7)) init
    [LIssue 0 true; LHandoff 0 true; LSockSend 0 true; LNetC2S 0 true; LUnregister; LStopFlag; LShutdown;
     LReject true; LWorkerExit; LSrvSend 0 Sent; LNetS2C 0]) = Some [(0, ODeliveryError)].
Proof. vm_compute. reflexivity. Qed.
