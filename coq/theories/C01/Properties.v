(* C01 — every RPC call completes exactly once.
   Statements are about every state reachable by [run fx info init ls] of the RPC pipeline model
   (Model.v): any number of caller threads (local and remote), any number of calls, every
   interleaving of the labels, every placement of object removal / context stop / connection loss,
   every request table [info] (which arguments/results can be pickled, what each body yields).
   fx = true is the repaired tree (what /repo contains now); fx = false the pinned tree. *)
Require Import QV.C01.Model QV.C01.ProofsBasic.

(* a call never completes twice: a future never holds two outcomes *)
Theorem C01_at_most_once : forall fx info ls s,
  run fx info init ls = Some s -> NoDup (map fst (out s)).
Proof. exact at_most_once. Qed.
Print Assumptions C01_at_most_once.

(* ... and the outcome it holds is final: after any continuation it is still that outcome *)
Theorem C01_outcome_final : forall fx info ls1 ls2 s1 s2 r o,
  run fx info init ls1 = Some s1 -> run fx info s1 ls2 = Some s2 ->
  In (r, o) (out s1) -> In (r, o) (out s2) /\ forall o', In (r, o') (out s2) -> o' = o.
Proof. exact outcome_final. Qed.
Print Assumptions C01_outcome_final.

(* a call never receives another call's outcome: what it gets is what ITS request yields
   (value, exception or "locked"), or a delivery error *)
Theorem C01_own_outcome : forall fx info ls s r o,
  run fx info init ls = Some s -> In (r, o) (out s) -> o = body (info r) \/ o = ODeliveryError.
Proof. exact own_outcome. Qed.
Print Assumptions C01_own_outcome.

(* The pinned tree (fx = false) loses calls: a remote call whose argument cannot be pickled ends up
   nowhere — no outcome, not in any queue, not in the pending table — so its caller waits forever.
   (Reproduced on the real code; repaired by a fix: commit.) *)
Theorem C01_no_call_lost_refuted :
  exists info ls s,
    run false info init ls = Some s /\ has_out s 0 = false /\
    handoff s = [] /\ sockq s = [] /\ c2s s = [] /\ pend s = [] /\ fifo s = [] /\ cur s = None /\
    replying s = None /\ srvq s = [] /\ s2c s = [].
Proof.
  exists (fun _ => mkInfo true 0 false true (OValue 0)).
  exists [LIssue 0 true; LHandoff 0 true; LSockSend 0 false].
  eexists. split; [vm_compute; reflexivity|]. vm_compute. repeat split.
Qed.
Print Assumptions C01_no_call_lost_refuted.

(* same input on the repaired tree: the call fails at once with a delivery error *)
Example C01_unpicklable_argument_fixed :
  option_map out (run true (fun _ => mkInfo true 0 false true (OValue 0)) init
                      [LIssue 0 true; LHandoff 0 true; LSockSend 0 false]) = Some [(0, ODeliveryError)].
Proof. vm_compute. reflexivity. Qed.

(* Non-vacuity: a remote call racing with removal of the object is answered by the error reply
   of the worker's reject loop, delivered over the wire. *)
Example C01_example_reject :
  option_map out (run true (fun _ => mkInfo true 0 true true (OValue 7)) init
    [LIssue 0 true; LHandoff 0 true; LSockSend 0 true; LNetC2S 0 true; LUnregister; LStopFlag; LShutdown;
     LReject true; LWorkerExit; LSrvSend 0 Sent; LNetS2C 0]) = Some [(0, ODeliveryError)].
Proof. vm_compute. reflexivity. Qed.
