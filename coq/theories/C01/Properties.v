(* C01 — property theorems (being rebuilt after the model revision). *)
Require Import QV.C01.Model.
