(* C01/C02/C03 — the RPC call pipeline of one target object: executable transition system.
   Transcribes (one label = one region of the real code that is atomic under a lock or runs on
   one thread):
     qmi/core/rpc.py        QMI_RpcFuture.__init__/send_*_request_message/handle_message/_set_result,
                            RpcObjectManager.handle_message/stop, _RpcThread.run/_reject_remaining_requests
     qmi/core/messaging.py  MessageRouter.send_message/deliver_message/stop,
                            _EventDrivenThread.run_in_thread_arg, _SocketManager.send_message/close_all,
                            _PeerTcpConnection.send_message/_process_message/close/_clear_pending_requests
     qmi/core/context.py    QMI_Context.remove_rpc_object/stop
   Scope: one RPC object in a server context; any number of caller threads in the server context
   (local calls) and in ONE client context connected over one TCP connection (remote calls); any
   number of calls.  Requests are numbered in issue order (rid = 0,1,2,...).  What a request is
   (caller thread, local/remote, whether its arguments / its result can be serialised, what the
   method body yields) is given by [info], an arbitrary function.
   [fx] selects the repaired behaviour at the three places where the pinned tree lost a call
   (unserialisable request, unserialisable reply, request handed to a stopped socket thread);
   fx = false is the faithful transcription of the pinned tree, used for the _refuted theorems. *)
From Coq Require Export List Arith Bool Lia.
Export ListNotations.

Inductive outcome := OValue (v : nat) | OExc (e : nat) | OLocked | ODeliveryError.

Record rinfo := mkInfo {
  remote : bool;          (* issued in the client context (true) or in the object's own context *)
  caller : nat;           (* calling thread *)
  ser_req : bool;         (* request (arguments) can be pickled *)
  ser_res : bool;         (* reply (result / exception) can be pickled *)
  body : outcome          (* what executing the request yields: value, exception, or locked *)
}.

Inductive wphase := Serving | Gone.

Record state := mkSt {
  nxt : nat;                          (* number of calls issued so far *)
  out : list (nat * outcome);         (* futures that hold an outcome *)
  handoff : list nat;                 (* passed the router checks, run_in_thread_arg not yet called *)
  sockq : list nat;                   (* in the client event loop's callback queue *)
  lost : list nat;                    (* handed to a socket thread that will never run them *)
  c2s : list nat;                     (* request frames in flight client -> server *)
  pend : list nat;                    (* client connection's pending-request table *)
  fifo : list nat;                    (* the object's request queue *)
  cur : option nat;                   (* popped by the worker, not yet executed *)
  replying : option (nat * outcome);  (* executed, reply not yet sent *)
  srvq : list (nat * outcome);        (* replies in the server event loop's callback queue *)
  s2c : list (nat * outcome);         (* reply frames in flight server -> client *)
  log : list nat;                     (* execution log (method body entered) *)
  registered : bool; running : bool; shutdown : bool; phase : wphase;
  srv_router : bool; srv_peer : bool; srv_open : bool; srv_loop : bool;
  cli_router : bool; cli_peer : bool; cli_open : bool; cli_loop : bool; swept : bool
}.

Definition init : state :=
  mkSt 0 [] [] [] [] [] [] [] None None [] [] [] true true false Serving true true true true true true true true false.

Inductive sendres := Sent | SentError | Dropped.

(* Labels carry what the real code was observed to do at that step (accepted / refused, sent /
   dropped); the guards of [step] say in which states each observation is possible. *)
Inductive label :=
| LIssue (r : nat) (ok : bool) | LHandoff (r : nat) (ok : bool) | LSockSend (r : nat) (ok : bool)
| LNetC2S (r : nat) (ok : bool)
| LPop | LExec | LReply (ok : bool) | LReject (ok : bool)
| LSrvSend (r : nat) (res : sendres) | LNetS2C (r : nat)
| LUnregister | LStopFlag | LShutdown | LWorkerExit
| LSrvPeerGone | LSrvClose | LCliPeerGone | LCliClose | LCliEof | LSrvEof
| LSrvRouterOff | LSrvLoopStop | LCliRouterOff | LCliLoopStop | LCliSweep.

(* ---- small helpers -------------------------------------------------------------------------- *)
Definition has_out (s : state) (r : nat) : bool := existsb (fun p => Nat.eqb (fst p) r) (out s).
Definition set_out (o : list (nat * outcome)) (r : nat) (x : outcome) : list (nat * outcome) :=
  if existsb (fun p => Nat.eqb (fst p) r) o then o else o ++ [(r, x)].      (* _set_result keeps the first *)
Fixpoint set_out_all (o : list (nat * outcome)) (rs : list nat) (x : outcome) :=
  match rs with [] => o | r :: t => set_out_all (set_out o r x) t x end.
Fixpoint remove_nat (r : nat) (l : list nat) : list nat :=
  match l with [] => [] | x :: t => if Nat.eqb x r then t else x :: remove_nat r t end.
Definition mem_nat (r : nat) (l : list nat) : bool := existsb (Nat.eqb r) l.
Definition opt_list {A} (o : option A) : list A := match o with Some a => [a] | None => [] end.

Section Step.
  Variable fx : bool.
  Variable info : nat -> rinfo.

  Definition with_out s v := mkSt (nxt s) v (handoff s) (sockq s) (lost s) (c2s s) (pend s) (fifo s) (cur s)
    (replying s) (srvq s) (s2c s) (log s) (registered s) (running s) (shutdown s) (phase s) (srv_router s)
    (srv_peer s) (srv_open s) (srv_loop s) (cli_router s) (cli_peer s) (cli_open s) (cli_loop s) (swept s).
  Definition with_handoff s v := mkSt (nxt s) (out s) v (sockq s) (lost s) (c2s s) (pend s) (fifo s) (cur s)
    (replying s) (srvq s) (s2c s) (log s) (registered s) (running s) (shutdown s) (phase s) (srv_router s)
    (srv_peer s) (srv_open s) (srv_loop s) (cli_router s) (cli_peer s) (cli_open s) (cli_loop s) (swept s).
  Definition with_sockq s v := mkSt (nxt s) (out s) (handoff s) v (lost s) (c2s s) (pend s) (fifo s) (cur s)
    (replying s) (srvq s) (s2c s) (log s) (registered s) (running s) (shutdown s) (phase s) (srv_router s)
    (srv_peer s) (srv_open s) (srv_loop s) (cli_router s) (cli_peer s) (cli_open s) (cli_loop s) (swept s).
  Definition with_lost s v := mkSt (nxt s) (out s) (handoff s) (sockq s) v (c2s s) (pend s) (fifo s) (cur s)
    (replying s) (srvq s) (s2c s) (log s) (registered s) (running s) (shutdown s) (phase s) (srv_router s)
    (srv_peer s) (srv_open s) (srv_loop s) (cli_router s) (cli_peer s) (cli_open s) (cli_loop s) (swept s).
  Definition with_c2s s v := mkSt (nxt s) (out s) (handoff s) (sockq s) (lost s) v (pend s) (fifo s) (cur s)
    (replying s) (srvq s) (s2c s) (log s) (registered s) (running s) (shutdown s) (phase s) (srv_router s)
    (srv_peer s) (srv_open s) (srv_loop s) (cli_router s) (cli_peer s) (cli_open s) (cli_loop s) (swept s).
  Definition with_pend s v := mkSt (nxt s) (out s) (handoff s) (sockq s) (lost s) (c2s s) v (fifo s) (cur s)
    (replying s) (srvq s) (s2c s) (log s) (registered s) (running s) (shutdown s) (phase s) (srv_router s)
    (srv_peer s) (srv_open s) (srv_loop s) (cli_router s) (cli_peer s) (cli_open s) (cli_loop s) (swept s).
  Definition with_fifo s v := mkSt (nxt s) (out s) (handoff s) (sockq s) (lost s) (c2s s) (pend s) v (cur s)
    (replying s) (srvq s) (s2c s) (log s) (registered s) (running s) (shutdown s) (phase s) (srv_router s)
    (srv_peer s) (srv_open s) (srv_loop s) (cli_router s) (cli_peer s) (cli_open s) (cli_loop s) (swept s).
  Definition with_cur s v := mkSt (nxt s) (out s) (handoff s) (sockq s) (lost s) (c2s s) (pend s) (fifo s) v
    (replying s) (srvq s) (s2c s) (log s) (registered s) (running s) (shutdown s) (phase s) (srv_router s)
    (srv_peer s) (srv_open s) (srv_loop s) (cli_router s) (cli_peer s) (cli_open s) (cli_loop s) (swept s).
  Definition with_replying s v := mkSt (nxt s) (out s) (handoff s) (sockq s) (lost s) (c2s s) (pend s) (fifo s) (cur s)
    v (srvq s) (s2c s) (log s) (registered s) (running s) (shutdown s) (phase s) (srv_router s)
    (srv_peer s) (srv_open s) (srv_loop s) (cli_router s) (cli_peer s) (cli_open s) (cli_loop s) (swept s).
  Definition with_srvq s v := mkSt (nxt s) (out s) (handoff s) (sockq s) (lost s) (c2s s) (pend s) (fifo s) (cur s)
    (replying s) v (s2c s) (log s) (registered s) (running s) (shutdown s) (phase s) (srv_router s)
    (srv_peer s) (srv_open s) (srv_loop s) (cli_router s) (cli_peer s) (cli_open s) (cli_loop s) (swept s).
  Definition with_s2c s v := mkSt (nxt s) (out s) (handoff s) (sockq s) (lost s) (c2s s) (pend s) (fifo s) (cur s)
    (replying s) (srvq s) v (log s) (registered s) (running s) (shutdown s) (phase s) (srv_router s)
    (srv_peer s) (srv_open s) (srv_loop s) (cli_router s) (cli_peer s) (cli_open s) (cli_loop s) (swept s).
  Definition with_log s v := mkSt (nxt s) (out s) (handoff s) (sockq s) (lost s) (c2s s) (pend s) (fifo s) (cur s)
    (replying s) (srvq s) (s2c s) v (registered s) (running s) (shutdown s) (phase s) (srv_router s)
    (srv_peer s) (srv_open s) (srv_loop s) (cli_router s) (cli_peer s) (cli_open s) (cli_loop s) (swept s).
  Definition with_nxt s v := mkSt v (out s) (handoff s) (sockq s) (lost s) (c2s s) (pend s) (fifo s) (cur s)
    (replying s) (srvq s) (s2c s) (log s) (registered s) (running s) (shutdown s) (phase s) (srv_router s)
    (srv_peer s) (srv_open s) (srv_loop s) (cli_router s) (cli_peer s) (cli_open s) (cli_loop s) (swept s).
  Definition with_obj s rg rn sh ph :=
    mkSt (nxt s) (out s) (handoff s) (sockq s) (lost s) (c2s s) (pend s) (fifo s) (cur s)
    (replying s) (srvq s) (s2c s) (log s) rg rn sh ph (srv_router s) (srv_peer s) (srv_open s) (srv_loop s)
    (cli_router s) (cli_peer s) (cli_open s) (cli_loop s) (swept s).
  Definition with_srv s sr sp so sl :=
    mkSt (nxt s) (out s) (handoff s) (sockq s) (lost s) (c2s s) (pend s) (fifo s) (cur s)
    (replying s) (srvq s) (s2c s) (log s) (registered s) (running s) (shutdown s) (phase s) sr sp so sl
    (cli_router s) (cli_peer s) (cli_open s) (cli_loop s) (swept s).
  Definition with_cli s cr cp co cl sw :=
    mkSt (nxt s) (out s) (handoff s) (sockq s) (lost s) (c2s s) (pend s) (fifo s) (cur s)
    (replying s) (srvq s) (s2c s) (log s) (registered s) (running s) (shutdown s) (phase s)
    (srv_router s) (srv_peer s) (srv_open s) (srv_loop s) cr cp co cl sw.

  Definition fail (s : state) (r : nat) : state := with_out s (set_out (out s) r ODeliveryError).

  (* can the reply (r, o) be pickled?  error replies and "locked" replies always can *)
  Definition picklable (r : nat) (o : outcome) : bool :=
    match o with ODeliveryError | OLocked => true | _ => ser_res (info r) end.

  Definition srv_can_send (s : state) : bool := srv_router s && srv_peer s && srv_loop s.

  (* the worker sends a reply (normal, or the error reply of _reject_remaining_requests) *)
  Definition send_reply (s : state) (r : nat) (o : outcome) (ok : bool) : option state :=
    if remote (info r) then
      if ok then (if srv_can_send s then Some (with_srvq s (srvq s ++ [(r, o)])) else None)
      else (if srv_can_send s then None else Some s)      (* router inactive / peer gone: logged and dropped *)
    else Some (with_out s (set_out (out s) r o)).          (* local delivery to the future *)

  Definition step (s : state) (l : label) : option state :=
    match l with
    | LIssue r ok =>
        if Nat.eqb r (nxt s) && forallb (fun x => negb (Nat.eqb (caller (info x)) (caller (info r)))) (handoff s) then
          let s := with_nxt s (S (nxt s)) in
          if remote (info r) then
            if ok then (if cli_router s && cli_peer s then Some (with_handoff s (handoff s ++ [r])) else None)
            else (if cli_router s && cli_peer s then None else Some (fail s r))
          else
            if ok then (if running s then Some (with_fifo s (fifo s ++ [r])) else None)
            else (if registered s && running s then None else Some (fail s r))
        else None
    | LHandoff r ok =>
        if mem_nat r (handoff s) && Bool.eqb ok (cli_loop s) then
          let s := with_handoff s (remove_nat r (handoff s)) in
          if ok then Some (with_sockq s (sockq s ++ [r])) else Some (with_lost s (lost s ++ [r]))
        else None
    | LSockSend r ok =>
        match sockq s with
        | x :: rest =>
            if Nat.eqb x r && cli_loop s then
              let s := with_sockq s rest in
              let can := cli_peer s && ser_req (info r) && srv_open s in
              if ok then (if can then Some (with_pend (with_c2s s (c2s s ++ [r])) (pend s ++ [r])) else None)
              else if can then None
              else if negb fx && cli_peer s && negb (ser_req (info r)) then Some (with_lost s (lost s ++ [r]))
              else Some (fail s r)
            else None
        | [] => None
        end
    | LNetC2S r ok =>
        match c2s s with
        | x :: rest =>
            if Nat.eqb x r && srv_open s then
              let s := with_c2s s rest in
              if ok then (if running s then Some (with_fifo s (fifo s ++ [r])) else None)
              else if registered s && running s then None
              else if cli_open s then Some (with_s2c s (s2c s ++ [(r, ODeliveryError)]))    (* send_error_reply *)
              else Some s
            else None
        | [] => None
        end
    | LPop =>
        match phase s, cur s, replying s, fifo s with
        | Serving, None, None, r :: rest =>
            if shutdown s then None else Some (with_cur (with_fifo s rest) (Some r))
        | _, _, _, _ => None
        end
    | LExec =>
        match cur s with
        | Some r => Some (with_replying (with_cur (with_log s (log s ++ [r])) None) (Some (r, body (info r))))
        | None => None
        end
    | LReply ok =>
        match replying s with
        | Some (r, o) => send_reply (with_replying s None) r o ok
        | None => None
        end
    | LReject ok =>
        match phase s, cur s, replying s, fifo s with
        | Serving, None, None, r :: rest =>
            if shutdown s then send_reply (with_fifo s rest) r ODeliveryError ok else None
        | _, _, _, _ => None
        end
    | LSrvSend r res =>
        match srvq s with
        | (x, o) :: rest =>
            if Nat.eqb x r && srv_loop s then
              let s := with_srvq s rest in
              let link := srv_peer s && cli_open s in
              match res with
              | Sent => if link && picklable r o then Some (with_s2c s (s2c s ++ [(r, o)])) else None
              | SentError => if link && negb (picklable r o) && fx
                             then Some (with_s2c s (s2c s ++ [(r, ODeliveryError)])) else None
              | Dropped => if link && (picklable r o || fx) then None else Some s
              end
            else None
        | [] => None
        end
    | LNetS2C r =>
        match s2c s with
        | (x, o) :: rest =>
            if Nat.eqb x r && cli_open s then
              let s := with_s2c s rest in
              Some (with_out (with_pend s (remove_nat r (pend s))) (set_out (out s) r o))
            else None
        | [] => None
        end
    | LUnregister => Some (with_obj s false (running s) (shutdown s) (phase s))
    | LStopFlag => Some (with_obj s (registered s) false (shutdown s) (phase s))
    | LShutdown => if running s then None else Some (with_obj s (registered s) (running s) true (phase s))
    | LWorkerExit =>
        match phase s, cur s, replying s, fifo s with
        | Serving, None, None, [] =>
            if shutdown s then Some (with_obj s (registered s) (running s) (shutdown s) Gone) else None
        | _, _, _, _ => None
        end
    | LSrvPeerGone => if srv_peer s then Some (with_srv s (srv_router s) false (srv_open s) (srv_loop s)) else None
    | LSrvClose =>
        if srv_open s && negb (srv_peer s) then
          Some (with_c2s (with_srv s (srv_router s) (srv_peer s) false (srv_loop s)) [])
        else None
    | LCliPeerGone =>
        if cli_peer s then Some (with_cli s (cli_router s) false (cli_open s) (cli_loop s) (swept s)) else None
    | LCliClose =>
        if cli_open s && negb (cli_peer s) then
          Some (with_s2c (with_pend (with_out (with_cli s (cli_router s) (cli_peer s) false (cli_loop s) (swept s))
                                              (set_out_all (out s) (pend s) ODeliveryError)) []) [])
        else None
    | LCliEof =>
        (* the client reads end-of-stream: it drops the peer and closes in one go *)
        match s2c s with
        | [] => if cli_open s && negb (srv_open s) then
                  Some (with_pend (with_out (with_cli s (cli_router s) false false (cli_loop s) (swept s))
                                            (set_out_all (out s) (pend s) ODeliveryError)) [])
                else None
        | _ => None
        end
    | LSrvEof =>
        match c2s s with
        | [] => if srv_open s && negb (cli_open s) then
                  Some (with_srv s (srv_router s) false false (srv_loop s))
                else None
        | _ => None
        end
    | LSrvRouterOff =>
        if srv_router s then Some (with_srv s false (srv_peer s) (srv_open s) (srv_loop s)) else None
    | LSrvLoopStop =>
        if srv_loop s && negb (srv_router s) && negb (srv_open s) then
          Some (with_srvq (with_srv s (srv_router s) (srv_peer s) (srv_open s) false) [])
        else None
    | LCliRouterOff =>
        if cli_router s then Some (with_cli s false (cli_peer s) (cli_open s) (cli_loop s) (swept s)) else None
    | LCliLoopStop =>
        if cli_loop s && negb (cli_router s) && negb (cli_open s) then
          Some (with_lost (with_sockq (with_cli s (cli_router s) (cli_peer s) (cli_open s) false (swept s)) [])
                          (lost s ++ sockq s))
        else None
    | LCliSweep =>
        (* end of QMI_Context.stop() of the client (repaired tree): every future of that context
           that still has no result gets a delivery error *)
        if fx && negb (cli_loop s) && negb (swept s) then
          Some (with_lost (with_out (with_cli s (cli_router s) (cli_peer s) (cli_open s) (cli_loop s) true)
                                    (set_out_all (out s) (lost s ++ handoff s) ODeliveryError)) [])
        else None
    end.

  Fixpoint run (s : state) (ls : list label) : option state :=
    match ls with
    | [] => Some s
    | l :: r => match step s l with Some s' => run s' r | None => None end
    end.
End Step.
