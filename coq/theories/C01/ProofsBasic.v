(* C01 — basic invariants: single assignment, own outcome. *)
Require Import QV.C01.Model.

Ltac break_step H :=
  repeat match type of H with
         | context [if ?b then _ else _] => destruct b eqn:?
         | context [match ?x with _ => _ end] => destruct x eqn:?
         end;
  try discriminate H;
  try match type of H with Some _ = Some _ => inversion H; subst; clear H end.

Ltac step_cases H :=
  match type of H with step _ _ _ ?l = _ => destruct l end; cbn [step] in H; unfold send_reply in H; break_step H.

(* ---- set_out ---------------------------------------------------------------------------------- *)
Definition keys (o : list (nat * outcome)) : list nat := map fst o.

Lemma existsb_key o r : existsb (fun p : nat * outcome => Nat.eqb (fst p) r) o = true <-> In r (keys o).
Proof.
  unfold keys. rewrite existsb_exists. split.
  - intros [[k v] [Hin E]]. apply Nat.eqb_eq in E. simpl in E. subst. apply in_map_iff. exists (r, v). auto.
  - intro H. apply in_map_iff in H as [[k v] [E Hin]]. simpl in E. subst. exists (r, v). split; auto.
    simpl. apply Nat.eqb_refl.
Qed.

Lemma NoDup_snoc {A} (l : list A) (x : A) : NoDup l -> ~ In x l -> NoDup (l ++ [x]).
Proof.
  induction l as [|a l IH]; simpl; intros Hn Hx.
  - constructor; [intros []|constructor].
  - inversion Hn; subst. constructor.
    + intro Hin. apply in_app_or in Hin as [Hin|[E|[]]]; [contradiction|subst]. apply Hx. left; reflexivity.
    + apply IH; [assumption|]. intro; apply Hx; right; assumption.
Qed.

Lemma set_out_keys_nodup o r x : NoDup (keys o) -> NoDup (keys (set_out o r x)).
Proof.
  intro H. unfold set_out. destruct (existsb _ o) eqn:E; [exact H|].
  unfold keys. rewrite map_app. simpl. apply NoDup_snoc; [exact H|].
  intro Hin. apply existsb_key in Hin. congruence.
Qed.

Lemma set_out_all_keys_nodup rs : forall o x, NoDup (keys o) -> NoDup (keys (set_out_all o rs x)).
Proof. induction rs as [|r rs IH]; simpl; intros; [assumption|]. apply IH. apply set_out_keys_nodup; assumption. Qed.

(* entries are never changed or removed: single assignment *)
Lemma set_out_incl o r x p : In p o -> In p (set_out o r x).
Proof. unfold set_out. destruct (existsb _ o); [auto|]. intro. apply in_or_app; left; assumption. Qed.
Lemma set_out_all_incl rs : forall o x p, In p o -> In p (set_out_all o rs x).
Proof. induction rs as [|r rs IH]; simpl; intros; [assumption|]. apply IH. apply set_out_incl; assumption. Qed.

Lemma set_out_new o r x p : In p (set_out o r x) -> In p o \/ p = (r, x).
Proof.
  unfold set_out. destruct (existsb _ o); [auto|]. intro H. apply in_app_or in H as [H|[H|[]]]; auto.
Qed.
Lemma set_out_all_new rs : forall o x p, In p (set_out_all o rs x) -> In p o \/ (In (fst p) rs /\ snd p = x).
Proof.
  induction rs as [|r rs IH]; simpl; intros o x p H; [auto|].
  apply IH in H as [H|[H1 H2]]; [|right; auto].
  apply set_out_new in H as [H|H]; [auto|]. subst. right. simpl. auto.
Qed.

Section Basic.
  Variable fx : bool.
  Variable info : nat -> rinfo.

  (* (A) a future never holds two outcomes, and an outcome once set is never changed *)
  Ltac unfold_reply := idtac.

  Lemma step_out_nodup s l s' : step fx info s l = Some s' -> NoDup (keys (out s)) -> NoDup (keys (out s')).
  Proof.
    intros H N. step_cases H; unfold_reply; unfold fail in *; simpl in *;
      auto using set_out_keys_nodup, set_out_all_keys_nodup.
  Qed.

  Lemma step_out_mono s l s' p : step fx info s l = Some s' -> In p (out s) -> In p (out s').
  Proof.
    intros H N. step_cases H; unfold_reply; unfold fail in *; simpl in *;
      auto using set_out_incl, set_out_all_incl.
  Qed.

  (* (B) own outcome: everything that carries an outcome for r carries body r or a delivery error *)
  Definition own (p : nat * outcome) : Prop := snd p = body (info (fst p)) \/ snd p = ODeliveryError.

  Record OwnInv (s : state) : Prop := {
    own_out : Forall own (out s);
    own_srvq : Forall own (srvq s);
    own_s2c : Forall own (s2c s);
    own_rep : Forall own (opt_list (replying s)) }.

  Lemma Forall_snoc {A} (P : A -> Prop) l x : Forall P l -> P x -> Forall P (l ++ [x]).
  Proof. intros. apply Forall_app; split; auto. Qed.

  Lemma own_set_out o r x : Forall own o -> own (r, x) -> Forall own (set_out o r x).
  Proof. intros H Hx. unfold set_out. destruct (existsb _ o); [auto|]. apply Forall_snoc; auto. Qed.
  Lemma own_set_out_all rs : forall o, Forall own o -> Forall own (set_out_all o rs ODeliveryError).
  Proof.
    induction rs as [|r rs IH]; simpl; intros; [assumption|]. apply IH. apply own_set_out; [assumption|].
    right; reflexivity.
  Qed.

  Lemma init_own : OwnInv init.
  Proof. constructor; simpl; constructor. Qed.

  Lemma Forall_tail {A} (P : A -> Prop) x l : Forall P (x :: l) -> Forall P l.
  Proof. intro H; inversion H; assumption. Qed.
  Lemma Forall_head {A} (P : A -> Prop) x l : Forall P (x :: l) -> P x.
  Proof. intro H; inversion H; assumption. Qed.

  Ltac own_goal :=
    match goal with
    | |- own _ => first [assumption | left; reflexivity | right; reflexivity]
    | |- Forall own (set_out _ _ _) => apply own_set_out; own_goal
    | |- Forall own (set_out_all _ _ _) => apply own_set_out_all; own_goal
    | |- Forall own (_ ++ [_]) => apply Forall_snoc; own_goal
    | |- Forall own [] => constructor
    | |- Forall own [_] => constructor; [own_goal | constructor]
    | |- Forall own _ => assumption
    end.

  Ltac norm_hyps :=
    repeat match goal with
           | E : (_ && _) = true |- _ => apply andb_true_iff in E; destruct E
           end;
    repeat match goal with
           | E : Nat.eqb _ _ = true |- _ => apply Nat.eqb_eq in E; subst
           end.

  Lemma step_own s l s' : step fx info s l = Some s' -> OwnInv s -> OwnInv s'.
  Proof.
    intros H [Ho Hq Hc Hr]. step_cases H; unfold_reply;
      unfold fail in *; simpl in *;
      norm_hyps;
      constructor; simpl;
      repeat match goal with
             | E : ?x = _ :: _ |- _ => rewrite E in *
             | E : ?x = Some _ |- _ => rewrite E in *
             | E : ?x = None |- _ => rewrite E in *
             | E : ?x = [] |- _ => rewrite E in *
             end;
      simpl in *;
      repeat match goal with
             | G : Forall own (_ :: _) |- _ => inversion G; subst; clear G
             end;
      own_goal.
  Qed.

  (* ---- every reachable state ------------------------------------------------------------------ *)
  Lemma run_out_nodup ls : forall s s', run fx info s ls = Some s' -> NoDup (keys (out s)) -> NoDup (keys (out s')).
  Proof.
    induction ls as [|l ls IH]; simpl; intros s s' H N; [inversion H; subst; exact N|].
    destruct (step fx info s l) as [s1|] eqn:E; [|discriminate]. eapply IH; [exact H|]. eapply step_out_nodup; eauto.
  Qed.

  Lemma run_out_mono ls : forall s s' p, run fx info s ls = Some s' -> In p (out s) -> In p (out s').
  Proof.
    induction ls as [|l ls IH]; simpl; intros s s' p H N; [inversion H; subst; exact N|].
    destruct (step fx info s l) as [s1|] eqn:E; [|discriminate]. eapply IH; [exact H|]. eapply step_out_mono; eauto.
  Qed.

  Lemma run_own ls : forall s s', run fx info s ls = Some s' -> OwnInv s -> OwnInv s'.
  Proof.
    induction ls as [|l ls IH]; simpl; intros s s' H N; [inversion H; subst; exact N|].
    destruct (step fx info s l) as [s1|] eqn:E; [|discriminate]. eapply IH; [exact H|]. eapply step_own; eauto.
  Qed.

  Lemma run_app ls1 : forall ls2 s, run fx info s (ls1 ++ ls2) =
    match run fx info s ls1 with Some s1 => run fx info s1 ls2 | None => None end.
  Proof.
    induction ls1 as [|l ls1 IH]; simpl; intros ls2 s; [reflexivity|].
    destruct (step fx info s l); [apply IH | reflexivity].
  Qed.

  (* a future never holds two outcomes *)
  Theorem at_most_once ls s : run fx info init ls = Some s -> NoDup (keys (out s)).
  Proof. intro H. eapply run_out_nodup; [exact H|]. simpl. constructor. Qed.

  (* an outcome, once stored, is never replaced: it is still there after any continuation *)
  Theorem outcome_final ls1 ls2 s1 s2 r o :
    run fx info init ls1 = Some s1 -> run fx info s1 ls2 = Some s2 ->
    In (r, o) (out s1) -> In (r, o) (out s2) /\ forall o', In (r, o') (out s2) -> o' = o.
  Proof.
    intros H1 H2 Hin. split; [eapply run_out_mono; eauto|].
    intros o' Hin'. assert (Hin2 : In (r, o) (out s2)) by (eapply run_out_mono; eauto).
    assert (N : NoDup (keys (out s2))).
    { apply (at_most_once (ls1 ++ ls2)). rewrite run_app, H1. exact H2. }
    clear -N Hin2 Hin'. unfold keys in N. induction (out s2) as [|[k v] l IH]; simpl in *; [contradiction|].
    inversion N as [|? ? Hk N']; subst.
    destruct Hin2 as [E|Hin2], Hin' as [E'|Hin'].
    - congruence.
    - inversion E; subst. exfalso. apply Hk. apply in_map_iff. exists (r, o'). auto.
    - inversion E'; subst. exfalso. apply Hk. apply in_map_iff. exists (r, o). auto.
    - auto.
  Qed.

  (* a call only ever receives the outcome of its own request, or a delivery error *)
  Theorem own_outcome ls s r o :
    run fx info init ls = Some s -> In (r, o) (out s) -> o = body (info r) \/ o = ODeliveryError.
  Proof.
    intros H Hin. pose proof (run_own ls init s H init_own) as [Ho _ _ _].
    rewrite Forall_forall in Ho. exact (Ho (r, o) Hin).
  Qed.
End Basic.
