(* C03 — execution order: per calling thread, requests are executed in issue order. *)
Require Import QV.C01.Model QV.C01.ProofsBasic.
From Coq Require Import Sorted.

(* ---- sublists ---------------------------------------------------------------------------------- *)
Inductive sub {A} : list A -> list A -> Prop :=
| sub_nil : sub [] []
| sub_skip : forall x l' l, sub l' l -> sub l' (x :: l)
| sub_keep : forall x l' l, sub l' l -> sub (x :: l') (x :: l).

Lemma sub_refl {A} (l : list A) : sub l l.
Proof. induction l; constructor; assumption. Qed.
Lemma sub_nil_l {A} (l : list A) : sub [] l.
Proof. induction l; constructor; assumption. Qed.
Lemma sub_app {A} (a a' b b' : list A) : sub a' a -> sub b' b -> sub (a' ++ b') (a ++ b).
Proof.
  intros S1 S2. induction S1; simpl; [exact S2 | apply sub_skip; exact IHS1 | apply sub_keep; exact IHS1].
Qed.
Lemma sub_In {A} (l' l : list A) x : sub l' l -> In x l' -> In x l.
Proof.
  induction 1 as [|y l' l S IH|y l' l S IH]; simpl; intro Hin.
  - exact Hin.
  - right. apply IH. exact Hin.
  - destruct Hin as [E|Hin]; [left; exact E | right; apply IH; exact Hin].
Qed.
Lemma sub_filter {A} (f : A -> bool) (l' l : list A) : sub l' l -> sub (filter f l') (filter f l).
Proof.
  induction 1 as [|x l' l S IH|x l' l S IH]; simpl.
  - constructor.
  - destruct (f x); [apply sub_skip|]; exact IH.
  - destruct (f x); [apply sub_keep|]; exact IH.
Qed.
Lemma sub_Forall {A} (P : A -> Prop) (l' l : list A) : sub l' l -> Forall P l -> Forall P l'.
Proof. intros S F. rewrite Forall_forall in *. intros x Hx. apply F. eapply sub_In; eauto. Qed.
Lemma sub_sorted (l' l : list nat) : sub l' l -> StronglySorted lt l -> StronglySorted lt l'.
Proof.
  induction 1 as [|y l' l S IH|y l' l S IH]; intro St.
  - exact St.
  - inversion St; subst. apply IH; assumption.
  - inversion St; subst. constructor; [apply IH; assumption|]. eapply sub_Forall; eauto.
Qed.
Lemma sub_tail {A} (x : A) l : sub l (x :: l).
Proof. constructor. apply sub_refl. Qed.
Lemma sub_remove r l : sub (remove_nat r l) l.
Proof. induction l as [|x l IH]; simpl; [constructor|]. destruct (Nat.eqb x r); [apply sub_tail | constructor; assumption]. Qed.
Lemma sub_NoDup {A} (l' l : list A) : sub l' l -> NoDup l -> NoDup l'.
Proof.
  induction 1 as [|y l' l S IH|y l' l S IH]; intro N.
  - exact N.
  - inversion N; subst. apply IH; assumption.
  - inversion N; subst. constructor; [|apply IH; assumption].
    intro Hin. eapply sub_In in Hin; eauto.
Qed.
Lemma sub_map {A B} (f : A -> B) (l' l : list A) : sub l' l -> sub (map f l') (map f l).
Proof. induction 1; simpl; [constructor | apply sub_skip; assumption | apply sub_keep; assumption]. Qed.

Lemma sorted_snoc (l : list nat) (x : nat) :
  StronglySorted lt l -> Forall (fun y => y < x) l -> StronglySorted lt (l ++ [x]).
Proof.
  induction l as [|a l IH]; simpl; intros S F; [repeat constructor|].
  inversion S; subst. inversion F; subst. constructor; auto.
  apply Forall_app; split; auto.
Qed.

Section Order.
  Variable fx : bool.
  Variable info : nat -> rinfo.
  (* a calling thread lives in one context *)
  Hypothesis caller_side : forall a b, caller (info a) = caller (info b) -> remote (info a) = remote (info b).

  Definition fk (k : nat) (r : nat) : bool := Nat.eqb (caller (info r)) k.
  Definition cliside (s : state) : list nat := c2s s ++ sockq s ++ handoff s.
  Definition pipeline (s : state) : list nat := log s ++ opt_list (cur s) ++ fifo s ++ cliside s.

  Record OrdInv (s : state) : Prop := {
    o_lt : Forall (fun x => x < nxt s) (pipeline s);
    o_sorted : forall k, StronglySorted lt (filter (fk k) (pipeline s));
    o_remote : Forall (fun x => remote (info x) = true) (cliside s);
    o_handoff : NoDup (map (fun x => caller (info x)) (handoff s)) }.

  Lemma init_ord : OrdInv init.
  Proof. constructor; simpl; intros; constructor. Qed.

  (* generic: the pipeline only loses elements (or stays the same sequence) *)
  Lemma ord_sub s s' :
    nxt s <= nxt s' -> sub (pipeline s') (pipeline s) -> sub (cliside s') (cliside s) ->
    sub (handoff s') (handoff s) -> OrdInv s -> OrdInv s'.
  Proof.
    intros Hn SP S2 S3 [Hl Hs Hr Hh]. constructor.
    - eapply Forall_impl; [|eapply sub_Forall; eauto]. simpl; intros; lia.
    - intro k. eapply sub_sorted; [apply sub_filter; exact SP | apply Hs].
    - eapply sub_Forall; eauto.
    - eapply sub_NoDup; [apply sub_map; exact S3 | exact Hh].
  Qed.

  Lemma sub_eq {A} (a b : list A) : a = b -> sub a b.
  Proof. intros ->. apply sub_refl. Qed.

  Lemma filter_none k l : Forall (fun x => fk k x = false) l -> filter (fk k) l = [].
  Proof. induction 1 as [|x l Hx Hl IH]; simpl; auto. rewrite Hx. assumption. Qed.

  Lemma handoff_split k r l :
    NoDup (map (fun x => caller (info x)) l) -> In r l ->
    filter (fk k) l = (if fk k r then [r] else []) ++ filter (fk k) (remove_nat r l)
    /\ (fk k r = true -> filter (fk k) (remove_nat r l) = []).
  Proof.
    induction l as [|x l IH]; simpl; intros N Hin; [contradiction|].
    inversion N as [|? ? Hx N']; subst.
    destruct (Nat.eqb_spec x r) as [E|E].
    - subst. split; [destruct (fk k r); reflexivity|].
      intro Kr. apply filter_none. rewrite Forall_forall. intros y Hy.
      unfold fk in *. apply Nat.eqb_eq in Kr. apply Nat.eqb_neq. intro Ky.
      apply Hx. apply in_map_iff. exists y. split; [congruence|assumption].
    - destruct Hin as [Hin|Hin]; [congruence|]. simpl.
      destruct (IH N' Hin) as [IH1 IH2].
      destruct (fk k x) eqn:Ex.
      + assert (Kr : fk k r = false).
        { unfold fk in *. apply Nat.eqb_eq in Ex. apply Nat.eqb_neq. intro Er.
          apply Hx. apply in_map_iff. exists r. split; [congruence | assumption]. }
        rewrite Kr in *. simpl in *. split; [rewrite IH1; reflexivity | discriminate].
      + split; [exact IH1 | exact IH2].
  Qed.

  Lemma Forall_lt_filter k (l : list nat) n : Forall (fun x => x < n) l -> Forall (fun y => y < n) (filter (fk k) l).
  Proof. induction 1 as [|x l Hx Hl IH]; simpl; [constructor|]. destruct (fk k x); [constructor|]; auto. Qed.

  Ltac solve_sub :=
    repeat first [ apply sub_refl | apply sub_nil_l | apply sub_tail | apply sub_remove
                 | apply sub_app | progress simpl ].
  Ltac ss := solve [ solve_sub | apply sub_eq; rewrite <- ?app_assoc; reflexivity
                   | apply sub_eq; rewrite <- ?app_assoc; simpl; reflexivity ].
  Ltac rw_eqs :=
    repeat match goal with
           | E : _ = _ :: _ |- _ => progress rewrite E
           | E : _ = [] |- _ => progress rewrite E
           | E : _ = None |- _ => progress rewrite E
           | E : _ = Some _ |- _ => progress rewrite E
           end.
  Ltac unf := unfold pipeline, cliside in *; cbn [nxt out handoff sockq lost c2s pend fifo cur replying srvq s2c log
     registered running shutdown phase srv_router srv_peer srv_open srv_loop cli_router cli_peer cli_open cli_loop swept
     with_out with_handoff with_sockq with_lost with_c2s with_pend with_fifo with_cur with_replying with_srvq
     with_s2c with_log with_nxt with_obj with_srv with_cli fail opt_list] in *.

  Ltac norm_eqb :=
    repeat match goal with
           | E : (_ && _) = true |- _ => apply andb_true_iff in E; destruct E
           end;
    repeat match goal with
           | E : Nat.eqb _ _ = true |- _ => apply Nat.eqb_eq in E; subst
           end.
  Ltac ord_auto s I :=
    apply (ord_sub s); [cbn; lia | unf; rw_eqs; ss | unf; rw_eqs; ss | unf; rw_eqs; ss | exact I].

  Lemma step_ord s l s' : step fx info s l = Some s' -> OrdInv s -> OrdInv s'.
  Proof.
    intros H I. pose proof I as [Hl Hs Hr Hh].
    destruct l; cbn [step] in H; unfold send_reply in H.
    1: { (* LIssue *)
      destruct (Nat.eqb r (nxt s) && _) eqn:G; [|discriminate].
      apply andb_true_iff in G as [G1 G2]. apply Nat.eqb_eq in G1. subst r.
      destruct (remote (info (nxt s))) eqn:Rm; destruct ok.
      - destruct (cli_router _ && cli_peer _) eqn:C; inversion H; subst; clear H.
        (* appended to handoff: the end of the pipeline *)
        constructor; unf.
        + rewrite !app_assoc. apply Forall_app; split; [|repeat constructor].
          rewrite <- !app_assoc. eapply Forall_impl; [|exact Hl]. simpl; intros; lia.
        + intro k. rewrite !app_assoc. rewrite filter_app. rewrite <- !app_assoc. simpl.
          destruct (fk k (nxt s)); [|rewrite app_nil_r; apply Hs].
          apply sorted_snoc; [apply Hs|]. apply Forall_lt_filter. exact Hl.
        + rewrite !app_assoc. apply Forall_app; split; [rewrite <- !app_assoc; exact Hr|].
          repeat constructor. exact Rm.
        + rewrite map_app. simpl. apply NoDup_snoc; [exact Hh|].
          intro Hin. apply in_map_iff in Hin as [x [Ex Hx]].
          rewrite forallb_forall in G2. specialize (G2 x Hx).
          apply negb_true_iff in G2. apply Nat.eqb_neq in G2. congruence.
      - destruct (cli_router _ && cli_peer _) eqn:C; inversion H; subst; clear H. unf; ord_auto s I.
      - destruct (running _) eqn:C; inversion H; subst; clear H.
        (* local call appended to the object's queue: nothing of this caller is on the client side *)
        assert (Hnone : forall k, fk k (nxt s) = true -> filter (fk k) (cliside s) = []).
        { intros k Kk. apply filter_none. rewrite Forall_forall. intros y Hy.
          rewrite Forall_forall in Hr. specialize (Hr y Hy).
          unfold fk in *. apply Nat.eqb_eq in Kk. apply Nat.eqb_neq. intro Ky.
          assert (remote (info y) = remote (info (nxt s))) by (apply caller_side; congruence). congruence. }
        constructor; unf.
        + rewrite Forall_forall in *. intros y Hy. specialize (Hl y).
          rewrite !in_app_iff in *. simpl in Hy. intuition lia.
        + intro k. specialize (Hs k). specialize (Hnone k).
          rewrite !filter_app in *. simpl. unfold cliside in Hnone. try rewrite !filter_app in Hnone.
          destruct (fk k (nxt s)) eqn:Kk.
          * rewrite (Hnone eq_refl) in *. rewrite !app_nil_r in *.
            rewrite !app_assoc. apply sorted_snoc; [rewrite <- !app_assoc; exact Hs|].
            rewrite <- !app_assoc. rewrite <- !filter_app. apply Forall_lt_filter.
            rewrite Forall_forall in *. intros y Hy. specialize (Hl y).
            rewrite !in_app_iff in *. intuition.
          * rewrite app_nil_r. exact Hs.
        + exact Hr.
        + exact Hh.
      - destruct (registered _ && running _) eqn:C; inversion H; subst; clear H. unf; ord_auto s I. }
    1: { (* LHandoff *)
      destruct (mem_nat r (handoff s) && _) eqn:M; [|discriminate].
      apply andb_true_iff in M as [M _].
      assert (Hin : In r (handoff s)).
      { unfold mem_nat in M. apply existsb_exists in M as [x [Hx E]]. apply Nat.eqb_eq in E. subst. exact Hx. }
      unf. destruct ok; inversion H; subst; clear H.
      - constructor; unf.
        + rewrite Forall_forall in *. intros y Hy. apply Hl.
          rewrite !in_app_iff in *. simpl in Hy.
          pose proof (fun y => sub_In _ _ y (sub_remove r (handoff s))) as Hrem.
          intuition (subst; auto 12).
        + intro k. specialize (Hs k). rewrite !filter_app in *. simpl.
          destruct (handoff_split k r (handoff s) Hh Hin) as [E1 E2].
          rewrite E1 in Hs. destruct (fk k r) eqn:Kr; simpl in *.
          * rewrite <- app_assoc. simpl. exact Hs.
          * rewrite app_nil_r. exact Hs.
        + rewrite Forall_forall in *. intros y Hy. apply Hr.
          rewrite !in_app_iff in *. simpl in Hy.
          pose proof (fun y => sub_In _ _ y (sub_remove r (handoff s))) as Hrem.
          intuition (subst; auto 12).
        + eapply sub_NoDup; [apply sub_map; apply sub_remove | exact Hh].
      - unf; ord_auto s I. }
    all: break_step H; norm_eqb; try (unf; ord_auto s I).
  Qed.

  (* ---- every reachable state ------------------------------------------------------------------ *)
  Lemma run_ord ls : forall s s', run fx info s ls = Some s' -> OrdInv s -> OrdInv s'.
  Proof.
    induction ls as [|l ls IH]; simpl; intros s s' H I.
    - inversion H; subst; exact I.
    - destruct (step fx info s l) as [s1|] eqn:E; [|discriminate].
      eapply IH; [exact H|]. eapply step_ord; eauto.
  Qed.

  Theorem reachable_ord ls s : run fx info init ls = Some s -> OrdInv s.
  Proof. intro H. eapply run_ord; [exact H | apply init_ord]. Qed.

  Lemma sub_prefix {A} (a b : list A) : sub a (a ++ b).
  Proof. induction a; simpl; [apply sub_nil_l | apply sub_keep; assumption]. Qed.

  (* per calling thread, the execution log is in issue order *)
  Theorem program_order ls s k :
    run fx info init ls = Some s -> StronglySorted lt (filter (fk k) (log s)).
  Proof.
    intro H. pose proof (reachable_ord ls s H) as [_ Hs _ _].
    eapply sub_sorted; [|apply (Hs k)]. apply sub_filter. unfold pipeline. apply sub_prefix.
  Qed.

  Lemma sorted_lt_NoDup (l : list nat) : StronglySorted lt l -> NoDup l.
  Proof.
    induction 1 as [|x l S IH F]; constructor; [|exact IH].
    intro Hin. rewrite Forall_forall in F. specialize (F x Hin). lia.
  Qed.

  Lemma count_filter k x l : fk k x = true -> count_occ Nat.eq_dec (filter (fk k) l) x = count_occ Nat.eq_dec l x.
  Proof.
    intro K. induction l as [|y l IH]; simpl; [reflexivity|].
    destruct (Nat.eq_dec y x) as [E|E].
    - subst. rewrite K. simpl. destruct (Nat.eq_dec x x); [|congruence]. rewrite IH. reflexivity.
    - destruct (fk k y); simpl; [destruct (Nat.eq_dec y x); [congruence|]|]; exact IH.
  Qed.

  (* no request is executed twice *)
  Theorem executed_once ls s : run fx info init ls = Some s -> NoDup (log s).
  Proof.
    intro H. apply (NoDup_count_occ' Nat.eq_dec). intros x Hin.
    pose proof (program_order ls s (caller (info x)) H) as S.
    apply sorted_lt_NoDup in S.
    assert (K : fk (caller (info x)) x = true) by (unfold fk; apply Nat.eqb_refl).
    rewrite <- (count_filter _ _ _ K).
    rewrite (NoDup_count_occ' Nat.eq_dec) in S. apply S.
    apply filter_In. split; assumption.
  Qed.

  (* two requests of one calling thread: the one issued first is executed first *)
  Theorem issue_order_respected ls s a b l1 l2 l3 :
    run fx info init ls = Some s ->
    caller (info a) = caller (info b) ->
    log s = l1 ++ a :: l2 ++ b :: l3 -> a < b.
  Proof.
    intros H C E. pose proof (program_order ls s (caller (info a)) H) as S.
    rewrite E in S. rewrite filter_app in S. simpl in S.
    assert (Ka : fk (caller (info a)) a = true) by (unfold fk; apply Nat.eqb_refl).
    assert (Kb : fk (caller (info a)) b = true) by (unfold fk; rewrite C; apply Nat.eqb_refl).
    rewrite Ka in S. rewrite filter_app in S. simpl in S. rewrite Kb in S.
    assert (S' : StronglySorted lt (a :: filter (fk (caller (info a))) l2 ++ b :: filter (fk (caller (info a))) l3)).
    { eapply sub_sorted; [|exact S]. clear. induction (filter _ l1); simpl; [apply sub_refl | apply sub_skip; assumption]. }
    inversion S' as [|? ? _ F]; subst.
    rewrite Forall_forall in F. apply F. apply in_or_app. right. left. reflexivity.
  Qed.
End Order.
