(* C20 — ADwin parameter binding and batch access: executable model, no proofs here.

   Transcribes, from /repo/qmi/utils/adbasic_parser.py:
     _parse_single_adbasic_file (the two regular expressions as deterministic scanners:
       [scan_define], [scan_include]; splitlines/universal newlines are library: a file is a list of lines),
     _resolve_include_path + parse_adbasic_program ([resolve_include], [parse_prog]; paths are lists of
       components relative to a virtual root, compared modulo os.path.normpath; traversal takes fuel:
       an include cycle makes the real function loop forever, the model answers POutOfFuel),
     _extract_data_defines, _extract_par_defines, analyze_parameter_info ([extract_data], [extract_par],
       [analyze]; python dicts are association lists with in-place replacement [dset], so insertion
       order is kept; str.upper() is the parameter [upper]),
   and from /repo/qmi/utils/adwin_manager.py (class AdwinProcess):
     _get_dict_item_case_insensitive/_get_par_desc ([lookup_ci], str.lower() is the parameter [lower]),
     _find_sequential_ranges ([find_ranges]), get_par, set_par, get_par_multiple, set_par_multiple
   over a simulated ADwin [dev] = register file + log of the calls made on the Adwin_Base interface.

   Representation choices (all exercised by the correspondence run):
   * strings are lists of code points (N); values are opaque atoms VInt z / VFlt bits (floats never
     enter the model; only "is it a python int" matters, for the TypeError on Par registers);
   * params_data (dict of dicts) in the two batch accessors is the flat list of insertions
     (data_index, elem_index, payload) in encounter order: sorted(params_data.keys()) = [usort] of the
     inserted data indices, data_elems.keys() = the inserted element indices of that array
     (find_ranges sorts and skips repeats), data_elems[i] = payload of the LAST insertion for (d,i)
     ([last_val]); a failing data_elems[i] (python KeyError) yields the distinguished VBad / bad_name,
     which the theorems show never arises;
   * label.split("_", maxsplit=1) failing to give two parts (python ValueError out of the tuple
     assignment; impossible when upper is ASCII upper-casing) is the distinguished result Crash.
   * `$` in the value patterns also matches before a trailing newline; symbol values never contain one
     when they come from the scanner (assumption for symbols handed to analyze directly). *)
From Coq Require Export List NArith ZArith Bool Lia.
Require Export QV.Lib.Corr.
Export ListNotations.
Local Open Scope N_scope.

Definition str := list N.
Definition str_eqb : str -> str -> bool := list_eqb N.eqb.

(* ---------------------------------------------------------------------------------------------- *)
(* python dict as association list                                                                *)
Section Dict.
  Context {K V : Type} (eqb : K -> K -> bool).
  Fixpoint dget (k : K) (d : list (K * V)) : option V :=
    match d with
    | [] => None
    | (k', v) :: r => if eqb k k' then Some v else dget k r
    end.
  (* d[k] = v : replace in place when present, else append *)
  Fixpoint dset (k : K) (v : V) (d : list (K * V)) : list (K * V) :=
    match d with
    | [] => [(k, v)]
    | (k', v') :: r => if eqb k k' then (k', v) :: r else (k', v') :: dset k v r
    end.
End Dict.

(* ---------------------------------------------------------------------------------------------- *)
(* characters, small string functions                                                             *)
Definition lc (c : N) : N := if (65 <=? c) && (c <=? 90) then c + 32 else c.
Definition uc (c : N) : N := if (97 <=? c) && (c <=? 122) then c - 32 else c.
Definition ascii_upper (s : str) : str := map uc s.
Definition ascii_lower (s : str) : str := map lc s.
(* \s under re.ASCII *)
Definition is_ws (c : N) : bool := ((9 <=? c) && (c <=? 13)) || (c =? 32).
(* \s in unicode mode, restricted to code points below 256 *)
Definition is_wsu (c : N) : bool := is_ws c || ((28 <=? c) && (c <=? 31)) || (c =? 133) || (c =? 160).
Definition is_digit (c : N) : bool := (48 <=? c) && (c <=? 57).
Definition null {A} (l : list A) : bool := match l with [] => true | _ => false end.

Fixpoint takewhile {A} (p : A -> bool) (l : list A) : list A :=
  match l with [] => [] | x :: r => if p x then x :: takewhile p r else [] end.
Fixpoint dropwhile {A} (p : A -> bool) (l : list A) : list A :=
  match l with [] => [] | x :: r => if p x then dropwhile p r else l end.

(* strip a prefix given in lower case, comparing ASCII-case-insensitively (regex IGNORECASE on a
   literal made of ASCII letters none of which has a non-ASCII case partner) *)
Fixpoint strip_ci (p s : str) : option str :=
  match p, s with
  | [], _ => Some s
  | _ :: _, [] => None
  | a :: p', c :: s' => if lc c =? a then strip_ci p' s' else None
  end.
Fixpoint prefix_eqb (p s : str) : bool :=
  match p, s with
  | [], _ => true
  | _ :: _, [] => false
  | a :: p', c :: s' => (a =? c) && prefix_eqb p' s'
  end.
Fixpoint after_first (c : N) (s : str) : option str :=
  match s with [] => None | x :: r => if x =? c then Some r else after_first c r end.
Definition num (ds : str) : N := fold_left (fun a c => a * 10 + (c - 48)) ds 0.

Definition s_data_ : str := [100; 97; 116; 97; 95].        (* "data_" *)
Definition s_par_ : str := [112; 97; 114; 95].             (* "par_"  *)
Definition s_fpar_ : str := [102; 112; 97; 114; 95].       (* "fpar_" *)
Definition S_DATA_ : str := [68; 65; 84; 65; 95].          (* "DATA_" *)
Definition S_PAR_ : str := [80; 65; 82; 95].               (* "PAR_"  *)
Definition s_define : str := [35; 100; 101; 102; 105; 110; 101].        (* "#define"  *)
Definition s_include : str := [35; 105; 110; 99; 108; 117; 100; 101].   (* "#include" *)

(* ^<prefix>([0-9]+)$ with IGNORECASE *)
Definition parse_indexed (prefix v : str) : option N :=
  match strip_ci prefix v with
  | Some r => if negb (null r) && forallb is_digit r then Some (num r) else None
  | None => None
  end.

(* ^Data_(\S+)\s*\[\s*([0-9]+)\s*]$ with IGNORECASE, unicode-mode \s: parsed from the right
   (every repetition is forced to be maximal by the character that must follow it) *)
Definition parse_elem (v : str) : option (str * N) :=
  match strip_ci s_data_ v with
  | None => None
  | Some r =>
      match rev r with
      | 93 :: t =>
          let t1 := dropwhile is_wsu t in
          let ds := takewhile is_digit t1 in
          let t2 := dropwhile is_digit t1 in
          if null ds then None else
          match dropwhile is_wsu t2 with
          | 91 :: t3 =>
              let t4 := dropwhile is_wsu t3 in
              if null t4 || existsb is_wsu t4 then None else Some (rev t4, num (rev ds))
          | _ => None
          end
      | _ => None
      end
  end.

(* ---------------------------------------------------------------------------------------------- *)
(* symbols, descriptors, analysis                                                                 *)
Record symbol := mkSym { s_file : str; s_line : N; s_label : str; s_value : str }.
Definition sym_eqb (a b : symbol) : bool :=
  str_eqb (s_file a) (s_file b) && (s_line a =? s_line b) && str_eqb (s_label a) (s_label b)
  && str_eqb (s_value a) (s_value b).
(* keep the first occurrence of every symbol (file, line, label, value): what a symbol list looks like
   when every repeated inclusion of a file is dropped; the analysis cannot tell the difference
   (theorem C20_repeated_symbols_ignored) *)
Fixpoint dedup_from (seen l : list symbol) : list symbol :=
  match l with
  | [] => []
  | s :: r => if existsb (sym_eqb s) seen then dedup_from seen r else s :: dedup_from (s :: seen) r
  end.
Definition dedup_syms (l : list symbol) : list symbol := dedup_from [] l.

Inductive desc := Par (i : N) | FPar (i : N) | Elem (d i : N).
Definition desc_eqb (a b : desc) : bool :=
  match a, b with
  | Par i, Par j => i =? j
  | FPar i, FPar j => i =? j
  | Elem d i, Elem e j => (d =? e) && (i =? j)
  | _, _ => false
  end.

Inductive res (A : Type) := Ok (a : A) | ParseErr (f : str) (l : N) | Crash.
Arguments Ok {A}. Arguments ParseErr {A}. Arguments Crash {A}.

Fixpoint fold_res {S X} (f : S -> X -> res S) (st : S) (l : list X) : res S :=
  match l with
  | [] => Ok st
  | x :: r => match f st x with Ok st' => fold_res f st' r | ParseErr fl ln => ParseErr fl ln | Crash => Crash end
  end.

(* The three dictionaries of one extraction pass and the three duplicate checks, generic in the
   kind of reference R (Data index for the DATA_ pass, descriptor for the PAR_ pass). *)
Section Pass.
  Context {R : Type} (reqb : R -> R -> bool) (upper : str -> str).
  Record pstate := mkP { ncm : list (str * str); info : list (str * R); rtn : list (R * str) }.
  Definition pinit : pstate := mkP [] [] [].
  Definition differs {A} (eqb : A -> A -> bool) (prev : option A) (x : A) : bool :=
    match prev with Some p => negb (eqb p x) | None => false end.
  (* None = one of the three checks fails *)
  Definition check_store (st : pstate) (name : str) (r : R) : option pstate :=
    if differs str_eqb (dget str_eqb (upper name) (ncm st)) name then None          (* different case *)
    else if differs reqb (dget str_eqb name (info st)) r then None                   (* different register *)
    else if differs str_eqb (dget reqb r (rtn st)) name then None                    (* register already named *)
    else Some (mkP (dset str_eqb (upper name) name (ncm st))
                   (dset str_eqb name r (info st))
                   (dset reqb r name (rtn st))).
End Pass.
Arguments pstate : clear implicits.

Inductive classified (A : Type) := CSkip | CCrash | CUnknownArray | CDef (name : str) (a : A).
Arguments CSkip {A}. Arguments CCrash {A}. Arguments CUnknownArray {A}. Arguments CDef {A}.

Section Analyze.
  Context (upper : str -> str).

  (* label.upper().startswith(P) ; (_prefix, name) = label.split("_", maxsplit=1) *)
  Definition label_name (P : str) (label : str) : option (option str) :=
    if prefix_eqb P (upper label) then Some (after_first 95 label) else None.

  Definition classify_data (s : symbol) : classified N :=
    match label_name S_DATA_ (s_label s) with
    | None => CSkip
    | Some None => CCrash
    | Some (Some name) =>
        match parse_indexed s_data_ (s_value s) with
        | Some i => CDef name i
        | None => CSkip
        end
    end.

  Definition run_pass {R} (reqb : R -> R -> bool) (cls : symbol -> classified R)
             (st : pstate R) (s : symbol) : res (pstate R) :=
    match cls s with
    | CSkip => Ok st
    | CCrash => Crash
    | CUnknownArray => ParseErr (s_file s) (s_line s)
    | CDef name r =>
        match check_store reqb upper st name r with
        | Some st' => Ok st'
        | None => ParseErr (s_file s) (s_line s)
        end
    end.

  Definition extract_data (syms : list symbol) : res (list (str * N)) :=
    match fold_res (run_pass N.eqb classify_data) pinit syms with
    | Ok st => Ok (info st)
    | ParseErr f l => ParseErr f l
    | Crash => Crash
    end.

  (* dict((name.upper(), value) for (name, value) in data_info.items()) *)
  Definition data_upper (di : list (str * N)) : list (str * N) :=
    fold_left (fun acc kv => dset str_eqb (upper (fst kv)) (snd kv) acc) di [].

  Definition classify_par (du : list (str * N)) (s : symbol) : classified desc :=
    match label_name S_PAR_ (s_label s) with
    | None => CSkip
    | Some None => CCrash
    | Some (Some name) =>
        match parse_indexed s_par_ (s_value s) with
        | Some i => CDef name (Par i)
        | None =>
            match parse_indexed s_fpar_ (s_value s) with
            | Some i => CDef name (FPar i)
            | None =>
                match parse_elem (s_value s) with
                | Some (arr, i) =>
                    match dget str_eqb (upper arr) du with
                    | Some d => CDef name (Elem d i)
                    | None => CUnknownArray
                    end
                | None => CSkip
                end
            end
        end
    end.

  Definition extract_par (syms : list symbol) (di : list (str * N)) : res (list (str * desc)) :=
    match fold_res (run_pass desc_eqb (classify_par (data_upper di))) pinit syms with
    | Ok st => Ok (info st)
    | ParseErr f l => ParseErr f l
    | Crash => Crash
    end.

  Record binding := mkB { param : list (str * desc); data : list (str * N) }.

  Definition analyze (syms : list symbol) : res binding :=
    match extract_data syms with
    | Ok di =>
        match extract_par syms di with
        | Ok pi => Ok (mkB pi di)
        | ParseErr f l => ParseErr f l
        | Crash => Crash
        end
    | ParseErr f l => ParseErr f l
    | Crash => Crash
    end.
End Analyze.

(* ---------------------------------------------------------------------------------------------- *)
(* line scanner and include traversal                                                             *)
Definition nws (c : N) : bool := negb (is_ws c).
Definition valc (c : N) : bool := negb (is_ws c) && negb (c =? 39).
(* \s*(?:'<rest>)?$ *)
Definition line_tail_ok (l : str) : bool :=
  match dropwhile is_ws l with [] => true | 39 :: _ => true | _ => false end.

(* ^\s*#Define\s+(\S+)\s+([^\s']+)\s*(?:'<rest>)?$   (re.ASCII | re.IGNORECASE) *)
Definition scan_define (l : str) : option (str * str) :=
  match strip_ci s_define (dropwhile is_ws l) with
  | None => None
  | Some l2 =>
      let l3 := dropwhile is_ws l2 in
      if (length l2 =? length l3)%nat then None else
      let sym := takewhile nws l3 in
      let l4 := dropwhile nws l3 in
      if null sym then None else
      let l5 := dropwhile is_ws l4 in
      if (length l4 =? length l5)%nat then None else
      let v := takewhile valc l5 in
      let l6 := dropwhile valc l5 in
      if null v then None else
      if line_tail_ok l6 then Some (sym, v) else None
  end.

(* ^\s*#Include\s+([^\s']+)\s*(?:'<rest>)?$ *)
Definition scan_include (l : str) : option str :=
  match strip_ci s_include (dropwhile is_ws l) with
  | None => None
  | Some l2 =>
      let l3 := dropwhile is_ws l2 in
      if (length l2 =? length l3)%nat then None else
      let v := takewhile valc l3 in
      let l4 := dropwhile valc l3 in
      if null v then None else
      if line_tail_ok l4 then Some v else None
  end.

Definition path := list str.
Definition path_eqb : path -> path -> bool := list_eqb str_eqb.
Definition s_dot : str := [46].
Definition s_dotdot : str := [46; 46].

(* os.path.normpath on a relative component list (stack kept reversed) *)
Fixpoint norm_go (stack : list str) (p : path) : list str :=
  match p with
  | [] => stack
  | c :: r =>
      if null c || str_eqb c s_dot then norm_go stack r
      else if str_eqb c s_dotdot then
        match stack with
        | t :: st' => if str_eqb t s_dotdot then norm_go (c :: stack) r else norm_go st' r
        | [] => norm_go [c] r
        end
      else norm_go (c :: stack) r
  end.
Definition normalize (p : path) : path := rev (norm_go [] p).

Fixpoint split_on (c : N) (s : str) : list str :=
  match s with
  | [] => [[]]
  | x :: r =>
      match split_on c r with
      | h :: t => if x =? c then [] :: h :: t else (x :: h) :: t
      | [] => [[]]   (* unreachable *)
      end
  end.
Fixpoint join_with (c : N) (p : path) : str :=
  match p with
  | [] => []
  | [x] => x
  | x :: r => x ++ c :: join_with c r
  end.

Definition resolve_include (inc : str) (source incdir : path) : option path :=
  let comps := split_on 47 (map (fun c => if c =? 92 then 47 else c) inc) in
  if (length comps <=? 1)%nat then None
  else if null (hd [] comps) then None
  else if existsb (fun c => match c with 46 :: _ => true | _ => false end) comps
       then Some (normalize (removelast source ++ comps))
       else Some (incdir ++ comps).

Fixpoint scan_lines (file : str) (ln : N) (lines : list str) : list symbol * list str :=
  match lines with
  | [] => ([], [])
  | l :: r =>
      let '(syms, incs) := scan_lines file (ln + 1) r in
      (match scan_define l with Some (sy, v) => mkSym file ln sy v :: syms | None => syms end,
       match scan_include l with Some i => i :: incs | None => incs end)
  end.

Fixpoint filter_some {A} (l : list (option A)) : list A :=
  match l with [] => [] | Some x :: r => x :: filter_some r | None :: r => filter_some r end.

Inductive pres := POk (syms : list symbol) | PNoFile (p : path) | POutOfFuel.

(* file names are reported as the normalised path joined with "/" *)
Fixpoint parse_prog (fuel : nat) (fs : list (path * list str)) (incdir : path) (queue : list path) : pres :=
  match fuel with
  | O => POutOfFuel
  | S f =>
      match queue with
      | [] => POk []
      | src :: rest =>
          match dget path_eqb (normalize src) fs with
          | None => PNoFile src
          | Some lines =>
              let '(syms, incs) := scan_lines (join_with 47 (normalize src)) 1 lines in
              let more := filter_some (map (fun i => resolve_include i src incdir) incs) in
              match parse_prog f fs incdir (rest ++ more) with
              | POk ss => POk (syms ++ ss)
              | e => e
              end
          end
      end
  end.

(* The include traversal with "parse every file once": an #Include whose resolved (normalised) path is
   already queued or parsed is skipped.  Not what /repo does today (it re-parses, and loops forever on
   circular includes), but an equally good scanner for C20: its symbol list is the pinned one with later
   copies of a file's block removed, which the analysis ignores.  On a circular include graph this is
   the "acyclic unfolding"; the pinned traversal answers POutOfFuel there. *)
Fixpoint add_fresh (seen : list path) (ps : list path) : list path * list path :=
  match ps with
  | [] => (seen, [])
  | p :: r =>
      if existsb (path_eqb (normalize p)) seen then add_fresh seen r
      else let '(seen', fresh) := add_fresh (normalize p :: seen) r in (seen', p :: fresh)
  end.
Fixpoint parse_prog_once (fuel : nat) (fs : list (path * list str)) (incdir : path)
         (seen : list path) (queue : list path) : pres :=
  match fuel with
  | O => POutOfFuel
  | S f =>
      match queue with
      | [] => POk []
      | src :: rest =>
          match dget path_eqb (normalize src) fs with
          | None => PNoFile src
          | Some lines =>
              let '(syms, incs) := scan_lines (join_with 47 (normalize src)) 1 lines in
              let '(seen', fresh) := add_fresh seen (filter_some (map (fun i => resolve_include i src incdir) incs)) in
              match parse_prog_once f fs incdir seen' (rest ++ fresh) with
              | POk ss => POk (syms ++ ss)
              | e => e
              end
          end
      end
  end.

(* ---------------------------------------------------------------------------------------------- *)
(* _find_sequential_ranges                                                                        *)
Fixpoint insert (x : N) (l : list N) : list N :=
  match l with [] => [x] | y :: r => if x <=? y then x :: l else y :: insert x r end.
Definition isort (l : list N) : list N := fold_right insert [] l.      (* sorted(seq) *)

Fixpoint ranges_go (s e : N) (l : list N) : list (N * N) :=
  match l with
  | [] => [(s, e)]
  | v :: r =>
      if v =? e + 1 then ranges_go s v r
      else if e <? v then (s, e) :: ranges_go v v r
      else ranges_go s e r
  end.
Definition find_ranges (l : list N) : list (N * N) :=
  match isort l with [] => [] | x :: r => ranges_go x x r end.

(* s, s+1, ... (k items) ; range(s, e+1) *)
Fixpoint nrange (s : N) (k : nat) : list N :=
  match k with O => [] | S k' => s :: nrange (s + 1) k' end.
Definition range (se : N * N) : list N := nrange (fst se) (N.to_nat (snd se + 1 - fst se)).

(* sorted(d.keys()) where the keys were inserted as the list l: sort, drop repeats *)
Fixpoint above (e : N) (l : list N) : list N :=
  match l with [] => [] | v :: r => if e <? v then v :: above v r else above e r end.
Definition usort (l : list N) : list N :=
  match isort l with [] => [] | x :: r => x :: above x r end.

(* ---------------------------------------------------------------------------------------------- *)
(* simulated ADwin and AdwinProcess accessors                                                     *)
Inductive value := VInt (z : Z) | VFlt (bits : Z) | VBad.
Definition is_int (v : value) : bool := match v with VInt _ => true | _ => false end.
Inductive reg := RPar (i : N) | RFPar (i : N) | RData (d i : N).
Definition reg_eqb (a b : reg) : bool :=
  match a, b with
  | RPar i, RPar j => i =? j
  | RFPar i, RFPar j => i =? j
  | RData d i, RData e j => (d =? e) && (i =? j)
  | _, _ => false
  end.
Definition reg_of (d : desc) : reg :=
  match d with Par i => RPar i | FPar i => RFPar i | Elem d i => RData d i end.

(* calls on the Adwin_Base interface *)
Inductive call :=
| CGetPar (i : N) | CGetFPar (i : N) | CGetData (d first count : N)
| CSetPar (i : N) (v : value) | CSetFPar (i : N) (v : value) | CSetData (d first : N) (vs : list value).

Definition regfile := reg -> value.
Definition upd (r : reg) (v : value) (rf : regfile) : regfile := fun r' => if reg_eqb r r' then v else rf r'.
Fixpoint write_list (d s : N) (vs : list value) (rf : regfile) : regfile :=
  match vs with [] => rf | v :: r => write_list d (s + 1) r (upd (RData d s) v rf) end.
Definition read_list (rf : regfile) (d s n : N) : list value :=
  map (fun i => rf (RData d i)) (nrange s (N.to_nat n)).

Record dev := mkDev { regs : regfile; log : list call }.
Definition apply_call (c : call) (rf : regfile) : regfile :=
  match c with
  | CSetPar i v => upd (RPar i) v rf
  | CSetFPar i v => upd (RFPar i) v rf
  | CSetData d s vs => write_list d s vs rf
  | _ => rf
  end.
Definition do_call (c : call) (dv : dev) : dev := mkDev (apply_call c (regs dv)) (log dv ++ [c]).
Definition do_calls (cs : list call) (dv : dev) : dev := fold_left (fun d c => do_call c d) cs dv.

(* what a call on the ADwin interface writes / reads, register by register *)
Definition writes_of_call (c : call) : list (reg * value) :=
  match c with
  | CSetPar i v => [(RPar i, v)]
  | CSetFPar i v => [(RFPar i, v)]
  | CSetData d s vs => combine (map (RData d) (nrange s (length vs))) vs
  | _ => []
  end.
Definition reads_of_call (c : call) : list reg :=
  match c with
  | CGetPar i => [RPar i]
  | CGetFPar i => [RFPar i]
  | CGetData d s n => map (RData d) (nrange s (N.to_nat n))
  | _ => []
  end.

Inductive ores (A : Type) := ROk (a : A) | RValueError | RTypeError.
Arguments ROk {A}. Arguments RValueError {A}. Arguments RTypeError {A}.

Definition bad_name : str := [0].

Definition e_d {X} (e : N * N * X) : N := fst (fst e).
Definition e_i {X} (e : N * N * X) : N := snd (fst e).
Definition elem_keys {X} (d : N) (es : list (N * N * X)) : list N :=
  map e_i (filter (fun e => e_d e =? d) es).
Fixpoint last_val {X} (d i : N) (es : list (N * N * X)) : option X :=
  match es with
  | [] => None
  | e :: r =>
      match last_val d i r with
      | Some y => Some y
      | None => if (e_d e =? d) && (e_i e =? i) then Some (snd e) else None
      end
  end.

Section Process.
  Context (lower : str -> str) (b : list (str * desc)).

  (* first key whose lower() equals the lower() of the requested name *)
  Definition lookup_ci (n : str) : option desc :=
    match find (fun kv => str_eqb (lower n) (lower (fst kv))) b with
    | Some kv => Some (snd kv)
    | None => None
    end.

  Definition get_par (n : str) (dv : dev) : dev * ores value :=
    match lookup_ci n with
    | None => (dv, RValueError)
    | Some (Par i) => (do_call (CGetPar i) dv, ROk (regs dv (RPar i)))
    | Some (FPar i) => (do_call (CGetFPar i) dv, ROk (regs dv (RFPar i)))
    | Some (Elem d i) => (do_call (CGetData d i 1) dv, ROk (hd VBad (read_list (regs dv) d i 1)))
    end.

  Definition set_par (n : str) (v : value) (dv : dev) : dev * ores unit :=
    match lookup_ci n with
    | None => (dv, RValueError)
    | Some (Par i) => if is_int v then (do_call (CSetPar i v) dv, ROk tt) else (dv, RTypeError)
    | Some (FPar i) => (do_call (CSetFPar i v) dv, ROk tt)
    | Some (Elem d i) => (do_call (CSetData d i [v]) dv, ROk tt)
    end.

  (* the corresponding one-by-one accesses (what the batch accessors are compared with) *)
  Fixpoint set_par_each (ps : list (str * value)) (dv : dev) : dev * ores unit :=
    match ps with
    | [] => (dv, ROk tt)
    | (n, v) :: r =>
        match set_par n v dv with
        | (dv', ROk _) => set_par_each r dv'
        | (dv', RValueError) => (dv', RValueError)
        | (dv', RTypeError) => (dv', RTypeError)
        end
    end.
  Fixpoint get_par_each (ns : list str) (dv : dev) : dev * ores (list (str * value)) :=
    match ns with
    | [] => (dv, ROk [])
    | n :: r =>
        match get_par n dv with
        | (dv', ROk v) =>
            match get_par_each r dv' with
            | (dv2, ROk l) => (dv2, ROk ((n, v) :: l))
            | (dv2, RValueError) => (dv2, RValueError)
            | (dv2, RTypeError) => (dv2, RTypeError)
            end
        | (dv', RValueError) => (dv', RValueError)
        | (dv', RTypeError) => (dv', RTypeError)
        end
    end.

  (* first loop of set_par_multiple *)
  Fixpoint setm_phase1 (ps : list (str * value)) (dv : dev) (es : list (N * N * value))
    : dev * list (N * N * value) * ores unit :=
    match ps with
    | [] => (dv, es, ROk tt)
    | (n, v) :: r =>
        match lookup_ci n with
        | None => (dv, es, RValueError)
        | Some (Par i) => if is_int v then setm_phase1 r (do_call (CSetPar i v) dv) es else (dv, es, RTypeError)
        | Some (FPar i) => setm_phase1 r (do_call (CSetFPar i v) dv) es
        | Some (Elem d i) => setm_phase1 r dv (es ++ [(d, i, v)])
        end
    end.

  Definition data_indices {X} (es : list (N * N * X)) : list N := usort (map e_d es).

  (* second loop of set_par_multiple *)
  Definition setm_calls (es : list (N * N * value)) : list call :=
    flat_map (fun d =>
      map (fun se => CSetData d (fst se)
                       (map (fun i => match last_val d i es with Some v => v | None => VBad end) (range se)))
          (find_ranges (elem_keys d es)))
      (data_indices es).

  Definition set_par_multiple (ps : list (str * value)) (dv : dev) : dev * ores unit :=
    match setm_phase1 ps dv [] with
    | (dv1, es, ROk _) => (do_calls (setm_calls es) dv1, ROk tt)
    | (dv1, _, RValueError) => (dv1, RValueError)
    | (dv1, _, RTypeError) => (dv1, RTypeError)
    end.

  (* first loop of get_par_multiple; the result dict is the list of assignments result[name] = v *)
  Fixpoint getm_phase1 (ns : list str) (dv : dev) (asg : list (str * value)) (es : list (N * N * str))
    : dev * list (str * value) * list (N * N * str) * ores unit :=
    match ns with
    | [] => (dv, asg, es, ROk tt)
    | n :: r =>
        match lookup_ci n with
        | None => (dv, asg, es, RValueError)
        | Some (Par i) => getm_phase1 r (do_call (CGetPar i) dv) (asg ++ [(n, regs dv (RPar i))]) es
        | Some (FPar i) => getm_phase1 r (do_call (CGetFPar i) dv) (asg ++ [(n, regs dv (RFPar i))]) es
        | Some (Elem d i) => getm_phase1 r dv asg (es ++ [(d, i, n)])
        end
    end.

  Definition getm_ranges {X} (es : list (N * N * X)) : list (N * (N * N)) :=
    flat_map (fun d => map (fun se => (d, se)) (find_ranges (elem_keys d es))) (data_indices es).

  (* second loop: one get_data call per range; values[k] is register (d, start + k) *)
  Definition getm_calls (es : list (N * N * str)) : list call :=
    map (fun dse => CGetData (fst dse) (fst (snd dse)) (snd (snd dse) + 1 - fst (snd dse))) (getm_ranges es).
  Definition getm_asg (rf : regfile) (es : list (N * N * str)) : list (str * value) :=
    flat_map (fun dse =>
      let d := fst dse in let s := fst (snd dse) in let n := snd (snd dse) + 1 - s in
      combine (map (fun i => match last_val d i es with Some nm => nm | None => bad_name end)
                   (nrange s (N.to_nat n)))
              (read_list rf d s n))
      (getm_ranges es).

  Definition get_par_multiple (ns : list str) (dv : dev) : dev * ores (list (str * value)) :=
    match getm_phase1 ns dv [] [] with
    | (dv1, asg, es, ROk _) => (do_calls (getm_calls es) dv1, ROk (asg ++ getm_asg (regs dv1) es))
    | (dv1, _, _, RValueError) => (dv1, RValueError)
    | (dv1, _, _, RTypeError) => (dv1, RTypeError)
    end.
End Process.

(* the dict built by a list of assignments result[k] = v *)
Definition dict_of (asg : list (str * value)) : list (str * value) :=
  fold_left (fun d kv => dset str_eqb (fst kv) (snd kv) d) asg [].
