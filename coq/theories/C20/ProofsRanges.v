(* C20 — lemmas about _find_sequential_ranges. *)
Require Import QV.C20.Model.
From Coq Require Import Sorted ZifyBool ZifyN ZifyNat.
Local Open Scope N_scope.

Lemma nrange_length s k : length (nrange s k) = k.
Proof. revert s; induction k as [|k IH]; intro s; simpl; [reflexivity | rewrite IH; reflexivity]. Qed.

Lemma nrange_snoc k : forall s, nrange s (S k) = nrange s k ++ [s + N.of_nat k].
Proof.
  induction k as [|k IH]; intro s.
  - simpl. f_equal. lia.
  - change (nrange s (S (S k))) with (s :: nrange (s + 1) (S k)). rewrite IH.
    simpl. do 2 f_equal. f_equal. lia.
Qed.

Lemma nrange_In k : forall s x, In x (nrange s k) <-> s <= x < s + N.of_nat k.
Proof.
  induction k as [|k IH]; intros s x; simpl.
  - split; [intros [] | lia].
  - rewrite IH. lia.
Qed.

Lemma nrange_sorted k : forall s, StronglySorted N.lt (nrange s k).
Proof.
  induction k as [|k IH]; intro s; simpl; constructor; [apply IH|].
  apply Forall_forall. intros x Hx. apply nrange_In in Hx. lia.
Qed.

Lemma range_In s e x : In x (range (s, e)) <-> s <= x <= e.
Proof. unfold range; simpl. rewrite nrange_In. lia. Qed.

Lemma range_single v : range (v, v) = [v].
Proof. unfold range; simpl. replace (N.to_nat (v + 1 - v)) with 1%nat by lia. reflexivity. Qed.

Lemma range_extend s e : s <= e + 1 -> range (s, e + 1) = range (s, e) ++ [e + 1].
Proof.
  intro H. unfold range; simpl.
  replace (N.to_nat (e + 1 + 1 - s)) with (S (N.to_nat (e + 1 - s))) by lia.
  rewrite nrange_snoc. do 2 f_equal. lia.
Qed.

(* the ranges produced from running state (s, e) enumerate s..e, then the strictly increasing
   subsequence [above e r] of what follows — for every list r *)
Lemma ranges_go_flat r : forall s e, s <= e ->
  flat_map range (ranges_go s e r) = range (s, e) ++ above e r.
Proof.
  induction r as [|v r IH]; intros s e Hse; simpl.
  - rewrite app_nil_r. reflexivity.
  - destruct (v =? e + 1) eqn:E1.
    + apply N.eqb_eq in E1; subst v. rewrite IH by lia.
      replace (e <? e + 1) with true by lia.
      rewrite range_extend by lia. rewrite <- app_assoc. reflexivity.
    + destruct (e <? v) eqn:E2.
      * simpl. rewrite IH by lia. rewrite range_single. reflexivity.
      * apply IH; assumption.
Qed.

Lemma find_ranges_flat l : flat_map range (find_ranges l) = usort l.
Proof.
  unfold find_ranges, usort. destruct (isort l) as [|x r]; [reflexivity|].
  rewrite ranges_go_flat by lia. rewrite range_single. reflexivity.
Qed.

(* sorting *)
Lemma insert_In x l y : In y (insert x l) <-> y = x \/ In y l.
Proof.
  induction l as [|z l IH]; simpl; [intuition|].
  destruct (x <=? z); simpl; [intuition | rewrite IH; intuition].
Qed.

Lemma isort_In l y : In y (isort l) <-> In y l.
Proof.
  induction l as [|x l IH]; simpl; [reflexivity|]. rewrite insert_In, IH. intuition.
Qed.

Lemma insert_sorted x l : StronglySorted N.le l -> StronglySorted N.le (insert x l).
Proof.
  induction l as [|z l IH]; simpl; intro H.
  - constructor; constructor.
  - inversion H as [|? ? Hs Hf]; subst. destruct (x <=? z) eqn:E.
    + constructor; [assumption|]. constructor; [lia|].
      eapply Forall_impl; [|exact Hf]. simpl; intros; lia.
    + constructor; [apply IH; assumption|].
      apply Forall_forall. intros y Hy. apply insert_In in Hy as [->|Hy]; [lia|].
      rewrite Forall_forall in Hf. apply Hf; assumption.
Qed.

Lemma isort_sorted l : StronglySorted N.le (isort l).
Proof. induction l as [|x l IH]; simpl; [constructor | apply insert_sorted; assumption]. Qed.

(* above e r : strictly increasing, all greater than e — for every r *)
Lemma above_sorted r : forall e, Forall (fun x => e < x) (above e r) /\ StronglySorted N.lt (above e r).
Proof.
  induction r as [|v r IH]; intro e; simpl; [split; constructor|].
  destruct (e <? v) eqn:E.
  - destruct (IH v) as [Hf Hs]. split.
    + constructor; [lia|]. eapply Forall_impl; [|exact Hf]. simpl; intros; lia.
    + constructor; assumption.
  - apply IH.
Qed.

Lemma above_In r : forall e x, StronglySorted N.le (e :: r) -> (In x (e :: above e r) <-> In x (e :: r)).
Proof.
  induction r as [|v r IH]; intros e x Hs; simpl; [reflexivity|].
  inversion Hs as [|? ? Hs' Hf]; subst. inversion Hf as [|? ? Hev Hf']; subst.
  destruct (e <? v) eqn:E.
  - specialize (IH v x Hs'). simpl in *. tauto.
  - assert (v = e) by lia. subst v. specialize (IH e x Hs'). simpl in *. tauto.
Qed.

Lemma usort_sorted l : StronglySorted N.lt (usort l).
Proof.
  unfold usort. destruct (isort l) as [|x r]; [constructor|].
  destruct (above_sorted r x) as [Hf Hs]. constructor; assumption.
Qed.

Lemma usort_In l x : In x (usort l) <-> In x l.
Proof.
  unfold usort. rewrite <- (isort_In l x). pose proof (isort_sorted l) as Hs.
  destruct (isort l) as [|y r]; [reflexivity|]. apply above_In; assumption.
Qed.

Lemma sorted_lt_NoDup l : StronglySorted N.lt l -> NoDup l.
Proof.
  induction 1 as [|x l Hs IH Hf]; constructor; [|assumption].
  intro Hin. rewrite Forall_forall in Hf. specialize (Hf _ Hin). lia.
Qed.

Lemma usort_NoDup l : NoDup (usort l).
Proof. apply sorted_lt_NoDup, usort_sorted. Qed.

(* separation: every range is non-empty and there is a gap of at least one missing number between
   consecutive ranges (so ranges are disjoint and cannot be extended or merged) *)
Inductive separated : list (N * N) -> Prop :=
| sep_nil : separated []
| sep_one a b : a <= b -> separated [(a, b)]
| sep_cons a b c d t : a <= b -> b + 1 < c -> separated ((c, d) :: t) -> separated ((a, b) :: (c, d) :: t).

Lemma ranges_go_sep r : forall s e, s <= e ->
  exists b t, ranges_go s e r = (s, b) :: t /\ e <= b /\ separated ((s, b) :: t).
Proof.
  induction r as [|v r IH]; intros s e Hse; simpl.
  - exists e, []. repeat split; [lia | constructor; assumption].
  - destruct (v =? e + 1) eqn:E1.
    + apply N.eqb_eq in E1; subst v. destruct (IH s (e + 1)) as (b & t & Hr & Hb & Hs); [lia|].
      exists b, t. repeat split; [assumption | lia | assumption].
    + destruct (e <? v) eqn:E2.
      * destruct (IH v v) as (b & t & Hr & Hb & Hs); [lia|].
        exists e, ((v, b) :: t). rewrite Hr. repeat split; [lia|].
        constructor; [assumption | lia | assumption].
      * apply IH; assumption.
Qed.

Lemma find_ranges_separated l : separated (find_ranges l).
Proof.
  unfold find_ranges. destruct (isort l) as [|x r]; [constructor|].
  destruct (ranges_go_sep r x x) as (b & t & -> & _ & Hs); [lia | assumption].
Qed.

Lemma separated_nonempty rs : separated rs -> Forall (fun r => fst r <= snd r) rs.
Proof. induction 1; repeat constructor; simpl; try assumption. inversion IHseparated; assumption.
       inversion IHseparated; assumption. Qed.

Lemma separated_gap rs : separated rs ->
  forall l1 r1 r2 l2, rs = l1 ++ r1 :: r2 :: l2 -> snd r1 + 1 < fst r2.
Proof.
  induction 1 as [|a b Hab|a b c d t Hab Hbc Hs IH]; intros l1 r1 r2 l2 E.
  - destruct l1; discriminate.
  - destruct l1 as [|? [|? ?]]; discriminate.
  - destruct l1 as [|x l1]; simpl in E.
    + inversion E; subst. simpl. assumption.
    + inversion E; subst. eapply IH. eassumption.
Qed.
