(* C20 — lemmas about the analysis passes (binding injective, exact, errors located). *)
Require Import QV.C20.Model.
From Coq Require Import ZifyBool ZifyN.
Local Open Scope N_scope.

(* ---------------------------------------------------------------------------------------------- *)
Lemma str_eqb_spec : forall a b : str, str_eqb a b = true <-> a = b.
Proof. apply list_eqb_spec. apply N.eqb_eq. Qed.

Lemma desc_eqb_spec : forall a b, desc_eqb a b = true <-> a = b.
Proof.
  intros [i|i|d i] [j|j|e j]; simpl; split; intro H; try discriminate; try congruence.
  - apply N.eqb_eq in H; congruence.
  - inversion H; apply N.eqb_refl.
  - apply N.eqb_eq in H; congruence.
  - inversion H; apply N.eqb_refl.
  - apply andb_true_iff in H as [H1 H2]. apply N.eqb_eq in H1, H2. congruence.
  - inversion H; subst. rewrite !N.eqb_refl. reflexivity.
Qed.

Section DictLemmas.
  Context {K V : Type} (eqb : K -> K -> bool) (eqb_spec : forall a b, eqb a b = true <-> a = b).

  Lemma eqb_refl k : eqb k k = true.
  Proof. apply eqb_spec; reflexivity. Qed.
  Lemma eqb_neq a b : a <> b -> eqb a b = false.
  Proof. intro H. destruct (eqb a b) eqn:E; [apply eqb_spec in E; contradiction | reflexivity]. Qed.

  Lemma dget_In k (v : V) d : dget eqb k d = Some v -> In (k, v) d.
  Proof.
    induction d as [|[k' v'] d IH]; simpl; [discriminate|].
    destruct (eqb k k') eqn:E; intro H.
    - apply eqb_spec in E. inversion H; subst. left; reflexivity.
    - right; apply IH; assumption.
  Qed.

  Lemma dget_None k d : dget eqb k d = None -> forall v : V, ~ In (k, v) d.
  Proof.
    induction d as [|[k' v'] d IH]; simpl; intros H v Hin; [assumption|].
    destruct (eqb k k') eqn:E; [discriminate|].
    destruct Hin as [Hin|Hin]; [inversion Hin; subst; rewrite eqb_refl in E; discriminate | exact (IH H v Hin)].
  Qed.

  Lemma In_dget k (v : V) d : NoDup (map fst d) -> In (k, v) d -> dget eqb k d = Some v.
  Proof.
    induction d as [|[k' v'] d IH]; simpl; intros Hnd Hin; [contradiction|].
    inversion Hnd as [|? ? Hni Hnd']; subst.
    destruct Hin as [Hin|Hin].
    - inversion Hin; subst. rewrite eqb_refl. reflexivity.
    - destruct (eqb k k') eqn:E.
      + apply eqb_spec in E; subst. exfalso. apply Hni. apply (in_map fst) in Hin. exact Hin.
      + apply IH; assumption.
  Qed.

  Lemma dget_dset_same k (v : V) d : dget eqb k (dset eqb k v d) = Some v.
  Proof.
    induction d as [|[k' v'] d IH]; simpl.
    - rewrite eqb_refl; reflexivity.
    - destruct (eqb k k') eqn:E; simpl; rewrite E; [reflexivity | exact IH].
  Qed.

  Lemma dget_dset_other k k' (v : V) d : k <> k' -> dget eqb k (dset eqb k' v d) = dget eqb k d.
  Proof.
    intro Hne. induction d as [|[k2 v2] d IH]; simpl.
    - rewrite (eqb_neq _ _ Hne); reflexivity.
    - destruct (eqb k' k2) eqn:E; simpl.
      + apply eqb_spec in E; subst. rewrite (eqb_neq _ _ Hne). reflexivity.
      + rewrite IH; reflexivity.
  Qed.

  Lemma dset_keys k (v : V) d :
    map fst (dset eqb k v d) = if existsb (fun kv => eqb k (fst kv)) d then map fst d else map fst d ++ [k].
  Proof.
    induction d as [|[k2 v2] d IH]; simpl; [reflexivity|].
    destruct (eqb k k2) eqn:E; simpl; [reflexivity|].
    rewrite IH. destruct (existsb _ d); reflexivity.
  Qed.

  Lemma dset_NoDup k (v : V) d : NoDup (map fst d) -> NoDup (map fst (dset eqb k v d)).
  Proof.
    induction d as [|[k2 v2] d IH]; simpl; intro H.
    - constructor; [intros []|constructor].
    - inversion H as [|? ? Hni Hnd]; subst.
      destruct (eqb k k2) eqn:E; simpl.
      + constructor; assumption.
      + constructor; [|apply IH; assumption].
        rewrite dset_keys. destruct (existsb _ d); [assumption|].
        intro Hin. apply in_app_or in Hin as [Hin|[Hin|[]]]; [contradiction|].
        subst. rewrite eqb_refl in E; discriminate.
  Qed.

  (* membership after d[k] = v, when keys are unique *)
  Lemma In_dset k (v : V) d k' v' : NoDup (map fst d) ->
    (In (k', v') (dset eqb k v d) <-> (k' = k /\ v' = v) \/ (k' <> k /\ In (k', v') d)).
  Proof.
    intro Hnd. pose proof (dset_NoDup k v d Hnd) as Hnd'. split.
    - intro Hin. apply (In_dget _ _ _ Hnd') in Hin.
      destruct (eqb k' k) eqn:E.
      + apply eqb_spec in E; subst. rewrite dget_dset_same in Hin. inversion Hin. left; split; reflexivity.
      + assert (k' <> k) as Hne by (intro; subst; rewrite eqb_refl in E; discriminate).
        rewrite dget_dset_other in Hin by assumption. right; split; [assumption | apply dget_In; assumption].
    - intros [[-> ->]|[Hne Hin]]; apply dget_In.
      + apply dget_dset_same.
      + rewrite dget_dset_other by assumption. apply In_dget; assumption.
  Qed.
End DictLemmas.

(* ---------------------------------------------------------------------------------------------- *)
(* one extraction pass                                                                            *)

(* the recognised definitions of a symbol list under a classifier, in order *)
Fixpoint defs_of {R} (cls : symbol -> classified R) (syms : list symbol) : list (str * R) :=
  match syms with
  | [] => []
  | s :: r => match cls s with CDef n x => (n, x) :: defs_of cls r | _ => defs_of cls r end
  end.

Lemma defs_of_app {R} (cls : symbol -> classified R) a b : defs_of cls (a ++ b) = defs_of cls a ++ defs_of cls b.
Proof. induction a as [|s a IH]; simpl; [reflexivity|]. destruct (cls s); simpl; rewrite IH; reflexivity. Qed.

Section PassLemmas.
  Context {R : Type} (reqb : R -> R -> bool) (reqb_spec : forall a b, reqb a b = true <-> a = b).
  Context (upper : str -> str).

  (* (n, r) clashes with a definition already seen *)
  Definition conflict (defs : list (str * R)) (n : str) (r : R) : Prop :=
    exists n' r', In (n', r') defs /\
      ((upper n' = upper n /\ n' <> n) \/ (n' = n /\ r' <> r) \/ (r' = r /\ n' <> n)).

  Record PInv (st : pstate R) (defs : list (str * R)) : Prop := {
    pi_nodup : NoDup (map fst (info st));
    pi_exact : forall n r, In (n, r) (info st) <-> In (n, r) defs;
    pi_fwd : forall n r, In (n, r) (info st) ->
               dget str_eqb (upper n) (ncm st) = Some n /\ dget reqb r (rtn st) = Some n;
    pi_ncm : forall k n, dget str_eqb k (ncm st) = Some n -> k = upper n /\ exists r, In (n, r) (info st);
    pi_rtn : forall r n, dget reqb r (rtn st) = Some n -> In (n, r) (info st)
  }.

  Lemma pinit_inv : PInv pinit [].
  Proof. constructor; simpl; try (intros; discriminate); try (intros; contradiction); [constructor | tauto]. Qed.

  Lemma differs_false {A} (eqb : A -> A -> bool) (spec : forall a b, eqb a b = true <-> a = b) prev x :
    differs eqb prev x = false -> prev = None \/ prev = Some x.
  Proof.
    destruct prev as [p|]; simpl; [|left; reflexivity].
    intro H. apply negb_false_iff in H. apply spec in H. subst. right; reflexivity.
  Qed.
  Lemma differs_true {A} (eqb : A -> A -> bool) (spec : forall a b, eqb a b = true <-> a = b) prev x :
    differs eqb prev x = true -> exists p, prev = Some p /\ p <> x.
  Proof.
    destruct prev as [p|]; simpl; [|discriminate].
    intro H. apply negb_true_iff in H. exists p; split; [reflexivity|].
    intro; subst. rewrite (proj2 (spec x x) eq_refl) in H. discriminate.
  Qed.

  Lemma check_store_ok st defs n r st' :
    PInv st defs -> check_store reqb upper st n r = Some st' -> PInv st' (defs ++ [(n, r)]).
  Proof.
    intros [Hnd Hex Hfwd Hncm Hrtn] H. unfold check_store in H.
    destruct (differs str_eqb (dget str_eqb (upper n) (ncm st)) n) eqn:E1; [discriminate|].
    destruct (differs reqb (dget str_eqb n (info st)) r) eqn:E2; [discriminate|].
    destruct (differs str_eqb (dget reqb r (rtn st)) n) eqn:E3; [discriminate|].
    inversion H; subst st'; clear H.
    apply (differs_false _ str_eqb_spec) in E1. apply (differs_false _ reqb_spec) in E2.
    apply (differs_false _ str_eqb_spec) in E3.
    (* an old entry with the same name has the same register *)
    assert (Hsame : forall r0, In (n, r0) (info st) -> r0 = r).
    { intros r0 Hin. apply (In_dget _ str_eqb_spec _ _ _ Hnd) in Hin. destruct E2 as [E2|E2]; congruence. }
    (* an old entry equal up to case is the same name; an old entry on the same register too *)
    assert (Hcase : forall n0 r0, In (n0, r0) (info st) -> upper n0 = upper n -> n0 = n).
    { intros n0 r0 Hin Hu. destruct (Hfwd _ _ Hin) as [Hc _]. rewrite Hu in Hc. destruct E1 as [E1|E1]; congruence. }
    assert (Hreg : forall n0, In (n0, r) (info st) -> n0 = n).
    { intros n0 Hin. destruct (Hfwd _ _ Hin) as [_ Hc]. destruct E3 as [E3|E3]; congruence. }
    constructor; simpl.
    - apply (dset_NoDup _ str_eqb_spec); assumption.
    - intros n0 r0. rewrite (In_dset _ str_eqb_spec) by assumption. rewrite in_app_iff, <- Hex. simpl.
      split.
      + intros [[-> ->]|[_ Hin]]; [right; left; reflexivity | left; assumption].
      + intros [Hin|[Heq|[]]].
        * destruct (str_eqb n0 n) eqn:En.
          -- apply str_eqb_spec in En; subst. left. split; [reflexivity | apply Hsame; assumption].
          -- right. split; [intro; subst; rewrite (proj2 (str_eqb_spec n n) eq_refl) in En; discriminate | assumption].
        * inversion Heq; subst. left; split; reflexivity.
    - intros n0 r0 Hin. apply (In_dset _ str_eqb_spec) in Hin; [|assumption].
      destruct Hin as [[-> ->]|[Hne Hin]].
      + split; [apply (dget_dset_same _ str_eqb_spec) | apply (dget_dset_same _ reqb_spec)].
      + destruct (Hfwd _ _ Hin) as [Hc Hr]. split.
        * rewrite (dget_dset_other _ str_eqb_spec); [assumption|].
          intro Hu. apply Hne. eapply Hcase; eassumption.
        * rewrite (dget_dset_other _ reqb_spec); [assumption|].
          intro; subst. apply Hne. apply Hreg; assumption.
    - intros k n0 Hk. destruct (str_eqb k (upper n)) eqn:Ek.
      + apply str_eqb_spec in Ek; subst. rewrite (dget_dset_same _ str_eqb_spec) in Hk. inversion Hk; subst.
        split; [reflexivity|]. exists r. apply (In_dset _ str_eqb_spec); [assumption | left; split; reflexivity].
      + assert (k <> upper n) as Hne by (intro; subst; rewrite (proj2 (str_eqb_spec _ _) eq_refl) in Ek; discriminate).
        rewrite (dget_dset_other _ str_eqb_spec) in Hk by assumption.
        destruct (Hncm _ _ Hk) as [-> [r0 Hin]]. split; [reflexivity|]. exists r0.
        apply (In_dset _ str_eqb_spec); [assumption|]. right; split; [congruence | assumption].
    - intros r0 n0 Hr. destruct (reqb r0 r) eqn:Er.
      + apply reqb_spec in Er; subst. rewrite (dget_dset_same _ reqb_spec) in Hr. inversion Hr; subst.
        apply (In_dset _ str_eqb_spec); [assumption | left; split; reflexivity].
      + assert (r0 <> r) as Hne by (intro; subst; rewrite (proj2 (reqb_spec _ _) eq_refl) in Er; discriminate).
        rewrite (dget_dset_other _ reqb_spec) in Hr by assumption.
        pose proof (Hrtn _ _ Hr) as Hin.
        apply (In_dset _ str_eqb_spec); [assumption|]. right; split; [|assumption].
        intro; subst. apply Hne. apply Hsame; assumption.
  Qed.

  Lemma check_store_fail st defs n r :
    PInv st defs -> check_store reqb upper st n r = None -> conflict defs n r.
  Proof.
    intros [Hnd Hex Hfwd Hncm Hrtn] H. unfold check_store in H. unfold conflict.
    destruct (differs str_eqb (dget str_eqb (upper n) (ncm st)) n) eqn:E1.
    { apply (differs_true _ str_eqb_spec) in E1 as [p [Hp Hne]].
      destruct (Hncm _ _ Hp) as [Hu [r0 Hin]]. exists p, r0. split; [apply Hex; assumption|].
      left; split; [symmetry; assumption | assumption]. }
    destruct (differs reqb (dget str_eqb n (info st)) r) eqn:E2.
    { apply (differs_true _ reqb_spec) in E2 as [r0 [Hp Hne]].
      apply (dget_In _ str_eqb_spec) in Hp. exists n, r0. split; [apply Hex; assumption|].
      right; left; split; [reflexivity | assumption]. }
    destruct (differs str_eqb (dget reqb r (rtn st)) n) eqn:E3; [|discriminate].
    apply (differs_true _ str_eqb_spec) in E3 as [p [Hp Hne]].
    apply Hrtn in Hp. exists p, r. split; [apply Hex; assumption|].
    right; right; split; [reflexivity | assumption].
  Qed.

  (* what an invariant says about the binding *)
  Lemma PInv_injective st defs : PInv st defs ->
    forall n1 r1 n2 r2, In (n1, r1) (info st) -> In (n2, r2) (info st) ->
      upper n1 = upper n2 \/ r1 = r2 -> n1 = n2.
  Proof.
    intros [_ _ Hfwd _ _] n1 r1 n2 r2 H1 H2 [Hu|Hr].
    - destruct (Hfwd _ _ H1) as [A _], (Hfwd _ _ H2) as [B _]. rewrite Hu in A. congruence.
    - destruct (Hfwd _ _ H1) as [_ A], (Hfwd _ _ H2) as [_ B]. rewrite Hr in A. congruence.
  Qed.

  Context (cls : symbol -> classified R).

  Lemma pass_ok syms : forall st defs st',
    PInv st defs -> fold_res (run_pass upper reqb cls) st syms = Ok st' ->
    PInv st' (defs ++ defs_of cls syms).
  Proof.
    induction syms as [|s syms IH]; simpl; intros st defs st' Hinv H.
    - inversion H; subst. rewrite app_nil_r. assumption.
    - unfold run_pass in H at 1. destruct (cls s) as [| | |n r] eqn:Ec; try discriminate.
      + apply (IH _ _ _ Hinv H).
      + destruct (check_store reqb upper st n r) as [st1|] eqn:Ek; [|discriminate].
        pose proof (check_store_ok _ _ _ _ _ Hinv Ek) as Hinv1.
        specialize (IH _ _ _ Hinv1 H). rewrite <- app_assoc in IH. exact IH.
  Qed.

  (* a rejected pass: the error is located at a symbol that is a dangling reference or a recognised
     definition clashing with an earlier recognised definition *)
  Lemma pass_err syms : forall st defs f l,
    PInv st defs -> fold_res (run_pass upper reqb cls) st syms = ParseErr f l ->
    exists pre s post, syms = pre ++ s :: post /\ s_file s = f /\ s_line s = l /\
      (cls s = CUnknownArray \/ exists n r, cls s = CDef n r /\ conflict (defs ++ defs_of cls pre) n r).
  Proof.
    induction syms as [|s syms IH]; simpl; intros st defs f l Hinv H; [discriminate|].
    unfold run_pass in H at 1. destruct (cls s) as [| | |n r] eqn:Ec; try discriminate.
    - destruct (IH _ _ _ _ Hinv H) as (pre & s' & post & -> & Hf & Hl & Hc).
      exists (s :: pre), s', post. simpl. rewrite Ec. repeat split; assumption.
    - inversion H; subst. exists [], s, syms. simpl. repeat split. left; exact Ec.
    - destruct (check_store reqb upper st n r) as [st1|] eqn:Ek.
      + pose proof (check_store_ok _ _ _ _ _ Hinv Ek) as Hinv1.
        destruct (IH _ _ _ _ Hinv1 H) as (pre & s' & post & -> & Hf & Hl & Hc).
        exists (s :: pre), s', post. simpl. rewrite Ec. repeat split; try assumption.
        destruct Hc as [Hc|(n' & r' & Hc & Hcf)]; [left; assumption|].
        right. exists n', r'. split; [assumption|]. rewrite <- app_assoc in Hcf. exact Hcf.
      + inversion H; subst. exists [], s, syms. simpl. repeat split.
        right. exists n, r. split; [exact Ec|]. rewrite app_nil_r.
        eapply check_store_fail; eassumption.
  Qed.
End PassLemmas.

(* ---------------------------------------------------------------------------------------------- *)
(* data_upper                                                                                      *)
Lemma data_upper_sound upper di : forall k d,
  dget str_eqb k (data_upper upper di) = Some d -> exists a, In (a, d) di /\ k = upper a.
Proof.
  unfold data_upper.
  assert (G : forall (di : list (str * N)) acc k (d : N),
    dget str_eqb k (fold_left (fun acc kv => dset str_eqb (upper (fst kv)) (snd kv) acc) di acc) = Some d ->
    (exists a, In (a, d) di /\ k = upper a) \/ dget str_eqb k acc = Some d).
  { clear di. induction di as [|[a v] di IH]; simpl; intros acc k d H; [right; assumption|].
    destruct (IH _ _ _ H) as [(a' & Hin & Hk)|Hacc].
    - left. exists a'. split; [right; assumption | assumption].
    - destruct (str_eqb k (upper a)) eqn:E.
      + apply str_eqb_spec in E; subst. rewrite (dget_dset_same _ str_eqb_spec) in Hacc. inversion Hacc; subst.
        left. exists a. split; [left; reflexivity | reflexivity].
      + rewrite (dget_dset_other _ str_eqb_spec) in Hacc; [right; assumption|].
        intro; subst. rewrite (proj2 (str_eqb_spec _ _) eq_refl) in E. discriminate. }
  intros k d H. destruct (G _ _ _ _ H) as [?|Hn]; [assumption | discriminate].
Qed.

(* ---------------------------------------------------------------------------------------------- *)
(* the two passes together                                                                        *)
Section AnalyzeLemmas.
  Context (upper : str -> str).

  Definition data_defs (syms : list symbol) : list (str * N) := defs_of (classify_data upper) syms.
  Definition par_defs (di : list (str * N)) (syms : list symbol) : list (str * desc) :=
    defs_of (classify_par upper (data_upper upper di)) syms.

  Definition one_to_one {R} (l : list (str * R)) : Prop :=
    NoDup (map fst l) /\
    forall n1 r1 n2 r2, In (n1, r1) l -> In (n2, r2) l -> upper n1 = upper n2 \/ r1 = r2 -> n1 = n2.

  Lemma extract_data_ok syms di : extract_data upper syms = Ok di ->
    one_to_one di /\ forall n i, In (n, i) di <-> In (n, i) (data_defs syms).
  Proof.
    unfold extract_data. destruct (fold_res _ _ syms) as [st| |] eqn:E; try discriminate.
    intro H; inversion H; subst.
    pose proof (pass_ok N.eqb N.eqb_eq upper _ syms _ _ _ (pinit_inv N.eqb upper) E) as Hinv. simpl in Hinv.
    split; [split|].
    - apply (pi_nodup _ _ _ _ Hinv).
    - apply (PInv_injective _ _ _ _ Hinv).
    - apply (pi_exact _ _ _ _ Hinv).
  Qed.

  Lemma extract_par_ok syms di pi : extract_par upper syms di = Ok pi ->
    one_to_one pi /\ forall n d, In (n, d) pi <-> In (n, d) (par_defs di syms).
  Proof.
    unfold extract_par. destruct (fold_res _ _ syms) as [st| |] eqn:E; try discriminate.
    intro H; inversion H; subst.
    pose proof (pass_ok desc_eqb desc_eqb_spec upper _ syms _ _ _ (pinit_inv desc_eqb upper) E) as Hinv.
    simpl in Hinv. split; [split|].
    - apply (pi_nodup _ _ _ _ Hinv).
    - apply (PInv_injective _ _ _ _ Hinv).
    - apply (pi_exact _ _ _ _ Hinv).
  Qed.

  Lemma par_defs_elem_bound di syms n d i :
    In (n, Elem d i) (par_defs di syms) -> exists a, In (a, d) di.
  Proof.
    unfold par_defs. induction syms as [|s syms IH]; simpl; [intros []|].
    destruct (classify_par upper (data_upper upper di) s) as [| | |n0 r0] eqn:Ec; try exact IH.
    intros [Heq|Hin]; [|apply IH; assumption].
    inversion Heq; subst. unfold classify_par in Ec.
    destruct (label_name upper S_PAR_ (s_label s)) as [[nm|]|]; try discriminate.
    destruct (parse_indexed s_par_ (s_value s)); [inversion Ec|].
    destruct (parse_indexed s_fpar_ (s_value s)); [inversion Ec|].
    destruct (parse_elem (s_value s)) as [[arr j]|]; [|discriminate].
    destruct (dget str_eqb (upper arr) (data_upper upper di)) as [d0|] eqn:Eg; [|discriminate].
    inversion Ec; subst. apply data_upper_sound in Eg as [a [Hin _]]. exists a; exact Hin.
  Qed.

  Lemma binding_injective syms b : analyze upper syms = Ok b ->
    one_to_one (param b) /\ one_to_one (data b).
  Proof.
    unfold analyze. destruct (extract_data upper syms) as [di| |] eqn:Ed; try discriminate.
    destruct (extract_par upper syms di) as [pi| |] eqn:Ep; try discriminate.
    intro H; inversion H; subst; simpl.
    split; [apply (extract_par_ok _ _ _ Ep) | apply (extract_data_ok _ _ Ed)].
  Qed.

  Lemma binding_exact syms b : analyze upper syms = Ok b ->
    (forall n i, In (n, i) (data b) <-> In (n, i) (data_defs syms)) /\
    (forall n d, In (n, d) (param b) <-> In (n, d) (par_defs (data b) syms)) /\
    (forall n d i, In (n, Elem d i) (param b) -> exists a, In (a, d) (data b)).
  Proof.
    unfold analyze. destruct (extract_data upper syms) as [di| |] eqn:Ed; try discriminate.
    destruct (extract_par upper syms di) as [pi| |] eqn:Ep; try discriminate.
    intro H; inversion H; subst; simpl.
    destruct (extract_data_ok _ _ Ed) as [_ Hd]. destruct (extract_par_ok _ _ _ Ep) as [_ Hp].
    split; [exact Hd|]. split; [exact Hp|].
    intros n d i Hin. apply Hp in Hin. eapply par_defs_elem_bound; eassumption.
  Qed.

  (* the symbol named by a parse error *)
  Definition offending (syms pre : list symbol) (s : symbol) : Prop :=
    (exists n i, classify_data upper s = CDef n i /\ conflict upper (data_defs pre) n i) \/
    (exists di, extract_data upper syms = Ok di /\
       (classify_par upper (data_upper upper di) s = CUnknownArray \/
        exists n d, classify_par upper (data_upper upper di) s = CDef n d /\ conflict upper (par_defs di pre) n d)).

  Lemma reject_located syms f l : analyze upper syms = ParseErr f l ->
    exists pre s post, syms = pre ++ s :: post /\ s_file s = f /\ s_line s = l /\ offending syms pre s.
  Proof.
    unfold analyze, offending. destruct (extract_data upper syms) as [di|f0 l0|] eqn:Ed; try discriminate.
    - destruct (extract_par upper syms di) as [pi|f0 l0|] eqn:Ep; try discriminate.
      intro H; inversion H; subst. unfold extract_par in Ep.
      destruct (fold_res _ _ syms) as [st|f1 l1|] eqn:E; try discriminate. inversion Ep; subst.
      destruct (pass_err desc_eqb desc_eqb_spec upper _ syms _ _ _ _ (pinit_inv desc_eqb upper) E)
        as (pre & s & post & Hs & Hf & Hl & Hc).
      exists pre, s, post. repeat split; try assumption. right. exists di. split; [reflexivity|].
      destruct Hc as [Hc|(n & d & Hc & Hcf)]; [left; assumption | right; exists n, d; split; assumption].
    - intro H; inversion H; subst. unfold extract_data in Ed.
      destruct (fold_res _ _ syms) as [st|f1 l1|] eqn:E; try discriminate. inversion Ed; subst.
      destruct (pass_err N.eqb N.eqb_eq upper _ syms _ _ _ _ (pinit_inv N.eqb upper) E)
        as (pre & s & post & Hs & Hf & Hl & Hc).
      exists pre, s, post. repeat split; try assumption. left.
      destruct Hc as [Hc|(n & d & Hc & Hcf)]; [|exists n, d; split; assumption].
      exfalso. unfold classify_data in Hc. destruct (label_name upper S_DATA_ (s_label s)) as [[nm|]|]; try discriminate.
      destruct (parse_indexed s_data_ (s_value s)); discriminate.
  Qed.

  (* conversely: a program with two clashing recognised definitions is never accepted *)
  Lemma conflict_rejected syms b : analyze upper syms = Ok b ->
    (forall n i, In (n, i) (data_defs syms) -> ~ conflict upper (data_defs syms) n i) /\
    (forall n d, In (n, d) (par_defs (data b) syms) -> ~ conflict upper (par_defs (data b) syms) n d).
  Proof.
    intro H. destruct (binding_injective _ _ H) as [[Hpn Hpi] [Hdn Hdi]].
    destruct (binding_exact _ _ H) as (Hd & Hp & _).
    split.
    - intros n i Hin (n' & i' & Hin' & Hc). apply Hd in Hin, Hin'.
      destruct Hc as [[Hu Hne]|[[-> Hne]|[-> Hne]]].
      + apply Hne. eapply Hdi; [exact Hin' | exact Hin | left; assumption].
      + apply Hne. apply (In_dget _ str_eqb_spec _ _ _ Hdn) in Hin, Hin'. congruence.
      + apply Hne. eapply Hdi; [exact Hin' | exact Hin | right; reflexivity].
    - intros n d Hin (n' & d' & Hin' & Hc). apply Hp in Hin, Hin'.
      destruct Hc as [[Hu Hne]|[[-> Hne]|[-> Hne]]].
      + apply Hne. eapply Hpi; [exact Hin' | exact Hin | left; assumption].
      + apply Hne. apply (In_dget _ str_eqb_spec _ _ _ Hpn) in Hin, Hin'. congruence.
      + apply Hne. eapply Hpi; [exact Hin' | exact Hin | right; reflexivity].
  Qed.
End AnalyzeLemmas.

(* ---------------------------------------------------------------------------------------------- *)
(* repeated symbols (a file included more than once) are ignored by the analysis                  *)
Lemma sym_eqb_spec a b : sym_eqb a b = true <-> a = b.
Proof.
  destruct a as [f l lb v], b as [f' l' lb' v']. unfold sym_eqb; simpl. split.
  - intro H. apply andb_true_iff in H as [H H4]. apply andb_true_iff in H as [H H3]. apply andb_true_iff in H as [H1 H2].
    apply str_eqb_spec in H1, H3, H4. apply N.eqb_eq in H2. congruence.
  - intro H; inversion H; subst. rewrite !(proj2 (str_eqb_spec _ _) eq_refl), N.eqb_refl. reflexivity.
Qed.

Lemma dset_same {K V} (eqb : K -> K -> bool) k (v : V) d : dget eqb k d = Some v -> dset eqb k v d = d.
Proof.
  induction d as [|[k' v'] d IH]; simpl; [discriminate|].
  destruct (eqb k k'); intro H; [inversion H; reflexivity | rewrite IH by assumption; reflexivity].
Qed.

Lemma fold_res_app {S X} (f : S -> X -> res S) a b : forall st,
  fold_res f st (a ++ b) = match fold_res f st a with Ok st' => fold_res f st' b | ParseErr fl ln => ParseErr fl ln | Crash => Crash end.
Proof. induction a as [|x a IH]; intro st; simpl; [reflexivity|]. destruct (f st x); [apply IH | reflexivity | reflexivity]. Qed.

Lemma defs_of_In {R} (cls : symbol -> classified R) syms s n r :
  In s syms -> cls s = CDef n r -> In (n, r) (defs_of cls syms).
Proof.
  induction syms as [|x syms IH]; simpl; [intros []|]. intros [->|Hin] Hc.
  - rewrite Hc. left; reflexivity.
  - destruct (cls x); try (apply IH; assumption). right; apply IH; assumption.
Qed.

Section Repeat.
  Context {R : Type} (reqb : R -> R -> bool) (reqb_spec : forall a b, reqb a b = true <-> a = b).
  Context (upper : str -> str) (cls : symbol -> classified R).

  (* a definition already in the binding is accepted again and changes nothing *)
  Lemma check_store_absorbed st defs n r :
    PInv reqb upper st defs -> In (n, r) (info st) -> check_store reqb upper st n r = Some st.
  Proof.
    intros [Hnd Hex Hfwd Hncm Hrtn] Hin. destruct (Hfwd _ _ Hin) as [Hc Hr].
    pose proof (In_dget _ str_eqb_spec _ _ _ Hnd Hin) as Hi.
    unfold check_store. rewrite Hc, Hi, Hr. unfold differs.
    rewrite (proj2 (str_eqb_spec n n) eq_refl), (proj2 (reqb_spec r r) eq_refl). simpl.
    rewrite (dset_same _ _ _ _ Hc), (dset_same _ _ _ _ Hi), (dset_same _ _ _ _ Hr). destruct st; reflexivity.
  Qed.

  (* symbols of an accepted prefix are skipped or recognised definitions *)
  Lemma pass_ok_cls syms : forall st st', fold_res (run_pass upper reqb cls) st syms = Ok st' ->
    forall s, In s syms -> cls s = CSkip \/ exists n r, cls s = CDef n r.
  Proof.
    induction syms as [|x syms IH]; simpl; intros st st' H s Hin; [contradiction|].
    unfold run_pass in H at 1. destruct Hin as [->|Hin].
    - destruct (cls s) as [| | |n r]; try discriminate; [left; reflexivity | right; exists n, r; reflexivity].
    - destruct (cls x) as [| | |n r]; try discriminate; [eapply IH; eassumption|].
      destruct (check_store reqb upper st n r); [eapply IH; eassumption | discriminate].
  Qed.

  Lemma pass_repeat pre s post st defs : PInv reqb upper st defs -> In s pre ->
    fold_res (run_pass upper reqb cls) st (pre ++ s :: post) = fold_res (run_pass upper reqb cls) st (pre ++ post).
  Proof.
    intros Hinv Hin. rewrite !fold_res_app.
    destruct (fold_res (run_pass upper reqb cls) st pre) as [st1| |] eqn:E; try reflexivity.
    simpl. replace (run_pass upper reqb cls st1 s) with (Ok st1); [reflexivity|].
    pose proof (pass_ok reqb reqb_spec upper cls pre _ _ _ Hinv E) as Hinv1.
    unfold run_pass. destruct (pass_ok_cls pre _ _ E s Hin) as [Hc|(n & r & Hc)]; rewrite Hc; [reflexivity|].
    rewrite (check_store_absorbed _ _ n r Hinv1); [reflexivity|].
    apply (pi_exact _ _ _ _ Hinv1). apply in_app_iff. right. eapply defs_of_In; eassumption.
  Qed.
End Repeat.

Lemma analyze_repeat upper pre s post : In s pre ->
  analyze upper (pre ++ s :: post) = analyze upper (pre ++ post).
Proof.
  intro Hin. unfold analyze, extract_data, extract_par.
  rewrite (pass_repeat N.eqb N.eqb_eq upper (classify_data upper) pre s post _ _ (pinit_inv N.eqb upper) Hin).
  destruct (fold_res (run_pass upper N.eqb (classify_data upper)) pinit (pre ++ post)) as [st| |]; try reflexivity.
  rewrite (pass_repeat desc_eqb desc_eqb_spec upper _ pre s post _ _ (pinit_inv desc_eqb upper) Hin). reflexivity.
Qed.

Lemma analyze_dedup_from upper l : forall pre seen, (forall x, In x seen <-> In x pre) ->
  analyze upper (pre ++ dedup_from seen l) = analyze upper (pre ++ l).
Proof.
  induction l as [|s l IH]; intros pre seen Hs; simpl; [reflexivity|].
  destruct (existsb (sym_eqb s) seen) eqn:E.
  - apply existsb_exists in E as (x & Hx & Hsx). apply sym_eqb_spec in Hsx; subst x.
    rewrite (analyze_repeat upper pre s l) by (apply Hs; assumption). apply IH; assumption.
  - change (pre ++ s :: dedup_from (s :: seen) l) with (pre ++ [s] ++ dedup_from (s :: seen) l).
    change (pre ++ s :: l) with (pre ++ [s] ++ l). rewrite !app_assoc. apply IH.
    intro x. simpl. rewrite in_app_iff, Hs. simpl. tauto.
Qed.

Lemma analyze_dedup upper l : analyze upper (dedup_syms l) = analyze upper l.
Proof. apply (analyze_dedup_from upper l [] []). tauto. Qed.
