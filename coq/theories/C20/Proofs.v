(* C20 — lemmas: aggregation, the ASCII instance of the case law, and the composition
   "binding produced by the parser" => "batch access equals single access". *)
Require Export QV.C20.Model QV.C20.ProofsBinding QV.C20.ProofsRanges QV.C20.ProofsBatch.
From Coq Require Import Sorted Permutation ZifyBool ZifyN ZifyNat.
Local Open Scope N_scope.

(* ASCII upper/lower satisfy the law the batch theorems need of str.upper / str.lower *)
Lemma lc_uc c d : lc c = lc d -> uc c = uc d.
Proof.
  unfold lc, uc.
  destruct ((65 <=? c) && (c <=? 90)) eqn:A, ((65 <=? d) && (d <=? 90)) eqn:B,
           ((97 <=? c) && (c <=? 122)) eqn:C, ((97 <=? d) && (d <=? 122)) eqn:D; lia.
Qed.

Lemma ascii_case_law : forall a b, ascii_lower a = ascii_lower b -> ascii_upper a = ascii_upper b.
Proof.
  unfold ascii_lower, ascii_upper. induction a as [|x a IH]; intros [|y b] H; simpl in *; try discriminate; [reflexivity|].
  inversion H as [[H1 H2]]. rewrite (lc_uc _ _ H1), (IH _ H2). reflexivity.
Qed.

Lemma find_ranges_spec l :
  StronglySorted N.lt (flat_map range (find_ranges l)) /\
  (forall x, In x (flat_map range (find_ranges l)) <-> In x l).
Proof. rewrite find_ranges_flat. split; [apply usort_sorted | intro x; apply usort_In]. Qed.

Lemma find_ranges_maximal_disjoint l :
  Forall (fun r => fst r <= snd r) (find_ranges l) /\
  (forall l1 r1 r2 l2, find_ranges l = l1 ++ r1 :: r2 :: l2 -> snd r1 + 1 < fst r2).
Proof.
  pose proof (find_ranges_separated l) as H. split; [apply separated_nonempty; assumption|].
  apply separated_gap; assumption.
Qed.

(* a one-to-one binding (as the analysis produces) has pairwise distinct registers and keys that are
   pairwise distinct under lower(), given that lower-equal names are upper-equal *)
Lemma one_to_one_regs {R} (upper : str -> str) (l : list (str * R)) : one_to_one upper l -> NoDup (map snd l).
Proof.
  intros [Hnd Hinj]. apply NoDup_map_injective; [|eapply NoDup_map_inv; exact Hnd].
  intros [n1 r1] [n2 r2] H1 H2 Heq. simpl in Heq. subst r2.
  rewrite (Hinj n1 r1 n2 r1 H1 H2 (or_intror eq_refl)). reflexivity.
Qed.

Lemma one_to_one_lower {R} (upper lower : str -> str) (l : list (str * R)) :
  (forall a c, lower a = lower c -> upper a = upper c) ->
  one_to_one upper l -> NoDup (map (fun kv => lower (fst kv)) l).
Proof.
  intros Hlaw [Hnd Hinj]. apply NoDup_map_injective; [|eapply NoDup_map_inv; exact Hnd].
  intros [n1 r1] [n2 r2] H1 H2 Heq. simpl in Heq.
  pose proof (Hinj n1 r1 n2 r2 H1 H2 (or_introl (Hlaw _ _ Heq))) as ->.
  apply (In_dget _ str_eqb_spec _ _ _ Hnd) in H1, H2. congruence.
Qed.

(* every name of a parsed binding, in any spelling that lower() identifies with it, reaches its own register *)
Lemma parsed_name_resolves upper lower syms bd :
  (forall a c, lower a = lower c -> upper a = upper c) ->
  analyze upper syms = Ok bd ->
  forall n d n', In (n, d) (param bd) -> lower n' = lower n -> lookup_ci lower (param bd) n' = Some d.
Proof.
  intros Hlaw Ha n d n' Hin Hl. destruct (binding_injective upper _ _ Ha) as [Hp _].
  pose proof (lookup_ci_own lower (param bd) n d (one_to_one_lower upper lower _ Hlaw Hp) Hin) as H.
  unfold lookup_ci in *. rewrite Hl. exact H.
Qed.

Lemma parsed_batch_write upper lower syms bd ps dv :
  analyze upper syms = Ok bd ->
  NoDup (map (fun p => lower (fst p)) ps) -> well_typed lower (param bd) ps ->
  exists cs,
    set_par_multiple lower (param bd) ps dv = (do_calls cs dv, ROk tt) /\
    set_par_each lower (param bd) ps dv = (do_calls (each_calls lower (param bd) ps) dv, ROk tt) /\
    (forall r, regs (do_calls cs dv) r = regs (do_calls (each_calls lower (param bd) ps) dv) r) /\
    Permutation (flat_map writes_of_call cs) (bound_writes lower (param bd) ps) /\
    flat_map writes_of_call (each_calls lower (param bd) ps) = bound_writes lower (param bd) ps /\
    flat_map reads_of_call cs = [].
Proof.
  intros Ha Hps Hwt. destruct (binding_injective upper _ _ Ha) as [Hp _].
  apply batch_write; [eapply one_to_one_regs; exact Hp | assumption | assumption].
Qed.

Lemma parsed_batch_read upper lower syms bd ns dv :
  analyze upper syms = Ok bd ->
  NoDup (map lower ns) -> all_bound lower (param bd) ns ->
  exists cs asg,
    get_par_multiple lower (param bd) ns dv = (do_calls cs dv, ROk asg) /\
    get_par_each lower (param bd) ns dv
      = (do_calls (each_gcalls lower (param bd) ns) dv, ROk (each_reads lower (param bd) (regs dv) ns)) /\
    (forall n v, In (n, v) asg <-> In (n, v) (each_reads lower (param bd) (regs dv) ns)) /\
    reads_only cs /\ reads_only (each_gcalls lower (param bd) ns) /\
    Permutation (flat_map reads_of_call cs) (bound_regs lower (param bd) ns).
Proof.
  intros Ha Hns Hb. destruct (binding_injective upper _ _ Ha) as [Hp _].
  apply batch_read; [eapply one_to_one_regs; exact Hp | assumption | assumption].
Qed.

(* the result list of a batch read is functional, so the python dict built from it has exactly the
   items of the one-by-one reads *)
Lemma batch_read_dict lower b ns dv :
  NoDup (map snd b) -> NoDup (map lower ns) -> all_bound lower b ns ->
  exists cs asg,
    get_par_multiple lower b ns dv = (do_calls cs dv, ROk asg) /\
    forall n v, In (n, v) (dict_of asg) <-> In (n, v) (each_reads lower b (regs dv) ns).
Proof.
  intros Hb Hns Hbd. destruct (batch_read lower b ns dv Hb Hns Hbd) as (cs & asg & H1 & _ & H3 & _).
  exists cs, asg. split; [assumption|]. intros n v. rewrite <- H3. apply dict_of_In.
  intros m x y Hx Hy. apply H3 in Hx, Hy. apply each_reads_In in Hx as [_ (d & Hd & ->)], Hy as [_ (d' & Hd' & ->)].
  congruence.
Qed.

(* with ASCII case folding the distinguished Crash result never arises *)
Lemma prefix_len p : forall s, prefix_eqb p s = true -> exists t, s = p ++ t.
Proof.
  induction p as [|a p IH]; intros s H; [exists s; reflexivity|].
  destruct s as [|c s]; simpl in H; [discriminate|]. apply andb_true_iff in H as [H1 H2].
  apply N.eqb_eq in H1; subst. destruct (IH _ H2) as [t ->]. exists t; reflexivity.
Qed.

Lemma after_first_some c s : In c s -> after_first c s <> None.
Proof.
  induction s as [|x s IH]; simpl; [intros []|]. intros [->|H]; [rewrite N.eqb_refl; discriminate|].
  destruct (x =? c); [discriminate | apply IH; assumption].
Qed.

Lemma ascii_label_no_crash P label : In 95 P -> label_name ascii_upper P label <> Some None.
Proof.
  intros HP. unfold label_name. destruct (prefix_eqb P (ascii_upper label)) eqn:E; [|discriminate].
  intro H. inversion H as [H1]. revert H1. apply after_first_some.
  apply prefix_len in E as [t Ht]. assert (Hin : In 95 (ascii_upper label)) by (rewrite Ht; apply in_app_iff; left; assumption).
  unfold ascii_upper in Hin. apply in_map_iff in Hin as (c & Hc & Hin). unfold uc in Hc.
  destruct ((97 <=? c) && (c <=? 122)) eqn:Ec; [lia | subst; assumption].
Qed.

Lemma fold_res_no_crash {S} (f : S -> symbol -> res S) :
  (forall st s, f st s <> Crash) -> forall syms st, fold_res f st syms <> Crash.
Proof.
  intros Hf. induction syms as [|s syms IH]; intro st; simpl; [discriminate|].
  destruct (f st s) eqn:E; [apply IH | discriminate | exfalso; exact (Hf _ _ E)].
Qed.

Lemma ascii_no_crash syms : analyze ascii_upper syms <> Crash.
Proof.
  unfold analyze, extract_data, extract_par.
  assert (HD : forall st s, run_pass ascii_upper N.eqb (classify_data ascii_upper) st s <> Crash).
  { intros st s. unfold run_pass, classify_data.
    pose proof (ascii_label_no_crash S_DATA_ (s_label s)) as Hl.
    destruct (label_name ascii_upper S_DATA_ (s_label s)) as [[nm|]|]; try discriminate.
    - destruct (parse_indexed s_data_ (s_value s)); [|discriminate]. destruct (check_store _ _ _ _ _); discriminate.
    - exfalso. apply Hl; [simpl; tauto | reflexivity]. }
  assert (HP : forall du st s, run_pass ascii_upper desc_eqb (classify_par ascii_upper du) st s <> Crash).
  { intros du st s. unfold run_pass, classify_par.
    pose proof (ascii_label_no_crash S_PAR_ (s_label s)) as Hl.
    destruct (label_name ascii_upper S_PAR_ (s_label s)) as [[nm|]|]; try discriminate.
    - destruct (parse_indexed s_par_ (s_value s)); [destruct (check_store _ _ _ _ _); discriminate|].
      destruct (parse_indexed s_fpar_ (s_value s)); [destruct (check_store _ _ _ _ _); discriminate|].
      destruct (parse_elem (s_value s)) as [[arr j]|]; [|discriminate].
      destruct (dget str_eqb (ascii_upper arr) du); [destruct (check_store _ _ _ _ _); discriminate | discriminate].
    - exfalso. apply Hl; [simpl; tauto | reflexivity]. }
  pose proof (fold_res_no_crash _ HD syms pinit) as H1.
  destruct (fold_res (run_pass ascii_upper N.eqb (classify_data ascii_upper)) pinit syms) as [st| |]; try discriminate; [|contradiction].
  pose proof (fold_res_no_crash _ (HP (data_upper ascii_upper (info st))) syms pinit) as H2.
  destruct (fold_res _ pinit syms) as [st2| |]; try discriminate. contradiction.
Qed.
