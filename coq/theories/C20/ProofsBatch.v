(* C20 — batch accessors versus one-by-one accessors on the simulated ADwin. *)
Require Import QV.C20.Model QV.C20.ProofsBinding QV.C20.ProofsRanges.
From Coq Require Import Sorted Permutation ZifyBool ZifyN ZifyNat.
Local Open Scope N_scope.

Lemma reg_eqb_spec a b : reg_eqb a b = true <-> a = b.
Proof.
  destruct a as [i|i|d i], b as [j|j|e j]; simpl; split; intro H; try discriminate; try congruence.
  - apply N.eqb_eq in H; congruence.
  - inversion H; apply N.eqb_refl.
  - apply N.eqb_eq in H; congruence.
  - inversion H; apply N.eqb_refl.
  - apply andb_true_iff in H as [H1 H2]. apply N.eqb_eq in H1, H2. congruence.
  - inversion H; subst. rewrite !N.eqb_refl. reflexivity.
Qed.

Lemma reg_of_inj a b : reg_of a = reg_of b -> a = b.
Proof. destruct a, b; simpl; intro H; inversion H; reflexivity. Qed.

(* ---------------------------------------------------------------------------------------------- *)
(* what a call on the ADwin interface reads / writes, register by register                        *)
Definition apply_writes (ws : list (reg * value)) (rf : regfile) : regfile :=
  fold_left (fun rf w => upd (fst w) (snd w) rf) ws rf.

Lemma write_list_apply d vs : forall s rf,
  write_list d s vs rf = apply_writes (combine (map (RData d) (nrange s (length vs))) vs) rf.
Proof. induction vs as [|v vs IH]; intros s rf; simpl; [reflexivity | apply IH]. Qed.

Lemma apply_call_writes c rf : apply_call c rf = apply_writes (writes_of_call c) rf.
Proof. destruct c; simpl; try reflexivity. apply write_list_apply. Qed.

Lemma apply_writes_app a b rf : apply_writes (a ++ b) rf = apply_writes b (apply_writes a rf).
Proof. apply fold_left_app. Qed.

Lemma do_calls_cons c cs dv : do_calls (c :: cs) dv = do_calls cs (do_call c dv).
Proof. reflexivity. Qed.

Lemma do_calls_app a : forall b dv, do_calls (a ++ b) dv = do_calls b (do_calls a dv).
Proof. intros b dv. apply fold_left_app. Qed.

Lemma do_calls_regs cs : forall dv, regs (do_calls cs dv) = apply_writes (flat_map writes_of_call cs) (regs dv).
Proof.
  induction cs as [|c cs IH]; intro dv; [reflexivity|].
  rewrite do_calls_cons, IH. simpl flat_map. change (regs (do_call c dv)) with (apply_call c (regs dv)).
  rewrite apply_writes_app, apply_call_writes. reflexivity.
Qed.

Lemma do_calls_log cs : forall dv, log (do_calls cs dv) = log dv ++ cs.
Proof.
  induction cs as [|c cs IH]; intro dv; [simpl; rewrite app_nil_r; reflexivity|].
  rewrite do_calls_cons, IH. simpl. rewrite <- app_assoc. reflexivity.
Qed.

Lemma apply_writes_spec ws : forall rf r, NoDup (map fst ws) ->
  apply_writes ws rf r = match dget reg_eqb r ws with Some v => v | None => rf r end.
Proof.
  induction ws as [|[r0 v0] ws IH]; intros rf r Hnd; [reflexivity|].
  inversion Hnd as [|? ? Hni Hnd']; subst. simpl. change (fold_left _ ws ?x) with (apply_writes ws x).
  rewrite IH by assumption. destruct (reg_eqb r r0) eqn:E.
  - apply reg_eqb_spec in E; subst r0.
    destruct (dget reg_eqb r ws) as [v|] eqn:Eg.
    + exfalso. apply Hni. apply (dget_In _ reg_eqb_spec) in Eg. apply (in_map fst) in Eg. exact Eg.
    + unfold upd. rewrite (proj2 (reg_eqb_spec r r) eq_refl). reflexivity.
  - destruct (dget reg_eqb r ws); [reflexivity|]. unfold upd.
    destruct (reg_eqb r0 r) eqn:E2; [|reflexivity].
    apply reg_eqb_spec in E2; subst. rewrite (proj2 (reg_eqb_spec r r) eq_refl) in E. discriminate.
Qed.

Lemma apply_writes_equiv ws1 ws2 rf :
  NoDup (map fst ws1) -> NoDup (map fst ws2) -> (forall p, In p ws1 <-> In p ws2) ->
  forall r, apply_writes ws1 rf r = apply_writes ws2 rf r.
Proof.
  intros H1 H2 Heq r. rewrite !apply_writes_spec by assumption.
  destruct (dget reg_eqb r ws1) as [v|] eqn:E1.
  - apply (dget_In _ reg_eqb_spec) in E1. apply Heq in E1. rewrite (In_dget _ reg_eqb_spec _ _ _ H2 E1). reflexivity.
  - destruct (dget reg_eqb r ws2) as [v|] eqn:E2; [|reflexivity].
    apply (dget_In _ reg_eqb_spec) in E2. apply Heq in E2. rewrite (In_dget _ reg_eqb_spec _ _ _ H1 E2) in E1. discriminate.
Qed.

(* ---------------------------------------------------------------------------------------------- *)
(* list plumbing                                                                                  *)
Lemma fm_fm {A B C} (g : B -> list C) (h : A -> list B) l :
  flat_map g (flat_map h l) = flat_map (fun x => flat_map g (h x)) l.
Proof. induction l as [|x l IH]; simpl; [reflexivity|]. rewrite flat_map_app, IH. reflexivity. Qed.
Lemma fm_map {A B C} (g : B -> list C) (h : A -> B) l : flat_map g (map h l) = flat_map (fun x => g (h x)) l.
Proof. induction l as [|x l IH]; simpl; [reflexivity|]. rewrite IH. reflexivity. Qed.
Lemma map_fm {A B C} (g : B -> C) (h : A -> list B) l : map g (flat_map h l) = flat_map (fun x => map g (h x)) l.
Proof. induction l as [|x l IH]; simpl; [reflexivity|]. rewrite map_app, IH. reflexivity. Qed.
Lemma combine_map2 {A B C} (f : A -> B) (g : A -> C) l : combine (map f l) (map g l) = map (fun x => (f x, g x)) l.
Proof. induction l as [|x l IH]; simpl; [reflexivity|]. rewrite IH. reflexivity. Qed.

Lemma NoDup_app_intro {A} (a b : list A) :
  NoDup a -> NoDup b -> (forall x, In x a -> ~ In x b) -> NoDup (a ++ b).
Proof.
  induction a as [|x a IH]; simpl; intros Ha Hb Hd; [assumption|].
  inversion Ha as [|? ? Hni Ha']; subst. constructor.
  - intro Hin. apply in_app_or in Hin as [Hin|Hin]; [contradiction | exact (Hd x (or_introl eq_refl) Hin)].
  - apply IH; [assumption | assumption | intros y Hy; apply Hd; right; assumption].
Qed.

Lemma NoDup_flat_map {A B} (f : A -> list B) l :
  NoDup l -> (forall x, In x l -> NoDup (f x)) ->
  (forall x y a, In x l -> In y l -> x <> y -> In a (f x) -> ~ In a (f y)) -> NoDup (flat_map f l).
Proof.
  induction l as [|x l IH]; simpl; intros Hnd Hin Hdis; [constructor|].
  inversion Hnd as [|? ? Hni Hnd']; subst.
  apply NoDup_app_intro.
  - apply Hin; left; reflexivity.
  - apply IH; [assumption | intros; apply Hin; right; assumption |].
    intros y z a Hy Hz. apply Hdis; right; assumption.
  - intros a Ha Hfl. apply in_flat_map in Hfl as (y & Hy & Hay).
    refine (Hdis x y a (or_introl eq_refl) (or_intror Hy) _ Ha Hay). intro; subst; contradiction.
Qed.

Lemma NoDup_map_filter {A B} (f : A -> B) (p : A -> bool) l : NoDup (map f l) -> NoDup (map f (filter p l)).
Proof.
  induction l as [|x l IH]; simpl; intro H; [constructor|].
  inversion H as [|? ? Hni Hnd]; subst. destruct (p x); simpl; [|apply IH; assumption].
  constructor; [|apply IH; assumption].
  intro Hin. apply Hni. apply in_map_iff in Hin as (y & Hy & Hin). apply filter_In in Hin as [Hin _].
  apply in_map_iff. exists y; split; assumption.
Qed.

Lemma NoDup_map_injective {A B} (f : A -> B) l :
  (forall x y, In x l -> In y l -> f x = f y -> x = y) -> NoDup l -> NoDup (map f l).
Proof.
  induction l as [|x l IH]; simpl; intros Hinj H; [constructor|].
  inversion H as [|? ? Hni Hnd]; subst. constructor.
  - intro Hin. apply in_map_iff in Hin as (y & Hy & Hin). apply Hni.
    rewrite (Hinj x y (or_introl eq_refl) (or_intror Hin) (eq_sym Hy)). exact Hin.
  - apply IH; [intros; apply Hinj; try right; assumption | assumption].
Qed.

Lemma NoDup_snd_inj {A B} (l : list (A * B)) a1 a2 b :
  NoDup (map snd l) -> In (a1, b) l -> In (a2, b) l -> a1 = a2.
Proof.
  induction l as [|[a0 b0] l IH]; simpl; intros Hnd H1 H2; [contradiction|].
  inversion Hnd as [|? ? Hni Hnd']; subst.
  destruct H1 as [H1|H1], H2 as [H2|H2]; try congruence.
  - inversion H1; subst. exfalso. apply Hni. apply (in_map snd) in H2. exact H2.
  - inversion H2; subst. exfalso. apply Hni. apply (in_map snd) in H1. exact H1.
  - apply IH; assumption.
Qed.

(* ---------------------------------------------------------------------------------------------- *)
(* the array cells visited by the second loop of the batch accessors                              *)
Section Cells.
  Context {X : Type}.
  Implicit Types es : list (N * N * X).

  Definition range_cells (dse : N * (N * N)) : list (N * N) := map (pair (fst dse)) (range (snd dse)).
  (* (data index, element index) in the order the second loop visits them *)
  Definition cells es : list (N * N) := flat_map range_cells (getm_ranges es).

  Lemma cells_usort es :
    cells es = flat_map (fun d => map (pair d) (usort (elem_keys d es))) (data_indices es).
  Proof.
    unfold cells, getm_ranges. rewrite fm_fm. apply flat_map_ext. intro d.
    rewrite fm_map. unfold range_cells; simpl. rewrite <- map_fm. rewrite find_ranges_flat. reflexivity.
  Qed.

  Lemma elem_keys_In es d i : In i (elem_keys d es) <-> In (d, i) (map fst es).
  Proof.
    unfold elem_keys. rewrite in_map_iff. split.
    - intros (e & He & Hin). apply filter_In in Hin as [Hin Hd]. apply N.eqb_eq in Hd.
      apply in_map_iff. exists e. split; [|assumption]. destruct e as [[d0 i0] x]. unfold e_d, e_i in *. simpl in *. congruence.
    - intro Hin. apply in_map_iff in Hin as (e & He & Hin). exists e. destruct e as [[d0 i0] x]. simpl in He.
      inversion He; subst. split; [reflexivity|]. apply filter_In. split; [assumption|]. unfold e_d; simpl. apply N.eqb_refl.
  Qed.

  Lemma cells_In es d i : In (d, i) (cells es) <-> In (d, i) (map fst es).
  Proof.
    rewrite cells_usort, in_flat_map. split.
    - intros (d' & Hd & Hin). apply in_map_iff in Hin as (i' & He & Hin). inversion He; subst.
      apply (proj1 (usort_In _ _)) in Hin. apply elem_keys_In; assumption.
    - intro Hin. exists d. split.
      + unfold data_indices. apply usort_In. apply in_map_iff in Hin as (e & He & Hin).
        apply in_map_iff. exists e. split; [|assumption]. destruct e as [[d0 i0] x]. simpl in He. inversion He; reflexivity.
      + apply in_map. apply usort_In. apply elem_keys_In; assumption.
  Qed.

  Lemma cells_NoDup es : NoDup (cells es).
  Proof.
    rewrite cells_usort. apply NoDup_flat_map.
    - apply usort_NoDup.
    - intros d _. apply NoDup_map_injective; [|apply usort_NoDup]. intros x y _ _ H; inversion H; reflexivity.
    - intros d d' a _ _ Hne Ha Ha'. apply in_map_iff in Ha as (i & <- & _). apply in_map_iff in Ha' as (i' & He & _).
      inversion He; subst. apply Hne; reflexivity.
  Qed.

  Lemma last_val_Some es d i x : last_val d i es = Some x -> In (d, i, x) es.
  Proof.
    induction es as [|e es IH]; simpl; [discriminate|].
    destruct (last_val d i es) as [y|] eqn:E.
    - intro H; inversion H; subst. right; apply IH; reflexivity.
    - destruct ((e_d e =? d) && (e_i e =? i)) eqn:Eb; [|discriminate].
      intro H; inversion H; subst. apply andb_true_iff in Eb as [E1 E2]. apply N.eqb_eq in E1, E2.
      left. destruct e as [[d0 i0] x0]. unfold e_d, e_i in *. simpl in *. congruence.
  Qed.

  Lemma last_val_In es d i x : NoDup (map fst es) -> In (d, i, x) es -> last_val d i es = Some x.
  Proof.
    induction es as [|e es IH]; simpl; intros Hnd Hin; [contradiction|].
    inversion Hnd as [|? ? Hni Hnd']; subst. destruct Hin as [->|Hin].
    - destruct (last_val d i es) as [y|] eqn:E.
      + exfalso. apply Hni. apply last_val_Some in E. apply (in_map fst) in E. exact E.
      + unfold e_d, e_i; simpl. rewrite !N.eqb_refl. reflexivity.
    - rewrite (IH Hnd' Hin). reflexivity.
  Qed.
End Cells.

Lemma range_nrange se : nrange (fst se) (N.to_nat (snd se + 1 - fst se)) = range se.
Proof. reflexivity. Qed.

(* ---------------------------------------------------------------------------------------------- *)
Section Batch.
  Context (lower : str -> str) (b : list (str * desc)).
  Notation lookup := (lookup_ci lower b).

  Lemma lookup_ci_In n d : lookup n = Some d -> exists k, In (k, d) b /\ lower k = lower n.
  Proof.
    unfold lookup_ci. destruct (find _ b) as [[k d0]|] eqn:E; [|discriminate].
    intro H; inversion H; subst. apply find_some in E as [Hin Heq]. simpl in Heq.
    apply str_eqb_spec in Heq. exists k. split; [assumption | congruence].
  Qed.

  Lemma lookup_ci_inj n1 n2 d : NoDup (map snd b) -> lookup n1 = Some d -> lookup n2 = Some d -> lower n1 = lower n2.
  Proof.
    intros Hnd H1 H2. apply lookup_ci_In in H1 as (k1 & Hi1 & He1), H2 as (k2 & Hi2 & He2).
    rewrite (NoDup_snd_inj _ _ _ _ Hnd Hi1 Hi2) in He1. congruence.
  Qed.

  (* every bound name resolves, through the case-insensitive lookup, to its own descriptor *)
  Lemma lookup_ci_own n d : NoDup (map (fun kv => lower (fst kv)) b) -> In (n, d) b -> lookup n = Some d.
  Proof.
    unfold lookup_ci. induction b as [|[k d0] l IH]; simpl; intros Hnd Hin; [contradiction|].
    inversion Hnd as [|? ? Hni Hnd']; subst. destruct Hin as [Hin|Hin].
    - inversion Hin; subst. rewrite (proj2 (str_eqb_spec _ _) eq_refl). reflexivity.
    - destruct (str_eqb (lower n) (lower k)) eqn:E; [|apply IH; assumption].
      apply str_eqb_spec in E. exfalso. apply Hni. rewrite <- E.
      apply in_map_iff. exists (n, d). split; [reflexivity | assumption].
  Qed.

  (* ---- writes ---------------------------------------------------------------------------- *)
  Definition well_typed (ps : list (str * value)) : Prop :=
    forall n v, In (n, v) ps -> exists d, lookup n = Some d /\ (forall i, d = Par i -> is_int v = true).

  (* the registers bound to the names, with the values meant for them *)
  Definition bound_writes (ps : list (str * value)) : list (reg * value) :=
    flat_map (fun p => match lookup (fst p) with Some d => [(reg_of d, snd p)] | None => [] end) ps.
  Definition each_calls (ps : list (str * value)) : list call :=
    flat_map (fun p => match lookup (fst p) with
                       | Some (Par i) => [CSetPar i (snd p)]
                       | Some (FPar i) => [CSetFPar i (snd p)]
                       | Some (Elem d i) => [CSetData d i [snd p]]
                       | None => []
                       end) ps.
  Definition p1_calls (ps : list (str * value)) : list call :=
    flat_map (fun p => match lookup (fst p) with
                       | Some (Par i) => [CSetPar i (snd p)]
                       | Some (FPar i) => [CSetFPar i (snd p)]
                       | _ => []
                       end) ps.
  Definition p1_elems (ps : list (str * value)) : list (N * N * value) :=
    flat_map (fun p => match lookup (fst p) with Some (Elem d i) => [(d, i, snd p)] | _ => [] end) ps.
  Definition is_data (w : reg * value) : bool := match fst w with RData _ _ => true | _ => false end.
  Definition cell_write (e : N * N * value) : reg * value := (RData (e_d e) (e_i e), snd e).

  Lemma well_typed_tl p ps : well_typed (p :: ps) -> well_typed ps.
  Proof. intros H n v Hin. apply H. right; assumption. Qed.

  Lemma set_par_each_ok ps : forall dv, well_typed ps ->
    set_par_each lower b ps dv = (do_calls (each_calls ps) dv, ROk tt).
  Proof.
    induction ps as [|[n v] ps IH]; intros dv Hwt; [reflexivity|].
    destruct (Hwt n v (or_introl eq_refl)) as (d & Hd & Hint).
    pose proof (well_typed_tl _ _ Hwt) as Hwt'.
    unfold each_calls. simpl. fold (each_calls ps). unfold set_par. rewrite Hd.
    destruct d as [i|i|d i]; [rewrite (Hint i eq_refl)| |]; rewrite IH by assumption; reflexivity.
  Qed.

  Lemma each_calls_writes ps : flat_map writes_of_call (each_calls ps) = bound_writes ps.
  Proof.
    unfold each_calls, bound_writes. rewrite fm_fm. apply flat_map_ext. intros [n v]; simpl.
    destruct (lookup n) as [[i|i|d i]|]; reflexivity.
  Qed.

  Lemma setm_phase1_ok ps : forall dv es, well_typed ps ->
    setm_phase1 lower b ps dv es = (do_calls (p1_calls ps) dv, es ++ p1_elems ps, ROk tt).
  Proof.
    induction ps as [|[n v] ps IH]; intros dv es Hwt; [simpl; rewrite app_nil_r; reflexivity|].
    destruct (Hwt n v (or_introl eq_refl)) as (d & Hd & Hint).
    pose proof (well_typed_tl _ _ Hwt) as Hwt'.
    unfold p1_calls, p1_elems. simpl. fold (p1_calls ps). fold (p1_elems ps). rewrite Hd.
    destruct d as [i|i|d i]; [rewrite (Hint i eq_refl)| |]; rewrite IH by assumption; simpl;
      try rewrite <- app_assoc; reflexivity.
  Qed.

  Lemma p1_calls_writes ps : flat_map writes_of_call (p1_calls ps) = filter (fun w => negb (is_data w)) (bound_writes ps).
  Proof.
    unfold p1_calls, bound_writes. induction ps as [|[n v] ps IH]; [reflexivity|]. simpl.
    rewrite flat_map_app, filter_app, IH. f_equal.
    destruct (lookup n) as [[i|i|d i]|]; reflexivity.
  Qed.

  Lemma p1_elems_writes ps : map cell_write (p1_elems ps) = filter is_data (bound_writes ps).
  Proof.
    unfold p1_elems, bound_writes. induction ps as [|[n v] ps IH]; [reflexivity|]. simpl.
    rewrite map_app, filter_app, IH. f_equal.
    destruct (lookup n) as [[i|i|d i]|]; reflexivity.
  Qed.

  Lemma bound_writes_In ps r v :
    In (r, v) (bound_writes ps) <-> exists n d, In (n, v) ps /\ lookup n = Some d /\ r = reg_of d.
  Proof.
    unfold bound_writes. rewrite in_flat_map. split.
    - intros ([n v0] & Hin & Hm). simpl in Hm. destruct (lookup n) as [d|] eqn:E; [|contradiction].
      destruct Hm as [Hm|[]]. inversion Hm; subst. exists n, d. repeat split; assumption.
    - intros (n & d & Hin & Hd & ->). exists (n, v). split; [assumption|]. simpl. rewrite Hd. left; reflexivity.
  Qed.

  Lemma bound_writes_NoDup ps :
    NoDup (map snd b) -> NoDup (map (fun p => lower (fst p)) ps) -> NoDup (map fst (bound_writes ps)).
  Proof.
    intros Hb. induction ps as [|[n v] ps IH]; simpl; intro Hnd; [constructor|].
    inversion Hnd as [|? ? Hni Hnd']; subst.
    unfold bound_writes. simpl. fold (bound_writes ps). rewrite map_app.
    apply NoDup_app_intro; [| apply IH; assumption |].
    - destruct (lookup n); simpl; constructor; [intros [] | constructor].
    - intros r Hr Hin. destruct (lookup n) as [d|] eqn:Ed; simpl in Hr; [|contradiction].
      destruct Hr as [<-|[]]. apply in_map_iff in Hin as ([r' v'] & Hr' & Hin). simpl in Hr'. subst r'.
      apply bound_writes_In in Hin as (n' & d' & Hin & Hd' & Heq). apply reg_of_inj in Heq. subst d'.
      apply Hni. rewrite (lookup_ci_inj _ _ _ Hb Ed Hd'). apply in_map_iff. exists (n', v'). split; [reflexivity | assumption].
  Qed.

  (* the second loop of set_par_multiple writes each visited cell once, with the stored value *)
  Definition valof (es : list (N * N * value)) (c : N * N) : value :=
    match last_val (fst c) (snd c) es with Some v => v | None => VBad end.

  Lemma setm_calls_alt es :
    setm_calls es = map (fun dse => CSetData (fst dse) (fst (snd dse))
                                      (map (fun i => valof es (fst dse, i)) (range (snd dse)))) (getm_ranges es).
  Proof.
    unfold setm_calls, getm_ranges. rewrite map_fm. apply flat_map_ext. intro d. rewrite map_map. reflexivity.
  Qed.

  Lemma setm_calls_writes es :
    flat_map writes_of_call (setm_calls es) = map (fun c => (RData (fst c) (snd c), valof es c)) (cells es).
  Proof.
    rewrite setm_calls_alt, fm_map. unfold cells. rewrite map_fm. apply flat_map_ext. intros [d se]. simpl.
    rewrite map_length. unfold range_cells. simpl. rewrite map_map. simpl.
    replace (nrange (fst se) (length (range se))) with (range se).
    - apply combine_map2.
    - unfold range. rewrite nrange_length. reflexivity.
  Qed.

  Lemma setm_calls_reads es : flat_map reads_of_call (setm_calls es) = [].
  Proof.
    rewrite setm_calls_alt, fm_map. induction (getm_ranges es) as [|x l IH]; simpl; [reflexivity | exact IH].
  Qed.

  Lemma p1_calls_reads ps : flat_map reads_of_call (p1_calls ps) = [].
  Proof.
    unfold p1_calls. rewrite fm_fm. induction ps as [|[n v] ps IH]; simpl; [reflexivity|]. rewrite IH.
    destruct (lookup n) as [[i|i|d i]|]; reflexivity.
  Qed.

  Lemma setm_writes_equiv es : NoDup (map fst es) ->
    forall w, In w (flat_map writes_of_call (setm_calls es)) <-> In w (map cell_write es).
  Proof.
    intros Hnd [r v]. rewrite setm_calls_writes, !in_map_iff. split.
    - intros ([d i] & Heq & Hin). inversion Heq; subst. simpl in *. apply cells_In in Hin.
      apply in_map_iff in Hin as ([[d0 i0] x] & He & Hin). simpl in He. inversion He; subst.
      exists (d, i, x). split; [|assumption]. unfold cell_write, valof, e_d, e_i; simpl.
      rewrite (last_val_In _ _ _ _ Hnd Hin). reflexivity.
    - intros ([[d i] x] & Heq & Hin). unfold cell_write, e_d, e_i in Heq. simpl in Heq. inversion Heq; subst.
      exists (d, i). split.
      + unfold valof; simpl. rewrite (last_val_In _ _ _ _ Hnd Hin). reflexivity.
      + apply cells_In. apply in_map_iff. exists (d, i, v). split; [reflexivity | assumption].
  Qed.

  Lemma setm_writes_NoDup es : NoDup (map fst (flat_map writes_of_call (setm_calls es))).
  Proof.
    rewrite setm_calls_writes, map_map. simpl.
    apply NoDup_map_injective; [|apply cells_NoDup].
    intros [d i] [d' i'] _ _ H. simpl in H. inversion H; reflexivity.
  Qed.

  Lemma cell_write_keys es : map fst (map cell_write es) = map (fun c => RData (fst c) (snd c)) (map fst es).
  Proof. rewrite !map_map. apply map_ext. intros [[d i] x]. reflexivity. Qed.

  Theorem batch_write ps dv :
    NoDup (map snd b) -> NoDup (map (fun p => lower (fst p)) ps) -> well_typed ps ->
    exists cs,
      set_par_multiple lower b ps dv = (do_calls cs dv, ROk tt) /\
      set_par_each lower b ps dv = (do_calls (each_calls ps) dv, ROk tt) /\
      (forall r, regs (do_calls cs dv) r = regs (do_calls (each_calls ps) dv) r) /\
      Permutation (flat_map writes_of_call cs) (bound_writes ps) /\
      flat_map writes_of_call (each_calls ps) = bound_writes ps /\
      flat_map reads_of_call cs = [].
  Proof.
    intros Hb Hps Hwt.
    exists (p1_calls ps ++ setm_calls (p1_elems ps)).
    pose proof (bound_writes_NoDup ps Hb Hps) as Hbw.
    (* element insertions have pairwise distinct cells *)
    assert (Hes : NoDup (map fst (p1_elems ps))).
    { pose proof (NoDup_map_filter fst is_data _ Hbw) as H. rewrite <- p1_elems_writes, cell_write_keys in H.
      apply NoDup_map_inv in H. exact H. }
    set (W := flat_map writes_of_call (p1_calls ps ++ setm_calls (p1_elems ps))).
    assert (HW : W = filter (fun w => negb (is_data w)) (bound_writes ps)
                     ++ flat_map writes_of_call (setm_calls (p1_elems ps))).
    { unfold W. rewrite flat_map_app, p1_calls_writes. reflexivity. }
    assert (Hin : forall w, In w W <-> In w (bound_writes ps)).
    { intro w. rewrite HW, in_app_iff, (setm_writes_equiv _ Hes), p1_elems_writes, !filter_In.
      destruct (is_data w); simpl; intuition discriminate. }
    assert (HWnd : NoDup (map fst W)).
    { rewrite HW, map_app. apply NoDup_app_intro.
      - apply NoDup_map_filter; assumption.
      - apply setm_writes_NoDup.
      - intros r Hr Hr'. apply in_map_iff in Hr as (w & <- & Hw). apply filter_In in Hw as [_ Hw].
        apply in_map_iff in Hr' as (w' & He & Hw'). rewrite setm_calls_writes in Hw'.
        apply in_map_iff in Hw' as (c & <- & _). simpl in He. unfold is_data in Hw. rewrite <- He in Hw. discriminate. }
    split; [|split; [|split; [|split; [|split]]]].
    - unfold set_par_multiple. rewrite setm_phase1_ok by assumption. simpl. rewrite do_calls_app. reflexivity.
    - apply set_par_each_ok; assumption.
    - intro r. rewrite !do_calls_regs, each_calls_writes. apply apply_writes_equiv; assumption.
    - apply NoDup_Permutation; [eapply NoDup_map_inv; exact HWnd | eapply NoDup_map_inv; exact Hbw | exact Hin].
    - apply each_calls_writes.
    - rewrite flat_map_app, p1_calls_reads, setm_calls_reads. reflexivity.
  Qed.

  (* ---- reads ----------------------------------------------------------------------------- *)
  Definition all_bound (ns : list str) : Prop := forall n, In n ns -> exists d, lookup n = Some d.

  Definition bound_regs (ns : list str) : list reg :=
    flat_map (fun n => match lookup n with Some d => [reg_of d] | None => [] end) ns.
  (* the result of the one-by-one reads: each name with the content of its register *)
  Definition each_reads (rf : regfile) (ns : list str) : list (str * value) :=
    flat_map (fun n => match lookup n with Some d => [(n, rf (reg_of d))] | None => [] end) ns.
  Definition each_gcalls (ns : list str) : list call :=
    flat_map (fun n => match lookup n with
                       | Some (Par i) => [CGetPar i] | Some (FPar i) => [CGetFPar i]
                       | Some (Elem d i) => [CGetData d i 1] | None => [] end) ns.
  Definition g1_calls (ns : list str) : list call :=
    flat_map (fun n => match lookup n with
                       | Some (Par i) => [CGetPar i] | Some (FPar i) => [CGetFPar i] | _ => [] end) ns.
  Definition g1_asg (rf : regfile) (ns : list str) : list (str * value) :=
    flat_map (fun n => match lookup n with
                       | Some (Par i) => [(n, rf (RPar i))] | Some (FPar i) => [(n, rf (RFPar i))] | _ => [] end) ns.
  Definition g1_elems (ns : list str) : list (N * N * str) :=
    flat_map (fun n => match lookup n with Some (Elem d i) => [(d, i, n)] | _ => [] end) ns.

  Lemma all_bound_tl n ns : all_bound (n :: ns) -> all_bound ns.
  Proof. intros H m Hin. apply H. right; assumption. Qed.

  Definition reads_only (cs : list call) : Prop := flat_map writes_of_call cs = [].

  Lemma reads_only_regs cs dv : reads_only cs -> regs (do_calls cs dv) = regs dv.
  Proof. intro H. rewrite do_calls_regs, H. reflexivity. Qed.

  Lemma get_par_each_ok ns : forall dv, all_bound ns ->
    get_par_each lower b ns dv = (do_calls (each_gcalls ns) dv, ROk (each_reads (regs dv) ns)).
  Proof.
    induction ns as [|n ns IH]; intros dv Hb; [reflexivity|].
    destruct (Hb n (or_introl eq_refl)) as (d & Hd). pose proof (all_bound_tl _ _ Hb) as Hb'.
    unfold each_gcalls, each_reads. simpl. fold (each_gcalls ns). fold (each_reads (regs dv) ns).
    unfold get_par. rewrite Hd.
    destruct d as [i|i|d i]; rewrite IH by assumption; reflexivity.
  Qed.

  Lemma getm_phase1_ok ns : forall dv asg es, all_bound ns ->
    getm_phase1 lower b ns dv asg es =
      (do_calls (g1_calls ns) dv, asg ++ g1_asg (regs dv) ns, es ++ g1_elems ns, ROk tt).
  Proof.
    induction ns as [|n ns IH]; intros dv asg es Hb; [simpl; rewrite !app_nil_r; reflexivity|].
    destruct (Hb n (or_introl eq_refl)) as (d & Hd). pose proof (all_bound_tl _ _ Hb) as Hb'.
    unfold g1_calls, g1_asg, g1_elems. simpl.
    fold (g1_calls ns). fold (g1_asg (regs dv) ns). fold (g1_elems ns). rewrite Hd.
    destruct d as [i|i|d i]; rewrite IH by assumption; simpl; rewrite <- ?app_assoc; reflexivity.
  Qed.

  Lemma g1_calls_ro ns : reads_only (g1_calls ns).
  Proof.
    unfold reads_only, g1_calls. rewrite fm_fm. induction ns as [|n ns IH]; simpl; [reflexivity|]. rewrite IH.
    destruct (lookup n) as [[i|i|d i]|]; reflexivity.
  Qed.
  Lemma getm_calls_ro {X} (es : list (N * N * X)) cs :
    cs = map (fun dse => CGetData (fst dse) (fst (snd dse)) (snd (snd dse) + 1 - fst (snd dse))) (getm_ranges es) ->
    reads_only cs.
  Proof. intros ->. unfold reads_only. rewrite fm_map. induction (getm_ranges es); simpl; [reflexivity | assumption]. Qed.

  Definition nameof (es : list (N * N * str)) (c : N * N) : str :=
    match last_val (fst c) (snd c) es with Some n => n | None => bad_name end.

  Lemma getm_asg_cells rf es : getm_asg rf es = map (fun c => (nameof es c, rf (RData (fst c) (snd c)))) (cells es).
  Proof.
    unfold getm_asg, cells. rewrite map_fm. apply flat_map_ext. intros [d se]. simpl.
    unfold read_list. rewrite range_nrange. unfold range_cells. simpl. rewrite map_map. simpl.
    apply combine_map2.
  Qed.

  Lemma getm_calls_reads es :
    flat_map reads_of_call (getm_calls es) = map (fun c => RData (fst c) (snd c)) (cells es).
  Proof.
    unfold getm_calls, cells. rewrite fm_map, map_fm. apply flat_map_ext. intros [d se]. simpl.
    rewrite range_nrange. unfold range_cells; simpl. rewrite map_map. reflexivity.
  Qed.

  Definition is_datar (r : reg) : bool := match r with RData _ _ => true | _ => false end.

  Lemma g1_reads ns : flat_map reads_of_call (g1_calls ns) = filter (fun r => negb (is_datar r)) (bound_regs ns).
  Proof.
    unfold g1_calls, bound_regs. induction ns as [|n ns IH]; [reflexivity|]. simpl.
    rewrite flat_map_app, filter_app, IH. f_equal. destruct (lookup n) as [[i|i|d i]|]; reflexivity.
  Qed.
  Lemma g1_elems_regs ns :
    map (fun e => RData (e_d e) (e_i e)) (g1_elems ns) = filter is_datar (bound_regs ns).
  Proof.
    unfold g1_elems, bound_regs. induction ns as [|n ns IH]; [reflexivity|]. simpl.
    rewrite map_app, filter_app, IH. f_equal. destruct (lookup n) as [[i|i|d i]|]; reflexivity.
  Qed.

  Lemma bound_regs_In ns r : In r (bound_regs ns) <-> exists n d, In n ns /\ lookup n = Some d /\ r = reg_of d.
  Proof.
    unfold bound_regs. rewrite in_flat_map. split.
    - intros (n & Hin & Hm). destruct (lookup n) as [d|] eqn:E; [|contradiction]. destruct Hm as [<-|[]].
      exists n, d. repeat split; assumption.
    - intros (n & d & Hin & Hd & ->). exists n. split; [assumption|]. rewrite Hd. left; reflexivity.
  Qed.

  Lemma bound_regs_NoDup ns : NoDup (map snd b) -> NoDup (map lower ns) -> NoDup (bound_regs ns).
  Proof.
    intros Hb. induction ns as [|n ns IH]; simpl; intro Hnd; [constructor|].
    inversion Hnd as [|? ? Hni Hnd']; subst. unfold bound_regs; simpl. fold (bound_regs ns).
    apply NoDup_app_intro; [| apply IH; assumption |].
    - destruct (lookup n); constructor; [intros [] | constructor].
    - intros r Hr Hin. destruct (lookup n) as [d|] eqn:Ed; [|contradiction]. destruct Hr as [<-|[]].
      apply bound_regs_In in Hin as (n' & d' & Hin & Hd' & Heq). apply reg_of_inj in Heq; subst d'.
      apply Hni. rewrite (lookup_ci_inj _ _ _ Hb Ed Hd'). apply in_map; assumption.
  Qed.

  Lemma g1_elems_In ns d i n : In (d, i, n) (g1_elems ns) <-> In n ns /\ lookup n = Some (Elem d i).
  Proof.
    unfold g1_elems. rewrite in_flat_map. split.
    - intros (m & Hin & Hm). destruct (lookup m) as [[j|j|d0 i0]|] eqn:E; try contradiction.
      destruct Hm as [Hm|[]]. inversion Hm; subst. split; assumption.
    - intros [Hin Hd]. exists n. split; [assumption|]. rewrite Hd. left; reflexivity.
  Qed.

  Lemma g1_asg_In rf ns n v : In (n, v) (g1_asg rf ns) <->
    In n ns /\ exists d, lookup n = Some d /\ is_datar (reg_of d) = false /\ v = rf (reg_of d).
  Proof.
    unfold g1_asg. rewrite in_flat_map. split.
    - intros (m & Hin & Hm). destruct (lookup m) as [[j|j|d0 i0]|] eqn:E; try contradiction;
        destruct Hm as [Hm|[]]; inversion Hm; subst; (split; [assumption|]); eexists; repeat split; try eassumption; reflexivity.
    - intros [Hin (d & Hd & Hnd & ->)]. exists n. split; [assumption|]. rewrite Hd.
      destruct d; simpl in *; try discriminate; left; reflexivity.
  Qed.

  Lemma each_reads_In rf ns n v : In (n, v) (each_reads rf ns) <-> In n ns /\ exists d, lookup n = Some d /\ v = rf (reg_of d).
  Proof.
    unfold each_reads. rewrite in_flat_map. split.
    - intros (m & Hin & Hm). destruct (lookup m) as [d|] eqn:E; [|contradiction].
      destruct Hm as [Hm|[]]. inversion Hm; subst. split; [assumption|]. exists d; split; [assumption | reflexivity].
    - intros [Hin (d & Hd & ->)]. exists n. split; [assumption|]. rewrite Hd. left; reflexivity.
  Qed.

  Theorem batch_read ns dv :
    NoDup (map snd b) -> NoDup (map lower ns) -> all_bound ns ->
    exists cs asg,
      get_par_multiple lower b ns dv = (do_calls cs dv, ROk asg) /\
      get_par_each lower b ns dv = (do_calls (each_gcalls ns) dv, ROk (each_reads (regs dv) ns)) /\
      (forall n v, In (n, v) asg <-> In (n, v) (each_reads (regs dv) ns)) /\
      reads_only cs /\ reads_only (each_gcalls ns) /\
      Permutation (flat_map reads_of_call cs) (bound_regs ns).
  Proof.
    intros Hb Hns Hbd.
    exists (g1_calls ns ++ getm_calls (g1_elems ns)), (g1_asg (regs dv) ns ++ getm_asg (regs dv) (g1_elems ns)).
    pose proof (bound_regs_NoDup ns Hb Hns) as Hbr.
    assert (Hes : NoDup (map fst (g1_elems ns))).
    { pose proof (NoDup_filter is_datar Hbr) as H. rewrite <- g1_elems_regs in H.
      replace (map (fun e : N * N * str => RData (e_d e) (e_i e)) (g1_elems ns))
        with (map (fun c => RData (fst c) (snd c)) (map fst (g1_elems ns))) in H
        by (rewrite map_map; apply map_ext; intros [[? ?] ?]; reflexivity).
      apply NoDup_map_inv in H. exact H. }
    assert (Hnames : NoDup ns) by (eapply NoDup_map_inv; exact Hns).
    split; [|split; [|split; [|split; [|split]]]].
    - unfold get_par_multiple. rewrite getm_phase1_ok by assumption. simpl.
      rewrite (reads_only_regs _ _ (g1_calls_ro ns)). rewrite do_calls_app. reflexivity.
    - apply get_par_each_ok; assumption.
    - intros n v. rewrite in_app_iff, g1_asg_In, each_reads_In, getm_asg_cells, in_map_iff. split.
      + intros [[Hin (d & Hd & _ & ->)]|([d i] & Heq & Hc)].
        * split; [assumption|]. exists d; split; [assumption | reflexivity].
        * inversion Heq; subst. simpl. apply cells_In in Hc. apply in_map_iff in Hc as ([[d0 i0] m] & He & Hin).
          simpl in He; inversion He; subst. unfold nameof; simpl. rewrite (last_val_In _ _ _ _ Hes Hin).
          apply g1_elems_In in Hin as [Hin Hd]. split; [assumption|]. exists (Elem d i); split; [assumption | reflexivity].
      + intros [Hin (d & Hd & ->)]. destruct d as [i|i|d i].
        * left. split; [assumption|]. exists (Par i). repeat split; assumption.
        * left. split; [assumption|]. exists (FPar i). repeat split; assumption.
        * right. exists (d, i). assert (Hin' : In (d, i, n) (g1_elems ns)) by (apply g1_elems_In; split; assumption).
          split.
          -- unfold nameof; simpl. rewrite (last_val_In _ _ _ _ Hes Hin'). reflexivity.
          -- apply cells_In. apply in_map_iff. exists (d, i, n). split; [reflexivity | assumption].
    - unfold reads_only. rewrite flat_map_app. rewrite (g1_calls_ro ns). apply (getm_calls_ro (g1_elems ns)). reflexivity.
    - unfold reads_only, each_gcalls. rewrite fm_fm. clear. induction ns as [|n ns IH]; simpl; [reflexivity|]. rewrite IH.
      destruct (lookup n) as [[i|i|d i]|]; reflexivity.
    - apply NoDup_Permutation; [| assumption |].
      + rewrite flat_map_app, g1_reads, getm_calls_reads. apply NoDup_app_intro.
        * apply NoDup_filter; assumption.
        * apply NoDup_map_injective; [|apply cells_NoDup]. intros [d i] [d' i'] _ _ H; simpl in H; inversion H; reflexivity.
        * intros r Hr Hr'. apply filter_In in Hr as [_ Hr]. apply in_map_iff in Hr' as (c & <- & _). discriminate.
      + intro r. rewrite flat_map_app, in_app_iff, g1_reads, getm_calls_reads, filter_In, in_map_iff. split.
        * intros [[Hin _]|([d i] & <- & Hc)]; [assumption|]. simpl.
          apply cells_In in Hc. apply in_map_iff in Hc as ([[d0 i0] m] & He & Hin). simpl in He; inversion He; subst.
          apply g1_elems_In in Hin as [Hin Hd]. apply bound_regs_In. exists m, (Elem d i). repeat split; assumption.
        * intro Hin. destruct (is_datar r) eqn:Er; [right | left; split; [assumption | reflexivity]].
          apply bound_regs_In in Hin as (n & d & Hin & Hd & ->). destruct d as [i|i|d i]; try discriminate.
          exists (d, i). split; [reflexivity|]. apply cells_In. apply in_map_iff. exists (d, i, n).
          split; [reflexivity | apply g1_elems_In; split; assumption].
  Qed.

  (* a one-by-one read returns the content of the bound register and writes nothing *)
  Lemma get_par_value n d dv : lookup n = Some d -> snd (get_par lower b n dv) = ROk (regs dv (reg_of d)).
  Proof. intro H. unfold get_par. rewrite H. destruct d; reflexivity. Qed.
End Batch.

(* the python dict built from a functional list of assignments has exactly those items *)
Lemma dict_of_In asg : (forall n v v', In (n, v) asg -> In (n, v') asg -> v = v') ->
  forall n v, In (n, v) (dict_of asg) <-> In (n, v) asg.
Proof.
  unfold dict_of. intro Hfun.
  assert (G : forall (asg acc : list (str * value)), NoDup (map fst acc) ->
            (forall n v v', In (n, v) (acc ++ asg) -> In (n, v') (acc ++ asg) -> v = v') ->
            NoDup (map fst (fold_left (fun d kv => dset str_eqb (fst kv) (snd kv) d) asg acc)) /\
            forall n v, In (n, v) (fold_left (fun d kv => dset str_eqb (fst kv) (snd kv) d) asg acc) <-> In (n, v) (acc ++ asg)).
  { clear. induction asg as [|[k x] asg IH]; intros acc Hnd Hfun; simpl.
    - rewrite app_nil_r. split; [assumption | reflexivity].
    - assert (Hnd' : NoDup (map fst (dset str_eqb k x acc))) by (apply (dset_NoDup _ str_eqb_spec); assumption).
      assert (Heq : forall n v, In (n, v) (dset str_eqb k x acc ++ asg) <-> In (n, v) (acc ++ (k, x) :: asg)).
      { intros n v. rewrite !in_app_iff, (In_dset _ str_eqb_spec) by assumption. simpl. split.
        - intros [[[-> ->]|[_ H]]|H]; auto.
        - intros [H|[H|H]]; auto.
          + destruct (str_eqb n k) eqn:E.
            * apply str_eqb_spec in E; subst. left; left. split; [reflexivity|].
              apply (Hfun k v x); apply in_app_iff; [left; assumption | right; left; reflexivity].
            * left; right. split; [|assumption]. intro; subst. rewrite (proj2 (str_eqb_spec _ _) eq_refl) in E. discriminate.
          + inversion H; subst. left; left; split; reflexivity. }
      destruct (IH (dset str_eqb k x acc) Hnd') as [H1 H2].
      + intros n v v' Ha Hb. apply Heq in Ha, Hb. eapply Hfun; eassumption.
      + split; [assumption|]. intros n v. rewrite H2. apply Heq. }
  intros n v. destruct (G asg [] (NoDup_nil _) Hfun) as [_ H]. apply H.
Qed.
