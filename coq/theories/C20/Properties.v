(* C20 — property theorems only.  Each is closed by [exact] of a lemma of Proofs*.v and followed by
   Print Assumptions.  All statements are for EVERY symbol list / name list / register file
   (unbounded, proved by induction), about the very functions the correspondence check evaluates
   against qmi.utils.adbasic_parser and qmi.utils.adwin_manager.AdwinProcess.

   [upper] / [lower] stand for str.upper / str.lower and are arbitrary functions: the binding theorems
   need no law at all; the composition theorems need  lower a = lower c -> upper a = upper c
   (true of ASCII case mapping: C20_ascii_case_law).

   Vocabulary (definitions in ProofsBinding.v / ProofsBatch.v):
     data_defs upper syms, par_defs upper di syms : the recognised DATA_ / PAR_ definitions of a
        symbol list, in order, as (name, Data index) / (name, descriptor);
     one_to_one upper l : keys of l pairwise distinct, and two entries whose names are equal under
        upper, or whose registers are equal, are the same entry;
     conflict upper defs n r : some (n', r') in defs has  upper n' = upper n with n' <> n, or n' = n
        with r' <> r, or r' = r with n' <> n;
     offending upper syms pre s : s is a DATA_ definition in conflict with the DATA_ definitions of
        pre, or (the DATA_ pass having succeeded) s is a PAR_ definition that refers to an unknown
        array or is in conflict with the PAR_ definitions of pre;
     writes_of_call / reads_of_call : the (register, value) pairs written / registers read by one
        call on the ADwin interface;  bound_writes lower b ps : for each (name, value) of ps the pair
        (register bound to name, value);  bound_regs lower b ns : the registers bound to ns;
     well_typed lower b ps : every name of ps is bound and a value meant for a Par register is an int;
     each_calls / each_gcalls / each_reads : calls made and (name, value) results of set_par /
        get_par applied one name at a time. *)
Require Import QV.C20.Proofs.
From Coq Require Import Sorted Permutation.
Local Open Scope N_scope.

(* ---- binding -------------------------------------------------------------------------------- *)

(* An accepted program yields a binding that is a function (one descriptor per name), whose names are
   pairwise distinct under case folding and whose registers are pairwise distinct — for parameters
   (Par / FPar / array element) and for arrays (Data index). *)
Theorem C20_binding_injective : forall upper syms b,
  analyze upper syms = Ok b -> one_to_one upper (param b) /\ one_to_one upper (data b).
Proof. exact binding_injective. Qed.
Print Assumptions C20_binding_injective.

(* The binding is exactly the set of recognised definitions of the program (nothing invented, nothing
   dropped), and every array element descriptor refers to a bound array. *)
Theorem C20_binding_exact : forall upper syms b,
  analyze upper syms = Ok b ->
  (forall n i, In (n, i) (data b) <-> In (n, i) (data_defs upper syms)) /\
  (forall n d, In (n, d) (param b) <-> In (n, d) (par_defs upper (data b) syms)) /\
  (forall n d i, In (n, Elem d i) (param b) -> exists a, In (a, d) (data b)).
Proof. exact binding_exact. Qed.
Print Assumptions C20_binding_exact.

(* A rejected program: the ParseException names file and line of a symbol of the program that is an
   offending definition (clashes with an earlier recognised definition, or refers to an unknown array). *)
Theorem C20_reject_located : forall upper syms f l,
  analyze upper syms = ParseErr f l ->
  exists pre s post, syms = pre ++ s :: post /\ s_file s = f /\ s_line s = l /\ offending upper syms pre s.
Proof. exact reject_located. Qed.
Print Assumptions C20_reject_located.

(* Conversely a program containing two clashing recognised definitions is never accepted. *)
Theorem C20_conflict_rejected : forall upper syms b,
  analyze upper syms = Ok b ->
  (forall n i, In (n, i) (data_defs upper syms) -> ~ conflict upper (data_defs upper syms) n i) /\
  (forall n d, In (n, d) (par_defs upper (data b) syms) -> ~ conflict upper (par_defs upper (data b) syms) n d).
Proof. exact conflict_rejected. Qed.
Print Assumptions C20_conflict_rejected.

(* A symbol that already occurred earlier in the list (same file, line, label, value: the same #Define line
   reached again because its file is included a second time) changes nothing: neither the binding nor which
   error is reported.  So a scanner that parses every included file once and one that re-parses repeated
   includes yield the same binding / the same located error; the correspondence normalises symbol lists
   with [dedup_syms] (first occurrences kept) on the strength of this theorem. *)
Theorem C20_repeated_symbol_ignored : forall upper pre s post,
  In s pre -> analyze upper (pre ++ s :: post) = analyze upper (pre ++ post).
Proof. exact analyze_repeat. Qed.
Print Assumptions C20_repeated_symbol_ignored.

Theorem C20_repeated_symbols_ignored : forall upper l, analyze upper (dedup_syms l) = analyze upper l.
Proof. exact analyze_dedup. Qed.
Print Assumptions C20_repeated_symbols_ignored.

(* With ASCII case folding the analysis always ends in a binding or a located parse error. *)
Theorem C20_ascii_total : forall syms, analyze ascii_upper syms <> Crash.
Proof. exact ascii_no_crash. Qed.
Print Assumptions C20_ascii_total.

Theorem C20_ascii_case_law : forall a b, ascii_lower a = ascii_lower b -> ascii_upper a = ascii_upper b.
Proof. exact ascii_case_law. Qed.
Print Assumptions C20_ascii_case_law.

(* Every name of a parsed binding, in any spelling, resolves to its own register. *)
Theorem C20_name_resolves : forall upper lower syms b,
  (forall a c, lower a = lower c -> upper a = upper c) ->
  analyze upper syms = Ok b ->
  forall n d n', In (n, d) (param b) -> lower n' = lower n -> lookup_ci lower (param b) n' = Some d.
Proof. exact parsed_name_resolves. Qed.
Print Assumptions C20_name_resolves.

(* ---- _find_sequential_ranges ---------------------------------------------------------------- *)

(* The ranges enumerate exactly the input, sorted and without repeats ... *)
Theorem C20_ranges : forall l,
  StronglySorted N.lt (flat_map range (find_ranges l)) /\
  (forall x, In x (flat_map range (find_ranges l)) <-> In x l).
Proof. exact find_ranges_spec. Qed.
Print Assumptions C20_ranges.

(* ... each is non-empty, and between consecutive ranges at least one number is missing (disjoint,
   and maximal: no range can be extended or merged with its neighbour). *)
Theorem C20_ranges_maximal_disjoint : forall l,
  Forall (fun r => fst r <= snd r) (find_ranges l) /\
  (forall l1 r1 r2 l2, find_ranges l = l1 ++ r1 :: r2 :: l2 -> snd r1 + 1 < fst r2).
Proof. exact find_ranges_maximal_disjoint. Qed.
Print Assumptions C20_ranges_maximal_disjoint.

(* ---- batch access --------------------------------------------------------------------------- *)

(* set_par_multiple on names that are bound, pairwise distinct up to case, with type-correct values,
   over a binding with pairwise distinct registers: succeeds, as the one-by-one set_par calls do;
   leaves the register file equal to theirs; writes exactly the bound registers, each once, with
   the value given for it (as the one-by-one calls do); reads nothing. *)
Theorem C20_batch_write : forall lower b ps dv,
  NoDup (map snd b) -> NoDup (map (fun p => lower (fst p)) ps) -> well_typed lower b ps ->
  exists cs,
    set_par_multiple lower b ps dv = (do_calls cs dv, ROk tt) /\
    set_par_each lower b ps dv = (do_calls (each_calls lower b ps) dv, ROk tt) /\
    (forall r, regs (do_calls cs dv) r = regs (do_calls (each_calls lower b ps) dv) r) /\
    Permutation (flat_map writes_of_call cs) (bound_writes lower b ps) /\
    flat_map writes_of_call (each_calls lower b ps) = bound_writes lower b ps /\
    flat_map reads_of_call cs = [].
Proof. exact batch_write. Qed.
Print Assumptions C20_batch_write.

(* get_par_multiple under the same conditions: succeeds, as the one-by-one get_par calls do; its
   result has exactly the (name, value) items of the one-by-one reads; writes nothing (so the
   register file is unchanged); reads exactly the bound registers, each once. *)
Theorem C20_batch_read : forall lower b ns dv,
  NoDup (map snd b) -> NoDup (map lower ns) -> all_bound lower b ns ->
  exists cs asg,
    get_par_multiple lower b ns dv = (do_calls cs dv, ROk asg) /\
    get_par_each lower b ns dv = (do_calls (each_gcalls lower b ns) dv, ROk (each_reads lower b (regs dv) ns)) /\
    (forall n v, In (n, v) asg <-> In (n, v) (each_reads lower b (regs dv) ns)) /\
    reads_only cs /\ reads_only (each_gcalls lower b ns) /\
    Permutation (flat_map reads_of_call cs) (bound_regs lower b ns).
Proof. exact batch_read. Qed.
Print Assumptions C20_batch_read.

(* the python dict returned by get_par_multiple has exactly the items of the one-by-one reads *)
Theorem C20_batch_read_dict : forall lower b ns dv,
  NoDup (map snd b) -> NoDup (map lower ns) -> all_bound lower b ns ->
  exists cs asg,
    get_par_multiple lower b ns dv = (do_calls cs dv, ROk asg) /\
    forall n v, In (n, v) (dict_of asg) <-> In (n, v) (each_reads lower b (regs dv) ns).
Proof. exact batch_read_dict. Qed.
Print Assumptions C20_batch_read_dict.

(* calls that write nothing leave every register as it was; a one-by-one read returns the content of
   the bound register *)
Theorem C20_reads_preserve : forall cs dv, reads_only cs -> regs (do_calls cs dv) = regs dv.
Proof. exact reads_only_regs. Qed.
Print Assumptions C20_reads_preserve.

Theorem C20_get_par_value : forall lower b n d dv,
  lookup_ci lower b n = Some d -> snd (get_par lower b n dv) = ROk (regs dv (reg_of d)).
Proof. exact get_par_value. Qed.
Print Assumptions C20_get_par_value.

(* ---- composition: a binding produced by the parser ------------------------------------------ *)
Theorem C20_parsed_batch_write : forall upper lower syms bd ps dv,
  analyze upper syms = Ok bd ->
  NoDup (map (fun p => lower (fst p)) ps) -> well_typed lower (param bd) ps ->
  exists cs,
    set_par_multiple lower (param bd) ps dv = (do_calls cs dv, ROk tt) /\
    set_par_each lower (param bd) ps dv = (do_calls (each_calls lower (param bd) ps) dv, ROk tt) /\
    (forall r, regs (do_calls cs dv) r = regs (do_calls (each_calls lower (param bd) ps) dv) r) /\
    Permutation (flat_map writes_of_call cs) (bound_writes lower (param bd) ps) /\
    flat_map writes_of_call (each_calls lower (param bd) ps) = bound_writes lower (param bd) ps /\
    flat_map reads_of_call cs = [].
Proof. exact parsed_batch_write. Qed.
Print Assumptions C20_parsed_batch_write.

Theorem C20_parsed_batch_read : forall upper lower syms bd ns dv,
  analyze upper syms = Ok bd ->
  NoDup (map lower ns) -> all_bound lower (param bd) ns ->
  exists cs asg,
    get_par_multiple lower (param bd) ns dv = (do_calls cs dv, ROk asg) /\
    get_par_each lower (param bd) ns dv
      = (do_calls (each_gcalls lower (param bd) ns) dv, ROk (each_reads lower (param bd) (regs dv) ns)) /\
    (forall n v, In (n, v) asg <-> In (n, v) (each_reads lower (param bd) (regs dv) ns)) /\
    reads_only cs /\ reads_only (each_gcalls lower (param bd) ns) /\
    Permutation (flat_map reads_of_call cs) (bound_regs lower (param bd) ns).
Proof. exact parsed_batch_read. Qed.
Print Assumptions C20_parsed_batch_read.

(* ---- non-vacuity ---------------------------------------------------------------------------- *)
(* strings:  "f"=[102]  PAR_x=[80;65;82;95;120]  PAR_X=[80;65;82;95;88]  par_y  DATA_a  PAR_q  PAR_r *)
Definition ex_file : str := [102].
Definition ex_syms : list symbol :=
  [ mkSym ex_file 1 [68;65;84;65;95;97] [68;97;116;97;95;55]                  (* DATA_a Data_7     *)
  ; mkSym ex_file 2 [80;65;82;95;120] [80;97;114;95;51]                       (* PAR_x  Par_3      *)
  ; mkSym ex_file 3 [112;97;114;95;121] [70;80;97;114;95;51]                  (* par_y  FPar_3     *)
  ; mkSym ex_file 4 [80;65;82;95;113] [68;65;84;65;95;65;91;52;93]            (* PAR_q  DATA_A[4]  *)
  ; mkSym ex_file 5 [80;65;82;95;114] [100;97;116;97;95;97;91;53;93]          (* PAR_r  data_a[5]  *)
  ; mkSym ex_file 6 [80;65;82;95;120] [112;97;114;95;48;51] ].                (* PAR_x  par_03 (same again) *)
Definition ex_binding : list (str * desc) := [([120], Par 3); ([121], FPar 3); ([113], Elem 7 4); ([114], Elem 7 5)].

Example C20_example_accept :
  analyze ascii_upper ex_syms = Ok (mkB ex_binding [([97], 7)]).
Proof. vm_compute. reflexivity. Qed.

(* PAR_X after PAR_x: rejected, located at that line; an alias of Par_3 likewise *)
Example C20_example_reject_case :
  analyze ascii_upper (ex_syms ++ [mkSym ex_file 7 [80;65;82;95;88] [80;97;114;95;57]]) = ParseErr ex_file 7.
Proof. vm_compute. reflexivity. Qed.
Example C20_example_reject_alias :
  analyze ascii_upper (ex_syms ++ [mkSym ex_file 8 [80;65;82;95;122] [80;97;114;95;51]]) = ParseErr ex_file 8.
Proof. vm_compute. reflexivity. Qed.

(* the whole example program included a second time: same binding, and the normal form is the single copy *)
Example C20_example_repeat :
  dedup_syms (ex_syms ++ ex_syms) = ex_syms /\
  analyze ascii_upper (ex_syms ++ ex_syms) = analyze ascii_upper ex_syms.
Proof. vm_compute. split; reflexivity. Qed.

Example C20_example_ranges : find_ranges [5; 3; 4; 9; 1; 10; 3] = [(1, 1); (3, 5); (9, 10)].
Proof. vm_compute. reflexivity. Qed.

(* hypotheses of the batch theorems on a concrete instance: names Q, r, X (other spelling) *)
Definition ex_ps : list (str * value) := [([81], VInt 40); ([114], VInt 50); ([88], VInt 9)].
Example C20_example_batch_hyps :
  NoDup (map snd ex_binding) /\ NoDup (map (fun p => ascii_lower (fst p)) ex_ps) /\
  well_typed ascii_lower ex_binding ex_ps.
Proof.
  split; [|split].
  - repeat constructor; simpl; intuition discriminate.
  - repeat constructor; simpl; intuition discriminate.
  - intros n v [H|[H|[H|[]]]]; inversion H; subst; eexists; (split; [vm_compute; reflexivity|]); intros i Hi; try discriminate; reflexivity.
Qed.
(* ... and what the batch write does there: one set_par, one merged set_data for elements 4..5 *)
Example C20_example_batch_write :
  log (fst (set_par_multiple ascii_lower ex_binding ex_ps (mkDev (fun _ => VInt 0) [])))
  = [CSetPar 3 (VInt 9); CSetData 7 4 [VInt 40; VInt 50]].
Proof. vm_compute. reflexivity. Qed.
