(* C20 correspondence: the model's result on a case versus what the harness observed on the real
   qmi.utils.adbasic_parser / qmi.utils.adwin_manager.AdwinProcess (over a simulated ADwin).
   Case folding is instantiated with ASCII upper/lower (the generator emits ASCII identifiers).

   What is compared is what property C20 fixes, nothing more:
   * bindings as MAPS (name -> descriptor, array name -> Data index), not as ordered lists;
     a rejection as (ParseException, file, line);
   * symbol lists modulo repeated inclusion of a file: both sides are normalised with [dedup_syms]
     (theorem C20_repeated_symbols_ignored: the analysis cannot tell the difference);
   * a circular include graph (the pinned traversal runs out of fuel; /repo loops forever): the
     observation may be "did not terminate" (code 98) or the result on the acyclic unfolding
     ([parse_prog_once]) — termination is left open by C20;
   * a batch read returns a map: every key is a requested name carrying the value a single get_par of
     that name returns, and every requested name is represented by a key that resolves to the same
     register (over a one-to-one binding and names pairwise distinct up to case this is exactly
     {name: get_par(name)}; when the same register is requested under two spellings / two aliases the
     property does not say which of them are keys);
   * per call of an accessor: the SET of registers read and the SET of registers written on the ADwin
     (not the order or the grouping into driver calls), plus the register contents at the end;
   * a batch accessor that fails (unknown name, non-int for Par): the exception class only; the
     prefix of effects it leaves behind is not fixed, comparison of the history stops there. *)
Require Export QV.Lib.Corr QV.C20.Model.
Local Open Scope N_scope.

Inductive pobs :=
| PBinding (p : list (str * desc)) (d : list (str * N))   (* the two dicts (items in any order) *)
| PErr (f : str) (l : N)                                  (* ParseException(filename, line_nr) *)
| POther (code : N).                                      (* 1 FileNotFoundError, 2 ValueError, 98 no termination, 99 fuel *)

Definition value_eqb (a b : value) : bool :=
  match a, b with
  | VInt x, VInt y => Z.eqb x y
  | VFlt x, VFlt y => Z.eqb x y
  | _, _ => false          (* VBad equals nothing, not even itself: it must never be observed *)
  end.
Definition call_eqb (a b : call) : bool :=
  match a, b with
  | CGetPar i, CGetPar j => i =? j
  | CGetFPar i, CGetFPar j => i =? j
  | CGetData d s n, CGetData d' s' n' => (d =? d') && (s =? s') && (n =? n')
  | CSetPar i v, CSetPar j w => (i =? j) && value_eqb v w
  | CSetFPar i v, CSetFPar j w => (i =? j) && value_eqb v w
  | CSetData d s vs, CSetData d' s' ws => (d =? d') && (s =? s') && list_eqb value_eqb vs ws
  | _, _ => false
  end.

(* equality of two dicts given by their items (keys unique on both sides) *)
Definition map_eqb {K V} (keqb : K -> K -> bool) (veqb : V -> V -> bool) (a b : list (K * V)) : bool :=
  Nat.eqb (length a) (length b)
  && forallb (fun kv => option_eqb veqb (dget keqb (fst kv) b) (Some (snd kv))) a.
Definition subset_b {A} (eqb : A -> A -> bool) (a b : list A) : bool :=
  forallb (fun x => existsb (eqb x) b) a.
Definition set_eqb {A} (eqb : A -> A -> bool) (a b : list A) : bool := subset_b eqb a b && subset_b eqb b a.

Definition pobs_eqb (a b : pobs) : bool :=
  match a, b with
  | PBinding p d, PBinding p' d' => map_eqb str_eqb desc_eqb p p' && map_eqb str_eqb N.eqb d d'
  | PErr f l, PErr f' l' => str_eqb f f' && (l =? l')
  | POther c, POther c' => c =? c'
  | _, _ => false
  end.

Definition model_analyze (syms : list symbol) : pobs :=
  match analyze ascii_upper syms with
  | Ok b => PBinding (param b) (data b)
  | ParseErr f l => PErr f l
  | Crash => POther 2
  end.

Definition pres_out (r : pres) : option (list symbol) * pobs :=
  match r with
  | POk syms => (Some syms, model_analyze syms)
  | PNoFile _ => (None, POther 1)
  | POutOfFuel => (None, POther 99)
  end.
(* pinned traversal (re-parses repeated includes) and the parse-once traversal *)
Definition model_prog (fs : list (path * list str)) (main incdir : path) : option (list symbol) * pobs :=
  pres_out (parse_prog 300 fs incdir [main]).
Definition model_prog_once (fs : list (path * list str)) (main incdir : path) : option (list symbol) * pobs :=
  pres_out (parse_prog_once 300 fs incdir [normalize main] [main]).

Definition prog_ok (fs : list (path * list str)) (main incdir : path) (osyms : option (list symbol)) (obs : pobs) : bool :=
  match parse_prog 300 fs incdir [main] with
  | POutOfFuel =>
      match obs with
      | POther 98 => true
      | _ => pobs_eqb (snd (model_prog_once fs main incdir)) obs
      end
  | r =>
      let '(s, res) := pres_out r in
      option_eqb (list_eqb sym_eqb) (option_map dedup_syms s) (option_map dedup_syms osyms) && pobs_eqb res obs
  end.

Inductive dop := DGet (n : str) | DSet (n : str) (v : value) | DGetM (ns : list str) | DSetM (ps : list (str * value)).
Inductive dobs := OVal (v : value) | ONone | ODict (kv : list (str * value)) | OValueError | OTypeError.

Definition dobs_eqb (a b : dobs) : bool :=
  match a, b with
  | OVal v, OVal w => value_eqb v w
  | ONone, ONone => true
  | ODict k, ODict k' => map_eqb str_eqb value_eqb k k'
  | OValueError, OValueError => true
  | OTypeError, OTypeError => true
  | _, _ => false
  end.

Definition conv {A} (f : A -> dobs) (r : ores A) : dobs :=
  match r with ROk a => f a | RValueError => OValueError | RTypeError => OTypeError end.

Definition dstep (b : list (str * desc)) (dv : dev) (o : dop) : dev * dobs :=
  match o with
  | DGet n => let '(d, r) := get_par ascii_lower b n dv in (d, conv OVal r)
  | DSet n v => let '(d, r) := set_par ascii_lower b n v dv in (d, conv (fun _ => ONone) r)
  | DGetM ns => let '(d, r) := get_par_multiple ascii_lower b ns dv in (d, conv (fun a => ODict (dict_of a)) r)
  | DSetM ps => let '(d, r) := set_par_multiple ascii_lower b ps dv in (d, conv (fun _ => ONone) r)
  end.

Definition init_dev (init : list (reg * value)) : dev :=
  mkDev (fun r => match dget reg_eqb r init with Some v => v | None => VBad end) [].

(* registers touched by a list of driver calls: (read set, written set) must agree *)
Definition touch_eqb (a b : list call) : bool :=
  set_eqb reg_eqb (flat_map reads_of_call a) (flat_map reads_of_call b)
  && set_eqb reg_eqb (map fst (flat_map writes_of_call a)) (map fst (flat_map writes_of_call b)).

(* the dict a batch read may return for the request ns in state dv (see header) *)
Definition read_dict_ok (b : list (str * desc)) (dv : dev) (ns : list str) (kv : list (str * value)) : bool :=
  forallb (fun e => existsb (str_eqb (fst e)) ns
                    && match snd (get_par ascii_lower b (fst e) dv) with ROk v => value_eqb v (snd e) | _ => false end) kv
  && forallb (fun n => existsb (fun e => option_eqb desc_eqb (lookup_ci ascii_lower b (fst e)) (lookup_ci ascii_lower b n)) kv) ns.

Definition is_err (x : dobs) : bool := match x with OValueError | OTypeError => true | _ => false end.
Definition is_batch (o : dop) : bool := match o with DGetM _ | DSetM _ => true | _ => false end.

Definition out_ok (b : list (str * desc)) (dv : dev) (o : dop) (xm x : dobs) : bool :=
  match o, xm, x with
  | DGetM ns, ODict _, ODict kv => read_dict_ok b dv ns kv
  | _, _, _ => dobs_eqb xm x
  end.

(* history check; obs = per call (result, driver calls made during it); final = register contents at the end *)
Fixpoint dcheck (b : list (str * desc)) (dv : dev) (ops : list dop) (obs : list (dobs * list call))
         (final : list (reg * value)) : bool :=
  match ops, obs with
  | [], [] => list_eqb value_eqb (map (regs dv) (map fst final)) (map snd final)
  | o :: ops', (x, cs) :: obs' =>
      let '(dv', xm) := dstep b dv o in
      if is_batch o && is_err xm then dobs_eqb xm x
      else out_ok b dv o xm x && touch_eqb (skipn (length (log dv)) (log dv')) cs && dcheck b dv' ops' obs' final
  | _, _ => false
  end.

(* for replays: the pinned model's outputs, driver calls per accessor call, registers at the probes *)
Fixpoint drun (b : list (str * desc)) (dv : dev) (ops : list dop) : dev * list (dobs * list call) :=
  match ops with
  | [] => (dv, [])
  | o :: r =>
      let '(d1, x) := dstep b dv o in
      let '(d2, xs) := drun b d1 r in (d2, (x, skipn (length (log dv)) (log d1)) :: xs)
  end.

Inductive case :=
| KSyms (syms : list symbol) (obs : pobs)
| KProg (fs : list (path * list str)) (main incdir : path) (osyms : option (list symbol)) (obs : pobs)
| KRanges (l : list N) (obs : list (N * N))
| KDev (b : list (str * desc)) (init : list (reg * value)) (ops : list dop)
       (obs : list (dobs * list call)) (ofinal : list (reg * value)).

Inductive mout :=
| MSyms (r : pobs)
| MProg (s : option (list symbol)) (r : pobs) (once : pobs)
| MRanges (r : list (N * N))
| MDev (outs : list (dobs * list call)) (final : list value).

Definition model_out (c : case) : mout :=
  match c with
  | KSyms syms _ => MSyms (model_analyze syms)
  | KProg fs main incdir _ _ =>
      let '(s, r) := model_prog fs main incdir in MProg s r (snd (model_prog_once fs main incdir))
  | KRanges l _ => MRanges (find_ranges l)
  | KDev b init ops _ ofinal =>
      let '(d, outs) := drun b (init_dev init) ops in MDev outs (map (regs d) (map fst ofinal))
  end.

Definition check_case (c : case) : bool :=
  match c with
  | KSyms syms obs => pobs_eqb (model_analyze syms) obs
  | KProg fs main incdir osyms obs => prog_ok fs main incdir osyms obs
  | KRanges l obs => list_eqb (pair_eqb N.eqb N.eqb) (find_ranges l) obs
  | KDev b init ops obs ofinal => dcheck b (init_dev init) ops obs ofinal
  end.
