(* C20 correspondence: the model's result on a case versus what the harness observed on the real
   qmi.utils.adbasic_parser / qmi.utils.adwin_manager.AdwinProcess (over a simulated ADwin).
   Case folding is instantiated with ASCII upper/lower (the generator emits ASCII identifiers). *)
Require Export QV.Lib.Corr QV.C20.Model.
Local Open Scope N_scope.

Inductive pobs :=
| PBinding (p : list (str * desc)) (d : list (str * N))   (* dicts in insertion order *)
| PErr (f : str) (l : N)                                  (* ParseException(filename, line_nr) *)
| POther (code : N).                                      (* 1 FileNotFoundError, 2 ValueError, 99 fuel *)

Definition sym_eqb (a b : symbol) : bool :=
  str_eqb (s_file a) (s_file b) && (s_line a =? s_line b) && str_eqb (s_label a) (s_label b)
  && str_eqb (s_value a) (s_value b).
Definition value_eqb (a b : value) : bool :=
  match a, b with
  | VInt x, VInt y => Z.eqb x y
  | VFlt x, VFlt y => Z.eqb x y
  | _, _ => false          (* VBad equals nothing, not even itself: it must never be observed *)
  end.
Definition call_eqb (a b : call) : bool :=
  match a, b with
  | CGetPar i, CGetPar j => i =? j
  | CGetFPar i, CGetFPar j => i =? j
  | CGetData d s n, CGetData d' s' n' => (d =? d') && (s =? s') && (n =? n')
  | CSetPar i v, CSetPar j w => (i =? j) && value_eqb v w
  | CSetFPar i v, CSetFPar j w => (i =? j) && value_eqb v w
  | CSetData d s vs, CSetData d' s' ws => (d =? d') && (s =? s') && list_eqb value_eqb vs ws
  | _, _ => false
  end.
Definition pobs_eqb (a b : pobs) : bool :=
  match a, b with
  | PBinding p d, PBinding p' d' =>
      list_eqb (pair_eqb str_eqb desc_eqb) p p' && list_eqb (pair_eqb str_eqb N.eqb) d d'
  | PErr f l, PErr f' l' => str_eqb f f' && (l =? l')
  | POther c, POther c' => c =? c'
  | _, _ => false
  end.

Definition model_analyze (syms : list symbol) : pobs :=
  match analyze ascii_upper syms with
  | Ok b => PBinding (param b) (data b)
  | ParseErr f l => PErr f l
  | Crash => POther 2
  end.

Definition model_prog (fs : list (path * list str)) (main incdir : path) : option (list symbol) * pobs :=
  match parse_prog 300 fs incdir [main] with
  | POk syms => (Some syms, model_analyze syms)
  | PNoFile _ => (None, POther 1)
  | POutOfFuel => (None, POther 99)
  end.

Inductive dop := DGet (n : str) | DSet (n : str) (v : value) | DGetM (ns : list str) | DSetM (ps : list (str * value)).
Inductive dobs := OVal (v : value) | ONone | ODict (kv : list (str * value)) | OValueError | OTypeError.

Definition dobs_eqb (a b : dobs) : bool :=
  match a, b with
  | OVal v, OVal w => value_eqb v w
  | ONone, ONone => true
  | ODict k, ODict k' => list_eqb (pair_eqb str_eqb value_eqb) k k'
  | OValueError, OValueError => true
  | OTypeError, OTypeError => true
  | _, _ => false
  end.

Definition conv {A} (f : A -> dobs) (r : ores A) : dobs :=
  match r with ROk a => f a | RValueError => OValueError | RTypeError => OTypeError end.

Definition dstep (b : list (str * desc)) (dv : dev) (o : dop) : dev * dobs :=
  match o with
  | DGet n => let '(d, r) := get_par ascii_lower b n dv in (d, conv OVal r)
  | DSet n v => let '(d, r) := set_par ascii_lower b n v dv in (d, conv (fun _ => ONone) r)
  | DGetM ns => let '(d, r) := get_par_multiple ascii_lower b ns dv in (d, conv (fun a => ODict (dict_of a)) r)
  | DSetM ps => let '(d, r) := set_par_multiple ascii_lower b ps dv in (d, conv (fun _ => ONone) r)
  end.

Fixpoint drun (b : list (str * desc)) (dv : dev) (ops : list dop) : dev * list dobs :=
  match ops with
  | [] => (dv, [])
  | o :: r => let '(d1, x) := dstep b dv o in let '(d2, xs) := drun b d1 r in (d2, x :: xs)
  end.

Definition init_dev (init : list (reg * value)) : dev :=
  mkDev (fun r => match dget reg_eqb r init with Some v => v | None => VBad end) [].

(* outputs, call log, contents of the registers listed in [probe] *)
Definition model_dev (b : list (str * desc)) (init : list (reg * value)) (ops : list dop) (probe : list reg)
  : list dobs * list call * list value :=
  let '(d, outs) := drun b (init_dev init) ops in (outs, log d, map (regs d) probe).

Inductive case :=
| KSyms (syms : list symbol) (obs : pobs)
| KProg (fs : list (path * list str)) (main incdir : path) (osyms : option (list symbol)) (obs : pobs)
| KRanges (l : list N) (obs : list (N * N))
| KDev (b : list (str * desc)) (init : list (reg * value)) (ops : list dop)
       (obs : list dobs) (olog : list call) (ofinal : list (reg * value)).

Inductive mout :=
| MSyms (r : pobs)
| MProg (s : option (list symbol)) (r : pobs)
| MRanges (r : list (N * N))
| MDev (outs : list dobs) (lg : list call) (final : list value).

Definition model_out (c : case) : mout :=
  match c with
  | KSyms syms _ => MSyms (model_analyze syms)
  | KProg fs main incdir _ _ => let '(s, r) := model_prog fs main incdir in MProg s r
  | KRanges l _ => MRanges (find_ranges l)
  | KDev b init ops _ _ ofinal =>
      let '(o, l, f) := model_dev b init ops (map fst ofinal) in MDev o l f
  end.

Definition check_case (c : case) : bool :=
  match c with
  | KSyms syms obs => pobs_eqb (model_analyze syms) obs
  | KProg fs main incdir osyms obs =>
      let '(s, r) := model_prog fs main incdir in
      option_eqb (list_eqb sym_eqb) s osyms && pobs_eqb r obs
  | KRanges l obs => list_eqb (pair_eqb N.eqb N.eqb) (find_ranges l) obs
  | KDev b init ops obs olog ofinal =>
      let '(o, l, f) := model_dev b init ops (map fst ofinal) in
      list_eqb dobs_eqb o obs && list_eqb call_eqb l olog && list_eqb value_eqb f (map snd ofinal)
  end.
