(* C19 — instrument drivers keep "open" consistent with the device link.  MODEL (definitions only).

   What is transcribed (from /repo):
     qmi/core/instrument.py  QMI_Instrument.open  = [CheckClosed; SetOpen]
                             QMI_Instrument.close = [CheckOpen; SetClosed]
                             _check_is_open / _check_is_closed (raise, change nothing), is_open (reads the flag)
     qmi/core/transport.py   QMI_Transport.open  : refuses (raises, no change) when already open, else calls
                                                   _open_transport() — which may fail, leaving the transport closed —
                                                   and then marks the transport open        ... [LinkOpen]
                             QMI_Transport.close : refuses when closed; otherwise marks the transport closed FIRST and
                                                   only then releases the OS resource (every subclass calls
                                                   super().close() first), so a failing close leaves the link
                                                   released                                 ... [LinkClose]
     qmi/instruments/*/*.py  every driver's resolved open()/close() body is a term [prog] of the effect language
                             below; these terms are NOT written by hand: harness/translators/t_c19_openclose.py
                             regenerates them into coq/gen/C19Drivers.v on every run.

   State of one call: the instrument flag (QMI_Instrument._is_open), whether the link is held
   (QMI_Transport._is_open), how many times the link was opened during this call, and the source lines of the
   operations that failed during this call (a ghost log, only used to print counter-examples).

   Fault model: EVERY [Io], [LinkOpen] and [LinkClose] may raise, at any point and any number of times; an [Io]
   (any statement that may touch the device, or any Python code that may raise) never changes flag or link. *)
From Coq Require Import List Bool NArith Arith.
Import ListNotations.

Record st := mk_st { flag : bool; held : bool; opens : nat; faults : list N }.

(* labels (N) are source line numbers; they do not influence flag/held/opens *)
Inductive prog :=
| Skip
| Seq (p q : prog)
| LinkOpen (l : N)
| LinkClose (l : N)
| SetOpen
| SetClosed
| CheckOpen
| CheckClosed
| Io (l : N)
| Raise
| Choice (p q : prog)
| Try (body handler : prog) (reraise : bool)
| TryElse (body handler els : prog)     (* try/except/else: [els] runs only when [body] completed; its exceptions
                                          are not handled by [handler] *)
| Finally (body fin : prog).

Fixpoint seql (l : list prog) : prog :=
  match l with
  | [] => Skip
  | [p] => p
  | p :: r => Seq p (seql r)
  end.

Inductive outcome := Normal | Exc.

Definition fault (l : N) (s : st) : st := mk_st (flag s) (held s) (opens s) (faults s ++ [l]).
Definition set_flag (b : bool) (s : st) : st := mk_st b (held s) (opens s) (faults s).
Definition link_opened (s : st) : st := mk_st (flag s) true (S (opens s)) (faults s).
Definition link_released (s : st) : st := mk_st (flag s) false (opens s) (faults s).

(* outcome of a [Try]: the handler ran to its end: re-raise or swallow *)
Definition try_outcome (reraise : bool) (o : outcome) : outcome :=
  match o with Exc => Exc | Normal => if reraise then Exc else Normal end.

(* Big-step, nondeterministic.  [exec p s o s'] : p started in s can end with outcome o in state s'. *)
Inductive exec : prog -> st -> outcome -> st -> Prop :=
| E_Skip s : exec Skip s Normal s
| E_SeqN p q s s1 o s2 : exec p s Normal s1 -> exec q s1 o s2 -> exec (Seq p q) s o s2
| E_SeqX p q s s1 : exec p s Exc s1 -> exec (Seq p q) s Exc s1
| E_LinkOpenOk l s : held s = false -> exec (LinkOpen l) s Normal (link_opened s)
| E_LinkOpenFault l s : held s = false -> exec (LinkOpen l) s Exc (fault l s)
| E_LinkOpenRefused l s : held s = true -> exec (LinkOpen l) s Exc s
| E_LinkCloseOk l s : held s = true -> exec (LinkClose l) s Normal (link_released s)
| E_LinkCloseFault l s : held s = true -> exec (LinkClose l) s Exc (fault l (link_released s))
| E_LinkCloseRefused l s : held s = false -> exec (LinkClose l) s Exc s
| E_SetOpen s : exec SetOpen s Normal (set_flag true s)
| E_SetClosed s : exec SetClosed s Normal (set_flag false s)
| E_CheckOpenOk s : flag s = true -> exec CheckOpen s Normal s
| E_CheckOpenRaise s : flag s = false -> exec CheckOpen s Exc s
| E_CheckClosedOk s : flag s = false -> exec CheckClosed s Normal s
| E_CheckClosedRaise s : flag s = true -> exec CheckClosed s Exc s
| E_IoOk l s : exec (Io l) s Normal s
| E_IoFault l s : exec (Io l) s Exc (fault l s)
| E_Raise s : exec Raise s Exc s
| E_ChoiceL p q s o s1 : exec p s o s1 -> exec (Choice p q) s o s1
| E_ChoiceR p q s o s1 : exec q s o s1 -> exec (Choice p q) s o s1
| E_TryN b h r s s1 : exec b s Normal s1 -> exec (Try b h r) s Normal s1
| E_TryX b h r s s1 o s2 : exec b s Exc s1 -> exec h s1 o s2 -> exec (Try b h r) s (try_outcome r o) s2
| E_TryElseN b h e s s1 o s2 : exec b s Normal s1 -> exec e s1 o s2 -> exec (TryElse b h e) s o s2
| E_TryElseX b h e s s1 o s2 : exec b s Exc s1 -> exec h s1 o s2 -> exec (TryElse b h e) s o s2
| E_FinN b f s s1 o s2 : exec b s Normal s1 -> exec f s1 o s2 -> exec (Finally b f) s o s2
| E_FinXN b f s s1 s2 : exec b s Exc s1 -> exec f s1 Normal s2 -> exec (Finally b f) s Exc s2
| E_FinXX b f s s1 s2 : exec b s Exc s1 -> exec f s1 Exc s2 -> exec (Finally b f) s Exc s2.

(* The executable analyser: all normal final states, all exceptional final states. *)
Fixpoint post (p : prog) (s : st) : list st * list st :=
  match p with
  | Skip => ([s], [])
  | Seq p q =>
      let a := post p s in
      let r := map (post q) (fst a) in
      (flat_map fst r, snd a ++ flat_map snd r)
  | LinkOpen l => if held s then ([], [s]) else ([link_opened s], [fault l s])
  | LinkClose l => if held s then ([link_released s], [fault l (link_released s)]) else ([], [s])
  | SetOpen => ([set_flag true s], [])
  | SetClosed => ([set_flag false s], [])
  | CheckOpen => if flag s then ([s], []) else ([], [s])
  | CheckClosed => if flag s then ([], [s]) else ([s], [])
  | Io l => ([s], [fault l s])
  | Raise => ([], [s])
  | Choice p q => let a := post p s in let b := post q s in (fst a ++ fst b, snd a ++ snd b)
  | Try b h r =>
      let a := post b s in
      let hs := map (post h) (snd a) in
      if r then (fst a, flat_map fst hs ++ flat_map snd hs)
      else (fst a ++ flat_map fst hs, flat_map snd hs)
  | TryElse b h e =>
      let a := post b s in
      let en := map (post e) (fst a) in
      let hs := map (post h) (snd a) in
      (flat_map fst en ++ flat_map fst hs, flat_map snd en ++ flat_map snd hs)
  | Finally b f =>
      let a := post b s in
      let fn := map (post f) (fst a) in
      let fx := map (post f) (snd a) in
      (flat_map fst fn, flat_map snd fn ++ flat_map fst fx ++ flat_map snd fx)
  end.

(* ---- the boolean side conditions instantiated per driver class -------------------------------- *)

Definition closed0 : st := mk_st false false 0 [].   (* instrument closed, link released *)
Definition open0 : st := mk_st true true 0 [].       (* instrument open, link held *)

Definition consistentb (s : st) : bool := Bool.eqb (flag s) (held s).
Definition is_open1 (s : st) : bool := flag s && held s && Nat.eqb (opens s) 1.
Definition is_closed0 (s : st) : bool := negb (flag s) && negb (held s) && Nat.eqb (opens s) 0.
(* "raises and changes nothing": same flag, same link, link never opened *)
Definition same_as (s0 s : st) : bool :=
  Bool.eqb (flag s) (flag s0) && Bool.eqb (held s) (held s0) && Nat.eqb (opens s) (opens s0).
Definition nonempty {A} (l : list A) : bool := match l with [] => false | _ => true end.
Definition isnil {A} (l : list A) : bool := match l with [] => true | _ => false end.

(* open(): can succeed; normal exit => (open, held), link opened exactly once;
   exceptional exit => (closed, released) or (open, held);
   on an open instrument: always raises, changes nothing. *)
Definition ok_open (p : prog) : bool :=
  let a := post p closed0 in
  let b := post p open0 in
  nonempty (fst a) && forallb is_open1 (fst a) && forallb consistentb (snd a)
  && isnil (fst b) && forallb (same_as open0) (snd b).

(* close(): can succeed; normal exit => (closed, released), link not re-opened; exceptional exit => consistent;
   on a closed instrument: always raises, changes nothing. *)
Definition ok_close (p : prog) : bool :=
  let a := post p open0 in
  let b := post p closed0 in
  nonempty (fst a) && forallb is_closed0 (fst a) && forallb consistentb (snd a)
  && isnil (fst b) && forallb (same_as closed0) (snd b).

(* counter-examples printed by the harness: the offending final states (with the fault lines) *)
Definition bad_open (p : prog) : list (st) * list st * list st :=
  let a := post p closed0 in
  let b := post p open0 in
  (filter (fun s => negb (is_open1 s)) (fst a),
   filter (fun s => negb (consistentb s)) (snd a),
   fst b ++ filter (fun s => negb (same_as open0 s)) (snd b)).
Definition bad_close (p : prog) : list (st) * list st * list st :=
  let a := post p open0 in
  let b := post p closed0 in
  (filter (fun s => negb (is_closed0 s)) (fst a),
   filter (fun s => negb (consistentb s)) (snd a),
   fst b ++ filter (fun s => negb (same_as closed0 s)) (snd b)).

(* ---- a driver and its call histories ----------------------------------------------------------- *)

Record driver := mk_driver { open_prog : prog; close_prog : prog }.

Inductive call := COpen | CClose | CIsOpen.
Inductive result := RDone (o : outcome) | RBool (b : bool).

(* what persists between calls: (flag, link held) *)
Definition gst := (bool * bool)%type.
Definition enter (g : gst) : st := mk_st (fst g) (snd g) 0 [].
Definition leave (s : st) : gst := (flag s, held s).

(* one call; the per-call counters start at zero *)
Inductive call_step (d : driver) : gst -> call -> result -> nat -> gst -> Prop :=
| CS_open g o s' : exec (open_prog d) (enter g) o s' -> call_step d g COpen (RDone o) (opens s') (leave s')
| CS_close g o s' : exec (close_prog d) (enter g) o s' -> call_step d g CClose (RDone o) (opens s') (leave s')
| CS_is_open g : call_step d g CIsOpen (RBool (fst g)) 0 g.

(* an event of a history: the call, its result, how often the link was opened by it, the state after it *)
Definition event := (call * result * nat * gst)%type.

Inductive run (d : driver) : gst -> list event -> gst -> Prop :=
| R_nil g : run d g [] g
| R_cons g c r n g1 evs g2 :
    call_step d g c r n g1 -> run d g1 evs g2 -> run d g ((c, r, n, g1) :: evs) g2.

Definition g_closed : gst := (false, false).

(* ---- the property on histories ------------------------------------------------------------------ *)

(* what C19 demands of one call made in persistent state g *)
Definition event_ok (g : gst) (e : event) : Prop :=
  let '(c, r, n, g1) := e in
  fst g1 = snd g1 /\                                   (* is_open() = link held, after the call *)
  match c with
  | CIsOpen => r = RBool (snd g) /\ g1 = g /\ n = 0    (* is_open() answers "link held" *)
  | COpen =>
      if fst g
      then r = RDone Exc /\ g1 = g /\ n = 0            (* open on an open instrument: refused, nothing changes *)
      else (r = RDone Normal -> g1 = (true, true) /\ n = 1)  (* success: open, held, link opened once *)
           /\ (r = RDone Exc -> g1 = (false, false) \/ g1 = (true, true))
  | CClose =>
      if fst g
      then (r = RDone Normal -> g1 = (false, false) /\ n = 0)
           /\ (r = RDone Exc -> g1 = (false, false) \/ g1 = (true, true))
      else r = RDone Exc /\ g1 = g /\ n = 0            (* close on a closed instrument: refused *)
  end.

Fixpoint history_ok (g : gst) (evs : list event) : Prop :=
  match evs with
  | [] => True
  | e :: r => event_ok g e /\ history_ok (snd e) r
  end.

(* ================================================================================================== *)
(* Part 2 — "a closed instrument performs no device I/O": the RPC methods of a driver.

   Every @rpc_method (other than open/close) of every transport-based driver class, and every helper it
   calls, is regenerated as a term of [mprog] (coq/gen/C19Methods.v).  The language is richer in control flow
   than [prog] (loops, return, break, function calls) because arbitrary methods are translated, and poorer in
   state: a method program cannot open or close the link or write the flag (the translator refuses methods
   that do), so flag and link are constants of an execution and the only thing that evolves is the ghost log
   [m_touched] of operations that reached the device (or another resource) during the call.

     MDev l   an operation on the transport, or on a protocol object constructed around it
              (ScpiProtocol(self._transport) ...): if the link is released the transport's own
              _check_is_open refuses — raises, device NOT touched; if it is held the device is touched and
              the operation may fail or not.
     MEff l   an operation on any other resource held by the driver (thread, timer, handle ...) or something
              the translator cannot classify: not guarded by the transport — counts as touching.
     MIo l    any other Python code: may raise or not, touches nothing.
     MCheckOpen / MCheckClosed   self._check_is_open() / self._check_is_closed()
     MAssumeOpen / MAssumeClosed the two branches of `if self._is_open:` (a blocked branch has no execution)  *)

Inductive mprog :=
| MSkip
| MSeq (p q : mprog)
| MIo (l : N)
| MDev (l : N)
| MEff (l : N)
| MCheckOpen
| MCheckClosed
| MAssumeOpen
| MAssumeClosed
| MRaise
| MReturn
| MBreak                       (* break and continue: leave the current iteration *)
| MChoice (p q : mprog)
| MTry (body handler : mprog)
| MFinally (body fin : mprog)
| MLoop (body : mprog)         (* zero or more iterations *)
| MCall (body : mprog).        (* function boundary: a return ends here *)

Fixpoint mseql (l : list mprog) : mprog :=
  match l with
  | [] => MSkip
  | [p] => p
  | p :: r => MSeq p (mseql r)
  end.

Inductive mout := ONormal | OExc | ORet | OBrk.

Record mst := mk_mst { m_flag : bool; m_held : bool; m_touched : list N }.
Definition touch (l : N) (s : mst) : mst := mk_mst (m_flag s) (m_held s) (m_touched s ++ [l]).

Definition call_out (o : mout) : mout := match o with OExc => OExc | _ => ONormal end.

Inductive mexec : mprog -> mst -> mout -> mst -> Prop :=
| M_Skip s : mexec MSkip s ONormal s
| M_SeqN p q s s1 o s2 : mexec p s ONormal s1 -> mexec q s1 o s2 -> mexec (MSeq p q) s o s2
| M_SeqA p q s o s1 : mexec p s o s1 -> o <> ONormal -> mexec (MSeq p q) s o s1
| M_IoOk l s : mexec (MIo l) s ONormal s
| M_IoRaise l s : mexec (MIo l) s OExc s
| M_DevOk l s : m_held s = true -> mexec (MDev l) s ONormal (touch l s)
| M_DevFault l s : m_held s = true -> mexec (MDev l) s OExc (touch l s)
| M_DevRefused l s : m_held s = false -> mexec (MDev l) s OExc s
| M_EffOk l s : mexec (MEff l) s ONormal (touch l s)
| M_EffFault l s : mexec (MEff l) s OExc (touch l s)
| M_CheckOpenOk s : m_flag s = true -> mexec MCheckOpen s ONormal s
| M_CheckOpenRaise s : m_flag s = false -> mexec MCheckOpen s OExc s
| M_CheckClosedOk s : m_flag s = false -> mexec MCheckClosed s ONormal s
| M_CheckClosedRaise s : m_flag s = true -> mexec MCheckClosed s OExc s
| M_AssumeOpen s : m_flag s = true -> mexec MAssumeOpen s ONormal s
| M_AssumeClosed s : m_flag s = false -> mexec MAssumeClosed s ONormal s
| M_Raise s : mexec MRaise s OExc s
| M_Return s : mexec MReturn s ORet s
| M_Break s : mexec MBreak s OBrk s
| M_ChoiceL p q s o s1 : mexec p s o s1 -> mexec (MChoice p q) s o s1
| M_ChoiceR p q s o s1 : mexec q s o s1 -> mexec (MChoice p q) s o s1
| M_TryPass b h s o s1 : mexec b s o s1 -> o <> OExc -> mexec (MTry b h) s o s1
| M_TryCatch b h s s1 o s2 : mexec b s OExc s1 -> mexec h s1 o s2 -> mexec (MTry b h) s o s2
| M_FinN b f s o1 s1 s2 : mexec b s o1 s1 -> mexec f s1 ONormal s2 -> mexec (MFinally b f) s o1 s2
| M_FinA b f s o1 s1 o2 s2 : mexec b s o1 s1 -> mexec f s1 o2 s2 -> o2 <> ONormal -> mexec (MFinally b f) s o2 s2
| M_LoopStop b s : mexec (MLoop b) s ONormal s
| M_LoopIter b s o1 s1 o s2 :
    mexec b s o1 s1 -> (o1 = ONormal \/ o1 = OBrk) -> mexec (MLoop b) s1 o s2 -> mexec (MLoop b) s o s2
| M_LoopExc b s s1 : mexec b s OExc s1 -> mexec (MLoop b) s OExc s1
| M_LoopRet b s s1 : mexec b s ORet s1 -> mexec (MLoop b) s ORet s1
| M_Call p s o s1 : mexec p s o s1 -> mexec (MCall p) s (call_out o) s1.

(* the analyser: which outcomes are possible, and can anything be touched, for given (constant) flag and link *)
Record res := mk_res { rn : bool; rx : bool; rr : bool; rb : bool; rt : bool }.
Definition r_none : res := mk_res false false false false false.
Definition r_n : res := mk_res true false false false false.
Definition r_x : res := mk_res false true false false false.
Definition r_or (a b : res) : res :=
  mk_res (rn a || rn b) (rx a || rx b) (rr a || rr b) (rb a || rb b) (rt a || rt b).
Definition r_any (a : res) : bool := rn a || rx a || rr a || rb a.

Fixpoint an (f h : bool) (p : mprog) : res :=
  match p with
  | MSkip => r_n
  | MSeq p q =>
      let a := an f h p in
      if rn a then let b := an f h q in
                   mk_res (rn b) (rx a || rx b) (rr a || rr b) (rb a || rb b) (rt a || rt b)
      else a
  | MIo _ => mk_res true true false false false
  | MDev _ => if h then mk_res true true false false true else r_x
  | MEff _ => mk_res true true false false true
  | MCheckOpen => if f then r_n else r_x
  | MCheckClosed => if f then r_x else r_n
  | MAssumeOpen => if f then r_n else r_none
  | MAssumeClosed => if f then r_none else r_n
  | MRaise => r_x
  | MReturn => mk_res false false true false false
  | MBreak => mk_res false false false true false
  | MChoice p q => r_or (an f h p) (an f h q)
  | MTry b hd =>
      let a := an f h b in
      if rx a then let c := an f h hd in
                   mk_res (rn a || rn c) (rx c) (rr a || rr c) (rb a || rb c) (rt a || rt c)
      else a
  | MFinally b fi =>
      let a := an f h b in
      if r_any a then let c := an f h fi in
                      mk_res (rn a && rn c) ((rx a && rn c) || rx c) ((rr a && rn c) || rr c)
                             ((rb a && rn c) || rb c) (rt a || rt c)
      else a
  | MLoop b => let a := an f h b in mk_res true (rx a) (rr a) false (rt a)
  | MCall p => let a := an f h p in mk_res (rn a || rr a || rb a) (rx a) false false (rt a)
  end.

Definition allowed (o : mout) (a : res) : bool :=
  match o with ONormal => rn a | OExc => rx a | ORet => rr a | OBrk => rb a end.

(* the per-method obligation: on a closed instrument with the link released nothing can be touched *)
Definition m_closed0 : mst := mk_mst false false [].
Definition closed_safe (p : mprog) : bool := negb (rt (an false false p)).
