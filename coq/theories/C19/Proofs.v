(* C19 — proofs: the analyser [post] is sound and complete for [exec]; the generic driver theorem. *)
From Coq Require Import List Bool NArith Arith Lia.
Import ListNotations.
Require Import QV.C19.Model.

Definition sel (o : outcome) (a : list st * list st) : list st :=
  match o with Normal => fst a | Exc => snd a end.

(* ---- soundness: every execution, under every fault placement, ends in a state listed by post ---- *)

Lemma in_flat_map_fst : forall (q : prog) (l : list st) s1 s2,
  In s1 l -> In s2 (fst (post q s1)) -> In s2 (flat_map fst (map (post q) l)).
Proof.
  intros q l s1 s2 H1 H2. apply in_flat_map. exists (post q s1). split; [apply in_map; exact H1 | exact H2].
Qed.

Lemma in_flat_map_snd : forall (q : prog) (l : list st) s1 s2,
  In s1 l -> In s2 (snd (post q s1)) -> In s2 (flat_map snd (map (post q) l)).
Proof.
  intros q l s1 s2 H1 H2. apply in_flat_map. exists (post q s1). split; [apply in_map; exact H1 | exact H2].
Qed.

Lemma in_flat_map_sel : forall (q : prog) (l : list st) s1 s2 o,
  In s1 l -> In s2 (sel o (post q s1)) ->
  In s2 (match o with Normal => flat_map fst (map (post q) l) | Exc => flat_map snd (map (post q) l) end).
Proof.
  intros q l s1 s2 [|] H1 H2; simpl in H2; [eapply in_flat_map_fst | eapply in_flat_map_snd]; eauto.
Qed.

Lemma post_sound : forall p s o s', exec p s o s' -> In s' (sel o (post p s)).
Proof.
  intros p s o s' H. induction H; simpl in *.
  - left; reflexivity.
  - (* SeqN *)
    pose proof (in_flat_map_sel q _ _ _ o IHexec1 IHexec2) as HH.
    destruct o; simpl; [exact HH | apply in_or_app; right; exact HH].
  - apply in_or_app; left; exact IHexec.
  - rewrite H; simpl; left; reflexivity.
  - rewrite H; simpl; left; reflexivity.
  - rewrite H; simpl; left; reflexivity.
  - rewrite H; simpl; left; reflexivity.
  - rewrite H; simpl; left; reflexivity.
  - rewrite H; simpl; left; reflexivity.
  - left; reflexivity.
  - left; reflexivity.
  - rewrite H; simpl; left; reflexivity.
  - rewrite H; simpl; left; reflexivity.
  - rewrite H; simpl; left; reflexivity.
  - rewrite H; simpl; left; reflexivity.
  - left; reflexivity.
  - left; reflexivity.
  - left; reflexivity.
  - destruct o; simpl in *; apply in_or_app; left; exact IHexec.
  - destruct o; simpl in *; apply in_or_app; right; exact IHexec.
  - (* TryN *) destruct r; simpl; [exact IHexec | apply in_or_app; left; exact IHexec].
  - (* TryX *)
    pose proof (in_flat_map_sel h _ _ _ o IHexec1 IHexec2) as HH.
    destruct r, o; simpl in *.
    + apply in_or_app; left; exact HH.
    + apply in_or_app; right; exact HH.
    + apply in_or_app; right; exact HH.
    + exact HH.
  - (* TryElseN *)
    pose proof (in_flat_map_sel e _ _ _ o IHexec1 IHexec2) as HH.
    destruct o; simpl in *; apply in_or_app; left; exact HH.
  - (* TryElseX *)
    pose proof (in_flat_map_sel h _ _ _ o IHexec1 IHexec2) as HH.
    destruct o; simpl in *; apply in_or_app; right; exact HH.
  - (* FinN *)
    pose proof (in_flat_map_sel f _ _ _ o IHexec1 IHexec2) as HH.
    destruct o; simpl in *; [exact HH | apply in_or_app; left; exact HH].
  - (* FinXN *)
    apply in_or_app; right; apply in_or_app; left.
    eapply in_flat_map_fst; eauto.
  - (* FinXX *)
    apply in_or_app; right; apply in_or_app; right.
    eapply in_flat_map_snd; eauto.
Qed.

(* ---- completeness: every state listed by post is reached by some execution ---------------------- *)

Lemma flat_map_fst_inv : forall (q : prog) (l : list st) s2,
  In s2 (flat_map fst (map (post q) l)) -> exists s1, In s1 l /\ In s2 (fst (post q s1)).
Proof.
  intros q l s2 H. apply in_flat_map in H as [a [Ha Hs]]. apply in_map_iff in Ha as [s1 [E Hin]].
  subst a. exists s1; split; assumption.
Qed.

Lemma flat_map_snd_inv : forall (q : prog) (l : list st) s2,
  In s2 (flat_map snd (map (post q) l)) -> exists s1, In s1 l /\ In s2 (snd (post q s1)).
Proof.
  intros q l s2 H. apply in_flat_map in H as [a [Ha Hs]]. apply in_map_iff in Ha as [s1 [E Hin]].
  subst a. exists s1; split; assumption.
Qed.

Lemma post_complete : forall p s,
  (forall s', In s' (fst (post p s)) -> exec p s Normal s') /\
  (forall s', In s' (snd (post p s)) -> exec p s Exc s').
Proof.
  induction p; intro s; simpl.
  - (* Skip *) split; intros s' H; [destruct H as [<-|[]]; constructor | destruct H].
  - (* Seq *)
    split; intros s' H.
    + apply flat_map_fst_inv in H as [s1 [H1 H2]].
      eapply E_SeqN; [apply (IHp1 s); exact H1 | apply (IHp2 s1); exact H2].
    + apply in_app_or in H as [H|H].
      * apply E_SeqX. apply (IHp1 s); exact H.
      * apply flat_map_snd_inv in H as [s1 [H1 H2]].
        eapply E_SeqN; [apply (IHp1 s); exact H1 | apply (IHp2 s1); exact H2].
  - (* LinkOpen *)
    destruct (held s) eqn:E; simpl; split; intros s' H; try (destruct H as [<-|[]]); try destruct H.
    + apply E_LinkOpenRefused; exact E.
    + apply E_LinkOpenOk; exact E.
    + apply E_LinkOpenFault; exact E.
  - (* LinkClose *)
    destruct (held s) eqn:E; simpl; split; intros s' H; try (destruct H as [<-|[]]); try destruct H.
    + apply E_LinkCloseOk; exact E.
    + apply E_LinkCloseFault; exact E.
    + apply E_LinkCloseRefused; exact E.
  - split; intros s' H; [destruct H as [<-|[]]; constructor | destruct H].
  - split; intros s' H; [destruct H as [<-|[]]; constructor | destruct H].
  - (* CheckOpen *)
    destruct (flag s) eqn:E; simpl; split; intros s' H; try (destruct H as [<-|[]]); try destruct H.
    + apply E_CheckOpenOk; exact E.
    + apply E_CheckOpenRaise; exact E.
  - (* CheckClosed *)
    destruct (flag s) eqn:E; simpl; split; intros s' H; try (destruct H as [<-|[]]); try destruct H.
    + apply E_CheckClosedRaise; exact E.
    + apply E_CheckClosedOk; exact E.
  - (* Io *) split; intros s' H; destruct H as [<-|[]]; constructor.
  - (* Raise *) split; intros s' H; [destruct H | destruct H as [<-|[]]; constructor].
  - (* Choice *)
    split; intros s' H; apply in_app_or in H as [H|H].
    + apply E_ChoiceL; apply (IHp1 s); exact H.
    + apply E_ChoiceR; apply (IHp2 s); exact H.
    + apply E_ChoiceL; apply (IHp1 s); exact H.
    + apply E_ChoiceR; apply (IHp2 s); exact H.
  - (* Try *)
    destruct reraise; simpl; split; intros s' H.
    + apply E_TryN; apply (IHp1 s); exact H.
    + apply in_app_or in H as [H|H].
      * apply flat_map_fst_inv in H as [s1 [H1 H2]].
        change Exc with (try_outcome true Normal).
        eapply E_TryX; [apply (IHp1 s); exact H1 | apply (IHp2 s1); exact H2].
      * apply flat_map_snd_inv in H as [s1 [H1 H2]].
        change Exc with (try_outcome true Exc).
        eapply E_TryX; [apply (IHp1 s); exact H1 | apply (IHp2 s1); exact H2].
    + apply in_app_or in H as [H|H].
      * apply E_TryN; apply (IHp1 s); exact H.
      * apply flat_map_fst_inv in H as [s1 [H1 H2]].
        change Normal with (try_outcome false Normal).
        eapply E_TryX; [apply (IHp1 s); exact H1 | apply (IHp2 s1); exact H2].
    + apply flat_map_snd_inv in H as [s1 [H1 H2]].
      change Exc with (try_outcome false Exc).
      eapply E_TryX; [apply (IHp1 s); exact H1 | apply (IHp2 s1); exact H2].
  - (* TryElse *)
    split; intros s' H; apply in_app_or in H as [H|H].
    + apply flat_map_fst_inv in H as [s1 [H1 H2]].
      eapply E_TryElseN; [apply (IHp1 s); exact H1 | apply (IHp3 s1); exact H2].
    + apply flat_map_fst_inv in H as [s1 [H1 H2]].
      eapply E_TryElseX; [apply (IHp1 s); exact H1 | apply (IHp2 s1); exact H2].
    + apply flat_map_snd_inv in H as [s1 [H1 H2]].
      eapply E_TryElseN; [apply (IHp1 s); exact H1 | apply (IHp3 s1); exact H2].
    + apply flat_map_snd_inv in H as [s1 [H1 H2]].
      eapply E_TryElseX; [apply (IHp1 s); exact H1 | apply (IHp2 s1); exact H2].
  - (* Finally *)
    split; intros s' H.
    + apply flat_map_fst_inv in H as [s1 [H1 H2]].
      eapply E_FinN; [apply (IHp1 s); exact H1 | apply (IHp2 s1); exact H2].
    + apply in_app_or in H as [H|H]; [|apply in_app_or in H as [H|H]].
      * apply flat_map_snd_inv in H as [s1 [H1 H2]].
        eapply E_FinN; [apply (IHp1 s); exact H1 | apply (IHp2 s1); exact H2].
      * apply flat_map_fst_inv in H as [s1 [H1 H2]].
        eapply E_FinXN; [apply (IHp1 s); exact H1 | apply (IHp2 s1); exact H2].
      * apply flat_map_snd_inv in H as [s1 [H1 H2]].
        eapply E_FinXX; [apply (IHp1 s); exact H1 | apply (IHp2 s1); exact H2].
Qed.

Lemma post_exact : forall p s o s', exec p s o s' <-> In s' (sel o (post p s)).
Proof.
  intros p s o s'; split.
  - apply post_sound.
  - destruct o; simpl; apply (post_complete p s).
Qed.

(* ---- what the boolean side conditions mean for single calls --------------------------------------- *)

Lemma enter_closed : enter g_closed = closed0. Proof. reflexivity. Qed.
Lemma enter_open : enter (true, true) = open0. Proof. reflexivity. Qed.

Lemma is_open1_spec : forall s, is_open1 s = true -> leave s = (true, true) /\ opens s = 1.
Proof.
  intros [f h n fl]; unfold is_open1, leave; simpl. intro H.
  apply andb_true_iff in H as [H H3]. apply andb_true_iff in H as [H1 H2].
  apply Nat.eqb_eq in H3. subst. auto.
Qed.

Lemma is_closed0_spec : forall s, is_closed0 s = true -> leave s = (false, false) /\ opens s = 0.
Proof.
  intros [f h n fl]; unfold is_closed0, leave; simpl. intro H.
  apply andb_true_iff in H as [H H3]. apply andb_true_iff in H as [H1 H2].
  apply Nat.eqb_eq in H3. destruct f, h; simpl in *; try discriminate. auto.
Qed.

Lemma consistentb_spec : forall s, consistentb s = true ->
  leave s = (false, false) \/ leave s = (true, true).
Proof.
  intros [f h n fl]; unfold consistentb, leave; simpl. destruct f, h; simpl; intro H; try discriminate; auto.
Qed.

Lemma same_as_spec : forall s0 s, same_as s0 s = true -> leave s = leave s0 /\ opens s = opens s0.
Proof.
  intros [f0 h0 n0 fl0] [f h n fl]; unfold same_as, leave; simpl. intro H.
  apply andb_true_iff in H as [H H3]. apply andb_true_iff in H as [H1 H2].
  apply Nat.eqb_eq in H3. apply eqb_prop in H1. apply eqb_prop in H2. subst. auto.
Qed.

Lemma isnil_spec {A} : forall (l : list A), isnil l = true -> l = [].
Proof. intros [|x l]; simpl; [reflexivity | discriminate]. Qed.

Section OneDriver.
  Variable d : driver.
  Hypothesis Hopen : ok_open (open_prog d) = true.
  Hypothesis Hclose : ok_close (close_prog d) = true.

  Lemma open_parts :
    post (open_prog d) closed0 <> ([], snd (post (open_prog d) closed0)) /\
    forallb is_open1 (fst (post (open_prog d) closed0)) = true /\
    forallb consistentb (snd (post (open_prog d) closed0)) = true /\
    fst (post (open_prog d) open0) = [] /\
    forallb (same_as open0) (snd (post (open_prog d) open0)) = true.
  Proof.
    unfold ok_open in Hopen.
    apply andb_true_iff in Hopen as [H H5]. apply andb_true_iff in H as [H H4].
    apply andb_true_iff in H as [H H3]. apply andb_true_iff in H as [H1 H2].
    repeat split; try assumption.
    - intro E. rewrite E in H1. simpl in H1. discriminate.
    - apply isnil_spec; exact H4.
  Qed.

  Lemma close_parts :
    forallb is_closed0 (fst (post (close_prog d) open0)) = true /\
    forallb consistentb (snd (post (close_prog d) open0)) = true /\
    fst (post (close_prog d) closed0) = [] /\
    forallb (same_as closed0) (snd (post (close_prog d) closed0)) = true.
  Proof.
    unfold ok_close in Hclose.
    apply andb_true_iff in Hclose as [H H5]. apply andb_true_iff in H as [H H4].
    apply andb_true_iff in H as [H H3]. apply andb_true_iff in H as [H1 H2].
    repeat split; try assumption. apply isnil_spec; exact H4.
  Qed.

  (* open() on a closed instrument *)
  Lemma open_from_closed : forall o s',
    exec (open_prog d) closed0 o s' ->
    match o with
    | Normal => leave s' = (true, true) /\ opens s' = 1
    | Exc => leave s' = (false, false) \/ leave s' = (true, true)
    end.
  Proof.
    intros o s' H. apply post_sound in H. destruct open_parts as [_ [H2 [H3 _]]].
    destruct o; simpl in H.
    - apply is_open1_spec. rewrite forallb_forall in H2. apply H2; exact H.
    - apply consistentb_spec. rewrite forallb_forall in H3. apply H3; exact H.
  Qed.

  (* open() on an open instrument *)
  Lemma open_from_open : forall o s',
    exec (open_prog d) open0 o s' -> o = Exc /\ leave s' = (true, true) /\ opens s' = 0.
  Proof.
    intros o s' H. apply post_sound in H. destruct open_parts as [_ [_ [_ [H4 H5]]]].
    destruct o; simpl in H.
    - rewrite H4 in H. destruct H.
    - split; [reflexivity|]. rewrite forallb_forall in H5. apply H5 in H.
      apply same_as_spec in H. exact H.
  Qed.

  Lemma close_from_open : forall o s',
    exec (close_prog d) open0 o s' ->
    match o with
    | Normal => leave s' = (false, false) /\ opens s' = 0
    | Exc => leave s' = (false, false) \/ leave s' = (true, true)
    end.
  Proof.
    intros o s' H. apply post_sound in H. destruct close_parts as [H2 [H3 _]].
    destruct o; simpl in H.
    - apply is_closed0_spec. rewrite forallb_forall in H2. apply H2; exact H.
    - apply consistentb_spec. rewrite forallb_forall in H3. apply H3; exact H.
  Qed.

  Lemma close_from_closed : forall o s',
    exec (close_prog d) closed0 o s' -> o = Exc /\ leave s' = (false, false) /\ opens s' = 0.
  Proof.
    intros o s' H. apply post_sound in H. destruct close_parts as [_ [_ [H4 H5]]].
    destruct o; simpl in H.
    - rewrite H4 in H. destruct H.
    - split; [reflexivity|]. rewrite forallb_forall in H5. apply H5 in H.
      apply same_as_spec in H. exact H.
  Qed.

  (* open() can succeed (some execution without faults reaches the open state) *)
  Lemma open_can_succeed : exists s', exec (open_prog d) closed0 Normal s' /\ leave s' = (true, true).
  Proof.
    destruct open_parts as [H1 [H2 _]].
    destruct (fst (post (open_prog d) closed0)) as [|s' r] eqn:E.
    - exfalso. apply H1. destruct (post (open_prog d) closed0); simpl in *; subst; reflexivity.
    - exists s'. split.
      + apply (post_complete (open_prog d) closed0). rewrite E; left; reflexivity.
      + simpl in H2. apply andb_true_iff in H2 as [H2 _]. apply is_open1_spec in H2. apply H2.
  Qed.

  Definition consistent (g : gst) : Prop := g = (false, false) \/ g = (true, true).

  Lemma step_ok : forall g c r n g1,
    consistent g -> call_step d g c r n g1 -> event_ok g (c, r, n, g1) /\ consistent g1.
  Proof.
    intros g c r n g1 Hg Hs. destruct Hs as [g o s' He | g o s' He | g].
    - (* open *)
      destruct Hg as [-> | ->].
      + change (enter (false, false)) with closed0 in He.
        pose proof (open_from_closed _ _ He) as H. unfold event_ok. destruct o.
        * destruct H as [H1 H2]. rewrite H1, H2. simpl.
          split; [split; [reflexivity | split; [intros _; auto | intro X; discriminate]] | right; reflexivity].
        * assert (Hc : consistent (leave s')) by exact H.
          split; [|exact Hc]. split.
          -- destruct H as [E | E]; rewrite E; reflexivity.
          -- simpl. split; [intro X; discriminate | intros _; exact H].
      + change (enter (true, true)) with open0 in He.
        destruct (open_from_open _ _ He) as [-> [H1 H2]]. unfold event_ok. rewrite H1, H2. simpl.
        split; [split; [reflexivity | split; [reflexivity | split; reflexivity]] | right; reflexivity].
    - (* close *)
      destruct Hg as [-> | ->].
      + change (enter (false, false)) with closed0 in He.
        destruct (close_from_closed _ _ He) as [-> [H1 H2]]. unfold event_ok. rewrite H1, H2. simpl.
        split; [split; [reflexivity | split; [reflexivity | split; reflexivity]] | left; reflexivity].
      + change (enter (true, true)) with open0 in He.
        pose proof (close_from_open _ _ He) as H. unfold event_ok. destruct o.
        * destruct H as [H1 H2]. rewrite H1, H2. simpl.
          split; [split; [reflexivity | split; [intros _; auto | intro X; discriminate]] | left; reflexivity].
        * assert (Hc : consistent (leave s')) by exact H.
          split; [|exact Hc]. split.
          -- destruct H as [E | E]; rewrite E; reflexivity.
          -- simpl. split; [intro X; discriminate | intros _; exact H].
    - (* is_open *)
      split; [|exact Hg]. simpl. destruct Hg as [-> | ->]; simpl; auto.
  Qed.

  Lemma run_ok : forall g evs g2,
    consistent g -> run d g evs g2 -> history_ok g evs /\ consistent g2.
  Proof.
    intros g evs g2 Hg Hr. induction Hr as [g | g c r n g1 evs g2 Hs Hr IH].
    - split; [exact I | exact Hg].
    - destruct (step_ok _ _ _ _ _ Hg Hs) as [He Hc1].
      destruct (IH Hc1) as [Hh Hc2]. split; [|exact Hc2].
      simpl. split; [exact He | exact Hh].
  Qed.
End OneDriver.

Lemma driver_ok : forall d,
  ok_open (open_prog d) = true -> ok_close (close_prog d) = true ->
  forall evs g, run d g_closed evs g -> history_ok g_closed evs /\ fst g = snd g.
Proof.
  intros d Ho Hc evs g Hr.
  destruct (run_ok d Ho Hc g_closed evs g (or_introl eq_refl) Hr) as [H1 H2].
  split; [exact H1|]. destruct H2 as [-> | ->]; reflexivity.
Qed.

Lemma forallb_forall_neg {A} : forall (f : A -> bool) (l : list A),
  forallb f l = false -> exists x, In x l /\ f x = false.
Proof.
  intros f l; induction l as [|x l IH]; simpl; intro H; [discriminate|].
  destruct (f x) eqn:E.
  - destruct (IH H) as [y [Hy Hf]]. exists y; split; [right; exact Hy | exact Hf].
  - exists x; split; [left; reflexivity | exact E].
Qed.

(* a refuted side condition is a real execution of the program: fault placement included *)
Lemma open_refuted_witness : forall p,
  ok_open p = false ->
  (forall s', ~ exec p closed0 Normal s') \/
  (exists s', exec p closed0 Normal s' /\ is_open1 s' = false) \/
  (exists s', exec p closed0 Exc s' /\ flag s' <> held s') \/
  (exists s', exec p open0 Normal s') \/
  (exists s', exec p open0 Exc s' /\ same_as open0 s' = false).
Proof.
  intros p H. unfold ok_open in H.
  destruct (nonempty (fst (post p closed0))) eqn:E1.
  2:{ left. intros s' Hx. apply post_sound in Hx. simpl in Hx.
      destruct (fst (post p closed0)); [destruct Hx | discriminate]. }
  destruct (forallb is_open1 (fst (post p closed0))) eqn:E2.
  2:{ right; left. apply forallb_forall_neg in E2. destruct E2 as [s' [Hin Hb]].
      exists s'. split; [apply (post_complete p closed0); exact Hin | exact Hb]. }
  destruct (forallb consistentb (snd (post p closed0))) eqn:E3.
  2:{ right; right; left. apply forallb_forall_neg in E3. destruct E3 as [s' [Hin Hb]].
      exists s'. split; [apply (post_complete p closed0); exact Hin |].
      unfold consistentb in Hb. intro E. rewrite E in Hb. rewrite eqb_reflx in Hb. discriminate. }
  destruct (isnil (fst (post p open0))) eqn:E4.
  2:{ right; right; right; left. destruct (fst (post p open0)) as [|s' r] eqn:E; [discriminate|].
      exists s'. apply (post_complete p open0). rewrite E; left; reflexivity. }
  simpl in H.
  right; right; right; right. apply forallb_forall_neg in H. destruct H as [s' [Hin Hb]].
  exists s'. split; [apply (post_complete p open0); exact Hin | exact Hb].
Qed.
