(* C19 — property theorems only.  All statements are about [exec] (every fault placement: each Io / LinkOpen /
   LinkClose may raise, any number of times) and about [run] (every sequence of open / close / is_open calls).
   The per-driver-class instances of the boolean side conditions [ok_open] / [ok_close] are generated from
   /repo on every run into coq/gen/C19Drivers.v and discharged there by vm_compute. *)
From Coq Require Import List Bool NArith.
Import ListNotations.
Require Import QV.C19.Model QV.C19.Proofs.

(* The analyser covers every execution: whatever operations fail, the final state is listed. *)
Theorem C19_post_sound : forall p s o s',
  exec p s o s' -> In s' (match o with Normal => fst (post p s) | Exc => snd (post p s) end).
Proof. exact post_sound. Qed.
Print Assumptions C19_post_sound.

(* ... and lists nothing else: every listed state is reached by an execution (so a refuted side condition is a
   real fault scenario of the translated program, not an artefact of the analyser). *)
Theorem C19_post_complete : forall p s,
  (forall s', In s' (fst (post p s)) -> exec p s Normal s') /\
  (forall s', In s' (snd (post p s)) -> exec p s Exc s').
Proof. exact post_complete. Qed.
Print Assumptions C19_post_complete.

(* Generic driver theorem.  If the two boolean conditions hold for a driver's open/close programs then, for EVERY
   sequence of open / close / is_open calls starting from a closed instrument and EVERY placement of faults inside
   those calls: after each call is_open() = "link held"; is_open() reports it; a successful open() from closed
   opens the link exactly once; a failing open() leaves (closed, released) or (open, held); open() on an open and
   close() on a closed instrument raise and change nothing; a successful close() leaves (closed, released). *)
Theorem C19_driver_ok : forall d,
  ok_open (open_prog d) = true -> ok_close (close_prog d) = true ->
  forall evs g, run d g_closed evs g -> history_ok g_closed evs /\ fst g = snd g.
Proof. exact driver_ok. Qed.
Print Assumptions C19_driver_ok.

(* Under the side condition open() is not vacuously safe: without faults it does open the instrument. *)
Theorem C19_open_can_succeed : forall d,
  ok_open (open_prog d) = true ->
  exists s', exec (open_prog d) closed0 Normal s' /\ leave s' = (true, true).
Proof. exact open_can_succeed. Qed.
Print Assumptions C19_open_can_succeed.

(* Meaning of a refuted open() side condition: one of five concrete executions exists. *)
Theorem C19_open_refuted_witness : forall p,
  ok_open p = false ->
  (forall s', ~ exec p closed0 Normal s') \/
  (exists s', exec p closed0 Normal s' /\ is_open1 s' = false) \/
  (exists s', exec p closed0 Exc s' /\ flag s' <> held s') \/
  (exists s', exec p open0 Normal s') \/
  (exists s', exec p open0 Exc s' /\ same_as open0 s' = false).
Proof. exact open_refuted_witness. Qed.
Print Assumptions C19_open_refuted_witness.

(* Non-vacuity.  The shape of thorlabs/k10cr1.py (cleanup on failure) satisfies the conditions ... *)
Definition ex_open_cleanup : prog :=
  seql [CheckClosed; LinkOpen 1; Try (seql [Io 2; Io 3]) (seql [LinkClose 4; Raise]) false; CheckClosed; SetOpen].
Definition ex_close : prog := seql [CheckOpen; SetClosed; LinkClose 5].
Example C19_example_ok : ok_open ex_open_cleanup = true /\ ok_close ex_close = true.
Proof. vm_compute. split; reflexivity. Qed.

(* ... a history through it with a fault at line 3 during the first open, the cleanup, and a successful retry *)
Example C19_example_run :
  run (mk_driver ex_open_cleanup ex_close) g_closed
      [(COpen, RDone Exc, 1, (false, false)); (CIsOpen, RBool false, 0, (false, false));
       (COpen, RDone Normal, 1, (true, true)); (CClose, RDone Normal, 0, (false, false))] (false, false).
Proof.
  eapply R_cons.
  { apply (CS_open (mk_driver ex_open_cleanup ex_close) g_closed Exc (mk_st false false 1 [3%N])).
    apply (post_complete ex_open_cleanup closed0). vm_compute. auto 10. }
  eapply R_cons. { apply (CS_is_open _ (false, false)). }
  eapply R_cons.
  { apply (CS_open (mk_driver ex_open_cleanup ex_close) (false, false) Normal (mk_st true true 1 [])).
    apply (post_complete ex_open_cleanup closed0). vm_compute. auto. }
  eapply R_cons.
  { apply (CS_close (mk_driver ex_open_cleanup ex_close) (true, true) Normal (mk_st false false 0 [])).
    apply (post_complete ex_close open0). vm_compute. auto. }
  apply R_nil.
Qed.

(* ... and the shape of thorlabs/mff10x.py (I/O between the transport open and super().open(), no cleanup) is
   refuted: a fault at line 2 leaves the instrument marked closed with the link held. *)
Definition ex_open_leaky : prog := seql [CheckClosed; LinkOpen 1; Io 2; CheckClosed; SetOpen].
Example C19_example_refuted :
  ok_open ex_open_leaky = false /\ exec ex_open_leaky closed0 Exc (mk_st false true 1 [2%N]).
Proof.
  split; [vm_compute; reflexivity|].
  apply (post_complete ex_open_leaky closed0). vm_compute. auto.
Qed.

(* ---- part 2: a closed instrument performs no device I/O (RPC methods) ------------------------------ *)
Require Import QV.C19.ProofsRpc.

(* Generic theorem for the per-method obligations of coq/gen/C19Methods.v: if [closed_safe m = true] then EVERY
   execution of the method on a closed instrument with the link released — whatever Python code raises or not,
   whichever branch is taken, however often a loop runs — ends with nothing touched (no operation reached the
   device or any other resource of the driver) and flag and link unchanged. *)
Theorem C19_closed_safe : forall p,
  closed_safe p = true -> forall o s', mexec p m_closed0 o s' -> s' = m_closed0.
Proof. exact closed_safe_sound. Qed.
Print Assumptions C19_closed_safe.

(* A method never changes flag or link, in any state (the translator refuses methods that could). *)
Theorem C19_method_keeps_state : forall p s o s',
  mexec p s o s' -> m_flag s' = m_flag s /\ m_held s' = m_held s.
Proof. exact method_keeps_state. Qed.
Print Assumptions C19_method_keeps_state.

(* The outcomes the analyser allows cover every execution (this is what the dynamic tie compares with). *)
Theorem C19_method_outcomes : forall p s o s',
  mexec p s o s' -> allowed o (an (m_flag s) (m_held s) p) = true.
Proof. exact outcome_sound. Qed.
Print Assumptions C19_method_outcomes.

(* Non-vacuity: guarded by the state check; guarded only by the transport's own refusal; not guarded. *)
Example C19_example_method_guarded :
  closed_safe (MCall (mseql [MCheckOpen; MEff 3; MDev 4; MReturn])) = true.
Proof. vm_compute. reflexivity. Qed.
Example C19_example_method_transport_refuses :
  closed_safe (MCall (mseql [MIo 1; MLoop (mseql [MDev 2; MIo 3]); MDev 4; MEff 5])) = true.
Proof. vm_compute. reflexivity. Qed.
Example C19_example_method_unguarded :
  closed_safe (MCall (mseql [MIo 1; MEff 2; MCheckOpen; MDev 3])) = false /\
  mexec (MCall (mseql [MIo 1; MEff 2; MCheckOpen; MDev 3])) m_closed0 OExc (mk_mst false false [2%N]).
Proof.
  split; [vm_compute; reflexivity|].
  change OExc with (call_out OExc). apply M_Call. simpl.
  eapply M_SeqN; [apply M_IoOk|].
  eapply M_SeqN; [apply M_EffOk|].
  apply M_SeqA; [|discriminate]. apply M_CheckOpenRaise. reflexivity.
Qed.
