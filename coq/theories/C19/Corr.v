(* C19 correspondence: a case is one real call observed on a real driver class under fault injection —
   (the class's generated program, the state before the call, the outcome, the state after the call) — and
   the check is membership of the observed final state in the model's post set (flag, link held and the number
   of successful link opens during the call are compared; the ghost fault log is not). *)
Require Export QV.Lib.Corr QV.C19.Model.
From Coq Require Import List Bool NArith Arith.
Import ListNotations.

Definition obs_eqb (a b : st) : bool :=
  Bool.eqb (flag a) (flag b) && Bool.eqb (held a) (held b) && Nat.eqb (opens a) (opens b).

Definition case := (prog * st * outcome * st)%type.

Definition model_out (c : case) : list st :=
  let '(p, s, o, _) := c in
  match o with Normal => fst (post p s) | Exc => snd (post p s) end.

Definition check_case (c : case) : bool :=
  let '(_, _, _, obs) := c in existsb (obs_eqb obs) (model_out c).

(* printing helper for replays / counter-examples *)
Definition show_st (s : st) : (bool * bool * nat * list N) := (flag s, held s, opens s, faults s).
Definition ob (f h : bool) (n : nat) : st := mk_st f h n [].

(* part 2: one real RPC call on a closed instrument: (method program, observed outcome); the outcome must be one
   the analyser allows from (closed, released). *)
Definition mcase := (mprog * mout)%type.
Definition check_mcase (c : mcase) : bool := allowed (snd c) (an false false (fst c)).
Definition show_res (p : mprog) : (bool * bool * bool) :=
  let a := an false false p in (rn a, rx a, rt a).
