(* C19 part 2 — the analyser [an] is sound for [mexec]; the closed-instrument theorem. *)
From Coq Require Import List Bool NArith Lia.
Import ListNotations.
Require Import QV.C19.Model.

Definition sound_at (p : mprog) (s : mst) (o : mout) (s' : mst) : Prop :=
  m_flag s' = m_flag s /\ m_held s' = m_held s /\
  allowed o (an (m_flag s) (m_held s) p) = true /\
  (rt (an (m_flag s) (m_held s) p) = false -> m_touched s' = m_touched s).

Ltac bsimp :=
  repeat match goal with
         | H : _ || _ = false |- _ => apply orb_false_iff in H; destruct H
         | H : _ && _ = true |- _ => apply andb_true_iff in H; destruct H
         | |- _ || _ = true => apply orb_true_iff
         end.

Ltac quad := split; [|split; [|split]].
(* goal [allowed o _ = true] from hypotheses of the same shape *)
Ltac t_allowed :=
  match goal with
  | |- allowed ?o _ = true =>
      destruct o; simpl in *; try congruence;
      repeat match goal with H : _ = true |- _ => rewrite H end; simpl; repeat rewrite orb_true_r; auto
  end.
(* goal [rt .. = false -> touched s' = touched s] *)
Ltac t_touch :=
  let X := fresh "X" in
  intro X; simpl in *; bsimp; try discriminate;
  repeat match goal with
         | T : ?a = false -> _ = _, H : ?a = false |- _ => specialize (T H)
         end; try congruence; auto.
Ltac fin := quad; try congruence; auto; try t_allowed; try t_touch.

Lemma an_sound : forall p s o s', mexec p s o s' -> sound_at p s o s'.
Proof.
  intros p s o s' H. induction H; unfold sound_at in *; simpl.
  - (* Skip *) fin.
  - (* SeqN *)
    destruct IHmexec1 as [F1 [G1 [A1 T1]]]. destruct IHmexec2 as [F2 [G2 [A2 T2]]].
    rewrite F1, G1 in *. simpl in A1. rewrite A1. simpl. fin.
  - (* SeqA *)
    destruct IHmexec as [F1 [G1 [A1 T1]]].
    destruct (rn (an (m_flag s) (m_held s) p)) eqn:E; simpl; fin.
  - fin.
  - fin.
  - (* DevOk *) rewrite H. simpl. fin.
  - rewrite H. simpl. fin.
  - rewrite H. simpl. fin.
  - fin.
  - fin.
  - rewrite H. simpl. fin.
  - rewrite H. simpl. fin.
  - rewrite H. simpl. fin.
  - rewrite H. simpl. fin.
  - rewrite H. simpl. fin.
  - rewrite H. simpl. fin.
  - fin.
  - fin.
  - fin.
  - (* ChoiceL *) destruct IHmexec as [F1 [G1 [A1 T1]]]. fin.
  - destruct IHmexec as [F1 [G1 [A1 T1]]]. fin.
  - (* TryPass *)
    destruct IHmexec as [F1 [G1 [A1 T1]]].
    destruct (rx (an (m_flag s) (m_held s) b)) eqn:E; simpl; fin.
  - (* TryCatch *)
    destruct IHmexec1 as [F1 [G1 [A1 T1]]]. destruct IHmexec2 as [F2 [G2 [A2 T2]]].
    rewrite F1, G1 in *. simpl in A1. rewrite A1. simpl. fin.
  - (* FinN *)
    destruct IHmexec1 as [F1 [G1 [A1 T1]]]. destruct IHmexec2 as [F2 [G2 [A2 T2]]].
    rewrite F1, G1 in *. simpl in A2.
    assert (ANY : r_any (an (m_flag s) (m_held s) b) = true).
    { unfold r_any. destruct o1; simpl in A1; rewrite A1; simpl; repeat rewrite orb_true_r; reflexivity. }
    rewrite ANY. simpl. fin.
  - (* FinA *)
    destruct IHmexec1 as [F1 [G1 [A1 T1]]]. destruct IHmexec2 as [F2 [G2 [A2 T2]]].
    rewrite F1, G1 in *.
    assert (ANY : r_any (an (m_flag s) (m_held s) b) = true).
    { unfold r_any. destruct o1; simpl in A1; rewrite A1; simpl; repeat rewrite orb_true_r; reflexivity. }
    rewrite ANY. simpl. fin.
  - (* LoopStop *) fin.
  - (* LoopIter *)
    destruct IHmexec1 as [F1 [G1 [A1 T1]]]. destruct IHmexec2 as [F2 [G2 [A2 T2]]].
    rewrite F1, G1 in *. simpl in A2, T2. fin.
  - destruct IHmexec as [F1 [G1 [A1 T1]]]. simpl in A1. fin.
  - destruct IHmexec as [F1 [G1 [A1 T1]]]. simpl in A1. fin.
  - (* Call *)
    destruct IHmexec as [F1 [G1 [A1 T1]]]. quad; auto.
    destruct o; simpl in *; rewrite A1; simpl; repeat rewrite orb_true_r; reflexivity.
Qed.

Lemma closed_safe_sound : forall p,
  closed_safe p = true -> forall o s', mexec p m_closed0 o s' -> s' = m_closed0.
Proof.
  intros p H o s' E. apply an_sound in E. destruct E as [F [Hh [_ T]]].
  unfold closed_safe in H. apply negb_true_iff in H. simpl in *.
  specialize (T H). destruct s' as [f h t]. simpl in *. subst. reflexivity.
Qed.

(* what the analyser says about outcomes is respected too (used by the correspondence) *)
Lemma outcome_sound : forall p s o s',
  mexec p s o s' -> allowed o (an (m_flag s) (m_held s) p) = true.
Proof. intros p s o s' H. apply an_sound in H. apply H. Qed.

(* and in every state, flag and link are untouched by a method *)
Lemma method_keeps_state : forall p s o s',
  mexec p s o s' -> m_flag s' = m_flag s /\ m_held s' = m_held s.
Proof. intros p s o s' H. apply an_sound in H. destruct H as [A [B _]]. auto. Qed.
