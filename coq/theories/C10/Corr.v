(* C10 correspondence: an interleaving of the real QMI_TaskRunner / _TaskThread recorded under the
   deterministic scheduler (external operations at their linearisation points, internal task-thread
   steps as they happen, each with the result observed on the implementation) must be accepted by the
   model ([exec] succeeds on the label sequence), every result must equal the model's, and the number of
   run() invocations / thread-exited flag observed at the end must equal the model's.  When the real run
   ended blocked in join() (a task that was neither started nor stopped), the model must have [Join]
   disabled in the state reached.  Settings values are integers here (V := Z). *)
Require Export QV.Lib.Corr QV.C10.Model QV.C10.ModelLoop.
From Coq Require Import ZArith.

Definition out_eqb (a b : out Z) : bool :=
  match a, b with
  | ONone, ONone => true
  | OUsageError, OUsageError => true
  | OTaskRunError, OTaskRunError => true
  | OInitError, OInitError => true
  | OBool x, OBool y => Bool.eqb x y
  | OVal x, OVal y => Z.eqb x y
  | OOpt x, OOpt y => option_eqb Z.eqb x y
  | OUpd b x, OUpd c y => Bool.eqb b c && Z.eqb x y
  | _, _ => false
  end.

(* initial settings, observed log (result None = not observable from outside: the outcome of the join
   inside release_rpc_object is swallowed), observed (run() invocations, thread exited, blocked in join) *)
Definition case := (Z * list (label Z * option (out Z)) * (nat * bool * bool))%type.

Definition obs_eqb (m : out Z) (o : option (out Z)) : bool :=
  match o with None => true | Some x => out_eqb m x end.

Fixpoint outs_match (ms : list (out Z)) (os : list (option (out Z))) : bool :=
  match ms, os with
  | [], [] => true
  | m :: ms', o :: os' => obs_eqb m o && outs_match ms' os'
  | _, _ => false
  end.

(* run as far as the model accepts: (number of accepted labels, results, state reached) *)
Fixpoint run_upto (s : st Z) (ls : list (label Z)) : nat * list (out Z) * st Z :=
  match ls with
  | [] => (0, [], s)
  | l :: r =>
      match step s l with
      | None => (0, [], s)
      | Some (s1, o) => let '(n, os, s2) := run_upto s1 r in (S n, o :: os, s2)
      end
  end.

(* (accepted labels, results, run_count, thread_done, join enabled) *)
Definition model_out (c : case) : nat * list (out Z) * nat * bool * bool :=
  let '(v0, tr, _) := c in
  let '(n, os, s) := run_upto (init v0) (map fst tr) in
  (n, os, run_count s, thread_done s, match step s (Ext Join) with Some _ => true | None => false end).

Definition check_case (c : case) : bool :=
  let '(v0, tr, (rc, dn, blocked)) := c in
  match exec (init v0) (map fst tr) with
  | Some (s, tr') =>
      outs_match (map snd tr') (map snd tr) &&
      Nat.eqb (run_count s) rc && Bool.eqb (thread_done s) dn &&
      (if blocked then match step s (Ext Join) with None => true | Some _ => false end else true)
  | None => false
  end.

(* ---- QMI_LoopTask: the real run() under virtual time against ModelLoop.loop_run -------------------
   policy, period, t0 (clock at loop_prepare), external stop time, scripted durations (all in ticks),
   observed: (clock, next_time) at the entry of every loop_iteration, (clock, next_time) in loop_finalize *)
Definition lcase := (policy * Z * Z * option Z * list Z * (list (Z * Z) * (Z * Z)))%type.

Definition lmodel_out (c : lcase) : list (Z * Z) * lfinal :=
  let '(pol, p, t0, ts, durs, _) := c in loop_run pol p t0 ts durs.

Definition zz_eqb (a b : Z * Z) : bool := Z.eqb (fst a) (fst b) && Z.eqb (snd a) (snd b).

Definition check_lcase (c : lcase) : bool :=
  let '(_, _, _, _, _, (its, fin)) := c in
  let '(mits, mfin) := lmodel_out c in
  list_eqb zz_eqb mits its && zz_eqb (f_now mfin, f_next mfin) fin.
