(* C10 — property theorems only.  Each is closed by [exact] of a lemma of Proofs.v and followed by
   Print Assumptions.

   Every statement is about [exec (init v0) ls = Some (s, tr)]: ls is ANY finite interleaving of
   external operations (the runner's RPC methods, one at a time) with internal task-thread steps that
   the model accepts (every step enabled when taken; [join] is enabled only once the thread exited),
   s the state reached and tr the event log (label, result).  V, the type of settings values, is
   abstract: values are only stored, moved and returned whole.  [exec] / [step] are the functions the
   correspondence check runs against the real QMI_TaskRunner under the deterministic scheduler. *)
Require Import QV.C10.Model QV.C10.Proofs.

(* run() is invoked at most once; the number of invocations is the number of TBeginRun steps; at most
   one start() succeeds; and run() has been invoked only if a start() succeeded *)
Theorem C10_run_once : forall (V : Type) (v0 : V) ls s tr,
  exec (init v0) ls = Some (s, tr) ->
  run_count s <= 1 /\ run_count s = begins ls /\ cnt is_succ_start tr <= 1 /\
  (run_count s = 1 -> In (Ext Start, ONone) tr).
Proof. exact (@run_once). Qed.
Print Assumptions C10_run_once.

(* the task thread can enter run() only after a successful start(), and only if it has not run yet *)
Theorem C10_run_only_after_start : forall (V : Type) (v0 : V) ls s tr,
  exec (init v0) ls = Some (s, tr) ->
  step s (Int TBeginRun) <> None -> In (Ext Start, ONone) tr /\ run_count s = 0.
Proof. exact (@run_only_after_start). Qed.
Print Assumptions C10_run_only_after_start.

(* stop() before any successful start(): whatever happens afterwards, run() is never invoked, every
   later start() is refused with the usage error, and join() never reports a task-run error *)
Theorem C10_stop_first : forall (V : Type) (v0 : V) l1 s1 tr1 l2 s2 tr2,
  exec (init v0) l1 = Some (s1, tr1) -> ~ In (Ext Start, ONone) tr1 ->
  exec s1 (Ext Stop :: l2) = Some (s2, tr2) ->
  run_count s2 = 0 /\ begins (l1 ++ Ext Stop :: l2) = 0 /\
  (forall o, In (Ext Start, o) tr2 -> o = OUsageError) /\
  (forall o, In (Ext Join, o) tr2 -> o = ONone).
Proof. exact (@stop_first). Qed.
Print Assumptions C10_stop_first.

(* after a successful start() every further start() is refused and changes nothing *)
Theorem C10_second_start_refused : forall (V : Type) (v0 : V) ls s tr,
  exec (init v0) ls = Some (s, tr) ->
  In (Ext Start, ONone) tr -> step s (Ext Start) = Some (s, OUsageError).
Proof. exact (@second_start_refused). Qed.
Print Assumptions C10_second_start_refused.

(* join() can return exactly when the task thread has exited; then run() has finished or the task was
   stopped before any start; it raises the task-run error iff run() ended with an exception other than
   the stop exception, returns None otherwise; the state assertion in join() holds; only _joined
   changes *)
Theorem C10_join : forall (V : Type) (v0 : V) ls s tr,
  exec (init v0) ls = Some (s, tr) ->
  (step s (Ext Join) <> None <-> In (Int TExit) ls) /\
  forall s' o, step s (Ext Join) = Some (s', o) ->
    In (Int TExit) ls /\
    (finished ls \/ (run_count s = 0 /\ In (Ext Stop) ls /\ ~ In (Ext Start, ONone) tr)) /\
    (o = OTaskRunError <-> In (Int TFinishExc) ls) /\
    (o = ONone <-> ~ In (Int TFinishExc) ls) /\
    final_state (state s) /\
    s' = mk (state s) (pc s) (run_count s) (stop_flag s) (slot s) (cur s) true.
Proof. exact (@join_spec). Qed.
Print Assumptions C10_join.

(* is_running() is true exactly in state RUNNING, i.e. exactly between a successful start() and the
   step in which the end of run() is recorded *)
Theorem C10_is_running : forall (V : Type) (v0 : V) ls s tr,
  exec (init v0) ls = Some (s, tr) ->
  forall s' o, step s (Ext IsRunning) = Some (s', o) ->
    s' = s /\ exists b, o = OBool b /\
      (b = true <-> state s = RUNNING) /\
      (b = true <-> In (Ext Start, ONone) tr /\ ~ finished ls).
Proof. exact (@is_running_spec). Qed.
Print Assumptions C10_is_running.

(* update_settings() returns true iff a value was posted since the previous update_settings(); the
   task then holds the most recently posted value and the slot is empty; otherwise nothing changes *)
Theorem C10_settings : forall (V : Type) (v0 : V) ls s tr,
  exec (init v0) ls = Some (s, tr) ->
  forall s' o, step s (Int TUpdate) = Some (s', o) ->
    slot s = last_opt (posts_since tr) /\
    (posts_since tr = [] -> o = OUpd false (cur s) /\ s' = s) /\
    (posts_since tr <> [] ->
       o = OUpd true (last (posts_since tr) (cur s)) /\
       cur s' = last (posts_since tr) (cur s) /\ slot s' = None /\
       state s' = state s /\ pc s' = pc s /\ run_count s' = run_count s).
Proof. exact (@settings_spec). Qed.
Print Assumptions C10_settings.

(* what "posted since the previous update" means: all values posted after the last TUpdate of the log
   (or in the whole log if there was no update), oldest first *)
Theorem C10_posts_since_after_update : forall (V : Type) (tr1 tr2 : list (label V * out V)) e,
  is_update e = true -> existsb is_update tr2 = false ->
  posts_since (tr1 ++ e :: tr2) = posted tr2.
Proof. exact (@posts_since_after_update). Qed.
Print Assumptions C10_posts_since_after_update.

Theorem C10_posts_since_no_update : forall (V : Type) (tr : list (label V * out V)),
  existsb is_update tr = false -> posts_since tr = posted tr.
Proof. exact (@posts_since_no_update). Qed.
Print Assumptions C10_posts_since_no_update.

(* get_pending_settings() returns the newest value posted since the previous update (or None) *)
Theorem C10_pending : forall (V : Type) (v0 : V) ls s tr,
  exec (init v0) ls = Some (s, tr) ->
  forall s' o, step s (Ext GetPending) = Some (s', o) ->
    s' = s /\ o = OOpt (last_opt (posts_since tr)).
Proof. exact (@pending_spec). Qed.
Print Assumptions C10_pending.

(* the stop flag is only ever seen set after a stop() ... *)
Theorem C10_stop_flag_only_after_stop : forall (V : Type) (v0 : V) ls s tr,
  exec (init v0) ls = Some (s, tr) ->
  forall s' o, step s (Int TPollStop) = Some (s', o) ->
    s' = s /\ o = OBool (stop_flag s) /\ (stop_flag s = true -> In (Ext Stop) ls).
Proof. exact (@poll_stop_spec). Qed.
Print Assumptions C10_stop_flag_only_after_stop.

(* ... and a stop() issued after run() was entered is seen by every later poll of the flag *)
Theorem C10_stop_flag_after_stop : forall (V : Type) (v0 : V) l1 s1 tr1 l2 s2 tr2,
  exec (init v0) l1 = Some (s1, tr1) -> In (Int TBeginRun) l1 ->
  exec s1 (Ext Stop :: l2) = Some (s2, tr2) ->
  stop_flag s2 = true /\ (forall o, In (Int TPollStop, o) tr2 -> o = OBool true).
Proof. exact (@stop_after_begin). Qed.
Print Assumptions C10_stop_flag_after_stop.

(* release_rpc_object has nothing left to do only after a join(), hence after the thread exited *)
Theorem C10_release : forall (V : Type) (v0 : V) ls s tr,
  exec (init v0) ls = Some (s, tr) ->
  step s (Ext Release) <> None -> In (Ext Join) ls /\ In (Int TExit) ls.
Proof. exact (@release_spec). Qed.
Print Assumptions C10_release.

(* Non-vacuity: concrete interleavings are accepted, with the expected results. *)
Example C10_example_run_and_fail :
  option_map snd (exec (init 0)
    [Int TInitDone; Ext (SetSettings 7); Ext (SetSettings 8); Ext Start; Ext IsRunning; Int TBeginRun;
     Int TUpdate; Ext Start; Ext Stop; Int TPollStop; Int TUpdate; Int TFinishExc; Ext IsRunning;
     Int TExit; Ext Join; Ext Release])
  = Some [(Int TInitDone, ONone); (Ext (SetSettings 7), ONone); (Ext (SetSettings 8), ONone);
          (Ext Start, ONone); (Ext IsRunning, OBool true); (Int TBeginRun, ONone);
          (Int TUpdate, OUpd true 8); (Ext Start, OUsageError); (Ext Stop, ONone);
          (Int TPollStop, OBool true); (Int TUpdate, OUpd false 8); (Int TFinishExc, ONone);
          (Ext IsRunning, OBool false); (Int TExit, ONone); (Ext Join, OTaskRunError);
          (Ext Release, ONone)].
Proof. vm_compute. reflexivity. Qed.

Example C10_example_stop_first :
  option_map snd (exec (init 0)
    [Int TInitDone; Ext Stop; Ext Start; Int TExit; Ext Join; Ext Start; Ext IsRunning])
  = Some [(Int TInitDone, ONone); (Ext Stop, ONone); (Ext Start, OUsageError); (Int TExit, ONone);
          (Ext Join, ONone); (Ext Start, OUsageError); (Ext IsRunning, OBool false)].
Proof. vm_compute. reflexivity. Qed.

(* join() is a guarded step: not enabled while the thread is alive; no external op during init *)
Example C10_example_join_blocks :
  exec (init 0) [Int TInitDone; Ext Start; Int TBeginRun; Ext Join] = None /\
  exec (init 0) [Ext Start] = None.
Proof. vm_compute. split; reflexivity. Qed.
