(* C10 — property theorems only.  Each is closed by [exact] of a lemma of Proofs.v and followed by
   Print Assumptions.

   Every statement is about [exec (init v0) ls = Some (s, tr)]: ls is ANY finite interleaving of
   external operations (the runner's RPC methods, one at a time) with internal task-thread steps that
   the model accepts (every step enabled when taken; [join] is enabled only once the thread exited;
   the runner's constructor is part of the system: label [Ctor] is its completion, and no other external
   operation is enabled before it has returned a runner or after it has raised),
   s the state reached and tr the event log (label, result).  V, the type of settings values, is
   abstract: values are only stored, moved and returned whole.  [exec] / [step] are the functions the
   correspondence check runs against the real QMI_TaskRunner under the deterministic scheduler. *)
Require Import QV.C10.Model QV.C10.Proofs QV.C10.ModelLoop QV.C10.ProofsLoop.
From Coq Require Import ZArith.

(* run() is invoked at most once; the number of invocations is the number of TBeginRun steps; at most
   one start() succeeds; and run() has been invoked only if a start() succeeded *)
Theorem C10_run_once : forall (V : Type) (v0 : V) ls s tr,
  exec (init v0) ls = Some (s, tr) ->
  run_count s <= 1 /\ run_count s = begins ls /\ cnt is_succ_start tr <= 1 /\
  (run_count s = 1 -> In (Ext Start, ONone) tr).
Proof. exact (@run_once). Qed.
Print Assumptions C10_run_once.

(* the task thread can enter run() only after a successful start(), and only if it has not run yet *)
Theorem C10_run_only_after_start : forall (V : Type) (v0 : V) ls s tr,
  exec (init v0) ls = Some (s, tr) ->
  step s (Int TBeginRun) <> None -> In (Ext Start, ONone) tr /\ run_count s = 0.
Proof. exact (@run_only_after_start). Qed.
Print Assumptions C10_run_only_after_start.

(* stop() before any successful start(): whatever happens afterwards, run() is never invoked, every
   later start() is refused with the usage error, and join() never reports a task-run error *)
Theorem C10_stop_first : forall (V : Type) (v0 : V) l1 s1 tr1 l2 s2 tr2,
  exec (init v0) l1 = Some (s1, tr1) -> ~ In (Ext Start, ONone) tr1 ->
  exec s1 (Ext Stop :: l2) = Some (s2, tr2) ->
  run_count s2 = 0 /\ begins (l1 ++ Ext Stop :: l2) = 0 /\
  (forall o, In (Ext Start, o) tr2 -> o = OUsageError) /\
  (forall o, In (Ext Join, o) tr2 -> o = ONone).
Proof. exact (@stop_first). Qed.
Print Assumptions C10_stop_first.

(* after a successful start() every further start() is refused and changes nothing *)
Theorem C10_second_start_refused : forall (V : Type) (v0 : V) ls s tr,
  exec (init v0) ls = Some (s, tr) ->
  In (Ext Start, ONone) tr -> step s (Ext Start) = Some (s, OUsageError).
Proof. exact (@second_start_refused). Qed.
Print Assumptions C10_second_start_refused.

(* join() can return exactly when the task thread has exited; then run() has finished or the task was
   stopped before any start; it raises the task-run error iff run() ended with an exception other than
   the stop exception, returns None otherwise; the state assertion in join() holds; only _joined
   changes *)
Theorem C10_join : forall (V : Type) (v0 : V) ls s tr,
  exec (init v0) ls = Some (s, tr) ->
  (step s (Ext Join) <> None <-> In (Ext Ctor, ONone) tr /\ In (Int TExit) ls) /\
  forall s' o, step s (Ext Join) = Some (s', o) ->
    In (Int TExit) ls /\
    (finished ls \/ (run_count s = 0 /\ In (Ext Stop) ls /\ ~ In (Ext Start, ONone) tr)) /\
    (o = OTaskRunError <-> In (Int TFinishExc) ls) /\
    (o = ONone <-> ~ In (Int TFinishExc) ls) /\
    final_state (state s) /\
    s' = mk (state s) (pc s) (run_count s) (stop_flag s) (slot s) (cur s) true (ctor s).
Proof. exact (@join_spec). Qed.
Print Assumptions C10_join.

(* is_running() is true exactly in state RUNNING, i.e. exactly between a successful start() and the
   step in which the end of run() is recorded *)
Theorem C10_is_running : forall (V : Type) (v0 : V) ls s tr,
  exec (init v0) ls = Some (s, tr) ->
  forall s' o, step s (Ext IsRunning) = Some (s', o) ->
    s' = s /\ exists b, o = OBool b /\
      (b = true <-> state s = RUNNING) /\
      (b = true <-> In (Ext Start, ONone) tr /\ ~ finished ls).
Proof. exact (@is_running_spec). Qed.
Print Assumptions C10_is_running.

(* update_settings() returns true iff a value was posted since the previous update_settings(); the
   task then holds the most recently posted value and the slot is empty; otherwise nothing changes *)
Theorem C10_settings : forall (V : Type) (v0 : V) ls s tr,
  exec (init v0) ls = Some (s, tr) ->
  forall s' o, step s (Int TUpdate) = Some (s', o) ->
    slot s = last_opt (posts_since tr) /\
    (posts_since tr = [] -> o = OUpd false (cur s) /\ s' = s) /\
    (posts_since tr <> [] ->
       o = OUpd true (last (posts_since tr) (cur s)) /\
       cur s' = last (posts_since tr) (cur s) /\ slot s' = None /\
       state s' = state s /\ pc s' = pc s /\ run_count s' = run_count s).
Proof. exact (@settings_spec). Qed.
Print Assumptions C10_settings.

(* what "posted since the previous update" means: all values posted after the last TUpdate of the log
   (or in the whole log if there was no update), oldest first *)
Theorem C10_posts_since_after_update : forall (V : Type) (tr1 tr2 : list (label V * out V)) e,
  is_update e = true -> existsb is_update tr2 = false ->
  posts_since (tr1 ++ e :: tr2) = posted tr2.
Proof. exact (@posts_since_after_update). Qed.
Print Assumptions C10_posts_since_after_update.

Theorem C10_posts_since_no_update : forall (V : Type) (tr : list (label V * out V)),
  existsb is_update tr = false -> posts_since tr = posted tr.
Proof. exact (@posts_since_no_update). Qed.
Print Assumptions C10_posts_since_no_update.

(* get_pending_settings() returns the newest value posted since the previous update (or None) *)
Theorem C10_pending : forall (V : Type) (v0 : V) ls s tr,
  exec (init v0) ls = Some (s, tr) ->
  forall s' o, step s (Ext GetPending) = Some (s', o) ->
    s' = s /\ o = OOpt (last_opt (posts_since tr)).
Proof. exact (@pending_spec). Qed.
Print Assumptions C10_pending.

(* the stop flag is only ever seen set after a stop() ... *)
Theorem C10_stop_flag_only_after_stop : forall (V : Type) (v0 : V) ls s tr,
  exec (init v0) ls = Some (s, tr) ->
  forall s' o, step s (Int TPollStop) = Some (s', o) ->
    s' = s /\ o = OBool (stop_flag s) /\ (stop_flag s = true -> In (Ext Stop) ls).
Proof. exact (@poll_stop_spec). Qed.
Print Assumptions C10_stop_flag_only_after_stop.

(* ... and a stop() issued after run() was entered is seen by every later poll of the flag *)
Theorem C10_stop_flag_after_stop : forall (V : Type) (v0 : V) l1 s1 tr1 l2 s2 tr2,
  exec (init v0) l1 = Some (s1, tr1) -> In (Int TBeginRun) l1 ->
  exec s1 (Ext Stop :: l2) = Some (s2, tr2) ->
  stop_flag s2 = true /\ (forall o, In (Int TPollStop, o) tr2 -> o = OBool true).
Proof. exact (@stop_after_begin). Qed.
Print Assumptions C10_stop_flag_after_stop.

(* release_rpc_object has nothing left to do only after a join(), hence after the thread exited *)
Theorem C10_release : forall (V : Type) (v0 : V) ls s tr,
  exec (init v0) ls = Some (s, tr) ->
  step s (Ext Release) <> None -> In (Ext Join) ls /\ In (Int TExit) ls.
Proof. exact (@release_spec). Qed.
Print Assumptions C10_release.

(* ---- the constructor path ---------------------------------------------------------------------- *)

(* the reachable combinations of (constructor phase, thread position, state, run() count) are exactly
   the 14 listed in [all_shapes]: every reachable state has one of them, and each is reached *)
Theorem C10_reachable_shapes : forall (V : Type) (v0 : V) ls s tr,
  exec (init v0) ls = Some (s, tr) -> In (shape_of s) all_shapes.
Proof. exact (@reachable_shapes). Qed.
Print Assumptions C10_reachable_shapes.

Theorem C10_shapes_all_reached : forall (V : Type) (v0 : V) sh, In sh all_shapes ->
  exists s tr, exec (init v0) (witness sh) = Some (s, tr) /\ shape_of s = sh.
Proof. exact (@shapes_all_reachable). Qed.
Print Assumptions C10_shapes_all_reached.

(* make_task completes at most once; it returns a proxy iff the task constructor succeeded and raises
   QMI_TaskInitException iff the constructor raised (whatever it raised); in the failure case the thread
   has exited (it is joined), run() was not invoked and NO label at all is enabled afterwards; in the
   success case the task is READY_TO_RUN with its thread alive *)
Theorem C10_ctor : forall (V : Type) (v0 : V) ls s tr,
  exec (init v0) ls = Some (s, tr) ->
  forall s' o, step s (Ext Ctor) = Some (s', o) ->
    ~ In (Ext Ctor, ONone) tr /\ ~ In (Ext Ctor, OInitError) tr /\
    (o = ONone \/ o = OInitError) /\
    (o = ONone <-> In (Int TInitDone) ls) /\
    (o = OInitError <-> In (Int TInitFail) ls) /\
    (o = OInitError -> In (Int TExit) ls /\ run_count s' = 0 /\ forall l, step s' l = None) /\
    (o = ONone -> state s' = READY_TO_RUN /\ run_count s' = 0 /\ thread_done s' = false).
Proof. exact (@ctor_spec). Qed.
Print Assumptions C10_ctor.

(* after make_task raised, in every later reachable state: nothing is enabled (there is no later state),
   the thread is gone, run() was never invoked *)
Theorem C10_init_failure_nothing_left : forall (V : Type) (v0 : V) ls s tr,
  exec (init v0) ls = Some (s, tr) -> In (Ext Ctor, OInitError) tr ->
  (forall l, step s l = None) /\ run_count s = 0 /\ thread_done s = true /\
  In (Int TInitFail) ls /\ In (Int TExit) ls /\ ~ In (Int TInitDone) ls /\ ~ In (Int TBeginRun) ls.
Proof. exact (@init_failure_terminal). Qed.
Print Assumptions C10_init_failure_nothing_left.

(* once the task constructor has raised, run() is never invoked, no proxy is ever returned and no
   operation other than the constructor's completion is enabled *)
Theorem C10_init_failure_never_runs : forall (V : Type) (v0 : V) ls s tr,
  exec (init v0) ls = Some (s, tr) -> In (Int TInitFail) ls ->
  run_count s = 0 /\ state s = EXCEPTION_WHILE_INSTANTIATING_TASK /\
  (forall e, e <> Ctor -> step s (Ext e) = None) /\ ~ In (Ext Ctor, ONone) tr.
Proof. exact (@init_failure_never_runs). Qed.
Print Assumptions C10_init_failure_never_runs.

(* ---- release_rpc_object on a task that was not joined: stop(); join() ---------------------------- *)

(* from EVERY reachable state in which a runner exists: stop() is accepted; a task that honours the stop
   request (sees the flag at its next poll and ends through the stop exception; or was never started)
   reaches thread exit in at most 4 steps; then join() is enabled, reports the task-run error iff run()
   had already failed, and release has nothing left to do *)
Theorem C10_release_unjoined : forall (V : Type) (v0 : V) ls s tr,
  exec (init v0) ls = Some (s, tr) -> In (Ext Ctor, ONone) tr ->
  exists s1 s2 tr2 s3 o,
    step s (Ext Stop) = Some (s1, ONone) /\
    exec s1 (map Int (drain s1)) = Some (s2, tr2) /\
    (forall x, In (Int TPollStop, x) tr2 -> x = OBool true) /\
    step s2 (Ext Join) = Some (s3, o) /\
    (o = OTaskRunError <-> In (Int TFinishExc) ls) /\
    step s3 (Ext Release) = Some (s3, ONone).
Proof. exact (@release_unjoined). Qed.
Print Assumptions C10_release_unjoined.

(* no dead-lock after a stop(): while the thread has not exited, the task thread can take a step ... *)
Theorem C10_progress_after_stop : forall (V : Type) (v0 : V) ls s tr,
  exec (init v0) ls = Some (s, tr) ->
  In (Ext Stop) ls -> thread_done s = false -> exists i, step s (Int i) <> None.
Proof. exact (@progress_after_stop). Qed.
Print Assumptions C10_progress_after_stop.

(* ... and every task-thread step other than the body's own update / poll steps strictly decreases a
   rank bounded by 5, which no external operation changes: the thread exits after at most 5 such steps,
   so join() (hence release) can only be delayed by the body itself *)
Theorem C10_rank : forall (V : Type) (s : st V) l s' o,
  step s l = Some (s', o) ->
  match l with
  | Ext _ => pc s' = pc s
  | Int i => ((i = TUpdate \/ i = TPollStop) /\ pc s' = pc s) \/ (rank (pc s') < rank (pc s))%nat
  end.
Proof. exact (@rank_step). Qed.
Print Assumptions C10_rank.

(* ---- QMI_LoopTask.run: the three missed-period policies (ModelLoop.v) ---------------------------- *)

(* IMMEDIATE re-bases: next_time = now + period *)
Theorem C10_loop_immediate : forall p now next, late IMMEDIATE p now next = ((now + p)%Z, false).
Proof. exact late_immediate. Qed.
Print Assumptions C10_loop_immediate.

(* SKIP: with k = int((period - time_to_sleep) / period) = 1 + floor((now - next_time) / period), the new
   next_time = next_time + k*period is the FIRST point of the old grid strictly after now (no off-by-one:
   it is after now, one period earlier is not, and no smaller multiple is after now) *)
Theorem C10_loop_skip : forall p now next, (0 < p)%Z -> (next <= now)%Z ->
  let k := ((p - (next - now)) / p)%Z in
  late SKIP p now next = ((next + p * k)%Z, false) /\
  k = (1 + (now - next) / p)%Z /\ (1 <= k)%Z /\
  (now < next + p * k)%Z /\ (next + p * k - p <= now)%Z /\
  (forall j, (now < next + p * j)%Z -> (k <= j)%Z).
Proof. exact late_skip. Qed.
Print Assumptions C10_loop_skip.

(* TERMINATE requests stop and leaves next_time alone; the first missed period is the last iteration,
   and loop_finalize then runs (the final record) at the time the late iteration ended *)
Theorem C10_loop_terminate : forall p ts d rest now next,
  late TERMINATE p (now + d) next = (next, true) /\
  (ext_stopped ts now = false -> (next - (now + d) <= 0)%Z ->
   loop TERMINATE p ts (d :: rest) now next false =
     ([(now, next)], mkfinal (now + d) next EndStopSeen)).
Proof. exact loop_terminate. Qed.
Print Assumptions C10_loop_terminate.

(* an iteration that is on time (and not stopped) is followed by one that starts exactly at next_time,
   with next_time advanced by one period: no drift *)
Theorem C10_loop_on_time : forall pol p ts d rest now next,
  ext_stopped ts now = false -> (0 < next - (now + d))%Z -> ext_stopped ts next = false ->
  loop pol p ts (d :: rest) now next false =
    let '(its, fin) := loop pol p ts rest next (next + p) false in ((now, next) :: its, fin).
Proof. exact on_time_no_drift. Qed.
Print Assumptions C10_loop_on_time.

(* a late iteration: the policy's next_time is what the following iteration sees, at once *)
Theorem C10_loop_late : forall pol p ts d rest now next,
  ext_stopped ts now = false -> (next - (now + d) <= 0)%Z ->
  loop pol p ts (d :: rest) now next false =
    let '(next', stop) := late pol p (now + d) next in
    let '(its, fin) := loop pol p ts rest (now + d) next' stop in ((now, next) :: its, fin).
Proof. exact late_step. Qed.
Print Assumptions C10_loop_late.

(* for every policy, script, stop time: at the entry of every iteration next_time is strictly in the future *)
Theorem C10_loop_next_in_future : forall pol p t0 ts durs, (0 < p)%Z ->
  Forall (fun e => (fst e < snd e)%Z) (fst (loop_run pol p t0 ts durs)).
Proof. exact next_in_future. Qed.
Print Assumptions C10_loop_next_in_future.

(* SKIP and TERMINATE never leave the grid t0 + n*period (IMMEDIATE does: it re-bases) *)
Theorem C10_loop_grid : forall pol p t0 ts durs, (0 < p)%Z -> pol <> IMMEDIATE ->
  Forall (fun e => ((snd e - t0) mod p = 0)%Z) (fst (loop_run pol p t0 ts durs)) /\
  ((f_next (snd (loop_run pol p t0 ts durs)) - t0) mod p = 0)%Z.
Proof. exact run_on_grid. Qed.
Print Assumptions C10_loop_grid.

(* Non-vacuity: concrete interleavings are accepted, with the expected results. *)
Example C10_example_run_and_fail :
  option_map snd (exec (init 0)
    [Int TInitDone; Ext Ctor; Ext (SetSettings 7); Ext (SetSettings 8); Ext Start; Ext IsRunning; Int TBeginRun;
     Int TUpdate; Ext Start; Ext Stop; Int TPollStop; Int TUpdate; Int TFinishExc; Ext IsRunning;
     Int TExit; Ext Join; Ext Release])
  = Some [(Int TInitDone, ONone); (Ext Ctor, ONone); (Ext (SetSettings 7), ONone); (Ext (SetSettings 8), ONone);
          (Ext Start, ONone); (Ext IsRunning, OBool true); (Int TBeginRun, ONone);
          (Int TUpdate, OUpd true 8); (Ext Start, OUsageError); (Ext Stop, ONone);
          (Int TPollStop, OBool true); (Int TUpdate, OUpd false 8); (Int TFinishExc, ONone);
          (Ext IsRunning, OBool false); (Int TExit, ONone); (Ext Join, OTaskRunError);
          (Ext Release, ONone)].
Proof. vm_compute. reflexivity. Qed.

Example C10_example_stop_first :
  option_map snd (exec (init 0)
    [Int TInitDone; Ext Ctor; Ext Stop; Ext Start; Int TExit; Ext Join; Ext Start; Ext IsRunning])
  = Some [(Int TInitDone, ONone); (Ext Ctor, ONone); (Ext Stop, ONone); (Ext Start, OUsageError); (Int TExit, ONone);
          (Ext Join, ONone); (Ext Start, OUsageError); (Ext IsRunning, OBool false)].
Proof. vm_compute. reflexivity. Qed.

(* join() is a guarded step: not enabled while the thread is alive; no external op during init *)
Example C10_example_join_blocks :
  exec (init 0) [Int TInitDone; Ext Ctor; Ext Start; Int TBeginRun; Ext Join] = None /\
  exec (init 0) [Ext Start] = None /\ exec (init 0) [Int TInitDone; Ext Start] = None.
Proof. vm_compute. repeat split; reflexivity. Qed.

(* the constructor raising: make_task raises, nothing is left *)
Example C10_example_init_failure :
  option_map snd (exec (init 0) [Int TInitFail; Int TExit; Ext Ctor])
  = Some [(Int TInitFail, ONone); (Int TExit, ONone); (Ext Ctor, OInitError)] /\
  exec (init 0) [Int TInitFail; Ext Ctor] = None /\
  exec (init 0) [Int TInitFail; Int TExit; Ext Ctor; Ext Start] = None.
Proof. vm_compute. repeat split; reflexivity. Qed.

(* loop task, period 8, iterations of 2, 30, 3, 20, 1 ticks from t0 = 100 *)
Example C10_example_loop_skip :
  loop_run SKIP 8 100 None [2; 30; 3; 20; 1]%Z
  = ([(100, 108); (108, 116); (138, 140); (141, 148); (161, 164); (164, 172)]%Z,
     mkfinal 164 172 EndScript).
Proof. vm_compute. reflexivity. Qed.
Example C10_example_loop_immediate :
  loop_run IMMEDIATE 8 100 (Some 143%Z) [2; 30; 3; 20; 1]%Z
  = ([(100, 108); (108, 116); (138, 146)]%Z, mkfinal 143 146 EndSleepStopped).
Proof. vm_compute. reflexivity. Qed.
Example C10_example_loop_terminate :
  loop_run TERMINATE 8 100 None [2; 30; 3; 20; 1]%Z
  = ([(100, 108); (108, 116)]%Z, mkfinal 138 116 EndStopSeen).
Proof. vm_compute. reflexivity. Qed.
