(* C10 — proofs about the QMI_LoopTask.run model (ModelLoop.v). *)
Require Import QV.C10.ModelLoop.
Local Open Scope Z_scope.

Lemma late_immediate p now next : late IMMEDIATE p now next = (now + p, false).
Proof. reflexivity. Qed.

Lemma late_terminate p now next : late TERMINATE p now next = (next, true).
Proof. reflexivity. Qed.

(* SKIP: the new next_time is the first point of the grid next + k*p that lies strictly after now *)
Lemma late_skip p now next :
  0 < p -> next <= now ->
  let k := (p - (next - now)) / p in
  late SKIP p now next = (next + p * k, false) /\
  k = 1 + (now - next) / p /\ 1 <= k /\
  now < next + p * k /\ next + p * k - p <= now /\
  (forall j, now < next + p * j -> k <= j).
Proof.
  intros Hp Hl k.
  assert (Hk : k = 1 + (now - next) / p).
  { unfold k. replace (p - (next - now)) with (1 * p + (now - next)) by ring.
    rewrite Z.div_add_l by lia. reflexivity. }
  pose proof (Z.div_mod (now - next) p ltac:(lia)) as Hdm.
  pose proof (Z.mod_pos_bound (now - next) p Hp) as Hmb.
  assert (Hq : 0 <= (now - next) / p) by (apply Z.div_pos; lia).
  split; [reflexivity|]. split; [exact Hk|]. split; [lia|].
  split; [nia|]. split; [nia|].
  intros j Hj. rewrite Hk.
  assert (j > (now - next) / p); [|lia].
  destruct (Z_lt_le_dec ((now - next) / p) j) as [|Hc]; [lia|]. exfalso. nia.
Qed.

Lemma loop_flag pol p ts durs now next :
  loop pol p ts durs now next true = ([], mkfinal now next EndStopSeen).
Proof. destruct durs; reflexivity. Qed.

(* TERMINATE: the first missed period is the last iteration; next_time is left alone *)
Lemma terminate_last p ts d rest now next :
  ext_stopped ts now = false -> next - (now + d) <= 0 ->
  loop TERMINATE p ts (d :: rest) now next false =
    ([(now, next)], mkfinal (now + d) next EndStopSeen).
Proof.
  intros He Hl. cbn [loop orb]. rewrite He.
  destruct (0 <? next - (now + d)) eqn:E; [apply Z.ltb_lt in E; lia|].
  cbn [late]. rewrite loop_flag. reflexivity.
Qed.

(* on time and not stopped: the task wakes exactly at next_time, which advances by one period *)
Lemma on_time_no_drift pol p ts d rest now next :
  ext_stopped ts now = false -> 0 < next - (now + d) -> ext_stopped ts next = false ->
  loop pol p ts (d :: rest) now next false =
    let '(its, fin) := loop pol p ts rest next (next + p) false in ((now, next) :: its, fin).
Proof.
  intros He Hl Hn. cbn [loop orb]. rewrite He.
  destruct (0 <? next - (now + d)) eqn:E; [|apply Z.ltb_ge in E; lia].
  assert (H1 : ext_stopped ts (now + d) = false).
  { destruct ts as [x|]; [|reflexivity]. cbn in *. apply Z.ltb_ge in Hn. apply Z.ltb_ge. lia. }
  rewrite H1, Hn. reflexivity.
Qed.

(* a late iteration (not the last of the script, no stop so far): the policy's next_time is what the
   next iteration sees, and that iteration starts at once *)
Lemma late_step pol p ts d rest now next :
  ext_stopped ts now = false -> next - (now + d) <= 0 ->
  loop pol p ts (d :: rest) now next false =
    let '(next', stop) := late pol p (now + d) next in
    let '(its, fin) := loop pol p ts rest (now + d) next' stop in ((now, next) :: its, fin).
Proof.
  intros He Hl. cbn [loop orb]. rewrite He.
  destruct (0 <? next - (now + d)) eqn:E; [apply Z.ltb_lt in E; lia|]. reflexivity.
Qed.

(* at the entry of every iteration next_time lies strictly in the future *)
Lemma entries_future pol p ts durs : 0 < p ->
  forall now next flag, (flag = false -> now < next) ->
  Forall (fun e => fst e < snd e) (fst (loop pol p ts durs now next flag)).
Proof.
  intros Hp. induction durs as [|d rest IH]; intros now next flag Hf; cbn [loop].
  - destruct (flag || ext_stopped ts now) eqn:E; cbn; [constructor|].
    apply orb_false_iff in E as [E _]. constructor; [cbn; auto|constructor].
  - destruct (flag || ext_stopped ts now) eqn:E; cbn; [constructor|].
    apply orb_false_iff in E as [E _]. specialize (Hf E).
    destruct (0 <? next - (now + d)) eqn:Et.
    + destruct (ext_stopped ts (now + d)); [cbn; constructor; [cbn; auto|constructor]|].
      destruct (ext_stopped ts next); [cbn; constructor; [cbn; auto|constructor]|].
      specialize (IH next (next + p) false ltac:(intros _; lia)).
      destruct (loop pol p ts rest next (next + p) false) as [its fin]. cbn in *.
      constructor; [cbn; auto|exact IH].
    + apply Z.ltb_ge in Et.
      destruct (late pol p (now + d) next) as [next' stop] eqn:El.
      assert (Hn : stop = false -> now + d < next').
      { destruct pol; cbn in El; inversion El; subst.
        - intros _; lia.
        - intros _. assert (Hle : next <= now + d) by lia.
          destruct (late_skip p (now + d) next Hp Hle) as [_ [_ [_ [H _]]]]. exact H.
        - discriminate. }
      specialize (IH (now + d) next' stop Hn).
      destruct (loop pol p ts rest (now + d) next' stop) as [its fin]. cbn in *.
      constructor; [cbn; auto|exact IH].
Qed.

(* SKIP and TERMINATE keep next_time on the grid t0 + n*p *)
Lemma on_grid pol p t0 ts durs : 0 < p -> pol <> IMMEDIATE ->
  forall now next flag, (next - t0) mod p = 0 ->
  Forall (fun e => (snd e - t0) mod p = 0) (fst (loop pol p ts durs now next flag)) /\
  (f_next (snd (loop pol p ts durs now next flag)) - t0) mod p = 0.
Proof.
  intros Hp Hpol.
  assert (One : forall now next, (next - t0) mod p = 0 ->
                Forall (fun e : Z * Z => (snd e - t0) mod p = 0) [(now, next)]).
  { intros now next Hg. constructor; [exact Hg|constructor]. }
  induction durs as [|d rest IH]; intros now next flag Hg; cbn [loop].
  - destruct (flag || ext_stopped ts now); cbn [fst snd f_next]; (split; [|exact Hg]);
      [constructor | apply One; exact Hg].
  - destruct (flag || ext_stopped ts now); cbn [fst snd f_next]; [split; [constructor|exact Hg]|].
    destruct (0 <? next - (now + d)).
    + destruct (ext_stopped ts (now + d)); [cbn [fst snd f_next]; split; [apply One; exact Hg|exact Hg]|].
      destruct (ext_stopped ts next); [cbn [fst snd f_next]; split; [apply One; exact Hg|exact Hg]|].
      assert (Hg' : (next + p - t0) mod p = 0).
      { replace (next + p - t0) with (next - t0 + 1 * p) by ring. rewrite Z.mod_add by lia. exact Hg. }
      destruct (IH next (next + p) false Hg') as [A B].
      destruct (loop pol p ts rest next (next + p) false) as [its fin]. cbn [fst snd] in *.
      split; [constructor; [exact Hg|exact A]|exact B].
    + destruct (late pol p (now + d) next) as [next' stop] eqn:El.
      assert (Hg' : (next' - t0) mod p = 0).
      { destruct pol; cbn in El; inversion El; subst; [congruence| |exact Hg].
        replace (next + p * ((p - (next - (now + d))) / p) - t0)
          with (next - t0 + ((p - (next - (now + d))) / p) * p) by ring.
        rewrite Z.mod_add by lia. exact Hg. }
      destruct (IH (now + d) next' stop Hg') as [A B].
      destruct (loop pol p ts rest (now + d) next' stop) as [its fin]. cbn [fst snd] in *.
      split; [constructor; [exact Hg|exact A]|exact B].
Qed.

(* never more iterations than scripted durations (+ the one in which the script ends the loop) *)
Lemma entries_bounded pol p ts durs :
  forall now next flag, (length (fst (loop pol p ts durs now next flag)) <= S (length durs))%nat.
Proof.
  induction durs as [|d rest IH]; intros now next flag; cbn [loop].
  - destruct (flag || ext_stopped ts now); cbn; lia.
  - destruct (flag || ext_stopped ts now); cbn; [lia|].
    destruct (0 <? next - (now + d)).
    + destruct (ext_stopped ts (now + d)); [cbn; lia|].
      destruct (ext_stopped ts next); [cbn; lia|].
      specialize (IH next (next + p) false).
      destruct (loop pol p ts rest next (next + p) false) as [its fin]. cbn in *. lia.
    + destruct (late pol p (now + d) next) as [next' stop].
      specialize (IH (now + d) next' stop).
      destruct (loop pol p ts rest (now + d) next' stop) as [its fin]. cbn in *. lia.
Qed.

Lemma loop_terminate p ts d rest now next :
  late TERMINATE p (now + d) next = (next, true) /\
  (ext_stopped ts now = false -> next - (now + d) <= 0 ->
   loop TERMINATE p ts (d :: rest) now next false =
     ([(now, next)], mkfinal (now + d) next EndStopSeen)).
Proof. split; [reflexivity | apply terminate_last]. Qed.

Lemma next_in_future pol p t0 ts durs : 0 < p ->
  Forall (fun e => fst e < snd e) (fst (loop_run pol p t0 ts durs)).
Proof. intros Hp. apply entries_future; [assumption | intros _; lia]. Qed.

Lemma run_on_grid pol p t0 ts durs : 0 < p -> pol <> IMMEDIATE ->
  Forall (fun e => (snd e - t0) mod p = 0) (fst (loop_run pol p t0 ts durs)) /\
  (f_next (snd (loop_run pol p t0 ts durs)) - t0) mod p = 0.
Proof.
  intros Hp Hpol. apply on_grid; try assumption.
  replace (t0 + p - t0) with (0 + 1 * p) by ring. rewrite Z.mod_add by lia. reflexivity.
Qed.
