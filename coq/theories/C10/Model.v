(* C10 — task lifecycle (qmi/core/task.py): executable model, no proofs here.

   Transcribes, as one labelled transition system over an ABSTRACT settings-value type V:
     _TaskThread.run / start_task / stop_task / get_state               (the thread state machine)
     QMI_TaskRunner.start / stop / join / is_running / set_settings / get_settings /
       get_pending_settings / __enter__ (= start) / __exit__ (= stop; join) /
       release_rpc_object (= if not joined: stop; join)
     QMI_Task.update_settings / stop_requested / sleep (as a read of the stop flag)

   EXTERNAL labels are the runner's RPC methods.  They are executed one at a time by the runner's
   RPC worker thread (the same thread that executes the QMI_TaskRunner constructor, which blocks until
   the task is initialised: no external label is enabled while the task thread is still in its
   initialisation phase).  INTERNAL labels are the steps of the task thread.  [join] is a guarded
   (blocking) step: enabled iff the task thread has exited.

   Each label is one atomic step; the harness places it at the step's linearisation point in the
   real run (the acquisition of _state_cond in which the state is read / written, the Event.set of
   the stop flag, the single deque operation on the settings slot).

   The QMI_TaskRunner constructor is part of the system: field [ctor] says whether it is still running
   (C_running: it blocks in wait_until_initialized, then — if the task constructor raised — in
   thread.join()), has returned a runner (C_ok) or has raised QMI_TaskInitException (C_failed).  Its
   completion is the external label [Ctor].  Every other external label needs ctor = C_ok (there is no
   proxy before, and none at all after a failure).

   Not modelled here: what run() computes, wait_for_condition (C11), get_status.  QMI_LoopTask.run's
   period arithmetic is modelled separately in ModelLoop.v. *)
From Coq Require Export List Arith Bool Lia.
Export ListNotations.

(* _TaskThread.State (without EXCEPTION_WHILE_INSTANTIATING_TASK) *)
Inductive tstate :=
| INITIAL | EXCEPTION_WHILE_INSTANTIATING_TASK | READY_TO_RUN | RUNNING | EXCEPTION_WHILE_RUNNING_TASK
| TASK_COMPLETED_NORMALLY | TASK_STOPPED_BEFORE_START.

(* the QMI_TaskRunner constructor *)
Inductive cphase := C_running | C_ok | C_failed.

(* where the task thread is in _TaskThread.run *)
Inductive tpc :=
| TP_init      (* constructing the task, state not yet published *)
| TP_wait      (* in "while state == READY_TO_RUN: wait()" (or about to enter / leave it) *)
| TP_run       (* inside task.run() *)
| TP_fin       (* run() has ended and the final state is written; thread about to exit *)
| TP_done.     (* thread exited: Thread.join() returns *)

Inductive ext (V : Type) :=
| Ctor           (* the runner constructor completes: make_task returns a proxy or raises *)
| Start | Stop | Join | IsRunning | SetSettings (v : V) | GetSettings | GetPending
| Release.       (* release_rpc_object once the task has been joined: nothing to do *)
Arguments Ctor {V}. Arguments Start {V}. Arguments Stop {V}. Arguments Join {V}. Arguments IsRunning {V}.
Arguments SetSettings {V} v. Arguments GetSettings {V}. Arguments GetPending {V}.
Arguments Release {V}.

Inductive int :=
| TInitDone         (* task constructed: "if state == INITIAL: state = READY_TO_RUN" *)
| TInitFail         (* task constructor raised (any BaseException): state = EXCEPTION_WHILE_INSTANTIATING_TASK *)
| TBeginRun         (* woke up, saw RUNNING, invokes task.run() *)
| TUpdate           (* QMI_Task.update_settings() *)
| TPollStop         (* stop_requested() / the flag test of sleep() *)
| TFinishOk         (* run() returned: state = TASK_COMPLETED_NORMALLY *)
| TFinishExc        (* run() raised something else: state = EXCEPTION_WHILE_RUNNING_TASK *)
| TFinishStopExc    (* run() raised QMI_TaskStopException: state = TASK_COMPLETED_NORMALLY *)
| TExit.            (* thread function returns *)

Inductive label (V : Type) := Ext (e : ext V) | Int (i : int).
Arguments Ext {V} e. Arguments Int {V} i.

Inductive out (V : Type) :=
| ONone                       (* returned None *)
| OUsageError                 (* raised QMI_UsageException *)
| OTaskRunError               (* raised QMI_TaskRunException *)
| OInitError                  (* make_task raised QMI_TaskInitException *)
| OBool (b : bool)
| OVal (v : V)                (* get_settings *)
| OOpt (o : option V)         (* get_pending_settings *)
| OUpd (b : bool) (v : V).    (* update_settings returned b; the task now holds v *)
Arguments ONone {V}. Arguments OUsageError {V}. Arguments OTaskRunError {V}. Arguments OInitError {V}.
Arguments OBool {V} b. Arguments OVal {V} v. Arguments OOpt {V} o. Arguments OUpd {V} b v.

Section Model.
Context {V : Type}.

Record st := mk {
  state : tstate;          (* _TaskThread._state *)
  pc : tpc;
  run_count : nat;         (* number of invocations of task.run() *)
  stop_flag : bool;        (* QMI_Task._stop_requested *)
  slot : option V;         (* QMI_Task._settings_fifo : deque(maxlen=1) *)
  cur : V;                 (* QMI_Task.settings *)
  joined : bool;           (* QMI_TaskRunner._joined *)
  ctor : cphase            (* the runner's constructor *)
}.

(* the state in which the QMI_TaskRunner constructor has just started the thread *)
Definition init (v0 : V) : st := mk INITIAL TP_init 0 false None v0 false C_running.

Definition thread_done (s : st) : bool := match pc s with TP_done => true | _ => false end.

Definition set_state (s : st) (x : tstate) : st :=
  mk x (pc s) (run_count s) (stop_flag s) (slot s) (cur s) (joined s) (ctor s).
Definition set_pc (s : st) (p : tpc) : st :=
  mk (state s) p (run_count s) (stop_flag s) (slot s) (cur s) (joined s) (ctor s).

Definition is_running_state (x : tstate) : bool := match x with RUNNING => true | _ => false end.

Definition set_ctor (s : st) (c : cphase) : st :=
  mk (state s) (pc s) (run_count s) (stop_flag s) (slot s) (cur s) (joined s) c.

Definition step_ext (s : st) (e : ext V) : option (st * out V) :=
  match e with
  | Ctor =>                    (* QMI_TaskRunner.__init__ after thread.start() *)
      match ctor s with
      | C_running =>
          match state s with
          | INITIAL => None                          (* wait_until_initialized() blocks *)
          | EXCEPTION_WHILE_INSTANTIATING_TASK =>    (* thread.join(); raise QMI_TaskInitException *)
              if thread_done s then Some (set_ctor s C_failed, OInitError) else None
          | READY_TO_RUN => Some (set_ctor s C_ok, ONone)
          | _ => None                                (* "assert state == READY_TO_RUN" *)
          end
      | _ => None
      end
  | _ =>
    match ctor s with
    | C_running | C_failed => None   (* no runner yet / no runner at all: nothing can be called *)
    | C_ok =>
      match e with
      | Ctor => None
      | Start =>                 (* start(): get_state; refuse unless READY_TO_RUN; start_task *)
          match state s with
          | READY_TO_RUN => Some (set_state s RUNNING, ONone)
          | _ => Some (s, OUsageError)
          end
      | Stop =>                  (* stop_task *)
          match state s with
          | EXCEPTION_WHILE_INSTANTIATING_TASK => Some (s, ONone)
          | INITIAL | READY_TO_RUN => Some (set_state s TASK_STOPPED_BEFORE_START, ONone)
          | _ => Some (mk (state s) (pc s) (run_count s) true (slot s) (cur s) (joined s) (ctor s), ONone)
          end
      | Join =>                  (* thread.join(); get_state; _joined = True; re-raise *)
          if thread_done s then
            let s' := mk (state s) (pc s) (run_count s) (stop_flag s) (slot s) (cur s) true (ctor s) in
            match state s with
            | EXCEPTION_WHILE_RUNNING_TASK => Some (s', OTaskRunError)
            | _ => Some (s', ONone)
            end
          else None
      | IsRunning => Some (s, OBool (is_running_state (state s)))
      | SetSettings v =>         (* deque(maxlen=1).append *)
          Some (mk (state s) (pc s) (run_count s) (stop_flag s) (Some v) (cur s) (joined s) (ctor s), ONone)
      | GetSettings => Some (s, OVal (cur s))
      | GetPending => Some (s, OOpt (slot s))
      | Release => if joined s then Some (s, ONone) else None
      end
    end
  end.

Definition step_int (s : st) (i : int) : option (st * out V) :=
  match i, pc s with
  | TInitDone, TP_init =>
      Some (mk (match state s with INITIAL => READY_TO_RUN | x => x end)
               TP_wait (run_count s) (stop_flag s) (slot s) (cur s) (joined s) (ctor s), ONone)
  | TInitFail, TP_init =>      (* "except BaseException": record, notify, return *)
      Some (mk EXCEPTION_WHILE_INSTANTIATING_TASK TP_fin (run_count s) (stop_flag s) (slot s) (cur s)
               (joined s) (ctor s), ONone)
  | TBeginRun, TP_wait =>
      match state s with
      | RUNNING => Some (mk RUNNING TP_run (S (run_count s)) (stop_flag s) (slot s) (cur s) (joined s) (ctor s), ONone)
      | _ => None
      end
  | TExit, TP_wait =>          (* "if state != RUNNING: return" after leaving the wait loop *)
      match state s with
      | READY_TO_RUN | RUNNING => None
      | _ => Some (set_pc s TP_done, ONone)
      end
  | TExit, TP_fin => Some (set_pc s TP_done, ONone)
  | TUpdate, TP_run =>
      match slot s with
      | Some v => Some (mk (state s) (pc s) (run_count s) (stop_flag s) None v (joined s) (ctor s), OUpd true v)
      | None => Some (s, OUpd false (cur s))
      end
  | TPollStop, TP_run => Some (s, OBool (stop_flag s))
  | TFinishOk, TP_run | TFinishStopExc, TP_run =>
      Some (mk TASK_COMPLETED_NORMALLY TP_fin (run_count s) (stop_flag s) (slot s) (cur s) (joined s) (ctor s), ONone)
  | TFinishExc, TP_run =>
      Some (mk EXCEPTION_WHILE_RUNNING_TASK TP_fin (run_count s) (stop_flag s) (slot s) (cur s) (joined s) (ctor s), ONone)
  | _, _ => None
  end.

Definition step (s : st) (l : label V) : option (st * out V) :=
  match l with Ext e => step_ext s e | Int i => step_int s i end.

(* run an interleaving; the result is the final state and the event log (label, result) *)
Fixpoint exec (s : st) (ls : list (label V)) : option (st * list (label V * out V)) :=
  match ls with
  | [] => Some (s, [])
  | l :: r =>
      match step s l with
      | None => None
      | Some (s1, o) =>
          match exec s1 r with
          | None => None
          | Some (s2, tr) => Some (s2, (l, o) :: tr)
          end
      end
  end.

(* ---- history functions used by the property statements ------------------------------------ *)

(* values posted since the previous update_settings(), oldest first *)
Definition since_step (acc : list V) (e : label V * out V) : list V :=
  match fst e with
  | Ext (SetSettings v) => acc ++ [v]
  | Int TUpdate => []
  | _ => acc
  end.
Definition posts_since (tr : list (label V * out V)) : list V := fold_left since_step tr [].

(* all values posted in a log, oldest first *)
Fixpoint posted (tr : list (label V * out V)) : list V :=
  match tr with
  | [] => []
  | (Ext (SetSettings v), _) :: r => v :: posted r
  | _ :: r => posted r
  end.

Definition is_update (e : label V * out V) : bool :=
  match fst e with Int TUpdate => true | _ => false end.

Definition last_opt (l : list V) : option V := fold_left (fun _ x => Some x) l None.

End Model.

Arguments st V : clear implicits.
