(* C10 — proofs.  One inductive invariant [Inv tr s] relating the model state to boolean summaries of
   the event log, preserved by every enabled step (external or internal), hence valid after EVERY
   interleaving accepted by [exec]; the property statements are read off the invariant. *)
Require Import QV.C10.Model.

Set Implicit Arguments.

Section Proofs.
Context {V : Type}.
Notation lab := (label V).
Notation ev := (label V * out V)%type.

(* ---- event classifiers ---------------------------------------------------------------------- *)
Definition is_succ_start (e : ev) : bool :=
  match e with (Ext Start, ONone) => true | _ => false end.
Definition is_ctor_ok (e : ev) : bool :=
  match e with (Ext Ctor, ONone) => true | _ => false end.
Definition is_ctor_fail (e : ev) : bool :=
  match e with (Ext Ctor, OInitError) => true | _ => false end.
Definition l_start (l : lab) : bool := match l with Ext Start => true | _ => false end.
Definition l_stop (l : lab) : bool := match l with Ext Stop => true | _ => false end.
Definition l_join (l : lab) : bool := match l with Ext Join => true | _ => false end.
Definition l_begin (l : lab) : bool := match l with Int TBeginRun => true | _ => false end.
Definition l_exit (l : lab) : bool := match l with Int TExit => true | _ => false end.
Definition l_initfail (l : lab) : bool := match l with Int TInitFail => true | _ => false end.
Definition l_initdone (l : lab) : bool := match l with Int TInitDone => true | _ => false end.
Definition l_finexc (l : lab) : bool := match l with Int TFinishExc => true | _ => false end.
Definition l_finnorm (l : lab) : bool :=
  match l with Int TFinishOk | Int TFinishStopExc => true | _ => false end.
Definition l_fin (l : lab) : bool :=
  match l with Int TFinishOk | Int TFinishStopExc | Int TFinishExc => true | _ => false end.
Definition on_lab (p : lab -> bool) (e : ev) : bool := p (fst e).

Definition cnt (p : ev -> bool) (tr : list ev) : nat := length (filter p tr).

Lemma cnt_app p a b : cnt p (a ++ b) = cnt p a + cnt p b.
Proof. unfold cnt. rewrite filter_app, app_length. reflexivity. Qed.

(* ---- shape of reachable states -------------------------------------------------------------- *)
Definition st_started (x : tstate) : bool :=
  match x with RUNNING | EXCEPTION_WHILE_RUNNING_TASK | TASK_COMPLETED_NORMALLY => true | _ => false end.
Definition st_exc (x : tstate) : bool := match x with EXCEPTION_WHILE_RUNNING_TASK => true | _ => false end.
Definition st_norm (x : tstate) : bool := match x with TASK_COMPLETED_NORMALLY => true | _ => false end.
Definition st_stopped (x : tstate) : bool := match x with TASK_STOPPED_BEFORE_START => true | _ => false end.
Definition st_ready (x : tstate) : bool := match x with READY_TO_RUN => true | _ => false end.
Definition st_excinit (x : tstate) : bool :=
  match x with EXCEPTION_WHILE_INSTANTIATING_TASK => true | _ => false end.
Definition st_preinit (x : tstate) : bool :=
  match x with INITIAL | EXCEPTION_WHILE_INSTANTIATING_TASK => true | _ => false end.
Definition c_ok (c : cphase) : bool := match c with C_ok => true | _ => false end.
Definition c_failed (c : cphase) : bool := match c with C_failed => true | _ => false end.

(* EXACTLY the reachable combinations of (constructor phase, thread position, state, run() count);
   [shapes_all_reachable] below shows that each of the 14 is reached *)
Definition shape := (cphase * tpc * tstate * nat)%type.
Definition shape_of (s : st V) : shape := (ctor s, pc s, state s, run_count s).
Definition shape_okb (sh : shape) : bool :=
  match sh with
  | (C_running, TP_init, INITIAL, 0)
  | (C_running, TP_wait, READY_TO_RUN, 0)
  | (C_running, TP_fin, EXCEPTION_WHILE_INSTANTIATING_TASK, 0)
  | (C_running, TP_done, EXCEPTION_WHILE_INSTANTIATING_TASK, 0)
  | (C_failed, TP_done, EXCEPTION_WHILE_INSTANTIATING_TASK, 0)
  | (C_ok, TP_wait, READY_TO_RUN, 0)
  | (C_ok, TP_wait, RUNNING, 0)
  | (C_ok, TP_wait, TASK_STOPPED_BEFORE_START, 0)
  | (C_ok, TP_run, RUNNING, 1)
  | (C_ok, TP_fin, TASK_COMPLETED_NORMALLY, 1)
  | (C_ok, TP_fin, EXCEPTION_WHILE_RUNNING_TASK, 1)
  | (C_ok, TP_done, TASK_STOPPED_BEFORE_START, 0)
  | (C_ok, TP_done, TASK_COMPLETED_NORMALLY, 1)
  | (C_ok, TP_done, EXCEPTION_WHILE_RUNNING_TASK, 1) => true
  | _ => false
  end.
Definition shape_ok (s : st V) : bool := shape_okb (shape_of s).

Record Inv (tr : list ev) (s : st V) : Prop := mkInv {
  i_shape : shape_ok s = true;
  i_started : existsb is_succ_start tr = st_started (state s);
  i_nstart : cnt is_succ_start tr = (if st_started (state s) then 1 else 0);
  i_begin : cnt (on_lab l_begin) tr = run_count s;
  i_exit : existsb (on_lab l_exit) tr = thread_done s;
  i_finexc : existsb (on_lab l_finexc) tr = st_exc (state s);
  i_finnorm : existsb (on_lab l_finnorm) tr = st_norm (state s);
  i_nfin : cnt (on_lab l_fin) tr = (if st_exc (state s) || st_norm (state s) then 1 else 0);
  i_flag : stop_flag s = true -> existsb (on_lab l_stop) tr = true;
  i_stopped : st_stopped (state s) = true -> existsb (on_lab l_stop) tr = true;
  i_slot : slot s = last_opt (posts_since tr);
  i_joined : joined s = existsb (on_lab l_join) tr;
  i_joined_done : joined s = true -> thread_done s = true;
  i_ctor_ok : existsb is_ctor_ok tr = c_ok (ctor s);
  i_ctor_fail : existsb is_ctor_fail tr = c_failed (ctor s);
  i_initfail : existsb (on_lab l_initfail) tr = st_excinit (state s);
  i_initdone : existsb (on_lab l_initdone) tr = negb (st_preinit (state s));
  i_stop_notready : existsb (on_lab l_stop) tr = true -> st_ready (state s) = false;
  i_stop_ctor : existsb (on_lab l_stop) tr = true -> c_ok (ctor s) = true
}.

Lemma inv_init v0 : Inv [] (init v0).
Proof. constructor; simpl; try reflexivity; try discriminate. Qed.

Lemma posts_since_snoc (tr : list ev) (e : ev) : posts_since (tr ++ [e]) = since_step (posts_since tr) e.
Proof. unfold posts_since. rewrite fold_left_app. reflexivity. Qed.

Lemma last_opt_snoc (l : list V) v : last_opt (l ++ [v]) = Some v.
Proof. unfold last_opt. rewrite fold_left_app. reflexivity. Qed.

Ltac snoc_norm :=
  repeat (rewrite existsb_app || rewrite cnt_app || rewrite posts_since_snoc);
  cbn [existsb cnt filter length on_lab fst snd is_succ_start is_ctor_ok is_ctor_fail l_start l_stop l_join
       l_begin l_exit l_initfail l_initdone l_finexc l_finnorm l_fin since_step orb].

Ltac red_step H :=
  cbn [step step_ext step_int pc state run_count stop_flag slot cur joined ctor thread_done
       set_state set_pc set_ctor is_running_state] in H.

Lemma inv_step tr s l s' o : Inv tr s -> step s l = Some (s', o) -> Inv (tr ++ [(l, o)]) s'.
Proof.
  intros [Hsh Hst Hns Hbg Hex Hfe Hfn Hnf Hfl Hsp Hsl Hjn Hjd Hco Hcf Hif Hid Hnr Hsc] Hstep.
  destruct s as [x p n f sl c j ct].
  unfold shape_ok, shape_of, shape_okb in Hsh;
    cbn [pc state run_count stop_flag slot cur joined ctor thread_done] in *.
  destruct ct, p, x; try discriminate Hsh;
    destruct n as [|[|n]]; try discriminate Hsh;
    (destruct l as [e | i]; [destruct e | destruct i]);
    red_step Hstep; try discriminate Hstep;
    try (lazymatch type of Hstep with
         | Some _ = Some _ => idtac
         | (if ?b then _ else _) = _ => destruct b; try discriminate Hstep
         | (match ?b with Some _ => _ | None => _ end) = _ => destruct b
         end);
    inversion Hstep; subst; clear Hstep;
    (constructor;
     unfold shape_ok, shape_of, shape_okb;
     cbn [pc state run_count stop_flag slot cur joined ctor thread_done st_started st_exc
          st_norm st_stopped st_ready st_excinit st_preinit c_ok c_failed orb negb] in *;
     snoc_norm;
     rewrite ?Hst, ?Hns, ?Hbg, ?Hex, ?Hfe, ?Hfn, ?Hnf, ?Hco, ?Hcf, ?Hif, ?Hid,
             ?orb_false_r, ?orb_true_r, ?Nat.add_0_r;
     try reflexivity; try discriminate; try assumption;
     try (intro; discriminate);
     try (intros Hq; first [rewrite (Hfl Hq) | rewrite (Hsp Hq)]; reflexivity);
     try (rewrite <- Hjn; rewrite ?orb_false_r; reflexivity);
     try (rewrite last_opt_snoc; reflexivity);
     try (intros _; reflexivity);
     try (intros Hq; apply Hnr; exact Hq);
     try (intros Hq; apply Hsc in Hq; first [discriminate Hq | exact Hq]);
     auto).
Qed.

(* ---- exec: snoc, labels, invariant on every reachable state --------------------------------- *)
Lemma exec_app (s : st V) l1 l2 :
  exec s (l1 ++ l2) =
  match exec s l1 with
  | Some (s1, tr1) =>
      match exec s1 l2 with Some (s2, tr2) => Some (s2, tr1 ++ tr2) | None => None end
  | None => None
  end.
Proof.
  revert s; induction l1 as [|l r IH]; intros s; cbn [app exec].
  - destruct (exec s l2) as [[s2 tr2]|]; reflexivity.
  - destruct (step s l) as [[s1 o]|]; [|reflexivity].
    rewrite IH. destruct (exec s1 r) as [[s2 tr]|]; [|reflexivity].
    destruct (exec s2 l2) as [[s3 tr3]|]; reflexivity.
Qed.

Lemma exec_labels (s : st V) ls s' tr : exec s ls = Some (s', tr) -> map fst tr = ls.
Proof.
  revert s s' tr; induction ls as [|l r IH]; intros s s' tr H; cbn [exec] in H.
  - inversion H; reflexivity.
  - destruct (step s l) as [[s1 o]|]; [|discriminate].
    destruct (exec s1 r) as [[s2 tr2]|] eqn:E; [|discriminate].
    inversion H; subst. cbn. f_equal. eapply IH; eassumption.
Qed.

Lemma exec_inv (s : st V) tr0 ls s' tr :
  Inv tr0 s -> exec s ls = Some (s', tr) -> Inv (tr0 ++ tr) s'.
Proof.
  revert s tr0 s' tr; induction ls as [|l r IH]; intros s tr0 s' tr HI H; cbn [exec] in H.
  - inversion H; subst. rewrite app_nil_r. exact HI.
  - destruct (step s l) as [[s1 o]|] eqn:Es; [|discriminate].
    destruct (exec s1 r) as [[s2 tr2]|] eqn:E; [|discriminate].
    inversion H; subst.
    replace (tr0 ++ (l, o) :: tr2) with ((tr0 ++ [(l, o)]) ++ tr2) by (rewrite <- app_assoc; reflexivity).
    eapply IH; [|eassumption]. eapply inv_step; eassumption.
Qed.

Lemma reach_inv v0 ls s tr : exec (init v0) ls = Some (s, tr) -> Inv tr s.
Proof. intros H. exact (@exec_inv (init v0) [] ls s tr (inv_init v0) H). Qed.

(* ---- bridges from the boolean summaries to plain statements --------------------------------- *)
Lemma succ_start_iff (tr : list ev) :
  existsb is_succ_start tr = true <-> In (Ext Start, ONone) tr.
Proof.
  rewrite existsb_exists. split.
  - intros [[l o] [Hin Hp]]. destruct l as [[]|]; try discriminate; destruct o; try discriminate. exact Hin.
  - intros Hin. eexists; split; [exact Hin|reflexivity].
Qed.

Lemma on_lab_iff (p : lab -> bool) (tr : list ev) :
  existsb (on_lab p) tr = true <-> exists l, In l (map fst tr) /\ p l = true.
Proof.
  rewrite existsb_exists. split.
  - intros [[l o] [Hin Hp]]. exists l. split; [|exact Hp]. apply in_map_iff. exists (l, o). auto.
  - intros [l [Hin Hp]]. apply in_map_iff in Hin as [[l' o] [E Hin]]. cbn in E; subst.
    exists (l, o). auto.
Qed.

Lemma stop_iff (tr : list ev) : existsb (on_lab l_stop) tr = true <-> In (Ext Stop) (map fst tr).
Proof.
  rewrite on_lab_iff. split.
  - intros [l [Hin Hp]]. destruct l as [[]|]; try discriminate. exact Hin.
  - intros Hin. eexists; split; [exact Hin|reflexivity].
Qed.
Lemma join_iff (tr : list ev) : existsb (on_lab l_join) tr = true <-> In (Ext Join) (map fst tr).
Proof.
  rewrite on_lab_iff. split.
  - intros [l [Hin Hp]]. destruct l as [[]|]; try discriminate. exact Hin.
  - intros Hin. eexists; split; [exact Hin|reflexivity].
Qed.
Lemma exit_iff (tr : list ev) : existsb (on_lab l_exit) tr = true <-> In (Int TExit) (map fst tr).
Proof.
  rewrite on_lab_iff. split.
  - intros [l [Hin Hp]]. destruct l as [|[]]; try discriminate. exact Hin.
  - intros Hin. eexists; split; [exact Hin|reflexivity].
Qed.
Lemma finexc_iff (tr : list ev) : existsb (on_lab l_finexc) tr = true <-> In (Int TFinishExc) (map fst tr).
Proof.
  rewrite on_lab_iff. split.
  - intros [l [Hin Hp]]. destruct l as [|[]]; try discriminate. exact Hin.
  - intros Hin. eexists; split; [exact Hin|reflexivity].
Qed.
Lemma finnorm_iff (tr : list ev) :
  existsb (on_lab l_finnorm) tr = true <->
  In (Int TFinishOk) (map fst tr) \/ In (Int TFinishStopExc) (map fst tr).
Proof.
  rewrite on_lab_iff. split.
  - intros [l [Hin Hp]]. destruct l as [|[]]; try discriminate; auto.
  - intros [Hin|Hin]; eexists; (split; [exact Hin|reflexivity]).
Qed.

Lemma cnt_pos_iff (p : ev -> bool) (tr : list ev) : cnt p tr <> 0 <-> existsb p tr = true.
Proof.
  unfold cnt. induction tr as [|e r IH]; cbn.
  - split; [congruence|discriminate].
  - destruct (p e); cbn; [split; [reflexivity|discriminate]|exact IH].
Qed.

Lemma begin_iff (tr : list ev) :
  cnt (on_lab l_begin) tr <> 0 <-> In (Int TBeginRun) (map fst tr).
Proof.
  rewrite cnt_pos_iff, on_lab_iff. split.
  - intros [l [Hin Hp]]. destruct l as [|[]]; try discriminate. exact Hin.
  - intros Hin. eexists; split; [exact Hin|reflexivity].
Qed.

Definition begins (ls : list lab) : nat := length (filter l_begin ls).

Lemma cnt_begin_labels (tr : list ev) : cnt (on_lab l_begin) tr = begins (map fst tr).
Proof.
  unfold cnt, begins. induction tr as [|[l o] r IH]; cbn; [reflexivity|].
  unfold on_lab at 1; cbn [fst]. destruct (l_begin l); cbn; congruence.
Qed.

Definition finished (ls : list lab) : Prop :=
  In (Int TFinishOk) ls \/ In (Int TFinishStopExc) ls \/ In (Int TFinishExc) ls.

Definition final_state (x : tstate) : Prop :=
  x = TASK_COMPLETED_NORMALLY \/ x = EXCEPTION_WHILE_RUNNING_TASK \/ x = TASK_STOPPED_BEFORE_START.

Lemma ctor_ok_iff (tr : list ev) : existsb is_ctor_ok tr = true <-> In (Ext Ctor, ONone) tr.
Proof.
  rewrite existsb_exists. split.
  - intros [[l o] [Hin Hp]]. destruct l as [[]|]; try discriminate; destruct o; try discriminate. exact Hin.
  - intros Hin. eexists; split; [exact Hin|reflexivity].
Qed.
Lemma ctor_fail_iff (tr : list ev) : existsb is_ctor_fail tr = true <-> In (Ext Ctor, OInitError) tr.
Proof.
  rewrite existsb_exists. split.
  - intros [[l o] [Hin Hp]]. destruct l as [[]|]; try discriminate; destruct o; try discriminate. exact Hin.
  - intros Hin. eexists; split; [exact Hin|reflexivity].
Qed.
Lemma initfail_iff (tr : list ev) : existsb (on_lab l_initfail) tr = true <-> In (Int TInitFail) (map fst tr).
Proof.
  rewrite on_lab_iff. split.
  - intros [l [Hin Hp]]. destruct l as [|[]]; try discriminate. exact Hin.
  - intros Hin. eexists; split; [exact Hin|reflexivity].
Qed.
Lemma initdone_iff (tr : list ev) : existsb (on_lab l_initdone) tr = true <-> In (Int TInitDone) (map fst tr).
Proof.
  rewrite on_lab_iff. split.
  - intros [l [Hin Hp]]. destruct l as [|[]]; try discriminate. exact Hin.
  - intros Hin. eexists; split; [exact Hin|reflexivity].
Qed.

Lemma facts (tr : list ev) (s : st V) (ls : list lab) :
  Inv tr s -> map fst tr = ls ->
  (In (Ext Start, ONone) tr <-> st_started (state s) = true) /\
  (In (Int TExit) ls <-> thread_done s = true) /\
  (In (Int TFinishExc) ls <-> st_exc (state s) = true) /\
  (finished ls <-> st_exc (state s) || st_norm (state s) = true) /\
  (stop_flag s = true -> In (Ext Stop) ls) /\
  (st_stopped (state s) = true -> In (Ext Stop) ls) /\
  (In (Ext Join) ls <-> joined s = true) /\
  (In (Ext Ctor, ONone) tr <-> c_ok (ctor s) = true) /\
  (In (Ext Ctor, OInitError) tr <-> c_failed (ctor s) = true) /\
  (In (Int TInitFail) ls <-> st_excinit (state s) = true) /\
  (In (Int TInitDone) ls <-> st_preinit (state s) = false) /\
  (In (Ext Stop) ls -> st_ready (state s) = false).
Proof.
  intros [Hsh Hst _ _ Hex Hfe Hfn _ Hfl Hsp _ Hjn _ Hco Hcf Hif Hid Hnr _] L. subst ls.
  split; [rewrite <- succ_start_iff, Hst; tauto|].
  split; [rewrite <- exit_iff, Hex; tauto|].
  split; [rewrite <- finexc_iff, Hfe; tauto|].
  split.
  { unfold finished. rewrite <- Hfe, <- Hfn, orb_true_iff, finnorm_iff, finexc_iff. tauto. }
  split; [intros H; apply stop_iff, Hfl, H|].
  split; [intros H; apply stop_iff, Hsp, H|].
  split; [rewrite <- join_iff, Hjn; tauto|].
  split; [rewrite <- ctor_ok_iff, Hco; tauto|].
  split; [rewrite <- ctor_fail_iff, Hcf; tauto|].
  split; [rewrite <- initfail_iff, Hif; tauto|].
  split; [rewrite <- initdone_iff, Hid; destruct (st_preinit (state s)); cbn; split; congruence|].
  intros H. apply Hnr, stop_iff, H.
Qed.

(* case analysis on the shape of a reachable state *)
Ltac shapes Hsh s :=
  unfold shape_ok, shape_of, shape_okb, thread_done in *;
  destruct (ctor s), (pc s), (state s), (run_count s) as [|[|]]; try discriminate Hsh.

Ltac fin := intuition (try discriminate; try congruence).

(* ---- the properties --------------------------------------------------------------------------- *)
Section Reach.
Variable v0 : V.
Variables (ls : list lab) (s : st V) (tr : list ev).
Hypothesis R : exec (init v0) ls = Some (s, tr).

Lemma reach_shape : shape_okb (shape_of s) = true.
Proof. exact (i_shape (reach_inv _ _ R)). Qed.

Lemma run_once :
  run_count s <= 1 /\ run_count s = begins ls /\ cnt is_succ_start tr <= 1 /\
  (run_count s = 1 -> In (Ext Start, ONone) tr).
Proof.
  pose proof (reach_inv _ _ R) as I. pose proof (exec_labels _ _ R) as L.
  pose proof (i_shape I) as Hsh. pose proof (i_started I) as Hst. pose proof (i_nstart I) as Hns.
  pose proof (i_begin I) as Hbg. rewrite cnt_begin_labels, L in Hbg.
  repeat split.
  - shapes Hsh s; lia.
  - symmetry; exact Hbg.
  - rewrite Hns. destruct (st_started (state s)); lia.
  - intros H1. apply succ_start_iff. rewrite Hst.
    unfold shape_ok, shape_of, shape_okb in Hsh. rewrite H1 in Hsh.
    destruct (ctor s), (pc s), (state s); try discriminate; reflexivity.
Qed.

Lemma run_only_after_start :
  step s (Int TBeginRun) <> None -> In (Ext Start, ONone) tr /\ run_count s = 0.
Proof.
  pose proof (reach_inv _ _ R) as I. pose proof (i_shape I) as Hsh. pose proof (i_started I) as Hst.
  intros Hen. unfold step, step_int in Hen.
  rewrite <- succ_start_iff, Hst. shapes Hsh s; try congruence; split; reflexivity.
Qed.

Lemma second_start_refused :
  In (Ext Start, ONone) tr -> step s (Ext Start) = Some (s, OUsageError).
Proof.
  pose proof (reach_inv _ _ R) as I. pose proof (i_shape I) as Hsh. pose proof (i_started I) as Hst.
  intros Hin. apply succ_start_iff in Hin. rewrite Hst in Hin.
  unfold step, step_ext. shapes Hsh s; try discriminate Hin; reflexivity.
Qed.

Lemma join_spec :
  (step s (Ext Join) <> None <-> In (Ext Ctor, ONone) tr /\ In (Int TExit) ls) /\
  forall s' o, step s (Ext Join) = Some (s', o) ->
    In (Int TExit) ls /\
    (finished ls \/ (run_count s = 0 /\ In (Ext Stop) ls /\ ~ In (Ext Start, ONone) tr)) /\
    (o = OTaskRunError <-> In (Int TFinishExc) ls) /\
    (o = ONone <-> ~ In (Int TFinishExc) ls) /\
    final_state (state s) /\
    s' = mk (state s) (pc s) (run_count s) (stop_flag s) (slot s) (cur s) true (ctor s).
Proof.
  pose proof (reach_inv _ _ R) as I. pose proof (exec_labels _ _ R) as L.
  destruct (facts I L) as [F1 [F2 [F3 [F4 [F5 [F6 [F7 [F8 [F9 [F10 [F11 F12]]]]]]]]]]].
  pose proof (i_shape I) as Hsh.
  unfold step, step_ext, final_state in *.
  shapes Hsh s; cbn in *;
    (split; [fin|]);
    intros s' o H; try discriminate H; inversion H; subst; fin.
Qed.

Lemma is_running_spec :
  forall s' o, step s (Ext IsRunning) = Some (s', o) ->
    s' = s /\ exists b, o = OBool b /\
      (b = true <-> state s = RUNNING) /\
      (b = true <-> In (Ext Start, ONone) tr /\ ~ finished ls).
Proof.
  pose proof (reach_inv _ _ R) as I. pose proof (exec_labels _ _ R) as L.
  destruct (facts I L) as [F1 [F2 [F3 [F4 [F5 [F6 [F7 [F8 [F9 [F10 [F11 F12]]]]]]]]]]].
  pose proof (i_shape I) as Hsh.
  intros s' o H. unfold step, step_ext in *.
  shapes Hsh s; try discriminate H; inversion H; subst;
    (split; [reflexivity|]); eexists; (split; [reflexivity|]); cbn in *; fin.
Qed.

Lemma settings_spec :
  forall s' o, step s (Int TUpdate) = Some (s', o) ->
    slot s = last_opt (posts_since tr) /\
    (posts_since tr = [] -> o = OUpd false (cur s) /\ s' = s) /\
    (posts_since tr <> [] ->
       o = OUpd true (last (posts_since tr) (cur s)) /\
       cur s' = last (posts_since tr) (cur s) /\ slot s' = None /\
       state s' = state s /\ pc s' = pc s /\ run_count s' = run_count s).
Proof.
  pose proof (reach_inv _ _ R) as I. pose proof (i_slot I) as Hsl.
  intros s' o H. split; [exact Hsl|].
  unfold step, step_int in H. destruct (pc s); try discriminate H.
  rewrite Hsl in H.
  destruct (posts_since tr) as [|a r] eqn:E using rev_ind.
  - cbn in H. inversion H; subst. split; [auto|congruence].
  - clear IHr. rewrite last_opt_snoc in H. inversion H; subst. cbn.
    split; [intros Hc; destruct r; discriminate Hc|]. intros _. rewrite last_last. repeat split.
Qed.

Lemma pending_spec :
  forall s' o, step s (Ext GetPending) = Some (s', o) ->
    s' = s /\ o = OOpt (last_opt (posts_since tr)).
Proof.
  pose proof (reach_inv _ _ R) as I. pose proof (i_slot I) as Hsl.
  intros s' o H. unfold step, step_ext in H. destruct (ctor s); try discriminate H;
    inversion H; subst; rewrite <- Hsl; auto.
Qed.

Lemma poll_stop_spec :
  forall s' o, step s (Int TPollStop) = Some (s', o) ->
    s' = s /\ o = OBool (stop_flag s) /\ (stop_flag s = true -> In (Ext Stop) ls).
Proof.
  pose proof (reach_inv _ _ R) as I. pose proof (exec_labels _ _ R) as L.
  pose proof (i_flag I) as Hfl.
  intros s' o H. unfold step, step_int in H. destruct (pc s); try discriminate H.
  inversion H; subst s' o. repeat split. intros Hf. rewrite <- L.
  apply stop_iff. apply Hfl. exact Hf.
Qed.

Lemma release_spec :
  step s (Ext Release) <> None -> In (Ext Join) ls /\ In (Int TExit) ls.
Proof.
  pose proof (reach_inv _ _ R) as I. pose proof (exec_labels _ _ R) as L.
  pose proof (i_exit I) as Hex. pose proof (i_joined I) as Hjn. pose proof (i_joined_done I) as Hjd.
  intros H. unfold step, step_ext in H.
  assert (J : joined s = true). { destruct (ctor s), (joined s); congruence. }
  rewrite <- L. split; [apply join_iff; rewrite <- Hjn; exact J|].
  apply exit_iff. rewrite Hex. apply Hjd. exact J.
Qed.

(* ---- the constructor: make_task returns a proxy, or raises QMI_TaskInitException ---------------- *)
Lemma ctor_spec :
  forall s' o, step s (Ext Ctor) = Some (s', o) ->
    ~ In (Ext Ctor, ONone) tr /\ ~ In (Ext Ctor, OInitError) tr /\
    (o = ONone \/ o = OInitError) /\
    (o = ONone <-> In (Int TInitDone) ls) /\
    (o = OInitError <-> In (Int TInitFail) ls) /\
    (o = OInitError -> In (Int TExit) ls /\ run_count s' = 0 /\ forall l, step s' l = None) /\
    (o = ONone -> state s' = READY_TO_RUN /\ run_count s' = 0 /\ thread_done s' = false).
Proof.
  pose proof (reach_inv _ _ R) as I. pose proof (exec_labels _ _ R) as L.
  destruct (facts I L) as [F1 [F2 [F3 [F4 [F5 [F6 [F7 [F8 [F9 [F10 [F11 F12]]]]]]]]]]].
  pose proof (i_shape I) as Hsh.
  intros s' o H. unfold step, step_ext in H.
  destruct s as [x p n f sl c j ct]. cbn [ctor pc state run_count thread_done] in *.
  unfold shape_ok, shape_of, shape_okb, thread_done in *. cbn [ctor pc state run_count] in *.
  destruct ct, p, x, n as [|[|]]; try discriminate Hsh; try discriminate H; cbn in *;
    inversion H; subst; cbn;
    (split; [fin|]); (split; [fin|]); (split; [fin|]); (split; [fin|]); (split; [fin|]);
    (split; [|fin]);
    intros Hq; try discriminate Hq;
    (split; [fin|]); (split; [reflexivity|]);
    intros [[]|[]]; reflexivity.
Qed.

(* after a failed construction nothing is left: no proxy operation, no thread step is ever enabled *)
Lemma init_failure_terminal :
  In (Ext Ctor, OInitError) tr ->
  (forall l, step s l = None) /\ run_count s = 0 /\ thread_done s = true /\
  In (Int TInitFail) ls /\ In (Int TExit) ls /\ ~ In (Int TInitDone) ls /\ ~ In (Int TBeginRun) ls.
Proof.
  pose proof (reach_inv _ _ R) as I. pose proof (exec_labels _ _ R) as L.
  destruct (facts I L) as [F1 [F2 [F3 [F4 [F5 [F6 [F7 [F8 [F9 [F10 [F11 F12]]]]]]]]]]].
  pose proof (i_shape I) as Hsh. pose proof (i_begin I) as Hbg.
  intros Hc. apply F9 in Hc.
  assert (Hb : ~ In (Int TBeginRun) ls).
  { rewrite <- L. intros Hb. apply begin_iff in Hb. rewrite Hbg in Hb.
    shapes Hsh s; try discriminate Hc; congruence. }
  destruct s as [x p n f sl c j ct]. cbn [ctor pc state run_count thread_done] in *.
  unfold shape_ok, shape_of, shape_okb, thread_done in *. cbn [ctor pc state run_count] in *.
  destruct ct, p, x, n as [|[|]]; try discriminate Hsh; try discriminate Hc; cbn in *.
  split; [intros [[]|[]]; reflexivity|]. fin.
Qed.

(* a task whose constructor raised is never run, whatever happens *)
Lemma init_failure_never_runs :
  In (Int TInitFail) ls ->
  run_count s = 0 /\ state s = EXCEPTION_WHILE_INSTANTIATING_TASK /\
  (forall e, e <> Ctor -> step s (Ext e) = None) /\ ~ In (Ext Ctor, ONone) tr.
Proof.
  pose proof (reach_inv _ _ R) as I. pose proof (exec_labels _ _ R) as L.
  destruct (facts I L) as [F1 [F2 [F3 [F4 [F5 [F6 [F7 [F8 [F9 [F10 [F11 F12]]]]]]]]]]].
  pose proof (i_shape I) as Hsh.
  intros Hf. apply F10 in Hf. unfold step, step_ext.
  shapes Hsh s; try discriminate Hf; cbn in *;
    (split; [reflexivity|]); (split; [reflexivity|]);
    (split; [intros [] He; try reflexivity; congruence | fin]).
Qed.

(* ---- no dead-lock after a stop; release of an unjoined task ------------------------------------- *)
(* the steps of the task thread other than the body's own update/poll steps strictly decrease this *)
Definition rank (p : tpc) : nat :=
  match p with TP_init => 5 | TP_wait => 4 | TP_run => 3 | TP_fin => 1 | TP_done => 0 end.

Lemma progress_after_stop :
  In (Ext Stop) ls -> thread_done s = false -> exists i, step s (Int i) <> None.
Proof.
  pose proof (reach_inv _ _ R) as I. pose proof (exec_labels _ _ R) as L.
  destruct (facts I L) as [F1 [F2 [F3 [F4 [F5 [F6 [F7 [F8 [F9 [F10 [F11 F12]]]]]]]]]]].
  pose proof (i_shape I) as Hsh. pose proof (i_stop_ctor I) as Hsc.
  intros Hs Hd. pose proof (F12 Hs) as Hr.
  assert (Hc : c_ok (ctor s) = true). { apply Hsc, stop_iff. rewrite L. exact Hs. }
  unfold step, step_int.
  shapes Hsh s; try discriminate Hc; try discriminate Hr; try discriminate Hd.
  - exists TBeginRun; discriminate.
  - exists TExit; discriminate.
  - exists TFinishOk; discriminate.
  - exists TExit; discriminate.
  - exists TExit; discriminate.
Qed.

(* what a task that honours the stop request does from each position *)
Definition drain (s1 : st V) : list int :=
  match pc s1, state s1 with
  | TP_wait, RUNNING => [TBeginRun; TPollStop; TFinishStopExc; TExit]
  | TP_wait, _ => [TExit]
  | TP_run, _ => [TPollStop; TFinishStopExc; TExit]
  | TP_fin, _ => [TExit]
  | _, _ => []
  end.

Lemma release_unjoined :
  In (Ext Ctor, ONone) tr ->
  exists s1 s2 tr2 s3 o,
    step s (Ext Stop) = Some (s1, ONone) /\
    exec s1 (map Int (drain s1)) = Some (s2, tr2) /\
    (forall x, In (Int TPollStop, x) tr2 -> x = OBool true) /\
    step s2 (Ext Join) = Some (s3, o) /\
    (o = OTaskRunError <-> In (Int TFinishExc) ls) /\
    step s3 (Ext Release) = Some (s3, ONone).
Proof.
  pose proof (reach_inv _ _ R) as I. pose proof (exec_labels _ _ R) as L.
  destruct (facts I L) as [F1 [F2 [F3 [F4 [F5 [F6 [F7 [F8 [F9 [F10 [F11 F12]]]]]]]]]]].
  pose proof (i_shape I) as Hsh.
  intros Hc. apply F8 in Hc.
  destruct s as [x p n f sl c j ct]. cbn [ctor pc state run_count thread_done] in *.
  unfold shape_ok, shape_of, shape_okb, thread_done in *. cbn [ctor pc state run_count] in *.
  destruct ct, p, x, n as [|[|]]; try discriminate Hsh; try discriminate Hc; cbn in *;
    do 5 eexists;
    (split; [reflexivity|]); (split; [reflexivity|]);
    (split; [intros y Hy; cbn in Hy; fin|]);
    (split; [reflexivity|]); (split; [fin|reflexivity]).
Qed.

End Reach.

Lemma rank_decreases (s : st V) i s' o :
  step s (Int i) = Some (s', o) ->
  ((i = TUpdate \/ i = TPollStop) /\ pc s' = pc s) \/ rank (pc s') < rank (pc s).
Proof.
  unfold step, step_int. destruct s as [x p n f sl c j ct]; cbn [pc state slot].
  destruct i, p; try discriminate; try (destruct x; try discriminate); try (destruct sl);
    intros H; inversion H; subst; cbn; auto; right; lia.
Qed.

Lemma rank_ext (s : st V) e s' o : step s (Ext e) = Some (s', o) -> pc s' = pc s.
Proof.
  unfold step, step_ext. destruct s as [x p n f sl c j ct]; cbn [pc state slot ctor joined thread_done].
  destruct e, ct; try discriminate; try (destruct x; try discriminate);
    try (destruct p; try discriminate); try (destruct j; try discriminate);
    intros H; inversion H; subst; reflexivity.
Qed.

(* every one of the 14 shapes is reached *)
Definition all_shapes : list shape :=
  [(C_running, TP_init, INITIAL, 0); (C_running, TP_wait, READY_TO_RUN, 0);
   (C_running, TP_fin, EXCEPTION_WHILE_INSTANTIATING_TASK, 0);
   (C_running, TP_done, EXCEPTION_WHILE_INSTANTIATING_TASK, 0);
   (C_failed, TP_done, EXCEPTION_WHILE_INSTANTIATING_TASK, 0);
   (C_ok, TP_wait, READY_TO_RUN, 0); (C_ok, TP_wait, RUNNING, 0);
   (C_ok, TP_wait, TASK_STOPPED_BEFORE_START, 0); (C_ok, TP_run, RUNNING, 1);
   (C_ok, TP_fin, TASK_COMPLETED_NORMALLY, 1); (C_ok, TP_fin, EXCEPTION_WHILE_RUNNING_TASK, 1);
   (C_ok, TP_done, TASK_STOPPED_BEFORE_START, 0); (C_ok, TP_done, TASK_COMPLETED_NORMALLY, 1);
   (C_ok, TP_done, EXCEPTION_WHILE_RUNNING_TASK, 1)].

Definition witness (sh : shape) : list lab :=
  match sh with
  | (C_running, TP_init, _, _) => []
  | (C_running, TP_wait, _, _) => [Int TInitDone]
  | (C_running, TP_fin, _, _) => [Int TInitFail]
  | (C_running, TP_done, _, _) => [Int TInitFail; Int TExit]
  | (C_failed, _, _, _) => [Int TInitFail; Int TExit; Ext Ctor]
  | (C_ok, TP_wait, READY_TO_RUN, _) => [Int TInitDone; Ext Ctor]
  | (C_ok, TP_wait, RUNNING, _) => [Int TInitDone; Ext Ctor; Ext Start]
  | (C_ok, TP_wait, _, _) => [Int TInitDone; Ext Ctor; Ext Stop]
  | (C_ok, TP_run, _, _) => [Int TInitDone; Ext Ctor; Ext Start; Int TBeginRun]
  | (C_ok, TP_fin, TASK_COMPLETED_NORMALLY, _) => [Int TInitDone; Ext Ctor; Ext Start; Int TBeginRun; Int TFinishOk]
  | (C_ok, TP_fin, _, _) => [Int TInitDone; Ext Ctor; Ext Start; Int TBeginRun; Int TFinishExc]
  | (C_ok, TP_done, TASK_STOPPED_BEFORE_START, _) => [Int TInitDone; Ext Ctor; Ext Stop; Int TExit]
  | (C_ok, TP_done, TASK_COMPLETED_NORMALLY, _) =>
      [Int TInitDone; Ext Ctor; Ext Start; Int TBeginRun; Int TFinishStopExc; Int TExit]
  | (C_ok, TP_done, _, _) => [Int TInitDone; Ext Ctor; Ext Start; Int TBeginRun; Int TFinishExc; Int TExit]
  | _ => []
  end.

Lemma shapes_all_reachable (v0 : V) :
  forall sh, In sh all_shapes ->
    exists s tr, exec (init v0) (witness sh) = Some (s, tr) /\ shape_of s = sh.
Proof.
  intros sh Hin. unfold all_shapes in Hin.
  repeat (destruct Hin as [E|Hin]; [subst sh; cbn; eexists; eexists; split; reflexivity|]).
  destruct Hin.
Qed.

Lemma shapes_exact (sh : shape) : shape_okb sh = true <-> In sh all_shapes.
Proof.
  split.
  - destruct sh as [[[c p] x] n]. unfold shape_okb.
    destruct c, p, x, n as [|[|]]; try discriminate; intros _; cbn; tauto.
  - intros Hin. unfold all_shapes in Hin.
    repeat (destruct Hin as [E|Hin]; [subst sh; reflexivity|]). destruct Hin.
Qed.

(* ---- continuation lemmas (a state, then any further interleaving) ------------------------- *)
Definition pc_idle (p : tpc) : bool := match p with TP_wait | TP_done => true | _ => false end.

Lemma stopped_absorbing (s : st V) l2 s2 tr2 :
  state s = TASK_STOPPED_BEFORE_START -> run_count s = 0 -> pc_idle (pc s) = true ->
  exec s l2 = Some (s2, tr2) ->
  state s2 = TASK_STOPPED_BEFORE_START /\ run_count s2 = 0 /\
  (forall o, In (Ext Start, o) tr2 -> o = OUsageError) /\
  (forall o, In (Ext Join, o) tr2 -> o = ONone).
Proof.
  revert s s2 tr2; induction l2 as [|l r IH]; intros s s2 tr2 Hs Hr Hp H; cbn [exec] in H.
  - inversion H; subst. repeat split; auto; intros o [].
  - destruct (step s l) as [[s1 o1]|] eqn:Es; [|discriminate].
    destruct (exec s1 r) as [[s3 tr3]|] eqn:E; [|discriminate].
    inversion H; subst.
    assert (Hs1 : state s1 = TASK_STOPPED_BEFORE_START /\ run_count s1 = 0 /\
                  pc_idle (pc s1) = true /\
                  (l = Ext Start -> o1 = OUsageError) /\
                  (l = Ext Join -> o1 = ONone)).
    { destruct s as [x p n f sl c j ct]. cbn [state run_count pc] in Hs, Hr, Hp. subst x n.
      destruct l as [e|i]; [destruct e|destruct i]; destruct ct, p; try discriminate Hp;
        cbn in Es; try discriminate Es;
        try (destruct j; try discriminate Es); try (destruct sl);
        inversion Es; subst; cbn; repeat split; try reflexivity; intros; try discriminate;
        try congruence. }
    destruct Hs1 as [A [B [P [C D]]]].
    destruct (IH _ _ _ A B P E) as [A2 [B2 [C2 D2]]].
    repeat split; auto.
    + intros o [Hq|Hin]; [inversion Hq; subst; apply C; reflexivity | auto].
    + intros o [Hq|Hin]; [inversion Hq; subst; apply D; reflexivity | auto].
Qed.

Lemma stop_first v0 l1 s1 tr1 l2 s2 tr2 :
  exec (init v0) l1 = Some (s1, tr1) -> ~ In (Ext Start, ONone) tr1 ->
  exec s1 (Ext Stop :: l2) = Some (s2, tr2) ->
  run_count s2 = 0 /\ begins (l1 ++ Ext Stop :: l2) = 0 /\
  (forall o, In (Ext Start, o) tr2 -> o = OUsageError) /\
  (forall o, In (Ext Join, o) tr2 -> o = ONone).
Proof.
  intros R1 Hns H2.
  assert (R12 : exec (init v0) (l1 ++ Ext Stop :: l2) = Some (s2, tr1 ++ tr2)).
  { rewrite exec_app, R1, H2. reflexivity. }
  pose proof (reach_inv _ _ R1) as I. pose proof (i_shape I) as Hsh. pose proof (i_started I) as Hst.
  rewrite <- succ_start_iff, Hst in Hns.
  cbn [exec] in H2.
  destruct (step s1 (Ext Stop)) as [[s1' o1]|] eqn:Es; [|discriminate].
  destruct (exec s1' l2) as [[s3 tr3]|] eqn:E; [|discriminate].
  inversion H2; subst.
  assert (A : state s1' = TASK_STOPPED_BEFORE_START /\ run_count s1' = 0 /\
              pc_idle (pc s1') = true /\ o1 = ONone).
  { unfold step, step_ext in Es. unfold shape_ok, shape_of, shape_okb in Hsh.
    destruct s1 as [x p n f sl c j ct]; cbn [pc state run_count ctor] in *.
    destruct ct, p, x, n as [|[|]]; try discriminate Hsh; try discriminate Es;
      try (exfalso; apply Hns; reflexivity); inversion Es; subst; cbn; auto. }
  destruct A as [A [B [P C]]].
  destruct (@stopped_absorbing _ _ _ _ A B P E) as [A2 [B2 [C2 D2]]].
  pose proof (@run_once _ _ _ _ R12) as [_ [Hb _]]. rewrite B2 in Hb.
  repeat split; auto.
  - intros o [Hq|Hin]; [inversion Hq | auto].
  - intros o [Hq|Hin]; [inversion Hq | auto].
Qed.

Lemma stop_flag_sticky (s : st V) l2 s2 tr2 :
  stop_flag s = true -> exec s l2 = Some (s2, tr2) ->
  stop_flag s2 = true /\ (forall o, In (Int TPollStop, o) tr2 -> o = OBool true).
Proof.
  revert s s2 tr2; induction l2 as [|l r IH]; intros s s2 tr2 Hf H; cbn [exec] in H.
  - inversion H; subst. split; [auto|intros o []].
  - destruct (step s l) as [[s1 o1]|] eqn:Es; [|discriminate].
    destruct (exec s1 r) as [[s3 tr3]|] eqn:E; [|discriminate].
    inversion H; subst.
    assert (A : stop_flag s1 = true /\ (l = (Int TPollStop : lab) -> o1 = OBool true)).
    { clear IH E H. unfold step, step_ext, step_int, thread_done in Es.
      repeat match type of Es with
             | context [match ?x with _ => _ end] => destruct x eqn:?; try discriminate Es
             end;
        inversion Es; subst; cbn [stop_flag set_state set_pc set_ctor];
        (split; [first [exact Hf | reflexivity] | intros Hq; try discriminate Hq; rewrite Hf; reflexivity]). }
    destruct A as [A B]. destruct (IH _ _ _ A E) as [A2 B2]. split; [auto|].
    intros o [Hq|Hin]; [inversion Hq; subst; apply B; reflexivity | auto].
Qed.

Lemma stop_after_begin (v0 : V) (l1 : list lab) (s1 : st V) (tr1 : list ev) (l2 : list lab) (s2 : st V) (tr2 : list ev) :
  exec (init v0) l1 = Some (s1, tr1) -> In (Int TBeginRun) l1 ->
  exec s1 (Ext Stop :: l2) = Some (s2, tr2) ->
  stop_flag s2 = true /\ (forall o, In (Int TPollStop, o) tr2 -> o = OBool true).
Proof.
  intros R1 Hb H2.
  pose proof (reach_inv _ _ R1) as I. pose proof (exec_labels _ _ R1) as L.
  pose proof (i_shape I) as Hsh. pose proof (i_begin I) as Hbg.
  rewrite <- L in Hb. apply begin_iff in Hb. rewrite Hbg in Hb.
  cbn [exec] in H2.
  destruct (step s1 (Ext Stop)) as [[s1' o1]|] eqn:Es; [|discriminate].
  destruct (exec s1' l2) as [[s3 tr3]|] eqn:E; [|discriminate].
  inversion H2; subst.
  assert (A : stop_flag s1' = true).
  { unfold step, step_ext in Es. unfold shape_ok, shape_of, shape_okb in Hsh.
    destruct s1 as [x p n f sl c j ct]; cbn [pc state run_count ctor] in *.
    destruct ct, p, x, n as [|[|]]; try discriminate Hsh; try discriminate Es; try congruence;
      inversion Es; subst; reflexivity. }
  destruct (@stop_flag_sticky _ _ _ _ A E) as [A2 B2]. split; [auto|].
  intros o [Hq|Hin]; [inversion Hq | auto].
Qed.

(* "since the previous update": posts_since is the list of values posted after the last update *)
Lemma posts_since_no_update (tr : list ev) :
  existsb is_update tr = false -> posts_since tr = posted tr.
Proof.
  induction tr as [|e r IH] using rev_ind; [reflexivity|].
  rewrite existsb_app, posts_since_snoc. cbn [existsb]. rewrite orb_false_r.
  intros H. apply orb_false_iff in H as [H1 H2]. rewrite (IH H1).
  assert (P : posted (r ++ [e]) = posted r ++ posted [e]).
  { clear. induction r as [|[l o] r IH]; [reflexivity|]. cbn [app posted].
    destruct l as [[]|]; rewrite IH; reflexivity. }
  rewrite P. destruct e as [l o]. unfold is_update in H2. cbn [fst] in H2. unfold since_step; cbn [fst].
  destruct l as [[]|[]]; cbn; rewrite ?app_nil_r; try reflexivity; discriminate.
Qed.

Lemma posts_since_after_update (tr1 tr2 : list ev) e :
  is_update e = true -> existsb is_update tr2 = false ->
  posts_since (tr1 ++ e :: tr2) = posted tr2.
Proof.
  intros He H2. rewrite <- (posts_since_no_update _ H2).
  unfold posts_since. rewrite fold_left_app. cbn [fold_left].
  assert (E : since_step (fold_left since_step tr1 []) e = []).
  { destruct e as [l o]. unfold is_update in He; cbn [fst] in He. unfold since_step; cbn [fst].
    destruct l as [[]|[]]; try discriminate; reflexivity. }
  rewrite E. reflexivity.
Qed.

Lemma reachable_shapes (v0 : V) (ls : list lab) (s : st V) (tr : list ev) :
  exec (init v0) ls = Some (s, tr) -> In (shape_of s) all_shapes.
Proof. intros R. apply shapes_exact. exact (@reach_shape v0 ls s tr R). Qed.

Lemma rank_step (s : st V) (l : lab) s' o :
  step s l = Some (s', o) ->
  match l with
  | Ext _ => pc s' = pc s
  | Int i => ((i = TUpdate \/ i = TPollStop) /\ pc s' = pc s) \/ rank (pc s') < rank (pc s)
  end.
Proof. destruct l as [e|i]; intros H; [exact (rank_ext _ _ H) | exact (rank_decreases _ _ H)]. Qed.

End Proofs.
