(* C10 — QMI_LoopTask.run (qmi/core/task.py): executable model of the period arithmetic, no proofs here.

     loop_prepare(); next_time = monotonic() + period
     try:
       while not stop_requested():
           [update_settings / loop_iteration / update_status / publish_signals]   -- takes d
           time_to_sleep = next_time - monotonic()
           if time_to_sleep > 0:  self.sleep(time_to_sleep); next_time += period
           else:  IMMEDIATE: next_time = monotonic() + period
                  SKIP:      next_time += period * int((period - time_to_sleep) / period)
                  TERMINATE: self._task_runner.stop()
     except QMI_TaskStopException: pass
     finally: loop_finalize()

   Time is an integer number of ticks (Z); the period p, the iteration durations and the clock are exact
   (the correspondence uses dyadic float values, for which the float arithmetic of the code is exact, and
   int(x) of a non-negative quotient is the floor, i.e. Z.div).  The body of iteration i takes (nth i durs)
   ticks; when the list is exhausted the scripted loop_iteration raises QMI_TaskStopException (the loop
   ends through the except clause).  An external stop() may arrive at absolute time ts (None: never).
   sleep(d) = Event.wait(d) on the stop flag: raises at once if the flag is set, raises at ts if the stop
   arrives while sleeping, else returns after d.  loop_finalize always runs (the [lfinal] record is the
   state in which it runs). *)
From Coq Require Export List ZArith Bool Lia.
Export ListNotations.
Local Open Scope Z_scope.

Inductive policy := IMMEDIATE | SKIP | TERMINATE.

(* how the loop was left *)
Inductive lend :=
| EndStopSeen      (* "while not stop_requested()" saw the flag *)
| EndSleepStopped  (* sleep() raised QMI_TaskStopException *)
| EndScript.       (* the scripted loop_iteration raised QMI_TaskStopException (durations exhausted) *)

Record lfinal := mkfinal { f_now : Z; f_next : Z; f_end : lend }.

(* the late branch (time_to_sleep <= 0) at time now: new next_time, and whether stop was requested *)
Definition late (pol : policy) (p now next : Z) : Z * bool :=
  match pol with
  | IMMEDIATE => (now + p, false)
  | SKIP => (next + p * ((p - (next - now)) / p), false)
  | TERMINATE => (next, true)
  end.

(* has the external stop arrived strictly before time t? *)
Definition ext_stopped (ts : option Z) (t : Z) : bool :=
  match ts with Some x => x <? t | None => false end.

(* the while loop from its head; result: (now, next_time) at the entry of each loop_iteration, and the
   state in which loop_finalize runs *)
Fixpoint loop (pol : policy) (p : Z) (ts : option Z) (durs : list Z) (now next : Z) (flag : bool)
  : list (Z * Z) * lfinal :=
  if flag || ext_stopped ts now then ([], mkfinal now next EndStopSeen)
  else
    match durs with
    | [] => ([(now, next)], mkfinal now next EndScript)
    | d :: rest =>
        let now1 := now + d in
        let tts := next - now1 in
        if 0 <? tts then
          (* self.sleep(tts) *)
          if ext_stopped ts now1 then ([(now, next)], mkfinal now1 next EndSleepStopped)
          else if ext_stopped ts next then
                 ([(now, next)], mkfinal (match ts with Some x => x | None => next end) next EndSleepStopped)
          else let '(its, fin) := loop pol p ts rest next (next + p) false in ((now, next) :: its, fin)
        else
          let '(next', stop) := late pol p now1 next in
          let '(its, fin) := loop pol p ts rest now1 next' stop in ((now, next) :: its, fin)
    end.

(* run(): loop_prepare at t0 *)
Definition loop_run (pol : policy) (p t0 : Z) (ts : option Z) (durs : list Z) : list (Z * Z) * lfinal :=
  loop pol p ts durs t0 (t0 + p) false.
