(* C12 — the task population of a context at remove_rpc_object / stop.

   The sequential model (Model.v) treats the release step of a task runner (QMI_TaskRunner.release_rpc_object =
   stop() + join() of its _TaskThread) as a step that returns.  This file states what that rests on and proves it for
   EVERY population of tasks and every order of stopping them:

     qmi/core/task.py  _TaskThread.stop_task:  set the task's stop flag ; if the task registered a condition variable it
                                               waits on: [that condition's lock: notify_all]
                       QMI_TaskRunner.join:    wait until the task thread has ended
     qmi/core/pubsub.py QMI_SignalReceiver.get_next_signal inside a task -> _TaskThread.wait_for_condition on the
                       receiver's condition variable: several tasks (and ordinary threads) may wait on the SAME one.

   A task is abstracted to: the condition variable it blocks on ([cv]; tasks sharing a receiver share it), its stop
   flag, whether it has ended.  [waiters] is the arrival order of the blocked waiters (tasks, and ordinary threads
   [None]) - it only matters for the variant that wakes ONE waiter.
   ASSUMPTION made explicit as the hypothesis [honours_stop]: a task that is woken (or that starts a wait) with its stop
   flag set leaves the wait with the stop exception and its thread ends - this is property C11 (theorems C11_released,
   C11_wait_after_stop, C11_no_deadlock of theories/C11/Properties.v) together with "the task's code blocks only in QMI's
   own stoppable waits" (true of the tasks the harness puts into contexts; a task that merely delays its reaction is
   covered, one that never reacts is outside). *)
From Coq Require Import List Arith Bool Lia.
Import ListNotations.

Inductive wakev := NotifyAll | NotifyOne.
Record task := mkT { cv : nat; flag : bool; ended : bool }.
Record pstate := mkP { tasks : list task; waiters : list (nat * option nat) }.   (* (cv, Some task | None = ordinary thread) *)

Section TaskPop.
  Variable honours : nat -> bool.        (* task i, woken with its stop flag set, ends *)

  Definition getT (s : pstate) (i : nat) : task := nth i (tasks s) (mkT 0 false true).
  Fixpoint updT (l : list task) (i : nat) (t : task) : list task :=
    match l, i with
    | [], _ => []
    | _ :: r, 0 => t :: r
    | x :: r, S j => x :: updT r j t
    end.

  (* notify_all on condition variable k: every waiter wakes; a task whose flag is set ends, the others wait again *)
  Fixpoint wake_all_from (k : nat) (i : nat) (l : list task) : list task :=
    match l with
    | [] => []
    | t :: r => (if Nat.eqb (cv t) k && flag t && honours i then mkT (cv t) (flag t) true else t) :: wake_all_from k (S i) r
    end.
  Definition still_waiting (ts : list task) (w : nat * option nat) : bool :=
    match snd w with Some i => negb (ended (nth i ts (mkT 0 false true))) | None => true end.

  (* notify on k: only the oldest waiter on k wakes; if it is not a task with its flag set it waits again (at the back) *)
  Fixpoint wake_one (k : nat) (ts : list task) (ws : list (nat * option nat)) : list task * list (nat * option nat) :=
    match ws with
    | [] => (ts, [])
    | (c, who) :: r =>
        if Nat.eqb c k then
          match who with
          | Some i => let t := nth i ts (mkT 0 false true) in
                      if flag t && honours i then (updT ts i (mkT (cv t) (flag t) true), r) else (ts, r ++ [(c, who)])
          | None => (ts, r ++ [(c, who)])
          end
        else let '(ts', r') := wake_one k ts r in (ts', (c, who) :: r')
    end.

  Definition wake (v : wakev) (k : nat) (s : pstate) : pstate :=
    match v with
    | NotifyAll => let ts := wake_all_from k 0 (tasks s) in mkP ts (filter (still_waiting ts) (waiters s))
    | NotifyOne => let '(ts, ws) := wake_one k (tasks s) (waiters s) in mkP ts ws
    end.

  (* release of task runner i: stop_task ; join.  None = join never returns (nobody else will wake the task) *)
  Definition stop_one (v : wakev) (i : nat) (s : pstate) : option pstate :=
    let t := getT s i in
    if ended t then Some s
    else
      let s1 := mkP (updT (tasks s) i (mkT (cv t) true (ended t))) (waiters s) in
      let s2 := wake v (cv t) s1 in
      if ended (getT s2 i) then Some s2 else None.

  Fixpoint stop_seq (v : wakev) (order : list nat) (s : pstate) : option pstate :=
    match order with
    | [] => Some s
    | i :: r => match stop_one v i s with Some s' => stop_seq v r s' | None => None end
    end.

  Hypothesis honours_stop : forall i, honours i = true.

  Lemma nth_updT_same l : forall i t d, i < length l -> nth i (updT l i t) d = t.
  Proof. induction l as [|x l IH]; intros [|i] t d H; simpl in *; try lia; [reflexivity | apply IH; lia]. Qed.
  Lemma length_updT l : forall i t, length (updT l i t) = length l.
  Proof. induction l as [|x l IH]; intros [|i] t; simpl; auto. Qed.
  Lemma length_wake_all k l : forall i, length (wake_all_from k i l) = length l.
  Proof. induction l as [|x l IH]; intros i; simpl; auto. Qed.

  Lemma wake_all_nth k l : forall base j d, j < length l ->
    nth j (wake_all_from k base l) d =
      let t := nth j l d in if Nat.eqb (cv t) k && flag t && honours (base + j) then mkT (cv t) (flag t) true else t.
  Proof.
    induction l as [|x l IH]; intros base [|j] d H; simpl in *; try lia.
    - rewrite Nat.add_0_r. reflexivity.
    - rewrite IH by lia. replace (S base + j) with (base + S j) by lia. reflexivity.
  Qed.

  (* ended tasks stay ended *)
  Lemma wake_all_ended k l : forall base j d, j < length l -> ended (nth j l d) = true ->
    ended (nth j (wake_all_from k base l) d) = true.
  Proof.
    intros base j d H E. rewrite wake_all_nth by exact H. simpl.
    destruct (Nat.eqb (cv (nth j l d)) k && flag (nth j l d) && honours (base + j)); [reflexivity | exact E].
  Qed.

  Lemma stop_one_all i s : i < length (tasks s) ->
    exists s', stop_one NotifyAll i s = Some s' /\ length (tasks s') = length (tasks s) /\
      ended (getT s' i) = true /\ (forall j, j < length (tasks s) -> ended (getT s j) = true -> ended (getT s' j) = true).
  Proof.
    intros Hi. unfold stop_one. destruct (ended (getT s i)) eqn:E.
    - exists s. repeat split; auto.
    - set (t := getT s i). set (l1 := updT (tasks s) i (mkT (cv t) true false)).
      assert (length l1 = length (tasks s)) as L1 by apply length_updT.
      assert (ended (nth i (wake_all_from (cv t) 0 l1) (mkT 0 false true)) = true) as EI.
      { rewrite wake_all_nth by lia. unfold l1. rewrite nth_updT_same by exact Hi. simpl.
        rewrite Nat.eqb_refl, honours_stop. reflexivity. }
      assert (forall ws, getT (mkP (wake_all_from (cv t) 0 l1) ws) i = nth i (wake_all_from (cv t) 0 l1) (mkT 0 false true)) as G
        by reflexivity.
      unfold wake. cbn [tasks waiters]. fold l1. rewrite G, EI.
      eexists. split; [reflexivity|]. cbn [tasks]. rewrite length_wake_all. split; [exact L1|]. split; [rewrite G; exact EI|].
      intros j Hj Ej. unfold getT. cbn [tasks]. apply wake_all_ended; [lia|].
      unfold l1. destruct (Nat.eq_dec j i) as [->|N].
      + unfold t in *. congruence.
      + unfold getT in Ej. generalize (mkT (cv t) true false). intros t0. clear -N Ej Hj. revert i j N Hj Ej. induction (tasks s) as [|x l IH]; intros [|i] [|j] N Hj Ej; simpl in *; try lia; auto.
        apply IH; auto; lia.
  Qed.

  (* every population, every order: each release step returns and the stopped tasks have ended *)
  Theorem stop_seq_all_terminates : forall order s,
    (forall i, In i order -> i < length (tasks s)) ->
    exists s', stop_seq NotifyAll order s = Some s' /\ length (tasks s') = length (tasks s) /\
      (forall i, In i order -> ended (getT s' i) = true) /\
      (forall j, j < length (tasks s) -> ended (getT s j) = true -> ended (getT s' j) = true).
  Proof.
    induction order as [|i r IH]; intros s H; simpl.
    - exists s. repeat split; auto; intros i [].
    - destruct (stop_one_all i s (H i (or_introl eq_refl))) as [s1 [E1 [L1 [Ei M1]]]]. rewrite E1.
      destruct (IH s1) as [s2 [E2 [L2 [A2 M2]]]].
      { intros j Hj. rewrite L1. apply H. right. exact Hj. }
      exists s2. split; [exact E2|]. split; [congruence|]. split.
      + intros j [<-|Hj]; [ | apply A2; exact Hj ]. apply M2; [rewrite L1; apply H; left; reflexivity | exact Ei].
      + intros j Hj Ej. apply M2; [rewrite L1; exact Hj | apply M1; assumption].
  Qed.
End TaskPop.

(* waking only ONE waiter (notify instead of notify_all): two tasks on one receiver, the younger waiter stopped first *)
Lemma notify_one_refuted :
  stop_seq (fun _ => true) NotifyOne [0; 1]
           (mkP [mkT 7 false false; mkT 7 false false] [(7, Some 1); (7, Some 0)]) = None.
Proof. vm_compute. reflexivity. Qed.
