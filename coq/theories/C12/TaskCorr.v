(* C12 task populations, correspondence: the model's verdict "every release step returns" against what the real
   remove_rpc_object / stop did with the same population (condition variables shared as the receivers are, waiters in
   their arrival order, release order = removes, then the remaining runners in creation order). *)
Require Export QV.Lib.Corr QV.C12.TaskPop.
From Coq Require Export List Arith Bool.
Export ListNotations.

(* a case: condition variable of each task, the waiters in arrival order, the release order, did the real run return?,
   number of release calls observed on task runners *)
Definition case := (list nat * list (nat * option nat) * list nat * bool * nat)%type.

Definition model_returns (v : wakev) (c : case) : bool :=
  let '(cvs, ws, order, _, _) := c in
  match stop_seq (fun _ => true) v order (mkP (map (fun k => mkT k false false) cvs) ws) with
  | Some s' => forallb (fun i => ended (getT s' i)) order
  | None => false
  end.

Definition check_case (c : case) : bool :=
  let '(cvs, _, order, ok, nrel) := c in
  Bool.eqb (model_returns NotifyAll c) ok && (negb ok || Nat.eqb nrel (length cvs)).
(* what the model of the one-waiter wake-up predicts for the same case (reported with a violation) *)
Definition check_case_notify_one (c : case) : bool := model_returns NotifyOne c.
