(* C12 — property theorems only.  Each is closed by [exact] of a lemma of Proofs.v and followed by
   Print Assumptions.  They are statements about [step]/[run] of Model.v (the functions the correspondence
   evaluates against the real QMI_Context / qmi.start) and hold for EVERY finite history of operations
   with faults, in both modes and both variants unless a variant is named. *)
Require Import QV.C12.Model QV.C12.Proofs.

(* the invariant linking the three tables holds after every history: unique names, no reservation left,
   handler map = names of the live objects, one worker thread per live object, live objects not released,
   nothing released twice *)
Theorem C12_reachable_inv : forall m v ops, Inv (fst (run (init m v) ops)).
Proof. exact reachable_inv. Qed.
Print Assumptions C12_reachable_inv.

(* a name maps to at most one object ... *)
Theorem C12_unique : forall w c, Inv w -> cur w = Some c ->
  NoDup (names (objmap c)) /\
  (forall n s1 s2, lookup n (objmap c) = Some s1 -> In (n, s2) (objmap c) -> s1 = s2).
Proof. exact unique_names. Qed.
Print Assumptions C12_unique.

(* ... and a duplicate is refused without touching anything *)
Theorem C12_duplicate_refused : forall c n k a b w,
  valid n = true -> active c = true -> In n (names (objmap c)) -> make c n k a b w = Raise EDup w.
Proof. exact duplicate_refused. Qed.
Print Assumptions C12_duplicate_refused.

(* after a failed constructor: the name is free, and the context (object map, handler map, threads: all of
   it) is exactly what it was; nothing was released; only the id counter moved *)
Theorem C12_rollback : forall w c n k b w',
  Inv w -> cur w = Some c -> make c n k false b w = Raise ECtor w' ->
  ~ In n (names (objmap c)) /\ cur w' = Some c /\ rel w' = rel w /\ hruns w' = hruns w /\
  proxies w' = proxies w /\ nextoid w' = S (nextoid w).
Proof. exact rollback_clean. Qed.
Print Assumptions C12_rollback.

(* after remove: name free, handler gone, thread ended, released exactly once (whether or not release raised) *)
Theorem C12_remove : forall w c n w',
  Inv w -> cur w = Some c -> remove c n w = Ret w' ->
  exists o c', lookup n (objmap c) = Some (Live o) /\ cur w' = Some c' /\
    ~ In n (names (objmap c')) /\ ~ In n (handlers c') /\ ~ In o (cthreads c') /\
    rel w' = rel w ++ [o] /\ count_occ Nat.eq_dec (rel w') o = 1.
Proof. exact remove_clean. Qed.
Print Assumptions C12_remove.

(* stop of an active context succeeds whatever the release steps raise (any class) and whatever the stop handlers
   raise, as long as the handler's exception is one that the `try ... except` around stop handlers catches
   ([all_caught]: every class in the demanded behaviour; every Exception subclass in the tree as it is): every live
   object is released exactly once, every stop handler ran, no thread / handler / socket / connection is left,
   the context is inactive, start and a second stop are usage errors, calls through any proxy fail at once *)
Theorem C12_stop_reclaims : forall w c,
  Inv w -> cur w = Some c -> active c = true -> all_caught w c = true ->
  exists w' c', ctx_stop c w = Ret w' /\ cur w' = Some c' /\
    (forall o, In o (live_oids (objmap c)) -> count_occ Nat.eq_dec (rel w') o = 1) /\
    rel w' = rel w ++ live_oids (objmap c) /\
    hruns w' = hruns w ++ map fst (shs c) /\
    objmap c' = [] /\ handlers c' = [] /\ cthreads c' = [] /\
    router c' = false /\ tcp c' = false /\ udp c' = false /\ conn c' = false /\ active c' = false /\
    (forall f, ctx_start c' f w' = Raise EUsage w') /\
    ctx_stop c' w' = Raise EUsage w' /\
    (forall i, call w' i = OSkip \/ call w' i = OExc EDelivery).
Proof. exact stop_reclaims. Qed.
Print Assumptions C12_stop_reclaims.

(* ... in the demanded behaviour for ALL faults, of every class *)
Theorem C12_stop_reclaims_all_faults : forall w c,
  Inv w -> vr w = Fixed -> cur w = Some c -> active c = true ->
  exists w' c', ctx_stop c w = Ret w' /\ cur w' = Some c' /\
    (forall o, In o (live_oids (objmap c)) -> count_occ Nat.eq_dec (rel w') o = 1) /\
    rel w' = rel w ++ live_oids (objmap c) /\
    hruns w' = hruns w ++ map fst (shs c) /\
    objmap c' = [] /\ handlers c' = [] /\ cthreads c' = [] /\
    router c' = false /\ tcp c' = false /\ udp c' = false /\ conn c' = false /\ active c' = false /\
    (forall f, ctx_start c' f w' = Raise EUsage w') /\
    ctx_stop c' w' = Raise EUsage w' /\
    (forall i, call w' i = OSkip \/ call w' i = OExc EDelivery).
Proof. exact stop_reclaims_all_faults. Qed.
Print Assumptions C12_stop_reclaims_all_faults.

(* the tree as it is: QMI_Context.stop() catches only Exception around a stop handler; a handler raising a
   BaseException that is not an Exception (SystemExit, KeyboardInterrupt, ...) aborts stop(): the context stays
   active, its objects alive and unreleased, later handlers do not run *)
Theorem C12_stop_handler_baseexception_refuted :
  let r := run (init Direct Tree) [New; CStart FNone; Make 1 KObj true true; AddH HBase; AddH HOk; CStop] in
  snd r = [OOk; OOk; OOk; OOk; OOk; OExc EBase] /\ rel (fst r) = [] /\ hruns (fst r) = [0] /\
  match cur (fst r) with Some c => active c = true /\ cthreads c = [0; 1] /\ router c = true | None => False end.
Proof. exact stop_handler_base_refuted. Qed.
Print Assumptions C12_stop_handler_baseexception_refuted.

(* a failed QMI_Context.start (TCP bind, UDP bind, port still held) in the demanded behaviour: everything
   it built is reclaimed and a NEW context can be created and started *)
Theorem C12_failed_start : forall w c f,
  Inv w -> vr w <> Current -> cur w = Some c -> active c = false -> used c = false -> router c = false ->
  start_fails f w = true ->
  exists w', ctx_start c f w = Raise EOSError w' /\
    (exists c', cur w' = Some c' /\ objmap c' = [] /\ handlers c' = [] /\ cthreads c' = [] /\
                router c' = false /\ tcp c' = false /\ udp c' = false /\ conn c' = false /\ active c' = false) /\
    (forall o, In o (live_oids (objmap c)) -> count_occ Nat.eq_dec (rel w') o = 1) /\
    exists w1 c1 w2, new_ctx w' = Ret w1 /\ cur w1 = Some c1 /\ ctx_start c1 FNone w1 = Ret w2.
Proof. exact failed_start_direct. Qed.
Print Assumptions C12_failed_start.

(* the same at the qmi.start() level, demanded behaviour: after a failed qmi.start (any fault) the singleton
   is reset, no context is held, no port is held, and the next qmi.start succeeds *)
Theorem C12_failed_start_singleton_fixed : forall w f p e w',
  Inv w -> md w = Single -> vr w <> Current -> reg w = false -> qstart f p w = Raise e w' ->
  (reg w' = false /\ cur w' = None /\ lport w' = false) /\
  forall p', exists w'', qstart FNone p' w' = Ret w''.
Proof. exact failed_start_singleton_fixed. Qed.
Print Assumptions C12_failed_start_singleton_fixed.

(* the tree before the failed-start repair: qmi.start with the TCP port in use raises, and after that EVERY later qmi.start and
   qmi.stop of EVERY continuation is a usage error: the process can never start a context again *)
Theorem C12_failed_start_singleton_refuted :
  exists o, snd (step (init Single Current) o) = OExc EOSError /\
    forall ops,
      Forall2 (fun o x => (forall f p, o = QStart f p -> x = OExc EUsage) /\ (o = QStop -> x = OExc EUsage))
              ops (snd (run (fst (step (init Single Current) o)) ops)).
Proof. exact failed_start_singleton_refuted. Qed.
Print Assumptions C12_failed_start_singleton_refuted.

(* Non-vacuity: concrete histories *)
Example C12_example_lifecycle :
  snd (run (init Single Fixed)
        [QStart FNone true; Make 1 KObj true true; Make 1 KInst true true; Make 2 KTask false true;
         Make 2 KTask true false; AddH HExc; AddH HOk; Call 0; Remove 1; Call 0; QStop; Call 1; QStop;
         QStart FTcp false; QStart FNone false])
  = [OOk; OOk; OExc EDup; OExc ECtor; OOk; OOk; OOk; OVal 1; OOk; OExc EDelivery; OOk; OExc EDelivery;
     OExc ENoActive; OExc EOSError; OOk].
Proof. vm_compute. reflexivity. Qed.

Example C12_example_stop_state :
  let w := fst (run (init Direct Fixed)
                 [New; CStart FNone; Make 1 KObj true false; Make 2 KTask true false; AddH HExc; AddH HOk; CStop]) in
  rel w = [0; 1; 2] /\ hruns w = [0; 1] /\
  match cur w with Some c => objmap c = [] /\ cthreads c = [] /\ active c = false | None => False end.
Proof. vm_compute. repeat split. Qed.

Example C12_example_current_tree :
  snd (run (init Single Current) [QStart FTcp false; QStart FNone false; QStop])
  = [OExc EOSError; OExc EUsage; OExc EUsage].
Proof. vm_compute. reflexivity. Qed.

(* ================= concurrent clause: remove / make in a second thread racing with stop() ================= *)
(* Interleaving model of ConcModel.v (atomic regions of remove_rpc_object, _internal_make_rpc_object and
   _stop_rpc_objects).  The theorems hold for EVERY interleaving (schedules of any shape) of the finitely many
   instances listed: populations [$context], [$context,o1], [$context,o1,o2], [$context,o2,o1]; the other thread's
   target = each of the names 0..3 (live or absent); constructor succeeding / raising.  The bound is in the statement. *)
Require Import QV.Lib.LTS QV.C12.ConcModel QV.C12.ConcProofs.

(* remove_rpc_object || stop: nothing is ever released twice; when both have finished stop() succeeded, the remover
   succeeded or got the unknown-name error, every object was released exactly once, no thread, handler or map entry
   is left; and until then somebody can always move (no deadlock).  Holds with the handler registered inside or
   outside the publishing region. *)
Theorem C12_conc_remove_stop : forall c order, In (c, order) remove_instances ->
  forall s, Reachable c order R0 s ->
    safe s = true /\ (done s = true -> good_final s = true) /\ (done s = false -> succ c s <> []).
Proof. exact conc_remove_stop. Qed.
Print Assumptions C12_conc_remove_stop.

(* make_rpc_object / make_task || stop, with the handler registered inside the publishing region (the proposed
   repair): same conclusion; the maker succeeds, or fails with invalid-operation / duplicate-name / its own
   constructor error, and an object whose constructor ran is released exactly once *)
Theorem C12_conc_make_stop_repaired : forall c order, In (c, order) make_instances ->
  forall s, Reachable c order M0 s ->
    safe s = true /\ (done s = true -> good_final s = true) /\ (done s = false -> succ c s <> []).
Proof. exact conc_make_stop. Qed.
Print Assumptions C12_conc_make_stop_repaired.

(* the tree as it is (handler registered after the publishing region): there is an interleaving in which stop()
   itself fails and the new object stays alive and unreleased *)
Theorem C12_conc_make_stop_refuted :
  exists s, Reachable (mkCfg false false 1 true) [0] M0 s /\ done s = true /\ good_final s = false /\
            pa s = ADone false /\ thr (getob s 1) = true /\ relc (getob s 1) = 0.
Proof. exact conc_make_stop_current_refuted. Qed.
Print Assumptions C12_conc_make_stop_refuted.

(* sensitivity of the model: if stop also dropped the reservations (`_rpc_object_map.clear()`), a racing remove
   would fail with an unrelated error and leave its object unreleased *)
Theorem C12_conc_remove_stop_if_reservations_dropped_refuted :
  exists s, Reachable (mkCfg true true 1 true) [0; 1] R0 s /\ done s = true /\ good_final s = false /\
            pb s = BDone BOther /\ thr (getob s 1) = true /\ relc (getob s 1) = 0.
Proof. exact conc_remove_stop_clear_refuted. Qed.
Print Assumptions C12_conc_remove_stop_if_reservations_dropped_refuted.

Example C12_conc_example_instances : length remove_instances = 32 /\ length make_instances = 32.
Proof. vm_compute. split; reflexivity. Qed.

(* ================= calls through a proxy racing with remove_rpc_object / stop ================================ *)
(* Interleaving model of CallModel.v: callers, the thread that removes the object / stops the context, the object's
   worker thread.  In the model the hand-over of a request (running check + push into the worker's queue) is ONE region
   under _stop_lock.  The theorems hold for every interleaving of the listed instances: remove and stop (with its sweep
   of unanswered futures), each with 1 and 2 concurrent callers. *)
Require Import QV.C12.CallModel QV.C12.CallProofs.

(* in every reachable state: an accepted request without outcome is in the worker's queue; the queue of an ended worker
   is empty; a request is executed at most once and a value implies exactly one execution; when everybody has finished
   every call has an outcome, the handler is gone, the object was released exactly once; until then somebody can move *)
Theorem C12_call_vs_stop : forall c k, In (c, k) call_instances ->
  forall s, CallProofs.Reachable c k s ->
    accepted_pending s = true /\ ended_worker_queue_empty s = true /\ exec_ok s = true /\
    (all_done s = true -> CallModel.good_final s = true) /\ (all_done s = false -> CallModel.succ c s <> []).
Proof. exact call_vs_stop. Qed.
Print Assumptions C12_call_vs_stop.

(* a request accepted by handle_message is executed or answered with an error reply before the worker thread ends:
   once the worker has ended no accepted request is without outcome (none is left in the queue of an ended worker) *)
Theorem C12_accepted_request_answered : forall c k, In (c, k) call_instances ->
  forall s, CallProofs.Reachable c k s -> walive s = false ->
  forall i, i < length (cs s) -> CallModel.pc (getc s i) = CWait -> res (getc s i) <> None.
Proof. exact accepted_request_answered. Qed.
Print Assumptions C12_accepted_request_answered.

(* if the push happens outside the region of the running check (hand-over not serialised against stop): a reachable
   state in which remove_rpc_object has returned, the worker has ended, the request sits in its queue, the call has no
   outcome and nobody can move *)
Theorem C12_handover_outside_region_refuted :
  exists s, CallProofs.Reachable (CallModel.mkCfg false false) 1 s /\
    sp s = SDone /\ walive s = false /\ queue s = [0] /\ CallModel.pc (getc s 0) = CWait /\ res (getc s 0) = None /\
    CallModel.succ (CallModel.mkCfg false false) s = [].
Proof. exact handover_outside_region_refuted. Qed.
Print Assumptions C12_handover_outside_region_refuted.

(* ================= the task population at remove_rpc_object / stop ============================================== *)
(* TaskPop.v: tasks abstracted to (condition variable they block on, stop flag, ended); tasks consuming from one shared
   receiver share the condition variable.  The release step of a task runner = stop_task + join.
   [honours] is the explicit assumption "a task woken with its stop flag set ends": property C11 (C11_released,
   C11_wait_after_stop, C11_no_deadlock) + the task's code blocks only in QMI's own stoppable waits. *)
Require QV.C12.TaskPop.

(* for EVERY population of tasks (any number, any sharing of condition variables, any other waiters) and EVERY order of
   removing / stopping them: every release step returns (stop_seq = Some ...) and every task stopped has ended *)
Theorem C12_task_population_stops : forall (honours : nat -> bool), (forall i, honours i = true) ->
  forall order s, (forall i, In i order -> i < length (TaskPop.tasks s)) ->
  exists s', TaskPop.stop_seq honours TaskPop.NotifyAll order s = Some s' /\
    length (TaskPop.tasks s') = length (TaskPop.tasks s) /\
    (forall i, In i order -> TaskPop.ended (TaskPop.getT s' i) = true) /\
    (forall j, j < length (TaskPop.tasks s) -> TaskPop.ended (TaskPop.getT s j) = true -> TaskPop.ended (TaskPop.getT s' j) = true).
Proof. exact TaskPop.stop_seq_all_terminates. Qed.
Print Assumptions C12_task_population_stops.

(* stop of a context with objects AND running tasks: the context-level tables are reclaimed (C12_stop_reclaims) and the
   release steps of its task runners all return, under the stated assumption on the tasks *)
Theorem C12_stop_reclaims_objects_and_tasks : forall w c (honours : nat -> bool) order p,
  Inv w -> cur w = Some c -> active c = true -> all_caught w c = true ->
  (forall i, honours i = true) -> (forall i, In i order -> i < length (TaskPop.tasks p)) ->
  (exists w' c', ctx_stop c w = Ret w' /\ cur w' = Some c' /\
     (forall o, In o (live_oids (objmap c)) -> count_occ Nat.eq_dec (rel w') o = 1) /\
     objmap c' = [] /\ handlers c' = [] /\ cthreads c' = [] /\ router c' = false /\ active c' = false) /\
  (exists p', TaskPop.stop_seq honours TaskPop.NotifyAll order p = Some p' /\
     forall i, In i order -> TaskPop.ended (TaskPop.getT p' i) = true).
Proof. exact stop_reclaims_objects_and_tasks. Qed.
Print Assumptions C12_stop_reclaims_objects_and_tasks.

(* waking only one waiter (notify instead of notify_all): two tasks on one receiver, the younger waiter is stopped first:
   its release step never returns *)
Theorem C12_task_population_notify_one_refuted :
  TaskPop.stop_seq (fun _ => true) TaskPop.NotifyOne [0; 1]
    (TaskPop.mkP [TaskPop.mkT 7 false false; TaskPop.mkT 7 false false] [(7, Some 1); (7, Some 0)]) = None.
Proof. exact TaskPop.notify_one_refuted. Qed.
Print Assumptions C12_task_population_notify_one_refuted.
