Require Import QV.C12.Model QV.C12.Proofs.
Theorem C12_placeholder : True.
Proof. exact placeholder. Qed.
Print Assumptions C12_placeholder.
