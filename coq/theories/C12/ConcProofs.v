(* C12, concurrent clause: reflection proofs on the finite interleaving model of ConcModel.v. *)
Require Import QV.Lib.LTS QV.C12.ConcModel.

Definition state_eq_dec (a b : state) : {a = b} + {a <> b}.
Proof. repeat decide equality. Defined.
Definition state_eqb (a b : state) : bool := if state_eq_dec a b then true else false.
Lemma state_eqb_sound a b : state_eqb a b = true -> a = b.
Proof. unfold state_eqb. destruct (state_eq_dec a b); [auto | discriminate]. Qed.

Definition Reachable (c : cfg) (order : list nat) (b : bstate) : state -> Prop :=
  Reach state (succ c) (start order b).

Definition reach_set (c : cfg) (order : list nat) (b : bstate) : list state :=
  explore state state_eqb (succ c) (start order b) 60.

(* all the properties checked on every reachable state *)
Definition inv_all (c : cfg) (s : state) : bool :=
  safe s &&                                              (* nothing is released twice, ever *)
  (if done s then good_final s else true) &&             (* both finished -> everything reclaimed, B's error is a QMI one *)
  (done s || negb (match succ c s with [] => true | _ => false end)).   (* otherwise somebody can move: no deadlock *)

Definition check (c : cfg) (order : list nat) (b : bstate) : bool :=
  let l := reach_set c order b in
  closed state state_eqb (succ c) (start order b) l && forallb (inv_all c) l.

Lemma check_sound c order b : check c order b = true ->
  forall s, Reachable c order b s -> inv_all c s = true.
Proof.
  unfold check. intros H s R. apply andb_true_iff in H as [Hc Hi].
  exact (closed_set_invariant state state_eqb state_eqb_sound (succ c) (start order b) _ (inv_all c) Hc Hi s R).
Qed.

(* ---- the instances ---------------------------------------------------------------------------------- *)
(* populations: "$context" alone, with one, with two more objects (names 1, 2); B's target: every live name and
   one absent name (3) *)
Definition orders : list (list nat) := [[0]; [0; 1]; [0; 1; 2]; [0; 2; 1]].
Definition targets : list nat := [0; 1; 2; 3].
Definition bools := [true; false].

Definition remove_instances : list (cfg * list nat) :=
  flat_map (fun o => flat_map (fun x => map (fun ra => (mkCfg ra false x true, o)) bools) targets) orders.
Definition make_instances : list (cfg * list nat) :=
  flat_map (fun o => flat_map (fun x => map (fun ck => (mkCfg true false x ck, o)) bools) targets) orders.

Lemma remove_checked : forallb (fun i => check (fst i) (snd i) R0) remove_instances = true.
Proof. vm_compute. reflexivity. Qed.
Lemma make_checked : forallb (fun i => check (fst i) (snd i) M0) make_instances = true.
Proof. vm_compute. reflexivity. Qed.

Lemma conc_remove_stop : forall c order, In (c, order) remove_instances ->
  forall s, Reachable c order R0 s ->
    safe s = true /\ (done s = true -> good_final s = true) /\ (done s = false -> succ c s <> []).
Proof.
  intros c order Hin s R. pose proof remove_checked as H. rewrite forallb_forall in H.
  specialize (H (c, order) Hin). simpl in H. pose proof (check_sound c order R0 H s R) as K.
  unfold inv_all in K. apply andb_true_iff in K as [K K3]. apply andb_true_iff in K as [K1 K2].
  split; [exact K1|]. split.
  - intros D. rewrite D in K2. exact K2.
  - intros D. rewrite D in K3. simpl in K3. destruct (succ c s); [discriminate | discriminate].
Qed.

Lemma conc_make_stop : forall c order, In (c, order) make_instances ->
  forall s, Reachable c order M0 s ->
    safe s = true /\ (done s = true -> good_final s = true) /\ (done s = false -> succ c s <> []).
Proof.
  intros c order Hin s R. pose proof make_checked as H. rewrite forallb_forall in H.
  specialize (H (c, order) Hin). simpl in H. pose proof (check_sound c order M0 H s R) as K.
  unfold inv_all in K. apply andb_true_iff in K as [K K3]. apply andb_true_iff in K as [K1 K2].
  split; [exact K1|]. split.
  - intros D. rewrite D in K2. exact K2.
  - intros D. rewrite D in K3. simpl in K3. destruct (succ c s); [discriminate | discriminate].
Qed.

(* ---- schedules are paths ---------------------------------------------------------------------------- *)
Lemma reach_exec c order b sched : forall s, Reachable c order b s -> Reachable c order b (exec c sched s).
Proof.
  induction sched as [|w r IH]; intros s R; simpl; [exact R|].
  destruct w.
  - destruct (stepA c s) as [[s' l]|] eqn:E; [|apply IH; exact R].
    apply IH. eapply Reach_step; [exact R|]. unfold succ. rewrite E. simpl. left. reflexivity.
  - destruct (stepB c s) as [[s' l]|] eqn:E; [|apply IH; exact R].
    apply IH. eapply Reach_step; [exact R|]. unfold succ. rewrite E. simpl.
    apply in_or_app. right. left. reflexivity.
Qed.

(* the tree as it is (handler registered after the publishing region): a make racing with stop can make stop()
   fail and leave the new object alive and unreleased *)
Lemma conc_make_stop_current_refuted :
  exists s, Reachable (mkCfg false false 1 true) [0] M0 s /\ done s = true /\ good_final s = false /\
            pa s = ADone false /\ thr (getob s 1) = true /\ relc (getob s 1) = 0.
Proof.
  exists (exec (mkCfg false false 1 true) [false; false; false; true; true; true; true; false] (start [0] M0)).
  split; [apply reach_exec; apply Reach_init|]. vm_compute. repeat split; reflexivity.
Qed.

(* stop dropping the reservations (`_rpc_object_map.clear()`): the remover fails with an unrelated exception and the
   object is never released *)
Lemma conc_remove_stop_clear_refuted :
  exists s, Reachable (mkCfg true true 1 true) [0; 1] R0 s /\ done s = true /\ good_final s = false /\
            pb s = BDone BOther /\ thr (getob s 1) = true /\ relc (getob s 1) = 0.
Proof.
  exists (exec (mkCfg true true 1 true) [false; false; true; false; true; true] (start [0; 1] R0)).
  split; [apply reach_exec; apply Reach_init|]. vm_compute. repeat split; reflexivity.
Qed.
