(* C12 — lemmas.  Invariant linking the object map, the handler map and the worker threads; exact
   characterisation of stop and of the failed-start paths; preservation by every operation. *)
Require Import QV.C12.Model.
From Coq Require Import Lia.

(* ---------- list facts ---------------------------------------------------------------------- *)
Lemma memn_In x l : memn x l = true <-> In x l.
Proof.
  unfold memn. rewrite existsb_exists. split.
  - intros [y [H1 H2]]. apply Nat.eqb_eq in H2. subst. exact H1.
  - intros H. exists x. split; [exact H | apply Nat.eqb_refl].
Qed.
Lemma memn_false x l : memn x l = false <-> ~ In x l.
Proof. rewrite <- memn_In. destruct (memn x l); split; congruence. Qed.

Lemma In_remn y x l : In y (remn x l) <-> In y l /\ x <> y.
Proof.
  unfold remn. rewrite filter_In. rewrite negb_true_iff, Nat.eqb_neq. tauto.
Qed.
Lemma remn_notin x l : ~ In x l -> remn x l = l.
Proof.
  induction l as [|y l IH]; intros H; simpl; [reflexivity|].
  destruct (Nat.eqb x y) eqn:E.
  - apply Nat.eqb_eq in E. subst. exfalso. apply H. left. reflexivity.
  - simpl. f_equal. apply IH. intros K. apply H. right. exact K.
Qed.
Lemma remn_head x l : ~ In x l -> remn x (x :: l) = l.
Proof. intros H. simpl. rewrite Nat.eqb_refl. simpl. apply remn_notin. exact H. Qed.
Lemma remn_app_last x l : ~ In x l -> remn x (l ++ [x]) = l.
Proof.
  intros H. unfold remn. rewrite filter_app. simpl. rewrite Nat.eqb_refl. simpl.
  rewrite app_nil_r. apply remn_notin. exact H.
Qed.
Lemma NoDup_remn x l : NoDup l -> NoDup (remn x l).
Proof. intros H. unfold remn. apply NoDup_filter. exact H. Qed.

Lemma names_app m1 m2 : names (m1 ++ m2) = names m1 ++ names m2.
Proof. unfold names. apply map_app. Qed.
Lemma live_oids_app m1 m2 : live_oids (m1 ++ m2) = live_oids m1 ++ live_oids m2.
Proof. induction m1 as [|[k [|o]] m1 IH]; simpl; congruence. Qed.
Lemma reserved_app m1 m2 : reserved_entries (m1 ++ m2) = reserved_entries m1 ++ reserved_entries m2.
Proof. induction m1 as [|[k [|o]] m1 IH]; simpl; congruence. Qed.

Lemma remk_notin n m : ~ In n (names m) -> remk n m = m.
Proof.
  induction m as [|[k v] m IH]; intros H; simpl; [reflexivity|].
  destruct (Nat.eqb n k) eqn:E.
  - apply Nat.eqb_eq in E. subst. exfalso. apply H. left. reflexivity.
  - simpl. f_equal. apply IH. intros K. apply H. right. exact K.
Qed.
Lemma remk_app_last n s m : ~ In n (names m) -> remk n (m ++ [(n, s)]) = m.
Proof.
  intros H. unfold remk. rewrite filter_app. simpl. rewrite Nat.eqb_refl. simpl.
  rewrite app_nil_r. apply remk_notin. exact H.
Qed.
Lemma setk_notin n v m : ~ In n (names m) -> setk n v m = m.
Proof.
  induction m as [|[k x] m IH]; intros H; simpl; [reflexivity|].
  destruct (Nat.eqb n k) eqn:E.
  - apply Nat.eqb_eq in E. subst. exfalso. apply H. left. reflexivity.
  - f_equal. apply IH. intros K. apply H. right. exact K.
Qed.
Lemma setk_app_last n s v m : ~ In n (names m) -> setk n v (m ++ [(n, s)]) = m ++ [(n, v)].
Proof.
  intros H. unfold setk. rewrite map_app. simpl. rewrite Nat.eqb_refl. f_equal.
  apply setk_notin. exact H.
Qed.
Lemma remk_setk n v m : remk n (setk n v m) = remk n m.
Proof.
  induction m as [|[k x] m IH]; simpl; [reflexivity|].
  destruct (Nat.eqb n k) eqn:E; simpl; rewrite E; simpl; congruence.
Qed.
Lemma names_remk n m : names (remk n m) = remn n (names m).
Proof.
  induction m as [|[k x] m IH]; simpl; [reflexivity|].
  destruct (Nat.eqb n k); simpl; congruence.
Qed.
Lemma reserved_remk n m : reserved_entries m = [] -> reserved_entries (remk n m) = [].
Proof.
  induction m as [|[k [|o]] m IH]; simpl; intros H; try discriminate; [reflexivity|].
  destruct (Nat.eqb n k); simpl; auto.
Qed.
Lemma lookup_In n m s : lookup n m = Some s -> In (n, s) m.
Proof.
  induction m as [|[k x] m IH]; simpl; [discriminate|].
  destruct (Nat.eqb n k) eqn:E; intros H.
  - apply Nat.eqb_eq in E. inversion H. subst. left. reflexivity.
  - right. apply IH. exact H.
Qed.
Lemma lookup_None n m : lookup n m = None <-> ~ In n (names m).
Proof.
  induction m as [|[k x] m IH]; simpl; [tauto|].
  destruct (Nat.eqb n k) eqn:E.
  - apply Nat.eqb_eq in E. subst. split; [discriminate | intros H; exfalso; apply H; left; reflexivity].
  - apply Nat.eqb_neq in E. rewrite IH. split; intros H.
    + intros [K|K]; [congruence | tauto].
    + intros K. apply H. right. exact K.
Qed.
Lemma live_In_oids n o m : In (n, Live o) m -> In o (live_oids m).
Proof.
  induction m as [|[k [|o']] m IH]; simpl; intros H; [tauto| |].
  - destruct H as [H|H]; [discriminate | auto].
  - destruct H as [H|H]; [inversion H; left; reflexivity | right; auto].
Qed.
Lemma live_oids_remk n o m :
  lookup n m = Some (Live o) -> NoDup (names m) -> NoDup (live_oids m) ->
  live_oids (remk n m) = remn o (live_oids m).
Proof.
  induction m as [|[k x] m IH]; simpl; [discriminate|].
  intros L ND1 ND2. inversion ND1 as [|? ? Hk ND1']; subst.
  destruct (Nat.eqb n k) eqn:E.
  - apply Nat.eqb_eq in E. subst k. inversion L; subst x. simpl.
    inversion ND2 as [|? ? Ho ND2']; subst. rewrite Nat.eqb_refl. simpl.
    rewrite remk_notin by exact Hk. symmetry. apply remn_notin. exact Ho.
  - simpl. destruct x as [|o'].
    + apply IH; assumption.
    + inversion ND2 as [|? ? Ho ND2']; subst. simpl.
      assert (o <> o') as Hne.
      { intros ->. apply Ho. apply live_In_oids with n. apply lookup_In. exact L. }
      apply Nat.eqb_neq in Hne. rewrite Hne. simpl. f_equal. apply IH; assumption.
Qed.
Lemma live_entries_fst m : reserved_entries m = [] -> map fst (live_entries m) = names m.
Proof. induction m as [|[k [|o]] m IH]; simpl; intros H; try discriminate; [reflexivity | f_equal; auto]. Qed.
Lemma live_entries_snd m : map snd (live_entries m) = live_oids m.
Proof. induction m as [|[k [|o]] m IH]; simpl; congruence. Qed.

(* ---------- explicit effects on the logs --------------------------------------------------------- *)
Definition relapp (l : list nat) (w : world) : world :=
  mkW (md w) (vr w) (cur w) (reg w) (nextoid w) (nextcid w) (nexth w) (rel w ++ l) (relfail w) (tasks w) (hruns w)
      (proxies w) (created w) (leaked w) (lrpc w) (lev w) (lport w) (ludp w).
Definition hrunapp (l : list nat) (w : world) : world :=
  mkW (md w) (vr w) (cur w) (reg w) (nextoid w) (nextcid w) (nexth w) (rel w) (relfail w) (tasks w) (hruns w ++ l)
      (proxies w) (created w) (leaked w) (lrpc w) (lev w) (lport w) (ludp w).

Lemma world_eta w :
  mkW (md w) (vr w) (cur w) (reg w) (nextoid w) (nextcid w) (nexth w) (rel w) (relfail w) (tasks w) (hruns w)
      (proxies w) (created w) (leaked w) (lrpc w) (lev w) (lport w) (ludp w) = w.
Proof. destruct w; reflexivity. Qed.
Lemma relapp_nil w : relapp [] w = w.
Proof. unfold relapp. rewrite app_nil_r. apply world_eta. Qed.
Lemma hrunapp_nil w : hrunapp [] w = w.
Proof. unfold hrunapp. rewrite app_nil_r. apply world_eta. Qed.
Lemma relapp_relapp a b w : relapp b (relapp a w) = relapp (a ++ b) w.
Proof. unfold relapp; simpl. rewrite app_assoc. reflexivity. Qed.
Lemma hrunapp_hrunapp a b w : hrunapp b (hrunapp a w) = hrunapp (a ++ b) w.
Proof. unfold hrunapp; simpl. rewrite app_assoc. reflexivity. Qed.
Lemma relapp_set_ctx l w c : relapp l (set_ctx w c) = set_ctx (relapp l w) c.
Proof. reflexivity. Qed.

(* the release step never escapes the worker thread *)
Lemma catch_release o w : catch (release o w) = Ret (relapp [o] w).
Proof. unfold release, relapp. destruct (memn o (relfail w)); reflexivity. Qed.

Lemma manager_stop_spec c o w :
  manager_stop c o w = Ret (set_ctx (relapp [o] w) (c_threads c (remn o (cthreads c)))).
Proof. unfold manager_stop. rewrite catch_release. reflexivity. Qed.

(* a stop handler that raises does not stop the others *)
Lemma run_handlers_spec hs : forall w, run_handlers hs w = Ret (hrunapp (map fst hs) w).
Proof.
  induction hs as [|[i b] hs IH]; intros w; simpl.
  - rewrite hrunapp_nil. reflexivity.
  - unfold run_handler. simpl. destruct b; simpl; rewrite IH; f_equal;
      (change (hrunapp (map fst hs) (hrunapp [i] w) = hrunapp (i :: map fst hs) w);
       rewrite hrunapp_hrunapp; reflexivity).
Qed.

(* stopping all the managers: every one is unregistered, released once and its thread ends *)
Lemma stop_managers_spec ms : forall w c,
  cur w = Some c -> handlers c = map fst ms -> cthreads c = map snd ms ->
  NoDup (map fst ms) -> NoDup (map snd ms) ->
  stop_managers ms w = Ret (set_ctx (relapp (map snd ms) w) (c_threads (c_handlers c []) [])).
Proof.
  induction ms as [|[n o] ms IH]; intros w c Hc Hh Ht N1 N2; simpl.
  - rewrite relapp_nil. destruct w, c; simpl in *. subst. reflexivity.
  - rewrite Hc. rewrite manager_stop_spec. simpl bind.
    simpl in N1, N2. inversion N1 as [|? ? Hn N1']; inversion N2 as [|? ? Ho N2']; subst.
    erewrite IH; [ | reflexivity | | | exact N1' | exact N2' ].
    + simpl. f_equal. unfold set_ctx, set_cur, relapp; simpl. rewrite <- app_assoc. reflexivity.
    + simpl. rewrite Hh. simpl map. apply remn_head. exact Hn.
    + simpl. rewrite Ht. simpl map. apply remn_head. exact Ho.
Qed.

(* ---------- the invariant ----------------------------------------------------------------------- *)
Record TInv (m : list (nat * slot)) (h t r : list nat) (nx : nat) : Prop := {
  t_nodup : NoDup (names m);                       (* a name maps to at most one object *)
  t_norsv : reserved_entries m = [];                (* no reservation is left between operations *)
  t_hand : h = names m;                             (* handler map = names of the live objects *)
  t_thr : t = live_oids m;                          (* one worker thread per live object *)
  t_lt : Forall (fun o => o < nx) (live_oids m);
  t_onodup : NoDup (live_oids m);
  t_notrel : forall o, In o (live_oids m) -> ~ In o r }.   (* a live object has not been released *)

Record Inv (w : world) : Prop := {
  i_ctx : forall c, cur w = Some c -> TInv (objmap c) (handlers c) (cthreads c) (rel w) (nextoid w);
  i_relnd : NoDup (rel w);                          (* nothing is released twice *)
  i_rellt : Forall (fun o => o < nextoid w) (rel w);
  i_fixed : vr w = Fixed -> lport w = false /\
            forall c, cur w = Some c -> active c = false -> tcp c = false /\ router c = false;
  i_active : forall c, cur w = Some c -> active c = true -> used c = true;
  i_reg : md w = Single -> forall c, cur w = Some c -> active c = true -> reg w = true }.

Lemma TInv_empty r nx : TInv [] [] [] r nx.
Proof. constructor; simpl; auto; try constructor. Qed.

Lemma Inv_init m v : Inv (init m v).
Proof. constructor; simpl; try discriminate; auto; try constructor; auto; discriminate. Qed.

Lemma nodup_app (a b : list nat) :
  NoDup a -> NoDup b -> (forall x, In x b -> ~ In x a) -> NoDup (a ++ b).
Proof.
  induction a as [|x a IH]; intros Ha Hb H; simpl; [exact Hb|].
  inversion Ha as [|? ? Hx Ha']; subst. constructor.
  - rewrite in_app_iff. intros [K|K]; [tauto|]. apply (H x K). left. reflexivity.
  - apply IH; auto. intros y Hy K. apply (H y Hy). right. exact K.
Qed.

(* ---------- reclaim / stop / failed start: exact results ---------------------------------------- *)
Definition emptied (c : ctx) : ctx :=
  mkC (cid c) (active c) (used c) (router c) (tcp c) (udp c) (conn c) [] [] [] (shs c).

Lemma reclaim_spec c w r nx :
  TInv (objmap c) (handlers c) (cthreads c) r nx ->
  reclaim c w = Ret (set_ctx (relapp (live_oids (objmap c)) w) (emptied c)).
Proof.
  intros T. destruct T as [N1 RS H TH LT N2 NR]. unfold reclaim.
  erewrite stop_managers_spec; [ | reflexivity | | | | ].
  - rewrite live_entries_snd. f_equal. unfold set_ctx, set_cur, relapp, emptied. simpl. rewrite RS. reflexivity.
  - simpl. rewrite live_entries_fst by exact RS. exact H.
  - simpl. rewrite live_entries_snd. exact TH.
  - rewrite live_entries_fst by exact RS. exact N1.
  - rewrite live_entries_snd. exact N2.
Qed.

Definition stopped_ctx (c : ctx) : ctx :=
  mkC (cid c) false (used c) false false false false [] [] [] (shs c).
Definition stopped_world (c : ctx) (w : world) : world :=
  set_ctx (relapp (live_oids (objmap c)) (hrunapp (map fst (shs c)) w)) (stopped_ctx c).

Lemma ctx_stop_spec c w r nx :
  TInv (objmap c) (handlers c) (cthreads c) r nx -> active c = true ->
  ctx_stop c w = Ret (stopped_world c w).
Proof.
  intros T A. unfold ctx_stop. rewrite A. simpl negb. cbv iota.
  rewrite run_handlers_spec. simpl bind.
  erewrite reclaim_spec; [reflexivity | simpl; exact T].
Qed.

Lemma ctx_stop_inactive c w : active c = false -> ctx_stop c w = Raise EUsage w.
Proof. intros A. unfold ctx_stop. rewrite A. reflexivity. Qed.

(* the context a failed start leaves in the Fixed variant: same as a stopped one, and used up *)
Definition aborted_ctx (c : ctx) : ctx :=
  mkC (cid c) false true false false false false [] [] [] (shs c).
Definition aborted_world (c : ctx) (w : world) : world :=
  set_ctx (relapp (live_oids (objmap c)) w) (aborted_ctx c).

Definition start_fails (f : fault) (w : world) : bool :=
  match f with FTcp => true | FUdp => true | _ => lport w end.

Lemma ctx_start_fixed_fail c f w r nx :
  TInv (objmap c) (handlers c) (cthreads c) r nx ->
  active c = false -> used c = false -> router c = false -> vr w = Fixed -> start_fails f w = true ->
  ctx_start c f w = Raise EOSError (aborted_world c w).
Proof.
  intros T A U R V F. unfold ctx_start. rewrite A, U, R, V.
  assert (forall cx, objmap cx = objmap c -> handlers cx = handlers c -> cthreads cx = cthreads c ->
                     cid cx = cid c -> shs cx = shs c ->
          match reclaim (c_flags (router_stop cx) false true) (set_ctx w (c_flags (router_stop cx) false true)) with
          | Ret w' => Raise EOSError w' | Raise e w' => Raise e w' end = Raise EOSError (aborted_world c w)) as K.
  { intros cx E1 E2 E3 E4 E5. erewrite reclaim_spec; [ | simpl; rewrite E1, E2, E3; exact T ].
    unfold aborted_world, aborted_ctx, emptied, set_ctx, set_cur, relapp. simpl. rewrite E1, E4, E5. reflexivity. }
  unfold start_fails in F.
  destruct f; simpl.
  - rewrite F. apply K; reflexivity.
  - apply K; reflexivity.
  - destruct (lport w); apply K; reflexivity.
  - rewrite F. apply K; reflexivity.
Qed.

Definition started_ctx (c : ctx) : ctx :=
  mkC (cid c) true true true true true false (objmap c) (handlers c) (cthreads c) (shs c).

Lemma ctx_start_ok c f w :
  active c = false -> used c = false -> router c = false -> start_fails f w = false ->
  ctx_start c f w = Ret (set_ctx w (started_ctx c)).
Proof.
  intros A U R F. unfold ctx_start. rewrite A, U, R. unfold start_fails in F.
  destruct f; try discriminate; simpl; rewrite F; reflexivity.
Qed.

(* ---------- make: exact results ------------------------------------------------------------------ *)
Lemma notin_lt o l : Forall (fun x => x < o) l -> ~ In o l.
Proof. intros F K. rewrite Forall_forall in F. specialize (F o K). lia. Qed.

Lemma rollback_spec c n o :
  ~ In n (names (objmap c)) -> ~ In o (cthreads c) ->
  rollback (spawn (reserve c n) o) n o = c.
Proof.
  intros Hn Ho. unfold rollback, spawn, reserve. destruct c; simpl in *.
  rewrite remn_app_last by exact Ho. rewrite remk_app_last by exact Hn. reflexivity.
Qed.

Definition published (c : ctx) (n o : nat) : ctx :=
  mkC (cid c) (active c) (used c) (router c) (tcp c) (udp c) (conn c)
      (objmap c ++ [(n, Live o)]) (handlers c ++ [n]) (cthreads c ++ [o]) (shs c).

Lemma publish_spec c n o :
  ~ In n (names (objmap c)) -> publish (spawn (reserve c n) o) n o = published c n o.
Proof.
  intros Hn. unfold publish, spawn, reserve, published. destruct c; simpl in *.
  rewrite setk_app_last by exact Hn. reflexivity.
Qed.

Lemma TInv_published m h t r nx n :
  TInv m h t r nx -> ~ In n (names m) -> Forall (fun o => o < nx) r ->
  TInv (m ++ [(n, Live nx)]) (h ++ [n]) (t ++ [nx]) r (S nx).
Proof.
  intros [N1 RS H TH LT N2 NR] Hn RL. constructor.
  - rewrite names_app. simpl. apply nodup_app; auto.
    + constructor; [intros [] | constructor].
    + intros x [<-|[]]. exact Hn.
  - rewrite reserved_app. simpl. rewrite RS. reflexivity.
  - rewrite names_app. simpl. congruence.
  - rewrite live_oids_app. simpl. congruence.
  - rewrite live_oids_app. apply Forall_app. split.
    + eapply Forall_impl; [|exact LT]. simpl. intros; lia.
    + constructor; [lia | constructor].
  - rewrite live_oids_app. simpl. apply nodup_app; auto.
    + constructor; [intros [] | constructor].
    + intros x [<-|[]]. apply notin_lt. exact LT.
  - intros o. rewrite live_oids_app, in_app_iff. simpl. intros [K|[<-|[]]].
    + apply NR. exact K.
    + apply notin_lt. exact RL.
Qed.

Lemma TInv_weaken m h t r nx : TInv m h t r nx -> TInv m h t r (S nx).
Proof.
  intros [N1 RS H TH LT N2 NR]. constructor; auto.
  eapply Forall_impl; [|exact LT]. simpl. intros; lia.
Qed.

Lemma TInv_removed m h t r nx n o :
  TInv m h t r nx -> lookup n m = Some (Live o) ->
  TInv (remk n m) (remn n h) (remn o t) (r ++ [o]) nx.
Proof.
  intros [N1 RS H TH LT N2 NR] L. constructor.
  - rewrite names_remk. apply NoDup_remn. exact N1.
  - apply reserved_remk. exact RS.
  - rewrite names_remk. congruence.
  - rewrite TH. symmetry. apply live_oids_remk; assumption.
  - rewrite (live_oids_remk n o) by assumption. rewrite Forall_forall in *. intros x Hx.
    apply In_remn in Hx. apply LT. tauto.
  - rewrite (live_oids_remk n o) by assumption. apply NoDup_remn. exact N2.
  - intros x. rewrite (live_oids_remk n o) by assumption. intros Hx. apply In_remn in Hx.
    rewrite in_app_iff. simpl. intros [K|[K|[]]]; [apply (NR x); tauto | tauto].
Qed.

(* ---------- every primitive preserves the invariant ------------------------------------------------ *)
Ltac inv_some := match goal with H : Some _ = Some _ |- _ => inversion H; subst; clear H end.

Lemma inv_internal_make c n k a b w :
  Inv w -> cur w = Some c -> Inv (wof (internal_make c n k a b w)).
Proof.
  intros I Hc. pose proof (i_ctx _ I _ Hc) as T. unfold internal_make.
  destruct (negb (active c) && negb (n =? 0)); [exact I|].
  destruct (memn n (names (objmap c))) eqn:M; [exact I|].
  apply memn_false in M.
  assert (~ In (nextoid w) (cthreads c)) as Ho.
  { rewrite (t_thr _ _ _ _ _ T). apply notin_lt. exact (t_lt _ _ _ _ _ T). }
  destruct a; simpl wof.
  - rewrite publish_spec by exact M. destruct I as [IC RN RL IF IA IR]. constructor; simpl.
    + intros c0 H0. inv_some. simpl. apply TInv_published; auto.
    + exact RN.
    + eapply Forall_impl; [|exact RL]. simpl; intros; lia.
    + intros V. destruct (IF V) as [LP HC]. split; [exact LP|]. intros c0 H0 A0. inv_some. simpl in *. exact (HC _ Hc A0).
    + intros c0 H0 A0. inv_some. simpl in *. exact (IA _ Hc A0).
    + intros MS c0 H0 A0. inv_some. simpl in *. exact (IR MS _ Hc A0).
  - rewrite rollback_spec by assumption. destruct I as [IC RN RL IF IA IR]. constructor; simpl.
    + intros c0 H0. inv_some. apply TInv_weaken. exact T.
    + exact RN.
    + eapply Forall_impl; [|exact RL]. simpl; intros; lia.
    + intros V. destruct (IF V) as [LP HC]. split; [exact LP|]. intros c0 H0 A0. inv_some. exact (HC _ Hc A0).
    + intros c0 H0 A0. inv_some. exact (IA _ Hc A0).
    + intros MS c0 H0 A0. inv_some. exact (IR MS _ Hc A0).
Qed.

Lemma inv_make c n k a b w : Inv w -> cur w = Some c -> Inv (wof (make c n k a b w)).
Proof. intros I Hc. unfold make. destruct (negb (valid n)); [exact I | apply inv_internal_make; assumption]. Qed.

Lemma inv_remove c n w : Inv w -> cur w = Some c -> Inv (wof (remove c n w)).
Proof.
  intros I Hc. pose proof (i_ctx _ I _ Hc) as T. unfold remove.
  destruct (lookup n (objmap c)) as [[|o]|] eqn:L; try exact I.
  rewrite manager_stop_spec. simpl wof. destruct I as [IC RN RL IF IA IR]. constructor; simpl.
  - intros c0 H0. inv_some. simpl. rewrite remk_setk. apply TInv_removed; assumption.
  - apply nodup_app; auto.
    + constructor; [intros [] | constructor].
    + intros x [<-|[]]. apply (t_notrel _ _ _ _ _ T). apply live_In_oids with n. apply lookup_In. exact L.
  - apply Forall_app. split; [exact RL|]. constructor; [|constructor].
    pose proof (t_lt _ _ _ _ _ T) as LT. rewrite Forall_forall in LT. apply LT.
    apply live_In_oids with n. apply lookup_In. exact L.
  - intros V. destruct (IF V) as [LP HC]. split; [exact LP|]. intros c0 H0 A0. inv_some. simpl in *. exact (HC _ Hc A0).
  - intros c0 H0 A0. inv_some. simpl in *. exact (IA _ Hc A0).
  - intros MS c0 H0 A0. inv_some. simpl in *. exact (IR MS _ Hc A0).
Qed.

Lemma inv_get c n w : Inv w -> cur w = Some c -> Inv (wof (get c n w)).
Proof.
  intros I Hc. unfold get. destruct (reachable_obj c 0); [|exact I].
  destruct (lookup n (objmap c)) as [[|o]|]; try exact I.
  destruct I as [IC RN RL IF IA IR]. constructor; simpl; auto.
Qed.

Lemma inv_addh c b w : Inv w -> cur w = Some c -> Inv (wof (addh c b w)).
Proof.
  intros I Hc. pose proof (i_ctx _ I _ Hc) as T. destruct I as [IC RN RL IF IA IR]. unfold addh. constructor; simpl; auto.
  - intros c0 H0. inv_some. exact T.
  - intros V. destruct (IF V) as [LP HC]. split; [exact LP|]. intros c0 H0 A0. inv_some. simpl in *. exact (HC _ Hc A0).
  - intros c0 H0 A0. inv_some. simpl in *. exact (IA _ Hc A0).
  - intros MS c0 H0 A0. inv_some. simpl in *. exact (IR MS _ Hc A0).
Qed.

Lemma inv_connect c r w : Inv w -> cur w = Some c -> Inv (wof (connect c r w)).
Proof.
  intros I Hc. pose proof (i_ctx _ I _ Hc) as T. unfold connect.
  destruct (active c) eqn:A; simpl; [|exact I]. destruct r; [|exact I]. destruct (conn c); [exact I|].
  destruct I as [IC RN RL IF IA IR]. simpl. constructor; simpl; auto.
  - intros c0 H0. inv_some. exact T.
  - intros V. destruct (IF V) as [LP HC]. split; [exact LP|]. intros c0 H0 A0. inv_some. simpl in *. congruence.
  - intros c0 H0 A0. inv_some. simpl in *. exact (IA _ Hc A0).
  - intros MS c0 H0 A0. inv_some. simpl in *. exact (IR MS _ Hc A0).
Qed.

Lemma Inv_emptied c c' w l :
  Inv w -> cur w = Some c -> l = live_oids (objmap c) ->
  objmap c' = [] -> handlers c' = [] -> cthreads c' = [] -> active c' = false -> tcp c' = false -> router c' = false ->
  Inv (set_ctx (relapp l w) c').
Proof.
  intros I Hc -> E1 E2 E3 A TC RO. pose proof (i_ctx _ I _ Hc) as T. destruct I as [IC RN RL IF IA IR].
  constructor; simpl.
  - intros c0 H0. inv_some. rewrite E1, E2, E3. apply TInv_empty.
  - apply nodup_app; auto. exact (t_onodup _ _ _ _ _ T). intros x Hx. exact (t_notrel _ _ _ _ _ T x Hx).
  - apply Forall_app. split; [exact RL | exact (t_lt _ _ _ _ _ T)].
  - intros V. destruct (IF V) as [LP HC]. split; [exact LP|]. intros c0 H0 A0. inv_some. auto.
  - intros c0 H0 A0. inv_some. congruence.
  - intros MS c0 H0 A0. inv_some. congruence.
Qed.

Lemma Inv_hrunapp l w : Inv w -> Inv (hrunapp l w).
Proof. intros [IC RN RL IF IA IR]. constructor; simpl; auto. Qed.

Lemma inv_ctx_stop c w : Inv w -> cur w = Some c -> Inv (wof (ctx_stop c w)).
Proof.
  intros I Hc. destruct (active c) eqn:A.
  - erewrite ctx_stop_spec; [ | exact (i_ctx _ I _ Hc) | exact A ]. simpl wof. unfold stopped_world.
    apply Inv_emptied with (c := c); auto. apply Inv_hrunapp. exact I.
  - rewrite ctx_stop_inactive by exact A. exact I.
Qed.

Lemma inv_ctx_start c f w :
  Inv w -> cur w = Some c -> (md w = Single -> reg w = true) -> Inv (wof (ctx_start c f w)).
Proof.
  intros I Hc HR. pose proof (i_ctx _ I _ Hc) as T.
  destruct (active c) eqn:A; [unfold ctx_start; rewrite A; exact I|].
  destruct (used c) eqn:U; [unfold ctx_start; rewrite A, U; exact I|].
  destruct (router c) eqn:R; [unfold ctx_start; rewrite A, U, R; exact I|].
  destruct (start_fails f w) eqn:F.
  - destruct (vr w) eqn:V.
    + erewrite ctx_start_fixed_fail; eauto. simpl wof. unfold aborted_world.
      apply Inv_emptied with (c := c); auto.
    + (* Current: whatever was built stays; only flags and sockets of the context change *)
      assert (forall cx, objmap cx = objmap c -> handlers cx = handlers c -> cthreads cx = cthreads c ->
                         active cx = false -> Inv (set_ctx w cx)) as K.
      { intros cx E1 E2 E3 E4. destruct I as [IC RN RL IF IA IR]. constructor; simpl.
        - intros c0 H0. inv_some. rewrite E1, E2, E3. exact T.
        - exact RN.
        - exact RL.
        - intros V'. congruence.
        - intros c0 H0 A0. inv_some. congruence.
        - intros MS c0 H0 A0. inv_some. congruence. }
      unfold ctx_start. rewrite A, U, R, V. unfold start_fails in F.
      destruct f; simpl; try rewrite F; simpl; try (apply K; try reflexivity; exact A).
      destruct (lport w); simpl; apply K; try reflexivity; exact A.
  - rewrite ctx_start_ok by assumption. simpl wof.
    destruct I as [IC RN RL IF IA IR]. constructor; simpl.
    + intros c0 H0. inv_some. exact T.
    + exact RN.
    + exact RL.
    + intros V. destruct (IF V) as [LP HC]. split; [exact LP|]. intros c0 H0 A0. inv_some. discriminate.
    + intros c0 H0 A0. inv_some. reflexivity.
    + intros MS c0 H0 A0. exact (HR MS).
Qed.

Lemma Inv_set_reg_true w : Inv w -> Inv (set_reg w true).
Proof. intros [IC RN RL IF IA IR]. constructor; simpl; auto. Qed.

Lemma Inv_set_reg_false w :
  Inv w -> (forall c, cur w = Some c -> active c = false) -> Inv (set_reg w false).
Proof.
  intros [IC RN RL IF IA IR] H. constructor; simpl; auto.
  intros MS c Hc A. rewrite (H c Hc) in A. discriminate.
Qed.

Lemma Inv_set_cur_none w : Inv w -> Inv (set_cur w None).
Proof.
  intros [IC RN RL IF IA IR]. constructor; simpl; auto; try discriminate.
  intros V. destruct (IF V) as [LP _]. split; [exact LP | discriminate].
Qed.

Lemma inv_abandon w :
  Inv w -> (forall c, cur w = Some c -> active c = false) -> Inv (abandon w).
Proof.
  intros I H. unfold abandon. destruct (cur w) as [c|] eqn:Hc; [|exact I].
  pose proof (H c eq_refl) as A. destruct I as [IC RN RL IF IA IR]. constructor; simpl; auto; try discriminate.
  intros V. destruct (IF V) as [LP HC]. destruct (HC c Hc A) as [TC _]. rewrite TC, LP. split; [reflexivity | discriminate].
Qed.

Lemma inv_new_ctx w :
  Inv w -> (forall c, cur w = Some c -> active c = false) -> Inv (wof (new_ctx w)).
Proof.
  intros I H. pose proof (inv_abandon w I H) as I0. unfold new_ctx.
  set (w0 := abandon w) in *.
  set (c := mkC (nextcid w0) false false false false false false [] [] [] []).
  set (w1 := mkW (md w0) (vr w0) (Some c) (reg w0) (nextoid w0) (S (nextcid w0)) (nexth w0) (rel w0) (relfail w0)
                 (tasks w0) (hruns w0) (proxies w0) (created w0) (leaked w0) (lrpc w0) (lev w0) (lport w0) (ludp w0)).
  assert (Inv w1) as I1.
  { destruct I0 as [IC RN RL IF IA IR]. constructor; simpl; auto.
    - intros c0 H0. inv_some. simpl. apply TInv_empty.
    - intros V. destruct (IF V) as [LP _]. split; [exact LP|]. intros c0 H0 A0. inv_some. simpl. auto.
    - intros c0 H0 A0. inv_some. discriminate.
    - intros MS c0 H0 A0. inv_some. discriminate. }
  pose proof (inv_internal_make c 0 KObj true true w1 I1 eq_refl) as I2.
  destruct (internal_make c 0 KObj true true w1) as [w2|e w2]; simpl in *; [|exact I2].
  destruct I2 as [IC RN RL IF IA IR]. constructor; simpl; auto.
Qed.
