(* C12 — lemmas.  Invariant linking the object map, the handler map and the worker threads; exact
   characterisation of stop and of the failed-start paths; preservation by every operation. *)
Require Import QV.C12.Model.
From Coq Require Import Lia.

(* ---------- list facts ---------------------------------------------------------------------- *)
Lemma memn_In x l : memn x l = true <-> In x l.
Proof.
  unfold memn. rewrite existsb_exists. split.
  - intros [y [H1 H2]]. apply Nat.eqb_eq in H2. subst. exact H1.
  - intros H. exists x. split; [exact H | apply Nat.eqb_refl].
Qed.
Lemma memn_false x l : memn x l = false <-> ~ In x l.
Proof. rewrite <- memn_In. destruct (memn x l); split; congruence. Qed.

Lemma In_remn y x l : In y (remn x l) <-> In y l /\ x <> y.
Proof.
  unfold remn. rewrite filter_In. rewrite negb_true_iff, Nat.eqb_neq. tauto.
Qed.
Lemma remn_notin x l : ~ In x l -> remn x l = l.
Proof.
  induction l as [|y l IH]; intros H; simpl; [reflexivity|].
  destruct (Nat.eqb x y) eqn:E.
  - apply Nat.eqb_eq in E. subst. exfalso. apply H. left. reflexivity.
  - simpl. f_equal. apply IH. intros K. apply H. right. exact K.
Qed.
Lemma remn_head x l : ~ In x l -> remn x (x :: l) = l.
Proof. intros H. simpl. rewrite Nat.eqb_refl. simpl. apply remn_notin. exact H. Qed.
Lemma remn_app_last x l : ~ In x l -> remn x (l ++ [x]) = l.
Proof.
  intros H. unfold remn. rewrite filter_app. simpl. rewrite Nat.eqb_refl. simpl.
  rewrite app_nil_r. apply remn_notin. exact H.
Qed.
Lemma NoDup_remn x l : NoDup l -> NoDup (remn x l).
Proof. intros H. unfold remn. apply NoDup_filter. exact H. Qed.

Lemma names_app m1 m2 : names (m1 ++ m2) = names m1 ++ names m2.
Proof. unfold names. apply map_app. Qed.
Lemma live_oids_app m1 m2 : live_oids (m1 ++ m2) = live_oids m1 ++ live_oids m2.
Proof. induction m1 as [|[k [|o]] m1 IH]; simpl; congruence. Qed.
Lemma reserved_app m1 m2 : reserved_entries (m1 ++ m2) = reserved_entries m1 ++ reserved_entries m2.
Proof. induction m1 as [|[k [|o]] m1 IH]; simpl; congruence. Qed.

Lemma remk_notin n m : ~ In n (names m) -> remk n m = m.
Proof.
  induction m as [|[k v] m IH]; intros H; simpl; [reflexivity|].
  destruct (Nat.eqb n k) eqn:E.
  - apply Nat.eqb_eq in E. subst. exfalso. apply H. left. reflexivity.
  - simpl. f_equal. apply IH. intros K. apply H. right. exact K.
Qed.
Lemma remk_app_last n s m : ~ In n (names m) -> remk n (m ++ [(n, s)]) = m.
Proof.
  intros H. unfold remk. rewrite filter_app. simpl. rewrite Nat.eqb_refl. simpl.
  rewrite app_nil_r. apply remk_notin. exact H.
Qed.
Lemma setk_notin n v m : ~ In n (names m) -> setk n v m = m.
Proof.
  induction m as [|[k x] m IH]; intros H; simpl; [reflexivity|].
  destruct (Nat.eqb n k) eqn:E.
  - apply Nat.eqb_eq in E. subst. exfalso. apply H. left. reflexivity.
  - f_equal. apply IH. intros K. apply H. right. exact K.
Qed.
Lemma setk_app_last n s v m : ~ In n (names m) -> setk n v (m ++ [(n, s)]) = m ++ [(n, v)].
Proof.
  intros H. unfold setk. rewrite map_app. simpl. rewrite Nat.eqb_refl. f_equal.
  apply setk_notin. exact H.
Qed.
Lemma remk_setk n v m : remk n (setk n v m) = remk n m.
Proof.
  induction m as [|[k x] m IH]; simpl; [reflexivity|].
  destruct (Nat.eqb n k) eqn:E; simpl; rewrite E; simpl; congruence.
Qed.
Lemma names_remk n m : names (remk n m) = remn n (names m).
Proof.
  induction m as [|[k x] m IH]; simpl; [reflexivity|].
  destruct (Nat.eqb n k); simpl; congruence.
Qed.
Lemma reserved_remk n m : reserved_entries m = [] -> reserved_entries (remk n m) = [].
Proof.
  induction m as [|[k [|o]] m IH]; simpl; intros H; try discriminate; [reflexivity|].
  destruct (Nat.eqb n k); simpl; auto.
Qed.
Lemma lookup_In n m s : lookup n m = Some s -> In (n, s) m.
Proof.
  induction m as [|[k x] m IH]; simpl; [discriminate|].
  destruct (Nat.eqb n k) eqn:E; intros H.
  - apply Nat.eqb_eq in E. inversion H. subst. left. reflexivity.
  - right. apply IH. exact H.
Qed.
Lemma lookup_None n m : lookup n m = None <-> ~ In n (names m).
Proof.
  induction m as [|[k x] m IH]; simpl; [tauto|].
  destruct (Nat.eqb n k) eqn:E.
  - apply Nat.eqb_eq in E. subst. split; [discriminate | intros H; exfalso; apply H; left; reflexivity].
  - apply Nat.eqb_neq in E. rewrite IH. split; intros H.
    + intros [K|K]; [congruence | tauto].
    + intros K. apply H. right. exact K.
Qed.
Lemma live_In_oids n o m : In (n, Live o) m -> In o (live_oids m).
Proof.
  induction m as [|[k [|o']] m IH]; simpl; intros H; [tauto| |].
  - destruct H as [H|H]; [discriminate | auto].
  - destruct H as [H|H]; [inversion H; left; reflexivity | right; auto].
Qed.
Lemma live_oids_remk n o m :
  lookup n m = Some (Live o) -> NoDup (names m) -> NoDup (live_oids m) ->
  live_oids (remk n m) = remn o (live_oids m).
Proof.
  induction m as [|[k x] m IH]; simpl; [discriminate|].
  intros L ND1 ND2. inversion ND1 as [|? ? Hk ND1']; subst.
  destruct (Nat.eqb n k) eqn:E.
  - apply Nat.eqb_eq in E. subst k. inversion L; subst x. simpl.
    inversion ND2 as [|? ? Ho ND2']; subst. rewrite Nat.eqb_refl. simpl.
    rewrite remk_notin by exact Hk. symmetry. apply remn_notin. exact Ho.
  - simpl. destruct x as [|o'].
    + apply IH; assumption.
    + inversion ND2 as [|? ? Ho ND2']; subst. simpl.
      assert (o <> o') as Hne.
      { intros ->. apply Ho. apply live_In_oids with n. apply lookup_In. exact L. }
      apply Nat.eqb_neq in Hne. rewrite Hne. simpl. f_equal. apply IH; assumption.
Qed.
Lemma live_entries_fst m : reserved_entries m = [] -> map fst (live_entries m) = names m.
Proof. induction m as [|[k [|o]] m IH]; simpl; intros H; try discriminate; [reflexivity | f_equal; auto]. Qed.
Lemma live_entries_snd m : map snd (live_entries m) = live_oids m.
Proof. induction m as [|[k [|o]] m IH]; simpl; congruence. Qed.

(* ---------- explicit effects on the logs --------------------------------------------------------- *)
Definition relapp (l : list nat) (w : world) : world :=
  mkW (md w) (vr w) (cur w) (reg w) (nextoid w) (nextcid w) (nexth w) (rel w ++ l) (relfail w) (tasks w) (hruns w)
      (proxies w) (created w) (leaked w) (lrpc w) (lev w) (lport w) (ludp w).
Definition hrunapp (l : list nat) (w : world) : world :=
  mkW (md w) (vr w) (cur w) (reg w) (nextoid w) (nextcid w) (nexth w) (rel w) (relfail w) (tasks w) (hruns w ++ l)
      (proxies w) (created w) (leaked w) (lrpc w) (lev w) (lport w) (ludp w).

Lemma world_eta w :
  mkW (md w) (vr w) (cur w) (reg w) (nextoid w) (nextcid w) (nexth w) (rel w) (relfail w) (tasks w) (hruns w)
      (proxies w) (created w) (leaked w) (lrpc w) (lev w) (lport w) (ludp w) = w.
Proof. destruct w; reflexivity. Qed.
Lemma relapp_nil w : relapp [] w = w.
Proof. unfold relapp. rewrite app_nil_r. apply world_eta. Qed.
Lemma hrunapp_nil w : hrunapp [] w = w.
Proof. unfold hrunapp. rewrite app_nil_r. apply world_eta. Qed.
Lemma relapp_relapp a b w : relapp b (relapp a w) = relapp (a ++ b) w.
Proof. unfold relapp; simpl. rewrite app_assoc. reflexivity. Qed.
Lemma hrunapp_hrunapp a b w : hrunapp b (hrunapp a w) = hrunapp (a ++ b) w.
Proof. unfold hrunapp; simpl. rewrite app_assoc. reflexivity. Qed.
Lemma relapp_set_ctx l w c : relapp l (set_ctx w c) = set_ctx (relapp l w) c.
Proof. reflexivity. Qed.

(* the release step never escapes the worker thread *)
Lemma catch_release o w : catch (release o w) = Ret (relapp [o] w).
Proof. unfold release, relapp. destruct (memn o (relfail w)); reflexivity. Qed.

Lemma manager_stop_spec c o w :
  manager_stop c o w = Ret (set_ctx (relapp [o] w) (c_threads c (remn o (cthreads c)))).
Proof. unfold manager_stop. rewrite catch_release. reflexivity. Qed.

(* which stop-handler faults the `try ... except` around a stop handler catches *)
Definition caught (v : variant) (h : hfault) : bool :=
  match h, v with HBase, Fixed => true | HBase, _ => false | _, _ => true end.
Definition all_caught (w : world) (c : ctx) : bool := forallb (fun h => caught (vr w) (snd h)) (shs c).

Lemma vr_match {A} (w : world) (X Y : A) :
  vr w <> Current -> match vr w with Current => X | _ => Y end = Y.
Proof. destruct (vr w); congruence. Qed.

Lemma catch_caught v h w1 : caught v h = true ->
  catch_stop_handler v (match h with HOk => Ret w1 | HExc => Raise EOther w1 | HBase => Raise EBase w1 end) = Ret w1.
Proof. destruct h, v; simpl; try discriminate; reflexivity. Qed.
Lemma catch_uncaught v h w1 : caught v h = false ->
  catch_stop_handler v (match h with HOk => Ret w1 | HExc => Raise EOther w1 | HBase => Raise EBase w1 end) = Raise EBase w1.
Proof. destruct h, v; simpl; try discriminate; reflexivity. Qed.

(* a stop handler whose exception is caught does not stop the others *)
Lemma run_handlers_spec hs : forall w,
  forallb (fun h => caught (vr w) (snd h)) hs = true -> run_handlers hs w = Ret (hrunapp (map fst hs) w).
Proof.
  induction hs as [|[i b] hs IH]; intros w H; simpl.
  - rewrite hrunapp_nil. reflexivity.
  - simpl in H. apply andb_true_iff in H as [H1 H2]. unfold run_handler. simpl snd. simpl fst.
    rewrite catch_caught by exact H1. simpl bind.
    change (run_handlers hs (hrunapp [i] w) = Ret (hrunapp ([i] ++ map fst hs) w)).
    rewrite IH by exact H2. rewrite hrunapp_hrunapp. reflexivity.
Qed.

(* ... and one that is not caught aborts the rest: nothing but the run log changed *)
Lemma run_handlers_abort hs : forall w,
  forallb (fun h => caught (vr w) (snd h)) hs = false -> exists l, run_handlers hs w = Raise EBase (hrunapp l w).
Proof.
  induction hs as [|[i b] hs IH]; intros w H; simpl in *; [discriminate|].
  unfold run_handler. simpl snd. simpl fst.
  destruct (caught (vr w) b) eqn:C.
  - rewrite catch_caught by exact C. simpl bind. simpl in H.
    destruct (IH (hrunapp [i] w) H) as [l E]. exists ([i] ++ l).
    change (run_handlers hs (hrunapp [i] w) = Raise EBase (hrunapp ([i] ++ l) w)).
    rewrite E, hrunapp_hrunapp. reflexivity.
  - rewrite catch_uncaught by exact C. exists [i]. reflexivity.
Qed.

(* stopping all the managers: every one is unregistered, released once and its thread ends *)
Lemma stop_managers_spec ms : forall w c,
  cur w = Some c -> handlers c = map fst ms -> cthreads c = map snd ms ->
  NoDup (map fst ms) -> NoDup (map snd ms) ->
  stop_managers ms w = Ret (set_ctx (relapp (map snd ms) w) (c_threads (c_handlers c []) [])).
Proof.
  induction ms as [|[n o] ms IH]; intros w c Hc Hh Ht N1 N2; simpl.
  - rewrite relapp_nil. destruct w, c; simpl in *. subst. reflexivity.
  - rewrite Hc. rewrite manager_stop_spec. simpl bind.
    simpl in N1, N2. inversion N1 as [|? ? Hn N1']; inversion N2 as [|? ? Ho N2']; subst.
    erewrite IH; [ | reflexivity | | | exact N1' | exact N2' ].
    + simpl. f_equal. unfold set_ctx, set_cur, relapp; simpl. rewrite <- app_assoc. reflexivity.
    + simpl. rewrite Hh. simpl map. apply remn_head. exact Hn.
    + simpl. rewrite Ht. simpl map. apply remn_head. exact Ho.
Qed.

(* ---------- the invariant ----------------------------------------------------------------------- *)
Record TInv (m : list (nat * slot)) (h t r : list nat) (nx : nat) : Prop := {
  t_nodup : NoDup (names m);                       (* a name maps to at most one object *)
  t_norsv : reserved_entries m = [];                (* no reservation is left between operations *)
  t_hand : h = names m;                             (* handler map = names of the live objects *)
  t_thr : t = live_oids m;                          (* one worker thread per live object *)
  t_lt : Forall (fun o => o < nx) (live_oids m);
  t_onodup : NoDup (live_oids m);
  t_notrel : forall o, In o (live_oids m) -> ~ In o r }.   (* a live object has not been released *)

Record Inv (w : world) : Prop := {
  i_ctx : forall c, cur w = Some c -> TInv (objmap c) (handlers c) (cthreads c) (rel w) (nextoid w);
  i_relnd : NoDup (rel w);                          (* nothing is released twice *)
  i_rellt : Forall (fun o => o < nextoid w) (rel w);
  i_fixed : vr w <> Current -> lport w = false /\
            forall c, cur w = Some c -> active c = false -> tcp c = false /\ router c = false;
  i_active : forall c, cur w = Some c -> active c = true -> used c = true;
  i_reg : md w = Single -> forall c, cur w = Some c -> active c = true -> reg w = true }.

Lemma TInv_empty r nx : TInv [] [] [] r nx.
Proof. constructor; simpl; auto; try constructor. Qed.

Lemma Inv_init m v : Inv (init m v).
Proof. constructor; simpl; try discriminate; auto; try constructor; auto; discriminate. Qed.

Lemma nodup_app (a b : list nat) :
  NoDup a -> NoDup b -> (forall x, In x b -> ~ In x a) -> NoDup (a ++ b).
Proof.
  induction a as [|x a IH]; intros Ha Hb H; simpl; [exact Hb|].
  inversion Ha as [|? ? Hx Ha']; subst. constructor.
  - rewrite in_app_iff. intros [K|K]; [tauto|]. apply (H x K). left. reflexivity.
  - apply IH; auto. intros y Hy K. apply (H y Hy). right. exact K.
Qed.

(* ---------- reclaim / stop / failed start: exact results ---------------------------------------- *)
Definition emptied (c : ctx) : ctx :=
  mkC (cid c) (active c) (used c) (router c) (tcp c) (udp c) (conn c) [] [] [] (shs c).

Lemma reclaim_spec c w r nx :
  TInv (objmap c) (handlers c) (cthreads c) r nx ->
  reclaim c w = Ret (set_ctx (relapp (live_oids (objmap c)) w) (emptied c)).
Proof.
  intros T. destruct T as [N1 RS H TH LT N2 NR]. unfold reclaim.
  erewrite stop_managers_spec; [ | reflexivity | | | | ].
  - rewrite live_entries_snd. f_equal. unfold set_ctx, set_cur, relapp, emptied. simpl. rewrite RS. reflexivity.
  - simpl. rewrite live_entries_fst by exact RS. exact H.
  - simpl. rewrite live_entries_snd. exact TH.
  - rewrite live_entries_fst by exact RS. exact N1.
  - rewrite live_entries_snd. exact N2.
Qed.

Definition stopped_ctx (c : ctx) : ctx :=
  mkC (cid c) false (used c) false false false false [] [] [] (shs c).
Definition stopped_world (c : ctx) (w : world) : world :=
  set_ctx (relapp (live_oids (objmap c)) (hrunapp (map fst (shs c)) w)) (stopped_ctx c).

Lemma ctx_stop_spec c w r nx :
  TInv (objmap c) (handlers c) (cthreads c) r nx -> active c = true -> all_caught w c = true ->
  ctx_stop c w = Ret (stopped_world c w).
Proof.
  intros T A AC. unfold ctx_stop. rewrite A. simpl negb. cbv iota.
  rewrite run_handlers_spec by exact AC. simpl bind.
  erewrite reclaim_spec; [reflexivity | simpl; exact T].
Qed.

Lemma ctx_stop_abort c w :
  active c = true -> all_caught w c = false -> exists l, ctx_stop c w = Raise EBase (hrunapp l w).
Proof.
  intros A AC. unfold ctx_stop. rewrite A. simpl negb. cbv iota.
  destruct (run_handlers_abort (shs c) w AC) as [l E]. exists l. rewrite E. reflexivity.
Qed.

Lemma ctx_stop_inactive c w : active c = false -> ctx_stop c w = Raise EUsage w.
Proof. intros A. unfold ctx_stop. rewrite A. reflexivity. Qed.

(* the context a failed start leaves in the Fixed variant: same as a stopped one, and used up *)
Definition aborted_ctx (c : ctx) : ctx :=
  mkC (cid c) false true false false false false [] [] [] (shs c).
Definition aborted_world (c : ctx) (w : world) : world :=
  set_ctx (relapp (live_oids (objmap c)) w) (aborted_ctx c).

Definition start_fails (f : fault) (w : world) : bool :=
  match f with FTcp => true | FUdp => true | _ => lport w end.

Lemma ctx_start_fixed_fail c f w r nx :
  TInv (objmap c) (handlers c) (cthreads c) r nx ->
  active c = false -> used c = false -> router c = false -> vr w <> Current -> start_fails f w = true ->
  ctx_start c f w = Raise EOSError (aborted_world c w).
Proof.
  intros T A U R V F. unfold ctx_start. rewrite A, U, R.
  assert (forall cx, objmap cx = objmap c -> handlers cx = handlers c -> cthreads cx = cthreads c ->
                     cid cx = cid c -> shs cx = shs c ->
          match reclaim (c_flags (router_stop cx) false true) (set_ctx w (c_flags (router_stop cx) false true)) with
          | Ret w' => Raise EOSError w' | Raise e w' => Raise e w' end = Raise EOSError (aborted_world c w)) as K.
  { intros cx E1 E2 E3 E4 E5. erewrite reclaim_spec; [ | simpl; rewrite E1, E2, E3; exact T ].
    unfold aborted_world, aborted_ctx, emptied, set_ctx, set_cur, relapp. simpl. rewrite E1, E4, E5. reflexivity. }
  unfold start_fails in F.
  destruct f; simpl.
  - rewrite F. rewrite vr_match by exact V. apply K; reflexivity.
  - rewrite vr_match by exact V. apply K; reflexivity.
  - destruct (lport w); rewrite vr_match by exact V; apply K; reflexivity.
  - rewrite F. rewrite vr_match by exact V. apply K; reflexivity.
Qed.

Definition started_ctx (c : ctx) : ctx :=
  mkC (cid c) true true true true true false (objmap c) (handlers c) (cthreads c) (shs c).

Lemma ctx_start_ok c f w :
  active c = false -> used c = false -> router c = false -> start_fails f w = false ->
  ctx_start c f w = Ret (set_ctx w (started_ctx c)).
Proof.
  intros A U R F. unfold ctx_start. rewrite A, U, R. unfold start_fails in F.
  destruct f; try discriminate; simpl; rewrite F; reflexivity.
Qed.

(* ---------- make: exact results ------------------------------------------------------------------ *)
Lemma notin_lt o l : Forall (fun x => x < o) l -> ~ In o l.
Proof. intros F K. rewrite Forall_forall in F. specialize (F o K). lia. Qed.

Lemma rollback_spec c n o :
  ~ In n (names (objmap c)) -> ~ In o (cthreads c) ->
  rollback (spawn (reserve c n) o) n o = c.
Proof.
  intros Hn Ho. unfold rollback, spawn, reserve. destruct c; simpl in *.
  rewrite remn_app_last by exact Ho. rewrite remk_app_last by exact Hn. reflexivity.
Qed.

Definition published (c : ctx) (n o : nat) : ctx :=
  mkC (cid c) (active c) (used c) (router c) (tcp c) (udp c) (conn c)
      (objmap c ++ [(n, Live o)]) (handlers c ++ [n]) (cthreads c ++ [o]) (shs c).

Lemma publish_spec c n o :
  ~ In n (names (objmap c)) -> publish (spawn (reserve c n) o) n o = published c n o.
Proof.
  intros Hn. unfold publish, spawn, reserve, published. destruct c; simpl in *.
  rewrite setk_app_last by exact Hn. reflexivity.
Qed.

Lemma TInv_published m h t r nx n :
  TInv m h t r nx -> ~ In n (names m) -> Forall (fun o => o < nx) r ->
  TInv (m ++ [(n, Live nx)]) (h ++ [n]) (t ++ [nx]) r (S nx).
Proof.
  intros [N1 RS H TH LT N2 NR] Hn RL. constructor.
  - rewrite names_app. simpl. apply nodup_app; auto.
    + constructor; [intros [] | constructor].
    + intros x [<-|[]]. exact Hn.
  - rewrite reserved_app. simpl. rewrite RS. reflexivity.
  - rewrite names_app. simpl. congruence.
  - rewrite live_oids_app. simpl. congruence.
  - rewrite live_oids_app. apply Forall_app. split.
    + eapply Forall_impl; [|exact LT]. simpl. intros; lia.
    + constructor; [lia | constructor].
  - rewrite live_oids_app. simpl. apply nodup_app; auto.
    + constructor; [intros [] | constructor].
    + intros x [<-|[]]. apply notin_lt. exact LT.
  - intros o. rewrite live_oids_app, in_app_iff. simpl. intros [K|[<-|[]]].
    + apply NR. exact K.
    + apply notin_lt. exact RL.
Qed.

Lemma TInv_weaken m h t r nx : TInv m h t r nx -> TInv m h t r (S nx).
Proof.
  intros [N1 RS H TH LT N2 NR]. constructor; auto.
  eapply Forall_impl; [|exact LT]. simpl. intros; lia.
Qed.

Lemma TInv_removed m h t r nx n o :
  TInv m h t r nx -> lookup n m = Some (Live o) ->
  TInv (remk n m) (remn n h) (remn o t) (r ++ [o]) nx.
Proof.
  intros [N1 RS H TH LT N2 NR] L. constructor.
  - rewrite names_remk. apply NoDup_remn. exact N1.
  - apply reserved_remk. exact RS.
  - rewrite names_remk. congruence.
  - rewrite TH. symmetry. apply live_oids_remk; assumption.
  - rewrite (live_oids_remk n o) by assumption. rewrite Forall_forall in *. intros x Hx.
    apply In_remn in Hx. apply LT. tauto.
  - rewrite (live_oids_remk n o) by assumption. apply NoDup_remn. exact N2.
  - intros x. rewrite (live_oids_remk n o) by assumption. intros Hx. apply In_remn in Hx.
    rewrite in_app_iff. simpl. intros [K|[K|[]]]; [apply (NR x); tauto | tauto].
Qed.

(* ---------- every primitive preserves the invariant ------------------------------------------------ *)
Ltac inv_some := match goal with H : Some _ = Some _ |- _ => inversion H; subst; clear H end.

Lemma inv_internal_make c n k a b w :
  Inv w -> cur w = Some c -> Inv (wof (internal_make c n k a b w)).
Proof.
  intros I Hc. pose proof (i_ctx _ I _ Hc) as T. unfold internal_make.
  destruct (negb (active c) && negb (n =? 0)); [exact I|].
  destruct (memn n (names (objmap c))) eqn:M; [exact I|].
  apply memn_false in M.
  assert (~ In (nextoid w) (cthreads c)) as Ho.
  { rewrite (t_thr _ _ _ _ _ T). apply notin_lt. exact (t_lt _ _ _ _ _ T). }
  destruct a; simpl wof.
  - rewrite publish_spec by exact M. destruct I as [IC RN RL IF IA IR]. constructor; simpl.
    + intros c0 H0. inv_some. simpl. apply TInv_published; auto.
    + exact RN.
    + eapply Forall_impl; [|exact RL]. simpl; intros; lia.
    + intros V. destruct (IF V) as [LP HC]. split; [exact LP|]. intros c0 H0 A0. inv_some. simpl in *. exact (HC _ Hc A0).
    + intros c0 H0 A0. inv_some. simpl in *. exact (IA _ Hc A0).
    + intros MS c0 H0 A0. inv_some. simpl in *. exact (IR MS _ Hc A0).
  - rewrite rollback_spec by assumption. destruct I as [IC RN RL IF IA IR]. constructor; simpl.
    + intros c0 H0. inv_some. apply TInv_weaken. exact T.
    + exact RN.
    + eapply Forall_impl; [|exact RL]. simpl; intros; lia.
    + intros V. destruct (IF V) as [LP HC]. split; [exact LP|]. intros c0 H0 A0. inv_some. exact (HC _ Hc A0).
    + intros c0 H0 A0. inv_some. exact (IA _ Hc A0).
    + intros MS c0 H0 A0. inv_some. exact (IR MS _ Hc A0).
Qed.

Lemma inv_make c n k a b w : Inv w -> cur w = Some c -> Inv (wof (make c n k a b w)).
Proof. intros I Hc. unfold make. destruct (negb (valid n)); [exact I | apply inv_internal_make; assumption]. Qed.

Lemma inv_remove c n w : Inv w -> cur w = Some c -> Inv (wof (remove c n w)).
Proof.
  intros I Hc. pose proof (i_ctx _ I _ Hc) as T. unfold remove.
  destruct (lookup n (objmap c)) as [[|o]|] eqn:L; try exact I.
  rewrite manager_stop_spec. simpl wof. destruct I as [IC RN RL IF IA IR]. constructor; simpl.
  - intros c0 H0. inv_some. simpl. rewrite remk_setk. apply TInv_removed; assumption.
  - apply nodup_app; auto.
    + constructor; [intros [] | constructor].
    + intros x [<-|[]]. apply (t_notrel _ _ _ _ _ T). apply live_In_oids with n. apply lookup_In. exact L.
  - apply Forall_app. split; [exact RL|]. constructor; [|constructor].
    pose proof (t_lt _ _ _ _ _ T) as LT. rewrite Forall_forall in LT. apply LT.
    apply live_In_oids with n. apply lookup_In. exact L.
  - intros V. destruct (IF V) as [LP HC]. split; [exact LP|]. intros c0 H0 A0. inv_some. simpl in *. exact (HC _ Hc A0).
  - intros c0 H0 A0. inv_some. simpl in *. exact (IA _ Hc A0).
  - intros MS c0 H0 A0. inv_some. simpl in *. exact (IR MS _ Hc A0).
Qed.

Lemma inv_get c n w : Inv w -> cur w = Some c -> Inv (wof (get c n w)).
Proof.
  intros I Hc. unfold get. destruct (reachable_obj c 0); [|exact I].
  destruct (lookup n (objmap c)) as [[|o]|]; try exact I.
  destruct I as [IC RN RL IF IA IR]. constructor; simpl; auto.
Qed.

Lemma inv_addh c b w : Inv w -> cur w = Some c -> Inv (wof (addh c b w)).
Proof.
  intros I Hc. pose proof (i_ctx _ I _ Hc) as T. destruct I as [IC RN RL IF IA IR]. unfold addh. constructor; simpl; auto.
  - intros c0 H0. inv_some. exact T.
  - intros V. destruct (IF V) as [LP HC]. split; [exact LP|]. intros c0 H0 A0. inv_some. simpl in *. exact (HC _ Hc A0).
  - intros c0 H0 A0. inv_some. simpl in *. exact (IA _ Hc A0).
  - intros MS c0 H0 A0. inv_some. simpl in *. exact (IR MS _ Hc A0).
Qed.

Lemma inv_connect c r w : Inv w -> cur w = Some c -> Inv (wof (connect c r w)).
Proof.
  intros I Hc. pose proof (i_ctx _ I _ Hc) as T. unfold connect.
  destruct (active c) eqn:A; simpl; [|exact I]. destruct r; [|exact I]. destruct (conn c); [exact I|].
  destruct I as [IC RN RL IF IA IR]. simpl. constructor; simpl; auto.
  - intros c0 H0. inv_some. exact T.
  - intros V. destruct (IF V) as [LP HC]. split; [exact LP|]. intros c0 H0 A0. inv_some. simpl in *. congruence.
  - intros c0 H0 A0. inv_some. simpl in *. exact (IA _ Hc A0).
  - intros MS c0 H0 A0. inv_some. simpl in *. exact (IR MS _ Hc A0).
Qed.

Lemma Inv_emptied c c' w l :
  Inv w -> cur w = Some c -> l = live_oids (objmap c) ->
  objmap c' = [] -> handlers c' = [] -> cthreads c' = [] -> active c' = false -> tcp c' = false -> router c' = false ->
  Inv (set_ctx (relapp l w) c').
Proof.
  intros I Hc -> E1 E2 E3 A TC RO. pose proof (i_ctx _ I _ Hc) as T. destruct I as [IC RN RL IF IA IR].
  constructor; simpl.
  - intros c0 H0. inv_some. rewrite E1, E2, E3. apply TInv_empty.
  - apply nodup_app; auto. exact (t_onodup _ _ _ _ _ T). intros x Hx. exact (t_notrel _ _ _ _ _ T x Hx).
  - apply Forall_app. split; [exact RL | exact (t_lt _ _ _ _ _ T)].
  - intros V. destruct (IF V) as [LP HC]. split; [exact LP|]. intros c0 H0 A0. inv_some. auto.
  - intros c0 H0 A0. inv_some. congruence.
  - intros MS c0 H0 A0. inv_some. congruence.
Qed.

Lemma Inv_hrunapp l w : Inv w -> Inv (hrunapp l w).
Proof. intros [IC RN RL IF IA IR]. constructor; simpl; auto. Qed.

Lemma inv_ctx_stop c w : Inv w -> cur w = Some c -> Inv (wof (ctx_stop c w)).
Proof.
  intros I Hc. destruct (active c) eqn:A.
  - destruct (all_caught w c) eqn:AC.
    + erewrite ctx_stop_spec; [ | exact (i_ctx _ I _ Hc) | exact A | exact AC ]. simpl wof. unfold stopped_world.
      apply Inv_emptied with (c := c); auto. apply Inv_hrunapp. exact I.
    + destruct (ctx_stop_abort c w A AC) as [l E]. rewrite E. simpl. apply Inv_hrunapp. exact I.
  - rewrite ctx_stop_inactive by exact A. exact I.
Qed.

Lemma inv_ctx_start c f w :
  Inv w -> cur w = Some c -> (md w = Single -> reg w = true) -> Inv (wof (ctx_start c f w)).
Proof.
  intros I Hc HR. pose proof (i_ctx _ I _ Hc) as T.
  destruct (active c) eqn:A; [unfold ctx_start; rewrite A; exact I|].
  destruct (used c) eqn:U; [unfold ctx_start; rewrite A, U; exact I|].
  destruct (router c) eqn:R; [unfold ctx_start; rewrite A, U, R; exact I|].
  destruct (start_fails f w) eqn:F.
  - assert (vr w <> Current -> Inv (wof (ctx_start c f w))) as KT.
    { intros V. erewrite ctx_start_fixed_fail; eauto. simpl wof. unfold aborted_world.
      apply Inv_emptied with (c := c); auto. }
    destruct (vr w) eqn:V; [apply KT; congruence | apply KT; congruence | ].
    + (* Current: whatever was built stays; only flags and sockets of the context change *)
      assert (forall cx, objmap cx = objmap c -> handlers cx = handlers c -> cthreads cx = cthreads c ->
                         active cx = false -> Inv (set_ctx w cx)) as K.
      { intros cx E1 E2 E3 E4. destruct I as [IC RN RL IF IA IR]. constructor; simpl.
        - intros c0 H0. inv_some. rewrite E1, E2, E3. exact T.
        - exact RN.
        - exact RL.
        - intros V'. congruence.
        - intros c0 H0 A0. inv_some. congruence.
        - intros MS c0 H0 A0. inv_some. congruence. }
      unfold ctx_start. rewrite A, U, R, V. unfold start_fails in F.
      destruct f; simpl; try rewrite F; simpl; try (apply K; try reflexivity; exact A).
      destruct (lport w); simpl; apply K; try reflexivity; exact A.
  - rewrite ctx_start_ok by assumption. simpl wof.
    destruct I as [IC RN RL IF IA IR]. constructor; simpl.
    + intros c0 H0. inv_some. exact T.
    + exact RN.
    + exact RL.
    + intros V. destruct (IF V) as [LP HC]. split; [exact LP|]. intros c0 H0 A0. inv_some. discriminate.
    + intros c0 H0 A0. inv_some. reflexivity.
    + intros MS c0 H0 A0. exact (HR MS).
Qed.

Lemma Inv_set_reg_true w : Inv w -> Inv (set_reg w true).
Proof. intros [IC RN RL IF IA IR]. constructor; simpl; auto. Qed.

Lemma Inv_set_reg_false w :
  Inv w -> (forall c, cur w = Some c -> active c = false) -> Inv (set_reg w false).
Proof.
  intros [IC RN RL IF IA IR] H. constructor; simpl; auto.
  intros MS c Hc A. rewrite (H c Hc) in A. discriminate.
Qed.

Lemma Inv_set_cur_none w : Inv w -> Inv (set_cur w None).
Proof.
  intros [IC RN RL IF IA IR]. constructor; simpl; auto; try discriminate.
  intros V. destruct (IF V) as [LP _]. split; [exact LP | discriminate].
Qed.

Lemma inv_abandon w :
  Inv w -> (forall c, cur w = Some c -> active c = false) -> Inv (abandon w).
Proof.
  intros I H. unfold abandon. destruct (cur w) as [c|] eqn:Hc; [|exact I].
  pose proof (H c eq_refl) as A. destruct I as [IC RN RL IF IA IR]. constructor; simpl; auto; try discriminate.
  intros V. destruct (IF V) as [LP HC]. destruct (HC c Hc A) as [TC _]. rewrite TC, LP. split; [reflexivity | discriminate].
Qed.

Lemma inv_new_ctx w :
  Inv w -> (forall c, cur w = Some c -> active c = false) -> Inv (wof (new_ctx w)).
Proof.
  intros I H. pose proof (inv_abandon w I H) as I0. unfold new_ctx.
  set (w0 := abandon w) in *.
  set (c := mkC (nextcid w0) false false false false false false [] [] [] []).
  set (w1 := mkW (md w0) (vr w0) (Some c) (reg w0) (nextoid w0) (S (nextcid w0)) (nexth w0) (rel w0) (relfail w0)
                 (tasks w0) (hruns w0) (proxies w0) (created w0) (leaked w0) (lrpc w0) (lev w0) (lport w0) (ludp w0)).
  assert (Inv w1) as I1.
  { destruct I0 as [IC RN RL IF IA IR]. constructor; simpl; auto.
    - intros c0 H0. inv_some. simpl. apply TInv_empty.
    - intros V. destruct (IF V) as [LP _]. split; [exact LP|]. intros c0 H0 A0. inv_some. simpl. auto.
    - intros c0 H0 A0. inv_some. discriminate.
    - intros MS c0 H0 A0. inv_some. discriminate. }
  pose proof (inv_internal_make c 0 KObj true true w1 I1 eq_refl) as I2.
  destruct (internal_make c 0 KObj true true w1) as [w2|e w2]; simpl in *; [|exact I2].
  destruct I2 as [IC RN RL IF IA IR]. constructor; simpl; auto.
Qed.

Lemma stopped_world_set_reg c w b : stopped_world c (set_reg w b) = set_reg (stopped_world c w) b.
Proof. reflexivity. Qed.

Lemma inv_qstart_body f p w :
  Inv w -> reg w = true -> Inv (wof (qstart_body f p w)).
Proof.
  intros I HR. unfold qstart_body, with_cur at 1.
  destruct (cur w) as [c|] eqn:Hc; [|exact I].
  pose proof (inv_ctx_start c f w I Hc (fun _ => HR)) as I1.
  destruct (ctx_start c f w) as [w1|e w1]; simpl in *; [|exact I1].
  assert (forall r, Inv (wof (with_cur w1 (fun c0 w0 => connect c0 r w0)))) as K.
  { intros r. unfold with_cur. destruct (cur w1) as [c1|] eqn:Hc1; [|exact I1]. apply inv_connect; assumption. }
  destruct f; try apply K; destruct p; try apply K; exact I1.
Qed.

Lemma inv_qstart f p w : Inv w -> md w = Single -> Inv (wof (qstart f p w)).
Proof.
  intros I MS. unfold qstart. destruct (reg w) eqn:R; [exact I|].
  assert (forall c, cur w = Some c -> active c = false) as H.
  { intros c Hc. destruct (active c) eqn:A; [|reflexivity]. rewrite (i_reg _ I MS c Hc A) in R. discriminate. }
  pose proof (inv_new_ctx w I H) as I1.
  destruct (new_ctx w) as [w1|e w1]; simpl in *; [|exact I1].
  pose proof (inv_qstart_body f p (set_reg w1 true) (Inv_set_reg_true _ I1) eq_refl) as I3.
  destruct (qstart_body f p (set_reg w1 true)) as [w3|e w3]; simpl in *; [exact I3|].
  assert (Inv (wof (match cur (set_reg w3 false) with
                    | Some c => if active c then Raise e (set_cur (wof (ctx_stop c (set_reg w3 false))) None)
                                else Raise e (set_cur (set_reg w3 false) None)
                    | None => Raise e (set_reg w3 false) end))) as KT.
  { change (cur (set_reg w3 false)) with (cur w3).
    destruct (cur w3) as [c|] eqn:Hc; simpl.
    - destruct (active c) eqn:A; simpl.
      + destruct (all_caught (set_reg w3 false) c) eqn:AC.
        * erewrite ctx_stop_spec; [ | exact (i_ctx _ I3 _ Hc) | exact A | exact AC ]. simpl wof.
          rewrite stopped_world_set_reg. apply Inv_set_cur_none. apply Inv_set_reg_false.
          -- pose proof (inv_ctx_stop c w3 I3 Hc) as I4.
             erewrite ctx_stop_spec in I4; [ exact I4 | exact (i_ctx _ I3 _ Hc) | exact A | exact AC ].
          -- intros c0 H0. unfold stopped_world in H0. simpl in H0. inv_some. reflexivity.
        * destruct (ctx_stop_abort c (set_reg w3 false) A AC) as [l E]. rewrite E. simpl wof.
          destruct I3 as [IC RN RL IF IA IR]. constructor; simpl; auto; try discriminate.
          intros V. destruct (IF V) as [LP _]. split; [exact LP | discriminate].
      + apply Inv_set_cur_none. apply Inv_set_reg_false; [exact I3|]. intros c0 H0. congruence.
    - apply Inv_set_reg_false; [exact I3|]. intros c0 H0. congruence. }
  destruct (vr w); [exact KT | exact KT | exact I3].
Qed.

Lemma inv_qstop w : Inv w -> Inv (wof (qstop w)).
Proof.
  intros I. unfold qstop. destruct (reg w); simpl; [|exact I].
  unfold with_cur. destruct (cur w) as [c|] eqn:Hc; [|exact I].
  destruct (active c) eqn:A.
  - destruct (all_caught w c) eqn:AC.
    + erewrite ctx_stop_spec; [ | exact (i_ctx _ I _ Hc) | exact A | exact AC ]. simpl.
      apply Inv_set_reg_false.
      * pose proof (inv_ctx_stop c w I Hc) as I4.
        erewrite ctx_stop_spec in I4; [ exact I4 | exact (i_ctx _ I _ Hc) | exact A | exact AC ].
      * intros c0 H0. unfold stopped_world in H0. simpl in H0. inv_some. reflexivity.
    + destruct (ctx_stop_abort c w A AC) as [l E]. rewrite E. simpl. apply Inv_hrunapp. exact I.
  - rewrite ctx_stop_inactive by exact A. exact I.
Qed.

Lemma is_direct_md w : is_direct w = true -> md w = Direct.
Proof. unfold is_direct. destruct (md w); [reflexivity | discriminate]. Qed.
Lemma is_direct_false w : is_direct w = false -> md w = Single.
Proof. unfold is_direct. destruct (md w); [discriminate | reflexivity]. Qed.

Theorem inv_step w o : Inv w -> Inv (fst (step w o)).
Proof.
  intros I. unfold step.
  destruct o as [ |f| |f p| |n k a b|n|n|i|b|r].
  - destruct (is_direct w) eqn:D; simpl; [|exact I].
    destruct (cur w) as [c|] eqn:Hc.
    + destruct (active c) eqn:A; simpl; [exact I|]. apply inv_new_ctx; [exact I|].
      intros c0 H0. congruence.
    + simpl. apply inv_new_ctx; [exact I|]. intros c0 H0. congruence.
  - destruct (is_direct w) eqn:D; simpl; [|exact I].
    destruct (cur w) as [c|] eqn:Hc; simpl; [|exact I].
    apply inv_ctx_start; auto. intros MS. rewrite (is_direct_md _ D) in MS. discriminate.
  - destruct (is_direct w) eqn:D; simpl; [|exact I].
    destruct (cur w) as [c|] eqn:Hc; simpl; [|exact I]. apply inv_ctx_stop; auto.
  - destruct (is_direct w) eqn:D; simpl; [exact I|]. apply inv_qstart; [exact I | apply is_direct_false; exact D].
  - destruct (is_direct w) eqn:D; simpl; [exact I|]. apply inv_qstop; exact I.
  - destruct (is_direct w) eqn:D.
    + destruct (cur w) as [c|] eqn:Hc; simpl; [|exact I]. apply inv_make; auto.
    + destruct (reg w); simpl; [|exact I].
      destruct (cur w) as [c|] eqn:Hc; simpl; [|exact I]. apply inv_make; auto.
  - destruct (cur w) as [c|] eqn:Hc; simpl; [|exact I]. apply inv_remove; auto.
  - destruct (n =? 0); simpl; [exact I|].
    destruct (cur w) as [c|] eqn:Hc; simpl; [|exact I]. apply inv_get; auto.
  - exact I.
  - destruct (cur w) as [c|] eqn:Hc; simpl; [|exact I]. apply inv_addh; auto.
  - destruct (cur w) as [c|] eqn:Hc; simpl; [|exact I]. apply inv_connect; auto.
Qed.

Theorem inv_run ops : forall w, Inv w -> Inv (fst (run w ops)).
Proof.
  induction ops as [|o ops IH]; intros w I; simpl; [exact I|].
  pose proof (inv_step w o I) as I1. destruct (step w o) as [w1 x]. simpl in I1.
  specialize (IH w1 I1). destruct (run w1 ops) as [w2 xs]. exact IH.
Qed.

Theorem reachable_inv m v ops : Inv (fst (run (init m v) ops)).
Proof. apply inv_run. apply Inv_init. Qed.

(* ================= the property lemmas ============================================================ *)

(* C12_unique *)
Lemma unique_names w c : Inv w -> cur w = Some c ->
  NoDup (names (objmap c)) /\
  (forall n s1 s2, lookup n (objmap c) = Some s1 -> In (n, s2) (objmap c) -> s1 = s2).
Proof.
  intros I Hc. pose proof (t_nodup _ _ _ _ _ (i_ctx _ I _ Hc)) as ND. split; [exact ND|].
  generalize ND. clear. induction (objmap c) as [|[k x] m IH]; simpl; intros ND n s1 s2 L H; [tauto|].
  inversion ND as [|? ? Hk ND']; subst. destruct (Nat.eqb n k) eqn:E.
  - apply Nat.eqb_eq in E. subst k. inversion L; subst. destruct H as [H|H]; [congruence|].
    exfalso. apply Hk. change n with (fst (n, s2)). apply in_map. exact H.
  - destruct H as [H|H]; [inversion H; subst; rewrite Nat.eqb_refl in E; discriminate|].
    eapply IH; eauto.
Qed.

Lemma duplicate_refused c n k a b w :
  valid n = true -> active c = true -> In n (names (objmap c)) -> make c n k a b w = Raise EDup w.
Proof.
  intros V A H. unfold make, internal_make. rewrite V, A. simpl.
  apply memn_In in H. rewrite H. reflexivity.
Qed.

(* C12_rollback *)
Lemma rollback_clean w c n k b w' :
  Inv w -> cur w = Some c -> make c n k false b w = Raise ECtor w' ->
  ~ In n (names (objmap c)) /\ cur w' = Some c /\ rel w' = rel w /\ hruns w' = hruns w /\
  proxies w' = proxies w /\ nextoid w' = S (nextoid w).
Proof.
  intros I Hc. pose proof (i_ctx _ I _ Hc) as T. unfold make, internal_make.
  destruct (negb (valid n)); [discriminate|].
  destruct (negb (active c) && negb (n =? 0)); [discriminate|].
  destruct (memn n (names (objmap c))) eqn:M; [discriminate|]. apply memn_false in M.
  rewrite rollback_spec; [ | exact M | rewrite (t_thr _ _ _ _ _ T); apply notin_lt; exact (t_lt _ _ _ _ _ T) ].
  intros H. inversion H; subst. simpl. repeat split; auto.
Qed.

(* C12_remove *)
Lemma remove_clean w c n w' :
  Inv w -> cur w = Some c -> remove c n w = Ret w' ->
  exists o c', lookup n (objmap c) = Some (Live o) /\ cur w' = Some c' /\
    ~ In n (names (objmap c')) /\ ~ In n (handlers c') /\ ~ In o (cthreads c') /\
    rel w' = rel w ++ [o] /\ count_occ Nat.eq_dec (rel w') o = 1.
Proof.
  intros I Hc. pose proof (i_ctx _ I _ Hc) as T. unfold remove.
  destruct (lookup n (objmap c)) as [[|o]|] eqn:L; try discriminate.
  rewrite manager_stop_spec. intros H. inversion H; subst. clear H.
  exists o. eexists. split; [reflexivity|]. split; [reflexivity|]. simpl.
  split; [ rewrite remk_setk, names_remk, In_remn; tauto |].
  split; [ rewrite In_remn; tauto |].
  split; [ rewrite In_remn; tauto |].
  split; [ reflexivity |].
  rewrite count_occ_app. simpl. destruct (Nat.eq_dec o o); [|congruence].
  rewrite (proj1 (count_occ_not_In Nat.eq_dec (rel w) o)); [reflexivity|].
  apply (t_notrel _ _ _ _ _ T). apply live_In_oids with n. apply lookup_In. exact L.
Qed.

(* C12_stop_reclaims *)
Lemma call_dead w : (forall c, cur w = Some c -> handlers c = []) ->
  forall i, call w i = OSkip \/ call w i = OExc EDelivery.
Proof.
  intros H i. unfold call. destruct (nth_error (proxies w) i) as [[ci n]|]; [|left; reflexivity]. right.
  destruct (cur w) as [c|] eqn:Hc; [|reflexivity]. destruct (ci =? cid c); [|reflexivity].
  unfold reachable_obj. rewrite (H c eq_refl). reflexivity.
Qed.

Lemma stop_reclaims w c :
  Inv w -> cur w = Some c -> active c = true -> all_caught w c = true ->
  exists w' c', ctx_stop c w = Ret w' /\ cur w' = Some c' /\
    (forall o, In o (live_oids (objmap c)) -> count_occ Nat.eq_dec (rel w') o = 1) /\
    rel w' = rel w ++ live_oids (objmap c) /\
    hruns w' = hruns w ++ map fst (shs c) /\
    objmap c' = [] /\ handlers c' = [] /\ cthreads c' = [] /\
    router c' = false /\ tcp c' = false /\ udp c' = false /\ conn c' = false /\ active c' = false /\
    (forall f, ctx_start c' f w' = Raise EUsage w') /\
    ctx_stop c' w' = Raise EUsage w' /\
    (forall i, call w' i = OSkip \/ call w' i = OExc EDelivery).
Proof.
  intros I Hc A AC. pose proof (i_ctx _ I _ Hc) as T.
  exists (stopped_world c w), (stopped_ctx c).
  split; [ eapply ctx_stop_spec; eauto |]. split; [reflexivity|].
  split.
  { intros o Ho. pose proof (inv_ctx_stop c w I Hc) as I'. erewrite ctx_stop_spec in I'; eauto. simpl in I'.
    apply (proj1 (NoDup_count_occ' Nat.eq_dec _) (i_relnd _ I')). simpl. apply in_or_app. right. exact Ho. }
  simpl. repeat (split; [reflexivity|]).
  split; [ intros f; unfold ctx_start; simpl; rewrite (i_active _ I _ Hc A); reflexivity |].
  split; [ reflexivity |].
  apply call_dead. simpl. intros c0 H0. inv_some. reflexivity.
Qed.

(* C12_failed_start *)
Lemma new_ctx_props w :
  exists w1 c1, new_ctx w = Ret w1 /\ cur w1 = Some c1 /\ active c1 = false /\ used c1 = false /\
    router c1 = false /\ shs c1 = [] /\ vr w1 = vr w /\ md w1 = md w /\ reg w1 = reg w /\
    lport w1 = match cur w with Some c => tcp c || lport w | None => lport w end.
Proof.
  unfold new_ctx, abandon. destruct (cur w) as [c|]; unfold internal_make; simpl;
    (eexists; eexists; split; [reflexivity|]; simpl; repeat split; reflexivity).
Qed.

Lemma failed_start_direct w c f :
  Inv w -> vr w <> Current -> cur w = Some c -> active c = false -> used c = false -> router c = false ->
  start_fails f w = true ->
  exists w', ctx_start c f w = Raise EOSError w' /\
    (exists c', cur w' = Some c' /\ objmap c' = [] /\ handlers c' = [] /\ cthreads c' = [] /\
                router c' = false /\ tcp c' = false /\ udp c' = false /\ conn c' = false /\ active c' = false) /\
    (forall o, In o (live_oids (objmap c)) -> count_occ Nat.eq_dec (rel w') o = 1) /\
    (* nothing prevents starting a NEW context *)
    exists w1 c1 w2, new_ctx w' = Ret w1 /\ cur w1 = Some c1 /\ ctx_start c1 FNone w1 = Ret w2.
Proof.
  intros I V Hc A U R F. pose proof (i_ctx _ I _ Hc) as T.
  exists (aborted_world c w). split; [eapply ctx_start_fixed_fail; eauto|].
  split; [eexists; split; [reflexivity|]; simpl; auto 10|].
  split.
  { intros o Ho.
    assert (NoDup (rel (aborted_world c w))) as ND.
    { simpl. apply nodup_app; [exact (i_relnd _ I) | exact (t_onodup _ _ _ _ _ T) |].
      intros x Hx. exact (t_notrel _ _ _ _ _ T x Hx). }
    apply (proj1 (NoDup_count_occ' Nat.eq_dec _) ND). simpl. apply in_or_app. right. exact Ho. }
  destruct (new_ctx_props (aborted_world c w)) as [w1 [c1 [E [C1 [A1 [U1 [R1 [_ [V1 [_ [_ L1]]]]]]]]]]].
  exists w1, c1. eexists. split; [exact E|]. split; [exact C1|].
  apply ctx_start_ok; auto. unfold start_fails. rewrite L1. simpl. destruct (i_fixed _ I V) as [LP _]. exact LP.
Qed.

Lemma qstart_clean w p :
  reg w = false -> cur w = None -> lport w = false -> exists w', qstart FNone p w = Ret w'.
Proof.
  intros R C L. unfold qstart. rewrite R.
  destruct (new_ctx_props w) as [w1 [c1 [E [C1 [A1 [U1 [R1 [_ [_ [_ [_ L1]]]]]]]]]]]. rewrite C in L1.
  rewrite E. simpl bind. unfold qstart_body, with_cur at 1. simpl cur. rewrite C1.
  rewrite ctx_start_ok; auto; [ | unfold start_fails; simpl; congruence ].
  simpl. destruct p; [|eexists; reflexivity].
  unfold with_cur, connect. simpl. eexists; reflexivity.
Qed.

Lemma failed_qstart_fixed w f p e w' :
  Inv w -> md w = Single -> vr w <> Current -> reg w = false -> qstart f p w = Raise e w' ->
  reg w' = false /\ cur w' = None /\ lport w' = false.
Proof.
  intros I MS V R. unfold qstart. rewrite R.
  assert (forall c, cur w = Some c -> active c = false) as H.
  { intros c Hc. destruct (active c) eqn:A; [|reflexivity]. rewrite (i_reg _ I MS c Hc A) in R. discriminate. }
  pose proof (inv_new_ctx w I H) as I1.
  destruct (new_ctx_props w) as [w1 [c1 [E [C1 [A1 [U1 [R1 [SH [V1 [_ [_ L1]]]]]]]]]]].
  rewrite E in I1 |- *. simpl in I1. simpl bind.
  assert (lport w1 = false) as LP.
  { rewrite L1. destruct (i_fixed _ I V) as [LP HC]. destruct (cur w) as [c|] eqn:Hc; [|exact LP].
    destruct (HC c eq_refl (H c eq_refl)) as [TC _]. rewrite TC, LP. reflexivity. }
  pose proof (i_ctx _ I1 _ C1) as T1.
  unfold qstart_body, with_cur at 1. simpl cur. rewrite C1.
  destruct (start_fails f (set_reg w1 true)) eqn:F.
  - erewrite ctx_start_fixed_fail; eauto; [ | simpl; congruence ]. simpl.
    rewrite vr_match by exact V. simpl.
    intros K. inversion K; subst. simpl. auto.
  - rewrite ctx_start_ok by auto. simpl bind.
    unfold start_fails in F. simpl in F.
    destruct f; try discriminate.
    + destruct p; [unfold with_cur, connect; simpl; discriminate | discriminate].
    + unfold with_cur, connect. simpl. rewrite vr_match by exact V. simpl.
      erewrite ctx_stop_spec; [ | simpl; exact T1 | reflexivity | unfold all_caught; simpl; rewrite SH; reflexivity ].
      simpl. intros K. inversion K; subst. simpl. auto.
Qed.

(* the tree as it is: after a failed qmi.start nothing ever gets the singleton going again *)
Definition Stuck (w : world) : Prop :=
  md w = Single /\ reg w = true /\ exists c, cur w = Some c /\ active c = false /\ used c = false /\ router c = true.

Lemma stuck_step w o : Stuck w ->
  Stuck (fst (step w o)) /\
  (forall f p, o = QStart f p -> snd (step w o) = OExc EUsage) /\
  (o = QStop -> snd (step w o) = OExc EUsage).
Proof.
  intros [MS [R [c [Hc [A [U RO]]]]]].
  assert (is_direct w = false) as D by (unfold is_direct; rewrite MS; reflexivity).
  assert (Stuck w) as S0 by (repeat split; auto; exists c; auto).
  unfold step. rewrite D, Hc, R. simpl.
  destruct o as [ |f| |f p| |n k a b|n|n|i|b|r]; simpl; try (split; [exact S0 | split; [intros; discriminate | intros; discriminate]]).
  - (* QStart *) unfold qstart. rewrite R. simpl. split; [exact S0|]. split; [reflexivity | discriminate].
  - (* QStop *) unfold qstop. rewrite R. simpl. unfold with_cur.
    destruct (cur w) as [c0|] eqn:Hc0; [|discriminate]. inversion Hc; subst c0.
    rewrite ctx_stop_inactive by exact A. simpl.
    split; [exact S0|]. split; [discriminate | reflexivity].
  - (* Make *) split; [|split; discriminate]. unfold make, internal_make. rewrite A. simpl.
    destruct (valid n) eqn:Vn; simpl; [|exact S0].
    destruct (n =? 0) eqn:E0; simpl; [|exact S0].
    apply Nat.eqb_eq in E0. subst. discriminate.
  - (* Remove *) split; [|split; discriminate]. unfold remove.
    destruct (lookup n (objmap c)) as [[|o]|]; simpl; try exact S0.
    rewrite manager_stop_spec. simpl. repeat split; auto. eexists. split; [reflexivity|]. simpl. auto.
  - (* Get *) split; [|split; discriminate]. destruct (n =? 0); simpl; [exact S0|]. unfold get.
    destruct (reachable_obj c 0); simpl; [|exact S0].
    destruct (lookup n (objmap c)) as [[|o]|]; simpl; try exact S0.
  - (* AddH *) split; [|split; discriminate]. repeat split; auto. eexists. split; [reflexivity|]. simpl. auto.
  - (* Connect *) split; [|split; discriminate]. unfold connect. rewrite A. simpl. exact S0.
Qed.

Lemma stuck_run ops : forall w, Stuck w ->
  Forall2 (fun o x => (forall f p, o = QStart f p -> x = OExc EUsage) /\ (o = QStop -> x = OExc EUsage))
          ops (snd (run w ops)).
Proof.
  induction ops as [|o ops IH]; intros w S; simpl; [constructor|].
  destruct (stuck_step w o S) as [S1 [H1 H2]]. destruct (step w o) as [w1 x]. simpl in *.
  specialize (IH w1 S1). destruct (run w1 ops) as [w2 xs]. simpl in *. constructor; auto.
Qed.

Lemma stuck_after_failed_qstart :
  Stuck (fst (step (init Single Current) (QStart FTcp false))) /\
  snd (step (init Single Current) (QStart FTcp false)) = OExc EOSError.
Proof. vm_compute. repeat split; auto. eexists. repeat split. Qed.

Lemma failed_start_singleton_fixed : forall w f p e w',
  Inv w -> md w = Single -> vr w <> Current -> reg w = false -> qstart f p w = Raise e w' ->
  (reg w' = false /\ cur w' = None /\ lport w' = false) /\
  forall p', exists w'', qstart FNone p' w' = Ret w''.
Proof.
  intros w f p e w' I MS V R H.
  pose proof (failed_qstart_fixed w f p e w' I MS V R H) as K. split; [exact K|].
  destruct K as [K1 [K2 K3]]. intros p'. exact (qstart_clean w' p' K1 K2 K3).
Qed.

Lemma failed_start_singleton_refuted :
  exists o, snd (step (init Single Current) o) = OExc EOSError /\
    forall ops,
      Forall2 (fun o x => (forall f p, o = QStart f p -> x = OExc EUsage) /\ (o = QStop -> x = OExc EUsage))
              ops (snd (run (fst (step (init Single Current) o)) ops)).
Proof.
  exists (QStart FTcp false). destruct stuck_after_failed_qstart as [S E]. split; [exact E|].
  intros ops. exact (stuck_run ops _ S).
Qed.

(* in the demanded behaviour every stop-handler fault is caught *)
Lemma all_caught_fixed w c : vr w = Fixed -> all_caught w c = true.
Proof.
  intros V. unfold all_caught. rewrite V. apply forallb_forall. intros [i h] _. destruct h; reflexivity.
Qed.

Lemma stop_reclaims_all_faults w c :
  Inv w -> vr w = Fixed -> cur w = Some c -> active c = true ->
  exists w' c', ctx_stop c w = Ret w' /\ cur w' = Some c' /\
    (forall o, In o (live_oids (objmap c)) -> count_occ Nat.eq_dec (rel w') o = 1) /\
    rel w' = rel w ++ live_oids (objmap c) /\
    hruns w' = hruns w ++ map fst (shs c) /\
    objmap c' = [] /\ handlers c' = [] /\ cthreads c' = [] /\
    router c' = false /\ tcp c' = false /\ udp c' = false /\ conn c' = false /\ active c' = false /\
    (forall f, ctx_start c' f w' = Raise EUsage w') /\
    ctx_stop c' w' = Raise EUsage w' /\
    (forall i, call w' i = OSkip \/ call w' i = OExc EDelivery).
Proof. intros I V Hc A. apply stop_reclaims; auto. apply all_caught_fixed. exact V. Qed.

(* the tree as it is: a stop handler raising a BaseException that is not an Exception aborts stop(): the context
   stays active, its objects alive and unreleased, the later handlers do not run *)
Lemma stop_handler_base_refuted :
  let r := run (init Direct Tree) [New; CStart FNone; Make 1 KObj true true; AddH HBase; AddH HOk; CStop] in
  snd r = [OOk; OOk; OOk; OOk; OOk; OExc EBase] /\ rel (fst r) = [] /\ hruns (fst r) = [0] /\
  match cur (fst r) with Some c => active c = true /\ cthreads c = [0; 1] /\ router c = true | None => False end.
Proof. vm_compute. repeat split; reflexivity. Qed.

Require QV.C12.TaskPop.
Lemma stop_reclaims_objects_and_tasks : forall w c (honours : nat -> bool) order p,
  Inv w -> cur w = Some c -> active c = true -> all_caught w c = true ->
  (forall i, honours i = true) -> (forall i, In i order -> i < length (TaskPop.tasks p)) ->
  (exists w' c', ctx_stop c w = Ret w' /\ cur w' = Some c' /\
     (forall o, In o (live_oids (objmap c)) -> count_occ Nat.eq_dec (rel w') o = 1) /\
     objmap c' = [] /\ handlers c' = [] /\ cthreads c' = [] /\ router c' = false /\ active c' = false) /\
  (exists p', TaskPop.stop_seq honours TaskPop.NotifyAll order p = Some p' /\
     forall i, In i order -> TaskPop.ended (TaskPop.getT p' i) = true).
Proof.
  intros w c honours order p I Hc A AC H Ho. split.
  - destruct (stop_reclaims w c I Hc A AC) as [w' [c' K]]. exists w', c'.
    destruct K as [K1 [K2 [K3 [_ [_ [K6 [K7 [K8 [K9 [_ [_ [_ [K13 _]]]]]]]]]]]]]. repeat split; assumption.
  - destruct (TaskPop.stop_seq_all_terminates honours H order p Ho) as [p' [E [_ [A' _]]]]. exists p'. split; assumption.
Qed.
