(* C12, calls racing with remove / stop, correspondence: the effects recorded from a real run must be a path of the
   interleaving model in which the hand-over is one region with the running check, ending with the observed outcomes. *)
Require Export QV.Lib.Corr QV.C12.CallModel.

Definition outc_eqb (a b : option outc) : bool :=
  match a, b with
  | Some OVal, Some OVal | Some OErr, Some OErr | None, None => true
  | _, _ => false
  end.

(* a case: stop (true) / remove (false), number of callers, observed effects, observed outcome per caller *)
Definition case := (bool * nat * list lab * list (option outc))%type.

Definition run_case (c : case) : option state :=
  let '(sw, k, tr, _) := c in accept (mkCfg true sw) tr (start k).

Definition check_case (c : case) : bool :=
  let '(_, _, _, outs) := c in
  match run_case c with
  | None => false
  | Some s => list_eqb outc_eqb (map res (cs s)) outs && negb (walive s) && Nat.eqb (relc s) 1
  end.
