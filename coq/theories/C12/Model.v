(* C12 — context lifecycle.  Executable model (definitions only) of

     qmi/core/context.py            QMI_Context.__init__ (creation of the internal "$context" object),
                                    make_rpc_object / make_instrument / make_task -> _internal_make_rpc_object
                                    (reserve name, start manager thread, constructor, publish or roll back),
                                    remove_rpc_object, get_rpc_object_by_name (through the "$context" proxy),
                                    register_stop_handler, connect_to_peer, start, stop
     qmi/core/context_singleton.py  start (create + start + _connect_to_peers), stop, make_* guards
     qmi/core/rpc.py                RpcObjectManager.start/stop, _RpcThread.run (constructor failure path;
                                    release_rpc_object inside try/except at the end of the thread),
                                    blocking call through a proxy (QMI_RpcFuture + MessageRouter.deliver_message)
     qmi/core/messaging.py          MessageRouter.start / start_tcp_server / start_udp_responder / connect_to_peer /
                                    stop, register/unregister_message_handler
     qmi/core/task.py, instrument.py  only: a task runner owns one more thread, ended by its release step.

   State = the three tables the property is about (object map, handler map, worker threads), the lifecycle
   flags, the sockets of the router, the singleton variable, plus logs (release calls, stop-handler runs).
   Faults are INPUTS of the operations: constructor raises, release raises (a property of the object, fixed
   when it is built), stop handler raises (fixed when it is registered), TCP bind fails, UDP bind fails,
   configured peer unreachable.  Exceptions are modelled by a result type with [Raise]; [catch] marks exactly the
   places where the code has `try: ... except: log`.

   Variants: [Fixed] is the behaviour C12 demands: a failed start tears down what it built and resets the
   singleton; stop() continues past a stop handler raising ANY exception class.
   [Tree] transcribes the tree as it is now (failed start repaired; a stop handler raising a BaseException that is
   not an Exception aborts stop()).
   [Current] is the tree before the failed-start repair (a failed start leaves the router thread, the sockets
   already bound, the "$context" object and the singleton variable behind). *)
From Coq Require Export List Arith Bool PeanoNat.
Export ListNotations.

Inductive variant := Fixed | Tree | Current.
Inductive hfault := HOk | HExc | HBase.   (* stop handler: returns / raises an Exception / raises a BaseException that is not an Exception *)
Inductive mode := Direct | Single.       (* QMI_Context objects driven directly / the qmi.start singleton *)
Inductive kind := KObj | KInst | KTask.
Inductive fault := FNone | FTcp | FUdp | FPeer.
Inductive slot := Reserved | Live (o : nat).

Inductive exn :=
| EUsage | EInvalidOp | EDup | EUnknownName | ECtor | EOSError | EConnRefused | EAssert
| ENoActive | EValue | EDelivery | EBase | EOther.

Inductive out := OOk | OVal (o : nat) | OExc (e : exn) | OSkip.

Inductive op :=
| New                                   (* Direct: ctx = QMI_Context("d", cfg) *)
| CStart (f : fault) | CStop            (* Direct: ctx.start() / ctx.stop() *)
| QStart (f : fault) (peer : bool) | QStop   (* Single: qmi.start(...) / qmi.stop() *)
| Make (n : nat) (k : kind) (ctor_ok rel_ok : bool)
| Remove (n : nat) | Get (n : nat)
| Call (i : nat)                        (* call through the i-th proxy ever handed out *)
| AddH (bad : hfault)                   (* register a stop handler (returning / raising, with the class raised) *)
| Connect (reachable : bool).

Record ctx := mkC {
  cid : nat;
  active : bool; used : bool;
  router : bool;                        (* the _EventDrivenThread of the message router runs *)
  tcp : bool; udp : bool;               (* TCP server listening / UDP responder bound *)
  conn : bool;                          (* connected to the peer "srv" *)
  objmap : list (nat * slot);           (* QMI_Context._rpc_object_map, insertion order; name 0 = "$context" *)
  handlers : list nat;                  (* keys of MessageRouter._address_to_messagehandler_map (without "$pubsub") *)
  cthreads : list nat;                  (* object ids whose _RpcThread is running *)
  shs : list (nat * hfault) }.          (* stop handlers: id, what it raises *)

Record world := mkW {
  md : mode; vr : variant;
  cur : option ctx;                     (* the context object the singleton variable / the caller holds *)
  reg : bool;                           (* context_singleton._qmi_context is not None *)
  nextoid : nat; nextcid : nat; nexth : nat;
  rel : list nat;                       (* log of release_rpc_object calls (object ids) *)
  relfail : list nat;                   (* objects whose release step raises *)
  tasks : list nat;                     (* objects that are task runners (own a _TaskThread while alive) *)
  hruns : list nat;                     (* log of stop-handler runs *)
  proxies : list (nat * nat);           (* proxies handed out: context instance, name *)
  created : list nat;                   (* ghost: objects whose constructor succeeded *)
  leaked : list nat;                    (* ghost: live objects of abandoned contexts *)
  lrpc : nat; lev : nat; lport : bool; ludp : nat }.   (* threads / sockets of abandoned contexts *)

Inductive res := Ret (w : world) | Raise (e : exn) (w : world).
Definition bind (r : res) (f : world -> res) : res :=
  match r with Ret w => f w | Raise e w => Raise e w end.
Definition catch (r : res) : res :=           (* try: ... except Exception: log and continue *)
  match r with Ret w => Ret w | Raise _ w => Ret w end.
Definition wof (r : res) : world := match r with Ret w => w | Raise _ w => w end.
Notation "r >>= f" := (bind r f) (at level 50, left associativity).

(* ---- list helpers ------------------------------------------------------------------------ *)
Definition memn (x : nat) (l : list nat) : bool := existsb (Nat.eqb x) l.
Definition remn (x : nat) (l : list nat) : list nat := filter (fun y => negb (Nat.eqb x y)) l.
Fixpoint lookup (n : nat) (m : list (nat * slot)) : option slot :=
  match m with [] => None | (k, v) :: r => if Nat.eqb n k then Some v else lookup n r end.
Definition remk (n : nat) (m : list (nat * slot)) : list (nat * slot) :=
  filter (fun e => negb (Nat.eqb n (fst e))) m.
Definition setk (n : nat) (v : slot) (m : list (nat * slot)) : list (nat * slot) :=
  map (fun e => if Nat.eqb n (fst e) then (fst e, v) else e) m.
Definition names (m : list (nat * slot)) : list nat := map fst m.
Fixpoint live_oids (m : list (nat * slot)) : list nat :=
  match m with
  | [] => []
  | (_, Live o) :: r => o :: live_oids r
  | (_, Reserved) :: r => live_oids r
  end.
Fixpoint live_entries (m : list (nat * slot)) : list (nat * nat) :=
  match m with
  | [] => []
  | (n, Live o) :: r => (n, o) :: live_entries r
  | (_, Reserved) :: r => live_entries r
  end.
Fixpoint reserved_entries (m : list (nat * slot)) : list (nat * slot) :=
  match m with
  | [] => []
  | (n, Live o) :: r => reserved_entries r
  | (n, Reserved) :: r => (n, Reserved) :: reserved_entries r
  end.

Definition valid (n : nat) : bool := (1 <=? n) && (n <=? 4).   (* is_valid_object_name on the name table *)

(* ---- setters ------------------------------------------------------------------------------- *)
Definition set_cur (w : world) (c : option ctx) : world :=
  mkW (md w) (vr w) c (reg w) (nextoid w) (nextcid w) (nexth w) (rel w) (relfail w) (tasks w) (hruns w)
      (proxies w) (created w) (leaked w) (lrpc w) (lev w) (lport w) (ludp w).
Definition set_reg (w : world) (b : bool) : world :=
  mkW (md w) (vr w) (cur w) b (nextoid w) (nextcid w) (nexth w) (rel w) (relfail w) (tasks w) (hruns w)
      (proxies w) (created w) (leaked w) (lrpc w) (lev w) (lport w) (ludp w).
Definition set_ctx (w : world) (c : ctx) : world := set_cur w (Some c).

Definition c_flags (c : ctx) (a u : bool) : ctx :=
  mkC (cid c) a u (router c) (tcp c) (udp c) (conn c) (objmap c) (handlers c) (cthreads c) (shs c).
Definition c_net (c : ctx) (r t u k : bool) : ctx :=
  mkC (cid c) (active c) (used c) r t u k (objmap c) (handlers c) (cthreads c) (shs c).
Definition c_objmap (c : ctx) (m : list (nat * slot)) : ctx :=
  mkC (cid c) (active c) (used c) (router c) (tcp c) (udp c) (conn c) m (handlers c) (cthreads c) (shs c).
Definition c_handlers (c : ctx) (h : list nat) : ctx :=
  mkC (cid c) (active c) (used c) (router c) (tcp c) (udp c) (conn c) (objmap c) h (cthreads c) (shs c).
Definition c_threads (c : ctx) (t : list nat) : ctx :=
  mkC (cid c) (active c) (used c) (router c) (tcp c) (udp c) (conn c) (objmap c) (handlers c) t (shs c).
Definition c_shs (c : ctx) (s : list (nat * hfault)) : ctx :=
  mkC (cid c) (active c) (used c) (router c) (tcp c) (udp c) (conn c) (objmap c) (handlers c) (cthreads c) s.

(* ---- the object worker thread: constructor, release ------------------------------------------ *)
(* _RpcThread.run end: `try: rpc_object.release_rpc_object() except BaseException: log`; then the thread
   ends.  A task runner's release step stops and joins its _TaskThread (the [tasks] table only tells which
   live objects own one).  That this step RETURNS is an assumption of this model, made explicit and proved for every
   population of tasks in TaskPop.v (theorem C12_task_population_stops) under the hypothesis "a task woken with its
   stop flag set ends" = property C11 + tasks block only in QMI's stoppable waits. *)
Definition release (o : nat) (w : world) : res :=
  let w' := mkW (md w) (vr w) (cur w) (reg w) (nextoid w) (nextcid w) (nexth w) (rel w ++ [o]) (relfail w)
                (tasks w) (hruns w) (proxies w) (created w) (leaked w) (lrpc w) (lev w) (lport w) (ludp w) in
  if memn o (relfail w) then Raise EOther w' else Ret w'.

(* RpcObjectManager.stop: shutdown + join of the worker thread of object o in context c *)
Definition manager_stop (c : ctx) (o : nat) (w : world) : res :=
  catch (release o w) >>= fun w1 => Ret (set_ctx w1 (c_threads c (remn o (cthreads c)))).

(* allocate an object id: the constructor starts running *)
Definition alloc (w : world) : world :=
  mkW (md w) (vr w) (cur w) (reg w) (S (nextoid w)) (nextcid w) (nexth w) (rel w) (relfail w) (tasks w) (hruns w)
      (proxies w) (created w) (leaked w) (lrpc w) (lev w) (lport w) (ludp w).
(* the constructor succeeded: remember the object's fault / kind attributes *)
Definition born (o : nat) (k : kind) (rel_ok : bool) (w : world) : world :=
  mkW (md w) (vr w) (cur w) (reg w) (nextoid w) (nextcid w) (nexth w) (rel w)
      (if rel_ok then relfail w else o :: relfail w)
      (match k with KTask => o :: tasks w | _ => tasks w end) (hruns w)
      (proxies w) (o :: created w) (leaked w) (lrpc w) (lev w) (lport w) (ludp w).
Definition add_proxy (p : nat * nat) (w : world) : world :=
  mkW (md w) (vr w) (cur w) (reg w) (nextoid w) (nextcid w) (nexth w) (rel w) (relfail w) (tasks w) (hruns w)
      (proxies w ++ [p]) (created w) (leaked w) (lrpc w) (lev w) (lport w) (ludp w).

(* ---- _internal_make_rpc_object -------------------------------------------------------------- *)
(* under the map lock: active check (internal names exempt), duplicate check, reserve *)
Definition reserve (c : ctx) (n : nat) : ctx := c_objmap c (objmap c ++ [(n, Reserved)]).
(* manager.start(): the worker thread exists from here on *)
Definition spawn (c : ctx) (o : nat) : ctx := c_threads c (cthreads c ++ [o]).
(* constructor succeeded: proxy made, map entry published, handler registered *)
Definition publish (c : ctx) (n o : nat) : ctx :=
  let c1 := c_objmap c (setk n (Live o) (objmap c)) in c_handlers c1 (handlers c1 ++ [n]).
(* constructor raised: the thread has ended, manager.stop() joins it, the name is released *)
Definition rollback (c : ctx) (n o : nat) : ctx :=
  let c1 := c_threads c (remn o (cthreads c)) in c_objmap c1 (remk n (objmap c1)).

Definition internal_make (c : ctx) (n : nat) (k : kind) (ctor_ok rel_ok : bool) (w : world) : res :=
  if negb (active c) && negb (Nat.eqb n 0) then Raise EInvalidOp w
  else if memn n (names (objmap c)) then Raise EDup w
  else
    let c1 := reserve c n in
    let o := nextoid w in
    let c2 := spawn c1 o in
    let w2 := alloc w in
    if ctor_ok then
      let w3 := born o k rel_ok w2 in
      Ret (add_proxy (cid c, n) (set_ctx w3 (publish c2 n o)))
    else Raise ECtor (set_ctx w2 (rollback c2 n o)).

Definition make (c : ctx) (n : nat) (k : kind) (ctor_ok rel_ok : bool) (w : world) : res :=
  if negb (valid n) then Raise EUsage w else internal_make c n k ctor_ok rel_ok w.

(* ---- remove_rpc_object ------------------------------------------------------------------------ *)
Definition remove (c : ctx) (n : nat) (w : world) : res :=
  match lookup n (objmap c) with
  | Some (Live o) =>
      let c1 := c_objmap c (setk n Reserved (objmap c)) in          (* mark as being removed *)
      let c2 := c_handlers c1 (remn n (handlers c1)) in               (* unregister message handler *)
      let c3 := c_objmap c2 (remk n (objmap c2)) in                   (* release the name *)
      manager_stop c3 o (set_ctx w c3)                                (* stop the manager *)
  | _ => Raise EUnknownName w
  end.

(* ---- get_rpc_object_by_name (a call to the "$context" object) and calls through proxies ------ *)
Definition reachable_obj (c : ctx) (n : nat) : option nat :=
  if memn n (handlers c) then match lookup n (objmap c) with Some (Live o) => Some o | _ => None end else None.

Definition get (c : ctx) (n : nat) (w : world) : res :=
  match reachable_obj c 0 with
  | None => Raise EDelivery w
  | Some _ => match lookup n (objmap c) with
              | Some (Live _) => Ret (add_proxy (cid c, n) w)
              | _ => Raise EValue w
              end
  end.

Definition call (w : world) (i : nat) : out :=
  match nth_error (proxies w) i with
  | None => OSkip
  | Some (ci, n) =>
      match cur w with
      | Some c => if Nat.eqb ci (cid c)
                  then match reachable_obj c n with Some o => OVal o | None => OExc EDelivery end
                  else OExc EDelivery
      | None => OExc EDelivery
      end
  end.

(* ---- stop handlers, peers --------------------------------------------------------------------- *)
Definition addh (c : ctx) (bad : hfault) (w : world) : res :=
  let w1 := mkW (md w) (vr w) (cur w) (reg w) (nextoid w) (nextcid w) (S (nexth w)) (rel w) (relfail w)
                (tasks w) (hruns w) (proxies w) (created w) (leaked w) (lrpc w) (lev w) (lport w) (ludp w) in
  Ret (set_ctx w1 (c_shs c (shs c ++ [(nexth w, bad)]))).

Definition run_handler (h : nat * hfault) (w : world) : res :=
  let w1 := mkW (md w) (vr w) (cur w) (reg w) (nextoid w) (nextcid w) (nexth w) (rel w) (relfail w)
                (tasks w) (hruns w ++ [fst h]) (proxies w) (created w) (leaked w) (lrpc w) (lev w) (lport w) (ludp w) in
  match snd h with HOk => Ret w1 | HExc => Raise EOther w1 | HBase => Raise EBase w1 end.

(* QMI_Context.stop: `try: stop_handler() except Exception: log`.  The tree as it is lets a BaseException that is not
   an Exception (SystemExit, KeyboardInterrupt, ...) escape: stop() is aborted.  C12 ("even if stop handlers raise")
   demands that the shutdown continues: variant [Fixed] catches every class. *)
Definition catch_exception (r : res) : res :=
  match r with Raise EBase w => Raise EBase w | Raise _ w => Ret w | Ret w => Ret w end.
Definition catch_stop_handler (v : variant) (r : res) : res :=
  match v with Fixed => catch r | _ => catch_exception r end.

Definition connect (c : ctx) (reachable : bool) (w : world) : res :=
  if negb (active c) then Raise EInvalidOp w
  else if reachable then
    if conn c then Raise EUsage w
    else Ret (set_ctx w (c_net c (router c) (tcp c) (udp c) true))
  else Raise EConnRefused w.

(* ---- stopping the remaining managers (shared by stop and by the Fixed failed-start path) ------ *)
Fixpoint stop_managers (ms : list (nat * nat)) (w : world) : res :=
  match ms with
  | [] => Ret w
  | (n, o) :: r =>
      match cur w with
      | None => Ret w
      | Some c =>
          let c1 := c_handlers c (remn n (handlers c)) in       (* unregister_message_handler(manager) *)
          manager_stop c1 o (set_ctx w c1) >>= stop_managers r    (* manager.stop() *)
      end
  end.

Definition router_stop (c : ctx) : ctx := c_net c false false false false.

(* collect the live managers, drop them from the map (reserved entries stay), stop each *)
Definition reclaim (c : ctx) (w : world) : res :=
  let ms := live_entries (objmap c) in
  let c1 := c_objmap c (reserved_entries (objmap c)) in
  stop_managers ms (set_ctx w c1).

Fixpoint run_handlers (hs : list (nat * hfault)) (w : world) : res :=
  match hs with
  | [] => Ret w
  | h :: r => catch_stop_handler (vr w) (run_handler h w) >>= run_handlers r
  end.

(* QMI_Context.stop *)
Definition ctx_stop (c : ctx) (w : world) : res :=
  if negb (active c) then Raise EUsage w
  else
    run_handlers (shs c) w >>= fun w1 =>
    let c1 := router_stop c in
    let c2 := c_flags c1 false (used c1) in
    reclaim c2 (set_ctx w1 c2).

(* QMI_Context.start; [portheld]: the TCP port is still bound by an abandoned context *)
Definition ctx_start (c : ctx) (f : fault) (w : world) : res :=
  if active c then Raise EUsage w
  else if used c then Raise EUsage w
  else if router c then Raise EAssert w                 (* MessageRouter.start: assert self._thread is None *)
  else
    let c1 := c_net c true false false false in          (* router thread started *)
    let fail (cx : ctx) : res :=
      match vr w with
      | Current => Raise EOSError (set_ctx w cx)         (* everything built so far stays *)
      | _ =>                                             (* tear down: router, sockets, remaining objects *)
          let cy := c_flags (router_stop cx) false true in
          match reclaim cy (set_ctx w cy) with
          | Ret w' => Raise EOSError w' | Raise e w' => Raise e w' end
      end in
    if (match f with FTcp => true | _ => false end) || lport w then fail c1
    else
      let c2 := c_net c1 true true false false in        (* TCP server listening *)
      if (match f with FUdp => true | _ => false end) then fail c2
      else
        let c3 := c_net c2 true true true false in       (* UDP responder bound *)
        Ret (set_ctx w (c_flags c3 true true)).

(* ---- creating a context object: QMI_Context.__init__ makes the "$context" object ------------- *)
Definition abandon (w : world) : world :=
  match cur w with
  | None => w
  | Some c =>
      mkW (md w) (vr w) None (reg w) (nextoid w) (nextcid w) (nexth w) (rel w) (relfail w) (tasks w) (hruns w)
          (proxies w) (created w) (live_oids (objmap c) ++ leaked w)
          (length (cthreads c) + lrpc w) ((if router c then 1 else 0) + lev w) (tcp c || lport w)
          ((if udp c then 1 else 0) + ludp w)
  end.

Definition new_ctx (w : world) : res :=
  let w0 := abandon w in
  let c := mkC (nextcid w0) false false false false false false [] [] [] [] in
  let w1 := mkW (md w0) (vr w0) (Some c) (reg w0) (nextoid w0) (S (nextcid w0)) (nexth w0) (rel w0) (relfail w0)
                (tasks w0) (hruns w0) (proxies w0) (created w0) (leaked w0) (lrpc w0) (lev w0) (lport w0) (ludp w0) in
  match internal_make c 0 KObj true true w1 with
  | Ret w2 =>       (* the proxy of "$context" is not handed to the caller *)
      Ret (mkW (md w2) (vr w2) (cur w2) (reg w2) (nextoid w2) (nextcid w2) (nexth w2) (rel w2) (relfail w2)
               (tasks w2) (hruns w2) (proxies w1) (created w2) (leaked w2) (lrpc w2) (lev w2) (lport w2) (ludp w2))
  | r => r
  end.

(* ---- the singleton layer: qmi.start / qmi.stop -------------------------------------------------- *)
Definition with_cur (w : world) (f : ctx -> world -> res) : res :=
  match cur w with Some c => f c w | None => Raise ENoActive w end.

Definition qstart_body (f : fault) (peer : bool) (w : world) : res :=
  with_cur w (fun c w => ctx_start c f w) >>= fun w1 =>
  match f with
  | FPeer => with_cur w1 (fun c w => connect c false w)
  | _ => if peer then with_cur w1 (fun c w => connect c true w) else Ret w1
  end.

Definition qstart (f : fault) (peer : bool) (w : world) : res :=
  if reg w then Raise EUsage w
  else
    new_ctx w >>= fun w1 =>
    let w2 := set_reg w1 true in
    match qstart_body f peer w2 with
    | Ret w3 => Ret w3
    | Raise e w3 =>
        match vr w with
        | Current => Raise e w3
        | _ =>                                      (* reset the singleton; stop the context if it got active *)
            let w4 := set_reg w3 false in
            match cur w4 with
            | Some c => if active c then Raise e (set_cur (wof (ctx_stop c w4)) None) else Raise e (set_cur w4 None)
            | None => Raise e w4
            end
        end
    end.

Definition qstop (w : world) : res :=
  if negb (reg w) then Raise ENoActive w
  else with_cur w ctx_stop >>= fun w1 => Ret (set_reg w1 false).

(* ---- one operation ---------------------------------------------------------------------------- *)
Definition outof (r : res) : out := match r with Ret _ => OOk | Raise e _ => OExc e end.

Definition is_direct (w : world) : bool := match md w with Direct => true | Single => false end.

Definition step (w : world) (o : op) : world * out :=
  let ret (r : res) := (wof r, outof r) in
  let on_ctx (f : ctx -> world -> res) :=
    match cur w with Some c => ret (f c w) | None => (w, OSkip) end in
  match o with
  | New => if is_direct w && negb (match cur w with Some c => active c | None => false end)
           then ret (new_ctx w) else (w, OSkip)
  | CStart f => if is_direct w then on_ctx (fun c w => ctx_start c f w) else (w, OSkip)
  | CStop => if is_direct w then on_ctx ctx_stop else (w, OSkip)
  | QStart f p => if is_direct w then (w, OSkip) else ret (qstart f p w)
  | QStop => if is_direct w then (w, OSkip) else ret (qstop w)
  | Make n k a b =>
      if is_direct w then on_ctx (fun c w => make c n k a b w)
      else if reg w then on_ctx (fun c w => make c n k a b w) else (w, OExc ENoActive)
  | Remove n => on_ctx (fun c w => remove c n w)
  | Get n => if Nat.eqb n 0 then (w, OSkip) else on_ctx (fun c w => get c n w)
  | Call i => (w, call w i)
  | AddH b => on_ctx (fun c w => addh c b w)
  | Connect r => on_ctx (fun c w => connect c r w)
  end.

Definition init (m : mode) (v : variant) : world :=
  mkW m v None false 0 0 0 [] [] [] [] [] [] [] 0 0 false 0.

Fixpoint run (w : world) (ops : list op) : world * list out :=
  match ops with
  | [] => (w, [])
  | o :: r => let '(w1, x) := step w o in let '(w2, xs) := run w1 r in (w2, x :: xs)
  end.

(* ---- what the harness observes after every operation ------------------------------------------ *)
Record obs := mkO {
  o_out : out;
  o_rpc : nat; o_ev : nat; o_task : nat;          (* QMI threads alive, by class *)
  o_handlers : list nat; o_objmap : list (nat * bool);
  o_active : bool; o_used : bool;
  o_listen : bool; o_udp : nat; o_conn : nat;
  o_reg : bool;
  o_rel : list nat; o_hruns : list nat;
  o_next : nat; o_nprox : nat }.

Definition observe (w : world) (x : out) : obs :=
  let cm := match cur w with
            | Some c => c
            | None => mkC 0 false false false false false false [] [] [] [] end in
  mkO x
      (length (cthreads cm) + lrpc w)
      ((if router cm then 1 else 0) + lev w)
      (length (filter (fun o => memn o (tasks w)) (cthreads cm)))
      (handlers cm)
      (map (fun e => (fst e, match snd e with Live _ => true | Reserved => false end)) (objmap cm))
      (active cm) (used cm)
      (tcp cm || lport w) ((if udp cm then 1 else 0) + ludp w) (if conn cm then 1 else 0)
      (reg w) (rel w) (hruns w) (nextoid w) (length (proxies w)).

Fixpoint run_obs (w : world) (ops : list op) : list obs :=
  match ops with
  | [] => []
  | o :: r => let '(w1, x) := step w o in observe w1 x :: run_obs w1 r
  end.
