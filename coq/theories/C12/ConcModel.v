(* C12, concurrent clause: a second thread runs remove_rpc_object / make_rpc_object (make_task) while the
   creating thread is inside QMI_Context.stop() -> _stop_rpc_objects().  Definitions only.

   Interleaving model at the granularity of the atomic regions of
     qmi/core/context.py  remove_rpc_object:          [lock: look up, mark as being removed] ; unregister handler ;
                                                      [lock: release name] ; manager.stop()
                          _internal_make_rpc_object:  [lock: active?, duplicate?, reserve] ; manager.start + constructor ;
                                                      [lock: active? publish] ; register handler      (or, on the failure
                                                      paths, manager.stop() ; [lock: release name])
                          _stop_rpc_objects:          [lock: active := False, collect and delete the live entries] ;
                                                      for each collected manager: unregister handler ; manager.stop()
   (regions under _rpc_object_map_lock exclude each other; register/unregister take the router's own lock;
    manager.stop() = shutdown + join of the object's worker thread, whose last act is release_rpc_object inside
    try/except).  Thread A = the creating thread in stop() after the stop handlers and the router stop; thread B = the
    other thread.  Objects are indexed by name (0 = "$context").

   Switches: [reg_atomic] = the handler is registered inside the publishing region (proposed repair
   fixes/C12_register_handler_under_map_lock.diff; false = the tree as it is);
   [clear_all] = stop drops reservations too (`_rpc_object_map.clear()`, the seeded regression). *)
From Coq Require Export List Arith Bool.
Export ListNotations.

Inductive sl := Absent | Rsv | Liv.
Record ob := mkOb { slot : sl; hand : bool; thr : bool; born : bool; relc : nat }.

Inductive astate := A0 | ALoop (todo : list nat) (unregd : bool) | ADone (ok : bool).
Inductive bres := BOk | BUnknown | BInvalid | BDup | BCtor | BOther.
Inductive bstate := R0 | R1 | R2 | R3 | M0 | M1 | M2 | M3 | MF2 | MI2 | BDone (r : bres).

Record cfg := mkCfg { reg_atomic : bool; clear_all : bool; bx : nat; ctor_ok : bool }.

Record state := mkSt { objs : list ob; ord : list nat; act : bool; pa : astate; pb : bstate }.

Inductive lab :=
| LCollect | LUnreg (k : nat) | LUnregFail (k : nat) | LStopped (k : nat)
| LReserve (k : nat) | LDelname (k : nat) | LDelnameErr (k : nat)
| LBorn (k : nat) | LPublish (k : nat) | LReg (k : nat) | LRaise (r : bres).

Definition ob0 := mkOb Absent false false false 0.
Definition getob (s : state) (k : nat) : ob := nth k (objs s) ob0.
Fixpoint upd {A} (l : list A) (k : nat) (v : A) : list A :=
  match l, k with
  | [], _ => []
  | _ :: r, 0 => v :: r
  | x :: r, S k' => x :: upd r k' v
  end.
Definition setob (s : state) (k : nat) (o : ob) : state := mkSt (upd (objs s) k o) (ord s) (act s) (pa s) (pb s).
Definition set_pa (s : state) (a : astate) : state := mkSt (objs s) (ord s) (act s) a (pb s).
Definition set_pb (s : state) (b : bstate) : state := mkSt (objs s) (ord s) (act s) (pa s) b.

Definition is_liv (o : ob) : bool := match slot o with Liv => true | _ => false end.
Definition is_absent (o : ob) : bool := match slot o with Absent => true | _ => false end.

(* manager.stop(): the worker thread runs release_rpc_object once (if the object exists) and ends *)
Definition mstop (o : ob) : ob :=
  if thr o then mkOb (slot o) (hand o) false (born o) (S (relc o)) else o.
Definition with_slot (o : ob) (v : sl) : ob := mkOb v (hand o) (thr o) (born o) (relc o).
Definition with_hand (o : ob) (h : bool) : ob := mkOb (slot o) h (thr o) (born o) (relc o).

(* ---- thread A: _stop_rpc_objects ---------------------------------------------------------------- *)
Definition collect (c : cfg) (s : state) : state :=
  let todo := filter (fun k => is_liv (getob s k)) (ord s) in
  let objs' := map (fun o => match slot o with
                             | Liv => with_slot o Absent
                             | Rsv => if clear_all c then with_slot o Absent else o
                             | Absent => o end) (objs s) in
  mkSt objs' (ord s) false (match todo with [] => ADone true | _ => ALoop todo false end) (pb s).

Definition stepA (c : cfg) (s : state) : option (state * lab) :=
  match pa s with
  | A0 => Some (collect c s, LCollect)
  | ALoop [] _ => None
  | ALoop (k :: r) false =>
      let o := getob s k in
      if hand o then Some (set_pa (setob s k (with_hand o false)) (ALoop (k :: r) true), LUnreg k)
      else Some (set_pa s (ADone false), LUnregFail k)       (* QMI_UnknownNameException out of stop() *)
  | ALoop (k :: r) true =>
      let s1 := setob s k (mstop (getob s k)) in
      Some (set_pa s1 (match r with [] => ADone true | _ => ALoop r false end), LStopped k)
  | ADone _ => None
  end.

(* ---- thread B ------------------------------------------------------------------------------------ *)
Definition delname (s : state) (x : nat) (r : bres) : state * lab :=
  let o := getob s x in
  if is_absent o then (set_pb s (BDone BOther), LDelnameErr x)      (* KeyError *)
  else (set_pb (setob s x (with_slot o Absent)) (BDone r), LDelname x).

Definition stepB (c : cfg) (s : state) : option (state * lab) :=
  let x := bx c in
  let o := getob s x in
  match pb s with
  | R0 => if is_liv o then Some (set_pb (setob s x (with_slot o Rsv)) R1, LReserve x)
          else Some (set_pb s (BDone BUnknown), LRaise BUnknown)
  | R1 => if hand o then Some (set_pb (setob s x (with_hand o false)) R2, LUnreg x)
          else Some (set_pb s (BDone BOther), LUnregFail x)
  | R2 => let '(s', l) := delname s x BOk in
          match pb s' with
          | BDone BOk => Some (set_pb s' R3, l)
          | _ => Some (s', l)
          end
  | R3 => Some (set_pb (setob s x (mstop o)) (BDone BOk), LStopped x)
  | M0 => if negb (act s) then Some (set_pb s (BDone BInvalid), LRaise BInvalid)
          else if negb (is_absent o) then Some (set_pb s (BDone BDup), LRaise BDup)
          else Some (set_pb (mkSt (upd (objs s) x (with_slot o Rsv)) (ord s ++ [x]) (act s) (pa s) (pb s)) M1, LReserve x)
  | M1 => if ctor_ok c
          then Some (set_pb (setob s x (mkOb (slot o) (hand o) true true (relc o))) M2, LBorn x)
          else Some (set_pb s MF2, LStopped x)             (* constructor raised: the manager is stopped *)
  | M2 => if act s
          then Some (set_pb (setob s x (mkOb Liv (if reg_atomic c then true else hand o) (thr o) (born o) (relc o))) M3,
                     LPublish x)
          else Some (set_pb (setob s x (mstop o)) MI2, LStopped x)   (* context stopped meanwhile: stop the manager *)
  | M3 => Some (set_pb (if reg_atomic c then s else setob s x (with_hand o true)) (BDone BOk), LReg x)
  | MF2 => Some (delname s x BCtor)
  | MI2 => Some (delname s x BInvalid)
  | BDone _ => None
  end.

Definition olist {A} (o : option A) : list A := match o with Some x => [x] | None => [] end.
Definition succ (c : cfg) (s : state) : list state :=
  map fst (olist (stepA c s)) ++ map fst (olist (stepB c s)).

(* initial state: the objects named in [order] are live (handler registered, worker thread running) *)
Definition live0 := mkOb Liv true true true 0.
Definition start (order : list nat) (b : bstate) : state :=
  mkSt (map (fun k => if existsb (Nat.eqb k) order then live0 else ob0) (seq 0 5)) order true A0 b.

Definition done (s : state) : bool :=
  match pa s, pb s with ADone _, BDone _ => true | _, _ => false end.

(* what C12 demands of the final states *)
Definition ob_clean (o : ob) : bool :=
  is_absent o && negb (hand o) && negb (thr o) && Nat.eqb (relc o) (if born o then 1 else 0).
Definition bres_ok (b : bres) : bool := match b with BOther => false | _ => true end.
Definition good_final (s : state) : bool :=
  match pa s, pb s with
  | ADone true, BDone r => bres_ok r && forallb ob_clean (objs s)
  | _, _ => false
  end.
(* never released twice, at any time *)
Definition safe (s : state) : bool := forallb (fun o => Nat.leb (relc o) 1) (objs s).

(* deterministic execution of a schedule (true = thread A moves) *)
Fixpoint exec (c : cfg) (sched : list bool) (s : state) : state :=
  match sched with
  | [] => s
  | who :: r =>
      match (if who then stepA c s else stepB c s) with
      | Some (s', _) => exec c r s'
      | None => exec c r s
      end
  end.

(* trace acceptance: the observed sequence of (thread, effect) must be a path of the model *)
Definition lab_eqb (a b : lab) : bool :=
  match a, b with
  | LCollect, LCollect => true
  | LUnreg x, LUnreg y | LUnregFail x, LUnregFail y | LStopped x, LStopped y | LReserve x, LReserve y
  | LDelname x, LDelname y | LDelnameErr x, LDelnameErr y | LBorn x, LBorn y | LPublish x, LPublish y
  | LReg x, LReg y => Nat.eqb x y
  | LRaise r, LRaise r' =>
      match r, r' with
      | BOk, BOk | BUnknown, BUnknown | BInvalid, BInvalid | BDup, BDup | BCtor, BCtor | BOther, BOther => true
      | _, _ => false
      end
  | _, _ => false
  end.
Fixpoint accept (c : cfg) (tr : list (bool * lab)) (s : state) : option state :=
  match tr with
  | [] => Some s
  | (who, l) :: r =>
      match (if who then stepA c s else stepB c s) with
      | Some (s', l') => if lab_eqb l l' then accept c r s' else None
      | None => None
      end
  end.
