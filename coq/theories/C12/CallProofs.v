(* C12, calls racing with remove / stop: reflection proofs on the finite interleaving model of CallModel.v. *)
Require Import QV.Lib.LTS QV.C12.CallModel.

Definition state_eq_dec (a b : state) : {a = b} + {a <> b}.
Proof. repeat decide equality. Defined.
Definition state_eqb (a b : state) : bool := if state_eq_dec a b then true else false.
Lemma state_eqb_sound a b : state_eqb a b = true -> a = b.
Proof. unfold state_eqb. destruct (state_eq_dec a b); [auto | discriminate]. Qed.

Definition Reachable (c : cfg) (k : nat) : state -> Prop := Reach state (succ c) (start k).
Definition reach_set (c : cfg) (k : nat) : list state := explore state state_eqb (succ c) (start k) 80.
Definition check (c : cfg) (k : nat) : bool :=
  let l := reach_set c k in closed state state_eqb (succ c) (start k) l && forallb (inv_all c) l.

Lemma check_sound c k : check c k = true -> forall s, Reachable c k s -> inv_all c s = true.
Proof.
  unfold check. intros H s R. apply andb_true_iff in H as [Hc Hi].
  exact (closed_set_invariant state state_eqb state_eqb_sound (succ c) (start k) _ (inv_all c) Hc Hi s R).
Qed.

(* instances: hand-over in one region; remove (no sweep) and stop (sweep), each with 1 and 2 concurrent callers *)
Definition call_instances : list (cfg * nat) :=
  [(mkCfg true false, 1); (mkCfg true false, 2); (mkCfg true true, 1); (mkCfg true true, 2)].

Lemma call_checked : forallb (fun i => check (fst i) (snd i)) call_instances = true.
Proof. vm_compute. reflexivity. Qed.

Lemma call_vs_stop : forall c k, In (c, k) call_instances ->
  forall s, Reachable c k s ->
    accepted_pending s = true /\ ended_worker_queue_empty s = true /\ exec_ok s = true /\
    (all_done s = true -> good_final s = true) /\ (all_done s = false -> succ c s <> []).
Proof.
  intros c k Hin s R. pose proof call_checked as H. rewrite forallb_forall in H.
  specialize (H (c, k) Hin). simpl in H. pose proof (check_sound c k H s R) as K.
  unfold inv_all in K. repeat (apply andb_true_iff in K as [K ?]).
  repeat split; auto.
  - intros D. rewrite D in *. assumption.
  - intros D. rewrite D in *. destruct (succ c s); [discriminate | discriminate].
Qed.

(* every accepted request is executed or answered with an error reply before the worker thread ends *)
Lemma accepted_request_answered : forall c k, In (c, k) call_instances ->
  forall s, Reachable c k s -> walive s = false ->
  forall i, i < length (cs s) -> pc (getc s i) = CWait -> res (getc s i) <> None.
Proof.
  intros c k Hin s R W i Hi P N. destruct (call_vs_stop c k Hin s R) as [A [E _]].
  unfold ended_worker_queue_empty in E. rewrite W in E. simpl in E.
  unfold accepted_pending in A. rewrite forallb_forall in A.
  assert (In i (seq 0 (length (cs s)))) as Hs by (apply in_seq; split; [apply Nat.le_0_l | exact Hi]).
  specialize (A i Hs). simpl in A. rewrite P, N in A. destruct (queue s); [discriminate A | discriminate E].
Qed.

Lemma reach_exec_labels c k tr : forall s, Reachable c k s -> Reachable c k (exec_labels c tr s).
Proof.
  induction tr as [|l r IH]; intros s R; simpl; [exact R|].
  destruct (find_step c s l) as [s'|] eqn:E; [|apply IH; exact R].
  apply IH. eapply Reach_step; [exact R|]. unfold find_step in E.
  destruct (filter (fun p => lab_eqb (snd p) l) (steps c s)) as [|[s1 l1] t] eqn:F; [discriminate|].
  inversion E; subst. unfold succ. apply in_map_iff. exists (s', l1). split; [reflexivity|].
  assert (In (s', l1) (filter (fun p => lab_eqb (snd p) l) (steps c s))) as Hf by (rewrite F; left; reflexivity).
  apply filter_In in Hf. tauto.
Qed.

(* check and push in separate regions (the hand-over is not serialised against stop): a request is pushed into the
   queue of a worker that has ended; remove_rpc_object has returned, the call never gets an outcome, nobody can move *)
Lemma handover_outside_region_refuted :
  exists s, Reachable (mkCfg false false) 1 s /\
    sp s = SDone /\ walive s = false /\ queue s = [0] /\ pc (getc s 0) = CWait /\ res (getc s 0) = None /\
    succ (mkCfg false false) s = [].
Proof.
  exists (exec_labels (mkCfg false false) [LHit 0; LTau; LUnreg; LStopRegion; LTau; LRelease; LJoined; LAccept 0] (start 1)).
  split; [apply reach_exec_labels; apply Reach_init|]. vm_compute. repeat split; reflexivity.
Qed.
