(* C12, concurrent clause 2: calls through a proxy racing with remove_rpc_object / stop of the object.  Definitions only.

   Interleaving model at the granularity of the regions of
     qmi/core/messaging.py  MessageRouter.deliver_message: [router lock: look up the handler] ; handler.handle_message
     qmi/core/rpc.py        RpcObjectManager.handle_message: [_stop_lock: `if not self._running: raise` ; push the request
                                                               into the worker's queue]      <- ONE region ([atomic] = true)
                            RpcObjectManager.stop:           [_stop_lock: _running = False] ; thread.shutdown() ; thread.join()
                            _RpcThread.run:                  [cv: shutdown requested? pop] execute + reply ... ;
                                                             after the loop: _reject_remaining_requests ([cv: pop] error reply ...
                                                             until the queue is empty) ; release_rpc_object ; thread ends
     qmi/core/context.py    remove_rpc_object / _stop_rpc_objects: unregister handler ; manager.stop()   (for this object)
                            stop: afterwards every QMI_RpcFuture still registered is failed with an error reply ([sweep])
   The hand-over of a request (running check + push) MUST be one region with the running check: with [atomic] = false
   (check and push in separate regions - the seeded regression) a request can be pushed into the queue of a worker
   that has already ended.  Threads: callers 0..k-1, the stopper (thread calling remove / stop), the object's worker. *)
From Coq Require Export List Arith Bool.
Export ListNotations.

Inductive cpc := CStart | CInHM | CChecked | CWait | CDone.
Inductive outc := OVal | OErr.
Inductive spc := S0 | S1 | S2 | S3 | S4 | SDone.
Record cst := mkCs { pc : cpc; res : option outc; nexec : nat }.
Record state := mkSt {
  cs : list cst; sp : spc;
  hand : bool;            (* the manager is registered as message handler *)
  running : bool;         (* RpcObjectManager._running *)
  shut : bool;            (* worker's _shutdown_requested *)
  walive : bool;          (* the worker thread has not ended *)
  queue : list nat;       (* requests in the worker's fifo (caller ids) *)
  relc : nat }.           (* release_rpc_object calls *)
Record cfg := mkCfg { atomic : bool; sweep : bool }.

Inductive lab :=
| LHit (i : nat) | LMiss (i : nat) | LAccept (i : nat) | LRefused (i : nat) | LDone (i : nat)
| LExec (i : nat) | LReject (i : nat) | LRelease
| LUnreg | LStopRegion | LJoined | LSweep (i : nat) | LTau.

Fixpoint upd {A} (l : list A) (k : nat) (v : A) : list A :=
  match l, k with
  | [], _ => []
  | _ :: r, 0 => v :: r
  | x :: r, S k' => x :: upd r k' v
  end.
Definition cs0 := mkCs CStart None 0.
Definition getc (s : state) (i : nat) : cst := nth i (cs s) cs0.
Definition setc (s : state) (i : nat) (c : cst) : state :=
  mkSt (upd (cs s) i c) (sp s) (hand s) (running s) (shut s) (walive s) (queue s) (relc s).
Definition set_sp (s : state) (p : spc) : state :=
  mkSt (cs s) p (hand s) (running s) (shut s) (walive s) (queue s) (relc s).
(* QMI_RpcFuture._set_result: the first result wins *)
Definition set_res (c : cst) (o : outc) : cst :=
  mkCs (pc c) (match res c with None => Some o | r => r end) (nexec c).
Definition with_pc (c : cst) (p : cpc) : cst := mkCs p (res c) (nexec c).
Definition push (s : state) (i : nat) : state :=
  mkSt (cs s) (sp s) (hand s) (running s) (shut s) (walive s) (queue s ++ [i]) (relc s).

(* ---- caller i ----------------------------------------------------------------------------------------- *)
Definition stepC (c : cfg) (i : nat) (s : state) : option (state * lab) :=
  let x := getc s i in
  match pc x with
  | CStart => if hand s then Some (setc s i (with_pc x CInHM), LHit i)
              else Some (setc s i (with_pc (set_res x OErr) CWait), LMiss i)       (* unknown destination *)
  | CInHM =>
      if running s then
        if atomic c then Some (push (setc s i (with_pc x CWait)) i, LAccept i)
        else Some (setc s i (with_pc x CChecked), LTau)
      else Some (setc s i (with_pc (set_res x OErr) CWait), LRefused i)           (* "already stopped" *)
  | CChecked => Some (push (setc s i (with_pc x CWait)) i, LAccept i)
  | CWait => match res x with Some _ => Some (setc s i (with_pc x CDone), LDone i) | None => None end
  | CDone => None
  end.

(* ---- the worker thread of the object ------------------------------------------------------------------- *)
Definition stepW (s : state) : option (state * lab) :=
  if negb (walive s) then None
  else if shut s then
    match queue s with
    | i :: q =>                                    (* _reject_remaining_requests: error reply *)
        Some (mkSt (upd (cs s) i (set_res (getc s i) OErr)) (sp s) (hand s) (running s) (shut s) true q (relc s), LReject i)
    | [] =>                                        (* release_rpc_object, the thread ends *)
        Some (mkSt (cs s) (sp s) (hand s) (running s) (shut s) false [] (S (relc s)), LRelease)
    end
  else
    match queue s with
    | i :: q =>                                    (* execute the method, send the reply *)
        let x := getc s i in
        Some (mkSt (upd (cs s) i (set_res (mkCs (pc x) (res x) (S (nexec x))) OVal)) (sp s) (hand s) (running s) (shut s)
                   true q (relc s), LExec i)
    | [] => None                                   (* waits on its condition variable *)
    end.

(* ---- the thread that removes the object / stops the context -------------------------------------------- *)
(* stop's sweep iterates over a snapshot of the registered handlers and fails every QMI_RpcFuture in it: it can reach a
   call in ANY position - issued but not yet looked up, looked up, before the running check, accepted, and also one whose
   caller has meanwhile finished and unregistered the future.  QMI_RpcFuture keeps the FIRST outcome (single assignment:
   property C01, clause "every call completes exactly once"; here [set_res]): a sweep of a call that already has its
   outcome, and a later refusal / error reply for a call the sweep has already failed, are absorbed. *)
Definition sweepable (x : cst) : bool := true.
Definition stepS (c : cfg) (s : state) : list (state * lab) :=
  match sp s with
  | S0 => [(mkSt (cs s) S1 false (running s) (shut s) (walive s) (queue s) (relc s), LUnreg)]
  | S1 => [(mkSt (cs s) S2 (hand s) false (shut s) (walive s) (queue s) (relc s), LStopRegion)]
  | S2 => [(mkSt (cs s) S3 (hand s) (running s) true (walive s) (queue s) (relc s), LTau)]
  | S3 => if walive s then [] else [(set_sp s (if sweep c then S4 else SDone), LJoined)]
  | S4 => (set_sp s SDone, LTau) ::
          flat_map (fun i => if sweepable (getc s i) then [(setc s i (set_res (getc s i) OErr), LSweep i)] else [])
                   (seq 0 (length (cs s)))
  | SDone => []
  end.

Definition olist {A} (o : option A) : list A := match o with Some x => [x] | None => [] end.
Definition steps (c : cfg) (s : state) : list (state * lab) :=
  flat_map (fun i => olist (stepC c i s)) (seq 0 (length (cs s))) ++ olist (stepW s) ++ stepS c s.
Definition succ (c : cfg) (s : state) : list state := map fst (steps c s).

Definition start (k : nat) : state := mkSt (repeat cs0 k) S0 true true false true [] 0.

(* ---- what is demanded ------------------------------------------------------------------------------------ *)
Definition all_done (s : state) : bool :=
  forallb (fun x => match pc x with CDone => true | _ => false end) (cs s) &&
  (match sp s with SDone => true | _ => false end) && negb (walive s).
Definition memn (i : nat) (l : list nat) : bool := existsb (Nat.eqb i) l.

(* an accepted request that has no outcome yet is in the worker's queue, and the queue of an ended worker is empty:
   every accepted request is executed or answered with an error reply before the worker thread ends *)
Definition accepted_pending (s : state) : bool :=
  forallb (fun i => let x := getc s i in
                    match pc x, res x with
                    | CWait, None => memn i (queue s)
                    | _, _ => true
                    end) (seq 0 (length (cs s))).
Definition ended_worker_queue_empty (s : state) : bool :=
  walive s || match queue s with [] => true | _ => false end.
Definition exec_ok (s : state) : bool :=
  forallb (fun x => Nat.leb (nexec x) 1 &&
                    match res x with Some OVal => Nat.eqb (nexec x) 1 | _ => true end) (cs s).
Definition good_final (s : state) : bool :=
  forallb (fun x => match res x with Some _ => true | None => false end) (cs s) &&
  negb (hand s) && negb (running s) && Nat.eqb (relc s) 1 && match queue s with [] => true | _ => false end.
Definition inv_all (c : cfg) (s : state) : bool :=
  accepted_pending s && ended_worker_queue_empty s && exec_ok s && Nat.leb (relc s) 1 &&
  (if all_done s then good_final s else negb (match succ c s with [] => true | _ => false end)).

(* ---- schedules and trace acceptance ---------------------------------------------------------------------- *)
Definition lab_eqb (a b : lab) : bool :=
  match a, b with
  | LHit x, LHit y | LMiss x, LMiss y | LAccept x, LAccept y | LRefused x, LRefused y | LDone x, LDone y
  | LExec x, LExec y | LReject x, LReject y | LSweep x, LSweep y => Nat.eqb x y
  | LRelease, LRelease | LUnreg, LUnreg | LStopRegion, LStopRegion | LJoined, LJoined | LTau, LTau => true
  | _, _ => false
  end.
Definition find_step (c : cfg) (s : state) (l : lab) : option state :=
  match filter (fun p => lab_eqb (snd p) l) (steps c s) with
  | (s', _) :: _ => Some s'
  | [] => None
  end.
(* the observed effects must be a path; the unobservable steps (setting the shutdown flag, leaving the sweep) are
   taken when the next observed effect needs them *)
Fixpoint accept (c : cfg) (tr : list lab) (s : state) : option state :=
  match tr with
  | [] => Some s
  | l :: r =>
      match find_step c s l with
      | Some s' => accept c r s'
      | None =>
          match find_step c s LTau with
          | Some s1 => match find_step c s1 l with Some s' => accept c r s' | None => None end
          | None => None
          end
      end
  end.
Fixpoint exec_labels (c : cfg) (tr : list lab) (s : state) : state :=
  match tr with
  | [] => s
  | l :: r => match find_step c s l with Some s' => exec_labels c r s' | None => exec_labels c r s end
  end.
