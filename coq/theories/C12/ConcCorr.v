(* C12 concurrent clause, correspondence: the sequence of table / thread effects recorded from a real run
   (remove / make in a second thread racing with stop(), under dsched) must be a path of the interleaving model,
   and the model's final state must show the observed outcomes. *)
Require Export QV.Lib.Corr QV.C12.ConcModel.

Definition bres_eqb (a b : bres) : bool := lab_eqb (LRaise a) (LRaise b).

(* a case: reg_atomic?, target, ctor_ok, creation order of the population, remove(false)/make(true), the trace,
   observed: stop ok?, other thread's result, number of release calls, number of object threads left *)
Definition case := (bool * nat * bool * list nat * bool * list (bool * lab) * (bool * bres * nat * nat))%type.

Definition run_case (c : case) : option state :=
  let '(ra, x, ck, order, ismake, tr, _) := c in
  accept (mkCfg ra false x ck) tr (start order (if ismake then M0 else R0)).

Definition check_case (c : case) : bool :=
  let '(_, _, _, _, _, _, (aok, br, nrel, nthr)) := c in
  match run_case c with
  | None => false
  | Some s =>
      done s &&
      (match pa s with ADone ok => Bool.eqb ok aok | _ => false end) &&
      (match pb s with BDone r => bres_eqb r br | _ => false end) &&
      Nat.eqb (fold_right (fun o n => relc o + n) 0 (objs s)) nrel &&
      Nat.eqb (length (filter thr (objs s))) nthr
  end.
