(* C12 correspondence: the observations recorded after every operation of a history on the real
   QMI_Context / qmi.start (harness/c12.py) against the model's observations of the same history.
   Tables are compared as sets/multisets (sorted on both sides) so that a harmless change of iteration
   order keeps the correspondence. *)
Require Export QV.Lib.Corr QV.C12.Model.

Fixpoint ins (x : nat) (l : list nat) : list nat :=
  match l with [] => [x] | y :: r => if x <=? y then x :: l else y :: ins x r end.
Definition sortn (l : list nat) : list nat := fold_right ins [] l.
Fixpoint insp (x : nat * bool) (l : list (nat * bool)) : list (nat * bool) :=
  match l with [] => [x] | y :: r => if fst x <=? fst y then x :: l else y :: insp x r end.
Definition sortp (l : list (nat * bool)) : list (nat * bool) := fold_right insp [] l.

Definition exn_eqb (a b : exn) : bool :=
  match a, b with
  | EUsage, EUsage | EInvalidOp, EInvalidOp | EDup, EDup | EUnknownName, EUnknownName | ECtor, ECtor
  | EOSError, EOSError | EConnRefused, EConnRefused | EAssert, EAssert | ENoActive, ENoActive
  | EValue, EValue | EDelivery, EDelivery | EBase, EBase => true
  | _, _ => false          (* EOther (an exception class the model never produces) matches nothing *)
  end.

Definition out_eqb (a b : out) : bool :=
  match a, b with
  | OOk, OOk | OSkip, OSkip => true
  | OVal x, OVal y => Nat.eqb x y
  | OExc x, OExc y => exn_eqb x y
  | _, _ => false
  end.

Definition nb_eqb (a b : nat * bool) : bool := Nat.eqb (fst a) (fst b) && Bool.eqb (snd a) (snd b).

Definition obs_eqb (m i : obs) : bool :=
  out_eqb (o_out m) (o_out i) &&
  Nat.eqb (o_rpc m) (o_rpc i) && Nat.eqb (o_ev m) (o_ev i) && Nat.eqb (o_task m) (o_task i) &&
  list_eqb Nat.eqb (sortn (o_handlers m)) (sortn (o_handlers i)) &&
  list_eqb nb_eqb (sortp (o_objmap m)) (sortp (o_objmap i)) &&
  Bool.eqb (o_active m) (o_active i) && Bool.eqb (o_used m) (o_used i) &&
  Bool.eqb (o_listen m) (o_listen i) && Nat.eqb (o_udp m) (o_udp i) && Nat.eqb (o_conn m) (o_conn i) &&
  Bool.eqb (o_reg m) (o_reg i) &&
  list_eqb Nat.eqb (sortn (o_rel m)) (sortn (o_rel i)) &&
  list_eqb Nat.eqb (sortn (o_hruns m)) (sortn (o_hruns i)) &&
  Nat.eqb (o_next m) (o_next i) && Nat.eqb (o_nprox m) (o_nprox i).

(* a case: mode, history, observations made on the implementation after every operation *)
Definition case := (mode * list op * list obs)%type.

Definition model_out (v : variant) (c : case) : list obs :=
  let '(m, ops, _) := c in run_obs (init m v) ops.

(* against the behaviour C12 demands *)
Definition check_case (c : case) : bool :=
  let '(_, _, o) := c in list_eqb obs_eqb (model_out Fixed c) o.
(* against the transcription of the tree as it is (a failed start leaves its leftovers) *)
Definition check_case_cur (c : case) : bool :=
  let '(_, _, o) := c in list_eqb obs_eqb (model_out Current c) o.

(* against the transcription of the tree as it is now *)
Definition check_case_tree (c : case) : bool :=
  let '(_, _, o) := c in list_eqb obs_eqb (model_out Tree c) o.

(* index of the first differing step (for reports) *)
Fixpoint first_diff (a b : list obs) (i : nat) : option nat :=
  match a, b with
  | [], [] => None
  | x :: a', y :: b' => if obs_eqb x y then first_diff a' b' (S i) else Some i
  | _, _ => Some i
  end.
Definition diff_at (v : variant) (c : case) : option nat :=
  let '(_, _, o) := c in first_diff (model_out v c) o 0.
