(* C08 correspondence: the same trace-acceptance check as C07 (one shared model); the histories
   generated for C08 stress removal, connect/close at every position, re-subscription while an
   unsubscribe is pending, and probe publications at quiescent points. *)
Require Export QV.C07.Corr.
