(* C08 — single-node table consistency. *)
From Coq Require Import List NArith ZArith Bool Arith Lia.
Require Import QV.C07.Model QV.C07.ProofsLib QV.C07.Proofs.
Import ListNotations.
Open Scope N_scope.

Notation slk := (alookup str_eqb).
Notation nlk := (alookup N.eqb).

Lemma slk_aset_same {V} k (v : V) t : slk k (aset str_eqb k v t) = Some v.
Proof. apply alookup_aset_same, str_eqb_spec. Qed.
Lemma slk_aset_other {V} k k' (v : V) t : k <> k' -> slk k (aset str_eqb k' v t) = slk k t.
Proof. apply alookup_aset_other, str_eqb_spec. Qed.
Lemma slk_aremove_same {V} k (t : list (str * V)) : slk k (aremove str_eqb k t) = None.
Proof. apply alookup_aremove_same. Qed.
Lemma slk_aremove_other {V} k k' (t : list (str * V)) : k <> k' -> slk k (aremove str_eqb k' t) = slk k t.
Proof. apply alookup_aremove_other, str_eqb_spec. Qed.
Lemma nlk_aset_same {V} k (v : V) t : nlk k (aset N.eqb k v t) = Some v.
Proof. apply alookup_aset_same, N.eqb_eq. Qed.
Lemma nlk_aset_other {V} k k' (v : V) t : k <> k' -> nlk k (aset N.eqb k' v t) = nlk k t.
Proof. apply alookup_aset_other, N.eqb_eq. Qed.
Lemma nlk_aremove_same {V} k (t : list (N * V)) : nlk k (aremove N.eqb k t) = None.
Proof. apply alookup_aremove_same. Qed.
Lemma nlk_aremove_other {V} k k' (t : list (N * V)) : k <> k' -> nlk k (aremove N.eqb k' t) = nlk k t.
Proof. apply alookup_aremove_other, N.eqb_eq. Qed.

(* ---- the two pending tables describe the same set of requests ---- *)
Definition PC (pid : list (N * str)) (pname : list (str * preq)) (next : N) : Prop :=
  (forall id key, nlk id pid = Some key -> exists q, slk key pname = Some q) /\
  (forall key q, slk key pname = Some q -> exists id, nlk id pid = Some key) /\
  (forall id1 id2 key, nlk id1 pid = Some key -> nlk id2 pid = Some key -> id1 = id2) /\
  (forall id key, nlk id pid = Some key -> id < next).

Lemma PC_pop pid pname next id key :
  PC pid pname next -> nlk id pid = Some key -> PC (aremove N.eqb id pid) (aremove str_eqb key pname) next.
Proof.
  intros (H1 & H2 & H3 & H4) Hid. repeat split.
  - intros id' key' H. destruct (N.eq_dec id' id) as [->|Hn]; [rewrite nlk_aremove_same in H; discriminate|].
    rewrite nlk_aremove_other in H by exact Hn.
    destruct (str_eq_dec key' key) as [->|Hk]; [exfalso; apply Hn; eapply H3; eauto|].
    rewrite slk_aremove_other by exact Hk. eapply H1; eauto.
  - intros key' q H. destruct (str_eq_dec key' key) as [->|Hk]; [rewrite slk_aremove_same in H; discriminate|].
    rewrite slk_aremove_other in H by exact Hk. destruct (H2 _ _ H) as [id' Hid'].
    exists id'. rewrite nlk_aremove_other; [exact Hid'|]. intros ->. congruence.
  - intros id1 id2 key' Ha Hb.
    destruct (N.eq_dec id1 id) as [->|Hn1]; [rewrite nlk_aremove_same in Ha; discriminate|].
    destruct (N.eq_dec id2 id) as [->|Hn2]; [rewrite nlk_aremove_same in Hb; discriminate|].
    rewrite nlk_aremove_other in Ha, Hb by assumption. eapply H3; eauto.
  - intros id' key' H. destruct (N.eq_dec id' id) as [->|Hn]; [rewrite nlk_aremove_same in H; discriminate|].
    rewrite nlk_aremove_other in H by exact Hn. eapply H4; eauto.
Qed.

Lemma PC_push pid pname next key q :
  PC pid pname next -> slk key pname = None -> PC (aset N.eqb next key pid) (aset str_eqb key q pname) (next + 1).
Proof.
  intros (H1 & H2 & H3 & H4) Hnone.
  assert (Hfresh : forall k, nlk next pid = Some k -> False) by (intros k Hk; specialize (H4 _ _ Hk); lia).
  assert (Hnokey : forall id, nlk id pid = Some key -> False).
  { intros id Hk. destruct (H1 _ _ Hk) as [q0 Hq0]. congruence. }
  repeat split.
  - intros id' key' H. destruct (N.eq_dec id' next) as [->|Hn].
    + rewrite nlk_aset_same in H. inversion H; subst. rewrite slk_aset_same. eauto.
    + rewrite nlk_aset_other in H by exact Hn.
      destruct (str_eq_dec key' key) as [->|Hk]; [exfalso; eapply Hnokey; eauto|].
      rewrite slk_aset_other by exact Hk. eapply H1; eauto.
  - intros key' q' H. destruct (str_eq_dec key' key) as [->|Hk].
    + exists next. apply nlk_aset_same.
    + rewrite slk_aset_other in H by exact Hk. destruct (H2 _ _ H) as [id' Hid'].
      exists id'. rewrite nlk_aset_other; [exact Hid'|]. intros ->. eapply Hfresh; eauto.
  - intros id1 id2 key' Ha Hb.
    destruct (N.eq_dec id1 next) as [->|Hn1], (N.eq_dec id2 next) as [->|Hn2]; try reflexivity.
    + rewrite nlk_aset_same in Ha. inversion Ha; subst. rewrite nlk_aset_other in Hb by exact Hn2. exfalso; eapply Hnokey; eauto.
    + rewrite nlk_aset_same in Hb. inversion Hb; subst. rewrite nlk_aset_other in Ha by exact Hn1. exfalso; eapply Hnokey; eauto.
    + rewrite nlk_aset_other in Ha, Hb by assumption. eapply H3; eauto.
  - intros id' key' H. destruct (N.eq_dec id' next) as [->|Hn]; [lia|].
    rewrite nlk_aset_other in H by exact Hn. specialize (H4 _ _ H). lia.
Qed.

Lemma PC_update pid pname next key q0 q :
  PC pid pname next -> slk key pname = Some q0 -> PC pid (aset str_eqb key q pname) next.
Proof.
  intros (H1 & H2 & H3 & H4) Hq0. repeat split; try assumption.
  - intros id' key' H. destruct (str_eq_dec key' key) as [->|Hk]; [rewrite slk_aset_same; eauto|].
    rewrite slk_aset_other by exact Hk. eapply H1; eauto.
  - intros key' q' H. destruct (str_eq_dec key' key) as [->|Hk]; [eapply H2; eauto|].
    rewrite slk_aset_other in H by exact Hk. eapply H2; eauto.
Qed.

(* ---- what a registered pending object looks like ---- *)
Definition PV (me : name) (pname : list (str * preq)) : Prop :=
  forall key q, slk key pname = Some q ->
    key = key3 (pq_ctx q) (pq_pub q) (pq_sig q) /\ (pq_sub q = true -> pq_recv q <> []) /\
    nodot (pq_ctx q) = true /\ nodot (pq_pub q) = true /\ pq_ctx q <> me.

Lemma PV_aremove me pname key : PV me pname -> PV me (aremove str_eqb key pname).
Proof.
  intros H k q Hk. destruct (str_eq_dec k key) as [->|Hn]; [rewrite slk_aremove_same in Hk; discriminate|].
  rewrite slk_aremove_other in Hk by exact Hn. eapply H; eauto.
Qed.

Lemma PV_aset me pname key q :
  PV me pname ->
  (key = key3 (pq_ctx q) (pq_pub q) (pq_sig q) /\ (pq_sub q = true -> pq_recv q <> []) /\
   nodot (pq_ctx q) = true /\ nodot (pq_pub q) = true /\ pq_ctx q <> me) ->
  PV me (aset str_eqb key q pname).
Proof.
  intros H Hq k q' Hk. destruct (str_eq_dec k key) as [->|Hn].
  - rewrite slk_aset_same in Hk. inversion Hk; subst. exact Hq.
  - rewrite slk_aset_other in Hk by exact Hn. eapply H; eauto.
Qed.

(* ---- no empty set is stored ---- *)
Definition NE {A} (t : list (str * list A)) : Prop := vals_ok (fun l : list A => l <> []) t.

Lemma NE_lookup {A} (t : list (str * list A)) k l : NE t -> slk k t = Some l -> l <> [].
Proof. intros H Hk. exact (vals_lookup str_eqb str_eqb_spec _ k l t H Hk). Qed.

Lemma NE_aset {A} (t : list (str * list A)) k v : NE t -> v <> [] -> NE (aset str_eqb k v t).
Proof. intros. apply vals_aset; assumption. Qed.

Lemma NE_aremove {A} (t : list (str * list A)) k : NE t -> NE (aremove str_eqb k t).
Proof. apply vals_aremove. Qed.

Lemma NE_filter {A} (t : list (str * list A)) f : NE t -> NE (filter f t).
Proof. apply vals_filter. Qed.

(* ---- a signal with local subscribers has no pending request ---- *)
Definition EX (lsubs : list (str * list N)) (pname : list (str * preq)) : Prop :=
  forall k l, slk k lsubs = Some l -> slk k pname = None.

Lemma EX_aremove_l lsubs pname k : EX lsubs pname -> EX (aremove str_eqb k lsubs) pname.
Proof.
  intros H k' l Hk. destruct (str_eq_dec k' k) as [->|Hn]; [rewrite slk_aremove_same in Hk; discriminate|].
  rewrite slk_aremove_other in Hk by exact Hn. eapply H; eauto.
Qed.

Lemma EX_filter_l lsubs pname f : EX lsubs pname -> EX (filter (fun e => f (fst e)) lsubs) pname.
Proof.
  intros H k l Hk. rewrite (alookup_filter_key str_eqb str_eqb_spec) in Hk. destruct (f k); [|discriminate]. eapply H; eauto.
Qed.

Lemma EX_aremove_p lsubs pname k : EX lsubs pname -> EX lsubs (aremove str_eqb k pname).
Proof.
  intros H k' l Hk. destruct (str_eq_dec k' k) as [->|Hn]; [apply slk_aremove_same|].
  rewrite slk_aremove_other by exact Hn. eapply H; eauto.
Qed.

Lemma EX_aset_l lsubs pname k v : EX lsubs pname -> slk k pname = None -> EX (aset str_eqb k v lsubs) pname.
Proof.
  intros H Hn k' l Hk. destruct (str_eq_dec k' k) as [->|Hne]; [exact Hn|].
  rewrite slk_aset_other in Hk by exact Hne. eapply H; eauto.
Qed.

Lemma EX_aset_p lsubs pname k q : EX lsubs pname -> slk k lsubs = None -> EX lsubs (aset str_eqb k q pname).
Proof.
  intros H Hn k' l Hk. destruct (str_eq_dec k' k) as [->|Hne]; [congruence|].
  rewrite slk_aset_other by exact Hne. eapply H; eauto.
Qed.

(* ---- the single-node invariant ---- *)
Definition TInv (n : node) : Prop :=
  nodot (n_name n) = true /\
  PC (n_pid n) (n_pname n) (n_next n) /\
  PV (n_name n) (n_pname n) /\
  NE (n_lsubs n) /\ NE (n_rsubs n) /\
  EX (n_lsubs n) (n_pname n).

Ltac tsplit := unfold TInv; split; [|split; [|split; [|split; [|split]]]].

Lemma sunion_nonnil x l m : sunion N.eqb (x :: l) m <> [].
Proof.
  intro H. assert (Hin : In x (sunion N.eqb (x :: l) m)) by (apply (In_sunion N.eqb N.eqb_eq); left; left; reflexivity).
  rewrite H in Hin. destruct Hin.
Qed.

Lemma complete_TInv n id ok : TInv n -> TInv (fst (complete n id ok)).
Proof.
  intros (H0 & HPC & HPV & HNE & HNR & HEX). unfold complete.
  destruct (nlk id (n_pid n)) as [key|] eqn:Eid; [|simpl; tsplit; assumption].
  cbn [n_pname w_pid].
  destruct (slk key (n_pname n)) as [q|] eqn:Eq.
  2: { exfalso. destruct HPC as (H1 & _). destruct (H1 _ _ Eid) as [q Hq]. congruence. }
  destruct (HPV _ _ Eq) as (V1 & V2 & V3 & V4 & V5).
  pose proof (PC_pop _ _ _ _ _ HPC Eid) as HPC1.
  pose proof (PV_aremove _ _ key HPV) as HPV1.
  pose proof (EX_aremove_p _ _ key HEX) as HEX1.
  destruct (pq_sub q) eqn:Esub; simpl.
  - (* a subscribe request completes *)
    destruct ok; simpl.
    + destruct (slk key (n_lsubs n)) as [[|x l]|] eqn:El; simpl; tsplit; simpl; try assumption;
        try (apply NE_aset; [assumption | auto using sunion_nonnil]);
        try (apply EX_aset_l; [assumption | apply slk_aremove_same]).
    + tsplit; simpl; assumption.
  - (* an unsubscribe request completes *)
    destruct (is_nil (pq_recv q)) eqn:Enil; simpl.
    + tsplit; simpl; assumption.
    + assert (Hl : slk key (n_lsubs n) = None).
      { destruct (slk key (n_lsubs n)) eqn:El; [|reflexivity]. rewrite (HEX _ _ El) in Eq. discriminate. }
      tsplit; simpl; try assumption.
      * apply PC_push; [assumption | apply slk_aremove_same].
      * apply PV_aset; [assumption|]. simpl. repeat split; try assumption. intros _. apply is_nil_false. exact Enil.
      * apply EX_aset_p; assumption.
Qed.

Lemma send_req_TInv n id q : TInv n -> TInv (fst (send_req n id q)).
Proof.
  intro H. unfold send_req. destruct (can_send n (pq_ctx q)); [exact H|].
  pose proof (complete_TInv n id false H) as H1. destruct (complete n id false) as [n1 r1]. simpl in H1.
  destruct r1 as [[id2 q2]|]; simpl; [|exact H1]. apply complete_TInv. exact H1.
Qed.

Lemma handle_reply_TInv n id ok : TInv n -> TInv (fst (handle_reply n id ok)).
Proof.
  intro H. unfold handle_reply.
  pose proof (complete_TInv n id ok H) as H1. destruct (complete n id ok) as [n1 r1]. simpl in H1.
  destruct r1 as [[id2 q2]|]; simpl; [|exact H1]. apply send_req_TInv. exact H1.
Qed.

Lemma err_replies_TInv ids : forall n, TInv n -> TInv (fst (err_replies n ids)).
Proof.
  induction ids as [|id r IH]; intros n H; simpl; [exact H|].
  pose proof (handle_reply_TInv n id false H) as H1. destruct (handle_reply n id false) as [n1 o1]. simpl in H1.
  specialize (IH n1 H1). destruct (err_replies n1 r) as [n2 o2]. exact IH.
Qed.

Definition tabpart (n : node) := (n_name n, n_pid n, n_pname n, n_next n, n_lsubs n, n_rsubs n).

Lemma TInv_frame n n' : tabpart n' = tabpart n -> TInv n -> TInv n'.
Proof.
  unfold tabpart, TInv. intros E H. inversion E as [[E1 E2 E3 E4 E5 E6]]. rewrite E1, E2, E3, E4, E5, E6. exact H.
Qed.

Lemma sadd_N_nonnil r l : sadd N.eqb r l <> [].
Proof. apply sadd_nonnil. Qed.
Lemma sadd_S_nonnil r l : sadd str_eqb r l <> [].
Proof. apply sadd_nonnil. Qed.

Lemma names_ok_nodot c p s : names_ok c p s = true -> nodot c = true /\ nodot p = true /\ nodot s = true.
Proof.
  unfold names_ok. intro H. apply andb_true_iff in H as [H H3]. apply andb_true_iff in H as [H1 H2].
  repeat split; apply valid_nodot; assumption.
Qed.

Lemma new_request_TInv n c p s sub recv wait :
  TInv n -> names_ok c p s = true -> c <> n_name n ->
  slk (key3 c p s) (n_pname n) = None -> slk (key3 c p s) (n_lsubs n) = None ->
  (sub = true -> recv <> []) ->
  TInv (fst (fst (new_request n c p s sub recv wait))).
Proof.
  intros (H0 & HPC & HPV & HNE & HNR & HEX) Hok Hc Hp Hl Hr. destruct (names_ok_nodot _ _ _ Hok) as (D1 & D2 & D3).
  unfold new_request. simpl. tsplit; simpl; try assumption.
  - apply PC_push; assumption.
  - apply PV_aset; [assumption|]. simpl. repeat split; assumption.
  - apply EX_aset_p; assumption.
Qed.

Lemma sub_remote_TInv n call c p s r :
  TInv n -> names_ok c p s = true -> c <> n_name n -> TInv (fst (sub_remote n call c p s r)).
Proof.
  intros H Hok Hc. pose proof H as (H0 & HPC & HPV & HNE & HNR & HEX). unfold sub_remote.
  destruct (slk (key3 c p s) (n_lsubs n)) as [[|x l]|] eqn:El.
  - exfalso. exact (NE_lookup _ _ _ HNE El eq_refl).
  - simpl. tsplit; simpl; try assumption.
    + apply NE_aset; [assumption | apply sadd_N_nonnil].
    + apply EX_aset_l; [assumption | eapply HEX; eauto].
  - destruct (slk (key3 c p s) (n_pname n)) as [q|] eqn:Eq.
    + destruct (HPV _ _ Eq) as (V1 & V2 & V3 & V4 & V5). simpl. tsplit; simpl; try assumption.
      * eapply PC_update; eauto.
      * apply PV_aset; [assumption|]. simpl. repeat split; try assumption. intros _. apply sadd_N_nonnil.
      * apply EX_aset_p; assumption.
    + pose proof (new_request_TInv n c p s true [r] [call] H Hok Hc Eq El) as Hn.
      destruct (new_request n c p s true [r] [call]) as [[n1 id] q]. simpl in Hn.
      assert (Hn1 : TInv n1) by (apply Hn; intros _; discriminate).
      pose proof (send_req_TInv n1 id q Hn1) as Hs. destruct (send_req n1 id q). exact Hs.
Qed.

Lemma remove_local_TInv n key r :
  TInv n ->
  TInv (fst (remove_local n key r)) /\
  (snd (remove_local n key r) = true -> slk key (n_lsubs (fst (remove_local n key r))) = None) /\
  n_pname (fst (remove_local n key r)) = n_pname n /\ n_name (fst (remove_local n key r)) = n_name n.
Proof.
  intros (H0 & HPC & HPV & HNE & HNR & HEX). unfold remove_local.
  destruct (slk key (n_lsubs n)) as [l|] eqn:El.
  - destruct (is_nil (sdel N.eqb r l)) eqn:En; simpl.
    + split; [|split; [intros _; apply slk_aremove_same | auto]].
      tsplit; simpl; try assumption; [apply NE_aremove | apply EX_aremove_l]; assumption.
    + split; [|split; [discriminate | auto]].
      tsplit; simpl; try assumption.
      * apply NE_aset; [assumption | apply is_nil_false; exact En].
      * apply EX_aset_l; [assumption | eapply HEX; eauto].
  - simpl. split; [tsplit; assumption | split; [discriminate | auto]].
Qed.

Lemma unsub_remote_TInv n c p s r :
  TInv n -> names_ok c p s = true -> c <> n_name n -> TInv (fst (unsub_remote n c p s r)).
Proof.
  intros H Hok Hc. unfold unsub_remote.
  destruct (remove_local_TInv n (key3 c p s) r H) as (H1 & H2 & H3 & H4).
  destruct (remove_local n (key3 c p s) r) as [n1 last]. simpl in H1, H2, H3, H4.
  destruct last; [|exact H1].
  destruct (slk (key3 c p s) (n_pname n1)) eqn:Ep; [exact H1|].
  assert (Hc1 : c <> n_name n1) by congruence.
  pose proof (new_request_TInv n1 c p s false [] [] H1 Hok Hc1 Ep (H2 eq_refl)) as Hn.
  destruct (new_request n1 c p s false [] []) as [[n2 id] q]. simpl in Hn.
  assert (Hn2 : TInv n2) by (apply Hn; discriminate).
  pose proof (send_req_TInv n2 id q Hn2) as Hs. destruct (send_req n2 id q). exact Hs.
Qed.

Lemma sub_local_TInv n p s r :
  TInv n -> valid_name p = true -> valid_name s = true -> TInv (fst (sub_local n p s r)).
Proof.
  intros H Hp Hs. pose proof H as (H0 & HPC & HPV & HNE & HNR & HEX). unfold sub_local.
  destruct (smem str_eqb p (n_objs n)); [|exact H].
  assert (Hnone : slk (key3 (n_name n) p s) (n_pname n) = None).
  { destruct (slk (key3 (n_name n) p s) (n_pname n)) as [q|] eqn:Eq; [|reflexivity].
    destruct (HPV _ _ Eq) as (V1 & V2 & V3 & V4 & V5).
    apply key3_inj in V1 as [V1 _]; try assumption; [congruence | apply valid_nodot; exact Hp]. }
  unfold add_local. destruct (slk (key3 (n_name n) p s) (n_lsubs n)) eqn:El; simpl; tsplit; simpl; try assumption;
    try (apply NE_aset; [assumption | first [apply sadd_N_nonnil | discriminate]]);
    apply EX_aset_l; assumption.
Qed.

Lemma NE_flat_peer x (t : list (str * list name)) :
  NE t ->
  NE (flat_map (fun e => if smem str_eqb x (snd e) then
                           let l' := sdel str_eqb x (snd e) in if is_nil l' then [] else [(fst e, l')]
                         else [e]) t).
Proof.
  intros Ht k v Hin. apply in_flat_map in Hin as [[k0 l0] [Hin0 Hin]]. simpl in Hin.
  destruct (smem str_eqb x l0).
  - destruct (is_nil (sdel str_eqb x l0)) eqn:En; [destruct Hin|]. destruct Hin as [Hin|[]]. inversion Hin; subst.
    apply is_nil_false. exact En.
  - destruct Hin as [Hin|[]]. inversion Hin; subst. eapply Ht; eauto.
Qed.

Lemma step_TInv n i n' os : node_step n i = Some (n', os) -> TInv n -> TInv n'.
Proof.
  intros H Hn. pose proof Hn as (H0 & HPC & HPV & HNE & HNR & HEX). destruct i; simpl in H.
  - destruct (negb (names_ok (resolve_ctx n c) p s)) eqn:En; [fst_of H; exact Hn|].
    apply negb_false_iff in En.
    destruct (str_eqb (resolve_ctx n c) (n_name n)) eqn:Ec.
    + fst_of H. unfold names_ok in En. apply andb_true_iff in En as [En E3]. apply andb_true_iff in En as [E1 E2].
      apply sub_local_TInv; assumption.
    + fst_of H. apply sub_remote_TInv; [assumption | assumption |].
      intro E. rewrite E, str_eqb_refl in Ec. discriminate.
  - destruct (alookup N.eqb call (n_done n)); [|discriminate]. fst_of H. exact Hn.
  - destruct (negb (names_ok (resolve_ctx n c) p s)) eqn:En; [fst_of H; exact Hn|].
    apply negb_false_iff in En.
    destruct (str_eqb (resolve_ctx n c) (n_name n)) eqn:Ec.
    + fst_of H. apply remove_local_TInv. exact Hn.
    + fst_of H. apply unsub_remote_TInv; [assumption | assumption |].
      intro E. rewrite E, str_eqb_refl in Ec. discriminate.
  - destruct (negb (valid_name p && valid_name s)); fst_of H; exact Hn.
  - destruct (find_job j (n_jobs n)); [|discriminate]. destruct (smem N.eqb r (j_todo j0)); [|discriminate]. fst_of H. exact Hn.
  - destruct (find_job j (n_jobs n)); [|discriminate]. destruct (j_todo j0); [|discriminate].
    destruct (j_rsnap j0); [discriminate|]. fst_of H. exact Hn.
  - destruct (find_job j (n_jobs n)); [|discriminate]. destruct (smem str_eqb x (j_rtodo j0)); [|discriminate]. fst_of H. exact Hn.
  - fst_of H. exact Hn.
  - fst_of H. unfold object_removed. simpl. tsplit; simpl; try assumption.
    + apply NE_filter. assumption.
    + apply NE_filter. assumption.
    + apply (EX_filter_l _ _ (fun k => negb (startswith (n_name n ++ DOT :: o ++ [DOT]) k))). assumption.
  - destruct m; fst_of H.
    + unfold deliver_remote. destruct (slk (key3 from pub sig) (n_lsubs n)); exact Hn.
    + unfold handle_sub_request. destruct sub.
      * destruct (smem str_eqb pub (n_objs n)); [|exact Hn]. unfold add_remote.
        destruct (slk (key2 pub sig) (n_rsubs n)); simpl; tsplit; simpl; try assumption;
          (apply NE_aset; [assumption | first [apply sadd_S_nonnil | discriminate]]).
      * unfold remove_remote. destruct (slk (key2 pub sig) (n_rsubs n)) as [l|]; [|exact Hn].
        destruct (is_nil (sdel str_eqb from l)) eqn:En; simpl; tsplit; simpl; try assumption.
        -- apply NE_aremove. assumption.
        -- apply NE_aset; [assumption | apply is_nil_false; exact En].
    + apply handle_reply_TInv. exact Hn.
    + simpl. tsplit; simpl; try assumption; [apply NE_aremove | apply EX_aremove_l]; assumption.
  - fst_of H. apply handle_reply_TInv. exact Hn.
  - fst_of H. exact Hn.
  - fst_of H. unfold peer_removed. simpl. tsplit; simpl; try assumption.
    + apply NE_filter. assumption.
    + apply NE_flat_peer. assumption.
    + apply (EX_filter_l _ _ (fun k => negb (startswith (x ++ [DOT]) k))). assumption.
Qed.

Lemma init_TInv nm objs : nodot nm = true -> TInv (init_node nm objs).
Proof.
  intro H. unfold TInv, init_node, PC, PV, NE, EX, vals_ok. simpl. repeat split; try tauto; try discriminate.
Qed.

Lemma run_TInv ins : forall n n' os, node_run n ins = Some (n', os) -> TInv n -> TInv n'.
Proof.
  induction ins as [|i r IH]; simpl; intros n n' os H Hn.
  - inversion H; subst. exact Hn.
  - destruct (node_step n i) as [[n1 o1]|] eqn:E; [|discriminate].
    destruct (node_run n1 r) as [[n2 o2]|] eqn:E2; [|discriminate]. inversion H; subst.
    eapply IH; [exact E2 | eapply step_TInv; eauto].
Qed.

(* dictionaries: keys are unique *)
Definition DK (n : node) : Prop :=
  NoDup (map fst (n_lsubs n)) /\ NoDup (map fst (n_rsubs n)) /\ NoDup (map fst (n_pid n)) /\ NoDup (map fst (n_pname n)).

Lemma ND_aset_S {V} k (v : V) t : NoDup (map fst t) -> NoDup (map fst (aset str_eqb k v t)).
Proof. apply NoDup_keys_aset, str_eqb_spec. Qed.
Lemma ND_aset_N {V} k (v : V) t : NoDup (map fst t) -> NoDup (map fst (aset N.eqb k v t)).
Proof. apply NoDup_keys_aset, N.eqb_eq. Qed.
Lemma ND_aremove_S {V} k (t : list (str * V)) : NoDup (map fst t) -> NoDup (map fst (aremove str_eqb k t)).
Proof. apply NoDup_keys_aremove. Qed.
Lemma ND_aremove_N {V} k (t : list (N * V)) : NoDup (map fst t) -> NoDup (map fst (aremove N.eqb k t)).
Proof. apply NoDup_keys_aremove. Qed.
Lemma ND_filter {K V} f (t : list (K * V)) : NoDup (map fst t) -> NoDup (map fst (filter f t)).
Proof. apply NoDup_keys_filter. Qed.

Lemma ND_flat_peer x (t : list (str * list name)) :
  NoDup (map fst t) ->
  NoDup (map fst (flat_map (fun e => if smem str_eqb x (snd e) then
                           let l' := sdel str_eqb x (snd e) in if is_nil l' then [] else [(fst e, l')]
                         else [e]) t)).
Proof.
  induction t as [|[k0 l0] t IH]; simpl; intro H; [constructor|]. inversion H; subst.
  assert (Hsub : forall k, In k (map fst (flat_map (fun e => if smem str_eqb x (snd e) then
                           let l' := sdel str_eqb x (snd e) in if is_nil l' then [] else [(fst e, l')]
                         else [e]) t)) -> In k (map fst t)).
  { intros k Hk. apply in_map_iff in Hk as [[k1 l1] [<- Hin]]. apply in_flat_map in Hin as [[k2 l2] [Hin2 Hin]].
    simpl in Hin. apply in_map_iff. destruct (smem str_eqb x l2).
    - destruct (is_nil (sdel str_eqb x l2)); [destruct Hin|]. destruct Hin as [Hin|[]]. inversion Hin; subst.
      exists (k1, l2). auto.
    - destruct Hin as [Hin|[]]. inversion Hin; subst. exists (k1, l1). auto. }
  destruct (smem str_eqb x l0); simpl.
  - destruct (is_nil (sdel str_eqb x l0)); simpl; [apply IH; assumption|].
    constructor; [intro Hk; apply H2, Hsub, Hk | apply IH; assumption].
  - constructor; [intro Hk; apply H2, Hsub, Hk | apply IH; assumption].
Qed.

#[export] Hint Resolve ND_aset_S ND_aset_N ND_aremove_S ND_aremove_N ND_filter ND_flat_peer : dk.

Ltac dk_tac :=
  crush_match; unfold DK in *; simpl in *;
  repeat match goal with H : _ /\ _ |- _ => destruct H end;
  repeat split; simpl; eauto 7 with dk; fail.

Lemma complete_DK n id ok : DK n -> DK (fst (complete n id ok)).
Proof. intro H. unfold complete. dk_tac. Qed.

Lemma send_req_DK n id q : DK n -> DK (fst (send_req n id q)).
Proof.
  intro H. unfold send_req. destruct (can_send n (pq_ctx q)); [exact H|].
  pose proof (complete_DK n id false H) as H1. destruct (complete n id false) as [n1 r1]. simpl in H1.
  destruct r1 as [[id2 q2]|]; simpl; [|exact H1]. apply complete_DK. exact H1.
Qed.

Lemma handle_reply_DK n id ok : DK n -> DK (fst (handle_reply n id ok)).
Proof.
  intro H. unfold handle_reply.
  pose proof (complete_DK n id ok H) as H1. destruct (complete n id ok) as [n1 r1]. simpl in H1.
  destruct r1 as [[id2 q2]|]; simpl; [|exact H1]. apply send_req_DK. exact H1.
Qed.

Lemma remove_local_DK n k r : DK n -> DK (fst (remove_local n k r)).
Proof. intro H. unfold remove_local. dk_tac. Qed.

Lemma sub_remote_DK n call c p s r : DK n -> DK (fst (sub_remote n call c p s r)).
Proof.
  intro H. unfold sub_remote.
  destruct (alookup str_eqb (key3 c p s) (n_lsubs n)) as [[|x l]|] eqn:El.
  2: { dk_tac. }
  all: destruct (alookup str_eqb (key3 c p s) (n_pname n)) as [q|] eqn:Eq; [solve [dk_tac]|];
    unfold new_request;
    match goal with |- context [send_req ?a ?b ?c] =>
      assert (Ha : DK a) by dk_tac; pose proof (send_req_DK a b c Ha) as Hs; destruct (send_req a b c) end;
    exact Hs.
Qed.

Lemma unsub_remote_DK n c p s r : DK n -> DK (fst (unsub_remote n c p s r)).
Proof.
  intro H. unfold unsub_remote. pose proof (remove_local_DK n (key3 c p s) r H) as H0.
  destruct (remove_local n (key3 c p s) r) as [n1 last]. simpl in H0.
  destruct last; [|exact H0].
  destruct (alookup str_eqb (key3 c p s) (n_pname n1)); [exact H0|].
  unfold new_request.
  match goal with |- context [send_req ?a ?b ?c] =>
    assert (Ha : DK a) by dk_tac; pose proof (send_req_DK a b c Ha) as Hs; destruct (send_req a b c) end.
  exact Hs.
Qed.

Lemma step_DK n i n' os : node_step n i = Some (n', os) -> DK n -> DK n'.
Proof.
  intros H Hn. destruct i; simpl in H.
  - destruct (negb (names_ok (resolve_ctx n c) p s)); [fst_of H; exact Hn|].
    destruct (str_eqb (resolve_ctx n c) (n_name n)).
    + fst_of H. unfold sub_local, add_local. dk_tac.
    + fst_of H. apply sub_remote_DK. exact Hn.
  - destruct (alookup N.eqb call (n_done n)); [|discriminate]. fst_of H. exact Hn.
  - destruct (negb (names_ok (resolve_ctx n c) p s)); [fst_of H; exact Hn|].
    destruct (str_eqb (resolve_ctx n c) (n_name n)).
    + fst_of H. apply remove_local_DK. exact Hn.
    + fst_of H. apply unsub_remote_DK. exact Hn.
  - destruct (negb (valid_name p && valid_name s)); fst_of H; exact Hn.
  - destruct (find_job j (n_jobs n)); [|discriminate]. destruct (smem N.eqb r (j_todo j0)); [|discriminate]. fst_of H. exact Hn.
  - destruct (find_job j (n_jobs n)); [|discriminate]. destruct (j_todo j0); [|discriminate].
    destruct (j_rsnap j0); [discriminate|]. fst_of H. exact Hn.
  - destruct (find_job j (n_jobs n)); [|discriminate]. destruct (smem str_eqb x (j_rtodo j0)); [|discriminate]. fst_of H. exact Hn.
  - fst_of H. exact Hn.
  - fst_of H. unfold object_removed. dk_tac.
  - destruct m; fst_of H.
    + unfold deliver_remote. dk_tac.
    + unfold handle_sub_request, add_remote, remove_remote. dk_tac.
    + apply handle_reply_DK. exact Hn.
    + dk_tac.
  - fst_of H. apply handle_reply_DK. exact Hn.
  - fst_of H. exact Hn.
  - fst_of H. unfold peer_removed. dk_tac.
Qed.

Lemma run_DK ins : forall n n' os, node_run n ins = Some (n', os) -> DK n -> DK n'.
Proof.
  induction ins as [|i r IH]; simpl; intros n n' os H Hn.
  - inversion H; subst. exact Hn.
  - destruct (node_step n i) as [[n1 o1]|] eqn:E; [|discriminate].
    destruct (node_run n1 r) as [[n2 o2]|] eqn:E2; [|discriminate]. inversion H; subst.
    eapply IH; [exact E2 | eapply step_DK; eauto].
Qed.

Lemma init_DK nm objs : DK (init_node nm objs).
Proof. unfold DK, init_node. simpl. repeat split; constructor. Qed.

(* ---- the statement of C08_tables_consistent, from the invariants ---- *)
Lemma tables_consistent nm objs ins n os :
  nodot nm = true -> node_run (init_node nm objs) ins = Some (n, os) ->
  (* dictionaries *)
  (NoDup (map fst (n_lsubs n)) /\ NoDup (map fst (n_rsubs n)) /\ NoDup (map fst (n_pid n)) /\ NoDup (map fst (n_pname n))) /\
  (* by_id and by_name describe the same set of pending requests, one id per request *)
  (forall id key, In (id, key) (n_pid n) -> exists q, In (key, q) (n_pname n)) /\
  (forall key q, In (key, q) (n_pname n) -> exists id, In (id, key) (n_pid n)) /\
  (forall id1 id2 key, In (id1, key) (n_pid n) -> In (id2, key) (n_pid n) -> id1 = id2) /\
  (forall key q, In (key, q) (n_pname n) -> key = key3 (pq_ctx q) (pq_pub q) (pq_sig q)) /\
  (* no empty sets stored *)
  (forall key l, In (key, l) (n_lsubs n) -> l <> []) /\
  (forall key l, In (key, l) (n_rsubs n) -> l <> []) /\
  (forall key q, In (key, q) (n_pname n) -> pq_sub q = true -> pq_recv q <> []) /\
  (* local subscription non-empty => no pending request for that signal *)
  (forall key l, In (key, l) (n_lsubs n) -> forall q, ~ In (key, q) (n_pname n)).
Proof.
  intros Hd Hr.
  pose proof (run_TInv _ _ _ _ Hr (init_TInv nm objs Hd)) as (H0 & (P1 & P2 & P3 & P4) & HPV & HNE & HNR & HEX).
  pose proof (run_DK _ _ _ _ Hr (init_DK nm objs)) as (D1 & D2 & D3 & D4).
  assert (InLk : forall {K V} (eqb : K -> K -> bool) (Hs : forall a b, eqb a b = true <-> a = b) (t : list (K * V)) k v,
             NoDup (map fst t) -> In (k, v) t -> alookup eqb k t = Some v).
  { intros K V eqb Hs t. induction t as [|[k0 v0] t IH]; simpl; intros k v ND Hin; [destruct Hin|].
    inversion ND as [|? ? Hnotin ND']; subst. destruct Hin as [Hin|Hin].
    - inversion Hin; subst. rewrite (proj2 (Hs k k) eq_refl). reflexivity.
    - destruct (eqb k k0) eqn:E; [|apply IH; assumption].
      apply Hs in E. subst. exfalso. apply Hnotin. apply in_map_iff. exists (k0, v). auto. }
  repeat split; try assumption.
  - intros id key Hin. apply (InLk _ _ N.eqb N.eqb_eq) in Hin; [|assumption].
    destruct (P1 _ _ Hin) as [q Hq]. exists q. eapply alookup_In; [apply str_eqb_spec | exact Hq].
  - intros key q Hin. apply (InLk _ _ str_eqb str_eqb_spec) in Hin; [|assumption].
    destruct (P2 _ _ Hin) as [id Hid]. exists id. eapply alookup_In; [apply N.eqb_eq | exact Hid].
  - intros id1 id2 key Ha Hb. apply (InLk _ _ N.eqb N.eqb_eq) in Ha, Hb; try assumption. eapply P3; eauto.
  - intros key q Hin. apply (InLk _ _ str_eqb str_eqb_spec) in Hin; [|assumption]. apply (HPV _ _ Hin).
  - intros key q Hin. apply (InLk _ _ str_eqb str_eqb_spec) in Hin; [|assumption]. apply (HPV _ _ Hin).
  - intros key l Hin q Hq. apply (InLk _ _ str_eqb str_eqb_spec) in Hin, Hq; try assumption.
    rewrite (HEX _ _ Hin) in Hq. discriminate.
Qed.
