(* C08 — what each handler does to the entries of one signal (lookup level). *)
From Coq Require Import List NArith ZArith Bool Arith Lia.
Require Import QV.C07.Model QV.C07.ProofsLib QV.C07.Proofs QV.C08.Proofs.
Import ListNotations.
Open Scope N_scope.

Definition Lk (n : node) (c p s : name) := slk (key3 c p s) (n_lsubs n).
Definition Pk (n : node) (c p s : name) := slk (key3 c p s) (n_pname n).
Definition Rk (n : node) (x p s : name) : bool := smem str_eqb x (opt_list (slk (key2 p s) (n_rsubs n))).

Definition same_pid (n n' : node) : Prop := forall id, nlk id (n_pid n') = nlk id (n_pid n).
Definition same_side (n n' : node) : Prop :=
  n_rsubs n' = n_rsubs n /\ n_peers n' = n_peers n /\ n_name n' = n_name n /\ n_objs n' = n_objs n.
(* entries of every other key are untouched *)
Definition frame_at (key0 : str) (n n' : node) : Prop :=
  forall key, key <> key0 -> slk key (n_lsubs n') = slk key (n_lsubs n) /\ slk key (n_pname n') = slk key (n_pname n).

(* ---- complete ---- *)
Lemma complete_spec n id ok key q :
  TInv n -> nlk id (n_pid n) = Some key -> slk key (n_pname n) = Some q ->
  let r := complete n id ok in
  same_side n (fst r) /\ frame_at key n (fst r) /\
  nlk id (n_pid (fst r)) = None /\
  (if pq_sub q then
     snd r = None /\ slk key (n_pname (fst r)) = None /\
     (forall id', id' <> id -> nlk id' (n_pid (fst r)) = nlk id' (n_pid n)) /\
     slk key (n_lsubs (fst r)) = (if ok then Some (pq_recv q) else None)
   else if is_nil (pq_recv q) then
     snd r = None /\ slk key (n_pname (fst r)) = None /\
     (forall id', id' <> id -> nlk id' (n_pid (fst r)) = nlk id' (n_pid n)) /\
     slk key (n_lsubs (fst r)) = None
   else
     let q' := mkPreq (pq_ctx q) (pq_pub q) (pq_sig q) true (pq_recv q) (pq_wait q) in
     snd r = Some (n_next n, q') /\ slk key (n_pname (fst r)) = Some q' /\
     nlk (n_next n) (n_pid (fst r)) = Some key /\
     (forall id', id' <> id -> id' <> n_next n -> nlk id' (n_pid (fst r)) = nlk id' (n_pid n)) /\
     slk key (n_lsubs (fst r)) = None).
Proof.
  intros (H0 & HPC & HPV & HNE & HNR & HEX) Eid Eq. unfold complete. rewrite Eid. cbn [n_pname w_pid]. rewrite Eq.
  assert (Hl : slk key (n_lsubs n) = None).
  { destruct (slk key (n_lsubs n)) eqn:El; [|reflexivity]. rewrite (HEX _ _ El) in Eq. discriminate. }
  assert (Hfresh : id <> n_next n).
  { destruct HPC as (_ & _ & _ & P4). specialize (P4 _ _ Eid). lia. }
  assert (Hside : forall m, n_rsubs m = n_rsubs n -> n_peers m = n_peers n -> n_name m = n_name n -> n_objs m = n_objs n -> same_side n m)
    by (intros m A B C D; unfold same_side; auto).
  destruct (pq_sub q) eqn:Esub; simpl.
  - destruct ok; simpl; rewrite ?Hl; simpl.
    + split; [apply Hside; reflexivity|]. split; [intros k Hk; simpl; rewrite slk_aset_other, slk_aremove_other by exact Hk; auto|].
      split; [apply nlk_aremove_same|]. split; [reflexivity|]. split; [apply slk_aremove_same|].
      split; [intros id' Hn; apply nlk_aremove_other; exact Hn | apply slk_aset_same].
    + split; [apply Hside; reflexivity|]. split; [intros k Hk; simpl; rewrite slk_aremove_other by exact Hk; auto|].
      split; [apply nlk_aremove_same|]. split; [reflexivity|]. split; [apply slk_aremove_same|].
      split; [intros id' Hn; apply nlk_aremove_other; exact Hn | first [exact Hl | reflexivity]].
  - destruct (is_nil (pq_recv q)) eqn:En; simpl.
    + split; [apply Hside; reflexivity|]. split; [intros k Hk; simpl; rewrite slk_aremove_other by exact Hk; auto|].
      split; [apply nlk_aremove_same|]. split; [reflexivity|]. split; [apply slk_aremove_same|].
      split; [intros id' Hn; apply nlk_aremove_other; exact Hn | first [exact Hl | reflexivity]].
    + split; [apply Hside; reflexivity|]. split; [intros k Hk; simpl; rewrite slk_aset_other, slk_aremove_other by exact Hk; auto|].
      split; [rewrite nlk_aset_other by exact Hfresh; apply nlk_aremove_same|]. split; [reflexivity|].
      split; [apply slk_aset_same|]. split; [apply nlk_aset_same|].
      split; [intros id' Hn Hn2; rewrite nlk_aset_other by exact Hn2; apply nlk_aremove_other; exact Hn | first [exact Hl | reflexivity]].
Qed.

(* a request that cannot be sent is completed with an error at once: afterwards nothing is registered *)
Lemma send_req_down n id q key :
  TInv n -> can_send n (pq_ctx q) = false -> nlk id (n_pid n) = Some key -> slk key (n_pname n) = Some q ->
  (pq_sub q = false -> pq_recv q = []) ->
  let r := send_req n id q in
  snd r = [] /\ same_side n (fst r) /\ frame_at key n (fst r) /\
  slk key (n_pname (fst r)) = None /\ nlk id (n_pid (fst r)) = None /\
  (forall id', id' <> id -> nlk id' (n_pid (fst r)) = nlk id' (n_pid n)) /\
  slk key (n_lsubs (fst r)) = None.
Proof.
  intros HT Hc Eid Eq Hr. unfold send_req. rewrite Hc.
  pose proof (complete_spec n id false key q HT Eid Eq) as Hs. cbv zeta in Hs.
  destruct (complete n id false) as [n1 r1]. simpl in Hs. destruct Hs as (S1 & S2 & S3 & S4).
  destruct (pq_sub q) eqn:Esub.
  - destruct S4 as (-> & S5 & S6 & S7). simpl. auto 10.
  - rewrite (Hr eq_refl) in S4. simpl in S4. destruct S4 as (-> & S5 & S6 & S7). simpl. auto 10.
Qed.

Lemma send_req_up n id q :
  can_send n (pq_ctx q) = true -> send_req n id q = (n, [OSend (pq_ctx q) (MSubReq id (pq_pub q) (pq_sig q) (pq_sub q))]).
Proof. intro H. unfold send_req. rewrite H. reflexivity. Qed.

Lemma can_send_same n n' c : same_side n n' -> can_send n' c = can_send n c.
Proof. intros (_ & H & _). unfold can_send. rewrite H. reflexivity. Qed.

Lemma same_side_trans a b c : same_side a b -> same_side b c -> same_side a c.
Proof. unfold same_side. intuition congruence. Qed.

Lemma frame_at_trans k a b c : frame_at k a b -> frame_at k b c -> frame_at k a c.
Proof.
  intros H1 H2 key Hk. destruct (H1 key Hk) as [A1 A2]. destruct (H2 key Hk) as [B1 B2]. split; congruence.
Qed.

Lemma handle_reply_spec n id ok key q :
  TInv n -> nlk id (n_pid n) = Some key -> slk key (n_pname n) = Some q ->
  let r := handle_reply n id ok in
  same_side n (fst r) /\ frame_at key n (fst r) /\
  nlk id (n_pid (fst r)) = None /\
  (if pq_sub q then
     snd r = [] /\ slk key (n_pname (fst r)) = None /\
     (forall id', id' <> id -> nlk id' (n_pid (fst r)) = nlk id' (n_pid n)) /\
     slk key (n_lsubs (fst r)) = (if ok then Some (pq_recv q) else None)
   else if is_nil (pq_recv q) then
     snd r = [] /\ slk key (n_pname (fst r)) = None /\
     (forall id', id' <> id -> nlk id' (n_pid (fst r)) = nlk id' (n_pid n)) /\
     slk key (n_lsubs (fst r)) = None
   else if can_send n (pq_ctx q) then
     let q' := mkPreq (pq_ctx q) (pq_pub q) (pq_sig q) true (pq_recv q) (pq_wait q) in
     snd r = [OSend (pq_ctx q) (MSubReq (n_next n) (pq_pub q) (pq_sig q) true)] /\
     slk key (n_pname (fst r)) = Some q' /\
     nlk (n_next n) (n_pid (fst r)) = Some key /\
     (forall id', id' <> id -> id' <> n_next n -> nlk id' (n_pid (fst r)) = nlk id' (n_pid n)) /\
     slk key (n_lsubs (fst r)) = None
   else
     snd r = [] /\ slk key (n_pname (fst r)) = None /\
     nlk (n_next n) (n_pid (fst r)) = None /\
     (forall id', id' <> id -> id' <> n_next n -> nlk id' (n_pid (fst r)) = nlk id' (n_pid n)) /\
     slk key (n_lsubs (fst r)) = None).
Proof.
  intros HT Eid Eq. unfold handle_reply.
  pose proof (complete_spec n id ok key q HT Eid Eq) as Hs. cbv zeta in Hs.
  pose proof (complete_TInv n id ok HT) as HT1.
  destruct (complete n id ok) as [n1 r1]. simpl in Hs, HT1. destruct Hs as (S1 & S2 & S3 & S4).
  destruct (pq_sub q) eqn:Esub.
  - destruct S4 as (-> & S5 & S6 & S7). simpl. auto 10.
  - destruct (is_nil (pq_recv q)) eqn:En.
    + destruct S4 as (-> & S5 & S6 & S7). simpl. auto 10.
    + cbv zeta in S4. destruct S4 as (-> & S5 & S6 & S7 & S8).
      set (q' := mkPreq (pq_ctx q) (pq_pub q) (pq_sig q) true (pq_recv q) (pq_wait q)) in *.
      destruct (can_send n (pq_ctx q)) eqn:Ec.
      * rewrite send_req_up by (rewrite (can_send_same n n1 _ S1); exact Ec). simpl. auto 10.
      * assert (Ec1 : can_send n1 (pq_ctx q') = false) by (rewrite (can_send_same n n1 _ S1); exact Ec).
        pose proof (send_req_down n1 (n_next n) q' key HT1 Ec1 S6 S5) as Hd. cbv zeta in Hd.
        destruct (send_req n1 (n_next n) q') as [n2 o2]. simpl in Hd.
        destruct Hd as (-> & T1 & T2 & T3 & T4 & T5 & T6); [discriminate|]. simpl.
        assert (Hne : id <> n_next n).
        { destruct HT as (_ & (_ & _ & _ & P4) & _). specialize (P4 _ _ Eid). lia. }
        split; [eapply same_side_trans; eauto|]. split; [eapply frame_at_trans; eauto|].
        split; [rewrite T5 by exact Hne; exact S3|]. split; [reflexivity|]. split; [exact T3|]. split; [exact T4|].
        split; [intros id' Hn1 Hn2; rewrite T5 by exact Hn2; apply S7; assumption | exact T6].
Qed.

(* ---- subscribe to a remote signal ---- *)
Lemma sub_remote_spec n call c p0 s0 r :
  TInv n -> names_ok c p0 s0 = true -> c <> n_name n ->
  let key0 := key3 c p0 s0 in
  let res := sub_remote n call c p0 s0 r in
  same_side n (fst res) /\ frame_at key0 n (fst res) /\
  match slk key0 (n_lsubs n) with
  | Some l =>
      slk key0 (n_lsubs (fst res)) = Some (sadd N.eqb r l) /\ slk key0 (n_pname (fst res)) = None /\
      slk key0 (n_pname n) = None /\ same_pid n (fst res) /\ snd res = [ORes RNone]
  | None =>
      slk key0 (n_lsubs (fst res)) = None /\
      match slk key0 (n_pname n) with
      | Some q =>
          (exists q', slk key0 (n_pname (fst res)) = Some q' /\ pq_sub q' = pq_sub q /\ pq_ctx q' = pq_ctx q) /\
          same_pid n (fst res) /\ snd res = [ORes RWait]
      | None =>
          if can_send n c then
            slk key0 (n_pname (fst res)) = Some (mkPreq c p0 s0 true [r] [call]) /\
            nlk (n_next n) (n_pid (fst res)) = Some key0 /\
            (forall id', id' <> n_next n -> nlk id' (n_pid (fst res)) = nlk id' (n_pid n)) /\
            snd res = [OSend c (MSubReq (n_next n) p0 s0 true); ORes RWait]
          else
            slk key0 (n_pname (fst res)) = None /\ same_pid n (fst res) /\ snd res = [ORes RWait]
      end
  end.
Proof.
  intros HT Hok Hc key0 res. subst res key0. pose proof HT as (H0 & HPC & HPV & HNE & HNR & HEX). unfold sub_remote.
  assert (Hside : forall m, n_rsubs m = n_rsubs n -> n_peers m = n_peers n -> n_name m = n_name n -> n_objs m = n_objs n -> same_side n m)
    by (intros m A B C D; unfold same_side; auto).
  destruct (slk (key3 c p0 s0) (n_lsubs n)) as [[|x l]|] eqn:El.
  - exfalso. exact (NE_lookup _ _ _ HNE El eq_refl).
  - simpl. split; [apply Hside; reflexivity|].
    split; [intros k Hk; simpl; rewrite slk_aset_other by exact Hk; auto|].
    split; [apply slk_aset_same|]. split; [eapply HEX; eauto|]. split; [eapply HEX; eauto|]. split; [intro; reflexivity | reflexivity].
  - destruct (slk (key3 c p0 s0) (n_pname n)) as [q|] eqn:Eq.
    + simpl. split; [apply Hside; reflexivity|].
      split; [intros k Hk; simpl; rewrite slk_aset_other by exact Hk; auto|].
      split; [exact El|]. split; [eexists; split; [apply slk_aset_same | simpl; auto]|]. split; [intro; reflexivity | reflexivity].
    + pose proof (new_request_TInv n c p0 s0 true [r] [call] HT Hok Hc Eq El) as Hn.
      unfold new_request in *. cbv beta iota zeta in *. simpl in Hn.
      match goal with |- context [send_req ?a ?b ?c] => set (n1 := a) in * end.
      assert (HT1 : TInv n1) by (apply Hn; intros _; discriminate).
      assert (Hfr : frame_at (key3 c p0 s0) n n1) by (intros k Hk; simpl; rewrite slk_aset_other by exact Hk; auto).
      assert (Hnofresh : nlk (n_next n) (n_pid n) = None).
      { destruct (nlk (n_next n) (n_pid n)) eqn:E; [|reflexivity]. destruct HPC as (_ & _ & _ & P4). specialize (P4 _ _ E). lia. }
      destruct (can_send n c) eqn:Ec.
      * rewrite send_req_up by exact Ec. simpl.
        split; [apply Hside; reflexivity|]. split; [exact Hfr|]. split; [exact El|].
        split; [apply slk_aset_same|]. split; [apply nlk_aset_same|].
        split; [intros id' Hn'; apply nlk_aset_other; exact Hn' | reflexivity].
      * assert (Eid1 : nlk (n_next n) (n_pid n1) = Some (key3 c p0 s0)) by apply nlk_aset_same.
        assert (Eq1 : slk (key3 c p0 s0) (n_pname n1) = Some (mkPreq c p0 s0 true [r] [call])) by apply slk_aset_same.
        assert (Ec1 : can_send n1 (pq_ctx (mkPreq c p0 s0 true [r] [call])) = false) by exact Ec.
        pose proof (send_req_down n1 (n_next n) (mkPreq c p0 s0 true [r] [call]) (key3 c p0 s0) HT1 Ec1 Eid1 Eq1) as Hd. cbv zeta in Hd.
        destruct (send_req n1 (n_next n) (mkPreq c p0 s0 true [r] [call])) as [n2 o2]. simpl in Hd.
        destruct Hd as (-> & T1 & T2 & T3 & T4 & T5 & T6); [discriminate|]. simpl.
        split; [apply (same_side_trans n n1 n2); [apply Hside; reflexivity | exact T1]|].
        split; [apply (frame_at_trans _ n n1 n2); assumption|]. split; [exact T6|]. split; [exact T3|].
        split; [|reflexivity].
        intro id'. destruct (N.eq_dec id' (n_next n)) as [->|Hne]; [rewrite T4, Hnofresh; reflexivity|].
        rewrite T5 by exact Hne. apply nlk_aset_other. exact Hne.
Qed.

(* ---- unsubscribe from a remote signal ---- *)
Lemma unsub_remote_spec n c p0 s0 r :
  TInv n -> names_ok c p0 s0 = true -> c <> n_name n ->
  let key0 := key3 c p0 s0 in
  let res := unsub_remote n c p0 s0 r in
  same_side n (fst res) /\ frame_at key0 n (fst res) /\
  match slk key0 (n_lsubs n) with
  | None => slk key0 (n_lsubs (fst res)) = None /\ slk key0 (n_pname (fst res)) = slk key0 (n_pname n) /\
            same_pid n (fst res) /\ snd res = [ORes RNone]
  | Some l =>
      slk key0 (n_pname n) = None /\
      if is_nil (sdel N.eqb r l) then
        slk key0 (n_lsubs (fst res)) = None /\
        if can_send n c then
          slk key0 (n_pname (fst res)) = Some (mkPreq c p0 s0 false [] []) /\
          nlk (n_next n) (n_pid (fst res)) = Some key0 /\
          (forall id', id' <> n_next n -> nlk id' (n_pid (fst res)) = nlk id' (n_pid n)) /\
          snd res = [OSend c (MSubReq (n_next n) p0 s0 false); ORes RNone]
        else slk key0 (n_pname (fst res)) = None /\ same_pid n (fst res) /\ snd res = [ORes RNone]
      else
        slk key0 (n_lsubs (fst res)) = Some (sdel N.eqb r l) /\ slk key0 (n_pname (fst res)) = None /\
        same_pid n (fst res) /\ snd res = [ORes RNone]
  end.
Proof.
  intros HT Hok Hc key0 res. subst res key0. pose proof HT as (H0 & HPC & HPV & HNE & HNR & HEX). unfold unsub_remote.
  assert (Hside : forall m, n_rsubs m = n_rsubs n -> n_peers m = n_peers n -> n_name m = n_name n -> n_objs m = n_objs n -> same_side n m)
    by (intros m A B C D; unfold same_side; auto).
  destruct (remove_local_TInv n (key3 c p0 s0) r HT) as (R1 & R2 & R3 & R4).
  unfold remove_local in *.
  destruct (slk (key3 c p0 s0) (n_lsubs n)) as [l|] eqn:El.
  2: { simpl. split; [apply Hside; reflexivity|]. split; [intros k Hk; auto|]. split; [exact El|].
       split; [reflexivity|]. split; [intro; reflexivity | reflexivity]. }
  assert (Ep : slk (key3 c p0 s0) (n_pname n) = None) by (eapply HEX; eauto).
  destruct (is_nil (sdel N.eqb r l)) eqn:En.
  - cbn [fst snd] in *. cbn [n_pname w_lsubs]. rewrite Ep.
    set (n0 := w_lsubs (aremove str_eqb (key3 c p0 s0) (n_lsubs n)) n) in *.
    assert (El0 : slk (key3 c p0 s0) (n_lsubs n0) = None) by apply slk_aremove_same.
    assert (Hc0 : c <> n_name n0) by exact Hc.
    assert (Ep0 : slk (key3 c p0 s0) (n_pname n0) = None) by exact Ep.
    pose proof (new_request_TInv n0 c p0 s0 false [] [] R1 Hok Hc0 Ep0 El0) as Hn.
    unfold new_request in *. cbv beta iota zeta in *. simpl in Hn.
    match goal with |- context [send_req ?a ?b ?c] => set (n1 := a) in * end.
    assert (HT1 : TInv n1) by (apply Hn; discriminate).
    assert (Hfr : frame_at (key3 c p0 s0) n n1).
    { intros k Hk. simpl. rewrite slk_aset_other by exact Hk. rewrite slk_aremove_other by exact Hk. auto. }
    assert (Hnofresh : nlk (n_next n) (n_pid n) = None).
    { destruct (nlk (n_next n) (n_pid n)) eqn:E; [|reflexivity]. destruct HPC as (_ & _ & _ & P4). specialize (P4 _ _ E). lia. }
    split; [|split; [|split; [first [exact Ep | reflexivity]|]]].
    + destruct (can_send n c) eqn:Ec.
      * rewrite send_req_up by exact Ec. simpl. apply Hside; reflexivity.
      * assert (Ec1 : can_send n1 (pq_ctx (mkPreq c p0 s0 false [] [])) = false) by exact Ec.
        assert (Eid1 : nlk (n_next n) (n_pid n1) = Some (key3 c p0 s0)) by apply nlk_aset_same.
        assert (Eq1 : slk (key3 c p0 s0) (n_pname n1) = Some (mkPreq c p0 s0 false [] [])) by apply slk_aset_same.
        match goal with |- context [send_req ?a ?b ?c0] =>
          pose proof (send_req_down a b c0 (key3 c p0 s0) HT1 Ec1 Eid1 Eq1 (fun _ => eq_refl)) as Hd;
          cbv zeta in Hd; destruct (send_req a b c0) as [n2 o2] end. simpl in Hd.
        destruct Hd as (-> & T1 & _). simpl. apply (same_side_trans n n1 n2); [apply Hside; reflexivity | exact T1].
    + destruct (can_send n c) eqn:Ec.
      * rewrite send_req_up by exact Ec. simpl. exact Hfr.
      * assert (Ec1 : can_send n1 (pq_ctx (mkPreq c p0 s0 false [] [])) = false) by exact Ec.
        assert (Eid1 : nlk (n_next n) (n_pid n1) = Some (key3 c p0 s0)) by apply nlk_aset_same.
        assert (Eq1 : slk (key3 c p0 s0) (n_pname n1) = Some (mkPreq c p0 s0 false [] [])) by apply slk_aset_same.
        match goal with |- context [send_req ?a ?b ?c0] =>
          pose proof (send_req_down a b c0 (key3 c p0 s0) HT1 Ec1 Eid1 Eq1 (fun _ => eq_refl)) as Hd;
          cbv zeta in Hd; destruct (send_req a b c0) as [n2 o2] end. simpl in Hd.
        destruct Hd as (-> & _ & T2 & _). simpl. apply (frame_at_trans _ n n1 n2); assumption.
    + destruct (can_send n c) eqn:Ec.
      * rewrite send_req_up by exact Ec. simpl.
        split; [apply slk_aremove_same|]. split; [apply slk_aset_same|]. split; [apply nlk_aset_same|].
        split; [intros id' Hn'; apply nlk_aset_other; exact Hn' | reflexivity].
      * assert (Ec1 : can_send n1 (pq_ctx (mkPreq c p0 s0 false [] [])) = false) by exact Ec.
        assert (Eid1 : nlk (n_next n) (n_pid n1) = Some (key3 c p0 s0)) by apply nlk_aset_same.
        assert (Eq1 : slk (key3 c p0 s0) (n_pname n1) = Some (mkPreq c p0 s0 false [] [])) by apply slk_aset_same.
        match goal with |- context [send_req ?a ?b ?c0] =>
          pose proof (send_req_down a b c0 (key3 c p0 s0) HT1 Ec1 Eid1 Eq1 (fun _ => eq_refl)) as Hd;
          cbv zeta in Hd; destruct (send_req a b c0) as [n2 o2] end. simpl in Hd.
        destruct Hd as (-> & T1 & T2 & T3 & T4 & T5 & T6). simpl.
        split; [exact T6|]. split; [exact T3|]. split; [|reflexivity].
        intro id'. destruct (N.eq_dec id' (n_next n)) as [->|Hne]; [rewrite T4, Hnofresh; reflexivity|].
        rewrite T5 by exact Hne. apply nlk_aset_other. exact Hne.
  - simpl. split; [apply Hside; reflexivity|].
    split; [intros k Hk; simpl; rewrite slk_aset_other by exact Hk; auto|].
    split; [exact Ep|]. split; [apply slk_aset_same|]. split; [exact Ep|]. split; [intro; reflexivity | reflexivity].
Qed.

(* ---- a subscribe / unsubscribe request from a peer ---- *)
Lemma smem_sadd_S x y l : smem str_eqb x (sadd str_eqb y l) = str_eqb x y || smem str_eqb x l.
Proof.
  destruct (smem str_eqb x (sadd str_eqb y l)) eqn:E.
  - apply smem_S_In, (In_sadd str_eqb str_eqb_spec) in E as [->|E]; [rewrite str_eqb_refl; reflexivity|].
    apply smem_S_In in E. rewrite E, orb_true_r. reflexivity.
  - symmetry. apply orb_false_iff. split.
    + destruct (str_eqb x y) eqn:E2; [|reflexivity]. apply str_eqb_spec in E2. subst.
      apply (smem_false str_eqb str_eqb_spec) in E. exfalso. apply E. apply (In_sadd str_eqb str_eqb_spec). auto.
    + destruct (smem str_eqb x l) eqn:E2; [|reflexivity]. apply smem_S_In in E2.
      apply (smem_false str_eqb str_eqb_spec) in E. exfalso. apply E. apply (In_sadd str_eqb str_eqb_spec). auto.
Qed.

Lemma smem_sdel_same_S x l : smem str_eqb x (sdel str_eqb x l) = false.
Proof. apply (smem_false str_eqb str_eqb_spec). intro H. apply (In_sdel str_eqb str_eqb_spec) in H as [H _]. congruence. Qed.

Lemma sub_request_spec n from id p0 s0 sub :
  let r := handle_sub_request n from id p0 s0 sub in
  n_lsubs (fst r) = n_lsubs n /\ n_pname (fst r) = n_pname n /\ n_pid (fst r) = n_pid n /\
  n_peers (fst r) = n_peers n /\ n_name (fst r) = n_name n /\ n_objs (fst r) = n_objs n /\ n_next (fst r) = n_next n /\
  snd r = send_to n from (MSubReply id (if sub then smem str_eqb p0 (n_objs n) else true)) /\
  Rk (fst r) from p0 s0 = (if sub then smem str_eqb p0 (n_objs n) || Rk n from p0 s0 else false) /\
  (forall x p s, key2 p s <> key2 p0 s0 -> Rk (fst r) x p s = Rk n x p s).
Proof.
  unfold handle_sub_request, Rk. destruct sub.
  - destruct (smem str_eqb p0 (n_objs n)) eqn:Eo.
    + unfold add_remote. destruct (slk (key2 p0 s0) (n_rsubs n)) as [l|] eqn:El; simpl;
        do 8 (split; [reflexivity|]); split.
      * rewrite slk_aset_same. simpl. rewrite smem_sadd_S, str_eqb_refl. reflexivity.
      * intros x p s Hk. rewrite slk_aset_other by exact Hk. reflexivity.
      * rewrite slk_aset_same. simpl. rewrite str_eqb_refl. reflexivity.
      * intros x p s Hk. rewrite slk_aset_other by exact Hk. reflexivity.
    + simpl. do 8 (split; [reflexivity|]). split; [reflexivity | intros; reflexivity].
  - unfold remove_remote. destruct (slk (key2 p0 s0) (n_rsubs n)) as [l|] eqn:El.
    + destruct (is_nil (sdel str_eqb from l)) eqn:En; simpl; do 8 (split; [reflexivity|]); split.
      * rewrite slk_aremove_same. reflexivity.
      * intros x p s Hk. rewrite slk_aremove_other by exact Hk. reflexivity.
      * rewrite slk_aset_same. simpl. apply smem_sdel_same_S.
      * intros x p s Hk. rewrite slk_aset_other by exact Hk. reflexivity.
    + simpl. do 8 (split; [reflexivity|]). split; [rewrite El; reflexivity | intros; reflexivity].
Qed.

(* ---- removal of a publisher object ---- *)
Definition msgs_of (os : list out) : list msg :=
  flat_map (fun o => match o with OSend _ m => [m] | ORes _ => [] end) os.
Definition reqids_of (os : list out) : list N :=
  flat_map (fun o => match o with OSend _ m => match req_id_of m with Some id => [id] | None => [] end | ORes _ => [] end) os.

Lemma msgs_of_app a b : msgs_of (a ++ b) = msgs_of a ++ msgs_of b.
Proof. unfold msgs_of. apply flat_map_app. Qed.

Lemma object_removed_spec n o :
  let n0 := w_objs (sdel str_eqb o (n_objs n)) n in
  let r := object_removed n0 o in
  n_pname (fst r) = n_pname n /\ n_pid (fst r) = n_pid n /\ n_peers (fst r) = n_peers n /\
  n_name (fst r) = n_name n /\ n_next (fst r) = n_next n /\
  (forall m, In m (msgs_of (snd r)) -> exists s', m = MRemoved o s') /\
  reqids_of (snd r) = [] /\
  (forall c p s, nodot (n_name n) = true -> nodot c = true ->
     c <> n_name n -> Lk (fst r) c p s = Lk n c p s) /\
  (forall x p s, nodot o = true -> nodot p = true ->
     Rk (fst r) x p s = (if str_eqb o p then false else Rk n x p s)) /\
  (forall x s, nodot o = true -> Rk n x o s = true -> can_send n x = true -> In (MRemoved o s) (msgs_of (snd r))).
Proof.
  unfold object_removed. simpl. do 5 (split; [reflexivity|]).
  split; [|split; [|split; [|split]]].
  - intros m Hm. unfold msgs_of in Hm. apply in_flat_map in Hm as [o1 [Ho1 Hm]].
    apply in_flat_map in Ho1 as [e [_ Ho1]]. apply in_flat_map in Ho1 as [x [_ Ho1]].
    unfold send_to in Ho1. destruct (can_send _ x); [|destruct Ho1]. destruct Ho1 as [<-|[]].
    destruct Hm as [<-|[]]. eauto.
  - match goal with |- reqids_of ?l = [] => remember l as L eqn:EL end.
    assert (H : forall o1, In o1 L -> exists x s', o1 = OSend x (MRemoved o s')).
    { subst L. intros o1 Ho1. apply in_flat_map in Ho1 as [e [_ Ho1]]. apply in_flat_map in Ho1 as [x [_ Ho1]].
      unfold send_to in Ho1. destruct (can_send _ x); [|destruct Ho1]. destruct Ho1 as [<-|[]]. eauto. }
    clear EL. induction L as [|o1 L IH]; [reflexivity|].
    simpl. destruct (H o1 (or_introl eq_refl)) as (x & s' & ->). simpl. apply IH. intros o2 Ho2. apply H. right. exact Ho2.
  - intros c p s Hm Hc Hne. unfold Lk. simpl.
    rewrite (alookup_filter_key str_eqb str_eqb_spec (fun k => negb (startswith (n_name n ++ DOT :: o ++ [DOT]) k))).
    destruct (startswith (n_name n ++ DOT :: o ++ [DOT]) (key3 c p s)) eqn:E; [|reflexivity].
    unfold key3 in E. apply startswith_nodot_prefix in E; try assumption. congruence.
  - intros x p s Ho Hp. unfold Rk. simpl.
    rewrite (alookup_filter_key str_eqb str_eqb_spec (fun k => negb (startswith (o ++ [DOT]) k))).
    destruct (startswith (o ++ [DOT]) (key2 p s)) eqn:E.
    + apply prefix_obj2 in E; try assumption. subst. rewrite str_eqb_refl. reflexivity.
    + simpl. destruct (str_eqb o p) eqn:E2; [|reflexivity]. apply str_eqb_spec in E2. subst.
      assert (startswith (p ++ [DOT]) (key2 p s) = true) by (apply prefix_obj2; auto). congruence.
  - intros x s Ho HR Hc. unfold Rk in HR. destruct (slk (key2 o s) (n_rsubs n)) as [l|] eqn:El; [|discriminate].
    simpl in HR. apply smem_S_In in HR. apply (alookup_In str_eqb str_eqb_spec) in El.
    unfold msgs_of. apply in_flat_map. exists (OSend x (MRemoved o s)). split; [|left; reflexivity].
    apply in_flat_map. exists (key2 o s, l). split.
    + apply filter_In. split; [exact El|]. simpl. apply prefix_obj2; auto.
    + simpl. apply in_flat_map. exists x. split; [exact HR|].
      unfold send_to. unfold can_send in *. simpl. rewrite Hc. rewrite after_dot_key2 by exact Ho. left. reflexivity.
Qed.

(* ---- closing the connection ---- *)
Lemma handle_reply_unknown n id ok : nlk id (n_pid n) = None -> handle_reply n id ok = (n, []).
Proof. intro H. unfold handle_reply, complete. rewrite H. reflexivity. Qed.

Lemma pname_empty_of_pid n : TInv n -> (forall id, nlk id (n_pid n) = None) -> forall key, slk key (n_pname n) = None.
Proof.
  intros (_ & (_ & P2 & _) & _) H key. destruct (slk key (n_pname n)) eqn:E; [|reflexivity].
  destruct (P2 _ _ E) as [id Hid]. rewrite H in Hid. discriminate.
Qed.

Lemma err_replies_down ids : forall n,
  TInv n -> (forall c, can_send n c = false) ->
  let r := err_replies n ids in
  snd r = [] /\ same_side n (fst r) /\ TInv (fst r) /\
  (forall key, slk key (n_lsubs (fst r)) = slk key (n_lsubs n)) /\
  (forall id, In id ids -> nlk id (n_pid (fst r)) = None) /\
  (forall id, nlk id (n_pid n) = None -> nlk id (n_pid (fst r)) = None).
Proof.
  induction ids as [|id ids IH]; intros n HT Hc; simpl.
  - split; [reflexivity|]. split; [unfold same_side; auto|]. split; [exact HT|]. split; [reflexivity|]. split; [tauto | auto].
  - assert (Hstep : let r1 := handle_reply n id false in
            snd r1 = [] /\ same_side n (fst r1) /\ TInv (fst r1) /\
            (forall key, slk key (n_lsubs (fst r1)) = slk key (n_lsubs n)) /\
            nlk id (n_pid (fst r1)) = None /\
            (forall id', nlk id' (n_pid n) = None -> nlk id' (n_pid (fst r1)) = None)).
    { destruct (nlk id (n_pid n)) as [key|] eqn:Eid.
      2: { rewrite handle_reply_unknown by exact Eid. simpl. split; [reflexivity|]. split; [unfold same_side; auto|].
           split; [exact HT|]. split; [reflexivity|]. split; [exact Eid | auto]. }
      pose proof HT as (H0 & HPC & HPV & HNE & HNR & HEX).
      destruct HPC as (P1 & P2 & P3 & P4). destruct (P1 _ _ Eid) as [q Eq].
      assert (Hl : slk key (n_lsubs n) = None).
      { destruct (slk key (n_lsubs n)) eqn:El; [|reflexivity]. rewrite (HEX _ _ El) in Eq. discriminate. }
      assert (Hnf : nlk (n_next n) (n_pid n) = None).
      { destruct (nlk (n_next n) (n_pid n)) eqn:E; [|reflexivity]. specialize (P4 _ _ E). lia. }
      pose proof (handle_reply_spec n id false key q HT Eid Eq) as Hs. cbv zeta in Hs.
      pose proof (handle_reply_TInv n id false HT) as HT1.
      destruct (handle_reply n id false) as [n1 o1]. simpl in *. destruct Hs as (S1 & S2 & S3 & S4).
      assert (Hlall : forall (lk' : unit), slk key (n_lsubs n1) = None -> forall key', slk key' (n_lsubs n1) = slk key' (n_lsubs n)).
      { intros _ Hk key'. destruct (str_eq_dec key' key) as [->|Hne]; [congruence | apply S2; exact Hne]. }
      rewrite (Hc (pq_ctx q)) in S4.
      destruct (pq_sub q).
      - destruct S4 as (-> & S5 & S6 & S7). split; [reflexivity|]. split; [exact S1|]. split; [exact HT1|].
        split; [apply (Hlall tt); exact S7|]. split; [exact S3|].
        intros id' Hn. destruct (N.eq_dec id' id) as [->|Hne]; [exact S3 | rewrite S6 by exact Hne; exact Hn].
      - destruct (is_nil (pq_recv q)).
        + destruct S4 as (-> & S5 & S6 & S7). split; [reflexivity|]. split; [exact S1|]. split; [exact HT1|].
          split; [apply (Hlall tt); exact S7|]. split; [exact S3|].
          intros id' Hn. destruct (N.eq_dec id' id) as [->|Hne]; [exact S3 | rewrite S6 by exact Hne; exact Hn].
        + destruct S4 as (-> & S5 & S6 & S7 & S8). split; [reflexivity|]. split; [exact S1|]. split; [exact HT1|].
          split; [apply (Hlall tt); exact S8|]. split; [exact S3|].
          intros id' Hn. destruct (N.eq_dec id' id) as [->|Hne]; [exact S3|].
          destruct (N.eq_dec id' (n_next n)) as [->|Hne2]; [exact S6 | rewrite S7 by assumption; exact Hn]. }
    cbv zeta in Hstep. destruct (handle_reply n id false) as [n1 o1]. simpl in Hstep.
    destruct Hstep as (-> & S1 & HT1 & S3 & S4 & S5).
    assert (Hc1 : forall c, can_send n1 c = false) by (intro c; rewrite (can_send_same n n1 c S1); apply Hc).
    specialize (IH n1 HT1 Hc1). cbv zeta in IH. destruct (err_replies n1 ids) as [n2 o2]. simpl in *.
    destruct IH as (-> & I1 & I2 & I3 & I4 & I5).
    split; [reflexivity|]. split; [eapply same_side_trans; eauto|]. split; [exact I2|].
    split; [intro key; rewrite I3; apply S3|]. split.
    + intros id' [<-|Hin]; [apply I5; exact S4 | apply I4; exact Hin].
    + intros id' Hn. apply I5, S5, Hn.
Qed.

Lemma peer_removed_spec n x :
  (forall c, can_send n c = true -> c = x) ->
  let n1 := peer_removed (w_peers (sdel str_eqb x (n_peers n)) n) x in
  (forall c, can_send n1 c = false) /\
  n_pname n1 = n_pname n /\ n_pid n1 = n_pid n /\ n_name n1 = n_name n /\ n_objs n1 = n_objs n /\ n_next n1 = n_next n /\
  (forall p s, Lk n1 x p s = None) /\
  (forall c p s, nodot c = true -> nodot x = true -> c <> x -> Lk n1 c p s = Lk n c p s) /\
  (forall p s, Rk n1 x p s = false).
Proof.
  intro Hp. unfold peer_removed. simpl. split; [|do 5 (split; [reflexivity|]); split; [|split]].
  - intro c. unfold can_send. simpl. apply (smem_false str_eqb str_eqb_spec). intro Hin.
    apply (In_sdel str_eqb str_eqb_spec) in Hin as [Hne Hin]. apply Hne. apply Hp. apply smem_S_In. exact Hin.
  - intros p s. unfold Lk. simpl.
    rewrite (alookup_filter_key str_eqb str_eqb_spec (fun k => negb (startswith (x ++ [DOT]) k))).
    replace (startswith (x ++ [DOT]) (key3 x p s)) with true; [reflexivity|].
    symmetry. unfold key3. replace (x ++ DOT :: p ++ DOT :: s) with ((x ++ [DOT]) ++ p ++ DOT :: s) by (rewrite <- app_assoc; reflexivity).
    apply startswith_app.
  - intros c p s Hc Hx Hne. unfold Lk. simpl.
    rewrite (alookup_filter_key str_eqb str_eqb_spec (fun k => negb (startswith (x ++ [DOT]) k))).
    destruct (startswith (x ++ [DOT]) (key3 c p s)) eqn:E; [|reflexivity].
    apply prefix_ctx in E; try assumption. congruence.
  - intros p s. unfold Rk. simpl.
    destruct (slk _ _) as [l|] eqn:El; [|reflexivity].
    simpl. apply (smem_false str_eqb str_eqb_spec). intro Hin.
    apply (alookup_In str_eqb str_eqb_spec) in El. apply in_flat_map in El as [[k0 l0] [_ El]]. simpl in El.
    destruct (smem str_eqb x l0) eqn:Em.
    + destruct (is_nil (sdel str_eqb x l0)); [destruct El|]. destruct El as [El|[]]. inversion El; subst.
      apply (In_sdel str_eqb str_eqb_spec) in Hin as [Hin _]. congruence.
    + destruct El as [El|[]]. inversion El; subst. apply smem_S_In in Hin. congruence.
Qed.
