(* C08 — what each handler does to the entries of one signal (lookup level). *)
From Coq Require Import List NArith ZArith Bool Arith Lia.
Require Import QV.C07.Model QV.C07.ProofsLib QV.C07.Proofs QV.C08.Proofs.
Import ListNotations.
Open Scope N_scope.

Definition Lk (n : node) (c p s : name) := slk (key3 c p s) (n_lsubs n).
Definition Pk (n : node) (c p s : name) := slk (key3 c p s) (n_pname n).
Definition Rk (n : node) (x p s : name) : bool := smem str_eqb x (opt_list (slk (key2 p s) (n_rsubs n))).

Definition same_pid (n n' : node) : Prop := forall id, nlk id (n_pid n') = nlk id (n_pid n).
Definition same_side (n n' : node) : Prop :=
  n_rsubs n' = n_rsubs n /\ n_peers n' = n_peers n /\ n_name n' = n_name n /\ n_objs n' = n_objs n.
(* entries of every other key are untouched *)
Definition frame_at (key0 : str) (n n' : node) : Prop :=
  forall key, key <> key0 -> slk key (n_lsubs n') = slk key (n_lsubs n) /\ slk key (n_pname n') = slk key (n_pname n).

(* ---- complete ---- *)
Lemma complete_spec n id ok key q :
  TInv n -> nlk id (n_pid n) = Some key -> slk key (n_pname n) = Some q ->
  let r := complete n id ok in
  same_side n (fst r) /\ frame_at key n (fst r) /\
  nlk id (n_pid (fst r)) = None /\
  (if pq_sub q then
     snd r = None /\ slk key (n_pname (fst r)) = None /\
     (forall id', id' <> id -> nlk id' (n_pid (fst r)) = nlk id' (n_pid n)) /\
     slk key (n_lsubs (fst r)) = (if ok then Some (pq_recv q) else None)
   else if is_nil (pq_recv q) then
     snd r = None /\ slk key (n_pname (fst r)) = None /\
     (forall id', id' <> id -> nlk id' (n_pid (fst r)) = nlk id' (n_pid n)) /\
     slk key (n_lsubs (fst r)) = None
   else
     let q' := mkPreq (pq_ctx q) (pq_pub q) (pq_sig q) true (pq_recv q) (pq_wait q) in
     snd r = Some (n_next n, q') /\ slk key (n_pname (fst r)) = Some q' /\
     nlk (n_next n) (n_pid (fst r)) = Some key /\
     (forall id', id' <> id -> id' <> n_next n -> nlk id' (n_pid (fst r)) = nlk id' (n_pid n)) /\
     slk key (n_lsubs (fst r)) = None).
Proof.
  intros (H0 & HPC & HPV & HNE & HNR & HEX) Eid Eq. unfold complete. rewrite Eid. cbn [n_pname w_pid]. rewrite Eq.
  assert (Hl : slk key (n_lsubs n) = None).
  { destruct (slk key (n_lsubs n)) eqn:El; [|reflexivity]. rewrite (HEX _ _ El) in Eq. discriminate. }
  assert (Hfresh : id <> n_next n).
  { destruct HPC as (_ & _ & _ & P4). specialize (P4 _ _ Eid). lia. }
  assert (Hside : forall m, n_rsubs m = n_rsubs n -> n_peers m = n_peers n -> n_name m = n_name n -> n_objs m = n_objs n -> same_side n m)
    by (intros m A B C D; unfold same_side; auto).
  destruct (pq_sub q) eqn:Esub; simpl.
  - destruct ok; simpl; rewrite ?Hl; simpl.
    + split; [apply Hside; reflexivity|]. split; [intros k Hk; simpl; rewrite slk_aset_other, slk_aremove_other by exact Hk; auto|].
      split; [apply nlk_aremove_same|]. split; [reflexivity|]. split; [apply slk_aremove_same|].
      split; [intros id' Hn; apply nlk_aremove_other; exact Hn | apply slk_aset_same].
    + split; [apply Hside; reflexivity|]. split; [intros k Hk; simpl; rewrite slk_aremove_other by exact Hk; auto|].
      split; [apply nlk_aremove_same|]. split; [reflexivity|]. split; [apply slk_aremove_same|].
      split; [intros id' Hn; apply nlk_aremove_other; exact Hn | first [exact Hl | reflexivity]].
  - destruct (is_nil (pq_recv q)) eqn:En; simpl.
    + split; [apply Hside; reflexivity|]. split; [intros k Hk; simpl; rewrite slk_aremove_other by exact Hk; auto|].
      split; [apply nlk_aremove_same|]. split; [reflexivity|]. split; [apply slk_aremove_same|].
      split; [intros id' Hn; apply nlk_aremove_other; exact Hn | first [exact Hl | reflexivity]].
    + split; [apply Hside; reflexivity|]. split; [intros k Hk; simpl; rewrite slk_aset_other, slk_aremove_other by exact Hk; auto|].
      split; [rewrite nlk_aset_other by exact Hfresh; apply nlk_aremove_same|]. split; [reflexivity|].
      split; [apply slk_aset_same|]. split; [apply nlk_aset_same|].
      split; [intros id' Hn Hn2; rewrite nlk_aset_other by exact Hn2; apply nlk_aremove_other; exact Hn | first [exact Hl | reflexivity]].
Qed.

(* a request that cannot be sent is completed with an error at once: afterwards nothing is registered *)
Lemma send_req_down n id q key :
  TInv n -> can_send n (pq_ctx q) = false -> nlk id (n_pid n) = Some key -> slk key (n_pname n) = Some q ->
  (pq_sub q = false -> pq_recv q = []) ->
  let r := send_req n id q in
  snd r = [] /\ same_side n (fst r) /\ frame_at key n (fst r) /\
  slk key (n_pname (fst r)) = None /\ nlk id (n_pid (fst r)) = None /\
  (forall id', id' <> id -> nlk id' (n_pid (fst r)) = nlk id' (n_pid n)) /\
  slk key (n_lsubs (fst r)) = None.
Proof.
  intros HT Hc Eid Eq Hr. unfold send_req. rewrite Hc.
  pose proof (complete_spec n id false key q HT Eid Eq) as Hs. cbv zeta in Hs.
  destruct (complete n id false) as [n1 r1]. simpl in Hs. destruct Hs as (S1 & S2 & S3 & S4).
  destruct (pq_sub q) eqn:Esub.
  - destruct S4 as (-> & S5 & S6 & S7). simpl. auto 10.
  - rewrite (Hr eq_refl) in S4. simpl in S4. destruct S4 as (-> & S5 & S6 & S7). simpl. auto 10.
Qed.

Lemma send_req_up n id q :
  can_send n (pq_ctx q) = true -> send_req n id q = (n, [OSend (pq_ctx q) (MSubReq id (pq_pub q) (pq_sig q) (pq_sub q))]).
Proof. intro H. unfold send_req. rewrite H. reflexivity. Qed.
