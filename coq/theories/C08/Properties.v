(* C08 — property theorems only. *)
From Coq Require Import List NArith ZArith Bool.
Require Import QV.C07.Model QV.C07.ProofsLib QV.C08.Proofs.
Import ListNotations.
Open Scope N_scope.

(* Single node, EVERY input sequence (API calls and arbitrary messages / error replies / peer
   events, even from misbehaving peers): the four tables are dictionaries; the two pending tables
   describe the same set of requests (one request id per pending object, registered under its own
   full signal name); no empty set is stored; a signal that has local subscribers has no pending
   request. *)
Theorem C08_tables_consistent : forall nm objs ins n os,
  nodot nm = true -> node_run (init_node nm objs) ins = Some (n, os) ->
  (NoDup (map fst (n_lsubs n)) /\ NoDup (map fst (n_rsubs n)) /\ NoDup (map fst (n_pid n)) /\ NoDup (map fst (n_pname n))) /\
  (forall id key, In (id, key) (n_pid n) -> exists q, In (key, q) (n_pname n)) /\
  (forall key q, In (key, q) (n_pname n) -> exists id, In (id, key) (n_pid n)) /\
  (forall id1 id2 key, In (id1, key) (n_pid n) -> In (id2, key) (n_pid n) -> id1 = id2) /\
  (forall key q, In (key, q) (n_pname n) -> key = key3 (pq_ctx q) (pq_pub q) (pq_sig q)) /\
  (forall key l, In (key, l) (n_lsubs n) -> l <> []) /\
  (forall key l, In (key, l) (n_rsubs n) -> l <> []) /\
  (forall key q, In (key, q) (n_pname n) -> pq_sub q = true -> pq_recv q <> []) /\
  (forall key l, In (key, l) (n_lsubs n) -> forall q, ~ In (key, q) (n_pname n)).
Proof. exact tables_consistent. Qed.
Print Assumptions C08_tables_consistent.
