Require Import QV.C07.Model QV.C08.Proofs.
