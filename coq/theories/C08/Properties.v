(* C08 — property theorems only.  Model: theories/C07/Model.v (shared with C07).
   Single-context theorems are about [node_step]/[node_run] for EVERY input sequence.  Two-context
   theorems are about [step2]/[run2]: two complete SignalManagers A and B (each publishes and
   subscribes), one connection at a time, FIFO channels, each end closes on its own; [reach2] = reachable
   by ANY finite sequence of labels (API calls of any thread of either context at handler granularity,
   deliveries, connects, closes at any position) in which object names are valid names.
   Lk n c p s = _local_subscriptions["c.p.s"] of n, Rk n x p s = (x in _remote_subscriptions["p.s"] of n),
   up s sd = side sd considers the connection open. *)
From Coq Require Import List NArith ZArith Bool.
Require Import QV.C07.Model QV.C07.ProofsLib QV.C08.Proofs QV.C08.Effects QV.C08.Proofs2 QV.C08.ProofsWait QV.C08.ProofsStar.
Import ListNotations.
Open Scope N_scope.

(* Single node, EVERY input sequence (API calls and arbitrary messages / error replies / peer events,
   even from a misbehaving peer): the four tables are dictionaries; the two pending tables describe the
   same set of requests (one request id per pending object, registered under its own full signal name);
   no empty set is stored; a signal that has local subscribers has no pending request. *)
Theorem C08_tables_consistent : forall nm objs ins n os,
  nodot nm = true -> node_run (init_node nm objs) ins = Some (n, os) ->
  (NoDup (map fst (n_lsubs n)) /\ NoDup (map fst (n_rsubs n)) /\ NoDup (map fst (n_pid n)) /\ NoDup (map fst (n_pname n))) /\
  (forall id key, In (id, key) (n_pid n) -> exists q, In (key, q) (n_pname n)) /\
  (forall key q, In (key, q) (n_pname n) -> exists id, In (id, key) (n_pid n)) /\
  (forall id1 id2 key, In (id1, key) (n_pid n) -> In (id2, key) (n_pid n) -> id1 = id2) /\
  (forall key q, In (key, q) (n_pname n) -> key = key3 (pq_ctx q) (pq_pub q) (pq_sig q)) /\
  (forall key l, In (key, l) (n_lsubs n) -> l <> []) /\
  (forall key l, In (key, l) (n_rsubs n) -> l <> []) /\
  (forall key q, In (key, q) (n_pname n) -> pq_sub q = true -> pq_recv q <> []) /\
  (forall key l, In (key, l) (n_lsubs n) -> forall q, ~ In (key, q) (n_pname n)).
Proof. exact tables_consistent. Qed.
Print Assumptions C08_tables_consistent.

(* MAIN.  In every reachable state of the two-context system in which nothing is in flight, side sd has
   no request outstanding and both ends agree on whether the connection is open: the other side lists sd
   as remote subscriber of its signal p.sg  <->  sd has a (non-empty: C08_tables_consistent) set of local
   receivers for it.  Hence (C07_snapshot of _remote_subscriptions) a signal is transmitted to a peer
   exactly when some receiver there is subscribed.  Holds for both directions (sd = true / false). *)
Theorem C08_quiescent : forall a b oa ob s sd p sg,
  nodot a = true -> nodot b = true -> a <> b -> reach2 a b oa ob s ->
  ch s true = [] -> ch s false = [] -> n_pid (nd s sd) = [] ->
  up s sd = up s (negb sd) ->
  nodot p = true ->
  (Rk (nd s (negb sd)) (n_name (nd s sd)) p sg = true <->
   Lk (nd s sd) (n_name (nd s (negb sd))) p sg <> None).
Proof. exact quiescent. Qed.
Print Assumptions C08_quiescent.

(* N contexts, star topology: a publisher context h with ANY number of subscriber contexts.  [sysN] is the
   N-context system the correspondence runs on (same [node_step], same network semantics as [sys2]); l lists
   the contexts (names without '.') with their initial objects; a history is star-shaped when connections,
   deliveries and closes are between h and another context ([labelN_ok]); every context runs the complete
   API (spokes publish too, the hub may subscribe to spokes).  In every reachable state, for EVERY spoke x:
   when nothing is in flight between x and h, x has no request outstanding and both ends agree on the link,
   h lists x as remote subscriber of its signal p.sg  <->  x has local receivers for h.p.sg.
   What is not covered (full N-context lift): a context that subscribes to SEVERAL publisher contexts at
   once.  For that the subscriber-side clauses of the pair invariant (pending requests / connection-level
   pending table / "closed end is clean") have to be relativised to one peer, and a frame lemma is needed
   for the error replies of closing ANOTHER connection (ids tracked by connection (x,z) never belong to
   requests towards y); the publisher-side half, the per-destination bookkeeping and the N-context state
   lemmas proved here carry over unchanged. *)
Theorem C08_quiescent_star : forall h l ls S x X Y p sg,
  (exists oh, getn (initN l) h = Some (init_node h oh)) -> (forall z objs, In (z, objs) l -> nodot z = true) ->
  runN0 (initN l) ls = Some S -> Forall (labelN_ok h) ls ->
  x <> h -> getn S x = Some X -> getn S h = Some Y ->
  getc S x h = [] -> getc S h x = [] -> n_pid X = [] -> can_send X h = can_send Y x ->
  nodot p = true ->
  (Rk Y x p sg = true <-> Lk X h p sg <> None).
Proof. exact star_quiescent. Qed.
Print Assumptions C08_quiescent_star.

(* ... and the pair invariant holds for every (spoke, hub) pair in every reachable state *)
Theorem C08_invariant_star : forall h l ls S,
  (exists oh, getn (initN l) h = Some (init_node h oh)) -> (forall z objs, In (z, objs) l -> nodot z = true) ->
  runN0 (initN l) ls = Some S -> Forall (labelN_ok h) ls -> StarInv h S.
Proof. intros h l ls S Hh Hnd Hr Hf. eapply runN_StarInv; eauto. apply initN_StarInv; assumption. Qed.
Print Assumptions C08_invariant_star.

(* the invariant behind it holds in every reachable state, quiescent or not (per signal: no request in
   flight / the request in flight / the reply in flight with what it will make true; "publisher removed"
   notices in flight; requests tracked by the connection) *)
Theorem C08_invariant : forall a b oa ob s,
  nodot a = true -> nodot b = true -> a <> b -> reach2 a b oa ob s -> SInv2 s.
Proof. exact reach2_SInv2. Qed.
Print Assumptions C08_invariant.

(* a reply read by a context always answers one of its pending requests (no KeyError in
   _handle_subscription_reply), and every pending request is tracked by the connection, so closing
   produces an error reply for it *)
Theorem C08_reply_known : forall a b oa ob s sd id ok,
  nodot a = true -> nodot b = true -> a <> b -> reach2 a b oa ob s ->
  up s sd = true -> In (MSubReply id ok) (ch s (negb sd)) ->
  exists key q, alookup N.eqb id (n_pid (nd s sd)) = Some key /\ alookup str_eqb key (n_pname (nd s sd)) = Some q.
Proof. exact reply_known. Qed.
Print Assumptions C08_reply_known.

(* unknown publisher: the publisher's side answers "failed" and its tables are unchanged ... *)
Theorem C08_unknown_publisher_remote : forall n from id p s,
  smem str_eqb p (n_objs n) = false ->
  let r := handle_sub_request n from id p s true in
  fst r = n /\ snd r = send_to n from (MSubReply id false).
Proof. intros n from id p s H. unfold handle_sub_request. rewrite H. simpl. auto. Qed.
Print Assumptions C08_unknown_publisher_remote.

(* ... the subscriber's side, on a failed reply, drops the request, stores nothing, and releases the
   waiting calls with "failed" (= QMI_SignalSubscriptionException) *)
Theorem C08_failed_reply : forall n id key q,
  TInv n -> alookup N.eqb id (n_pid n) = Some key -> alookup str_eqb key (n_pname n) = Some q -> pq_sub q = true ->
  let r := handle_reply n id false in
  snd r = [] /\ alookup N.eqb id (n_pid (fst r)) = None /\ alookup str_eqb key (n_pname (fst r)) = None /\
  alookup str_eqb key (n_lsubs (fst r)) = None /\
  (forall key', key' <> key -> alookup str_eqb key' (n_lsubs (fst r)) = alookup str_eqb key' (n_lsubs n) /\
                              alookup str_eqb key' (n_pname (fst r)) = alookup str_eqb key' (n_pname n)).
Proof.
  intros n id key q HT Hid Hq Hs r. pose proof (handle_reply_spec n id false key q HT Hid Hq) as H. cbv zeta in H. fold r in H.
  rewrite Hs in H. destruct H as (_ & H2 & H3 & H4 & H5 & _ & H7). auto.
Qed.
Print Assumptions C08_failed_reply.

Theorem C08_unknown_publisher_local : forall n call c p s r,
  names_ok (resolve_ctx n c) p s = true -> resolve_ctx n c = n_name n -> smem str_eqb p (n_objs n) = false ->
  node_step n (ISub call c p s r) = Some (n, [ORes RSubErr]).
Proof.
  intros n call c p s r Hok Hc Ho. simpl. rewrite Hok, Hc. simpl. rewrite (proj2 (str_eqb_spec _ _) eq_refl).
  unfold sub_local. rewrite Ho. reflexivity.
Qed.
Print Assumptions C08_unknown_publisher_local.

(* cleanup, peer loss: an end that has closed has no request outstanding, no local subscription on the
   peer's signals, does not list the peer as remote subscriber, and the connection tracks nothing *)
Theorem C08_cleanup_peer : forall a b oa ob s sd,
  nodot a = true -> nodot b = true -> a <> b -> reach2 a b oa ob s -> up s sd = false ->
  (forall id, alookup N.eqb id (n_pid (nd s sd)) = None) /\
  (forall p sg, Lk (nd s sd) (n_name (nd s (negb sd))) p sg = None) /\
  (forall p sg, Rk (nd s sd) (n_name (nd s (negb sd))) p sg = false) /\
  cp s sd = [].
Proof. exact closed_end_clean. Qed.
Print Assumptions C08_cleanup_peer.

(* cleanup, publisher removal: the publisher's side forgets every remote subscriber of the object's
   signals, tells each of them (if reachable), and drops the local subscriptions on the object;
   C08_quiescent then gives: once the notices are delivered nobody at the other end is subscribed *)
Theorem C08_cleanup_object : forall n o,
  let r := object_removed (w_objs (sdel str_eqb o (n_objs n)) n) o in
  (forall x p s, nodot o = true -> nodot p = true -> Rk (fst r) x p s = (if str_eqb o p then false else Rk n x p s)) /\
  (forall x s, nodot o = true -> Rk n x o s = true -> can_send n x = true -> In (MRemoved o s) (msgs_of (snd r))) /\
  (forall m, In m (msgs_of (snd r)) -> exists s', m = MRemoved o s').
Proof. intros n o r. destruct (object_removed_spec n o) as (_ & _ & _ & _ & _ & H6 & _ & _ & H9 & H10). auto. Qed.
Print Assumptions C08_cleanup_object.

(* The removal notices are sent per (signal, subscriber), each on its own: while some peers u cannot be reached
   (half-way through disconnecting: still listed as subscribers, send_message raises) the tables end up exactly
   as without failures, nothing goes to an unreachable peer, and EVERY OTHER peer gets exactly the notices it
   gets when everybody is reachable (same notices, same order); in particular every reachable remote
   subscriber of a signal of the removed object gets its notice. *)
Theorem C08_notice_failure_isolated : forall u n o,
  fst (object_removed_u u n o) = fst (object_removed n o) /\
  (forall x, smem str_eqb x u = true -> msgs_to x (snd (object_removed_u u n o)) = []) /\
  (forall x, smem str_eqb x u = false -> msgs_to x (snd (object_removed_u u n o)) = msgs_to x (snd (object_removed n o))) /\
  object_removed_u [] n o = object_removed n o.
Proof.
  intros u n o. destruct (notice_failure_isolated u n o) as (H1 & H2 & H3).
  split; [exact H1|]. split; [exact H2|]. split; [exact H3 | apply object_removed_u_nil].
Qed.
Print Assumptions C08_notice_failure_isolated.

Theorem C08_notice_sent_when_reachable : forall u n o x s,
  nodot o = true -> Rk n x o s = true -> can_send n x = true -> smem str_eqb x u = false ->
  In (MRemoved o s) (msgs_to x (snd (object_removed_u u (w_objs (sdel str_eqb o (n_objs n)) n) o))).
Proof. exact notice_sent_when_reachable. Qed.
Print Assumptions C08_notice_sent_when_reachable.

(* no subscribe call blocks forever: a call blocked in wait() stays accounted for (blocked on a
   registered request, or its outcome is ready) through every step, including the loss of the peer; when
   nothing is in flight no request is registered any more, so the outcome is there and wait() returns *)
Theorem C08_no_block : forall a b oa ob ls1 ls2 s1 s2 sd call,
  nodot a = true -> nodot b = true -> a <> b ->
  run2 (init2 a b oa ob) ls1 = Some s1 -> run2 s1 ls2 = Some s2 ->
  Forall label2_ok ls1 -> Forall label2_ok ls2 ->
  waiting (nd s1 sd) call -> ~ In (L2Node sd (ISubEnd call)) ls2 ->
  waiting (nd s2 sd) call /\
  (ch s2 true = [] -> ch s2 false = [] ->
   exists (ok : bool) n' os, node_step (nd s2 sd) (ISubEnd call) = Some (n', os) /\ os = [ORes (if ok then RNone else RSubErr)]).
Proof. exact no_block. Qed.
Print Assumptions C08_no_block.

(* ... and a subscribe call that returns "blocked" is waiting in that sense *)
Theorem C08_blocked_is_waiting : forall n call c p s r n' os,
  WV n -> node_step n (ISub call c p s r) = Some (n', os) -> In (ORes RWait) os -> waiting n' call.
Proof. intros n call c p s r n' os HW H Hin. destruct (step_WP _ _ _ _ H HW) as (_ & _ & H3). eapply H3; eauto. Qed.
Print Assumptions C08_blocked_is_waiting.

(* with nothing in flight no request is outstanding at either end *)
Theorem C08_empty_channels_no_pending : forall a b oa ob s sd,
  nodot a = true -> nodot b = true -> a <> b -> reach2 a b oa ob s ->
  ch s true = [] -> ch s false = [] -> forall id, alookup N.eqb id (n_pid (nd s sd)) = None.
Proof. exact empty_channels_no_pending. Qed.
Print Assumptions C08_empty_channels_no_pending.

(* non-vacuity: subscribe, reply, second receiver, unsubscribe both, re-subscribe while the unsubscribe is
   pending, publisher removed, everything delivered: a quiescent reachable state with the equivalence on
   both sides false; and an intermediate quiescent state where it is true on both sides *)
Example C08_example :
  let a := [110] in let b := [109] in let p := [112] in let sg := [115] in
  let ls1 := [L2Connect; L2Node true (ISub 1 b p sg 1); L2Deliver true; L2Deliver false; L2Node true (ISubEnd 1)] in
  let ls2 := [L2Node true (ISub 2 b p sg 2); L2Node true (IUnsub b p sg 1); L2Node true (IUnsub b p sg 2);
              L2Node true (ISub 3 b p sg 3); L2Deliver true; L2Deliver false; L2Node false (IObjRemove p);
              L2Deliver true; L2Deliver false; L2Node true (ISubEnd 3)] in
  (exists s, run2 (init2 a b [] [p]) ls1 = Some s /\ Forall label2_ok ls1 /\ ch s true = [] /\ ch s false = [] /\
             n_pid (nd s true) = [] /\ up s true = up s false /\ Rk (nd s false) a p sg = true /\ Lk (nd s true) b p sg = Some [1]) /\
  (exists s, run2 (init2 a b [] [p]) (ls1 ++ ls2) = Some s /\ ch s true = [] /\ ch s false = [] /\
             n_pid (nd s true) = [] /\ Rk (nd s false) a p sg = false /\ Lk (nd s true) b p sg = None).
Proof.
  split.
  - eexists. split; [vm_compute; reflexivity|]. split; [repeat constructor|]. vm_compute. repeat split.
  - eexists. split; [vm_compute; reflexivity|]. vm_compute. repeat split.
Qed.

(* non-vacuity of the star theorem: hub m with spokes n and k; both subscribe, k unsubscribes, everything
   delivered: m lists n but not k *)
Example C08_star_example :
  let m := [109] in let n := [110] in let k := [107] in let p := [112] in let sg := [115] in
  let ls := [LConnect n m; LConnect m k; LNode n (ISub 1 m p sg 1); LNode k (ISub 1 m p sg 1);
             LDeliver n m; LDeliver k m; LDeliver m n; LDeliver m k; LNode n (ISubEnd 1); LNode k (ISubEnd 1);
             LNode k (IUnsub m p sg 1); LDeliver k m; LDeliver m k] in
  exists S X K Y, runN0 (initN [(m, [p]); (n, []); (k, [])]) ls = Some S /\ Forall (labelN_ok m) ls /\
    getn S n = Some X /\ getn S k = Some K /\ getn S m = Some Y /\
    getc S n m = [] /\ getc S m n = [] /\ getc S k m = [] /\ getc S m k = [] /\ n_pid X = [] /\ n_pid K = [] /\
    Rk Y n p sg = true /\ Lk X m p sg = Some [1] /\ Rk Y k p sg = false /\ Lk K m p sg = None.
Proof.
  eexists. eexists. eexists. eexists. split; [vm_compute; reflexivity|]. split.
  - repeat (apply Forall_cons; [split; [first [exact I | left; reflexivity | right; reflexivity] | first [exact I | discriminate]]|]). apply Forall_nil.
  - vm_compute. repeat split.
Qed.
