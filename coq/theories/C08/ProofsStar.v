(* C08 — a publisher context with any number of subscriber contexts (star topology) in the N-context
   system [sysN]: the per-pair invariant of Proofs2 holds for every (spoke, hub) pair. *)
From Coq Require Import List NArith ZArith Bool Arith Lia.
Require Import QV.C07.Model QV.C07.ProofsLib QV.C07.Proofs QV.C08.Proofs QV.C08.Effects QV.C08.Proofs2.
Import ListNotations.
Open Scope N_scope.

(* messages / request ids a handler hands to the router for destination x *)
Definition msgs_to (x : name) (os : list out) : list msg :=
  flat_map (fun o => match o with OSend y m => if str_eqb x y then [m] else [] | ORes _ => [] end) os.
Definition reqids_to (x : name) (os : list out) : list N :=
  flat_map (fun o => match o with
                     | OSend y m => if str_eqb x y then match req_id_of m with Some id => [id] | None => [] end else []
                     | ORes _ => [] end) os.

Lemma msgs_to_in x os m : In m (msgs_to x os) -> In (OSend x m) os.
Proof.
  unfold msgs_to. intro H. apply in_flat_map in H as [o [Ho Hm]]. destruct o as [y m'|]; [|destruct Hm].
  destruct (str_eqb x y) eqn:E; [|destruct Hm]. apply str_eqb_spec in E. subst. destruct Hm as [<-|[]]. exact Ho.
Qed.

Lemma msgs_to_sub x os m : In m (msgs_to x os) -> In m (msgs_of os).
Proof.
  intro H. apply msgs_to_in in H. unfold msgs_of. apply in_flat_map. exists (OSend x m). split; [exact H | left; reflexivity].
Qed.

Lemma in_msgs_to x os m : In (OSend x m) os -> In m (msgs_to x os).
Proof. intro H. unfold msgs_to. apply in_flat_map. exists (OSend x m). split; [exact H|]. rewrite str_eqb_refl. left. reflexivity. Qed.

(* all outputs go to o: then the per-destination lists are the whole lists / empty *)
Lemma msgs_to_all o os : (forall y m, In (OSend y m) os -> y = o) ->
  msgs_to o os = msgs_of os /\ reqids_to o os = reqids_of os /\
  (forall x, x <> o -> msgs_to x os = [] /\ reqids_to x os = []).
Proof.
  intro H. induction os as [|a os IH]; [simpl; auto|].
  assert (H' : forall y m, In (OSend y m) os -> y = o) by (intros y m Hin; eapply H; right; exact Hin).
  destruct (IH H') as (I1 & I2 & I3). destruct a as [y m|r].
  - assert (y = o) by (eapply H; left; reflexivity). subst y.
    unfold msgs_to, reqids_to, msgs_of, reqids_of in *. simpl. rewrite str_eqb_refl. rewrite I1, I2.
    split; [reflexivity|]. split; [reflexivity|]. intros x Hx. rewrite (str_eqb_neq _ _ Hx). simpl. apply I3. exact Hx.
  - unfold msgs_to, reqids_to, msgs_of, reqids_of in *. simpl. auto.
Qed.

Lemma some_snd' {A B} (x : A * B) a b : Some x = Some (a, b) -> b = snd x.
Proof. intro H. inversion H. reflexivity. Qed.

(* a handler only sends to peers the router knows *)
Lemma send_req_dest n id q y m : In (OSend y m) (snd (send_req n id q)) -> can_send n y = true.
Proof.
  unfold send_req. destruct (can_send n (pq_ctx q)) eqn:E; simpl.
  - intros [H|[]]. inversion H; subst. exact E.
  - destruct (complete n id false) as [n1 [[id2 q2]|]]; simpl; tauto.
Qed.

Lemma complete_peers n id ok : n_peers (fst (complete n id ok)) = n_peers n.
Proof. unfold complete. crush_match; reflexivity. Qed.

Lemma handle_reply_dest n id ok y m : In (OSend y m) (snd (handle_reply n id ok)) -> can_send n y = true.
Proof.
  unfold handle_reply. pose proof (complete_peers n id ok) as Hp. destruct (complete n id ok) as [n1 [[id2 q2]|]]; simpl in *; [|tauto].
  intro H. apply send_req_dest in H. unfold can_send in *. rewrite <- Hp. exact H.
Qed.

Lemma step_dest n i n' os y m : node_step n i = Some (n', os) -> In (OSend y m) os -> can_send n y = true.
Proof.
  intros H Hin. destruct i; simpl in H.
  - destruct (negb (names_ok (resolve_ctx n c) p s)); [inversion H; subst; destruct Hin as [E|[]]; discriminate|].
    destruct (str_eqb (resolve_ctx n c) (n_name n)).
    + pose proof (some_snd' _ _ _ H) as E. subst os. unfold sub_local in Hin.
      destruct (smem str_eqb p (n_objs n)); destruct Hin as [E|[]]; discriminate.
    + pose proof (some_snd' _ _ _ H) as E. subst os. clear H.
      unfold sub_remote in Hin.
      destruct (alookup str_eqb (key3 (resolve_ctx n c) p s) (n_lsubs n)) as [[|x l]|];
        try (destruct Hin as [E|[]]; discriminate);
        (destruct (alookup str_eqb (key3 (resolve_ctx n c) p s) (n_pname n)); [destruct Hin as [E|[]]; discriminate|]);
        unfold new_request in Hin; cbv beta iota zeta in Hin;
        match type of Hin with context [send_req ?a ?b ?c0] => pose proof (send_req_dest a b c0 y m) as Hs; destruct (send_req a b c0) end;
        simpl in *; (apply in_app_iff in Hin as [Hin|[Hin|[]]]; [exact (Hs Hin) | discriminate]).
  - destruct (alookup N.eqb call (n_done n)); [|discriminate]. inversion H; subst. destruct Hin as [E|[]]. discriminate.
  - destruct (negb (names_ok (resolve_ctx n c) p s)); [inversion H; subst; destruct Hin as [E|[]]; discriminate|].
    destruct (str_eqb (resolve_ctx n c) (n_name n)); [inversion H; subst; destruct Hin as [E|[]]; discriminate|].
    pose proof (some_snd' _ _ _ H) as E. subst os. clear H.
    unfold unsub_remote in Hin.
    assert (Hrl : n_peers (fst (remove_local n (key3 (resolve_ctx n c) p s) r)) = n_peers n).
    { unfold remove_local. crush_match; reflexivity. }
    destruct (remove_local n (key3 (resolve_ctx n c) p s) r) as [n1 last]. simpl in Hrl.
    destruct last; [|destruct Hin as [E|[]]; discriminate].
    destruct (alookup str_eqb (key3 (resolve_ctx n c) p s) (n_pname n1)); [destruct Hin as [E|[]]; discriminate|].
    unfold new_request in Hin. cbv beta iota zeta in Hin.
    match type of Hin with context [send_req ?a ?b ?c0] => pose proof (send_req_dest a b c0 y m) as Hs; destruct (send_req a b c0) end.
    simpl in *. apply in_app_iff in Hin as [Hin|[Hin|[]]]; [|discriminate]. specialize (Hs Hin). unfold can_send in *. simpl in Hs. rewrite <- Hrl. exact Hs.
  - destruct (negb (valid_name p && valid_name s)); inversion H; subst; [destruct Hin as [E|[]]; discriminate | destruct Hin].
  - destruct (find_job j (n_jobs n)); [|discriminate]. destruct (smem N.eqb r (j_todo j0)); [|discriminate]. inversion H; subst. destruct Hin.
  - destruct (find_job j (n_jobs n)); [|discriminate]. destruct (j_todo j0); [|discriminate]. destruct (j_rsnap j0); [discriminate|].
    inversion H; subst. destruct Hin.
  - destruct (find_job j (n_jobs n)); [|discriminate]. destruct (smem str_eqb x (j_rtodo j0)); [|discriminate]. inversion H; subst.
    unfold send_to in Hin. destruct (can_send n x) eqn:E; [|destruct Hin]. destruct Hin as [Hin|[]]. inversion Hin; subst. exact E.
  - inversion H; subst. destruct Hin.
  - inversion H; subst. unfold object_removed in Hin. simpl in Hin.
    apply in_flat_map in Hin as [e [_ Hin]]. apply in_flat_map in Hin as [x [_ Hin]].
    unfold send_to in Hin. destruct (can_send _ x) eqn:E; [|destruct Hin]. destruct Hin as [Hin|[]]. inversion Hin; subst. exact E.
  - destruct m0.
    + inversion H; subst. destruct Hin.
    + pose proof (some_snd' _ _ _ H) as E. subst os.
      unfold handle_sub_request, send_to in Hin.
      destruct sub; [destruct (smem str_eqb pub (n_objs n))|]; simpl in Hin; destruct (can_send n from) eqn:E; simpl in Hin;
        try tauto; destruct Hin as [Hin|[]]; inversion Hin; subst; exact E.
    + pose proof (some_snd' _ _ _ H) as E. subst os. eapply handle_reply_dest; eauto.
    + inversion H; subst. destruct Hin.
  - pose proof (some_snd' _ _ _ H) as E. subst os. eapply handle_reply_dest; eauto.
  - inversion H; subst. destruct Hin.
  - inversion H; subst. destruct Hin.
Qed.

(* ================================================================ hub-side lemmas (Y has many peers) *)
Lemma dir_frame_Yx X Y Y' cxy cyx cpx app :
  Dir X Y cxy cyx cpx ->
  n_name Y' = n_name Y -> can_send Y' (n_name X) = can_send Y (n_name X) ->
  (forall p s, Rk Y' (n_name X) p s = Rk Y (n_name X) p s) ->
  (forall m, In m app -> is_anyreply m = false /\ is_anyremoved m = false) ->
  Dir X Y' cxy (cyx ++ app) cpx.
Proof.
  intros (D1 & D2 & D3 & D5 & D6 & D7 & DI) Hn Hc HR Happ. unfold Dir. rewrite Hn. repeat rewrite Hc.
  split; [|split; [|split; [|split; [|split; [|split]]]]].
  - exact D1.
  - intros Hd p s. rewrite HR. apply D2. exact Hd.
  - exact D3.
  - intros Hu id ok Hin. apply in_app_iff in Hin as [Hin|Hin]; [eapply D5; eauto|]. destruct (Happ _ Hin) as [H _]. discriminate.
  - exact D6.
  - intros p s Hin. apply in_app_iff in Hin as [Hin|Hin]; [eapply D7; eauto|]. destruct (Happ _ Hin) as [_ H]. discriminate.
  - intros p s Hp. specialize (DI p s Hp). unfold KeyInv in *. rewrite Hn. repeat rewrite Hc. intro Hu. specialize (DI Hu).
    rewrite HR.
    assert (Hrm : forall l, existsb (is_removed p s) (l ++ app) = existsb (is_removed p s) l)
      by (intro l; apply existsb_app_false; intros m Hm; apply is_removed_any, (Happ m Hm)).
    assert (Hrp : forall id l, existsb (is_reply id) (l ++ app) = existsb (is_reply id) l)
      by (intros id l; apply existsb_app_false; intros m Hm; apply is_reply_any, (Happ m Hm)).
    destruct (Pk X (n_name Y) p s) as [q|].
    + destruct DI as (id & Hid & [Ha|Hb]); exists id; (split; [exact Hid|]).
      * left. rewrite Hrp. exact Ha.
      * right. destruct Hb as (K & pre & ok & suf & E & B1 & B2 & B3). split; [exact K|].
        exists pre, ok, (suf ++ app). rewrite E, <- app_assoc. simpl. split; [reflexivity|].
        split; [exact B1|]. split; [rewrite Hrp; exact B2|]. rewrite Hrm. exact B3.
    + rewrite Hrm. exact DI.
Qed.

(* a handler that is not an object removal: the remote-subscriber table is untouched, nothing sent is a reply
   or a removal notice *)
Lemma api_step_side Y i Y' os :
  node_step Y i = Some (Y', os) -> api_input i = true -> TInv Y -> (forall o, i <> IObjRemove o) ->
  n_rsubs Y' = n_rsubs Y /\ n_peers Y' = n_peers Y /\ n_name Y' = n_name Y /\
  (forall m, In m (msgs_of os) -> is_anyreply m = false /\ is_anyremoved m = false).
Proof.
  intros H Hapi HTY Hno.
  assert (Hreq : (forall m, In m (msgs_of os) -> is_req m = true) ->
                 forall m, In m (msgs_of os) -> is_anyreply m = false /\ is_anyremoved m = false).
  { intros Hr m Hin. specialize (Hr m Hin). destruct m; try discriminate. auto. }
  destruct (quiet_input i) eqn:Hq.
  { destruct (quiet_step _ _ _ _ H Hq) as (E & Ep & Hm & Hr). destruct (tabpart_facts _ _ E) as (E1 & E2 & E3 & E4 & E5 & E6).
    split; [exact E6|]. split; [exact Ep|]. split; [exact E1|]. intros m Hin. destruct (Hm m Hin) as (p & s & a & j & ->). auto. }
  destruct i; simpl in Hq, Hapi; try discriminate.
  - destruct (names_ok (resolve_ctx Y c) p s) eqn:Eok.
    2: { destruct (local_sub_step _ _ _ _ H) as (E1 & E2 & E3 & E4 & E5 & E6 & E7 & E8); [left; eauto 10|].
         split; [exact E3|]. split; [exact E4|]. split; [exact E5|]. rewrite E6. intros m []. }
    destruct (str_eq_dec (resolve_ctx Y c) (n_name Y)) as [Eself|Nself].
    { destruct (local_sub_step _ _ _ _ H) as (E1 & E2 & E3 & E4 & E5 & E6 & E7 & E8); [left; eauto 10|].
      split; [exact E3|]. split; [exact E4|]. split; [exact E5|]. rewrite E6. intros m []. }
    simpl in H. rewrite Eok in H. simpl in H. rewrite (str_eqb_neq _ _ Nself) in H.
    assert (E : (Y', os) = sub_remote Y call (resolve_ctx Y c) p s r) by (inversion H; reflexivity).
    pose proof (sub_remote_spec Y call (resolve_ctx Y c) p s r HTY Eok Nself) as Hs. cbv zeta in Hs.
    pose proof (sub_remote_msgs Y call (resolve_ctx Y c) p s r) as Hm.
    rewrite <- E in Hs, Hm. simpl in Hs, Hm. destruct Hs as ((S1 & S2 & S3 & S4) & _).
    split; [exact S1|]. split; [exact S2|]. split; [exact S3|]. apply Hreq. exact Hm.
  - destruct (names_ok (resolve_ctx Y c) p s) eqn:Eok.
    2: { destruct (local_sub_step _ _ _ _ H) as (E1 & E2 & E3 & E4 & E5 & E6 & E7 & E8); [right; eauto 10|].
         split; [exact E3|]. split; [exact E4|]. split; [exact E5|]. rewrite E6. intros m []. }
    destruct (str_eq_dec (resolve_ctx Y c) (n_name Y)) as [Eself|Nself].
    { destruct (local_sub_step _ _ _ _ H) as (E1 & E2 & E3 & E4 & E5 & E6 & E7 & E8); [right; eauto 10|].
      split; [exact E3|]. split; [exact E4|]. split; [exact E5|]. rewrite E6. intros m []. }
    simpl in H. rewrite Eok in H. simpl in H. rewrite (str_eqb_neq _ _ Nself) in H.
    assert (E : (Y', os) = unsub_remote Y (resolve_ctx Y c) p s r) by (inversion H; reflexivity).
    pose proof (unsub_remote_spec Y (resolve_ctx Y c) p s r HTY Eok Nself) as Hs. cbv zeta in Hs.
    pose proof (unsub_remote_msgs Y (resolve_ctx Y c) p s r) as Hm.
    rewrite <- E in Hs, Hm. simpl in Hs, Hm. destruct Hs as ((S1 & S2 & S3 & S4) & _).
    split; [exact S1|]. split; [exact S2|]. split; [exact S3|]. apply Hreq. exact Hm.
  - exfalso. eapply Hno. reflexivity.
Qed.

(* the publisher removes an object; destination-wise *)
Lemma object_removed_sends n o x s :
  nodot o = true -> Rk n x o s = true -> can_send n x = true ->
  In (OSend x (MRemoved o s)) (snd (object_removed (w_objs (sdel str_eqb o (n_objs n)) n) o)).
Proof.
  intros Ho HR Hc. unfold Rk in HR. destruct (slk (key2 o s) (n_rsubs n)) as [l|] eqn:El; [|discriminate].
  simpl in HR. apply smem_S_In in HR. apply (alookup_In str_eqb str_eqb_spec) in El.
  unfold object_removed. simpl. apply in_flat_map. exists (key2 o s, l). split.
  - apply filter_In. split; [exact El|]. simpl. apply prefix_obj2; auto.
  - simpl. apply in_flat_map. exists x. split; [exact HR|].
    unfold send_to. unfold can_send in *. simpl. rewrite Hc. rewrite after_dot_key2 by exact Ho. left. reflexivity.
Qed.

Lemma dir_objremove_Yx X Y cxy cyx cpx o :
  Dir X Y cxy cyx cpx -> nodot o = true ->
  let r := object_removed (w_objs (sdel str_eqb o (n_objs Y)) Y) o in
  Dir X (fst r) cxy (cyx ++ msgs_to (n_name X) (snd r)) cpx.
Proof.
  intros HD Ho r. pose proof HD as (D1 & D2 & D3 & D5 & D6 & D7 & DI).
  destruct (object_removed_spec Y o) as (S1 & S2 & S3 & S4 & S5 & S6' & S7 & S8 & S9 & S10'). fold r in S1, S2, S3, S4, S5, S6', S7, S8, S9, S10'.
  assert (S6 : forall m, In m (msgs_to (n_name X) (snd r)) -> exists s', m = MRemoved o s') by (intros m Hm; apply S6', (msgs_to_sub _ _ _ Hm)).
  assert (S10 : forall s, Rk Y (n_name X) o s = true -> can_send Y (n_name X) = true -> In (MRemoved o s) (msgs_to (n_name X) (snd r))).
  { intros s HR Hc. apply in_msgs_to. apply object_removed_sends; assumption. }
  assert (Hc : forall c, can_send (fst r) c = can_send Y c) by (intro c; unfold can_send; rewrite S3; reflexivity).
  assert (Hnew_rp : forall id m, In m (msgs_to (n_name X) (snd r)) -> is_reply id m = false).
  { intros id m Hm. destruct (S6 m Hm) as [s' ->]. reflexivity. }
  unfold Dir. rewrite S4. repeat rewrite Hc.
  split; [exact D1|].
  split; [intros Hd p s; destruct (str_eq_dec o p) as [<-|Hne]|].
  { unfold Rk. unfold r, object_removed. simpl.
    rewrite (alookup_filter_key str_eqb str_eqb_spec (fun k => negb (startswith (o ++ [DOT]) k))).
    replace (startswith (o ++ [DOT]) (key2 o s)) with true; [reflexivity|].
    symmetry. unfold key2. replace (o ++ DOT :: s) with ((o ++ [DOT]) ++ s) by (rewrite <- app_assoc; reflexivity). apply startswith_app. }
  { specialize (D2 Hd p s). unfold Rk in *. unfold r, object_removed. simpl.
    rewrite (alookup_filter_key str_eqb str_eqb_spec (fun k => negb (startswith (o ++ [DOT]) k))).
    destruct (negb (startswith (o ++ [DOT]) (key2 p s))); [exact D2 | reflexivity]. }
  split; [exact D3|].
  split; [intros Hu id ok Hin; apply in_app_iff in Hin as [Hin|Hin]; [eapply D5; eauto | destruct (S6 _ Hin) as [s' E]; discriminate]|].
  split; [exact D6|].
  split; [intros p s Hin; apply in_app_iff in Hin as [Hin|Hin]; [eapply D7; eauto | destruct (S6 _ Hin) as [s' E]; inversion E; subst; exact Ho]|].
  intros p s Hp. unfold KeyInv. rewrite S4. repeat rewrite Hc. intro Hu.
  pose proof (DI p s Hp) as K. unfold KeyInv in K. specialize (K Hu).
  pose proof (S9 (n_name X) p s Ho Hp) as HR.
  assert (Hrm_other : o <> p -> forall l, existsb (is_removed p s) (l ++ msgs_to (n_name X) (snd r)) = existsb (is_removed p s) l).
  { intros Hne l. apply existsb_app_false. intros m Hm. destruct (S6 m Hm) as [s' ->]. simpl.
    destruct (str_eqb p o) eqn:E; [apply str_eqb_spec in E; congruence | reflexivity]. }
  assert (Hrm_same : Rk Y (n_name X) p s = true -> can_send Y (n_name X) = true -> o = p ->
                     forall l, existsb (is_removed p s) (l ++ msgs_to (n_name X) (snd r)) = true).
  { intros HRt Hy <- l. rewrite existsb_app. apply orb_true_iff. right. apply existsb_exists.
    exists (MRemoved o s). split; [apply S10; assumption | simpl; rewrite !str_eqb_refl; reflexivity]. }
  assert (Hrp : forall id l, existsb (is_reply id) (l ++ msgs_to (n_name X) (snd r)) = existsb (is_reply id) l)
    by (intros id l; apply existsb_app_false; intros m Hm; eapply Hnew_rp; eauto).
  destruct (Pk X (n_name Y) p s) as [q|] eqn:EP.
  - destruct K as (id & Hid & Hcase). exists id. split; [exact Hid|].
    destruct Hcase as [(A1 & A2 & A3)|(B0 & pre & ok & suf & E & F1 & F2 & F3)].
    + left. split; [exact A1|]. split; [rewrite Hrp; exact A2|]. intro Hs. etransitivity; [exact HR|]. rewrite (A3 Hs). destruct (str_eqb o p); reflexivity.
    + right. split; [exact B0|]. exists pre, ok, (suf ++ msgs_to (n_name X) (snd r)). rewrite E, <- app_assoc. simpl.
      split; [reflexivity|]. split; [exact F1|]. split; [rewrite Hrp; exact F2|].
      intro Hy. specialize (F3 Hy). etransitivity; [exact HR|]. destruct (str_eqb o p) eqn:Eo.
      * apply str_eqb_spec in Eo. destruct (Rk Y (n_name X) p s) eqn:ER.
        -- rewrite (Hrm_same eq_refl Hy Eo). rewrite andb_false_r. reflexivity.
        -- symmetry in F3. apply andb_false_iff in F3 as [F3|F3].
           ++ rewrite F3. reflexivity.
           ++ apply negb_false_iff in F3. rewrite existsb_app, F3. simpl. rewrite andb_false_r. reflexivity.
      * rewrite Hrm_other; [exact F3|]. intros ->. rewrite str_eqb_refl in Eo. discriminate.
  - destruct K as [K1 K2]. split; [exact K1|]. intro Hy. specialize (K2 Hy). rewrite HR.
    destruct (str_eqb o p) eqn:Eo.
    + apply str_eqb_spec in Eo. destruct (Rk Y (n_name X) p s) eqn:ER.
      * rewrite (Hrm_same eq_refl Hy Eo). reflexivity.
      * destruct (existsb (is_removed p s) cyx) eqn:Ex.
        -- rewrite existsb_app, Ex. reflexivity.
        -- destruct (existsb (is_removed p s) (cyx ++ msgs_to (n_name X) (snd r))); [reflexivity|]. exact K2.
    + rewrite Hrm_other; [exact K2|]. intros ->. rewrite str_eqb_refl in Eo. discriminate.
Qed.

Lemma api_hub X Y cxy cyx cpx i Y' os :
  Dir X Y cxy cyx cpx -> TInv Y -> label_ok i -> api_input i = true -> node_step Y i = Some (Y', os) ->
  Dir X Y' cxy (cyx ++ msgs_to (n_name X) os) cpx.
Proof.
  intros HD HT Hl Hapi H.
  assert (Hcase : (exists o, i = IObjRemove o) \/ (forall o, i <> IObjRemove o)).
  { destruct i; try (right; intros; discriminate). left. eauto. }
  destruct Hcase as [[o ->]|Hno].
  - Local Transparent node_step. simpl in H. Local Opaque node_step.
    assert (E : (Y', os) = object_removed (w_objs (sdel str_eqb o (n_objs Y)) Y) o) by (inversion H; reflexivity).
    pose proof (dir_objremove_Yx X Y cxy cyx cpx o HD Hl) as Hd. cbv zeta in Hd. rewrite <- E in Hd. exact Hd.
  - destruct (api_step_side _ _ _ _ H Hapi HT Hno) as (E1 & E2 & E3 & Hm).
    apply (dir_frame_Yx X Y); auto.
    + unfold can_send. rewrite E2. reflexivity.
    + intros p s. unfold Rk. rewrite E1. reflexivity.
    + intros m Hin. apply Hm. eapply msgs_to_sub; eauto.
Qed.

Local Transparent node_step.

(* ---- membership of another peer is not touched by a request of [from] ---- *)
Lemma smem_sadd_other x y l : x <> y -> smem str_eqb x (sadd str_eqb y l) = smem str_eqb x l.
Proof. intro H. rewrite smem_sadd_S. rewrite (str_eqb_neq _ _ H). reflexivity. Qed.

Lemma smem_sdel_other x y l : x <> y -> smem str_eqb x (sdel str_eqb y l) = smem str_eqb x l.
Proof.
  intro H. destruct (smem str_eqb x l) eqn:E.
  - apply smem_S_In. apply (In_sdel str_eqb str_eqb_spec). split; [exact H | apply smem_S_In; exact E].
  - apply (smem_false str_eqb str_eqb_spec). intro Hin. apply (In_sdel str_eqb str_eqb_spec) in Hin as [_ Hin]. apply smem_S_In in Hin. congruence.
Qed.

Lemma sub_request_other n from id p0 s0 sub x p s :
  x <> from -> Rk (fst (handle_sub_request n from id p0 s0 sub)) x p s = Rk n x p s.
Proof.
  intro Hne. unfold handle_sub_request, Rk. destruct sub.
  - destruct (smem str_eqb p0 (n_objs n)); [|reflexivity]. unfold add_remote.
    destruct (str_eq_dec (key2 p s) (key2 p0 s0)) as [E|Nk].
    + rewrite E. destruct (slk (key2 p0 s0) (n_rsubs n)) as [l|] eqn:El; simpl; rewrite slk_aset_same; simpl.
      * apply smem_sadd_other. exact Hne.
      * rewrite (str_eqb_neq _ _ Hne). reflexivity.
    + destruct (slk (key2 p0 s0) (n_rsubs n)); simpl; rewrite slk_aset_other by exact Nk; reflexivity.
  - unfold remove_remote. destruct (slk (key2 p0 s0) (n_rsubs n)) as [l|] eqn:El; [|reflexivity].
    destruct (str_eq_dec (key2 p s) (key2 p0 s0)) as [E|Nk].
    + rewrite E, El. simpl. destruct (is_nil (sdel str_eqb from l)) eqn:En; simpl.
      * rewrite slk_aremove_same. simpl. apply is_nil_true in En.
        destruct (smem str_eqb x l) eqn:Ex; [|reflexivity]. exfalso.
        assert (In x (sdel str_eqb from l)) by (apply (In_sdel str_eqb str_eqb_spec); split; [exact Hne | apply smem_S_In; exact Ex]).
        rewrite En in H. destruct H.
      * rewrite slk_aset_same. simpl. apply smem_sdel_other. exact Hne.
    + destruct (is_nil (sdel str_eqb from l)); simpl; [rewrite slk_aremove_other by exact Nk | rewrite slk_aset_other by exact Nk]; reflexivity.
Qed.

Lemma handle_reply_side_gen n id ok :
  n_rsubs (fst (handle_reply n id ok)) = n_rsubs n /\ n_peers (fst (handle_reply n id ok)) = n_peers n /\
  n_name (fst (handle_reply n id ok)) = n_name n.
Proof.
  assert (Hc : forall n id ok, n_rsubs (fst (complete n id ok)) = n_rsubs n /\ n_peers (fst (complete n id ok)) = n_peers n /\
                               n_name (fst (complete n id ok)) = n_name n) by (intros; unfold complete; crush_match; auto).
  assert (Hs : forall n id q, n_rsubs (fst (send_req n id q)) = n_rsubs n /\ n_peers (fst (send_req n id q)) = n_peers n /\
                              n_name (fst (send_req n id q)) = n_name n).
  { intros n0 id0 q. unfold send_req. destruct (can_send n0 (pq_ctx q)); [auto|].
    pose proof (Hc n0 id0 false) as (A1 & A2 & A3). destruct (complete n0 id0 false) as [n1 [[id2 q2]|]]; simpl in *; [|auto].
    pose proof (Hc n1 id2 false) as (B1 & B2 & B3). repeat split; congruence. }
  unfold handle_reply. pose proof (Hc n id ok) as (A1 & A2 & A3). destruct (complete n id ok) as [n1 [[id2 q2]|]]; simpl in *; [|auto].
  pose proof (Hs n1 id2 q2) as (B1 & B2 & B3). repeat split; congruence.
Qed.

Lemma err_replies_side_gen ids : forall n,
  n_rsubs (fst (err_replies n ids)) = n_rsubs n /\ n_peers (fst (err_replies n ids)) = n_peers n /\
  n_name (fst (err_replies n ids)) = n_name n /\
  (forall m, In m (msgs_of (snd (err_replies n ids))) -> is_req m = true).
Proof.
  induction ids as [|id ids IH]; intro n; simpl; [repeat split; auto; intros m []|].
  pose proof (handle_reply_side_gen n id false) as (A1 & A2 & A3). pose proof (handle_reply_msgs n id false) as Hm.
  destruct (handle_reply n id false) as [n1 o1]. simpl in *. destruct (IH n1) as (B1 & B2 & B3 & B4).
  destruct (err_replies n1 ids) as [n2 o2]. simpl in *. repeat split; try congruence.
  intros m Hin. rewrite msgs_of_app in Hin. apply in_app_iff in Hin as [Hin|Hin]; auto.
Qed.

(* the hub handles a message of spoke [from]; what another spoke x' sees *)
Lemma hub_recv_other Y from m Y' os x' :
  node_step Y (IRecv from m) = Some (Y', os) -> x' <> from ->
  (forall p s, Rk Y' x' p s = Rk Y x' p s) /\ n_peers Y' = n_peers Y /\ n_name Y' = n_name Y /\
  (forall m0, In m0 (msgs_to x' os) -> is_anyreply m0 = false /\ is_anyremoved m0 = false).
Proof.
  intros H Hne. destruct m as [p0 s0 a j|id p0 s0 f|id ok|p0 s0]; simpl in H.
  - inversion H; subst. unfold deliver_remote. destruct (alookup str_eqb (key3 from p0 s0) (n_lsubs Y)); simpl;
      (split; [intros; reflexivity|]; split; [reflexivity|]; split; [reflexivity|]; intros m0 []).
  - pose proof (some_fst _ _ _ H) as E1. pose proof (some_snd' _ _ _ H) as E2. subst Y' os.
    destruct (sub_request_spec Y from id p0 s0 f) as (S1 & S2 & S3 & S4 & S5 & S6 & S7 & S8 & S9 & S10).
    split; [intros p s; apply sub_request_other; exact Hne|]. split; [exact S4|]. split; [exact S5|].
    intros m0 Hm0. apply msgs_to_in in Hm0. rewrite S8 in Hm0. unfold send_to in Hm0.
    destruct (can_send Y from); [|destruct Hm0]. destruct Hm0 as [Hm0|[]]. inversion Hm0; subst. contradiction.
  - pose proof (some_fst _ _ _ H) as E1. pose proof (some_snd' _ _ _ H) as E2. subst Y' os.
    destruct (handle_reply_side_gen Y id ok) as (A1 & A2 & A3).
    split; [intros p s; unfold Rk; rewrite A1; reflexivity|]. split; [exact A2|]. split; [exact A3|].
    intros m0 Hm0. apply msgs_to_sub in Hm0. apply handle_reply_msgs in Hm0. destruct m0; try discriminate. auto.
  - inversion H; subst. simpl. split; [intros; reflexivity|]. split; [reflexivity|]. split; [reflexivity|]. intros m0 [].
Qed.

(* the hub handles a message of spoke X itself *)
Lemma hub_recv_own X Y m rest cyx cpx Y' os :
  Dir X Y (m :: rest) cyx cpx -> NodeOK X (n_name Y) -> can_send Y (n_name X) = true ->
  node_step Y (IRecv (n_name X) m) = Some (Y', os) ->
  Dir X Y' rest (cyx ++ msgs_to (n_name X) os) cpx.
Proof.
  intros HD HX Hup H. destruct m as [p0 s0 a j|id p0 s0 f|id ok|p0 s0]; simpl in H.
  - inversion H; subst. simpl. rewrite app_nil_r.
    replace cyx with (cyx ++ []) by apply app_nil_r.
    apply (dir_frame_Yx X Y); [eapply dir_pop_cxy; [exact HD | reflexivity] | | | | intros m0 []];
      unfold deliver_remote; destruct (alookup str_eqb (key3 (n_name X) p0 s0) (n_lsubs Y)); reflexivity.
  - pose proof (some_fst _ _ _ H) as E1. pose proof (some_snd' _ _ _ H) as E2. subst Y' os.
    pose proof (dir_deliver_req X Y id p0 s0 f rest cyx cpx HD HX Hup) as Hd. cbv zeta in Hd.
    assert (Hall : forall y m0, In (OSend y m0) (snd (handle_sub_request Y (n_name X) id p0 s0 f)) -> y = n_name X).
    { intros y m0 Hin. destruct (sub_request_spec Y (n_name X) id p0 s0 f) as (_ & _ & _ & _ & _ & _ & _ & S8 & _).
      rewrite S8 in Hin. unfold send_to in Hin. destruct (can_send Y (n_name X)); [|destruct Hin]. destruct Hin as [Hin|[]]. inversion Hin. reflexivity. }
    destruct (msgs_to_all _ _ Hall) as (M1 & _). rewrite M1. exact Hd.
  - pose proof (some_fst _ _ _ H) as E1. pose proof (some_snd' _ _ _ H) as E2. subst Y' os.
    destruct (handle_reply_side_gen Y id ok) as (A1 & A2 & A3).
    apply (dir_frame_Yx X Y); [eapply dir_pop_cxy; [exact HD | reflexivity] | exact A3 | unfold can_send; rewrite A2; reflexivity | |].
    + intros p s. unfold Rk. rewrite A1. reflexivity.
    + intros m0 Hm0. apply msgs_to_sub in Hm0. apply handle_reply_msgs in Hm0. destruct m0; try discriminate. auto.
  - inversion H; subst. simpl. replace cyx with (cyx ++ []) at 2 by apply app_nil_r. rewrite app_nil_r.
    replace cyx with (cyx ++ []) by apply app_nil_r.
    apply (dir_frame_Yx X Y); [eapply dir_pop_cxy; [exact HD | reflexivity] | reflexivity | reflexivity | intros; reflexivity | intros m0 []].
Qed.

(* a spoke handles a message of the hub *)
Lemma spoke_recv X Y cxy m rest cpx X' os :
  Dir X Y cxy (m :: rest) cpx -> NodeOK X (n_name Y) -> can_send X (n_name Y) = true ->
  node_step X (IRecv (n_name Y) m) = Some (X', os) ->
  NodeOK X' (n_name Y) /\ n_name X' = n_name X /\
  Dir X' Y (cxy ++ msgs_of os) rest
      ((match reply_id_of m with Some id => sdel N.eqb id cpx | None => cpx end) ++ reqids_of os).
Proof.
  intros HDb HB Hup H. pose proof (step_TInv _ _ _ _ H (proj1 HB)) as HT'.
  destruct m as [p0 s0 a j|id p0 s0 f|id ok|p0 s0]; simpl in H; simpl reply_id_of.
  - assert (E : X' = deliver_remote X (n_name Y) p0 s0 a j /\ os = []) by (inversion H; auto). destruct E as [-> ->].
    assert (T : tabpart (deliver_remote X (n_name Y) p0 s0 a j) = tabpart X /\ n_peers (deliver_remote X (n_name Y) p0 s0 a j) = n_peers X).
    { unfold deliver_remote. destruct (alookup str_eqb (key3 (n_name Y) p0 s0) (n_lsubs X)); auto. }
    destruct T as [T Tp]. destruct (tabpart_facts _ _ T) as (E1 & E2 & E3 & E4 & E5 & E6).
    split; [apply (NodeOK_frame X); auto; rewrite E3; apply HB|]. split; [exact E1|]. simpl.
    apply (dir_frame_X' X); [eapply dir_pop_cyx; [exact HDb | reflexivity | reflexivity] | exact E1 | | | | intros m0 []].
    + intro c. unfold can_send. rewrite Tp. reflexivity.
    + intro id. rewrite E2. reflexivity.
    + intros pp ss. unfold Lk, Pk. rewrite E5, E3. auto.
  - assert (E : (X', os) = handle_sub_request X (n_name Y) id p0 s0 f) by (inversion H; reflexivity).
    destruct (sub_request_spec X (n_name Y) id p0 s0 f) as (S1 & S2 & S3 & S4 & S5 & S6 & S7 & S8 & S9 & S10).
    rewrite <- E in *. simpl in *.
    split; [apply (NodeOK_frame X); auto; rewrite S2; apply HB|]. split; [exact S5|].
    assert (Hr : reqids_of os = []) by (rewrite S8; unfold send_to; destruct (can_send X (n_name Y)); reflexivity).
    rewrite Hr. apply (dir_frame_X' X); [eapply dir_pop_cyx; [exact HDb | reflexivity | reflexivity] | exact S5 | | | |].
    + intro c. unfold can_send. rewrite S4. reflexivity.
    + intro i. rewrite S3. reflexivity.
    + intros pp ss. unfold Lk, Pk. rewrite S1, S2. auto.
    + intros m0 Hm0. rewrite S8 in Hm0. unfold send_to in Hm0. destruct (can_send X (n_name Y)); simpl in Hm0; [|destruct Hm0].
      destruct Hm0 as [<-|[]]. reflexivity.
  - assert (E : (X', os) = handle_reply X id ok) by (inversion H; reflexivity).
    pose proof (dir_deliver_reply X Y cxy id ok rest cpx HDb HB Hup) as Hd. cbv zeta in Hd.
    destruct (handle_reply_node X (n_name Y) id ok HB) as [N1 N2].
    rewrite <- E in *. simpl in *. split; [exact N1|]. split; [apply N2 | exact Hd].
  - assert (E : X' = w_lsubs (aremove str_eqb (key3 (n_name Y) p0 s0) (n_lsubs X)) X /\ os = []) by (inversion H; auto).
    destruct E as [-> ->]. simpl. split; [apply (NodeOK_frame X); auto; apply HB|]. split; [reflexivity|].
    rewrite !app_nil_r. apply dir_deliver_removed; assumption.
Qed.

(* the hub closes its connection to x: what it still knows about the others *)
Definition drop_peer (x : name) (t : list (str * list name)) : list (str * list name) :=
  flat_map (fun e => if smem str_eqb x (snd e) then
                       let l' := sdel str_eqb x (snd e) in if is_nil l' then [] else [(fst e, l')]
                     else [e]) t.

Lemma drop_peer_keys x t k l : slk k (drop_peer x t) = Some l -> In k (map fst t).
Proof.
  intro H. apply (alookup_In str_eqb str_eqb_spec) in H. unfold drop_peer in H. apply in_flat_map in H as [[k0 l0] [Hin H]]. simpl in H.
  apply in_map_iff. destruct (smem str_eqb x l0).
  - destruct (is_nil (sdel str_eqb x l0)); [destruct H|]. destruct H as [H|[]]. inversion H; subst. exists (k, l0). auto.
  - destruct H as [H|[]]. inversion H; subst. exists (k, l). auto.
Qed.

Lemma drop_peer_other x x' t k :
  NoDup (map fst t) -> x' <> x ->
  smem str_eqb x' (opt_list (slk k (drop_peer x t))) = smem str_eqb x' (opt_list (slk k t)).
Proof.
  intros ND Hne. induction t as [|[k0 l0] t IH]; [reflexivity|]. simpl in ND. inversion ND as [|? ? Hnotin ND']; subst.
  specialize (IH ND'). unfold drop_peer in *. simpl.
  destruct (smem str_eqb x l0) eqn:Em.
  - destruct (is_nil (sdel str_eqb x l0)) eqn:En; simpl.
    + destruct (str_eqb k k0) eqn:Ek; [|exact IH]. apply str_eqb_spec in Ek. subst k0.
      fold (drop_peer x t). destruct (slk k (drop_peer x t)) as [l|] eqn:El.
      * exfalso. apply Hnotin. eapply drop_peer_keys; eauto.
      * simpl. symmetry. apply (smem_false str_eqb str_eqb_spec). intro Hin. apply is_nil_true in En.
        assert (In x' (sdel str_eqb x l0)) by (apply (In_sdel str_eqb str_eqb_spec); auto). rewrite En in H. destruct H.
    + destruct (str_eqb k k0); [simpl; apply smem_sdel_other; exact Hne | exact IH].
  - simpl. destruct (str_eqb k k0); [reflexivity | exact IH].
Qed.

Lemma peer_removed_gen n x :
  NoDup (map fst (n_rsubs n)) ->
  let n1 := peer_removed (w_peers (sdel str_eqb x (n_peers n)) n) x in
  can_send n1 x = false /\ (forall c, c <> x -> can_send n1 c = can_send n c) /\ n_name n1 = n_name n /\
  (forall p s, Rk n1 x p s = false) /\ (forall x' p s, x' <> x -> Rk n1 x' p s = Rk n x' p s).
Proof.
  intro ND. unfold peer_removed. simpl. split; [|split; [|split; [reflexivity|split]]].
  - unfold can_send. simpl. apply smem_sdel_same_S.
  - intros c Hc. unfold can_send. simpl. apply smem_sdel_other. exact Hc.
  - intros p s. unfold Rk. simpl. destruct (slk _ _) as [l|] eqn:El; [|reflexivity].
    simpl. apply (smem_false str_eqb str_eqb_spec). intro Hin.
    apply (alookup_In str_eqb str_eqb_spec) in El. apply in_flat_map in El as [[k0 l0] [_ El]]. simpl in El.
    destruct (smem str_eqb x l0) eqn:Em.
    + destruct (is_nil (sdel str_eqb x l0)); [destruct El|]. destruct El as [El|[]]. inversion El; subst.
      apply (In_sdel str_eqb str_eqb_spec) in Hin as [Hin _]. congruence.
    + destruct El as [El|[]]. inversion El; subst. apply smem_S_In in Hin. congruence.
  - intros x' p s Hne. unfold Rk. simpl. apply (drop_peer_other x x' (n_rsubs n) (key2 p s) ND Hne).
Qed.

Lemma dir_close_Yx X Y Y2 cxy cyx cpx :
  n_name Y2 = n_name Y -> can_send Y2 (n_name X) = false -> (forall p s, Rk Y2 (n_name X) p s = false) ->
  Dir X Y cxy cyx cpx -> Dir X Y2 cxy cyx cpx.
Proof.
  intros Hn Hc HR (D1 & D2 & D3 & D5 & D6 & D7 & DI). unfold Dir. rewrite Hn, Hc.
  split; [exact D1|]. split; [intros _; exact HR|]. split; [exact D3|]. split; [exact D5|]. split; [exact D6|]. split; [exact D7|].
  intros p s Hp. pose proof (DI p s Hp) as K. unfold KeyInv in *. rewrite Hn, Hc. intro Hu. specialize (K Hu).
  rewrite HR. destruct (Pk X (n_name Y) p s) as [q|].
  - destruct K as (id & Hid & [(A1 & A2 & A3)|(B0 & pre & ok & suf & E & F1 & F2 & F3)]); exists id; (split; [exact Hid|]).
    + left. auto.
    + right. split; [exact B0|]. exists pre, ok, suf. repeat split; auto. discriminate.
  - destruct K as [K1 _]. split; [exact K1 | discriminate].
Qed.

Lemma err_replies_DK ids : forall n, DK n -> DK (fst (err_replies n ids)).
Proof.
  induction ids as [|id ids IH]; intros n H; simpl; [exact H|].
  pose proof (handle_reply_DK n id false H) as H1. destruct (handle_reply n id false) as [n1 o1]. simpl in H1.
  specialize (IH n1 H1). destruct (err_replies n1 ids) as [n2 o2]. exact IH.
Qed.

(* ================================================================ lookups in the N-context state *)
Lemma pair_eqb_spec a b : pair_eqb a b = true <-> a = b.
Proof.
  destruct a as [a1 a2], b as [b1 b2]. unfold pair_eqb. simpl. rewrite andb_true_iff, !str_eqb_spec. split; [intros [-> ->]; reflexivity | intro H; inversion H; auto].
Qed.

Lemma getn_putn s x n x' : getn (putn x n s) x' = if str_eqb x' x then Some n else getn s x'.
Proof.
  unfold getn, putn. simpl. destruct (str_eqb x' x) eqn:E.
  - apply str_eqb_spec in E. subst. apply slk_aset_same.
  - apply slk_aset_other. intros ->. rewrite str_eqb_refl in E. discriminate.
Qed.

Lemma getc_putc s x y v x' y' : getc (putc x y v s) x' y' = if pair_eqb (x', y') (x, y) then v else getc s x' y'.
Proof.
  unfold getc, putc. simpl. destruct (pair_eqb (x', y') (x, y)) eqn:E.
  - apply pair_eqb_spec in E. inversion E; subst. rewrite (alookup_aset_same pair_eqb pair_eqb_spec). reflexivity.
  - rewrite (alookup_aset_other pair_eqb pair_eqb_spec); [reflexivity|]. intro H. rewrite H in E. rewrite (proj2 (pair_eqb_spec _ _) eq_refl) in E. discriminate.
Qed.

Lemma getp_putp s x y v x' y' : getp (putp x y v s) x' y' = if pair_eqb (x', y') (x, y) then v else getp s x' y'.
Proof.
  unfold getp, putp. simpl. destruct (pair_eqb (x', y') (x, y)) eqn:E.
  - apply pair_eqb_spec in E. inversion E; subst. rewrite (alookup_aset_same pair_eqb pair_eqb_spec). reflexivity.
  - rewrite (alookup_aset_other pair_eqb pair_eqb_spec); [reflexivity|]. intro H. rewrite H in E. rewrite (proj2 (pair_eqb_spec _ _) eq_refl) in E. discriminate.
Qed.

Lemma routeN_spec x os : forall s,
  (forall x', getn (routeN x os s) x' = getn s x') /\
  (forall x' y', getc (routeN x os s) x' y' = getc s x' y' ++ (if str_eqb x' x then msgs_to y' os else [])) /\
  (forall x' y', getp (routeN x os s) x' y' = getp s x' y' ++ (if str_eqb x' x then reqids_to y' os else [])).
Proof.
  induction os as [|o os IH]; intro s.
  - simpl. split; [reflexivity|]. split; intros x' y'; destruct (str_eqb x' x); rewrite app_nil_r; reflexivity.
  - destruct o as [y m|r].
    2: { change (routeN x (ORes r :: os) s) with (routeN x os s). change (msgs_to ?a (ORes r :: os)) with (msgs_to a os). apply IH. }
    pose (s0 := putc x y (getc s x y ++ [m]) s).
    pose (s1 := match req_id_of m with Some id => putp x y (getp s0 x y ++ [id]) s0 | None => s0 end).
    change (routeN x (OSend y m :: os) s) with (routeN x os s1).
    destruct (IH s1) as (A1 & A2 & A3).
    assert (B1 : forall x', getn s1 x' = getn s x') by (intro x'; unfold s1, s0; destruct (req_id_of m); reflexivity).
    assert (B2 : forall x' y', getc s1 x' y' = if pair_eqb (x', y') (x, y) then getc s x y ++ [m] else getc s x' y').
    { intros x' y'. unfold s1. destruct (req_id_of m); unfold s0; [change (getc (putp ?a ?b ?c ?d) x' y') with (getc d x' y')|]; apply getc_putc. }
    assert (B3 : forall x' y', getp s1 x' y' = if pair_eqb (x', y') (x, y) then getp s x y ++ (match req_id_of m with Some id => [id] | None => [] end) else getp s x' y').
    { intros x' y'. unfold s1. destruct (req_id_of m).
      - rewrite getp_putp. unfold s0. change (getp (putc ?a ?b ?c ?d) ?e ?f) with (getp d e f). reflexivity.
      - unfold s0. change (getp (putc ?a ?b ?c ?d) ?e ?f) with (getp d e f). destruct (pair_eqb (x', y') (x, y)) eqn:E; [|reflexivity].
        apply pair_eqb_spec in E. inversion E; subst. rewrite app_nil_r. reflexivity. }
    split; [intro x'; rewrite A1; apply B1|]. split.
    + intros x' y'. rewrite A2, B2. unfold msgs_to. simpl. fold (msgs_to y' os).
      destruct (pair_eqb (x', y') (x, y)) eqn:E.
      * apply pair_eqb_spec in E. inversion E; subst. rewrite !str_eqb_refl. rewrite <- app_assoc. reflexivity.
      * destruct (str_eqb x' x) eqn:Ex; [|reflexivity]. apply str_eqb_spec in Ex. subst x'.
        destruct (str_eqb y' y) eqn:Ey; [|reflexivity]. apply str_eqb_spec in Ey. subst y'.
        rewrite (proj2 (pair_eqb_spec _ _) eq_refl) in E. discriminate.
    + intros x' y'. rewrite A3, B3. unfold reqids_to. simpl. fold (reqids_to y' os).
      destruct (pair_eqb (x', y') (x, y)) eqn:E.
      * apply pair_eqb_spec in E. inversion E; subst. rewrite !str_eqb_refl. rewrite <- app_assoc. reflexivity.
      * destruct (str_eqb x' x) eqn:Ex; [|reflexivity]. apply str_eqb_spec in Ex. subst x'.
        destruct (str_eqb y' y) eqn:Ey; [|reflexivity]. apply str_eqb_spec in Ey. subst y'.
        rewrite (proj2 (pair_eqb_spec _ _) eq_refl) in E. discriminate.
Qed.

(* ================================================================ the star invariant *)
Definition StarInv (h : name) (S : sysN) : Prop :=
  (forall x n, getn S x = Some n -> n_name n = x) /\
  exists Y, getn S h = Some Y /\ TInv Y /\ DK Y /\
    forall x X, x <> h -> getn S x = Some X ->
      NodeOK X h /\ Dir X Y (getc S x h) (getc S h x) (getp S x h).

Definition star_label (h : name) (l : labelN) : Prop :=
  match l with
  | LNode _ i => label_ok i
  | LDeliver x y | LConnect x y | LClose x y => x = h \/ y = h
  end.

Lemma str_eqb_sym_false a b : a <> b -> str_eqb b a = false.
Proof. intro H. apply str_eqb_neq. congruence. Qed.

Lemma stepN_node h S x i n n' os :
  StarInv h S -> label_ok i -> api_input i = true -> getn S x = Some n -> node_step n i = Some (n', os) ->
  StarInv h (routeN x os (putn x n' S)).
Proof.
  intros (WF & Y & HY & HTY & HDK & HS) Hl Hapi Hn H.
  destruct (routeN_spec x os (putn x n' S)) as (R1 & R2 & R3).
  assert (Gn : forall x', getn (routeN x os (putn x n' S)) x' = if str_eqb x' x then Some n' else getn S x') by (intro x'; rewrite R1; apply getn_putn).
  assert (Gc : forall x' y', getc (routeN x os (putn x n' S)) x' y' = getc S x' y' ++ (if str_eqb x' x then msgs_to y' os else [])) by (intros; rewrite R2; reflexivity).
  assert (Gp : forall x' y', getp (routeN x os (putn x n' S)) x' y' = getp S x' y' ++ (if str_eqb x' x then reqids_to y' os else [])) by (intros; rewrite R3; reflexivity).
  pose proof (step_name _ _ _ _ H) as Hnm. pose proof (WF _ _ Hn) as Hxn.
  split.
  { intros x' m Hm. rewrite Gn in Hm. destruct (str_eqb x' x) eqn:E; [|eapply WF; eauto]. apply str_eqb_spec in E. inversion Hm; subst. congruence. }
  destruct (str_eq_dec x h) as [->|Hxh].
  - (* the hub acts *)
    assert (n = Y) by congruence. subst n.
    exists n'. split; [rewrite Gn, str_eqb_refl; reflexivity|]. split; [eapply step_TInv; eauto|]. split; [eapply step_DK; eauto|].
    intros x' X Hx' HX. rewrite Gn, (str_eqb_neq _ _ Hx') in HX. destruct (HS x' X Hx' HX) as [N D].
    split; [exact N|]. rewrite !Gc, Gp, str_eqb_refl, (str_eqb_neq _ _ Hx'), !app_nil_r.
    pose proof (api_hub X Y _ _ _ i n' os D HTY Hl Hapi H) as G. rewrite (WF _ _ HX) in G. exact G.
  - (* a spoke acts *)
    exists Y. split; [rewrite Gn, (str_eqb_sym_false _ _ Hxh); exact HY|]. split; [exact HTY|]. split; [exact HDK|].
    intros x' X Hx' HX. rewrite Gn in HX. destruct (str_eqb x' x) eqn:E.
    + apply str_eqb_spec in E. subst x'. inversion HX; subst X. destruct (HS x n Hxh Hn) as [N D].
      assert (Hyn : n_name Y = h) by (eapply WF; eauto).
      rewrite <- Hyn in N. destruct (api_X n Y _ _ _ i n' os D N Hl Hapi H) as (G1 & G2 & G3 & G4).
      rewrite Hyn in G1. split; [exact G1|].
      assert (Hall : forall y m, In (OSend y m) os -> y = h).
      { intros y m Hin. pose proof (step_dest _ _ _ _ _ _ H Hin) as Hc. destruct N as (_ & N2 & _). rewrite <- Hyn. apply N2. exact Hc. }
      destruct (msgs_to_all h os Hall) as (M1 & M2 & _).
      rewrite !Gc, Gp, str_eqb_refl, (str_eqb_sym_false _ _ Hxh), M1, M2, app_nil_r. exact G4.
    + destruct (HS x' X Hx' HX) as [N D]. split; [exact N|].
      rewrite !Gc, Gp, E, (str_eqb_sym_false _ _ Hxh), !app_nil_r. exact D.
Qed.

Lemma pair_eqb_false_l a b c d : a <> c -> pair_eqb (a, b) (c, d) = false.
Proof. intro H. unfold pair_eqb. simpl. rewrite (str_eqb_neq _ _ H). reflexivity. Qed.
Lemma pair_eqb_false_r a b c d : b <> d -> pair_eqb (a, b) (c, d) = false.
Proof. intro H. unfold pair_eqb. simpl. rewrite (str_eqb_neq _ _ H). apply andb_false_r. Qed.
Lemma pair_eqb_refl a b : pair_eqb (a, b) (a, b) = true.
Proof. apply pair_eqb_spec. reflexivity. Qed.

Lemma stepN_deliver h S x y m rest n n' os :
  StarInv h S -> (x = h \/ y = h) -> x <> y ->
  getc S x y = m :: rest -> getn S y = Some n -> can_send n x = true -> node_step n (IRecv x m) = Some (n', os) ->
  let s1 := putc x y rest S in
  let s2 := match reply_id_of m with Some id => putp y x (sdel N.eqb id (getp s1 y x)) s1 | None => s1 end in
  StarInv h (routeN y os (putn y n' s2)).
Proof.
  intros (WF & Y & HY & HTY & HDK & HS) Hstar Hxy Hc Hn Hup H s1 s2.
  destruct (routeN_spec y os (putn y n' s2)) as (R1 & R2 & R3).
  assert (Gn : forall z, getn (routeN y os (putn y n' s2)) z = if str_eqb z y then Some n' else getn S z).
  { intro z. rewrite R1, getn_putn. destruct (str_eqb z y); [reflexivity|]. unfold s2, s1. destruct (reply_id_of m); reflexivity. }
  assert (Gc : forall a b, getc (routeN y os (putn y n' s2)) a b =
             (if pair_eqb (a, b) (x, y) then rest else getc S a b) ++ (if str_eqb a y then msgs_to b os else [])).
  { intros a b. rewrite R2. f_equal. change (getc (putn y n' s2) a b) with (getc s2 a b).
    unfold s2. destruct (reply_id_of m); [change (getc (putp ?u ?v ?w ?d) a b) with (getc d a b)|]; unfold s1; apply getc_putc. }
  assert (Gp : forall a b, getp (routeN y os (putn y n' s2)) a b =
             (match reply_id_of m with
              | Some id => if pair_eqb (a, b) (y, x) then sdel N.eqb id (getp S y x) else getp S a b
              | None => getp S a b end) ++ (if str_eqb a y then reqids_to b os else [])).
  { intros a b. rewrite R3. f_equal. change (getp (putn y n' s2) a b) with (getp s2 a b).
    unfold s2. destruct (reply_id_of m); [rewrite getp_putp|]; unfold s1; reflexivity. }
  pose proof (step_name _ _ _ _ H) as Hnm. pose proof (WF _ _ Hn) as Hyn.
  split.
  { intros z k Hk. rewrite Gn in Hk. destruct (str_eqb z y) eqn:E; [|eapply WF; eauto]. apply str_eqb_spec in E. inversion Hk; subst. congruence. }
  destruct (str_eq_dec y h) as [->|Hyh].
  - (* the hub receives from x *)
    assert (n = Y) by congruence. subst n.
    exists n'. split; [rewrite Gn, str_eqb_refl; reflexivity|]. split; [eapply step_TInv; eauto|]. split; [eapply step_DK; eauto|].
    intros x' X Hx' HX. rewrite Gn, (str_eqb_neq _ _ Hx') in HX. destruct (HS x' X Hx' HX) as [N D].
    split; [exact N|]. pose proof (WF _ _ HX) as Hxn.
    destruct (str_eq_dec x' x) as [->|Hne].
    + rewrite !Gc, Gp, pair_eqb_refl, (pair_eqb_false_l h x x h (fun E => Hxy (eq_sym E))), str_eqb_refl, (str_eqb_neq _ _ Hxy), !app_nil_r.
      assert (Hp : (match reply_id_of m with Some id => if pair_eqb (x, h) (h, x) then sdel N.eqb id (getp S h x) else getp S x h | None => getp S x h end) = getp S x h).
      { destruct (reply_id_of m); [rewrite (pair_eqb_false_l x h h x Hxy)|]; reflexivity. }
      rewrite Hp. rewrite Hc in D.
      assert (Hyn' : n_name Y = h) by exact Hyn. rewrite <- Hyn' in N. rewrite <- Hxn in Hup, H.
      pose proof (hub_recv_own X Y m rest _ _ n' os D N Hup H) as G. rewrite Hxn in G. exact G.
    + rewrite !Gc, Gp, (pair_eqb_false_l x' h x h Hne), (pair_eqb_false_l h x' x h (fun E => Hxy (eq_sym E))), str_eqb_refl, (str_eqb_neq _ _ Hx'), !app_nil_r.
      assert (Hp : (match reply_id_of m with Some id => if pair_eqb (x', h) (h, x) then sdel N.eqb id (getp S h x) else getp S x' h | None => getp S x' h end) = getp S x' h).
      { destruct (reply_id_of m); [rewrite (pair_eqb_false_l x' h h x Hx')|]; reflexivity. }
      rewrite Hp.
      destruct (hub_recv_other Y x m n' os x' H Hne) as (Q1 & Q2 & Q3 & Q4).
      apply (dir_frame_Yx X Y n' _ _ _ _ D Q3);
        [unfold can_send; rewrite Q2; reflexivity | intros p s; rewrite Hxn; apply Q1 | intros m0 Hm0; apply Q4; first [exact Hm0 | rewrite <- Hxn; exact Hm0 | rewrite Hxn; exact Hm0]].
  - (* a spoke receives from the hub *)
    assert (x = h) by (destruct Hstar; [assumption | contradiction]). subst x.
    exists Y. split; [rewrite Gn, (str_eqb_sym_false _ _ Hyh); exact HY|]. split; [exact HTY|]. split; [exact HDK|].
    intros x' X Hx' HX. rewrite Gn in HX. destruct (str_eqb x' y) eqn:E.
    + apply str_eqb_spec in E. subst x'. inversion HX; subst X. destruct (HS y n Hyh Hn) as [N D].
      assert (Hhn : n_name Y = h) by (eapply WF; eauto).
      rewrite <- Hhn in N, Hup, H. rewrite Hc in D.
      destruct (spoke_recv n Y _ m rest _ n' os D N Hup H) as (G1 & G2 & G3).
      rewrite Hhn in G1. split; [exact G1|].
      assert (Hall : forall z k, In (OSend z k) os -> z = h).
      { intros z k Hin. pose proof (step_dest _ _ _ _ _ _ H Hin) as Hcs. destruct N as (_ & N2 & _). rewrite <- Hhn. apply N2. exact Hcs. }
      destruct (msgs_to_all h os Hall) as (M1 & M2 & _).
      rewrite !Gc, Gp, (pair_eqb_false_l y h h y Hyh), pair_eqb_refl, str_eqb_refl, (str_eqb_sym_false _ _ Hyh), M1, M2, app_nil_r.
      assert (Hp : (match reply_id_of m with Some id => if pair_eqb (y, h) (y, h) then sdel N.eqb id (getp S y h) else getp S y h | None => getp S y h end)
                   = (match reply_id_of m with Some id => sdel N.eqb id (getp S y h) | None => getp S y h end)).
      { destruct (reply_id_of m); [rewrite pair_eqb_refl|]; reflexivity. }
      rewrite Hp. exact G3.
    + assert (Hne : x' <> y) by (intros ->; rewrite str_eqb_refl in E; discriminate).
      destruct (HS x' X Hx' HX) as [N D]. split; [exact N|].
      rewrite !Gc, Gp, E, (str_eqb_sym_false _ _ Hyh), (pair_eqb_false_l x' h h y Hx'), (pair_eqb_false_r h x' h y Hne), !app_nil_r.
      assert (Hp : (match reply_id_of m with Some id => if pair_eqb (x', h) (y, h) then sdel N.eqb id (getp S y h) else getp S x' h | None => getp S x' h end) = getp S x' h).
      { destruct (reply_id_of m); [rewrite (pair_eqb_false_l x' h y h Hne)|]; reflexivity. }
      rewrite Hp. exact D.
Qed.

Lemma connect_core h S S' z Z Y :
  StarInv h S -> z <> h -> getn S z = Some Z -> getn S h = Some Y -> can_send Z h = false -> can_send Y z = false ->
  let Y' := w_peers (sadd str_eqb z (n_peers Y)) Y in
  let Z' := w_peers (sadd str_eqb h (n_peers Z)) Z in
  (forall a, getn S' a = if str_eqb a h then Some Y' else if str_eqb a z then Some Z' else getn S a) ->
  (forall a b, getc S' a b = if pair_eqb (a, b) (z, h) || pair_eqb (a, b) (h, z) then [] else getc S a b) ->
  (forall a b, getp S' a b = getp S a b) -> StarInv h S'.
Proof.
  intros (WF & Y0 & HY & HTY & HDK & HS) Hzh HZ HY' Hcz Hcy Y' Z' Gn Gc Gp.
  assert (Y0 = Y) by congruence. subst Y0.
  pose proof (WF _ _ HZ) as Hzn. pose proof (WF _ _ HY) as Hyn.
  split.
  { intros a k Hk. rewrite Gn in Hk. destruct (str_eqb a h) eqn:E1; [apply str_eqb_spec in E1; subst a; injection Hk as <-; exact Hyn|].
    destruct (str_eqb a z) eqn:E2; [apply str_eqb_spec in E2; subst a; injection Hk as <-; exact Hzn | eapply WF; eauto]. }
  exists Y'. split; [rewrite Gn, str_eqb_refl; reflexivity|].
  split; [apply (TInv_frame Y); [reflexivity | exact HTY]|]. split; [exact HDK|].
  intros x' X Hx' HX. rewrite Gn, (str_eqb_neq _ _ Hx') in HX. rewrite !Gc, Gp.
  destruct (str_eqb x' z) eqn:E.
  - apply str_eqb_spec in E. subst x'. inversion HX; subst X. destruct (HS z Z Hzh HZ) as [N D].
    rewrite pair_eqb_refl. simpl. rewrite (pair_eqb_false_l h z z h (fun E => Hzh (eq_sym E))), pair_eqb_refl. simpl.
    split.
    + destruct N as (H1 & H2 & H3 & H4 & H5). unfold NodeOK. split; [exact H1|]. split; [|auto].
      intros c Hc. unfold Z' in Hc. rewrite can_send_sadd in Hc. apply orb_true_iff in Hc as [Hc|Hc]; [apply str_eqb_spec; exact Hc | apply H2; exact Hc].
    + rewrite <- Hyn in N. rewrite <- Hyn in Hcz. rewrite <- Hzn in Hcy.
      apply (dir_connect Z Y _ _ _ Z' Y' D N Hcz Hcy); reflexivity.
  - assert (Hne : x' <> z) by (intros ->; rewrite str_eqb_refl in E; discriminate).
    destruct (HS x' X Hx' HX) as [N D]. split; [exact N|].
    rewrite (pair_eqb_false_l x' h z h Hne), (pair_eqb_false_l x' h h z Hx'), (pair_eqb_false_l h x' z h (fun E => Hzh (eq_sym E))), (pair_eqb_false_r h x' h z Hne). simpl.
    replace (getc S h x') with (getc S h x' ++ []) by apply app_nil_r.
    apply (dir_frame_Yx X Y Y' _ _ _ [] D); [reflexivity | | intros; reflexivity | intros m0 []].
    unfold Y'. rewrite can_send_sadd. rewrite (WF _ _ HX). rewrite (str_eqb_neq _ _ Hne). reflexivity.
Qed.

Lemma stepN_connect h S x y nx ny :
  StarInv h S -> (x = h \/ y = h) -> x <> y -> getn S x = Some nx -> getn S y = Some ny ->
  can_send nx y = false -> can_send ny x = false ->
  StarInv h (putc x y [] (putc y x [] (putn y (w_peers (sadd str_eqb x (n_peers ny)) ny)
                                          (putn x (w_peers (sadd str_eqb y (n_peers nx)) nx) S)))).
Proof.
  intros HS Hstar Hxy Hx Hy Hcx Hcy.
  set (S' := putc x y [] (putc y x [] (putn y (w_peers (sadd str_eqb x (n_peers ny)) ny) (putn x (w_peers (sadd str_eqb y (n_peers nx)) nx) S)))).
  assert (Gn : forall a, getn S' a = if str_eqb a y then Some (w_peers (sadd str_eqb x (n_peers ny)) ny)
                                    else if str_eqb a x then Some (w_peers (sadd str_eqb y (n_peers nx)) nx) else getn S a).
  { intro a. unfold S'. change (getn (putc ?u ?v ?w ?d) a) with (getn d a). change (getn (putc ?u ?v ?w ?d) a) with (getn d a).
    rewrite getn_putn. destruct (str_eqb a y); [reflexivity | apply getn_putn]. }
  assert (Gc : forall a b, getc S' a b = if pair_eqb (a, b) (x, y) then [] else if pair_eqb (a, b) (y, x) then [] else getc S a b).
  { intros a b. unfold S'. rewrite getc_putc. destruct (pair_eqb (a, b) (x, y)); [reflexivity|]. rewrite getc_putc. reflexivity. }
  assert (Gp : forall a b, getp S' a b = getp S a b) by reflexivity.
  destruct Hstar as [->| ->].
  - (* x is the hub, y the spoke *)
    apply (connect_core h S S' y ny nx HS (fun E => Hxy (eq_sym E)) Hy Hx Hcy Hcx); [| |exact Gp].
    + intro a. rewrite Gn. destruct (str_eqb a y) eqn:E1, (str_eqb a h) eqn:E2; try reflexivity.
      apply str_eqb_spec in E1, E2. subst. contradiction.
    + intros a b. rewrite Gc. rewrite orb_comm. destruct (pair_eqb (a, b) (h, y)), (pair_eqb (a, b) (y, h)); reflexivity.
  - apply (connect_core h S S' x nx ny HS Hxy Hx Hy Hcx Hcy); [| |exact Gp].
    + intro a. rewrite Gn. reflexivity.
    + intros a b. rewrite Gc. destruct (pair_eqb (a, b) (x, h)), (pair_eqb (a, b) (h, x)); reflexivity.
Qed.

(* a spoke closes its end *)
Lemma stepN_close_spoke h S x X :
  StarInv h S -> x <> h -> getn S x = Some X -> can_send X h = true ->
  let n1 := peer_removed (w_peers (sdel str_eqb h (n_peers X)) X) h in
  let r := err_replies n1 (getp S x h) in
  StarInv h (routeN x (snd r) (putp x h [] (putn x (fst r) S))).
Proof.
  intros (WF & Y & HY & HTY & HDK & HS) Hxh HX Hup n1 r.
  destruct (HS x X Hxh HX) as [N D]. pose proof N as (HTX & HX2 & HX3 & HX4 & HX5).
  pose proof (WF _ _ HX) as Hxn. pose proof (WF _ _ HY) as Hyn.
  destruct (peer_removed_spec X h HX2) as (P1 & P2 & P3 & P4 & P5 & P6 & P7 & P8 & P9). fold n1 in P1, P2, P3, P4, P5, P6, P7, P8, P9.
  assert (HT1 : TInv n1).
  { assert (Hst : node_step X (IPeerRemoved h) = Some (n1, [])) by reflexivity. eapply step_TInv; eauto. }
  pose proof (err_replies_down (getp S x h) n1 HT1 P1) as Hd. cbv zeta in Hd. fold r in Hd.
  destruct Hd as (E1 & E2 & E3 & E4 & E5 & E6). rewrite E1. simpl routeN.
  assert (Hn2 : n_name (fst r) = n_name X) by (destruct E2 as (_ & _ & E2 & _); congruence).
  assert (Hc2 : forall c, can_send (fst r) c = false) by (intro c; rewrite (can_send_same n1 (fst r) c E2); apply P1).
  assert (Hpid : forall id, nlk id (n_pid (fst r)) = None).
  { intro id. destruct (nlk id (n_pid n1)) as [key|] eqn:Ek; [|apply E6; exact Ek].
    apply E5. destruct D as (_ & _ & D3 & _). rewrite P3 in Ek. eapply D3; eauto. }
  set (S' := putp x h [] (putn x (fst r) S)).
  assert (Gn : forall a, getn S' a = if str_eqb a x then Some (fst r) else getn S a) by (intro a; unfold S'; change (getn (putp ?u ?v ?w ?d) a) with (getn d a); apply getn_putn).
  assert (Gp : forall a b, getp S' a b = if pair_eqb (a, b) (x, h) then [] else getp S a b) by (intros; unfold S'; rewrite getp_putp; reflexivity).
  split.
  { intros a k Hk. rewrite Gn in Hk. destruct (str_eqb a x) eqn:E; [apply str_eqb_spec in E; subst a; injection Hk as <-; congruence | eapply WF; eauto]. }
  exists Y. split; [rewrite Gn, (str_eqb_sym_false _ _ Hxh); exact HY|]. split; [exact HTY|]. split; [exact HDK|].
  intros x' X' Hx' HX'. rewrite Gn in HX'. change (getc S' ?a ?b) with (getc S a b). rewrite Gp.
  destruct (str_eqb x' x) eqn:E.
  - apply str_eqb_spec in E. subst x'. injection HX' as <-. rewrite pair_eqb_refl. split.
    + unfold NodeOK. rewrite Hn2. split; [exact E3|]. split; [intros c Hc; rewrite Hc2 in Hc; discriminate|]. split; [exact HX3|]. split; [exact HX4|].
      intros key q Hk. rewrite (pname_empty_of_pid (fst r) E3 Hpid key) in Hk. discriminate.
    + apply (dir_close_X X (fst r) Y _ _ (getp S x h)); auto.
      intros p s. unfold Lk. rewrite E4. rewrite Hyn. apply P7.
  - assert (Hne : x' <> x) by (intros ->; rewrite str_eqb_refl in E; discriminate).
    rewrite (pair_eqb_false_l x' h x h Hne). apply HS; assumption.
Qed.

(* the hub closes its end towards spoke z *)
Lemma stepN_close_hub h S z Y :
  StarInv h S -> z <> h -> getn S h = Some Y ->
  let n1 := peer_removed (w_peers (sdel str_eqb z (n_peers Y)) Y) z in
  let r := err_replies n1 (getp S h z) in
  StarInv h (routeN h (snd r) (putp h z [] (putn h (fst r) S))).
Proof.
  intros (WF & Y0 & HY & HTY & HDK & HS) Hzh HY' n1 r. assert (Y0 = Y) by congruence. subst Y0.
  pose proof (WF _ _ HY) as Hyn.
  destruct (peer_removed_gen Y z (proj1 (proj2 HDK))) as (P1 & P2 & P3 & P4 & P5). fold n1 in P1, P2, P3, P4, P5.
  assert (Hst : node_step Y (IPeerRemoved z) = Some (n1, [])) by reflexivity.
  pose proof (step_TInv _ _ _ _ Hst HTY) as HT1. pose proof (step_DK _ _ _ _ Hst HDK) as HD1.
  pose proof (err_replies_TInv (getp S h z) n1 HT1) as HT2. pose proof (err_replies_DK (getp S h z) n1 HD1) as HD2.
  destruct (err_replies_side_gen (getp S h z) n1) as (G1 & G2 & G3 & G4). fold r in HT2, HD2, G1, G2, G3, G4.
  destruct (routeN_spec h (snd r) (putp h z [] (putn h (fst r) S))) as (R1 & R2 & R3).
  assert (Gn : forall a, getn (routeN h (snd r) (putp h z [] (putn h (fst r) S))) a = if str_eqb a h then Some (fst r) else getn S a).
  { intro a. rewrite R1. change (getn (putp ?u ?v ?w ?d) a) with (getn d a). apply getn_putn. }
  assert (Gc : forall a b, getc (routeN h (snd r) (putp h z [] (putn h (fst r) S))) a b = getc S a b ++ (if str_eqb a h then msgs_to b (snd r) else [])).
  { intros a b. rewrite R2. reflexivity. }
  assert (Gp : forall a b, getp (routeN h (snd r) (putp h z [] (putn h (fst r) S))) a b =
             (if pair_eqb (a, b) (h, z) then [] else getp S a b) ++ (if str_eqb a h then reqids_to b (snd r) else [])).
  { intros a b. rewrite R3. f_equal. rewrite getp_putp. reflexivity. }
  split.
  { intros a k Hk. rewrite Gn in Hk. destruct (str_eqb a h) eqn:E; [apply str_eqb_spec in E; subst a; injection Hk as <-; congruence | eapply WF; eauto]. }
  exists (fst r). split; [rewrite Gn, str_eqb_refl; reflexivity|]. split; [exact HT2|]. split; [exact HD2|].
  intros x' X Hx' HX. rewrite Gn, (str_eqb_neq _ _ Hx') in HX. destruct (HS x' X Hx' HX) as [N D]. split; [exact N|].
  pose proof (WF _ _ HX) as Hxn.
  rewrite !Gc, Gp, str_eqb_refl, (str_eqb_neq _ _ Hx'), (pair_eqb_false_l x' h h z Hx'), !app_nil_r.
  assert (Happ : forall m0, In m0 (msgs_to x' (snd r)) -> is_anyreply m0 = false /\ is_anyremoved m0 = false).
  { intros m0 Hm0. apply msgs_to_sub, G4 in Hm0. destruct m0; try discriminate. auto. }
  assert (Hname : n_name (fst r) = n_name Y) by congruence.
  destruct (str_eq_dec x' z) as [->|Hne].
  - assert (D2 : Dir X (fst r) (getc S z h) (getc S h z) (getp S z h)).
    { apply (dir_close_Yx X Y (fst r) _ _ _ Hname); [unfold can_send in *; rewrite G2, ?Hxn; exact P1 | intros p s; unfold Rk in *; rewrite G1, ?Hxn; apply P4 | exact D]. }
    apply (dir_frame_Yx X (fst r) (fst r) _ _ _ _ D2 eq_refl eq_refl); [intros; reflexivity | rewrite ?Hxn; exact Happ].
  - apply (dir_frame_Yx X Y (fst r) _ _ _ _ D Hname).
    + rewrite ?Hxn. unfold can_send at 1. rewrite G2. apply P2. exact Hne.
    + intros p s. rewrite ?Hxn. unfold Rk at 1. rewrite G1. apply P5. exact Hne.
    + rewrite ?Hxn. exact Happ.
Qed.

Local Opaque node_step err_replies.

Lemma stepN_StarInv h S l S' os :
  stepN S l = Some (S', os) -> star_label h l ->
  (match l with LDeliver x y | LConnect x y | LClose x y => x <> y | _ => True end) ->
  StarInv h S -> StarInv h S'.
Proof.
  intros H Hl Hd HS. destruct l as [x i|x y|x y|x y]; unfold stepN in H.
  - destruct (api_input i) eqn:Hapi; [|discriminate]. destruct (getn S x) as [n|] eqn:Hn; [|discriminate].
    destruct (node_step n i) as [[n' os']|] eqn:E; [|discriminate]. inversion H; subst. eapply stepN_node; eauto.
  - destruct (getc S x y) as [|m rest] eqn:Hc; [discriminate|]. destruct (getn S y) as [n|] eqn:Hn; [|discriminate].
    destruct (can_send n x) eqn:Hup; [|discriminate]. cbv zeta in H.
    destruct (node_step n (IRecv x m)) as [[n' os']|] eqn:E; [|discriminate]. inversion H; subst.
    exact (stepN_deliver h S x y m rest n n' os HS Hl Hd Hc Hn Hup E).
  - destruct (getn S x) as [nx|] eqn:Hx; [|discriminate]. destruct (getn S y) as [ny|] eqn:Hy; [|discriminate].
    destruct (negb (can_send nx y) && negb (can_send ny x) && negb (str_eqb x y)) eqn:Eg; [|discriminate].
    apply andb_true_iff in Eg as [Eg _]. apply andb_true_iff in Eg as [E1 E2]. apply negb_true_iff in E1, E2.
    Local Transparent node_step. simpl in H. Local Opaque node_step. inversion H; subst.
    apply stepN_connect; assumption.
  - destruct (getn S x) as [n|] eqn:Hn; [|discriminate]. destruct (can_send n y) eqn:Hup; [|discriminate].
    Local Transparent node_step. simpl in H. Local Opaque node_step.
    destruct Hl as [->| ->].
    + pose proof (stepN_close_hub h S y n HS (fun E => Hd (eq_sym E)) Hn) as G. cbv zeta in G.
      destruct (err_replies _ (getp S h y)) as [n2 os2]. inversion H; subst. exact G.
    + pose proof (stepN_close_spoke h S x n HS Hd Hn Hup) as G. cbv zeta in G.
      destruct (err_replies _ (getp S x h)) as [n2 os2]. inversion H; subst. exact G.
Qed.

Definition labelN_ok (h : name) (l : labelN) : Prop :=
  star_label h l /\ match l with LDeliver x y | LConnect x y | LClose x y => x <> y | _ => True end.

Fixpoint runN0 (S : sysN) (ls : list labelN) : option sysN :=
  match ls with
  | [] => Some S
  | l :: r => match stepN S l with Some (S', _) => runN0 S' r | None => None end
  end.

Lemma runN_StarInv h ls : forall S S', runN0 S ls = Some S' -> Forall (labelN_ok h) ls -> StarInv h S -> StarInv h S'.
Proof.
  induction ls as [|l r IH]; simpl; intros S S' H Hf HS.
  - inversion H; subst. exact HS.
  - destruct (stepN S l) as [[S1 os]|] eqn:E; [|discriminate]. inversion Hf as [|? ? [H1 H2] Hf']; subst.
    eapply IH; eauto. eapply stepN_StarInv; eauto.
Qed.

(* initial state: the hub and any list of spokes, all names distinct and without '.' *)
Lemma getn_initN l x n : getn (initN l) x = Some n -> exists objs, In (x, objs) l /\ n = init_node x objs.
Proof.
  unfold getn, initN. simpl. induction l as [|[x0 o0] l IH]; simpl; [discriminate|].
  destruct (str_eqb x x0) eqn:E.
  - apply str_eqb_spec in E. subst. intro H. inversion H. exists o0. auto.
  - intro H. destruct (IH H) as (objs & Hin & ->). exists objs. auto.
Qed.

Lemma initN_StarInv h l :
  (exists oh, getn (initN l) h = Some (init_node h oh)) -> (forall x objs, In (x, objs) l -> nodot x = true) ->
  StarInv h (initN l).
Proof.
  intros [oh Hh] Hnd. split.
  { intros x n Hn. destruct (getn_initN _ _ _ Hn) as (objs & _ & ->). reflexivity. }
  assert (Hdh : nodot h = true).
  { destruct (getn_initN _ _ _ Hh) as (objs & Hin & _). eapply Hnd; eauto. }
  exists (init_node h oh). split; [exact Hh|]. split; [apply init_TInv; exact Hdh|]. split; [apply init_DK|].
  intros x X Hx HX. destruct (getn_initN _ _ _ HX) as (objs & Hin & ->).
  split.
  - unfold NodeOK. split; [apply init_TInv; eapply Hnd; eauto|]. split; [intros c Hc; discriminate|].
    split; [exact Hdh|]. split; [simpl; congruence|]. intros key q Hk. discriminate.
  - unfold Dir. simpl. unfold getc, getp. simpl.
    split; [intros _; split; [reflexivity|]; split; reflexivity|]. split; [intros _ p s; reflexivity|].
    split; [intros id key H; discriminate|]. split; [intros _ id ok []|]. split; [intros id p s f []|]. split; [intros p s []|].
    intros p s Hp. unfold KeyInv. simpl. discriminate.
Qed.

(* THE star theorem: a publisher context h with any number of subscriber contexts.  In every state of the
   N-context system reachable by star-shaped histories, for every spoke x: when nothing is in flight between
   x and h, x has no request outstanding and both ends agree on the link, h lists x as remote subscriber of
   h.p.sg exactly when x has local receivers for it. *)
Lemma star_quiescent h l ls S x X Y p sg :
  (exists oh, getn (initN l) h = Some (init_node h oh)) -> (forall z objs, In (z, objs) l -> nodot z = true) ->
  runN0 (initN l) ls = Some S -> Forall (labelN_ok h) ls ->
  x <> h -> getn S x = Some X -> getn S h = Some Y ->
  getc S x h = [] -> getc S h x = [] -> n_pid X = [] -> can_send X h = can_send Y x ->
  nodot p = true ->
  (Rk Y x p sg = true <-> Lk X h p sg <> None).
Proof.
  intros Hh Hnd Hr Hf Hxh HX HY C1 C2 Hpid Hup Hp.
  pose proof (runN_StarInv h ls _ _ Hr Hf (initN_StarInv h l Hh Hnd)) as (WF & Y0 & HY0 & _ & _ & HS).
  assert (Y0 = Y) by congruence. subst Y0. destruct (HS x X Hxh HX) as [N D].
  pose proof (WF _ _ HX) as Hxn. pose proof (WF _ _ HY) as Hyn.
  destruct D as (D1 & D2 & D3 & D5 & D6 & D7 & DI). rewrite Hxn, Hyn in *. rewrite C1, C2 in *.
  destruct (can_send X h) eqn:Hu.
  - pose proof (DI p sg Hp) as K. unfold KeyInv in K. rewrite Hxn, Hyn in K. specialize (K Hu).
    assert (HP : Pk X h p sg = None).
    { unfold Pk. apply pname_empty_of_pid; [apply N|]. intro id. rewrite Hpid. reflexivity. }
    rewrite HP in K. destruct K as [_ K]. specialize (K (eq_sym Hup)). simpl in K. exact K.
  - destruct (D1 eq_refl) as (_ & A2 & _). rewrite A2. rewrite (D2 (eq_sym Hup)). split; [discriminate | intro H; exfalso; apply H; reflexivity].
Qed.

(* ================================================================ notices of a removed publisher *)
Local Transparent node_step err_replies.

Lemma send_to_u_nil n x m : send_to_u [] n x m = send_to n x m.
Proof. unfold send_to_u, send_to. simpl. rewrite andb_true_r. reflexivity. Qed.

Lemma object_removed_u_nil n o : object_removed_u [] n o = object_removed n o.
Proof.
  unfold object_removed_u, object_removed. f_equal.
  apply flat_map_ext. intro e. apply flat_map_ext. intro x. apply send_to_u_nil.
Qed.

(* messages for destination x in a nested notice list *)
Lemma msgs_to_flat {A} x (f : A -> list out) l : msgs_to x (flat_map f l) = flat_map (fun a => msgs_to x (f a)) l.
Proof. unfold msgs_to. induction l as [|a l IH]; simpl; [reflexivity|]. rewrite flat_map_app. rewrite IH. reflexivity. Qed.

Lemma flat_map_all_nil {A B} (f : A -> list B) l : (forall a, f a = []) -> flat_map f l = [].
Proof. intro H. induction l as [|a l IH]; simpl; [reflexivity|]. rewrite H, IH. reflexivity. Qed.

(* A failed send to one peer does not affect anything else: the tables end up the same whatever peers are
   unreachable, nothing is sent to an unreachable peer, and every other peer gets exactly the notices it gets
   when everybody is reachable (same notices, same order). *)
Lemma notice_failure_isolated u n o :
  fst (object_removed_u u n o) = fst (object_removed n o) /\
  (forall x, smem str_eqb x u = true -> msgs_to x (snd (object_removed_u u n o)) = []) /\
  (forall x, smem str_eqb x u = false -> msgs_to x (snd (object_removed_u u n o)) = msgs_to x (snd (object_removed n o))).
Proof.
  split; [reflexivity|].
  assert (Hone : forall (n2 : node) x y m,
            msgs_to x (send_to_u u n2 y m) = if smem str_eqb x u then [] else msgs_to x (send_to n2 y m)).
  { intros n2 x y m. unfold send_to_u, send_to, msgs_to. destruct (can_send n2 y); simpl.
    - destruct (smem str_eqb y u) eqn:Ey; simpl.
      + destruct (smem str_eqb x u) eqn:Ex; [reflexivity|]. destruct (str_eqb x y) eqn:E; [|reflexivity].
        apply str_eqb_spec in E. subst. congruence.
      + destruct (str_eqb x y) eqn:E; [|destruct (smem str_eqb x u); reflexivity].
        apply str_eqb_spec in E. subst. rewrite Ey. reflexivity.
    - destruct (smem str_eqb x u); reflexivity. }
  assert (Hall : forall x, msgs_to x (snd (object_removed_u u n o)) =
                           if smem str_eqb x u then [] else msgs_to x (snd (object_removed n o))).
  { intro x. unfold object_removed_u, object_removed. cbv zeta. simpl snd. rewrite !msgs_to_flat.
    destruct (smem str_eqb x u) eqn:Ex.
    - apply flat_map_all_nil. intro e. rewrite msgs_to_flat. apply flat_map_all_nil. intro y. rewrite Hone, Ex. reflexivity.
    - apply flat_map_ext. intro e. rewrite !msgs_to_flat. apply flat_map_ext. intro y. rewrite Hone, Ex. reflexivity. }
  split; intros x Hx; rewrite Hall, Hx; reflexivity.
Qed.

(* ... and a reachable remote subscriber of a signal of the removed object does get its notice *)
Lemma notice_sent_when_reachable u n o x s :
  nodot o = true -> Rk n x o s = true -> can_send n x = true -> smem str_eqb x u = false ->
  In (MRemoved o s) (msgs_to x (snd (object_removed_u u (w_objs (sdel str_eqb o (n_objs n)) n) o))).
Proof.
  intros Ho HR Hc Hu.
  destruct (notice_failure_isolated u (w_objs (sdel str_eqb o (n_objs n)) n) o) as (_ & _ & H3). rewrite (H3 x Hu).
  apply in_msgs_to. apply object_removed_sends; assumption.
Qed.
