(* C08 — a blocked subscribe call stays accounted for until its wait() returns. *)
From Coq Require Import List NArith ZArith Bool Arith Lia.
Require Import QV.C07.Model QV.C07.ProofsLib QV.C07.Proofs QV.C08.Proofs QV.C08.Effects QV.C08.Proofs2.
Import ListNotations.
Open Scope N_scope.

(* the call is blocked on a registered pending object, or its outcome is ready *)
Definition waiting (n : node) (call : N) : Prop :=
  (exists key q, slk key (n_pname n) = Some q /\ In call (pq_wait q)) \/ (exists ok, In (call, ok) (n_done n)).

(* an object nobody subscribed through has nobody waiting on it *)
Definition WV (n : node) : Prop := forall key q, slk key (n_pname n) = Some q -> pq_recv q = [] -> pq_wait q = [].

(* nobody who waits is forgotten *)
Definition WP (n n' : node) : Prop := WV n' /\ forall call, waiting n call -> waiting n' call.

Lemma WP_trans a b c : WP a b -> WP b c -> WP a c.
Proof. intros [A1 A2] [B1 B2]. split; [exact B1 | intros call H; apply B2, A2, H]. Qed.

Lemma WP_frame n n' : WV n -> n_pname n' = n_pname n -> n_done n' = n_done n -> WP n n'.
Proof. intros HW E1 E2. unfold WP, waiting, WV. rewrite E1, E2. auto. Qed.

Lemma complete_WP n id ok : WV n -> WP n (fst (complete n id ok)).
Proof.
  intros HW. unfold complete.
  destruct (nlk id (n_pid n)) as [key|] eqn:Eid; [|simpl; apply WP_frame; auto].
  cbn [n_pname w_pid]. destruct (slk key (n_pname n)) as [q|] eqn:Eq.
  2: { simpl. apply WP_frame; auto. }
  destruct (pq_sub q) eqn:Esub; simpl.
  - assert (Hdone : forall n0, n_pname n0 = aremove str_eqb key (n_pname n) ->
              n_done n0 = n_done n ++ map (fun c => (c, ok)) (pq_wait q) -> WP n n0).
    { intros n0 E1 E2. split.
      - intros k q' Hk. rewrite E1 in Hk. destruct (str_eq_dec k key) as [->|Hne]; [rewrite slk_aremove_same in Hk; discriminate|].
        rewrite slk_aremove_other in Hk by exact Hne. eapply HW; eauto.
      - intros call [(key' & q' & Hk & Hin)|(ok' & Hin)].
        + destruct (str_eq_dec key' key) as [->|Hne].
          * rewrite Eq in Hk. inversion Hk; subst. right. exists ok. rewrite E2. apply in_app_iff. right.
            apply in_map_iff. exists call. auto.
          * left. exists key', q'. rewrite E1. rewrite slk_aremove_other by exact Hne. auto.
        + right. exists ok'. rewrite E2. apply in_app_iff. left. exact Hin. }
    destruct ok; simpl.
    + destruct (slk key (n_lsubs n)) as [[|x l]|]; apply Hdone; reflexivity.
    + apply Hdone; reflexivity.
  - destruct (is_nil (pq_recv q)) eqn:En; simpl.
    + apply is_nil_true in En. pose proof (HW _ _ Eq En) as Hw. split.
      * intros k q' Hk. simpl in Hk. destruct (str_eq_dec k key) as [->|Hne]; [rewrite slk_aremove_same in Hk; discriminate|].
        rewrite slk_aremove_other in Hk by exact Hne. eapply HW; eauto.
      * intros call [(key' & q' & Hk & Hin)|Hd]; [|right; exact Hd].
        destruct (str_eq_dec key' key) as [->|Hne]; [rewrite Eq in Hk; inversion Hk; subst; rewrite Hw in Hin; destruct Hin|].
        left. exists key', q'. simpl. rewrite slk_aremove_other by exact Hne. auto.
    + split.
      * intros k q' Hk. simpl in Hk. destruct (str_eq_dec k key) as [->|Hne].
        -- rewrite slk_aset_same in Hk. inversion Hk; subst. simpl. intro Hr. apply is_nil_false in En. contradiction.
        -- rewrite slk_aset_other in Hk by exact Hne. rewrite slk_aremove_other in Hk by exact Hne. eapply HW; eauto.
      * intros call [(key' & q' & Hk & Hin)|Hd]; [|right; exact Hd]. left.
        destruct (str_eq_dec key' key) as [->|Hne].
        -- rewrite Eq in Hk. inversion Hk; subst. eexists key, _. simpl. split; [apply slk_aset_same | exact Hin].
        -- exists key', q'. simpl. split; [rewrite slk_aset_other by exact Hne; rewrite slk_aremove_other by exact Hne; exact Hk | exact Hin].
Qed.

Lemma send_req_WP n id q : WV n -> WP n (fst (send_req n id q)).
Proof.
  intros HW. unfold send_req. destruct (can_send n (pq_ctx q)); [apply WP_frame; auto|].
  pose proof (complete_WP n id false HW) as H1. destruct (complete n id false) as [n1 [[id2 q2]|]]; simpl in *; [|exact H1].
  eapply WP_trans; [exact H1 | apply complete_WP; apply H1].
Qed.

Lemma handle_reply_WP n id ok : WV n -> WP n (fst (handle_reply n id ok)).
Proof.
  intros HW. unfold handle_reply.
  pose proof (complete_WP n id ok HW) as H1. destruct (complete n id ok) as [n1 [[id2 q2]|]]; simpl in *; [|exact H1].
  eapply WP_trans; [exact H1 | apply send_req_WP; apply H1].
Qed.

Lemma err_replies_WP ids : forall n, WV n -> WP n (fst (err_replies n ids)).
Proof.
  induction ids as [|id ids IH]; intros n HW; simpl; [apply WP_frame; auto|].
  pose proof (handle_reply_WP n id false HW) as H1. destruct (handle_reply n id false) as [n1 o1]. simpl in *.
  specialize (IH n1 (proj1 H1)). destruct (err_replies n1 ids) as [n2 o2]. simpl in *. eapply WP_trans; eauto.
Qed.

Lemma new_request_WP n c p s sub recv wait0 :
  slk (key3 c p s) (n_pname n) = None -> (recv = [] -> wait0 = []) -> WV n ->
  let n1 := fst (fst (new_request n c p s sub recv wait0)) in
  WP n n1 /\ forall call, In call wait0 -> waiting n1 call.
Proof.
  intros Hnone Hr HW. unfold new_request. simpl. split; [split|].
  - intros k q' Hk. simpl in Hk. destruct (str_eq_dec k (key3 c p s)) as [->|Hne].
    + rewrite slk_aset_same in Hk. inversion Hk; subst. exact Hr.
    + rewrite slk_aset_other in Hk by exact Hne. eapply HW; eauto.
  - intros call [(key' & q' & Hk & Hin)|(ok' & Hin)].
    + left. exists key', q'. split; [|exact Hin]. simpl. rewrite slk_aset_other; [exact Hk|]. intros ->. congruence.
    + right. exists ok'. exact Hin.
  - intros call Hin. left. eexists (key3 c p s), _. split; [simpl; apply slk_aset_same | exact Hin].
Qed.

Lemma sub_remote_WP n call c p s r :
  WV n -> let res := sub_remote n call c p s r in
  WP n (fst res) /\ (In (ORes RWait) (snd res) -> waiting (fst res) call).
Proof.
  intros HW res. subst res. unfold sub_remote.
  destruct (alookup str_eqb (key3 c p s) (n_lsubs n)) as [[|x l]|] eqn:El.
  2: { simpl. split; [apply WP_frame; auto | intros [E|[]]; discriminate]. }
  all: destruct (alookup str_eqb (key3 c p s) (n_pname n)) as [q|] eqn:Eq.
  1, 3: (simpl; split; [split|]; [
      intros k q' Hk; simpl in Hk; destruct (str_eq_dec k (key3 c p s)) as [->|Hne];
        [rewrite slk_aset_same in Hk; inversion Hk; subst; simpl; intro Hr; exfalso; eapply sadd_N_nonnil; eauto
        | rewrite slk_aset_other in Hk by exact Hne; eapply HW; eauto]
    | intros cl [(key' & q' & Hk & Hin)|Hd]; [|right; exact Hd]; left;
        destruct (str_eq_dec key' (key3 c p s)) as [->|Hne];
        [rewrite Eq in Hk; inversion Hk; subst; eexists (key3 c p s), _; split; [simpl; apply slk_aset_same | simpl; apply in_app_iff; left; exact Hin]
        | exists key', q'; split; [simpl; rewrite slk_aset_other by exact Hne; exact Hk | exact Hin]]
    | intros _; left; eexists (key3 c p s), _; split; [simpl; apply slk_aset_same | simpl; apply in_app_iff; right; left; reflexivity]]).
  all: destruct (new_request_WP n c p s true [r] [call] Eq (fun H => match H with eq_refl => eq_refl end) HW) as [N1 N2] ||
       (assert (Hx : [r] = [] -> [call] = []) by discriminate; destruct (new_request_WP n c p s true [r] [call] Eq Hx HW) as [N1 N2]).
  all: unfold new_request in *; cbv beta iota zeta in *; simpl in N1, N2;
    match goal with |- context [send_req ?a ?b ?c0] => pose proof (send_req_WP a b c0 (proj1 N1)) as Hs; destruct (send_req a b c0) as [n2 o2] end;
    simpl in *; (split; [eapply WP_trans; eauto | intros _; apply Hs, N2; left; reflexivity]).
Qed.

Lemma unsub_remote_WP n c p s r : WV n -> WP n (fst (unsub_remote n c p s r)).
Proof.
  intros HW. unfold unsub_remote.
  assert (Hrl : n_pname (fst (remove_local n (key3 c p s) r)) = n_pname n /\ n_done (fst (remove_local n (key3 c p s) r)) = n_done n).
  { unfold remove_local. destruct (alookup str_eqb (key3 c p s) (n_lsubs n)); [destruct (is_nil (sdel N.eqb r l))|]; auto. }
  destruct (remove_local n (key3 c p s) r) as [n1 last]. simpl in Hrl. destruct Hrl as [R1 R2].
  pose proof (WP_frame n n1 HW R1 R2) as F.
  destruct last; [|exact F].
  destruct (alookup str_eqb (key3 c p s) (n_pname n1)) eqn:Eq; [exact F|].
  destruct (new_request_WP n1 c p s false [] [] Eq (fun _ => eq_refl) (proj1 F)) as [N1 _].
  unfold new_request in *. cbv beta iota zeta in *. simpl in N1.
  match goal with |- context [send_req ?a ?b ?c0] => pose proof (send_req_WP a b c0 (proj1 N1)) as Hs; destruct (send_req a b c0) as [n2 o2] end.
  simpl in *. eapply WP_trans; [exact F | eapply WP_trans; eauto].
Qed.

Definition pd (n : node) := (n_pname n, n_done n).

Lemma send_req_no_wait n id q : ~ In (ORes RWait) (snd (send_req n id q)).
Proof.
  unfold send_req. destruct (can_send n (pq_ctx q)).
  - intros [E|[]]. discriminate.
  - destruct (complete n id false) as [x1 [[i2 q2]|]]; intro H; exact H.
Qed.

Lemma handle_reply_no_wait n id ok : ~ In (ORes RWait) (snd (handle_reply n id ok)).
Proof.
  unfold handle_reply. destruct (complete n id ok) as [n1 [[id2 q2]|]]; [apply send_req_no_wait | intro H; exact H].
Qed.

Lemma step_WP n i n' os :
  node_step n i = Some (n', os) -> WV n ->
  WV n' /\
  (forall call, waiting n call -> i <> ISubEnd call -> waiting n' call) /\
  (forall call c p s r, i = ISub call c p s r -> In (ORes RWait) os -> waiting n' call).
Proof.
  intros H HW.
  assert (Hframe : pd n' = pd n -> ~ In (ORes RWait) os ->
                   WV n' /\ (forall call, waiting n call -> i <> ISubEnd call -> waiting n' call) /\
                   (forall call c p s r, i = ISub call c p s r -> In (ORes RWait) os -> waiting n' call)).
  { intros E Hno. unfold pd in E. inversion E as [[E1 E2]]. destruct (WP_frame n n' HW E1 E2) as [F1 F2].
    split; [exact F1|]. split; [intros; apply F2; assumption | intros; contradiction]. }
  assert (HWP : WP n n' -> ~ In (ORes RWait) os ->
                WV n' /\ (forall call, waiting n call -> i <> ISubEnd call -> waiting n' call) /\
                (forall call c p s r, i = ISub call c p s r -> In (ORes RWait) os -> waiting n' call)).
  { intros [F1 F2] Hno. split; [exact F1|]. split; [intros; apply F2; assumption | intros; contradiction]. }
  destruct i; simpl in H.
  - destruct (negb (names_ok (resolve_ctx n c) p s)).
    { inversion H; subst. apply Hframe; [reflexivity | intros [E|[]]; discriminate]. }
    destruct (str_eqb (resolve_ctx n c) (n_name n)).
    { assert (E : (n', os) = sub_local n p s r) by (inversion H; reflexivity). unfold sub_local, add_local in E.
      destruct (smem str_eqb p (n_objs n)); [destruct (alookup str_eqb (key3 (n_name n) p s) (n_lsubs n))|]; inversion E; subst;
        (apply Hframe; [reflexivity | intros [E1|[]]; discriminate]). }
    assert (E : (n', os) = sub_remote n call (resolve_ctx n c) p s r) by (inversion H; reflexivity).
    destruct (sub_remote_WP n call (resolve_ctx n c) p s r HW) as [[F1 F2] F3]. rewrite <- E in F1, F2, F3. simpl in F1, F2, F3.
    split; [exact F1|]. split; [intros; apply F2; assumption|].
    intros call0 c0 p0 s0 r0 Ei Hin. inversion Ei; subst. apply F3. exact Hin.
  - destruct (alookup N.eqb call (n_done n)) as [ok|] eqn:Ed; [|discriminate]. inversion H; subst. simpl.
    split; [exact HW|]. split; [|intros; discriminate].
    intros call0 [Hp|(ok' & Hin)] Hne; [left; exact Hp|]. right. exists ok'. simpl. unfold aremove. apply filter_In. split; [exact Hin|].
    simpl. apply negb_true_iff. apply N.eqb_neq. intros ->. apply Hne. reflexivity.
  - destruct (negb (names_ok (resolve_ctx n c) p s)); [inversion H; subst; apply Hframe; [reflexivity | intros [E|[]]; discriminate]|].
    destruct (str_eqb (resolve_ctx n c) (n_name n)).
    { assert (E : n' = fst (remove_local n (key3 (resolve_ctx n c) p s) r) /\ os = [ORes RNone]) by (inversion H; auto).
      destruct E as [-> ->]. apply Hframe; [|intros [E1|[]]; discriminate]. unfold remove_local.
      destruct (alookup str_eqb (key3 (resolve_ctx n c) p s) (n_lsubs n)); [destruct (is_nil (sdel N.eqb r l))|]; reflexivity. }
    assert (E : (n', os) = unsub_remote n (resolve_ctx n c) p s r) by (inversion H; reflexivity).
    pose proof (unsub_remote_WP n (resolve_ctx n c) p s r HW) as F. rewrite <- E in F. simpl in F.
    apply HWP; [exact F|].
    (* unsubscribe never returns RWait *)
    assert (Hos : os = snd (unsub_remote n (resolve_ctx n c) p s r)) by (rewrite <- E; reflexivity).
    rewrite Hos. unfold unsub_remote. destruct (remove_local n (key3 (resolve_ctx n c) p s) r) as [n1 last].
    destruct last; [|intros [E1|[]]; discriminate].
    destruct (alookup str_eqb (key3 (resolve_ctx n c) p s) (n_pname n1)); [intros [E1|[]]; discriminate|].
    unfold new_request. cbv beta iota zeta.
    match goal with |- context [send_req ?a ?b ?c0] =>
      pose proof (send_req_no_wait a b c0) as Hs; destruct (send_req a b c0) as [n2 o2] end.
    simpl in *. intro Hin. apply in_app_iff in Hin as [Hin|[Hin|[]]]; [contradiction | discriminate].
  - destruct (negb (valid_name p && valid_name s)); inversion H; subst; (apply Hframe; [reflexivity | simpl; try tauto; intros [E|[]]; discriminate]).
  - destruct (find_job j (n_jobs n)); [|discriminate]. destruct (smem N.eqb r (j_todo j0)); [|discriminate]. inversion H; subst. apply Hframe; [reflexivity | simpl; tauto].
  - destruct (find_job j (n_jobs n)); [|discriminate]. destruct (j_todo j0); [|discriminate]. destruct (j_rsnap j0); [discriminate|].
    inversion H; subst. apply Hframe; [reflexivity | simpl; tauto].
  - destruct (find_job j (n_jobs n)); [|discriminate]. destruct (smem str_eqb x (j_rtodo j0)); [|discriminate]. inversion H; subst.
    apply Hframe; [reflexivity|]. unfold send_to. destruct (can_send n x); simpl; [intros [E|[]]; discriminate | tauto].
  - inversion H; subst. apply Hframe; [reflexivity | simpl; tauto].
  - inversion H; subst. apply Hframe; [reflexivity|]. unfold object_removed. simpl. intro Hin.
    apply in_flat_map in Hin as [e [_ Hin]]. apply in_flat_map in Hin as [x [_ Hin]].
    unfold send_to in Hin. destruct (can_send _ x); [destruct Hin as [E|[]]; discriminate | destruct Hin].
  - destruct m.
    + assert (E : n' = deliver_remote n from pub sig a j /\ os = []) by (inversion H; auto). destruct E as [-> ->].
      apply Hframe; [|simpl; tauto]. unfold deliver_remote.
      destruct (alookup str_eqb (key3 from pub sig) (n_lsubs n)); reflexivity.
    + assert (E : (n', os) = handle_sub_request n from id pub sig sub) by (inversion H; reflexivity).
      unfold handle_sub_request, add_remote, remove_remote, send_to in E.
      destruct sub; [destruct (smem str_eqb pub (n_objs n)); [destruct (alookup str_eqb (key2 pub sig) (n_rsubs n))|]
                    | destruct (alookup str_eqb (key2 pub sig) (n_rsubs n)); [destruct (is_nil (sdel str_eqb from l))|]];
        destruct (can_send n from); inversion E; subst;
        (apply Hframe; [reflexivity | simpl; try tauto; intros [E1|[]]; discriminate]).
    + assert (E : (n', os) = handle_reply n id ok) by (inversion H; reflexivity).
      pose proof (handle_reply_WP n id ok HW) as F. rewrite <- E in F. simpl in F. apply HWP; [exact F|].
      assert (Hos : os = snd (handle_reply n id ok)) by (rewrite <- E; reflexivity). rewrite Hos. apply handle_reply_no_wait.
    + inversion H; subst. apply Hframe; [reflexivity | simpl; tauto].
  - assert (E : (n', os) = handle_reply n id false) by (inversion H; reflexivity).
    pose proof (handle_reply_WP n id false HW) as F. rewrite <- E in F. simpl in F. apply HWP; [exact F|].
    assert (Hos : os = snd (handle_reply n id false)) by (rewrite <- E; reflexivity). rewrite Hos. apply handle_reply_no_wait.
  - inversion H; subst. apply Hframe; [reflexivity | simpl; tauto].
  - inversion H; subst. unfold peer_removed. apply Hframe; [reflexivity | simpl; tauto].
Qed.

(* system level: every step of the two-context system keeps WV at both nodes and keeps every waiting call
   (closing a connection runs error replies, which release the calls blocked on that peer) *)
Local Opaque node_step.

Lemma step2_wait s l s' os sd call :
  step2 s l = Some (s', os) -> WV (nd s true) -> WV (nd s false) ->
  (WV (nd s' true) /\ WV (nd s' false)) /\
  (waiting (nd s sd) call -> l <> L2Node sd (ISubEnd call) -> waiting (nd s' sd) call).
Proof.
  intros H HWa HWb.
  assert (HWsd : forall x, WV (nd s x)) by (intros [|]; assumption).
  destruct l as [sd0 i|sd0| |sd0]; unfold step2 in H.
  - destruct (api_input i); [|discriminate]. destruct (node_step (nd s sd0) i) as [[n' os']|] eqn:E; [|discriminate].
    inversion H; subst. destruct (step_WP _ _ _ _ E (HWsd sd0)) as (S1 & S2 & _).
    assert (Hnd : forall x, nd (route2 sd0 os (w_nd sd0 n' s)) x = if Bool.eqb x sd0 then n' else nd s x).
    { intro x. rewrite nd_route2. destruct x, sd0; reflexivity. }
    split; [split; rewrite Hnd; destruct sd0; simpl; auto|].
    rewrite Hnd. destruct (Bool.eqb sd sd0) eqn:Eb; [|auto].
    apply eqb_prop in Eb. subst sd0. intros Hc Hne. apply S2; [exact Hc|]. intros ->. apply Hne. reflexivity.
  - destruct (ch s sd0) as [|m rest]; [discriminate|]. destruct (up s (negb sd0)); [|discriminate]. cbv zeta in H.
    match type of H with match node_step ?a ?b with _ => _ end = _ => destruct (node_step a b) as [[n' os']|] eqn:E; [|discriminate] end.
    inversion H; subst.
    match type of E with node_step (nd ?ss _) _ = _ => set (s2 := ss) in * end.
    assert (Hs2 : forall x, nd s2 x = nd s x) by (intro x; unfold s2; destruct (reply_id_of m); destruct x, sd0; reflexivity).
    rewrite Hs2 in E. destruct (step_WP _ _ _ _ E (HWsd (negb sd0))) as (S1 & S2 & _).
    assert (Hnd : forall x, nd (route2 (negb sd0) os (w_nd (negb sd0) n' s2)) x = if Bool.eqb x (negb sd0) then n' else nd s x).
    { intro x. rewrite nd_route2. destruct x, sd0; simpl; try reflexivity; first [exact (Hs2 true) | exact (Hs2 false)]. }
    split; [split; rewrite Hnd; destruct sd0; simpl; auto|].
    rewrite Hnd. destruct (Bool.eqb sd (negb sd0)) eqn:Eb; [|auto].
    apply eqb_prop in Eb. subst sd. intros Hc _. apply S2; [exact Hc | discriminate].
  - destruct (negb (up s true) && negb (up s false)); [|discriminate].
    Local Transparent node_step. simpl in H. Local Opaque node_step. inversion H; subst.
    split; [split; simpl; [exact HWa | exact HWb]|]. destruct sd; simpl; auto.
  - destruct (up s sd0); [|discriminate].
    Local Transparent node_step. simpl in H. Local Opaque node_step.
    set (n1 := peer_removed (w_peers (sdel str_eqb (n_name (nd s (negb sd0))) (n_peers (nd s sd0))) (nd s sd0)) (n_name (nd s (negb sd0)))) in *.
    assert (F1 : WP (nd s sd0) n1) by (apply WP_frame; [apply HWsd | reflexivity | reflexivity]).
    pose proof (err_replies_WP (cp s sd0) n1 (proj1 F1)) as F2.
    destruct (err_replies n1 (cp s sd0)) as [n2 os2]. simpl in F2. inversion H; subst.
    pose proof (WP_trans _ _ _ F1 F2) as [G1 G2].
    assert (Hnd : forall x, nd (route2 sd0 os (w_cp sd0 [] (w_nd sd0 n2 s))) x = if Bool.eqb x sd0 then n2 else nd s x).
    { intro x. rewrite nd_route2. destruct x, sd0; reflexivity. }
    split; [split; rewrite Hnd; destruct sd0; simpl; auto|].
    rewrite Hnd. destruct (Bool.eqb sd sd0) eqn:Eb; [|auto]. apply eqb_prop in Eb. subst sd0. intros Hc _. apply G2. exact Hc.
Qed.

Lemma run2_wait ls : forall s s' sd call,
  run2 s ls = Some s' -> WV (nd s true) -> WV (nd s false) ->
  (WV (nd s' true) /\ WV (nd s' false)) /\
  (waiting (nd s sd) call -> ~ In (L2Node sd (ISubEnd call)) ls -> waiting (nd s' sd) call).
Proof.
  induction ls as [|l r IH]; simpl; intros s s' sd call H HWa HWb.
  - inversion H; subst. auto.
  - destruct (step2 s l) as [[s1 os]|] eqn:E; [|discriminate].
    destruct (step2_wait s l s1 os sd call E HWa HWb) as [[W1 W2] W3].
    destruct (IH s1 s' sd call H W1 W2) as [W4 W5]. split; [exact W4|].
    intros Hc Hn. apply W5; [apply W3; [exact Hc | intros ->; apply Hn; left; reflexivity] | intro Hin; apply Hn; right; exact Hin].
Qed.

Lemma init_WV nm objs : WV (init_node nm objs).
Proof. intros key q Hk. discriminate. Qed.

Local Transparent node_step.

(* Every blocked subscribe call gets its reply: a call that is waiting after ls1 and whose wait() has
   not returned during ls2 is still accounted for after ls2; and once nothing is in flight its outcome is
   there, i.e. the step "wait() returns" is enabled. *)
Lemma no_block a b oa ob ls1 ls2 s1 s2 sd call :
  nodot a = true -> nodot b = true -> a <> b ->
  run2 (init2 a b oa ob) ls1 = Some s1 -> run2 s1 ls2 = Some s2 ->
  Forall label2_ok ls1 -> Forall label2_ok ls2 ->
  waiting (nd s1 sd) call -> ~ In (L2Node sd (ISubEnd call)) ls2 ->
  waiting (nd s2 sd) call /\
  (ch s2 true = [] -> ch s2 false = [] ->
   exists (ok : bool) n' os, node_step (nd s2 sd) (ISubEnd call) = Some (n', os) /\ os = [ORes (if ok then RNone else RSubErr)]).
Proof.
  intros Ha Hb Hne H1 H2 F1 F2 Hw Hn.
  pose proof (run2_wait ls1 (init2 a b oa ob) s1 sd call H1 (init_WV a oa) (init_WV b ob)) as [[W1 W2] W0].
  pose proof (run2_wait ls2 s1 s2 sd call H2 W1 W2) as [W00 W3]. specialize (W3 Hw Hn).
  split; [exact W3|]. intros C1 C2.
  assert (Hr : reach2 a b oa ob s2).
  { exists (ls1 ++ ls2). split; [|apply Forall_app; auto].
    clear - H1 H2. revert H1. generalize (init2 a b oa ob). induction ls1 as [|l r IH]; simpl; intros s0 H1.
    - inversion H1; subst. exact H2.
    - destruct (step2 s0 l) as [[s' os]|]; [|discriminate]. apply IH. exact H1. }
  pose proof (empty_channels_no_pending a b oa ob s2 sd Ha Hb Hne Hr C1 C2) as Hnp.
  pose proof (reach2_SInv2 a b oa ob s2 Ha Hb Hne Hr) as HS. destruct (HS sd) as [HX _].
  destruct W3 as [(key & q & Hk & _)|(ok & Hin)].
  - rewrite (pname_empty_of_pid _ (proj1 HX) Hnp key) in Hk. discriminate.
  - destruct (In_alookup_some N.eqb N.eqb_eq call ok (n_done (nd s2 sd)) Hin) as [ok' Hok'].
    exists ok'. simpl. rewrite Hok'. eauto.
Qed.
