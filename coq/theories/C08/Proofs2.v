(* C08 — the two-context invariant and the quiescence theorem. *)
From Coq Require Import List NArith ZArith Bool Arith Lia.
Require Import QV.C07.Model QV.C07.ProofsLib QV.C07.Proofs QV.C08.Proofs QV.C08.Effects.
Import ListNotations.
Open Scope N_scope.

Definition is_kreq (p s : name) (m : msg) : bool :=
  match m with MSubReq _ p' s' _ => str_eqb p p' && str_eqb s s' | _ => false end.
Definition is_req (m : msg) : bool := match m with MSubReq _ _ _ _ => true | _ => false end.
Definition is_reply (id : N) (m : msg) : bool := match m with MSubReply id' _ => N.eqb id id' | _ => false end.
Definition is_anyreply (m : msg) : bool := match m with MSubReply _ _ => true | _ => false end.
Definition is_removed (p s : name) (m : msg) : bool :=
  match m with MRemoved p' s' => str_eqb p p' && str_eqb s s' | _ => false end.
Definition is_anyremoved (m : msg) : bool := match m with MRemoved _ _ => true | _ => false end.

(* a node whose only possible peer is [o] *)
Definition NodeOK (n : node) (o : name) : Prop :=
  TInv n /\ (forall c, can_send n c = true -> c = o) /\ nodot o = true /\ o <> n_name n /\
  (forall key q, slk key (n_pname n) = Some q -> pq_ctx q = o).

(* the protocol state of one signal (p, s) published by Y, as seen from subscriber X *)
Definition KeyInv (X Y : node) (cxy cyx : list msg) (p s : name) : Prop :=
  let xn := n_name X in let yn := n_name Y in
  can_send X yn = true ->
  match Pk X yn p s with
  | None =>
      filter (is_kreq p s) cxy = [] /\
      (can_send Y xn = true ->
         if existsb (is_removed p s) cyx then Rk Y xn p s = false
         else (Rk Y xn p s = true <-> Lk X yn p s <> None))
  | Some q =>
      exists id, nlk id (n_pid X) = Some (key3 yn p s) /\
        ((filter (is_kreq p s) cxy = [MSubReq id p s (pq_sub q)] /\ existsb (is_reply id) cyx = false /\
          (pq_sub q = true -> Rk Y xn p s = false))
         \/
         (filter (is_kreq p s) cxy = [] /\
          exists pre ok suf, cyx = pre ++ MSubReply id ok :: suf /\
            existsb (is_reply id) pre = false /\ existsb (is_reply id) suf = false /\
            (can_send Y xn = true -> Rk Y xn p s = pq_sub q && ok && negb (existsb (is_removed p s) suf))))
  end.

Definition Dir (X Y : node) (cxy cyx : list msg) (cpx : list N) : Prop :=
  let xn := n_name X in let yn := n_name Y in
  (can_send X yn = false -> (forall id, nlk id (n_pid X) = None) /\ (forall p s, Lk X yn p s = None) /\ cpx = []) /\
  (can_send Y xn = false -> forall p s, Rk Y xn p s = false) /\
  (forall id key, nlk id (n_pid X) = Some key -> In id cpx) /\
  (can_send X yn = true -> forall id ok, In (MSubReply id ok) cyx -> exists key, nlk id (n_pid X) = Some key) /\
  (forall id p s f, In (MSubReq id p s f) cxy -> nodot p = true) /\
  (forall p s, In (MRemoved p s) cyx -> nodot p = true) /\
  (forall p s, nodot p = true -> KeyInv X Y cxy cyx p s).

Lemma filter_app_nil {A} (f : A -> bool) l app : (forall m, In m app -> f m = false) -> filter f (l ++ app) = filter f l.
Proof.
  intro H. rewrite filter_app. replace (filter f app) with (@nil A); [apply app_nil_r|].
  symmetry. induction app as [|m app IH]; [reflexivity|]. simpl. rewrite (H m (or_introl eq_refl)).
  apply IH. intros m' Hm'. apply H. right. exact Hm'.
Qed.

Lemma existsb_app_false {A} (f : A -> bool) l app : (forall m, In m app -> f m = false) -> existsb f (l ++ app) = existsb f l.
Proof.
  intro H. rewrite existsb_app. replace (existsb f app) with false; [apply orb_false_r|].
  symmetry. destruct (existsb f app) eqn:E; [|reflexivity]. apply existsb_exists in E as [m [Hm Hf]]. rewrite (H m Hm) in Hf. discriminate.
Qed.

Lemma is_kreq_req p s m : is_req m = false -> is_kreq p s m = false.
Proof. destruct m; simpl; congruence. Qed.
Lemma is_reply_any id m : is_anyreply m = false -> is_reply id m = false.
Proof. destruct m; simpl; congruence. Qed.
Lemma is_removed_any p s m : is_anyremoved m = false -> is_removed p s m = false.
Proof. destruct m; simpl; congruence. Qed.

(* ---- X changes nothing that concerns Y's signals; it may append non-requests to cxy ---- *)
Lemma dir_frame_X X X' Y cxy cyx cpx app :
  Dir X Y cxy cyx cpx ->
  n_name X' = n_name X -> (forall c, can_send X' c = can_send X c) -> same_pid X X' ->
  (forall p s, Lk X' (n_name Y) p s = Lk X (n_name Y) p s /\ Pk X' (n_name Y) p s = Pk X (n_name Y) p s) ->
  (forall m, In m app -> is_req m = false) ->
  Dir X' Y (cxy ++ app) cyx cpx.
Proof.
  intros (D1 & D2 & D3 & D5 & D6 & D7 & DI) Hn Hc Hpid Hk Happ. unfold Dir. rewrite Hn. repeat rewrite Hc.
  split; [|split; [|split; [|split; [|split; [|split]]]]].
  - intro Hd. destruct (D1 Hd) as (A1 & A2 & A3). split; [intro id; rewrite Hpid; apply A1|]. split; [intros p s; rewrite (proj1 (Hk p s)); apply A2 | exact A3].
  - exact D2.
  - intros id key H. rewrite Hpid in H. eapply D3; eauto.
  - intros Hu id ok Hin. destruct (D5 Hu id ok Hin) as [key Hkey]. exists key. rewrite Hpid. exact Hkey.
  - intros id p s f Hin. apply in_app_iff in Hin as [Hin|Hin]; [eapply D6; eauto|]. specialize (Happ _ Hin). discriminate.
  - exact D7.
  - intros p s Hp. specialize (DI p s Hp). unfold KeyInv in *. rewrite Hn. repeat rewrite Hc. intro Hu. specialize (DI Hu).
    destruct (Hk p s) as [HL HP]. rewrite HP, HL.
    rewrite (filter_app_nil (is_kreq p s)) by (intros m Hm; apply is_kreq_req, Happ, Hm).
    destruct (Pk X (n_name Y) p s) as [q|]; [|exact DI].
    destruct DI as (id & Hid & Hcase). exists id. rewrite Hpid. split; [exact Hid | exact Hcase].
Qed.

(* ---- Y changes nothing that concerns X's subscriptions; it may append non-replies, non-removed to cyx ---- *)
Lemma dir_frame_Y X Y Y' cxy cyx cpx app :
  Dir X Y cxy cyx cpx ->
  n_name Y' = n_name Y -> (forall c, can_send Y' c = can_send Y c) ->
  (forall p s, Rk Y' (n_name X) p s = Rk Y (n_name X) p s) ->
  (forall m, In m app -> is_anyreply m = false /\ is_anyremoved m = false) ->
  Dir X Y' cxy (cyx ++ app) cpx.
Proof.
  intros (D1 & D2 & D3 & D5 & D6 & D7 & DI) Hn Hc HR Happ. unfold Dir. rewrite Hn. repeat rewrite Hc.
  split; [|split; [|split; [|split; [|split; [|split]]]]].
  - exact D1.
  - intros Hd p s. rewrite HR. apply D2. exact Hd.
  - exact D3.
  - intros Hu id ok Hin. apply in_app_iff in Hin as [Hin|Hin]; [eapply D5; eauto|]. destruct (Happ _ Hin) as [H _]. discriminate.
  - exact D6.
  - intros p s Hin. apply in_app_iff in Hin as [Hin|Hin]; [eapply D7; eauto|]. destruct (Happ _ Hin) as [_ H]. discriminate.
  - intros p s Hp. specialize (DI p s Hp). unfold KeyInv in *. rewrite Hn. repeat rewrite Hc. intro Hu. specialize (DI Hu).
    rewrite HR.
    assert (Hrm : forall l, existsb (is_removed p s) (l ++ app) = existsb (is_removed p s) l)
      by (intro l; apply existsb_app_false; intros m Hm; apply is_removed_any, (Happ m Hm)).
    assert (Hrp : forall id l, existsb (is_reply id) (l ++ app) = existsb (is_reply id) l)
      by (intros id l; apply existsb_app_false; intros m Hm; apply is_reply_any, (Happ m Hm)).
    destruct (Pk X (n_name Y) p s) as [q|].
    + destruct DI as (id & Hid & [Ha|Hb]); exists id; (split; [exact Hid|]).
      * left. rewrite Hrp. exact Ha.
      * right. destruct Hb as (K & pre & ok & suf & E & B1 & B2 & B3). split; [exact K|].
        exists pre, ok, (suf ++ app). rewrite E, <- app_assoc. simpl. split; [reflexivity|].
        split; [exact B1|]. split; [rewrite Hrp; exact B2|]. rewrite Hrm. exact B3.
    + rewrite Hrm. exact DI.
Qed.

(* ---- taking an irrelevant message off a channel ---- *)
Lemma dir_pop_cxy X Y m rest cyx cpx : Dir X Y (m :: rest) cyx cpx -> is_req m = false -> Dir X Y rest cyx cpx.
Proof.
  intros (D1 & D2 & D3 & D5 & D6 & D7 & DI) Hm. unfold Dir.
  split; [exact D1|]. split; [exact D2|]. split; [exact D3|]. split; [exact D5|].
  split; [intros id p s f Hin; eapply D6; right; exact Hin|]. split; [exact D7|].
  intros p s Hp. specialize (DI p s Hp). unfold KeyInv in *. intro Hu. specialize (DI Hu).
  simpl in DI. rewrite (is_kreq_req p s m Hm) in DI. exact DI.
Qed.

Lemma dir_pop_cyx X Y cxy m rest cpx :
  Dir X Y cxy (m :: rest) cpx -> is_anyreply m = false -> is_anyremoved m = false -> Dir X Y cxy rest cpx.
Proof.
  intros (D1 & D2 & D3 & D5 & D6 & D7 & DI) Hm1 Hm2. unfold Dir.
  split; [exact D1|]. split; [exact D2|]. split; [exact D3|].
  split; [intros Hu id ok Hin; eapply D5; [exact Hu | right; exact Hin]|].
  split; [exact D6|]. split; [intros p s Hin; eapply D7; right; exact Hin|].
  intros p s Hp. specialize (DI p s Hp). unfold KeyInv in *. intro Hu. specialize (DI Hu).
  destruct (Pk X (n_name Y) p s) as [q|].
  - destruct DI as (id & Hid & [Ha|Hb]); exists id; (split; [exact Hid|]).
    + left. simpl in Ha. rewrite (is_reply_any id m Hm1) in Ha. exact Ha.
    + right. destruct Hb as (K & pre & ok & suf & E & B1 & B2 & B3). split; [exact K|].
      destruct pre as [|m' pre'].
      * simpl in E. inversion E; subst. discriminate.
      * simpl in E. inversion E; subst. exists pre', ok, suf. split; [reflexivity|].
        simpl in B1. apply orb_false_iff in B1 as [_ B1]. auto.
  - simpl in DI. rewrite (is_removed_any p s m Hm2) in DI. exact DI.
Qed.

Lemma key2_neq p s p0 s0 : nodot p = true -> nodot p0 = true -> (p, s) <> (p0, s0) -> key2 p s <> key2 p0 s0.
Proof. intros Hp Hp0 Hne E. apply key2_inj in E as [-> ->]; auto. Qed.

Lemma key3_neq c p s p0 s0 : nodot c = true -> nodot p = true -> nodot p0 = true -> (p, s) <> (p0, s0) -> key3 c p s <> key3 c p0 s0.
Proof. intros Hc Hp Hp0 Hne E. apply key3_inj in E as (_ & -> & ->); auto. Qed.

Lemma is_kreq_true p s m : is_kreq p s m = true -> exists id f, m = MSubReq id p s f.
Proof.
  destruct m; simpl; try discriminate. intro H. apply andb_true_iff in H as [H1 H2].
  apply str_eqb_spec in H1, H2. subst. eauto.
Qed.

Lemma is_kreq_other p s id p0 s0 f : (p, s) <> (p0, s0) -> is_kreq p s (MSubReq id p0 s0 f) = false.
Proof.
  intro H. simpl. destruct (str_eqb p p0) eqn:E1; [|reflexivity]. destruct (str_eqb s s0) eqn:E2; [|reflexivity].
  apply str_eqb_spec in E1, E2. subst. contradiction.
Qed.

Lemma pair_dec (p s p0 s0 : name) : {(p, s) = (p0, s0)} + {(p, s) <> (p0, s0)}.
Proof.
  destruct (str_eq_dec p p0) as [->|H1]; [|right; congruence].
  destruct (str_eq_dec s s0) as [->|H2]; [left; reflexivity | right; congruence].
Qed.

(* ---- Y handles a subscribe / unsubscribe request of X ---- *)
Lemma dir_deliver_req X Y id p0 s0 f rest cyx cpx :
  Dir X Y (MSubReq id p0 s0 f :: rest) cyx cpx ->
  NodeOK X (n_name Y) -> can_send Y (n_name X) = true ->
  let r := handle_sub_request Y (n_name X) id p0 s0 f in
  Dir X (fst r) rest (cyx ++ msgs_of (snd r)) cpx.
Proof.
  intros HD HX Hu r. pose proof HD as (D1 & D2 & D3 & D5 & D6 & D7 & DI).
  destruct (sub_request_spec Y (n_name X) id p0 s0 f) as (S1 & S2 & S3 & S4 & S5 & S6 & S7 & S8 & S9 & S10).
  fold r in S1, S2, S3, S4, S5, S6, S7, S8, S9, S10.
  pose proof (D6 id p0 s0 f (or_introl eq_refl)) as Hp0.
  assert (Hc : forall c, can_send (fst r) c = can_send Y c) by (intro c; unfold can_send; rewrite S4; reflexivity).
  assert (Hmsgs : msgs_of (snd r) = [MSubReply id (if f then smem str_eqb p0 (n_objs Y) else true)]).
  { rewrite S8. unfold send_to. rewrite Hu. reflexivity. }
  rewrite Hmsgs. set (okf := if f then smem str_eqb p0 (n_objs Y) else true) in *.
  destruct HX as (HTX & HX2 & HX3 & HX4 & HX5). pose proof HTX as (HX0 & HPC & HPV & _).
  unfold Dir. rewrite S5. repeat rewrite Hc.
  split; [exact D1|]. split; [intro Hd; congruence|]. split; [exact D3|].
  destruct (can_send X (n_name Y)) eqn:Hxup.
  2: { split; [discriminate|]. split; [intros i p s g Hin; eapply D6; right; exact Hin|].
       split; [intros p s Hin; apply in_app_iff in Hin as [Hin|Hin]; [eapply D7; eauto | simpl in Hin; destruct Hin as [Hin|[]]; discriminate]|].
       intros p s Hp. unfold KeyInv. rewrite S5, Hxup. discriminate. }
  (* the request at the head is the pending request of (p0, s0) *)
  pose proof (DI p0 s0 Hp0) as K0. unfold KeyInv in K0. specialize (K0 Hxup).
  assert (Hhead : is_kreq p0 s0 (MSubReq id p0 s0 f) = true) by (simpl; rewrite !str_eqb_refl; reflexivity).
  cbn [filter] in K0. rewrite Hhead in K0.
  destruct (Pk X (n_name Y) p0 s0) as [q0|] eqn:EP0; [|destruct K0 as [K0 _]; discriminate].
  destruct K0 as (id0 & Hid0 & [(Ka & Kb & Kc)|(Ka & _)]); [|discriminate].
  injection Ka as Eid Ef Erest. subst id0.
  split; [|split; [|split]].
  - intros _ i ok Hin. apply in_app_iff in Hin as [Hin|Hin]; [eapply D5; eauto|]. simpl in Hin. destruct Hin as [Hin|[]]. inversion Hin; subst. eauto.
  - intros i p s g Hin. eapply D6. right. exact Hin.
  - intros p s Hin. apply in_app_iff in Hin as [Hin|Hin]; [eapply D7; eauto | simpl in Hin; destruct Hin as [Hin|[]]; discriminate].
  - intros p s Hp. unfold KeyInv. rewrite S5. repeat rewrite Hc. intros _.
    destruct (pair_dec p s p0 s0) as [E|Hne].
    + inversion E; subst p s. rewrite EP0. exists id. split; [exact Hid0|]. right. split; [exact Erest|].
      exists cyx, okf, []. split; [reflexivity|]. split; [exact Kb|]. split; [reflexivity|].
      intros _. rewrite S9. simpl. rewrite andb_true_r. rewrite <- Ef. destruct f.
      * rewrite (Kc (eq_sym Ef)). unfold okf. rewrite orb_false_r. reflexivity.
      * reflexivity.
    + pose proof (DI p s Hp) as K. unfold KeyInv in K. specialize (K Hxup).
      cbn [filter] in K. rewrite (is_kreq_other p s id p0 s0 f Hne) in K.
      rewrite (S10 (n_name X) p s (key2_neq p s p0 s0 Hp Hp0 Hne)).
      assert (Hrm : forall l, existsb (is_removed p s) (l ++ [MSubReply id okf]) = existsb (is_removed p s) l)
        by (intro l; apply existsb_app_false; intros m [<-|[]]; reflexivity).
      destruct (Pk X (n_name Y) p s) as [q|] eqn:EP.
      * destruct K as (id1 & Hid1 & Hcase). exists id1. split; [exact Hid1|].
        assert (Hidne : id1 <> id).
        { intros ->. rewrite Hid0 in Hid1. inversion Hid1 as [E]. apply key3_inj in E as (_ & -> & ->); auto. }
        assert (Hrp : forall l, existsb (is_reply id1) (l ++ [MSubReply id okf]) = existsb (is_reply id1) l).
        { intro l. apply existsb_app_false. intros m [<-|[]]. simpl. apply N.eqb_neq. exact Hidne. }
        destruct Hcase as [(A1 & A2 & A3)|(B0 & pre & ok & suf & E & B1 & B2 & B3)].
        -- left. rewrite Hrp. auto.
        -- right. split; [exact B0|]. exists pre, ok, (suf ++ [MSubReply id okf]).
           rewrite E, <- app_assoc. simpl. split; [reflexivity|]. split; [exact B1|]. split; [rewrite Hrp; exact B2|].
           rewrite Hrm. exact B3.
      * rewrite Hrm. exact K.
Qed.

(* ---- X handles the reply to its pending request ---- *)
Lemma NodeOK_pending X o id key :
  NodeOK X o -> nlk id (n_pid X) = Some key ->
  exists q, slk key (n_pname X) = Some q /\ key = key3 o (pq_pub q) (pq_sig q) /\ nodot (pq_pub q) = true /\
            pq_ctx q = o /\ (pq_sub q = true -> pq_recv q <> []) /\ id < n_next X.
Proof.
  intros (HT & _ & _ & _ & H5) Hid. destruct HT as (_ & (P1 & _ & _ & P4) & HPV & _).
  destruct (P1 _ _ Hid) as [q Hq]. destruct (HPV _ _ Hq) as (V1 & V2 & V3 & V4 & V5).
  exists q. rewrite <- (H5 _ _ Hq). repeat split; auto. eapply P4; eauto.
Qed.

Lemma dir_deliver_reply X Y cxy id ok rest cpx :
  Dir X Y cxy (MSubReply id ok :: rest) cpx ->
  NodeOK X (n_name Y) -> can_send X (n_name Y) = true ->
  let r := handle_reply X id ok in
  Dir (fst r) Y (cxy ++ msgs_of (snd r)) rest (sdel N.eqb id cpx ++ reqids_of (snd r)).
Proof.
  intros HD HX Hu r. pose proof HD as (D1 & D2 & D3 & D5 & D6 & D7 & DI).
  destruct (D5 Hu id ok (or_introl eq_refl)) as [key Hid].
  destruct (NodeOK_pending X (n_name Y) id key HX Hid) as (q & Hq & Hkey & Hpub & Hctx & Hrecv & Hlt).
  set (p0 := pq_pub q) in *. set (s0 := pq_sig q) in *.
  pose proof HX as (HTX & HX2 & HX3 & HX4 & HX5). pose proof HTX as (HX0 & (P1 & P2 & P3 & P4) & HPV & _).
  (* the reply at the head is the one the invariant of (p0, s0) speaks about *)
  pose proof (DI p0 s0 Hpub) as K0. unfold KeyInv in K0. specialize (K0 Hu).
  unfold Pk in K0. rewrite <- Hkey, Hq in K0. destruct K0 as (id0 & Hid0 & Hcase).
  assert (id0 = id) by (eapply P3; eauto). subst id0.
  destruct Hcase as [(_ & Kb & _)|(Ka & pre & ok' & suf & E & B1 & B2 & B3)].
  { simpl in Kb. rewrite N.eqb_refl in Kb. discriminate. }
  destruct pre as [|m pre'].
  2: { simpl in E. inversion E; subst m. simpl in B1. rewrite N.eqb_refl in B1. discriminate. }
  simpl in E. inversion E; subst ok' suf. clear E B1.
  pose proof (handle_reply_spec X id ok key q HTX Hid Hq) as Hs. cbv zeta in Hs. fold r in Hs.
  destruct Hs as (S1 & S2 & S3 & S4). rewrite Hctx, Hu in S4.
  assert (Hc : forall c, can_send (fst r) c = can_send X c) by (intro c; apply can_send_same; exact S1).
  assert (Hn : n_name (fst r) = n_name X) by apply S1.
  assert (Hothers : forall p s, nodot p = true -> (p, s) <> (p0, s0) ->
            Lk (fst r) (n_name Y) p s = Lk X (n_name Y) p s /\ Pk (fst r) (n_name Y) p s = Pk X (n_name Y) p s).
  { intros p s Hp Hne. apply S2. rewrite Hkey. apply key3_neq; assumption. }
  assert (Hrest_ids : forall i o, In (MSubReply i o) rest -> i <> id /\ i < n_next X /\ exists k, nlk i (n_pid X) = Some k).
  { intros i o Hin. destruct (D5 Hu i o (or_intror Hin)) as [k Hk]. split; [|split; [eapply P4; eauto | eauto]].
    intros ->. assert (existsb (is_reply id) rest = true); [|congruence].
    apply existsb_exists. exists (MSubReply id o). split; [exact Hin | simpl; apply N.eqb_refl]. }
  (* what happened to the tables, by case *)
  assert (Hcases :
    (snd r = [] /\ Pk (fst r) (n_name Y) p0 s0 = None /\
     (forall id', id' <> id -> nlk id' (n_pid (fst r)) = nlk id' (n_pid X)) /\
     Lk (fst r) (n_name Y) p0 s0 = (if pq_sub q && ok then Some (pq_recv q) else None) /\
     (pq_sub q = false -> pq_recv q = [])) \/
    (pq_sub q = false /\ snd r = [OSend (n_name Y) (MSubReq (n_next X) p0 s0 true)] /\
     Pk (fst r) (n_name Y) p0 s0 = Some (mkPreq (n_name Y) p0 s0 true (pq_recv q) (pq_wait q)) /\
     nlk (n_next X) (n_pid (fst r)) = Some key /\
     (forall id', id' <> id -> id' <> n_next X -> nlk id' (n_pid (fst r)) = nlk id' (n_pid X)) /\
     Lk (fst r) (n_name Y) p0 s0 = None)).
  { unfold Pk, Lk. rewrite <- Hkey. destruct (pq_sub q) eqn:Esub.
    - left. destruct S4 as (A1 & A2 & A3 & A4). simpl. repeat split; auto. discriminate.
    - destruct (is_nil (pq_recv q)) eqn:En.
      + left. destruct S4 as (A1 & A2 & A3 & A4). simpl. repeat split; auto. intros _. apply is_nil_true. exact En.
      + right. cbv zeta in S4. destruct S4 as (A1 & A2 & A3 & A4 & A5). repeat split; auto. }
  unfold Dir. rewrite Hn. repeat rewrite Hc.
  split; [intro Hd; congruence|]. split; [exact D2|].
  split; [|split; [|split; [|split]]].
  - (* D3 *) intros i k Hi. apply in_app_iff.
    destruct Hcases as [(C1 & C2 & C3 & C4 & C5)|(C0 & C1 & C2 & C3 & C4 & C5)].
    + left. destruct (N.eq_dec i id) as [->|Hne]; [rewrite S3 in Hi; discriminate|].
      rewrite C3 in Hi by exact Hne. apply (In_sdel N.eqb N.eqb_eq). split; [exact Hne | eapply D3; eauto].
    + destruct (N.eq_dec i (n_next X)) as [->|Hne2]; [right; rewrite C1; simpl; auto|].
      left. destruct (N.eq_dec i id) as [->|Hne]; [rewrite S3 in Hi; discriminate|].
      rewrite C4 in Hi by assumption. apply (In_sdel N.eqb N.eqb_eq). split; [exact Hne | eapply D3; eauto].
  - (* D5 *) intros _ i o Hin. destruct (Hrest_ids i o Hin) as (Hne & Hlt' & k & Hk).
    exists k. destruct Hcases as [(C1 & C2 & C3 & C4 & C5)|(C0 & C1 & C2 & C3 & C4 & C5)].
    + rewrite C3 by exact Hne. exact Hk.
    + rewrite C4; [exact Hk | exact Hne | lia].
  - (* D6 *) intros i p s f Hin. apply in_app_iff in Hin as [Hin|Hin]; [eapply D6; eauto|].
    destruct Hcases as [(C1 & _)|(C0 & C1 & _)]; rewrite C1 in Hin; simpl in Hin; [destruct Hin|].
    destruct Hin as [Hin|[]]. inversion Hin; subst. exact Hpub.
  - (* D7 *) intros p s Hin. eapply D7. right. exact Hin.
  - (* keys *) intros p s Hp. unfold KeyInv. rewrite Hn. repeat rewrite Hc. intros _.
    destruct (pair_dec p s p0 s0) as [E|Hne].
    + inversion E; subst p s. clear E.
      destruct Hcases as [(C1 & C2 & C3 & C4 & C5)|(C0 & C1 & C2 & C3 & C4 & C5)].
      * rewrite C2, C1. simpl. rewrite app_nil_r. split; [exact Ka|]. intro Hy. specialize (B3 Hy). rewrite C4.
        destruct (existsb (is_removed p0 s0) rest).
        -- rewrite B3. rewrite andb_false_r. reflexivity.
        -- rewrite B3. simpl. rewrite andb_true_r. destruct (pq_sub q && ok); split; intro H; try discriminate; try congruence; try reflexivity.
      * rewrite C2, C1. simpl. exists (n_next X). rewrite <- Hkey. split; [exact C3|]. left.
        rewrite filter_app, Ka. simpl. rewrite !str_eqb_refl. simpl. split; [reflexivity|]. split.
        -- destruct (existsb (is_reply (n_next X)) rest) eqn:Ex; [|reflexivity]. exfalso.
           apply existsb_exists in Ex as [m [Hm Hx]]. destruct m; simpl in Hx; try discriminate. apply N.eqb_eq in Hx. subst.
           destruct (Hrest_ids _ _ Hm) as (_ & Hlt' & _). lia.
        -- intros _. destruct (can_send Y (n_name X)) eqn:Hy; [|apply D2; reflexivity].
           rewrite (B3 eq_refl), C0. reflexivity.
    + destruct (Hothers p s Hp Hne) as [HL HP]. rewrite HL, HP.
      pose proof (DI p s Hp) as K. unfold KeyInv in K. specialize (K Hu).
      assert (Hkr : filter (is_kreq p s) (cxy ++ msgs_of (snd r)) = filter (is_kreq p s) cxy).
      { apply filter_app_nil. intros m Hm.
        destruct Hcases as [(C1 & _)|(C0 & C1 & _)]; rewrite C1 in Hm; simpl in Hm; [destruct Hm|].
        destruct Hm as [<-|[]]. apply is_kreq_other. exact Hne. }
      rewrite Hkr.
      destruct (Pk X (n_name Y) p s) as [q1|] eqn:EP.
      * destruct K as (id1 & Hid1 & Hcase). exists id1.
        assert (Hne1 : id1 <> id).
        { intros ->. rewrite Hid in Hid1. inversion Hid1 as [E1]. rewrite Hkey in E1. apply key3_inj in E1 as (_ & E2 & E3); auto. congruence. }
        assert (Hlt1 : id1 < n_next X) by (eapply P4; eauto).
        split.
        -- destruct Hcases as [(C1 & C2 & C3 & C4 & C5)|(C0 & C1 & C2 & C3 & C4 & C5)]; [rewrite C3 by exact Hne1 | rewrite C4; [|exact Hne1|lia]]; exact Hid1.
        -- destruct Hcase as [(A1 & A2 & A3)|(B0 & pre & ok1 & suf & E1 & F1 & F2 & F3)].
           ++ left. split; [exact A1|]. split; [|exact A3]. simpl in A2. apply orb_false_iff in A2 as [_ A2]. exact A2.
           ++ right. split; [exact B0|]. destruct pre as [|m pre'].
              ** simpl in E1. inversion E1; subst. contradiction.
              ** simpl in E1. inversion E1; subst. exists pre', ok1, suf. split; [reflexivity|].
                 simpl in F1. apply orb_false_iff in F1 as [_ F1]. auto.
      * simpl in K. exact K.
Qed.

Lemma is_removed_other p s p0 s0 : (p, s) <> (p0, s0) -> is_removed p s (MRemoved p0 s0) = false.
Proof.
  intro H. simpl. destruct (str_eqb p p0) eqn:E1; [|reflexivity]. destruct (str_eqb s s0) eqn:E2; [|reflexivity].
  apply str_eqb_spec in E1, E2. subst. contradiction.
Qed.

(* ---- X handles "publisher removed" ---- *)
Lemma dir_deliver_removed X Y cxy p0 s0 rest cpx :
  Dir X Y cxy (MRemoved p0 s0 :: rest) cpx ->
  NodeOK X (n_name Y) -> can_send X (n_name Y) = true ->
  Dir (w_lsubs (aremove str_eqb (key3 (n_name Y) p0 s0) (n_lsubs X)) X) Y cxy rest cpx.
Proof.
  intros HD HX Hu. pose proof HD as (D1 & D2 & D3 & D5 & D6 & D7 & DI).
  pose proof (D7 p0 s0 (or_introl eq_refl)) as Hp0.
  destruct HX as (HTX & HX2 & HX3 & HX4 & HX5).
  set (X' := w_lsubs (aremove str_eqb (key3 (n_name Y) p0 s0) (n_lsubs X)) X).
  assert (Hc : forall c, can_send X' c = can_send X c) by reflexivity.
  unfold Dir. change (n_name X') with (n_name X). repeat rewrite Hc.
  split; [intro Hd; congruence|]. split; [exact D2|]. split; [exact D3|].
  split; [intros _ i o Hin; eapply D5; [exact Hu | right; exact Hin]|].
  split; [exact D6|]. split; [intros p s Hin; eapply D7; right; exact Hin|].
  intros p s Hp. unfold KeyInv. change (n_name X') with (n_name X). repeat rewrite Hc. intros _.
  pose proof (DI p s Hp) as K. unfold KeyInv in K. specialize (K Hu).
  change (Pk X' (n_name Y) p s) with (Pk X (n_name Y) p s). change (n_pid X') with (n_pid X).
  destruct (Pk X (n_name Y) p s) as [q|] eqn:EP.
  - destruct K as (id & Hid & Hcase). exists id. split; [exact Hid|].
    destruct Hcase as [(A1 & A2 & A3)|(B0 & pre & ok & suf & E & F1 & F2 & F3)].
    + left. split; [exact A1|]. split; [exact A2 | exact A3].
    + right. split; [exact B0|]. destruct pre as [|m pre']; [simpl in E; discriminate|].
      simpl in E. inversion E; subst. exists pre', ok, suf. split; [reflexivity|].
      simpl in F1. auto.
  - destruct K as [K1 K2]. split; [exact K1|]. intro Hy. specialize (K2 Hy).
    destruct (pair_dec p s p0 s0) as [E|Hne].
    + inversion E; subst p s. simpl in K2. rewrite !str_eqb_refl in K2. simpl in K2.
      assert (HL : Lk X' (n_name Y) p0 s0 = None) by (unfold Lk, X'; simpl; apply slk_aremove_same).
      rewrite HL. destruct (existsb (is_removed p0 s0) rest); [exact K2|].
      rewrite K2. split; [discriminate | intro H; exfalso; apply H; reflexivity].
    + assert (HL : Lk X' (n_name Y) p s = Lk X (n_name Y) p s).
      { unfold Lk, X'. simpl. apply slk_aremove_other. apply key3_neq; assumption. }
      rewrite HL. cbn [existsb] in K2. rewrite (is_removed_other p s p0 s0 Hne) in K2. exact K2.
Qed.

(* ---- Y removes a publisher object ---- *)
Lemma dir_objremove_Y X Y cxy cyx cpx o :
  Dir X Y cxy cyx cpx -> nodot o = true -> (forall c, can_send Y c = true -> c = n_name X) ->
  let r := object_removed (w_objs (sdel str_eqb o (n_objs Y)) Y) o in
  Dir X (fst r) cxy (cyx ++ msgs_of (snd r)) cpx.
Proof.
  intros HD Ho Hpeer r. pose proof HD as (D1 & D2 & D3 & D5 & D6 & D7 & DI).
  destruct (object_removed_spec Y o) as (S1 & S2 & S3 & S4 & S5 & S6 & S7 & S8 & S9 & S10). fold r in S1, S2, S3, S4, S5, S6, S7, S8, S9, S10.
  assert (Hc : forall c, can_send (fst r) c = can_send Y c) by (intro c; unfold can_send; rewrite S3; reflexivity).
  assert (Hnew_rp : forall id m, In m (msgs_of (snd r)) -> is_reply id m = false).
  { intros id m Hm. destruct (S6 m Hm) as [s' ->]. reflexivity. }
  unfold Dir. rewrite S4. repeat rewrite Hc.
  split; [exact D1|].
  split; [intros Hd p s; destruct (str_eq_dec o p) as [<-|Hne]|].
  { (* Rk after removal is false for o *) unfold Rk. unfold r, object_removed. simpl.
    rewrite (alookup_filter_key str_eqb str_eqb_spec (fun k => negb (startswith (o ++ [DOT]) k))).
    replace (startswith (o ++ [DOT]) (key2 o s)) with true; [reflexivity|].
    symmetry. unfold key2. replace (o ++ DOT :: s) with ((o ++ [DOT]) ++ s) by (rewrite <- app_assoc; reflexivity). apply startswith_app. }
  { (* other objects: the filter keeps or drops the entry; membership can only disappear *)
    specialize (D2 Hd p s). unfold Rk in *. unfold r, object_removed. simpl.
    rewrite (alookup_filter_key str_eqb str_eqb_spec (fun k => negb (startswith (o ++ [DOT]) k))).
    destruct (negb (startswith (o ++ [DOT]) (key2 p s))); [exact D2 | reflexivity]. }
  split; [exact D3|].
  split; [intros Hu id ok Hin; apply in_app_iff in Hin as [Hin|Hin]; [eapply D5; eauto | destruct (S6 _ Hin) as [s' E]; discriminate]|].
  split; [exact D6|].
  split; [intros p s Hin; apply in_app_iff in Hin as [Hin|Hin]; [eapply D7; eauto | destruct (S6 _ Hin) as [s' E]; inversion E; subst; exact Ho]|].
  intros p s Hp. unfold KeyInv. rewrite S4. repeat rewrite Hc. intro Hu.
  pose proof (DI p s Hp) as K. unfold KeyInv in K. specialize (K Hu).
  pose proof (S9 (n_name X) p s Ho Hp) as HR.
  assert (Hrm_other : o <> p -> forall l, existsb (is_removed p s) (l ++ msgs_of (snd r)) = existsb (is_removed p s) l).
  { intros Hne l. apply existsb_app_false. intros m Hm. destruct (S6 m Hm) as [s' ->]. simpl.
    destruct (str_eqb p o) eqn:E; [apply str_eqb_spec in E; congruence | reflexivity]. }
  assert (Hrm_same : Rk Y (n_name X) p s = true -> can_send Y (n_name X) = true -> o = p ->
                     forall l, existsb (is_removed p s) (l ++ msgs_of (snd r)) = true).
  { intros HRt Hy <- l. rewrite existsb_app. apply orb_true_iff. right. apply existsb_exists.
    exists (MRemoved o s). split; [apply (S10 (n_name X)); assumption | simpl; rewrite !str_eqb_refl; reflexivity]. }
  assert (Hrp : forall id l, existsb (is_reply id) (l ++ msgs_of (snd r)) = existsb (is_reply id) l)
    by (intros id l; apply existsb_app_false; intros m Hm; eapply Hnew_rp; eauto).
  destruct (Pk X (n_name Y) p s) as [q|] eqn:EP.
  - destruct K as (id & Hid & Hcase). exists id. split; [exact Hid|].
    destruct Hcase as [(A1 & A2 & A3)|(B0 & pre & ok & suf & E & F1 & F2 & F3)].
    + left. split; [exact A1|]. split; [rewrite Hrp; exact A2|]. intro Hs. etransitivity; [exact HR|]. rewrite (A3 Hs). destruct (str_eqb o p); reflexivity.
    + right. split; [exact B0|]. exists pre, ok, (suf ++ msgs_of (snd r)). rewrite E, <- app_assoc. simpl.
      split; [reflexivity|]. split; [exact F1|]. split; [rewrite Hrp; exact F2|].
      intro Hy. specialize (F3 Hy). etransitivity; [exact HR|]. destruct (str_eqb o p) eqn:Eo.
      * apply str_eqb_spec in Eo. destruct (Rk Y (n_name X) p s) eqn:ER.
        -- rewrite (Hrm_same eq_refl Hy Eo). rewrite andb_false_r. reflexivity.
        -- symmetry in F3. apply andb_false_iff in F3 as [F3|F3].
           ++ rewrite F3. reflexivity.
           ++ apply negb_false_iff in F3. rewrite existsb_app, F3. simpl. rewrite andb_false_r. reflexivity.
      * rewrite Hrm_other; [exact F3|]. intros ->. rewrite str_eqb_refl in Eo. discriminate.
  - destruct K as [K1 K2]. split; [exact K1|]. intro Hy. specialize (K2 Hy). rewrite HR.
    destruct (str_eqb o p) eqn:Eo.
    + apply str_eqb_spec in Eo. destruct (Rk Y (n_name X) p s) eqn:ER.
      * rewrite (Hrm_same eq_refl Hy Eo). reflexivity.
      * destruct (existsb (is_removed p s) cyx) eqn:Ex.
        -- rewrite existsb_app, Ex. reflexivity.
        -- destruct (existsb (is_removed p s) (cyx ++ msgs_of (snd r))); [reflexivity|]. exact K2.
    + rewrite Hrm_other; [exact K2|]. intros ->. rewrite str_eqb_refl in Eo. discriminate.
Qed.

(* ---- X's API touches the entries of one signal of Y, possibly creating a request ---- *)
Lemma dir_update_X X X' Y cxy cyx cpx p0 s0 (newreq : option bool) :
  Dir X Y cxy cyx cpx -> NodeOK X (n_name Y) -> nodot p0 = true ->
  n_name X' = n_name X -> (forall c, can_send X' c = can_send X c) ->
  frame_at (key3 (n_name Y) p0 s0) X X' ->
  let app := match newreq with Some f => [MSubReq (n_next X) p0 s0 f] | None => [] end in
  let cpapp := match newreq with Some _ => [n_next X] | None => [] end in
  match newreq with
  | None => same_pid X X'
  | Some f => nlk (n_next X) (n_pid X') = Some (key3 (n_name Y) p0 s0) /\
              (forall id', id' <> n_next X -> nlk id' (n_pid X') = nlk id' (n_pid X))
  end ->
  KeyInv X' Y (cxy ++ app) cyx p0 s0 ->
  (can_send X (n_name Y) = false -> Lk X' (n_name Y) p0 s0 = None /\ newreq = None) ->
  Dir X' Y (cxy ++ app) cyx (cpx ++ cpapp).
Proof.
  intros HD HX Hp0 Hn Hc Hfr app cpapp Hpid Hfocus Hdown.
  pose proof HD as (D1 & D2 & D3 & D5 & D6 & D7 & DI).
  pose proof HX as (HTX & HX2 & HX3 & HX4 & HX5). pose proof HTX as (HX0 & (P1 & P2 & P3 & P4) & HPV & _).
  assert (Hold : forall id key, nlk id (n_pid X) = Some key -> nlk id (n_pid X') = Some key).
  { intros id key Hid. destruct newreq as [f|].
    - destruct Hpid as [_ Hpid]. rewrite Hpid; [exact Hid|]. specialize (P4 _ _ Hid). lia.
    - rewrite Hpid. exact Hid. }
  assert (Hothers : forall p s, nodot p = true -> (p, s) <> (p0, s0) ->
            Lk X' (n_name Y) p s = Lk X (n_name Y) p s /\ Pk X' (n_name Y) p s = Pk X (n_name Y) p s).
  { intros p s Hp Hne. apply Hfr. apply key3_neq; assumption. }
  unfold Dir. rewrite Hn. repeat rewrite Hc.
  split; [|split; [exact D2|split; [|split; [|split; [|split; [exact D7|]]]]]].
  - intro Hd. destruct (D1 Hd) as (A1 & A2 & A3). destruct (Hdown Hd) as [HL ->]. simpl in *.
    split; [intro id; rewrite Hpid; apply A1|]. split; [|rewrite app_nil_r; exact A3].
    intros p s. destruct (pair_dec p s p0 s0) as [E|Hne]; [inversion E; subst; exact HL|].
    (* other keys: by the frame (no nodot needed: compare the keys directly) *)
    destruct (str_eq_dec (key3 (n_name Y) p s) (key3 (n_name Y) p0 s0)) as [E|Hk].
    + unfold Lk. rewrite E. exact HL.
    + unfold Lk. rewrite (proj1 (Hfr _ Hk)). apply A2.
  - intros id key Hid. apply in_app_iff. destruct newreq as [f|].
    + destruct Hpid as [Hnew Hsame]. destruct (N.eq_dec id (n_next X)) as [->|Hne]; [right; left; reflexivity|].
      left. rewrite Hsame in Hid by exact Hne. eapply D3; eauto.
    + left. rewrite Hpid in Hid. eapply D3; eauto.
  - intros Hu id ok Hin. destruct (D5 Hu id ok Hin) as [key Hkey]. exists key. apply Hold. exact Hkey.
  - intros id p s f Hin. apply in_app_iff in Hin as [Hin|Hin]; [eapply D6; eauto|].
    unfold app in Hin. destruct newreq; simpl in Hin; [|destruct Hin]. destruct Hin as [Hin|[]]. inversion Hin; subst. exact Hp0.
  - intros p s Hp. destruct (pair_dec p s p0 s0) as [E|Hne]; [inversion E; subst; exact Hfocus|].
    pose proof (DI p s Hp) as K. unfold KeyInv in *. rewrite Hn. repeat rewrite Hc. intro Hu. specialize (K Hu).
    destruct (Hothers p s Hp Hne) as [HL HP]. rewrite HL, HP.
    assert (Hkr : filter (is_kreq p s) (cxy ++ app) = filter (is_kreq p s) cxy).
    { apply filter_app_nil. intros m Hm. unfold app in Hm. destruct newreq; simpl in Hm; [|destruct Hm].
      destruct Hm as [<-|[]]. apply is_kreq_other. exact Hne. }
    rewrite Hkr. destruct (Pk X (n_name Y) p s) as [q|]; [|exact K].
    destruct K as (id & Hid & Hcase). exists id. split; [apply Hold; exact Hid | exact Hcase].
Qed.

Lemma replies_fresh X Y cxy cyx cpx :
  Dir X Y cxy cyx cpx -> NodeOK X (n_name Y) -> can_send X (n_name Y) = true ->
  existsb (is_reply (n_next X)) cyx = false.
Proof.
  intros (_ & _ & _ & D5 & _) (HT & _) Hu. destruct HT as (_ & (_ & _ & _ & P4) & _).
  destruct (existsb (is_reply (n_next X)) cyx) eqn:E; [|reflexivity]. exfalso.
  apply existsb_exists in E as [m [Hm Hx]]. destruct m; simpl in Hx; try discriminate. apply N.eqb_eq in Hx. subst.
  destruct (D5 Hu _ _ Hm) as [k Hk]. specialize (P4 _ _ Hk). lia.
Qed.

(* no request in flight and nobody subscribed: Y does not list X *)
Lemma none_case_R X Y cxy cyx cpx p s :
  Dir X Y cxy cyx cpx -> nodot p = true -> can_send X (n_name Y) = true ->
  Pk X (n_name Y) p s = None -> Lk X (n_name Y) p s = None -> Rk Y (n_name X) p s = false.
Proof.
  intros (_ & D2 & _ & _ & _ & _ & DI) Hp Hu HP HL.
  destruct (can_send Y (n_name X)) eqn:Hy; [|apply D2; reflexivity].
  pose proof (DI p s Hp) as K. unfold KeyInv in K. specialize (K Hu). rewrite HP in K. destruct K as [_ K]. specialize (K Hy).
  destruct (existsb (is_removed p s) cyx); [exact K|].
  destruct (Rk Y (n_name X) p s); [|reflexivity]. exfalso. rewrite HL in K. apply (proj1 K eq_refl). reflexivity.
Qed.

Lemma dir_sub_X X Y cxy cyx cpx call p0 s0 rcv :
  Dir X Y cxy cyx cpx -> NodeOK X (n_name Y) -> names_ok (n_name Y) p0 s0 = true ->
  let r := sub_remote X call (n_name Y) p0 s0 rcv in
  Dir (fst r) Y (cxy ++ msgs_of (snd r)) cyx (cpx ++ reqids_of (snd r)).
Proof.
  intros HD HX Hok r. pose proof HX as (HTX & HX2 & HX3 & HX4 & HX5).
  destruct (names_ok_nodot _ _ _ Hok) as (_ & Hp0 & _).
  pose proof (sub_remote_spec X call (n_name Y) p0 s0 rcv HTX Hok HX4) as Hs. cbv zeta in Hs. fold r in Hs.
  destruct Hs as (S1 & S2 & S3).
  assert (Hn : n_name (fst r) = n_name X) by apply S1.
  assert (Hc : forall c, can_send (fst r) c = can_send X c) by (intro c; apply can_send_same; exact S1).
  pose proof HD as (D1 & D2 & D3 & D5 & D6 & D7 & DI).
  pose proof (DI p0 s0 Hp0) as K0. unfold KeyInv in K0.
  fold (Lk X (n_name Y) p0 s0) in S3. fold (Pk X (n_name Y) p0 s0) in S3.
  destruct (Lk X (n_name Y) p0 s0) as [l|] eqn:EL.
  - (* joins the existing subscription *)
    destruct S3 as (A1 & A2 & A3 & A4 & A5). rewrite A5. simpl.
    apply (dir_update_X X (fst r) Y cxy cyx cpx p0 s0 None); auto;
      try (intro Hd; destruct (D1 Hd) as (_ & B2 & _); rewrite B2 in EL; discriminate).
    unfold KeyInv. rewrite Hn. repeat rewrite Hc. intro Hu. specialize (K0 Hu).
    unfold Pk, Lk. rewrite A2, A1. rewrite A3 in K0. simpl. rewrite app_nil_r.
    destruct K0 as [K1 K2]. split; [exact K1|]. intro Hy. specialize (K2 Hy).
    destruct (existsb (is_removed p0 s0) cyx); [exact K2|]. rewrite (proj2 K2); [|discriminate]. split; [discriminate | reflexivity].
  - destruct S3 as (A1 & S3). destruct (Pk X (n_name Y) p0 s0) as [q|] eqn:EP.
    + (* waits on the pending request *)
      destruct S3 as ((q' & B1 & B2 & B3) & B4 & B5). rewrite B5. simpl.
      apply (dir_update_X X (fst r) Y cxy cyx cpx p0 s0 None); auto.
      unfold KeyInv. rewrite Hn. repeat rewrite Hc. intro Hu. specialize (K0 Hu).
      unfold Pk. rewrite B1. simpl. rewrite app_nil_r. rewrite B2.
      destruct K0 as (id & Hid & Hcase). exists id. split; [rewrite B4; exact Hid | exact Hcase].
    + destruct (can_send X (n_name Y)) eqn:Hu.
      * (* a new subscribe request *)
        destruct S3 as (B1 & B2 & B3 & B4). rewrite B4. simpl.
        apply (dir_update_X X (fst r) Y cxy cyx cpx p0 s0 (Some true)); auto; try (intro Hd; congruence).
        unfold KeyInv. rewrite Hn. repeat rewrite Hc. intros _.
        unfold Pk. rewrite B1. exists (n_next X). split; [exact B2|]. left.
        specialize (K0 eq_refl). destruct K0 as [K1 _].
        rewrite filter_app, K1. simpl. rewrite !str_eqb_refl. simpl. split; [reflexivity|].
        split; [eapply replies_fresh; eauto|]. intros _. eapply none_case_R; eauto.
      * destruct S3 as (B1 & B2 & B3). rewrite B3. simpl.
        apply (dir_update_X X (fst r) Y cxy cyx cpx p0 s0 None); auto.
        unfold KeyInv. rewrite Hn. repeat rewrite Hc. rewrite Hu. discriminate.
Qed.

Lemma dir_unsub_X X Y cxy cyx cpx p0 s0 rcv :
  Dir X Y cxy cyx cpx -> NodeOK X (n_name Y) -> names_ok (n_name Y) p0 s0 = true ->
  let r := unsub_remote X (n_name Y) p0 s0 rcv in
  Dir (fst r) Y (cxy ++ msgs_of (snd r)) cyx (cpx ++ reqids_of (snd r)).
Proof.
  intros HD HX Hok r. pose proof HX as (HTX & HX2 & HX3 & HX4 & HX5).
  destruct (names_ok_nodot _ _ _ Hok) as (_ & Hp0 & _).
  pose proof (unsub_remote_spec X (n_name Y) p0 s0 rcv HTX Hok HX4) as Hs. cbv zeta in Hs. fold r in Hs.
  destruct Hs as (S1 & S2 & S3).
  assert (Hn : n_name (fst r) = n_name X) by apply S1.
  assert (Hc : forall c, can_send (fst r) c = can_send X c) by (intro c; apply can_send_same; exact S1).
  pose proof HD as (D1 & D2 & D3 & D5 & D6 & D7 & DI).
  pose proof (DI p0 s0 Hp0) as K0. unfold KeyInv in K0.
  fold (Lk X (n_name Y) p0 s0) in S3. fold (Pk X (n_name Y) p0 s0) in S3.
  destruct (Lk X (n_name Y) p0 s0) as [l|] eqn:EL.
  - destruct S3 as (A0 & S3). destruct (is_nil (sdel N.eqb rcv l)) eqn:En.
    + destruct S3 as (A1 & S3). destruct (can_send X (n_name Y)) eqn:Hu.
      * (* the last subscriber left: an unsubscribe request *)
        destruct S3 as (B1 & B2 & B3 & B4). rewrite B4. simpl.
        apply (dir_update_X X (fst r) Y cxy cyx cpx p0 s0 (Some false)); auto; try (intro Hd; congruence).
        unfold KeyInv. rewrite Hn. repeat rewrite Hc. intros _.
        unfold Pk. rewrite B1. exists (n_next X). split; [exact B2|]. left.
        specialize (K0 eq_refl). rewrite A0 in K0. destruct K0 as [K1 _].
        rewrite filter_app, K1. simpl. rewrite !str_eqb_refl. simpl. split; [reflexivity|].
        split; [eapply replies_fresh; eauto | discriminate].
      * exfalso. destruct (D1 eq_refl) as (_ & B2 & _). rewrite B2 in EL. discriminate.
    + destruct S3 as (A1 & A2 & A3 & A4). rewrite A4. simpl.
      apply (dir_update_X X (fst r) Y cxy cyx cpx p0 s0 None); auto;
        try (intro Hd; destruct (D1 Hd) as (_ & B2 & _); rewrite B2 in EL; discriminate).
      unfold KeyInv. rewrite Hn. repeat rewrite Hc. intro Hu. specialize (K0 Hu).
      unfold Pk, Lk. rewrite A2, A1. rewrite A0 in K0. simpl. rewrite app_nil_r.
      destruct K0 as [K1 K2]. split; [exact K1|]. intro Hy. specialize (K2 Hy).
      destruct (existsb (is_removed p0 s0) cyx); [exact K2|]. rewrite (proj2 K2); [|discriminate]. split; [discriminate | reflexivity].
  - destruct S3 as (A1 & A2 & A3 & A4). rewrite A4. simpl.
    apply (dir_update_X X (fst r) Y cxy cyx cpx p0 s0 None); auto.
    unfold KeyInv. rewrite Hn. repeat rewrite Hc. intro Hu. specialize (K0 Hu).
    unfold Pk, Lk. rewrite A2, A1. simpl. rewrite app_nil_r. fold (Pk X (n_name Y) p0 s0).
    destruct (Pk X (n_name Y) p0 s0) as [q|]; [|exact K0].
    destruct K0 as (id & Hid & Hcase). exists id. split; [rewrite A3; exact Hid | exact Hcase].
Qed.

(* ---- a new connection: everything about the other context had been forgotten at both ends ---- *)
Lemma dir_connect X Y cxy cyx cpx X' Y' :
  Dir X Y cxy cyx cpx -> NodeOK X (n_name Y) ->
  can_send X (n_name Y) = false -> can_send Y (n_name X) = false ->
  n_name X' = n_name X -> n_name Y' = n_name Y ->
  n_pid X' = n_pid X -> n_pname X' = n_pname X -> n_lsubs X' = n_lsubs X -> n_rsubs Y' = n_rsubs Y ->
  Dir X' Y' [] [] cpx.
Proof.
  intros (D1 & D2 & D3 & D5 & D6 & D7 & DI) HX Hx Hy Hn1 Hn2 E1 E2 E3 E4.
  destruct (D1 Hx) as (A1 & A2 & A3). specialize (D2 Hy).
  assert (HP : forall p s, Pk X' (n_name Y) p s = None).
  { intros p s. unfold Pk. rewrite E2. apply pname_empty_of_pid; [apply HX | exact A1]. }
  unfold Dir. rewrite Hn1, Hn2, E1.
  split; [intros _; split; [exact A1|]; split; [intros p s; unfold Lk; rewrite E3; apply A2 | exact A3]|].
  split; [intros _ p s; unfold Rk; rewrite E4; apply D2|].
  split; [intros id key H; rewrite A1 in H; discriminate|].
  split; [intros _ id ok []|]. split; [intros id p s f []|]. split; [intros p s []|].
  intros p s Hp. unfold KeyInv. rewrite Hn1, Hn2. intros _. rewrite HP. simpl. split; [reflexivity|].
  intros _. unfold Rk, Lk. rewrite E4, E3. fold (Rk Y (n_name X) p s). fold (Lk X (n_name Y) p s).
  rewrite D2, A2. split; [discriminate | intro H; exfalso; apply H; reflexivity].
Qed.

(* ---- X closes its end ---- *)
Lemma dir_close_X X X2 Y cxy cyx cpx :
  n_name X2 = n_name X -> (forall c, can_send X2 c = false) ->
  (forall id, nlk id (n_pid X2) = None) -> (forall p s, Lk X2 (n_name Y) p s = None) ->
  Dir X Y cxy cyx cpx -> Dir X2 Y cxy cyx [].
Proof.
  intros Hn Hc Hpid HL (D1 & D2 & D3 & D5 & D6 & D7 & DI). unfold Dir. rewrite Hn, Hc.
  split; [intros _; auto|]. split; [exact D2|]. split; [intros id key H; rewrite Hpid in H; discriminate|].
  split; [discriminate|]. split; [exact D6|]. split; [exact D7|].
  intros p s Hp. unfold KeyInv. rewrite Hc. discriminate.
Qed.

(* ---- Y closes its end ---- *)
Lemma dir_close_Y X Y Y2 cxy cyx cpx :
  n_name Y2 = n_name Y -> (forall c, can_send Y2 c = false) -> (forall p s, Rk Y2 (n_name X) p s = false) ->
  Dir X Y cxy cyx cpx -> Dir X Y2 cxy cyx cpx.
Proof.
  intros Hn Hc HR (D1 & D2 & D3 & D5 & D6 & D7 & DI). unfold Dir. rewrite Hn, Hc.
  split; [exact D1|]. split; [intros _; exact HR|]. split; [exact D3|]. split; [exact D5|]. split; [exact D6|]. split; [exact D7|].
  intros p s Hp. pose proof (DI p s Hp) as K. unfold KeyInv in *. rewrite Hn, Hc. intro Hu. specialize (K Hu).
  rewrite HR. destruct (Pk X (n_name Y) p s) as [q|].
  - destruct K as (id & Hid & [(A1 & A2 & A3)|(B0 & pre & ok & suf & E & F1 & F2 & F3)]); exists id; (split; [exact Hid|]).
    + left. auto.
    + right. split; [exact B0|]. exists pre, ok, suf. repeat split; auto. discriminate.
  - destruct K as [K1 _]. split; [exact K1 | discriminate].
Qed.

(* ================================================================ API steps of one node *)
Definition label_ok (i : input) : Prop :=
  match i with IObjRemove o => nodot o = true | IObjAdd o => nodot o = true | _ => True end.

(* steps that do not touch any table *)
Definition quiet_input (i : input) : bool :=
  match i with
  | ISubEnd _ | IPubBegin _ _ _ | IPubDeliver _ _ | IPubSnapRemote _ | IPubSend _ _ | IObjAdd _ => true
  | _ => false
  end.

Lemma quiet_step n i n' os :
  node_step n i = Some (n', os) -> quiet_input i = true ->
  tabpart n' = tabpart n /\ n_peers n' = n_peers n /\
  (forall m, In m (msgs_of os) -> exists p s a j, m = MSignal p s a j) /\ reqids_of os = [].
Proof.
  assert (Hnil : forall n0 : node, tabpart n0 = tabpart n0 /\ n_peers n0 = n_peers n0 /\
            (forall m, In m (msgs_of []) -> exists p s a j, m = MSignal p s a j) /\ reqids_of [] = []).
  { intro n0. split; [reflexivity|]. split; [reflexivity|]. split; [intros m []|reflexivity]. }
  assert (Hres : forall r, (forall m, In m (msgs_of [ORes r]) -> exists p s a j, m = MSignal p s a j) /\ reqids_of [ORes r] = []).
  { intro r. split; [intros m []|reflexivity]. }
  intros H Hq. destruct i; simpl in Hq; try discriminate; simpl in H.
  - destruct (alookup N.eqb call (n_done n)); [|discriminate]. inversion H; subst.
    split; [reflexivity|]. split; [reflexivity|]. apply Hres.
  - destruct (negb (valid_name p && valid_name s)); inversion H; subst.
    + split; [reflexivity|]. split; [reflexivity|]. apply Hres.
    + split; [reflexivity|]. split; [reflexivity|]. split; [intros m []|reflexivity].
  - destruct (find_job j (n_jobs n)); [|discriminate]. destruct (smem N.eqb r (j_todo j0)); [|discriminate].
    inversion H; subst. split; [reflexivity|]. split; [reflexivity|]. split; [intros m []|reflexivity].
  - destruct (find_job j (n_jobs n)); [|discriminate]. destruct (j_todo j0); [|discriminate].
    destruct (j_rsnap j0); [discriminate|]. inversion H; subst. split; [reflexivity|]. split; [reflexivity|]. split; [intros m []|reflexivity].
  - destruct (find_job j (n_jobs n)); [|discriminate]. destruct (smem str_eqb x (j_rtodo j0)); [|discriminate].
    inversion H; subst. split; [reflexivity|]. split; [reflexivity|]. unfold send_to. destruct (can_send n x); simpl.
    + split; [intros m [<-|[]]; eauto | reflexivity].
    + split; [intros m []|reflexivity].
  - inversion H; subst. split; [reflexivity|]. split; [reflexivity|]. split; [intros m []|reflexivity].
Qed.

Lemma tabpart_facts n n' :
  tabpart n' = tabpart n ->
  n_name n' = n_name n /\ n_pid n' = n_pid n /\ n_pname n' = n_pname n /\ n_next n' = n_next n /\
  n_lsubs n' = n_lsubs n /\ n_rsubs n' = n_rsubs n.
Proof. unfold tabpart. intro E. inversion E. auto 10. Qed.

Lemma NodeOK_frame n n' o :
  NodeOK n o -> TInv n' -> n_name n' = n_name n -> n_peers n' = n_peers n ->
  (forall key q, slk key (n_pname n') = Some q -> pq_ctx q = o) -> NodeOK n' o.
Proof.
  intros (H1 & H2 & H3 & H4 & H5) HT Hn Hp H5'. unfold NodeOK. rewrite Hn.
  split; [exact HT|]. split; [intros c Hc; apply H2; unfold can_send in *; rewrite <- Hp; exact Hc|]. auto.
Qed.

(* local subscribe / unsubscribe, or a usage error: only the entry of an own signal changes *)
Lemma local_sub_step n i n' os :
  node_step n i = Some (n', os) ->
  (exists call c p s r, i = ISub call c p s r /\ (names_ok (resolve_ctx n c) p s = false \/ resolve_ctx n c = n_name n)) \/
  (exists c p s r, i = IUnsub c p s r /\ (names_ok (resolve_ctx n c) p s = false \/ resolve_ctx n c = n_name n)) ->
  n_pname n' = n_pname n /\ n_pid n' = n_pid n /\ n_rsubs n' = n_rsubs n /\ n_peers n' = n_peers n /\
  n_name n' = n_name n /\ msgs_of os = [] /\ reqids_of os = [] /\
  (forall c p s, nodot (n_name n) = true -> nodot c = true -> c <> n_name n -> Lk n' c p s = Lk n c p s).
Proof.
  intros H [(call & c & p & s & r & -> & Hc)|(c & p & s & r & -> & Hc)]; simpl in H.
  - destruct (names_ok (resolve_ctx n c) p s) eqn:Eok; simpl in H.
    2: { inversion H; subst. simpl. repeat split; auto. }
    destruct Hc as [Hc|Hc]; [discriminate|]. rewrite Hc, str_eqb_refl in H. inversion H as [[E1 E2]].
    unfold sub_local in E1. destruct (smem str_eqb p (n_objs n)); inversion E1; subst; simpl.
    2: { repeat split; auto. }
    unfold add_local. destruct (alookup str_eqb (key3 (n_name n) p s) (n_lsubs n)); simpl; repeat split; auto;
      intros c0 p0 s0 Hm Hc0 Hne; unfold Lk; simpl; apply slk_aset_other; intro E; unfold key3 in E;
      apply split_first_dot in E as [E _]; try assumption; congruence.
  - destruct (names_ok (resolve_ctx n c) p s) eqn:Eok; simpl in H.
    2: { inversion H; subst. simpl. repeat split; auto. }
    destruct Hc as [Hc|Hc]; [discriminate|]. rewrite Hc, str_eqb_refl in H. inversion H as [[E1 E2]]. subst os.
    assert (Hpv : nodot p = true).
    { unfold names_ok in Eok. apply andb_true_iff in Eok as [Eok _]. apply andb_true_iff in Eok as [_ Eok]. apply valid_nodot. exact Eok. }
    unfold remove_local. destruct (alookup str_eqb (key3 (n_name n) p s) (n_lsubs n)); simpl.
    + destruct (is_nil (sdel N.eqb r l)); simpl; repeat split; auto;
        intros c0 p0 s0 Hm Hc0 Hne; unfold Lk; simpl; [apply slk_aremove_other | apply slk_aset_other];
        intro E; unfold key3 in E; apply split_first_dot in E as [E _]; try assumption; congruence.
    + repeat split; auto.
Qed.

Lemma dir_frame_X' X X' Y cxy cyx cpx app :
  Dir X Y cxy cyx cpx ->
  n_name X' = n_name X -> (forall c, can_send X' c = can_send X c) -> same_pid X X' ->
  (forall p s, Lk X' (n_name Y) p s = Lk X (n_name Y) p s /\ Pk X' (n_name Y) p s = Pk X (n_name Y) p s) ->
  (forall m, In m app -> is_req m = false) ->
  Dir X' Y (cxy ++ app) cyx (cpx ++ []).
Proof. intros. rewrite (app_nil_r cpx). apply (dir_frame_X X); assumption. Qed.

Lemma key3_ctx_neq c c' p s p' s' : nodot c = true -> nodot c' = true -> c <> c' -> key3 c p s <> key3 c' p' s'.
Proof. intros Hc Hc' Hne E. unfold key3 in E. apply split_first_dot in E as [E _]; auto. Qed.

Lemma app_nil_both {A} (l : list A) : l = l ++ [].
Proof. symmetry. apply app_nil_r. Qed.

(* a remote subscribe / unsubscribe naming a third context: nothing can be sent, nothing stays *)
Lemma third_ctx_step X Y c p0 s0 (res : node * list out) :
  NodeOK X (n_name Y) -> names_ok c p0 s0 = true -> c <> n_name X -> c <> n_name Y ->
  same_side X (fst res) -> frame_at (key3 c p0 s0) X (fst res) ->
  same_pid X (fst res) -> msgs_of (snd res) = [] -> reqids_of (snd res) = [] ->
  (forall q', slk (key3 c p0 s0) (n_pname (fst res)) = Some q' -> pq_ctx q' = n_name Y) ->
  TInv (fst res) ->
  forall cxy cyx cpx, Dir X Y cxy cyx cpx ->
  NodeOK (fst res) (n_name Y) /\ Dir (fst res) Y (cxy ++ msgs_of (snd res)) cyx (cpx ++ reqids_of (snd res)).
Proof.
  intros HX Hok Hc1 Hc2 S1 S2 Hpid Hm Hr Hq HT cxy cyx cpx HD.
  pose proof HX as (HTX & HX2 & HX3 & HX4 & HX5). destruct (names_ok_nodot _ _ _ Hok) as (Hcd & _ & _).
  assert (Hframe : forall p s, key3 (n_name Y) p s <> key3 c p0 s0) by (intros p s; apply key3_ctx_neq; auto).
  split.
  - apply (NodeOK_frame X); auto; try apply S1.
    intros key q Hk. destruct (str_eq_dec key (key3 c p0 s0)) as [->|Hne]; [apply Hq; exact Hk|].
    rewrite (proj2 (S2 key Hne)) in Hk. eapply HX5; eauto.
  - rewrite Hm, Hr. apply (dir_frame_X' X); auto; try apply S1.
    + intro c0. apply can_send_same. exact S1.
    + intros p s. unfold Lk, Pk. destruct (S2 _ (Hframe p s)) as [A B]. rewrite A, B. auto.
    + intros m [].
Qed.

Lemma api_X X Y cxy cyx cpx i X' os :
  Dir X Y cxy cyx cpx -> NodeOK X (n_name Y) -> label_ok i -> api_input i = true ->
  node_step X i = Some (X', os) ->
  NodeOK X' (n_name Y) /\ n_name X' = n_name X /\ n_peers X' = n_peers X /\
  Dir X' Y (cxy ++ msgs_of os) cyx (cpx ++ reqids_of os).
Proof.
  intros HD HX Hl Hapi H. pose proof HX as (HTX & HX2 & HX3 & HX4 & HX5). pose proof HTX as (HX0 & _).
  pose proof (step_TInv _ _ _ _ H HTX) as HT'.
  destruct (quiet_input i) eqn:Hq.
  { destruct (quiet_step _ _ _ _ H Hq) as (E & Ep & Hm & Hr). destruct (tabpart_facts _ _ E) as (E1 & E2 & E3 & E4 & E5 & E6).
    split; [apply (NodeOK_frame X); auto; rewrite E3; exact HX5|]. split; [exact E1|]. split; [exact Ep|].
    rewrite Hr. apply (dir_frame_X' X); auto.
    - intro c. unfold can_send. rewrite Ep. reflexivity.
    - intro id. rewrite E2. reflexivity.
    - intros p s. unfold Lk, Pk. rewrite E5, E3. auto.
    - intros m Hin. destruct (Hm m Hin) as (p & s & a & j & ->). reflexivity. }
  destruct i; simpl in Hq, Hapi; try discriminate.
  - (* ISub *)
    destruct (names_ok (resolve_ctx X c) p s) eqn:Eok.
    2: { destruct (local_sub_step _ _ _ _ H) as (E1 & E2 & E3 & E4 & E5 & E6 & E7 & E8); [left; eauto 10|].
         split; [apply (NodeOK_frame X); auto; rewrite E1; exact HX5|]. split; [exact E5|]. split; [exact E4|].
         rewrite E6, E7. apply (dir_frame_X' X); auto.
         - intro c0. unfold can_send. rewrite E4. reflexivity.
         - intro id. rewrite E2. reflexivity.
         - intros p0 s0. unfold Pk. rewrite E1. split; [apply E8; auto | reflexivity].
         - intros m []. }
    destruct (str_eq_dec (resolve_ctx X c) (n_name X)) as [Eself|Nself].
    { destruct (local_sub_step _ _ _ _ H) as (E1 & E2 & E3 & E4 & E5 & E6 & E7 & E8); [left; eauto 10|].
      split; [apply (NodeOK_frame X); auto; rewrite E1; exact HX5|]. split; [exact E5|]. split; [exact E4|].
      rewrite E6, E7. apply (dir_frame_X' X); auto.
      - intro c0. unfold can_send. rewrite E4. reflexivity.
      - intro id. rewrite E2. reflexivity.
      - intros p0 s0. unfold Pk. rewrite E1. split; [apply E8; auto | reflexivity].
      - intros m []. }
    simpl in H. rewrite Eok in H. simpl in H. rewrite (str_eqb_neq _ _ Nself) in H.
    assert (E : (X', os) = sub_remote X call (resolve_ctx X c) p s r) by (inversion H; reflexivity).
    pose proof (sub_remote_spec X call (resolve_ctx X c) p s r HTX Eok Nself) as Hs. cbv zeta in Hs.
    destruct (str_eq_dec (resolve_ctx X c) (n_name Y)) as [Ey|Ny].
    + rewrite Ey in *. pose proof (dir_sub_X X Y cxy cyx cpx call p s r HD HX Eok) as Hd. cbv zeta in Hd.
      rewrite <- E in Hd, Hs. simpl in Hd, Hs. destruct Hs as (S1 & S2 & S3).
      split; [|split; [apply S1 | split; [apply S1 | exact Hd]]].
      apply (NodeOK_frame X); auto; try apply S1.
      intros key q Hk. destruct (str_eq_dec key (key3 (n_name Y) p s)) as [->|Hne].
      * destruct (slk (key3 (n_name Y) p s) (n_lsubs X)).
        -- destruct S3 as (_ & A2 & _). rewrite A2 in Hk. discriminate.
        -- destruct S3 as (_ & S3). destruct (slk (key3 (n_name Y) p s) (n_pname X)) as [q0|] eqn:Eq0.
           ++ destruct S3 as ((q' & B1 & B2 & B3) & _). rewrite B1 in Hk. inversion Hk; subst. rewrite B3. eapply HX5; eauto.
           ++ destruct (can_send X (n_name Y)); [destruct S3 as (B1 & _) | destruct S3 as (B1 & _)]; rewrite B1 in Hk; inversion Hk; reflexivity.
      * rewrite (proj2 (S2 key Hne)) in Hk. eapply HX5; eauto.
    + rewrite <- E in Hs. simpl in Hs. destruct Hs as (S1 & S2 & S3).
      assert (Hcs : can_send X (resolve_ctx X c) = false).
      { destruct (can_send X (resolve_ctx X c)) eqn:Ec; [|reflexivity]. exfalso. apply Ny. apply HX2. exact Ec. }
      rewrite Hcs in S3.
      assert (Hfacts : same_pid X X' /\ msgs_of os = [] /\ reqids_of os = [] /\
                       (forall q', slk (key3 (resolve_ctx X c) p s) (n_pname X') = Some q' -> pq_ctx q' = n_name Y)).
      { destruct (slk (key3 (resolve_ctx X c) p s) (n_lsubs X)).
        - destruct S3 as (_ & A2 & _ & A4 & A5). rewrite A5. split; [exact A4|]. split; [reflexivity|]. split; [reflexivity|].
          intros q' Hq'. rewrite A2 in Hq'. discriminate.
        - destruct S3 as (_ & S3). destruct (slk (key3 (resolve_ctx X c) p s) (n_pname X)) as [q0|] eqn:Eq0.
          + destruct S3 as ((q' & B1 & B2 & B3) & B4 & B5). rewrite B5. split; [exact B4|]. split; [reflexivity|]. split; [reflexivity|].
            intros q'' Hq''. rewrite B1 in Hq''. inversion Hq''; subst. rewrite B3. eapply HX5; eauto.
          + destruct S3 as (B1 & B2 & B3). rewrite B3. split; [exact B2|]. split; [reflexivity|]. split; [reflexivity|].
            intros q' Hq'. rewrite B1 in Hq'. discriminate. }
      destruct Hfacts as (F1 & F2 & F3 & F4).
      destruct (third_ctx_step X Y (resolve_ctx X c) p s (X', os) HX Eok Nself Ny S1 S2 F1 F2 F3 F4 HT' cxy cyx cpx HD) as [G1 G2].
      split; [exact G1|]. split; [apply S1|]. split; [apply S1 | exact G2].
  - (* IUnsub *)
    destruct (names_ok (resolve_ctx X c) p s) eqn:Eok.
    2: { destruct (local_sub_step _ _ _ _ H) as (E1 & E2 & E3 & E4 & E5 & E6 & E7 & E8); [right; eauto 10|].
         split; [apply (NodeOK_frame X); auto; rewrite E1; exact HX5|]. split; [exact E5|]. split; [exact E4|].
         rewrite E6, E7. apply (dir_frame_X' X); auto.
         - intro c0. unfold can_send. rewrite E4. reflexivity.
         - intro id. rewrite E2. reflexivity.
         - intros p0 s0. unfold Pk. rewrite E1. split; [apply E8; auto | reflexivity].
         - intros m []. }
    destruct (str_eq_dec (resolve_ctx X c) (n_name X)) as [Eself|Nself].
    { destruct (local_sub_step _ _ _ _ H) as (E1 & E2 & E3 & E4 & E5 & E6 & E7 & E8); [right; eauto 10|].
      split; [apply (NodeOK_frame X); auto; rewrite E1; exact HX5|]. split; [exact E5|]. split; [exact E4|].
      rewrite E6, E7. apply (dir_frame_X' X); auto.
      - intro c0. unfold can_send. rewrite E4. reflexivity.
      - intro id. rewrite E2. reflexivity.
      - intros p0 s0. unfold Pk. rewrite E1. split; [apply E8; auto | reflexivity].
      - intros m []. }
    simpl in H. rewrite Eok in H. simpl in H. rewrite (str_eqb_neq _ _ Nself) in H.
    assert (E : (X', os) = unsub_remote X (resolve_ctx X c) p s r) by (inversion H; reflexivity).
    pose proof (unsub_remote_spec X (resolve_ctx X c) p s r HTX Eok Nself) as Hs. cbv zeta in Hs.
    destruct (str_eq_dec (resolve_ctx X c) (n_name Y)) as [Ey|Ny].
    + rewrite Ey in *. pose proof (dir_unsub_X X Y cxy cyx cpx p s r HD HX Eok) as Hd. cbv zeta in Hd.
      rewrite <- E in Hd, Hs. simpl in Hd, Hs. destruct Hs as (S1 & S2 & S3).
      split; [|split; [apply S1 | split; [apply S1 | exact Hd]]].
      apply (NodeOK_frame X); auto; try apply S1.
      intros key q Hk. destruct (str_eq_dec key (key3 (n_name Y) p s)) as [->|Hne].
      * destruct (slk (key3 (n_name Y) p s) (n_lsubs X)) as [l|].
        -- destruct S3 as (A0 & S3). destruct (is_nil (sdel N.eqb r l)).
           ++ destruct S3 as (_ & S3). destruct (can_send X (n_name Y)); [destruct S3 as (B1 & _) | destruct S3 as (B1 & _)];
                rewrite B1 in Hk; inversion Hk; reflexivity.
           ++ destruct S3 as (_ & A2 & _). rewrite A2 in Hk. discriminate.
        -- destruct S3 as (_ & A2 & _). rewrite A2 in Hk. eapply HX5; eauto.
      * rewrite (proj2 (S2 key Hne)) in Hk. eapply HX5; eauto.
    + rewrite <- E in Hs. simpl in Hs. destruct Hs as (S1 & S2 & S3).
      assert (Hcs : can_send X (resolve_ctx X c) = false).
      { destruct (can_send X (resolve_ctx X c)) eqn:Ec; [|reflexivity]. exfalso. apply Ny. apply HX2. exact Ec. }
      rewrite Hcs in S3.
      assert (Hfacts : same_pid X X' /\ msgs_of os = [] /\ reqids_of os = [] /\
                       (forall q', slk (key3 (resolve_ctx X c) p s) (n_pname X') = Some q' -> pq_ctx q' = n_name Y)).
      { destruct (slk (key3 (resolve_ctx X c) p s) (n_lsubs X)) as [l|].
        - destruct S3 as (A0 & S3). destruct (is_nil (sdel N.eqb r l)).
          + destruct S3 as (_ & B1 & B2 & B3). rewrite B3. split; [exact B2|]. split; [reflexivity|]. split; [reflexivity|].
            intros q' Hq'. rewrite B1 in Hq'. discriminate.
          + destruct S3 as (_ & A2 & A3 & A4). rewrite A4. split; [exact A3|]. split; [reflexivity|]. split; [reflexivity|].
            intros q' Hq'. rewrite A2 in Hq'. discriminate.
        - destruct S3 as (_ & A2 & A3 & A4). rewrite A4. split; [exact A3|]. split; [reflexivity|]. split; [reflexivity|].
          intros q' Hq'. rewrite A2 in Hq'. eapply HX5; eauto. }
      destruct Hfacts as (F1 & F2 & F3 & F4).
      destruct (third_ctx_step X Y (resolve_ctx X c) p s (X', os) HX Eok Nself Ny S1 S2 F1 F2 F3 F4 HT' cxy cyx cpx HD) as [G1 G2].
      split; [exact G1|]. split; [apply S1|]. split; [apply S1 | exact G2].
  - (* IObjRemove *)
    simpl in H. assert (E : (X', os) = object_removed (w_objs (sdel str_eqb o (n_objs X)) X) o) by (inversion H; reflexivity).
    destruct (object_removed_spec X o) as (S1 & S2 & S3 & S4 & S5 & S6 & S7 & S8 & S9 & S10).
    rewrite <- E in *. simpl in *.
    split; [apply (NodeOK_frame X); auto; rewrite S1; exact HX5|]. split; [exact S4|]. split; [exact S3|].
    rewrite S7. apply (dir_frame_X' X); auto.
    + intro c. unfold can_send. rewrite S3. reflexivity.
    + intro id. rewrite S2. reflexivity.
    + intros p s. unfold Pk. rewrite S1. split; [apply S8; auto | reflexivity].
    + intros m Hin. destruct (S6 m Hin) as [s' ->]. reflexivity.
Qed.

Lemma send_req_msgs n id q : forall m, In m (msgs_of (snd (send_req n id q))) -> is_req m = true.
Proof.
  unfold send_req. destruct (can_send n (pq_ctx q)); simpl.
  - intros m [<-|[]]. reflexivity.
  - destruct (complete n id false) as [n1 [[id2 q2]|]]; simpl; intros m [].
Qed.

Lemma sub_remote_msgs n call c p s r : forall m, In m (msgs_of (snd (sub_remote n call c p s r))) -> is_req m = true.
Proof.
  unfold sub_remote. destruct (alookup str_eqb (key3 c p s) (n_lsubs n)) as [[|x l]|]; try (simpl; intros m []; fail);
  (destruct (alookup str_eqb (key3 c p s) (n_pname n)); [simpl; intros m []|]);
  unfold new_request; cbv beta iota zeta;
  match goal with |- context [send_req ?a ?b ?c0] => pose proof (send_req_msgs a b c0) as Hs; destruct (send_req a b c0) end;
  simpl in *; intros m Hm; rewrite msgs_of_app in Hm; (apply in_app_iff in Hm as [Hm|Hm]; [apply Hs; exact Hm | destruct Hm]).
Qed.

Lemma unsub_remote_msgs n c p s r : forall m, In m (msgs_of (snd (unsub_remote n c p s r))) -> is_req m = true.
Proof.
  unfold unsub_remote. destruct (remove_local n (key3 c p s) r) as [n1 last].
  destruct last; [|simpl; intros m []].
  destruct (alookup str_eqb (key3 c p s) (n_pname n1)); [simpl; intros m []|].
  unfold new_request. cbv beta iota zeta.
  match goal with |- context [send_req ?a ?b ?c0] => pose proof (send_req_msgs a b c0) as Hs; destruct (send_req a b c0) end.
  simpl in *. intros m Hm. rewrite msgs_of_app in Hm. apply in_app_iff in Hm as [Hm|Hm]; [apply Hs; exact Hm | destruct Hm].
Qed.

Lemma api_Y X Y cxy cyx cpx i Y' os :
  Dir X Y cxy cyx cpx -> NodeOK Y (n_name X) -> label_ok i -> api_input i = true ->
  node_step Y i = Some (Y', os) ->
  Dir X Y' cxy (cyx ++ msgs_of os) cpx.
Proof.
  intros HD HY Hl Hapi H. pose proof HY as (HTY & HY2 & HY3 & HY4 & HY5).
  assert (Hgen : n_rsubs Y' = n_rsubs Y -> n_peers Y' = n_peers Y -> n_name Y' = n_name Y ->
                 (forall m, In m (msgs_of os) -> is_anyreply m = false /\ is_anyremoved m = false) ->
                 Dir X Y' cxy (cyx ++ msgs_of os) cpx).
  { intros E1 E2 E3 Hm. apply (dir_frame_Y X Y); auto.
    - intro c. unfold can_send. rewrite E2. reflexivity.
    - intros p s. unfold Rk. rewrite E1. reflexivity. }
  destruct (quiet_input i) eqn:Hq.
  { destruct (quiet_step _ _ _ _ H Hq) as (E & Ep & Hm & Hr). destruct (tabpart_facts _ _ E) as (E1 & E2 & E3 & E4 & E5 & E6).
    apply Hgen; auto. intros m Hin. destruct (Hm m Hin) as (p & s & a & j & ->). auto. }
  assert (Hreq : (forall m, In m (msgs_of os) -> is_req m = true) ->
                 forall m, In m (msgs_of os) -> is_anyreply m = false /\ is_anyremoved m = false).
  { intros Hr m Hin. specialize (Hr m Hin). destruct m; try discriminate. auto. }
  destruct i; simpl in Hq, Hapi; try discriminate.
  - destruct (names_ok (resolve_ctx Y c) p s) eqn:Eok.
    2: { destruct (local_sub_step _ _ _ _ H) as (E1 & E2 & E3 & E4 & E5 & E6 & E7 & E8); [left; eauto 10|].
         apply Hgen; auto. rewrite E6. intros m []. }
    destruct (str_eq_dec (resolve_ctx Y c) (n_name Y)) as [Eself|Nself].
    { destruct (local_sub_step _ _ _ _ H) as (E1 & E2 & E3 & E4 & E5 & E6 & E7 & E8); [left; eauto 10|].
      apply Hgen; auto. rewrite E6. intros m []. }
    simpl in H. rewrite Eok in H. simpl in H. rewrite (str_eqb_neq _ _ Nself) in H.
    assert (E : (Y', os) = sub_remote Y call (resolve_ctx Y c) p s r) by (inversion H; reflexivity).
    pose proof (sub_remote_spec Y call (resolve_ctx Y c) p s r HTY Eok Nself) as Hs. cbv zeta in Hs.
    pose proof (sub_remote_msgs Y call (resolve_ctx Y c) p s r) as Hm.
    rewrite <- E in Hs, Hm. simpl in Hs, Hm. destruct Hs as (S1 & _).
    apply Hgen; try apply S1. apply Hreq. exact Hm.
  - destruct (names_ok (resolve_ctx Y c) p s) eqn:Eok.
    2: { destruct (local_sub_step _ _ _ _ H) as (E1 & E2 & E3 & E4 & E5 & E6 & E7 & E8); [right; eauto 10|].
         apply Hgen; auto. rewrite E6. intros m []. }
    destruct (str_eq_dec (resolve_ctx Y c) (n_name Y)) as [Eself|Nself].
    { destruct (local_sub_step _ _ _ _ H) as (E1 & E2 & E3 & E4 & E5 & E6 & E7 & E8); [right; eauto 10|].
      apply Hgen; auto. rewrite E6. intros m []. }
    simpl in H. rewrite Eok in H. simpl in H. rewrite (str_eqb_neq _ _ Nself) in H.
    assert (E : (Y', os) = unsub_remote Y (resolve_ctx Y c) p s r) by (inversion H; reflexivity).
    pose proof (unsub_remote_spec Y (resolve_ctx Y c) p s r HTY Eok Nself) as Hs. cbv zeta in Hs.
    pose proof (unsub_remote_msgs Y (resolve_ctx Y c) p s r) as Hm.
    rewrite <- E in Hs, Hm. simpl in Hs, Hm. destruct Hs as (S1 & _).
    apply Hgen; try apply S1. apply Hreq. exact Hm.
  - simpl in H. assert (E : (Y', os) = object_removed (w_objs (sdel str_eqb o (n_objs Y)) Y) o) by (inversion H; reflexivity).
    pose proof (dir_objremove_Y X Y cxy cyx cpx o HD Hl HY2) as Hd. cbv zeta in Hd. rewrite <- E in Hd. exact Hd.
Qed.

(* ================================================================ the two-context system *)
Definition SInv2 (s : sys2) : Prop :=
  forall sd, NodeOK (nd s sd) (n_name (nd s (negb sd))) /\
             Dir (nd s sd) (nd s (negb sd)) (ch s sd) (ch s (negb sd)) (cp s sd).

Lemma route2_spec sd os : forall s,
  nd (route2 sd os s) true = nd s true /\ nd (route2 sd os s) false = nd s false /\
  ch (route2 sd os s) sd = ch s sd ++ msgs_of os /\ ch (route2 sd os s) (negb sd) = ch s (negb sd) /\
  cp (route2 sd os s) sd = cp s sd ++ reqids_of os /\ cp (route2 sd os s) (negb sd) = cp s (negb sd).
Proof.
  induction os as [|o os IH]; intro s.
  - simpl. rewrite !app_nil_r. auto 10.
  - destruct o as [y m|r].
    2: { change (route2 sd (ORes r :: os) s) with (route2 sd os s).
         change (msgs_of (ORes r :: os)) with (msgs_of os). change (reqids_of (ORes r :: os)) with (reqids_of os). apply IH. }
    pose (s0 := w_ch sd (ch s sd ++ [m]) s).
    pose (s1 := match req_id_of m with Some id => w_cp sd (cp s0 sd ++ [id]) s0 | None => s0 end).
    change (route2 sd (OSend y m :: os) s) with (route2 sd os s1).
    destruct (IH s1) as (A1 & A2 & A3 & A4 & A5 & A6).
    assert (B : nd s1 true = nd s true /\ nd s1 false = nd s false /\ ch s1 sd = ch s sd ++ [m] /\
                ch s1 (negb sd) = ch s (negb sd) /\
                cp s1 sd = cp s sd ++ (match req_id_of m with Some id => [id] | None => [] end) /\
                cp s1 (negb sd) = cp s (negb sd)).
    { unfold s1, s0. destruct (req_id_of m); destruct sd; simpl; rewrite ?app_nil_r; auto 10. }
    destruct B as (B1 & B2 & B3 & B4 & B5 & B6).
    rewrite A1, A2, A3, A4, A5, A6, B1, B2, B3, B4, B5, B6.
    change (msgs_of (OSend y m :: os)) with (m :: msgs_of os).
    change (reqids_of (OSend y m :: os)) with ((match req_id_of m with Some id => [id] | None => [] end) ++ reqids_of os).
    rewrite <- !app_assoc. simpl. auto 10.
Qed.

Lemma nd_route2 sd os s x : nd (route2 sd os s) x = nd s x.
Proof. destruct (route2_spec sd os s) as (A1 & A2 & _). destruct x; assumption. Qed.

Definition label2_ok (l : label2) : Prop := match l with L2Node _ i => label_ok i | _ => True end.

Lemma negb_negb sd : negb (negb sd) = sd.
Proof. destruct sd; reflexivity. Qed.

Lemma SInv2_names s : SInv2 s -> n_name (sA s) <> n_name (sB s).
Proof. intro H. destruct (H true) as [(_ & _ & _ & Hne & _) _]. simpl in Hne. congruence. Qed.

(* --- API step --- *)
Lemma step2_node s sd i n' os :
  SInv2 s -> label_ok i -> api_input i = true -> node_step (nd s sd) i = Some (n', os) ->
  SInv2 (route2 sd os (w_nd sd n' s)).
Proof.
  intros HS Hl Hapi H. destruct (HS sd) as [HX HD]. destruct (HS (negb sd)) as [HY HD'].
  rewrite negb_negb in HY, HD'.
  destruct (api_X _ _ _ _ _ _ _ _ HD HX Hl Hapi H) as (G1 & G2 & G3 & G4).
  pose proof (api_Y _ _ _ _ _ _ _ _ HD' HX Hl Hapi H) as G5.
  destruct (route2_spec sd os (w_nd sd n' s)) as (A1 & A2 & A3 & A4 & A5 & A6).
  intro d. destruct (Bool.bool_dec d sd) as [->|Hne].
  - assert (E1 : nd (route2 sd os (w_nd sd n' s)) sd = n') by (rewrite nd_route2; destruct sd; reflexivity).
    assert (E2 : nd (route2 sd os (w_nd sd n' s)) (negb sd) = nd s (negb sd)) by (rewrite nd_route2; destruct sd; reflexivity).
    rewrite E1, E2, A3, A4, A5.
    replace (ch (w_nd sd n' s) sd) with (ch s sd) by (destruct sd; reflexivity).
    replace (ch (w_nd sd n' s) (negb sd)) with (ch s (negb sd)) by (destruct sd; reflexivity).
    replace (cp (w_nd sd n' s) sd) with (cp s sd) by (destruct sd; reflexivity).
    split; assumption.
  - assert (d = negb sd) by (destruct d, sd; try reflexivity; contradiction). subst d. rewrite negb_negb.
    assert (E1 : nd (route2 sd os (w_nd sd n' s)) sd = n') by (rewrite nd_route2; destruct sd; reflexivity).
    assert (E2 : nd (route2 sd os (w_nd sd n' s)) (negb sd) = nd s (negb sd)) by (rewrite nd_route2; destruct sd; reflexivity).
    rewrite E1, E2, A3, A4, A6.
    replace (ch (w_nd sd n' s) sd) with (ch s sd) by (destruct sd; reflexivity).
    replace (ch (w_nd sd n' s) (negb sd)) with (ch s (negb sd)) by (destruct sd; reflexivity).
    replace (cp (w_nd sd n' s) (negb sd)) with (cp s (negb sd)) by (destruct sd; reflexivity).
    rewrite G2. split; assumption.
Qed.

(* --- delivery --- *)
Lemma handle_reply_msgs n id ok : forall m, In m (msgs_of (snd (handle_reply n id ok))) -> is_req m = true.
Proof.
  unfold handle_reply. destruct (complete n id ok) as [n1 [[id2 q2]|]]; simpl; [apply send_req_msgs | intros m []].
Qed.

Lemma handle_reply_node n o id ok :
  NodeOK n o ->
  let r := handle_reply n id ok in
  NodeOK (fst r) o /\ same_side n (fst r).
Proof.
  intros HN r. pose proof HN as (HT & H2 & H3 & H4 & H5).
  pose proof (handle_reply_TInv n id ok HT) as HT'. fold r in HT'.
  destruct (nlk id (n_pid n)) as [key|] eqn:Eid.
  2: { unfold r. rewrite handle_reply_unknown by exact Eid. simpl. split; [exact HN | unfold same_side; auto]. }
  destruct HT as (H0 & (P1 & P2 & P3 & P4) & HPV & HR).
  destruct (P1 _ _ Eid) as [q Eq].
  pose proof (handle_reply_spec n id ok key q (proj1 HN) Eid Eq) as Hs. cbv zeta in Hs. fold r in Hs.
  destruct Hs as (S1 & S2 & S3 & S4). split; [|exact S1].
  apply (NodeOK_frame n); auto; try apply S1.
  intros k q' Hk. destruct (str_eq_dec k key) as [->|Hne].
  - destruct (pq_sub q).
    + destruct S4 as (_ & A & _). rewrite A in Hk. discriminate.
    + destruct (is_nil (pq_recv q)).
      * destruct S4 as (_ & A & _). rewrite A in Hk. discriminate.
      * destruct (can_send n (pq_ctx q)).
        -- cbv zeta in S4. destruct S4 as (_ & A & _). rewrite A in Hk. inversion Hk; subst. simpl. eapply H5; eauto.
        -- destruct S4 as (_ & A & _). rewrite A in Hk. discriminate.
  - rewrite (proj2 (S2 k Hne)) in Hk. eapply H5; eauto.
Qed.

Lemma step2_deliver s sd m rest n' os :
  SInv2 s -> ch s sd = m :: rest -> up s (negb sd) = true ->
  node_step (nd s (negb sd)) (IRecv (n_name (nd s sd)) m) = Some (n', os) ->
  let rc := negb sd in
  let s1 := w_ch sd rest s in
  let s2 := match reply_id_of m with Some id => w_cp rc (sdel N.eqb id (cp s1 rc)) s1 | None => s1 end in
  SInv2 (route2 (negb sd) os (w_nd (negb sd) n' s2)).
Proof.
  intros HS Hch Hup H rc s1 s2. subst rc.
  destruct (HS sd) as [HA HDa]. destruct (HS (negb sd)) as [HB HDb]. rewrite negb_negb in HB, HDb.
  rewrite Hch in HDa, HDb. unfold up in Hup. rewrite negb_negb in Hup.
  set (A := nd s sd) in *. set (B := nd s (negb sd)) in *.
  (* what the final state looks like *)
  destruct (route2_spec (negb sd) os (w_nd (negb sd) n' s2)) as (R1 & R2 & R3 & R4 & R5 & R6).
  assert (F1 : nd (route2 (negb sd) os (w_nd (negb sd) n' s2)) (negb sd) = n').
  { rewrite nd_route2. unfold s2, s1. destruct (reply_id_of m); destruct sd; reflexivity. }
  assert (F2 : nd (route2 (negb sd) os (w_nd (negb sd) n' s2)) sd = A).
  { rewrite nd_route2. unfold s2, s1, A. destruct (reply_id_of m); destruct sd; reflexivity. }
  assert (F3 : ch (route2 (negb sd) os (w_nd (negb sd) n' s2)) (negb sd) = ch s (negb sd) ++ msgs_of os).
  { rewrite R3. f_equal. unfold s2, s1. destruct (reply_id_of m); destruct sd; reflexivity. }
  assert (F4 : ch (route2 (negb sd) os (w_nd (negb sd) n' s2)) sd = rest).
  { rewrite negb_negb in R4. rewrite R4. unfold s2, s1. destruct (reply_id_of m); destruct sd; reflexivity. }
  assert (F5 : cp (route2 (negb sd) os (w_nd (negb sd) n' s2)) (negb sd) =
               (match reply_id_of m with Some id => sdel N.eqb id (cp s (negb sd)) | None => cp s (negb sd) end) ++ reqids_of os).
  { rewrite R5. f_equal. unfold s2, s1. destruct (reply_id_of m); destruct sd; reflexivity. }
  assert (F6 : cp (route2 (negb sd) os (w_nd (negb sd) n' s2)) sd = cp s sd).
  { rewrite negb_negb in R6. rewrite R6. unfold s2, s1. destruct (reply_id_of m); destruct sd; reflexivity. }
  assert (HTB : TInv B) by apply HB.
  pose proof (step_TInv _ _ _ _ H HTB) as HT'.
  (* per message kind: the receiver's node facts and the two directions *)
  assert (Hmain : NodeOK n' (n_name A) /\ n_name n' = n_name B /\
                  Dir A n' rest (ch s (negb sd) ++ msgs_of os) (cp s sd) /\
                  Dir n' A (ch s (negb sd) ++ msgs_of os) rest
                      ((match reply_id_of m with Some id => sdel N.eqb id (cp s (negb sd)) | None => cp s (negb sd) end) ++ reqids_of os)).
  { destruct m as [p0 s0 a j|id p0 s0 f|id ok|p0 s0]; simpl in H; simpl reply_id_of.
    - (* signal *)
      assert (E : n' = deliver_remote B (n_name A) p0 s0 a j /\ os = []) by (inversion H; auto). destruct E as [-> ->].
      assert (T : tabpart (deliver_remote B (n_name A) p0 s0 a j) = tabpart B /\ n_peers (deliver_remote B (n_name A) p0 s0 a j) = n_peers B).
      { unfold deliver_remote. destruct (alookup str_eqb (key3 (n_name A) p0 s0) (n_lsubs B)); auto. }
      destruct T as [T Tp]. destruct (tabpart_facts _ _ T) as (E1 & E2 & E3 & E4 & E5 & E6).
      split; [apply (NodeOK_frame B); auto; rewrite E3; apply HB|]. split; [exact E1|]. simpl. split.
      + apply (dir_frame_Y A B); [eapply dir_pop_cxy; [exact HDa | reflexivity] | exact E1 | | | intros m0 []].
        * intro c. unfold can_send. rewrite Tp. reflexivity.
        * intros pp ss. unfold Rk. rewrite E6. reflexivity.
      + apply (dir_frame_X' B); [eapply dir_pop_cyx; [exact HDb | reflexivity | reflexivity] | exact E1 | | | | intros m0 []].
        * intro c. unfold can_send. rewrite Tp. reflexivity.
        * intro id. rewrite E2. reflexivity.
        * intros pp ss. unfold Lk, Pk. rewrite E5, E3. auto.
    - (* subscribe / unsubscribe request *)
      assert (E : (n', os) = handle_sub_request B (n_name A) id p0 s0 f) by (inversion H; reflexivity).
      pose proof (dir_deliver_req A B id p0 s0 f rest (ch s (negb sd)) (cp s sd) HDa HA Hup) as Hd. cbv zeta in Hd.
      destruct (sub_request_spec B (n_name A) id p0 s0 f) as (S1 & S2 & S3 & S4 & S5 & S6 & S7 & S8 & S9 & S10).
      rewrite <- E in *. simpl in *.
      split; [apply (NodeOK_frame B); auto; rewrite S2; apply HB|]. split; [exact S5|]. split; [exact Hd|].
      assert (Hr : reqids_of os = []) by (rewrite S8; unfold send_to; destruct (can_send B (n_name A)); reflexivity).
      rewrite Hr. apply (dir_frame_X' B); [eapply dir_pop_cyx; [exact HDb | reflexivity | reflexivity] | exact S5 | | | |].
      * intro c. unfold can_send. rewrite S4. reflexivity.
      * intro i. rewrite S3. reflexivity.
      * intros pp ss. unfold Lk, Pk. rewrite S1, S2. auto.
      * intros m0 Hm0. rewrite S8 in Hm0. unfold send_to in Hm0. destruct (can_send B (n_name A)); simpl in Hm0; [|destruct Hm0].
        destruct Hm0 as [<-|[]]. reflexivity.
    - (* reply *)
      assert (E : (n', os) = handle_reply B id ok) by (inversion H; reflexivity).
      pose proof (dir_deliver_reply B A (ch s (negb sd)) id ok rest (cp s (negb sd)) HDb HB Hup) as Hd. cbv zeta in Hd.
      destruct (handle_reply_node B (n_name A) id ok HB) as [N1 N2].
      pose proof (handle_reply_msgs B id ok) as Hm.
      rewrite <- E in *. simpl in *.
      split; [exact N1|]. split; [apply N2|]. split; [|exact Hd].
      apply (dir_frame_Y A B); [eapply dir_pop_cxy; [exact HDa | reflexivity] | apply N2 | | |].
      * intro c. apply can_send_same. exact N2.
      * intros pp ss. unfold Rk. destruct N2 as (N2 & _). rewrite N2. reflexivity.
      * intros m0 Hm0. specialize (Hm m0 Hm0). destruct m0; try discriminate. auto.
    - (* removed *)
      assert (E : n' = w_lsubs (aremove str_eqb (key3 (n_name A) p0 s0) (n_lsubs B)) B /\ os = []) by (inversion H; auto).
      destruct E as [-> ->]. simpl.
      split; [apply (NodeOK_frame B); auto; apply HB|]. split; [reflexivity|]. split.
      + apply (dir_frame_Y A B); [eapply dir_pop_cxy; [exact HDa | reflexivity] | reflexivity | | | intros m0 []].
        * intro c. reflexivity.
        * intros pp ss. reflexivity.
      + rewrite !app_nil_r. apply dir_deliver_removed; assumption. }
  destruct Hmain as (M1 & M2 & M3 & M4).
  intro d. destruct (Bool.bool_dec d sd) as [->|Hne].
  - rewrite F1, F2, F3, F4, F6. rewrite M2. split; [exact HA | exact M3].
  - assert (d = negb sd) by (destruct d, sd; try reflexivity; contradiction). subst d. rewrite negb_negb.
    rewrite F1, F2, F3, F4, F5. split; [exact M1 | exact M4].
Qed.

(* --- connect --- *)
Lemma can_send_sadd n x c : can_send (w_peers (sadd str_eqb x (n_peers n)) n) c = str_eqb c x || can_send n c.
Proof. unfold can_send. simpl. apply smem_sadd_S. Qed.

Lemma step2_connect s :
  SInv2 s -> up s true = false -> up s false = false ->
  SInv2 (w_ch true [] (w_ch false [] (w_nd false (w_peers (sadd str_eqb (n_name (sA s)) (n_peers (sB s))) (sB s))
                                        (w_nd true (w_peers (sadd str_eqb (n_name (sB s)) (n_peers (sA s))) (sA s)) s)))).
Proof.
  intros HS Hua Hub. destruct (HS true) as [HA HDa]. destruct (HS false) as [HB HDb]. simpl in *. unfold up in *. simpl in *.
  set (A' := w_peers (sadd str_eqb (n_name (sB s)) (n_peers (sA s))) (sA s)).
  set (B' := w_peers (sadd str_eqb (n_name (sA s)) (n_peers (sB s))) (sB s)).
  assert (NA : NodeOK A' (n_name (sB s))).
  { destruct HA as (H1 & H2 & H3 & H4 & H5). unfold NodeOK. split; [exact H1|]. split; [|auto].
    intros c Hc. unfold A' in Hc. rewrite can_send_sadd in Hc. apply orb_true_iff in Hc as [Hc|Hc]; [apply str_eqb_spec; exact Hc | apply H2; exact Hc]. }
  assert (NB : NodeOK B' (n_name (sA s))).
  { destruct HB as (H1 & H2 & H3 & H4 & H5). unfold NodeOK. split; [exact H1|]. split; [|auto].
    intros c Hc. unfold B' in Hc. rewrite can_send_sadd in Hc. apply orb_true_iff in Hc as [Hc|Hc]; [apply str_eqb_spec; exact Hc | apply H2; exact Hc]. }
  intros [|]; simpl.
  - split; [exact NA|]. eapply (dir_connect (sA s) (sB s)); eauto.
  - split; [exact NB|]. eapply (dir_connect (sB s) (sA s)); eauto.
Qed.

(* --- close --- *)
Lemma step2_close s sd :
  SInv2 s -> up s sd = true ->
  let n1 := peer_removed (w_peers (sdel str_eqb (n_name (nd s (negb sd))) (n_peers (nd s sd))) (nd s sd)) (n_name (nd s (negb sd))) in
  let r := err_replies n1 (cp s sd) in
  SInv2 (route2 sd (snd r) (w_cp sd [] (w_nd sd (fst r) s))).
Proof.
  intros HS Hup n1 r. destruct (HS sd) as [HX HDx]. destruct (HS (negb sd)) as [HY HDy]. rewrite negb_negb in HY, HDy.
  set (X := nd s sd) in *. set (Y := nd s (negb sd)) in *.
  pose proof HX as (HTX & HX2 & HX3 & HX4 & HX5).
  destruct (peer_removed_spec X (n_name Y) HX2) as (P1 & P2 & P3 & P4 & P5 & P6 & P7 & P8 & P9). fold n1 in P1, P2, P3, P4, P5, P6, P7, P8, P9.
  assert (HT1 : TInv n1).
  { assert (Hst : node_step X (IPeerRemoved (n_name Y)) = Some (n1, [])) by reflexivity. eapply step_TInv; eauto. }
  pose proof (err_replies_down (cp s sd) n1 HT1 P1) as Hd. cbv zeta in Hd. fold r in Hd.
  destruct Hd as (E1 & E2 & E3 & E4 & E5 & E6). rewrite E1.
  assert (Hn2 : n_name (fst r) = n_name X) by (destruct E2 as (_ & _ & E2 & _); congruence).
  assert (Hc2 : forall c, can_send (fst r) c = false) by (intro c; rewrite (can_send_same n1 (fst r) c E2); apply P1).
  assert (Hpid : forall id, nlk id (n_pid (fst r)) = None).
  { intro id. destruct (nlk id (n_pid n1)) as [key|] eqn:Ek; [|apply E6; exact Ek].
    apply E5. destruct HDx as (_ & _ & D3 & _). rewrite P3 in Ek. eapply D3; eauto. }
  assert (NX : NodeOK (fst r) (n_name Y)).
  { unfold NodeOK. rewrite Hn2. split; [exact E3|]. split; [intros c Hc; rewrite Hc2 in Hc; discriminate|]. split; [exact HX3|]. split; [exact HX4|].
    intros key q Hk. rewrite (pname_empty_of_pid (fst r) E3 Hpid key) in Hk. discriminate. }
  simpl route2.
  intro d. destruct (Bool.bool_dec d sd) as [->|Hne].
  - replace (nd (w_cp sd [] (w_nd sd (fst r) s)) sd) with (fst r) by (destruct sd; reflexivity).
    replace (nd (w_cp sd [] (w_nd sd (fst r) s)) (negb sd)) with Y by (unfold Y; destruct sd; reflexivity).
    replace (ch (w_cp sd [] (w_nd sd (fst r) s)) sd) with (ch s sd) by (destruct sd; reflexivity).
    replace (ch (w_cp sd [] (w_nd sd (fst r) s)) (negb sd)) with (ch s (negb sd)) by (destruct sd; reflexivity).
    replace (cp (w_cp sd [] (w_nd sd (fst r) s)) sd) with (@nil N) by (destruct sd; reflexivity).
    split; [exact NX|]. apply (dir_close_X X (fst r) Y _ _ (cp s sd)); auto.
    intros p s0. unfold Lk. rewrite E4. apply P7.
  - assert (d = negb sd) by (destruct d, sd; try reflexivity; contradiction). subst d. rewrite negb_negb.
    replace (nd (w_cp sd [] (w_nd sd (fst r) s)) sd) with (fst r) by (destruct sd; reflexivity).
    replace (nd (w_cp sd [] (w_nd sd (fst r) s)) (negb sd)) with Y by (unfold Y; destruct sd; reflexivity).
    replace (ch (w_cp sd [] (w_nd sd (fst r) s)) sd) with (ch s sd) by (destruct sd; reflexivity).
    replace (ch (w_cp sd [] (w_nd sd (fst r) s)) (negb sd)) with (ch s (negb sd)) by (destruct sd; reflexivity).
    replace (cp (w_cp sd [] (w_nd sd (fst r) s)) (negb sd)) with (cp s (negb sd)) by (destruct sd; reflexivity).
    rewrite Hn2. split; [exact HY|]. apply (dir_close_Y Y X); auto.
    intros p s0. unfold Rk. destruct E2 as (E2 & _). rewrite E2. apply P9.
Qed.

(* --- every step --- *)
Lemma step2_SInv2 s l s' os : step2 s l = Some (s', os) -> label2_ok l -> SInv2 s -> SInv2 s'.
Proof.
  intros H Hl HS. destruct l as [sd i|sd| |sd]; unfold step2 in H.
  - destruct (api_input i) eqn:Hapi; [|discriminate].
    destruct (node_step (nd s sd) i) as [[n' os']|] eqn:E; [|discriminate]. inversion H; subst.
    eapply step2_node; eauto.
  - destruct (ch s sd) as [|m rest] eqn:Ec; [discriminate|].
    destruct (up s (negb sd)) eqn:Hup; [|discriminate]. cbv zeta in H.
    match type of H with match node_step ?a ?b with _ => _ end = _ => destruct (node_step a b) as [[n' os']|] eqn:E; [|discriminate] end.
    inversion H; subst.
    assert (E' : node_step (nd s (negb sd)) (IRecv (n_name (nd s sd)) m) = Some (n', os)).
    { rewrite <- E. f_equal; destruct (reply_id_of m); destruct sd; reflexivity. }
    exact (step2_deliver s sd m rest n' os HS Ec Hup E').
  - destruct (negb (up s true) && negb (up s false)) eqn:Eu; [|discriminate].
    apply andb_true_iff in Eu as [Eu1 Eu2]. apply negb_true_iff in Eu1, Eu2.
    simpl in H. inversion H; subst. apply step2_connect; assumption.
  - destruct (up s sd) eqn:Hup; [|discriminate]. simpl in H.
    pose proof (step2_close s sd HS Hup) as Hc. cbv zeta in Hc.
    destruct (err_replies _ (cp s sd)) as [n2 os2]. inversion H; subst. exact Hc.
Qed.

Lemma run2_SInv2 ls : forall s s', run2 s ls = Some s' -> Forall label2_ok ls -> SInv2 s -> SInv2 s'.
Proof.
  induction ls as [|l r IH]; simpl; intros s s' H Hf HS.
  - inversion H; subst. exact HS.
  - destruct (step2 s l) as [[s1 os]|] eqn:E; [|discriminate]. inversion Hf; subst.
    eapply IH; eauto. eapply step2_SInv2; eauto.
Qed.

Lemma init2_SInv2 a b oa ob : nodot a = true -> nodot b = true -> a <> b -> SInv2 (init2 a b oa ob).
Proof.
  intros Ha Hb Hne.
  assert (Hn : forall x o objs, nodot x = true -> nodot o = true -> o <> x -> NodeOK (init_node x objs) o).
  { intros x o objs Hx Ho Hox. unfold NodeOK. split; [apply init_TInv; exact Hx|]. split; [intros c Hc; discriminate|].
    split; [exact Ho|]. split; [exact Hox|]. intros key q Hk. discriminate. }
  assert (Hd : forall x y ox oy, Dir (init_node x ox) (init_node y oy) [] [] []).
  { intros x y ox oy. unfold Dir. simpl.
    split; [intros _; split; [reflexivity|]; split; reflexivity|]. split; [intros _ p s; reflexivity|].
    split; [intros id key H; discriminate|]. split; [intros _ id ok []|]. split; [intros id p s f []|]. split; [intros p s []|].
    intros p s Hp. unfold KeyInv. simpl. discriminate. }
  intros [|]; simpl; (split; [apply Hn; auto | apply Hd]).
Qed.

(* ================================================================ the theorems *)
Definition reach2 (a b : name) (oa ob : list name) (s : sys2) : Prop :=
  exists ls, run2 (init2 a b oa ob) ls = Some s /\ Forall label2_ok ls.

Lemma reach2_SInv2 a b oa ob s : nodot a = true -> nodot b = true -> a <> b -> reach2 a b oa ob s -> SInv2 s.
Proof. intros Ha Hb Hne (ls & Hr & Hf). eapply run2_SInv2; eauto. apply init2_SInv2; assumption. Qed.

(* no request outstanding at side sd *)
Definition no_pending (s : sys2) (sd : bool) : Prop := n_pid (nd s sd) = [] .

Lemma quiescent a b oa ob s sd p sg :
  nodot a = true -> nodot b = true -> a <> b -> reach2 a b oa ob s ->
  ch s true = [] -> ch s false = [] -> n_pid (nd s sd) = [] ->
  up s sd = up s (negb sd) ->
  nodot p = true ->
  (Rk (nd s (negb sd)) (n_name (nd s sd)) p sg = true <->
   Lk (nd s sd) (n_name (nd s (negb sd))) p sg <> None).
Proof.
  intros Ha Hb Hne Hr Hc1 Hc2 Hpid Hup Hp. simpl in Hc1, Hc2.
  pose proof (reach2_SInv2 a b oa ob s Ha Hb Hne Hr) as HS. destruct (HS sd) as [HX HD].
  destruct HD as (D1 & D2 & D3 & D5 & D6 & D7 & DI). unfold up in Hup. rewrite negb_negb in Hup.
  destruct (can_send (nd s sd) (n_name (nd s (negb sd)))) eqn:Hu.
  - pose proof (DI p sg Hp) as K. unfold KeyInv in K. specialize (K Hu).
    assert (HP : Pk (nd s sd) (n_name (nd s (negb sd))) p sg = None).
    { unfold Pk. apply pname_empty_of_pid; [apply HX|]. intro id. rewrite Hpid. reflexivity. }
    rewrite HP in K. destruct K as [_ K]. specialize (K (eq_sym Hup)).
    replace (ch s (negb sd)) with (@nil msg) in K by (destruct sd; simpl; congruence). simpl in K. exact K.
  - destruct (D1 eq_refl) as (_ & A2 & _). rewrite A2. rewrite (D2 (eq_sym Hup)). split; [discriminate | intro H; exfalso; apply H; reflexivity].
Qed.

(* a reply that a context is about to read always belongs to one of its pending requests *)
Lemma reply_known a b oa ob s sd id ok :
  nodot a = true -> nodot b = true -> a <> b -> reach2 a b oa ob s ->
  up s sd = true -> In (MSubReply id ok) (ch s (negb sd)) ->
  exists key q, nlk id (n_pid (nd s sd)) = Some key /\ slk key (n_pname (nd s sd)) = Some q.
Proof.
  intros Ha Hb Hne Hr Hu Hin.
  pose proof (reach2_SInv2 a b oa ob s Ha Hb Hne Hr) as HS. destruct (HS sd) as [HX HD].
  destruct HD as (_ & _ & _ & D5 & _). destruct (D5 Hu id ok Hin) as [key Hk].
  destruct (NodeOK_pending _ _ _ _ HX Hk) as (q & Hq & _). eauto.
Qed.

(* when nothing is in flight, nothing is pending: no subscriber is left waiting *)
Lemma empty_channels_no_pending a b oa ob s sd :
  nodot a = true -> nodot b = true -> a <> b -> reach2 a b oa ob s ->
  ch s true = [] -> ch s false = [] ->
  forall id, nlk id (n_pid (nd s sd)) = None.
Proof.
  intros Ha Hb Hne Hr Hc1 Hc2 id. simpl in Hc1, Hc2.
  pose proof (reach2_SInv2 a b oa ob s Ha Hb Hne Hr) as HS. destruct (HS sd) as [HX HD].
  destruct HD as (D1 & D2 & D3 & D5 & D6 & D7 & DI).
  destruct (can_send (nd s sd) (n_name (nd s (negb sd)))) eqn:Hu; [|apply (D1 eq_refl)].
  destruct (nlk id (n_pid (nd s sd))) as [key|] eqn:Ek; [|reflexivity]. exfalso.
  destruct (NodeOK_pending _ _ _ _ HX Ek) as (q & Hq & Hkey & Hpub & _).
  pose proof (DI (pq_pub q) (pq_sig q) Hpub) as K. unfold KeyInv in K. specialize (K Hu).
  unfold Pk in K. rewrite <- Hkey, Hq in K. destruct K as (id0 & _ & [(Ka & _)|(_ & pre & ok & suf & E & _)]).
  - replace (ch s sd) with (@nil msg) in Ka by (destruct sd; simpl; congruence). discriminate.
  - replace (ch s (negb sd)) with (@nil msg) in E by (destruct sd; simpl; congruence). destruct pre; discriminate.
Qed.

(* after a context has closed (or lost) the connection nothing about the peer is left in it *)
Lemma closed_end_clean a b oa ob s sd :
  nodot a = true -> nodot b = true -> a <> b -> reach2 a b oa ob s -> up s sd = false ->
  (forall id, nlk id (n_pid (nd s sd)) = None) /\
  (forall p sg, Lk (nd s sd) (n_name (nd s (negb sd))) p sg = None) /\
  (forall p sg, Rk (nd s sd) (n_name (nd s (negb sd))) p sg = false) /\
  cp s sd = [].
Proof.
  intros Ha Hb Hne Hr Hu.
  pose proof (reach2_SInv2 a b oa ob s Ha Hb Hne Hr) as HS. destruct (HS sd) as [HX HD]. destruct (HS (negb sd)) as [_ HD'].
  rewrite negb_negb in HD'. destruct HD as (D1 & _). destruct HD' as (_ & D2 & _). unfold up in Hu.
  destruct (D1 Hu) as (A1 & A2 & A3). auto.
Qed.
