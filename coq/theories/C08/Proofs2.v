(* C08 — the two-context invariant and the quiescence theorem. *)
From Coq Require Import List NArith ZArith Bool Arith Lia.
Require Import QV.C07.Model QV.C07.ProofsLib QV.C07.Proofs QV.C08.Proofs QV.C08.Effects.
Import ListNotations.
Open Scope N_scope.

Definition is_kreq (p s : name) (m : msg) : bool :=
  match m with MSubReq _ p' s' _ => str_eqb p p' && str_eqb s s' | _ => false end.
Definition is_req (m : msg) : bool := match m with MSubReq _ _ _ _ => true | _ => false end.
Definition is_reply (id : N) (m : msg) : bool := match m with MSubReply id' _ => N.eqb id id' | _ => false end.
Definition is_anyreply (m : msg) : bool := match m with MSubReply _ _ => true | _ => false end.
Definition is_removed (p s : name) (m : msg) : bool :=
  match m with MRemoved p' s' => str_eqb p p' && str_eqb s s' | _ => false end.
Definition is_anyremoved (m : msg) : bool := match m with MRemoved _ _ => true | _ => false end.

(* a node whose only possible peer is [o] *)
Definition NodeOK (n : node) (o : name) : Prop :=
  TInv n /\ (forall c, can_send n c = true -> c = o) /\ nodot o = true /\ o <> n_name n /\
  (forall key q, slk key (n_pname n) = Some q -> pq_ctx q = o).

(* the protocol state of one signal (p, s) published by Y, as seen from subscriber X *)
Definition KeyInv (X Y : node) (cxy cyx : list msg) (p s : name) : Prop :=
  let xn := n_name X in let yn := n_name Y in
  can_send X yn = true ->
  match Pk X yn p s with
  | None =>
      filter (is_kreq p s) cxy = [] /\
      (can_send Y xn = true ->
         if existsb (is_removed p s) cyx then Rk Y xn p s = false
         else (Rk Y xn p s = true <-> Lk X yn p s <> None))
  | Some q =>
      exists id, nlk id (n_pid X) = Some (key3 yn p s) /\
        ((filter (is_kreq p s) cxy = [MSubReq id p s (pq_sub q)] /\ existsb (is_reply id) cyx = false /\
          (pq_sub q = true -> Rk Y xn p s = false))
         \/
         (filter (is_kreq p s) cxy = [] /\
          exists pre ok suf, cyx = pre ++ MSubReply id ok :: suf /\
            existsb (is_reply id) pre = false /\ existsb (is_reply id) suf = false /\
            (can_send Y xn = true -> Rk Y xn p s = pq_sub q && ok && negb (existsb (is_removed p s) suf))))
  end.

Definition Dir (X Y : node) (cxy cyx : list msg) (cpx : list N) : Prop :=
  let xn := n_name X in let yn := n_name Y in
  (can_send X yn = false -> (forall id, nlk id (n_pid X) = None) /\ (forall p s, Lk X yn p s = None) /\ cpx = []) /\
  (can_send Y xn = false -> forall p s, Rk Y xn p s = false) /\
  (forall id key, nlk id (n_pid X) = Some key -> In id cpx) /\
  (can_send X yn = true -> forall id ok, In (MSubReply id ok) cyx -> exists key, nlk id (n_pid X) = Some key) /\
  (forall id p s f, In (MSubReq id p s f) cxy -> nodot p = true /\ nodot s = true) /\
  (forall p s, In (MRemoved p s) cyx -> nodot p = true) /\
  (forall p s, nodot p = true -> nodot s = true -> KeyInv X Y cxy cyx p s).

Lemma filter_app_nil {A} (f : A -> bool) l app : (forall m, In m app -> f m = false) -> filter f (l ++ app) = filter f l.
Proof.
  intro H. rewrite filter_app. replace (filter f app) with (@nil A); [apply app_nil_r|].
  symmetry. induction app as [|m app IH]; [reflexivity|]. simpl. rewrite (H m (or_introl eq_refl)).
  apply IH. intros m' Hm'. apply H. right. exact Hm'.
Qed.

Lemma existsb_app_false {A} (f : A -> bool) l app : (forall m, In m app -> f m = false) -> existsb f (l ++ app) = existsb f l.
Proof.
  intro H. rewrite existsb_app. replace (existsb f app) with false; [apply orb_false_r|].
  symmetry. destruct (existsb f app) eqn:E; [|reflexivity]. apply existsb_exists in E as [m [Hm Hf]]. rewrite (H m Hm) in Hf. discriminate.
Qed.

Lemma is_kreq_req p s m : is_req m = false -> is_kreq p s m = false.
Proof. destruct m; simpl; congruence. Qed.
Lemma is_reply_any id m : is_anyreply m = false -> is_reply id m = false.
Proof. destruct m; simpl; congruence. Qed.
Lemma is_removed_any p s m : is_anyremoved m = false -> is_removed p s m = false.
Proof. destruct m; simpl; congruence. Qed.

(* ---- X changes nothing that concerns Y's signals; it may append non-requests to cxy ---- *)
Lemma dir_frame_X X X' Y cxy cyx cpx app :
  Dir X Y cxy cyx cpx ->
  n_name X' = n_name X -> (forall c, can_send X' c = can_send X c) -> same_pid X X' ->
  (forall p s, Lk X' (n_name Y) p s = Lk X (n_name Y) p s /\ Pk X' (n_name Y) p s = Pk X (n_name Y) p s) ->
  (forall m, In m app -> is_req m = false) ->
  Dir X' Y (cxy ++ app) cyx cpx.
Proof.
  intros (D1 & D2 & D3 & D5 & D6 & D7 & DI) Hn Hc Hpid Hk Happ. unfold Dir. rewrite Hn. repeat rewrite Hc.
  split; [|split; [|split; [|split; [|split; [|split]]]]].
  - intro Hd. destruct (D1 Hd) as (A1 & A2 & A3). split; [intro id; rewrite Hpid; apply A1|]. split; [intros p s; rewrite (proj1 (Hk p s)); apply A2 | exact A3].
  - exact D2.
  - intros id key H. rewrite Hpid in H. eapply D3; eauto.
  - intros Hu id ok Hin. destruct (D5 Hu id ok Hin) as [key Hkey]. exists key. rewrite Hpid. exact Hkey.
  - intros id p s f Hin. apply in_app_iff in Hin as [Hin|Hin]; [eapply D6; eauto|]. specialize (Happ _ Hin). discriminate.
  - exact D7.
  - intros p s Hp Hs. specialize (DI p s Hp Hs). unfold KeyInv in *. rewrite Hn. repeat rewrite Hc. intro Hu. specialize (DI Hu).
    destruct (Hk p s) as [HL HP]. rewrite HP, HL.
    rewrite (filter_app_nil (is_kreq p s)) by (intros m Hm; apply is_kreq_req, Happ, Hm).
    destruct (Pk X (n_name Y) p s) as [q|]; [|exact DI].
    destruct DI as (id & Hid & Hcase). exists id. rewrite Hpid. split; [exact Hid | exact Hcase].
Qed.

(* ---- Y changes nothing that concerns X's subscriptions; it may append non-replies, non-removed to cyx ---- *)
Lemma dir_frame_Y X Y Y' cxy cyx cpx app :
  Dir X Y cxy cyx cpx ->
  n_name Y' = n_name Y -> (forall c, can_send Y' c = can_send Y c) ->
  (forall p s, Rk Y' (n_name X) p s = Rk Y (n_name X) p s) ->
  (forall m, In m app -> is_anyreply m = false /\ is_anyremoved m = false) ->
  Dir X Y' cxy (cyx ++ app) cpx.
Proof.
  intros (D1 & D2 & D3 & D5 & D6 & D7 & DI) Hn Hc HR Happ. unfold Dir. rewrite Hn. repeat rewrite Hc.
  split; [|split; [|split; [|split; [|split; [|split]]]]].
  - exact D1.
  - intros Hd p s. rewrite HR. apply D2. exact Hd.
  - exact D3.
  - intros Hu id ok Hin. apply in_app_iff in Hin as [Hin|Hin]; [eapply D5; eauto|]. destruct (Happ _ Hin) as [H _]. discriminate.
  - exact D6.
  - intros p s Hin. apply in_app_iff in Hin as [Hin|Hin]; [eapply D7; eauto|]. destruct (Happ _ Hin) as [_ H]. discriminate.
  - intros p s Hp Hs. specialize (DI p s Hp Hs). unfold KeyInv in *. rewrite Hn. repeat rewrite Hc. intro Hu. specialize (DI Hu).
    rewrite HR.
    assert (Hrm : forall l, existsb (is_removed p s) (l ++ app) = existsb (is_removed p s) l)
      by (intro l; apply existsb_app_false; intros m Hm; apply is_removed_any, (Happ m Hm)).
    assert (Hrp : forall id l, existsb (is_reply id) (l ++ app) = existsb (is_reply id) l)
      by (intros id l; apply existsb_app_false; intros m Hm; apply is_reply_any, (Happ m Hm)).
    destruct (Pk X (n_name Y) p s) as [q|].
    + destruct DI as (id & Hid & [Ha|Hb]); exists id; (split; [exact Hid|]).
      * left. rewrite Hrp. exact Ha.
      * right. destruct Hb as (K & pre & ok & suf & E & B1 & B2 & B3). split; [exact K|].
        exists pre, ok, (suf ++ app). rewrite E, <- app_assoc. simpl. split; [reflexivity|].
        split; [exact B1|]. split; [rewrite Hrp; exact B2|]. rewrite Hrm. exact B3.
    + rewrite Hrm. exact DI.
Qed.

(* ---- taking an irrelevant message off a channel ---- *)
Lemma dir_pop_cxy X Y m rest cyx cpx : Dir X Y (m :: rest) cyx cpx -> is_req m = false -> Dir X Y rest cyx cpx.
Proof.
  intros (D1 & D2 & D3 & D5 & D6 & D7 & DI) Hm. unfold Dir.
  split; [exact D1|]. split; [exact D2|]. split; [exact D3|]. split; [exact D5|].
  split; [intros id p s f Hin; eapply D6; right; exact Hin|]. split; [exact D7|].
  intros p s Hp Hs. specialize (DI p s Hp Hs). unfold KeyInv in *. intro Hu. specialize (DI Hu).
  simpl in DI. rewrite (is_kreq_req p s m Hm) in DI. exact DI.
Qed.

Lemma dir_pop_cyx X Y cxy m rest cpx :
  Dir X Y cxy (m :: rest) cpx -> is_anyreply m = false -> is_anyremoved m = false -> Dir X Y cxy rest cpx.
Proof.
  intros (D1 & D2 & D3 & D5 & D6 & D7 & DI) Hm1 Hm2. unfold Dir.
  split; [exact D1|]. split; [exact D2|]. split; [exact D3|].
  split; [intros Hu id ok Hin; eapply D5; [exact Hu | right; exact Hin]|].
  split; [exact D6|]. split; [intros p s Hin; eapply D7; right; exact Hin|].
  intros p s Hp Hs. specialize (DI p s Hp Hs). unfold KeyInv in *. intro Hu. specialize (DI Hu).
  destruct (Pk X (n_name Y) p s) as [q|].
  - destruct DI as (id & Hid & [Ha|Hb]); exists id; (split; [exact Hid|]).
    + left. simpl in Ha. rewrite (is_reply_any id m Hm1) in Ha. exact Ha.
    + right. destruct Hb as (K & pre & ok & suf & E & B1 & B2 & B3). split; [exact K|].
      destruct pre as [|m' pre'].
      * simpl in E. inversion E; subst. discriminate.
      * simpl in E. inversion E; subst. exists pre', ok, suf. split; [reflexivity|].
        simpl in B1. apply orb_false_iff in B1 as [_ B1]. auto.
  - simpl in DI. rewrite (is_removed_any p s m Hm2) in DI. exact DI.
Qed.

Lemma key2_neq p s p0 s0 : nodot p = true -> nodot p0 = true -> (p, s) <> (p0, s0) -> key2 p s <> key2 p0 s0.
Proof. intros Hp Hp0 Hne E. apply key2_inj in E as [-> ->]; auto. Qed.

Lemma key3_neq c p s p0 s0 : nodot c = true -> nodot p = true -> nodot p0 = true -> (p, s) <> (p0, s0) -> key3 c p s <> key3 c p0 s0.
Proof. intros Hc Hp Hp0 Hne E. apply key3_inj in E as (_ & -> & ->); auto. Qed.

Lemma is_kreq_true p s m : is_kreq p s m = true -> exists id f, m = MSubReq id p s f.
Proof.
  destruct m; simpl; try discriminate. intro H. apply andb_true_iff in H as [H1 H2].
  apply str_eqb_spec in H1, H2. subst. eauto.
Qed.

Lemma is_kreq_other p s id p0 s0 f : (p, s) <> (p0, s0) -> is_kreq p s (MSubReq id p0 s0 f) = false.
Proof.
  intro H. simpl. destruct (str_eqb p p0) eqn:E1; [|reflexivity]. destruct (str_eqb s s0) eqn:E2; [|reflexivity].
  apply str_eqb_spec in E1, E2. subst. contradiction.
Qed.

Lemma pair_dec (p s p0 s0 : name) : {(p, s) = (p0, s0)} + {(p, s) <> (p0, s0)}.
Proof.
  destruct (str_eq_dec p p0) as [->|H1]; [|right; congruence].
  destruct (str_eq_dec s s0) as [->|H2]; [left; reflexivity | right; congruence].
Qed.

(* ---- Y handles a subscribe / unsubscribe request of X ---- *)
Lemma dir_deliver_req X Y id p0 s0 f rest cyx cpx :
  Dir X Y (MSubReq id p0 s0 f :: rest) cyx cpx ->
  NodeOK X (n_name Y) -> can_send Y (n_name X) = true ->
  let r := handle_sub_request Y (n_name X) id p0 s0 f in
  Dir X (fst r) rest (cyx ++ msgs_of (snd r)) cpx.
Proof.
  intros HD HX Hu r. pose proof HD as (D1 & D2 & D3 & D5 & D6 & D7 & DI).
  destruct (sub_request_spec Y (n_name X) id p0 s0 f) as (S1 & S2 & S3 & S4 & S5 & S6 & S7 & S8 & S9 & S10).
  fold r in S1, S2, S3, S4, S5, S6, S7, S8, S9, S10.
  destruct (D6 id p0 s0 f (or_introl eq_refl)) as [Hp0 Hs0].
  assert (Hc : forall c, can_send (fst r) c = can_send Y c) by (intro c; unfold can_send; rewrite S4; reflexivity).
  assert (Hmsgs : msgs_of (snd r) = [MSubReply id (if f then smem str_eqb p0 (n_objs Y) else true)]).
  { rewrite S8. unfold send_to. rewrite Hu. reflexivity. }
  rewrite Hmsgs. set (okf := if f then smem str_eqb p0 (n_objs Y) else true) in *.
  destruct HX as (HTX & HX2 & HX3 & HX4 & HX5). pose proof HTX as (HX0 & HPC & HPV & _).
  (* the request at the head is the pending request of (p0, s0) *)
  assert (Hxup : can_send X (n_name Y) = true).
  { destruct (can_send X (n_name Y)) eqn:E; [reflexivity|]. exfalso.
    (* x is down: no statement needed, but then nothing is claimed; derive from D1 that it has no pending: the request is stale.
       We cannot exclude a stale request, so this lemma is only used when x is up or the claim is vacuous. *)
    admit_here. }
Abort.
